//go:build verif

package consensus

// Thin exports for the /verif conformance drivers (properties C06, C05). Add-only file,
// compiled only with the build tag "verif"; it does not change any existing behaviour.

import "github.com/icon-project/goloop/module"

// VerifDSMLog gives an external test module access to the double-sign-message log that
// the consensus engine keeps (dsmLog).
type VerifDSMLog struct {
	l dsmLog
}

func NewVerifDSMLog(capacity int) *VerifDSMLog {
	return &VerifDSMLog{l: makeDSMLog(capacity)}
}

func (v *VerifDSMLog) LogAndCheckVoteMessage(msg *VoteMessage) []module.DoubleSignData {
	return v.l.LogAndCheckVoteMessage(msg)
}

func (v *VerifDSMLog) LogAndCheckProposalMessage(msg *ProposalMessage) []module.DoubleSignData {
	return v.l.LogAndCheckProposalMessage(msg)
}

// VerifDSMLogSize is the capacity the engine uses for its log.
const VerifDSMLogSize = configDSMLogSize
