//go:build verif

package consensus

import "github.com/icon-project/goloop/module"

// Thin exports for the /verif conformance drivers (properties C01, C02, C04). Add-only file,
// compiled only with the build tag "verif"; it does not change any existing behaviour.

// VerifVoteSet exposes the unexported voteSet (C04).
type VerifVoteSet struct {
	vs *voteSet
}

func VerifNewVoteSet(nValidators int) *VerifVoteSet {
	return &VerifVoteSet{vs: newVoteSet(nValidators)}
}

func (v *VerifVoteSet) Add(index int, msg *VoteMessage) bool { return v.vs.add(index, msg) }
func (v *VerifVoteSet) HasOverTwoThirds() bool               { return v.vs.hasOverTwoThirds() }
func (v *VerifVoteSet) OverTwoThirdsPartSetID() (*PartSetID, bool) {
	return v.vs.getOverTwoThirdsPartSetID()
}
func (v *VerifVoteSet) VoteList() *VoteList { return v.vs.voteList() }
func (v *VerifVoteSet) VoteListForOverTwoThirds() *VoteList {
	return v.vs.voteListForOverTwoThirds()
}
func (v *VerifVoteSet) Slot(index int) *VoteMessage { return v.vs.msgs[index] }

// VerifSignerIs reports whether the vote was signed by addr.
func VerifSignerIs(v *VoteMessage, addr module.Address) bool {
	a := v.address()
	return a != nil && a.Equal(addr)
}
