//go:build verif

package consensus

// VerifWALHousekeep runs ONE housekeeping pass of a file WAL writer synchronously, i.e. exactly
// what the writer's ticker goroutine does on every tick (C03 driver: rotation and trimming are
// scheduled by the specification instead of by wall-clock time). Add-only, tag "verif".
func VerifWALHousekeep(w WALWriter) bool {
	ww, ok := w.(*walWriter)
	if ok {
		ww.doHousekeeping()
	}
	return ok
}
