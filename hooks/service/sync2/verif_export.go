//go:build verif

package sync2

// Add-only test shim for the /verif harness (C20): lets an external module run the real
// syncProcessor with a caller-supplied DataSender (the fake network) and inject peer answers.

import (
	"github.com/icon-project/goloop/common/errors"
	"github.com/icon-project/goloop/common/log"
	"github.com/icon-project/goloop/common/merkle"
	"github.com/icon-project/goloop/module"
)

type VerifHarness struct {
	sp *syncProcessor
	r  *ReactorCommon
}

// NewVerifHarness builds a syncProcessor (not a data syncer) over one reactor whose requests go to sender.
func NewVerifHarness(b merkle.Builder, sender DataSender, l log.Logger) *VerifHarness {
	r := &ReactorCommon{logger: l, version: protoV2, readyPool: newPeerPool(), sender: sender}
	return &VerifHarness{sp: newSyncProcessor(b, []SyncReactor{r}, l, false), r: r}
}

func (h *VerifHarness) Join(id module.PeerID)  { h.r.OnJoin(id) }
func (h *VerifHarness) Leave(id module.PeerID) { h.r.OnLeave(id) }
func (h *VerifHarness) DoSync() error          { return h.sp.DoSync() }
func (h *VerifHarness) Stop()                  { h.sp.Stop() }

// Respond delivers the answer of peer id to its request reqID (as ReactorV2.onResponse does).
func (h *VerifHarness) Respond(id module.PeerID, reqID uint32, data []BucketIDAndBytes) error {
	p := h.r.readyPool.getPeer(id)
	if p == nil {
		return errors.ErrNotFound
	}
	return p.OnData(reqID, NoError, data)
}

// Pools returns the sizes of the ready, sent and checked pools (0,0,0 after the processor finished).
func (h *VerifHarness) Pools() (ready, sent, checked int) {
	h.sp.mutex.Lock()
	defer h.sp.mutex.Unlock()
	if h.sp.readyPool == nil {
		return
	}
	return h.sp.readyPool.size(), h.sp.sentPool.size(), h.sp.checkedPool.size()
}
