//go:build verif

package transaction

// VerifIntToKey exposes the index -> trie key encoding of transaction lists (C22).
func VerifIntToKey(i int) []byte { return intToKey(i) }
