//go:build verif

// Add-only shim for the verification harness in /verif (build tag "verif"); no production code
// path uses it.
package icsim

import (
	"math/big"

	"github.com/icon-project/goloop/icon/iiss"
	"github.com/icon-project/goloop/icon/iiss/icstate"
	"github.com/icon-project/goloop/module"
	"github.com/icon-project/goloop/service/state"
)

// VerifAddresses returns the accounts NewEnv created (P-Reps, users, bonders) and the treasury.
func (env *Env) VerifAddresses() (preps, users, bonders []module.Address, treasuryAddr module.Address) {
	return env.preps, env.users, env.bonders, treasury
}

// VerifSetLockMultipliers stores new unstake lock multipliers in the IISS state between two
// blocks (State.SetLockVariables, the call the revision handler uses), so that
// State.GetUnstakeLockPeriod returns lockMin*termPeriod .. lockMax*termPeriod from the next block on.
func VerifSetLockMultipliers(s Simulator, lockMin, lockMax int64) error {
	sim := s.(*simulatorImpl)
	wc := NewWorldContext(newWorldState(sim.wss, false), sim.blockHeight, sim.revision, nil, sim.stepPrice)
	es := getExtensionState(wc)
	if err := es.State.SetLockVariables(big.NewInt(lockMin), big.NewInt(lockMax)); err != nil {
		return err
	}
	wss := wc.GetSnapshot()
	if err := wss.Flush(); err != nil {
		return err
	}
	sim.wss = wss
	return nil
}

// VerifTotalDelegation returns State.GetTotalDelegation of the last finalized block.
func VerifTotalDelegation(s Simulator) *big.Int {
	sim := s.(*simulatorImpl)
	return sim.getReadonlyExtensionState().State.GetTotalDelegation()
}

// VerifUnstakeLockPeriod returns State.GetUnstakeLockPeriod as the next block would see it.
func VerifUnstakeLockPeriod(s Simulator) int64 {
	sim := s.(*simulatorImpl)
	return sim.getReadonlyExtensionState().State.GetUnstakeLockPeriod(sim.revision.Value(), sim.TotalSupply())
}

// VerifFork returns an independent simulator that continues from the last finalized block of s
// (same database, same world snapshot, its own reward calculator started from that snapshot, as
// a node restarting from its database would).  s itself is not affected by blocks of the fork.
func VerifFork(s Simulator) Simulator {
	sim := s.(*simulatorImpl)
	n := &simulatorImpl{
		config:      sim.config,
		logger:      sim.logger,
		blockHeight: sim.blockHeight,
		revision:    sim.revision,
		stepPrice:   sim.stepPrice,
		wss:         sim.wss,
	}
	n.onFinalize(n.wss)
	return n
}

// VerifAccount is the state of one account in the last finalized block.
type VerifAccount struct {
	Balance *big.Int
	Account *icstate.AccountSnapshot // nil if the account has no IISS state
}

// VerifObserve reads balances and IISS account snapshots of many accounts from one read-only
// view of the last finalized block (GetBalance/GetAccountSnapshot build a new view per call).
func VerifObserve(s Simulator, addrs []module.Address) []VerifAccount {
	sim := s.(*simulatorImpl)
	ws := state.NewReadOnlyWorldState(sim.wss)
	es := sim.getReadonlyExtensionState()
	res := make([]VerifAccount, len(addrs))
	for i, a := range addrs {
		res[i].Balance = ws.GetAccountState(a.ID()).GetBalance()
		res[i].Account = es.State.GetAccountSnapshot(a)
	}
	return res
}

// VerifPRepStatus reports for every owner whether it is an active P-Rep ("active"), was one ("unregistered"/"disqualified") or never registered ("none")
// in the last finalized block.
func VerifPRepStatus(s Simulator, owners []module.Address) []string {
	sim := s.(*simulatorImpl)
	es := sim.getReadonlyExtensionState()
	res := make([]string, len(owners))
	for i, o := range owners {
		p := es.State.GetPRepByOwner(o)
		switch {
		case p == nil || p.Status() == icstate.NotReady: // a status record without registration (delegated to only)
			res[i] = "none"
		case p.IsActive():
			res[i] = "active"
		case p.Status() == icstate.Disqualified:
			res[i] = "disqualified"
		default:
			res[i] = "unregistered"
		}
	}
	return res
}

// VerifPRepVotes returns delegated and bonded amounts recorded in the P-Rep status of owner (nil if there is none).
func VerifPRepVotes(s Simulator, owner module.Address) (delegated, bonded *big.Int) {
	sim := s.(*simulatorImpl)
	p := sim.getReadonlyExtensionState().State.GetPRepByOwner(owner)
	if p == nil {
		return nil, nil
	}
	return p.Delegated(), p.Bonded()
}

// VerifRestart returns a simulator that continues from the last finalized block of s like a node restarted from
// its database: world, validator and extension snapshots are rebuilt from their hashes, so every object read
// afterwards is decoded from the stored bytes instead of coming from the in-memory object caches of s.
func VerifRestart(s Simulator) (Simulator, error) {
	sim := s.(*simulatorImpl)
	old := sim.wss
	dbase := old.Database()
	vss, err := state.ValidatorSnapshotFromHash(dbase, old.GetValidatorSnapshot().Hash())
	if err != nil {
		return nil, err
	}
	ess := iiss.NewExtensionSnapshot(dbase, old.ExtensionData())
	wss := state.NewWorldSnapshot(dbase, old.StateHash(), vss, ess, old.BTPData())
	n := &simulatorImpl{
		config:      sim.config,
		logger:      sim.logger,
		blockHeight: sim.blockHeight,
		revision:    sim.revision,
		stepPrice:   sim.stepPrice,
		wss:         wss,
	}
	n.onFinalize(wss)
	return n, nil
}
