//go:build verif

package block

// Read-only view of the block manager's candidate tree for the /verif conformance driver
// (spec/chain/BlockTree.tla). Add-only file, compiled only with the build tag "verif".

import "github.com/icon-project/goloop/module"

// VerifTreeNode describes one node of the manager's map.
type VerifTreeNode struct {
	ID       []byte
	ParentID []byte // nil for the root of the map
	Height   int64
	NRef     int
	Children int
}

// VerifTree returns the nodes currently in the manager's map and the id of the last finalized block.
func VerifTree(bm module.BlockManager) (nodes []VerifTreeNode, finalized []byte, ok bool) {
	m, ok := bm.(*manager)
	if !ok {
		return nil, nil, false
	}
	m.syncer.begin()
	defer m.syncer.end()
	for _, bn := range m.nmap {
		n := VerifTreeNode{ID: bn.block.ID(), Height: bn.block.Height(), NRef: bn.nRef, Children: len(bn.children)}
		if bn.parent != nil {
			n.ParentID = bn.parent.block.ID()
		}
		nodes = append(nodes, n)
	}
	if m.finalized != nil {
		finalized = m.finalized.block.ID()
	}
	return nodes, finalized, true
}
