//go:build verif

package network

// Thin exports for the /verif conformance harness (build tag "verif" only, add-only file).
// Nothing here changes behaviour: the functions construct objects of this package with
// chosen field values, call the unexported entry points and read unexported fields back.

import (
	"bytes"
	"context"
	"fmt"
	"net"
	"sync"
	"time"

	"github.com/icon-project/goloop/common/log"
	"github.com/icon-project/goloop/module"
)

func verifLogger() log.Logger {
	l := log.New()
	l.SetLevel(log.PanicLevel)
	l.SetConsoleLevel(log.PanicLevel)
	return l
}

// ---------------------------------------------------------------- packets (C30, C33)

// VerifPacket lists the wire-visible fields of a Packet.
type VerifPacket struct {
	Protocol    uint16
	SubProtocol uint16
	Src         []byte // 20 bytes
	Dest        byte
	TTL         byte
	Payload     []byte
	ExtHint     byte
	Ext         []byte
	Hash        uint64
}

// VerifNewPacket builds a packet with every header field chosen by the caller
// (NewPacket leaves src nil, newPacket fixes dest/ttl). The hash is left to WriteTo.
func VerifNewPacket(f VerifPacket) *Packet {
	pkt := NewPacket(module.ProtocolInfo(f.Protocol), module.ProtocolInfo(f.SubProtocol), f.Payload)
	pkt.src = NewPeerID(f.Src)
	pkt.dest = f.Dest
	pkt.ttl = f.TTL
	if len(f.Ext) > 0 || f.ExtHint != 0 {
		pkt.extendInfo = newPacketExtendInfo(f.ExtHint, len(f.Ext))
		pkt.ext = f.Ext
	}
	return pkt
}

// VerifPacketOf reads the fields of a packet back.
func VerifPacketOf(p *Packet) VerifPacket {
	f := VerifPacket{
		Protocol:    p.protocol.Uint16(),
		SubProtocol: p.subProtocol.Uint16(),
		Dest:        p.dest,
		TTL:         p.ttl,
		Payload:     p.payload,
		ExtHint:     p.extendInfo.hint(),
		Hash:        p.hashOfPacket,
	}
	if p.src != nil {
		f.Src = p.src.Bytes()
	}
	if n := p.extendInfo.len(); n > 0 && len(p.ext) >= n {
		f.Ext = p.ext[:n]
	}
	return f
}

// VerifPacketUpdateHash fills hashOfPacket as the sender does before writing.
func VerifPacketUpdateHash(p *Packet) error { return p.updateHash(false) }

const (
	VerifPacketHeaderSize = packetHeaderSize
	VerifPacketFooterSize = packetFooterSize
	VerifDestAny          = p2pDestAny
	VerifDestSeed         = p2pDestSeed
	VerifDestRoot         = p2pDestRoot
	VerifDestPeer         = p2pDestPeer
	VerifRoleNone         = byte(p2pRoleNone)
	VerifRoleSeed         = byte(p2pRoleSeed)
	VerifRoleRoot         = byte(p2pRoleRoot)
	VerifConnTypeNone     = byte(p2pConnTypeNone)
	VerifConnTypeParent   = byte(p2pConnTypeParent)
	VerifConnTypeChildren = byte(p2pConnTypeChildren)
	VerifConnTypeFriend   = byte(p2pConnTypeFriend)
	VerifConnTypeOther    = byte(p2pConnTypeOther)
)

// ---------------------------------------------------------------- encrypted channel (C31)

// VerifSecureEnd is one end of an ECDHE-keyed SecureConn with its derived key material.
type VerifSecureEnd struct {
	Conn      *SecureConn
	InSecret  []byte
	OutSecret []byte
	Extra     []byte
	IsLower   bool
	PublicKey []byte
}

// VerifSecurePair keys two SecureConns against each other exactly as
// Authenticator.applySecureConn does (secureKey.setup with two secrets, the accepting
// side passing defaultLower=true) on top of the two raw connections given by the caller,
// who owns the transport in between (the "tap").
func VerifSecurePair(sa SecureAeadSuite, rawDialer, rawAcceptor net.Conn) (*VerifSecureEnd, *VerifSecureEnd, error) {
	ka := newSecureKey(DefaultSecureEllipticCurve, nil)
	kb := newSecureKey(DefaultSecureEllipticCurve, nil)
	if err := ka.setup(sa, kb.marshalPublicKey(), false, 2); err != nil {
		return nil, nil, err
	}
	if err := kb.setup(sa, ka.marshalPublicKey(), true, 2); err != nil {
		return nil, nil, err
	}
	ca, err := NewSecureConn(rawDialer, sa, ka)
	if err != nil {
		return nil, nil, err
	}
	cb, err := NewSecureConn(rawAcceptor, sa, kb)
	if err != nil {
		return nil, nil, err
	}
	mk := func(c *SecureConn, k *secureKey) *VerifSecureEnd {
		return &VerifSecureEnd{Conn: c, InSecret: c.in.secret, OutSecret: c.out.secret, Extra: k.extra,
			IsLower: k.isLower, PublicKey: k.marshalPublicKey()}
	}
	return mk(ca, ka), mk(cb, kb), nil
}

const (
	VerifSecureFrameSize  = secureConnFrameSize
	VerifSecureHeaderSize = secureConnHeaderSize
)

// VerifSecureOverhead is the AEAD tag length of the suite used by c.
func VerifSecureOverhead(c *SecureConn) int { return c.out.aead.Overhead() }

// ---------------------------------------------------------------- flooding (C33)

type verifNopConn struct{ closed bool }

type verifAddr struct{}

func (verifAddr) Network() string { return "verif" }
func (verifAddr) String() string  { return "verif" }

func (c *verifNopConn) Read(b []byte) (int, error)         { select {} }
func (c *verifNopConn) Write(b []byte) (int, error)        { return len(b), nil }
func (c *verifNopConn) Close() error                       { c.closed = true; return nil }
func (c *verifNopConn) LocalAddr() net.Addr                { return verifAddr{} }
func (c *verifNopConn) RemoteAddr() net.Addr               { return verifAddr{} }
func (c *verifNopConn) SetDeadline(t time.Time) error      { return nil }
func (c *verifNopConn) SetReadDeadline(t time.Time) error  { return nil }
func (c *verifNopConn) SetWriteDeadline(t time.Time) error { return nil }

// VerifDelivery is one invocation of the registered packet callback.
type VerifDelivery struct {
	Peer   int
	Packet VerifPacket
}

// VerifFlood is a PeerToPeer with a small dedup pool, hand-made peers and a recording callback.
type VerifFlood struct {
	p2p       *PeerToPeer
	peers     []*Peer
	mtx       sync.Mutex
	Delivered []VerifDelivery
}

// VerifNewFlood creates a PeerToPeer for node `self` whose dedup pool has
// numOfBucket x lenOfBucket entries and registers a recording callback for each protocol.
func VerifNewFlood(self []byte, numOfBucket uint8, lenOfBucket uint16, protocols ...uint16) *VerifFlood {
	l := verifLogger()
	sp := newPeer(&verifNopConn{}, false, "", l)
	sp.setID(NewPeerID(self))
	f := &VerifFlood{}
	f.p2p = newPeerToPeer("verif", sp, nil, nil, l)
	f.p2p.packetPool = NewPacketPool(numOfBucket, lenOfBucket)
	for _, pi := range protocols {
		f.p2p.setCbFunc(module.ProtocolInfo(pi), f.record, nil)
	}
	return f
}

func (f *VerifFlood) record(pkt *Packet, p *Peer) {
	f.mtx.Lock()
	defer f.mtx.Unlock()
	idx := -1
	for i, q := range f.peers {
		if q == p {
			idx = i
		}
	}
	f.Delivered = append(f.Delivered, VerifDelivery{Peer: idx, Packet: VerifPacketOf(pkt)})
}

// AddPeer makes a connected peer with the given identity, role flags and connection type
// that speaks the given protocols; returns its index.
func (f *VerifFlood) AddPeer(id []byte, role byte, connType byte, protocols ...uint16) int {
	p := newPeer(&verifNopConn{}, true, "", verifLogger())
	p.setID(NewPeerID(id))
	p.setRole(PeerRoleFlag(role))
	p.setConnType(PeerConnectionType(connType))
	pis := newProtocolInfos()
	for _, pi := range protocols {
		pis.Add(module.ProtocolInfo(pi))
	}
	p.setProtocolInfos(pis)
	f.peers = append(f.peers, p)
	return len(f.peers) - 1
}

// SetAllowedRoots sets the node's validator (root) id set; call it before adding peers.
func (f *VerifFlood) SetAllowedRoots(ids ...[]byte) {
	var l []module.PeerID
	for _, id := range ids {
		l = append(l, NewPeerID(id))
	}
	f.p2p.allowedRoots.ClearAndAdd(l...)
}

// AddPeerClaiming makes a connected peer that CLAIMED the given role flags in its query: the claim is
// stored as the received role and the peer's role is resolved against the node's role sets exactly as
// handleQuery / handleQueryResult do (resolveRole with onlyUnSet). Returns the index and the resolved role.
func (f *VerifFlood) AddPeerClaiming(id []byte, claimed byte, connType byte, protocols ...uint16) (int, byte) {
	i := f.AddPeer(id, 0, connType, protocols...)
	p := f.peers[i]
	p.setRecvRole(PeerRoleFlag(claimed))
	p.setRole(f.p2p.resolveRole(PeerRoleFlag(claimed), p.ID(), true))
	return i, byte(p.Role())
}

// OnPacket hands a received packet to PeerToPeer.onPacket as Peer.receiveRoutine does.
func (f *VerifFlood) OnPacket(peer int, pkt *Packet) {
	p := f.peers[peer]
	pkt.sender = p.ID()
	f.p2p.onPacket(pkt, p)
}

func (f *VerifFlood) PeerClosed(peer int) bool { return f.peers[peer].IsClosed() }

// DeliveredCount returns the number of callback invocations so far.
func (f *VerifFlood) DeliveredCount() int {
	f.mtx.Lock()
	defer f.mtx.Unlock()
	return len(f.Delivered)
}

// ---------------------------------------------------------------- authenticator (C32)

// VerifNewAuthenticator wraps newAuthenticator.
func VerifNewAuthenticator(w module.Wallet) *Authenticator { return newAuthenticator(w, verifLogger()) }

type verifNextHandler struct {
	*peerHandler
	on func(p *Peer)
}

func (h *verifNextHandler) onPeer(p *Peer) { h.on(p) }

// VerifAuthSetNext registers fn as the handler that receives a peer once the authenticator
// has accepted it (Authenticator.nextOnPeer).
func VerifAuthSetNext(a *Authenticator, fn func(p *Peer)) {
	a.setNext(&verifNextHandler{peerHandler: newPeerHandler(a.self, verifLogger()), on: fn})
}

// VerifAuthNewPeer creates the Peer object for a fresh connection (in = accepted side).
func VerifAuthNewPeer(conn net.Conn, in bool, channel string) *Peer {
	p := newPeer(conn, in, "", verifLogger())
	if !in {
		p.setChannel(channel) // PeerDispatcher.onConnect does this for dialled connections
	}
	return p
}

// VerifAuthOnPeer / VerifAuthOnPacket are the two callbacks of the handler chain.
func VerifAuthOnPeer(a *Authenticator, p *Peer)                { a.onPeer(p) }
func VerifAuthOnPacket(a *Authenticator, pkt *Packet, p *Peer) { a.onPacket(pkt, p) }

// VerifPeerSessionSecret returns the per-session "extra" secret of the peer's secure key
// (nil before the key exchange).
func VerifPeerSessionSecret(p *Peer) []byte {
	if p.secureKey == nil {
		return nil
	}
	return p.secureKey.extra
}

// VerifPeerReader returns the peer's packet reader (reset onto a SecureConn after the key exchange).
func VerifPeerReader(p *Peer) *PacketReader { return p.reader }

// VerifPeerConn returns the connection the peer currently writes to.
func VerifPeerConn(p *Peer) net.Conn { return p.conn }

const (
	VerifProtoAuth             = uint16(0x0000)
	VerifAuthSecureRequest     = uint16(0x0100)
	VerifAuthSecureResponse    = uint16(0x0200)
	VerifAuthSignatureRequest  = uint16(0x0300)
	VerifAuthSignatureResponse = uint16(0x0400)
)

// ---------------------------------------------------------------- connection management (Topology)

// VerifTopo is a set of PeerToPeer instances (one per node) joined pairwise by hand-made Peer
// objects; packets stay in the real per-peer send queues until the driver delivers them.
type VerifTopo struct {
	nodes []*PeerToPeer
	peers [][]*Peer // peers[a][b]: the peer object for node b at node a (nil for a == b)
	ids   [][]byte
}

// VerifTopoState is what node a knows about peer b.
type VerifTopoState struct {
	ConnType   byte
	Closed     bool
	Transiting bool
	Rejected   bool
	Queued     int // packets waiting in the send queue a->b
}

// VerifNewTopo builds len(ids) nodes with the given roles, a full mesh of connections (b is an
// incoming connection of a iff dials[b][a]), every peer in the orphanage, views of roles accurate,
// and the connection limits {parent, uncle, children, nephew, other}.
func VerifNewTopo(ids [][]byte, roles []byte, dials [][]bool, limits [5]int) *VerifTopo {
	t := &VerifTopo{ids: ids, peers: make([][]*Peer, len(ids))}
	for a := range ids {
		l := verifLogger()
		sp := newPeer(&verifNopConn{}, false, "", l)
		sp.setID(NewPeerID(ids[a]))
		sp.setNetAddress(NetAddress(fmt.Sprintf("10.0.0.%d:8080", a+1)))
		p2p := newPeerToPeer("verif", sp, nil, nil, l)
		p2p.setRole(PeerRoleFlag(roles[a]))
		for i, ct := range []PeerConnectionType{p2pConnTypeParent, p2pConnTypeUncle, p2pConnTypeChildren, p2pConnTypeNephew, p2pConnTypeOther} {
			p2p.setConnectionLimit(ct, limits[i])
		}
		t.nodes = append(t.nodes, p2p)
	}
	for a := range ids {
		t.peers[a] = make([]*Peer, len(ids))
		for b := range ids {
			if a == b {
				continue
			}
			p := newPeer(&verifNopConn{}, !dials[a][b], "", verifLogger())
			p.setID(NewPeerID(ids[b]))
			p.setNetAddress(NetAddress(fmt.Sprintf("10.0.0.%d:8080", b+1)))
			p.setRole(PeerRoleFlag(roles[b]))
			p.setRecvRole(PeerRoleFlag(roles[b]))
			pis := newProtocolInfos()
			pis.Add(p2pProtoControl)
			p.setProtocolInfos(pis)
			p.PutAttr(AttrSupportDefaultProtocols, true)
			p.setCloseCbFunc(t.nodes[a].onClose)
			t.nodes[a].addPeer(p)
			t.peers[a][b] = p
		}
	}
	return t
}

// TryTransit calls tryTransitPeerConnection(peer b, connType) at node a.
func (t *VerifTopo) TryTransit(a, b int, connType byte) bool {
	return t.nodes[a].tryTransitPeerConnection(t.peers[a][b], PeerConnectionType(connType))
}

// Deliver takes the next packet of the send queue a->b, serializes and parses it and hands it to
// PeerToPeer.onPacket of node b (dropped if b has closed the connection). It returns the
// sub-protocol and the decoded (requested type, connection type) of the packet.
func (t *VerifTopo) Deliver(a, b int) (sub uint16, rt, ct byte, dropped bool, err error) {
	ctx := t.peers[a][b].q.Pop()
	if ctx == nil {
		return 0, 0, 0, false, fmt.Errorf("nothing queued from %d to %d", a, b)
	}
	pkt := ctx.Value(p2pContextKeyPacket).(*Packet)
	var wire bytes.Buffer
	if _, err = pkt.WriteTo(&wire); err != nil {
		return
	}
	rp := &Packet{}
	if _, err = rp.ReadFrom(&wire); err != nil {
		return
	}
	sub = rp.subProtocol.Uint16()
	switch rp.subProtocol {
	case p2pProtoConnReq:
		m := &P2PConnectionRequest{}
		if err = t.nodes[b].decode(rp.payload, m); err != nil {
			return
		}
		rt = byte(m.ConnType)
	case p2pProtoConnResp:
		m := &P2PConnectionResponse{}
		if err = t.nodes[b].decode(rp.payload, m); err != nil {
			return
		}
		rt, ct = byte(m.ReqConnType), byte(m.ConnType)
	}
	if t.peers[b][a].IsClosed() {
		return sub, rt, ct, true, nil
	}
	rp.sender = t.peers[b][a].ID()
	t.nodes[b].onPacket(rp, t.peers[b][a])
	return sub, rt, ct, false, nil
}

// InjectResponse queues a P2PConnectionResponse{reqType, connType} from b to a without b's handlers.
func (t *VerifTopo) InjectResponse(b, a int, reqType, connType byte) error {
	m := &P2PConnectionResponse{ReqConnType: PeerConnectionType(reqType), ConnType: PeerConnectionType(connType)}
	pkt := newPacket(p2pProtoControl, p2pProtoConnResp, t.nodes[b].encode(m), t.nodes[b].ID())
	return t.peers[b][a].sendPacket(pkt)
}

// SetRole calls PeerToPeer.setRole at node a.
func (t *VerifTopo) SetRole(a int, role byte) { t.nodes[a].setRole(PeerRoleFlag(role)) }

// Role returns the node's own role flags.
func (t *VerifTopo) Role(a int) byte { return byte(t.nodes[a].Role()) }

// Learn gives node x the current role of node a the way the query handlers do (the seed/root
// address books are left alone so that no discover round tries to dial).
func (t *VerifTopo) Learn(x, a int) {
	p := t.peers[x][a]
	r := t.nodes[a].Role()
	rr := t.nodes[x].resolveRole(r, p.ID(), true)
	p.setRecvRole(r)
	if !p.EqualsRole(rr) {
		p.setRole(rr)
	}
}

// Close closes node a's peer object for b.
func (t *VerifTopo) Close(a, b int) { _ = t.peers[a][b].Close("verif") }

// State reads what node a holds about peer b.
func (t *VerifTopo) State(a, b int) VerifTopoState {
	p := t.peers[a][b]
	p.q.lock.Lock()
	n := p.q.len
	p.q.lock.Unlock()
	return VerifTopoState{ConnType: byte(p.ConnType()), Closed: p.IsClosed(), Transiting: t.nodes[a].transiting.Contains(p),
		Rejected: t.nodes[a].reject.Contains(p), Queued: n}
}

// QueuedTypes lists the packets waiting in the send queue a->b (oldest first) as
// {sub-protocol, requested type, connection type}; the queue is left as it was.
func (t *VerifTopo) QueuedTypes(a, b int) [][3]uint16 {
	q := t.peers[a][b].q
	var ctxs []context.Context
	for c := q.Pop(); c != nil; c = q.Pop() {
		ctxs = append(ctxs, c)
	}
	var res [][3]uint16
	for _, c := range ctxs {
		pkt := c.Value(p2pContextKeyPacket).(*Packet)
		e := [3]uint16{pkt.subProtocol.Uint16(), 0, 0}
		switch pkt.subProtocol {
		case p2pProtoConnReq:
			m := &P2PConnectionRequest{}
			if t.nodes[a].decode(pkt.payload, m) == nil {
				e[1] = uint16(m.ConnType)
			}
		case p2pProtoConnResp:
			m := &P2PConnectionResponse{}
			if t.nodes[a].decode(pkt.payload, m) == nil {
				e[1], e[2] = uint16(m.ReqConnType), uint16(m.ConnType)
			}
		}
		res = append(res, e)
		q.Push(c, int(pkt.priority))
	}
	return res
}

// InSet reports whether peer b is a member of node a's set for its current connection type.
func (t *VerifTopo) InSet(a, b int) bool {
	p := t.peers[a][b]
	return t.nodes[a].m[p.ConnType()].Contains(p)
}

// Count returns the number of peers of the given connection type at node a.
func (t *VerifTopo) Count(a int, connType byte) int {
	return t.nodes[a].lenPeers(PeerConnectionType(connType))
}

// DiscoverTick performs the connection decisions of one discoveryTicker round of discoverRoutine at
// node a (same calls in the same order; dialling of unconnected addresses is left out).
func (t *VerifTopo) DiscoverTick(a int) {
	p2p := t.nodes[a]
	r := p2p.Role()
	if r.Has(p2pRoleRoot) {
		p2p.discoverFriends()
		return
	}
	rr := p2pRoleSeed
	if r == p2pRoleSeed {
		rr = p2pRoleRoot
	}
	for _, p := range p2p.findPeers(nil, p2pConnTypeFriend) {
		p2p.tryTransitPeerConnection(p, p2pConnTypeNone)
	}
	if p2p.discoverParents(rr) {
		p2p.discoverUncles(rr)
	}
}
