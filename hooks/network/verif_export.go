//go:build verif

package network

// Thin exports for the /verif conformance harness (build tag "verif" only, add-only file).
// Nothing here changes behaviour: the functions construct objects of this package with
// chosen field values, call the unexported entry points and read unexported fields back.

import (
	"net"
	"sync"
	"time"

	"github.com/icon-project/goloop/common/log"
	"github.com/icon-project/goloop/module"
)

func verifLogger() log.Logger {
	l := log.New()
	l.SetLevel(log.PanicLevel)
	l.SetConsoleLevel(log.PanicLevel)
	return l
}

// ---------------------------------------------------------------- packets (C30, C33)

// VerifPacket lists the wire-visible fields of a Packet.
type VerifPacket struct {
	Protocol    uint16
	SubProtocol uint16
	Src         []byte // 20 bytes
	Dest        byte
	TTL         byte
	Payload     []byte
	ExtHint     byte
	Ext         []byte
	Hash        uint64
}

// VerifNewPacket builds a packet with every header field chosen by the caller
// (NewPacket leaves src nil, newPacket fixes dest/ttl). The hash is left to WriteTo.
func VerifNewPacket(f VerifPacket) *Packet {
	pkt := NewPacket(module.ProtocolInfo(f.Protocol), module.ProtocolInfo(f.SubProtocol), f.Payload)
	pkt.src = NewPeerID(f.Src)
	pkt.dest = f.Dest
	pkt.ttl = f.TTL
	if len(f.Ext) > 0 || f.ExtHint != 0 {
		pkt.extendInfo = newPacketExtendInfo(f.ExtHint, len(f.Ext))
		pkt.ext = f.Ext
	}
	return pkt
}

// VerifPacketOf reads the fields of a packet back.
func VerifPacketOf(p *Packet) VerifPacket {
	f := VerifPacket{
		Protocol:    p.protocol.Uint16(),
		SubProtocol: p.subProtocol.Uint16(),
		Dest:        p.dest,
		TTL:         p.ttl,
		Payload:     p.payload,
		ExtHint:     p.extendInfo.hint(),
		Hash:        p.hashOfPacket,
	}
	if p.src != nil {
		f.Src = p.src.Bytes()
	}
	if n := p.extendInfo.len(); n > 0 && len(p.ext) >= n {
		f.Ext = p.ext[:n]
	}
	return f
}

// VerifPacketUpdateHash fills hashOfPacket as the sender does before writing.
func VerifPacketUpdateHash(p *Packet) error { return p.updateHash(false) }

const (
	VerifPacketHeaderSize = packetHeaderSize
	VerifPacketFooterSize = packetFooterSize
	VerifDestAny          = p2pDestAny
	VerifDestSeed         = p2pDestSeed
	VerifDestRoot         = p2pDestRoot
	VerifDestPeer         = p2pDestPeer
	VerifRoleNone         = byte(p2pRoleNone)
	VerifRoleSeed         = byte(p2pRoleSeed)
	VerifRoleRoot         = byte(p2pRoleRoot)
	VerifConnTypeNone     = byte(p2pConnTypeNone)
	VerifConnTypeParent   = byte(p2pConnTypeParent)
	VerifConnTypeChildren = byte(p2pConnTypeChildren)
	VerifConnTypeFriend   = byte(p2pConnTypeFriend)
	VerifConnTypeOther    = byte(p2pConnTypeOther)
)

// ---------------------------------------------------------------- encrypted channel (C31)

// VerifSecureEnd is one end of an ECDHE-keyed SecureConn with its derived key material.
type VerifSecureEnd struct {
	Conn      *SecureConn
	InSecret  []byte
	OutSecret []byte
	Extra     []byte
	IsLower   bool
	PublicKey []byte
}

// VerifSecurePair keys two SecureConns against each other exactly as
// Authenticator.applySecureConn does (secureKey.setup with two secrets, the accepting
// side passing defaultLower=true) on top of the two raw connections given by the caller,
// who owns the transport in between (the "tap").
func VerifSecurePair(sa SecureAeadSuite, rawDialer, rawAcceptor net.Conn) (*VerifSecureEnd, *VerifSecureEnd, error) {
	ka := newSecureKey(DefaultSecureEllipticCurve, nil)
	kb := newSecureKey(DefaultSecureEllipticCurve, nil)
	if err := ka.setup(sa, kb.marshalPublicKey(), false, 2); err != nil {
		return nil, nil, err
	}
	if err := kb.setup(sa, ka.marshalPublicKey(), true, 2); err != nil {
		return nil, nil, err
	}
	ca, err := NewSecureConn(rawDialer, sa, ka)
	if err != nil {
		return nil, nil, err
	}
	cb, err := NewSecureConn(rawAcceptor, sa, kb)
	if err != nil {
		return nil, nil, err
	}
	mk := func(c *SecureConn, k *secureKey) *VerifSecureEnd {
		return &VerifSecureEnd{Conn: c, InSecret: c.in.secret, OutSecret: c.out.secret, Extra: k.extra,
			IsLower: k.isLower, PublicKey: k.marshalPublicKey()}
	}
	return mk(ca, ka), mk(cb, kb), nil
}

const (
	VerifSecureFrameSize  = secureConnFrameSize
	VerifSecureHeaderSize = secureConnHeaderSize
)

// VerifSecureOverhead is the AEAD tag length of the suite used by c.
func VerifSecureOverhead(c *SecureConn) int { return c.out.aead.Overhead() }

// ---------------------------------------------------------------- flooding (C33)

type verifNopConn struct{ closed bool }

type verifAddr struct{}

func (verifAddr) Network() string { return "verif" }
func (verifAddr) String() string  { return "verif" }

func (c *verifNopConn) Read(b []byte) (int, error)         { select {} }
func (c *verifNopConn) Write(b []byte) (int, error)        { return len(b), nil }
func (c *verifNopConn) Close() error                       { c.closed = true; return nil }
func (c *verifNopConn) LocalAddr() net.Addr                { return verifAddr{} }
func (c *verifNopConn) RemoteAddr() net.Addr               { return verifAddr{} }
func (c *verifNopConn) SetDeadline(t time.Time) error      { return nil }
func (c *verifNopConn) SetReadDeadline(t time.Time) error  { return nil }
func (c *verifNopConn) SetWriteDeadline(t time.Time) error { return nil }

// VerifDelivery is one invocation of the registered packet callback.
type VerifDelivery struct {
	Peer   int
	Packet VerifPacket
}

// VerifFlood is a PeerToPeer with a small dedup pool, hand-made peers and a recording callback.
type VerifFlood struct {
	p2p       *PeerToPeer
	peers     []*Peer
	mtx       sync.Mutex
	Delivered []VerifDelivery
}

// VerifNewFlood creates a PeerToPeer for node `self` whose dedup pool has
// numOfBucket x lenOfBucket entries and registers a recording callback for each protocol.
func VerifNewFlood(self []byte, numOfBucket uint8, lenOfBucket uint16, protocols ...uint16) *VerifFlood {
	l := verifLogger()
	sp := newPeer(&verifNopConn{}, false, "", l)
	sp.setID(NewPeerID(self))
	f := &VerifFlood{}
	f.p2p = newPeerToPeer("verif", sp, nil, nil, l)
	f.p2p.packetPool = NewPacketPool(numOfBucket, lenOfBucket)
	for _, pi := range protocols {
		f.p2p.setCbFunc(module.ProtocolInfo(pi), f.record, nil)
	}
	return f
}

func (f *VerifFlood) record(pkt *Packet, p *Peer) {
	f.mtx.Lock()
	defer f.mtx.Unlock()
	idx := -1
	for i, q := range f.peers {
		if q == p {
			idx = i
		}
	}
	f.Delivered = append(f.Delivered, VerifDelivery{Peer: idx, Packet: VerifPacketOf(pkt)})
}

// AddPeer makes a connected peer with the given identity, role flags and connection type
// that speaks the given protocols; returns its index.
func (f *VerifFlood) AddPeer(id []byte, role byte, connType byte, protocols ...uint16) int {
	p := newPeer(&verifNopConn{}, true, "", verifLogger())
	p.setID(NewPeerID(id))
	p.setRole(PeerRoleFlag(role))
	p.setConnType(PeerConnectionType(connType))
	pis := newProtocolInfos()
	for _, pi := range protocols {
		pis.Add(module.ProtocolInfo(pi))
	}
	p.setProtocolInfos(pis)
	f.peers = append(f.peers, p)
	return len(f.peers) - 1
}

// OnPacket hands a received packet to PeerToPeer.onPacket as Peer.receiveRoutine does.
func (f *VerifFlood) OnPacket(peer int, pkt *Packet) {
	p := f.peers[peer]
	pkt.sender = p.ID()
	f.p2p.onPacket(pkt, p)
}

func (f *VerifFlood) PeerClosed(peer int) bool { return f.peers[peer].IsClosed() }

// DeliveredCount returns the number of callback invocations so far.
func (f *VerifFlood) DeliveredCount() int {
	f.mtx.Lock()
	defer f.mtx.Unlock()
	return len(f.Delivered)
}

// ---------------------------------------------------------------- authenticator (C32)

// VerifNewAuthenticator wraps newAuthenticator.
func VerifNewAuthenticator(w module.Wallet) *Authenticator { return newAuthenticator(w, verifLogger()) }

type verifNextHandler struct {
	*peerHandler
	on func(p *Peer)
}

func (h *verifNextHandler) onPeer(p *Peer) { h.on(p) }

// VerifAuthSetNext registers fn as the handler that receives a peer once the authenticator
// has accepted it (Authenticator.nextOnPeer).
func VerifAuthSetNext(a *Authenticator, fn func(p *Peer)) {
	a.setNext(&verifNextHandler{peerHandler: newPeerHandler(a.self, verifLogger()), on: fn})
}

// VerifAuthNewPeer creates the Peer object for a fresh connection (in = accepted side).
func VerifAuthNewPeer(conn net.Conn, in bool, channel string) *Peer {
	p := newPeer(conn, in, "", verifLogger())
	if !in {
		p.setChannel(channel) // PeerDispatcher.onConnect does this for dialled connections
	}
	return p
}

// VerifAuthOnPeer / VerifAuthOnPacket are the two callbacks of the handler chain.
func VerifAuthOnPeer(a *Authenticator, p *Peer)                { a.onPeer(p) }
func VerifAuthOnPacket(a *Authenticator, pkt *Packet, p *Peer) { a.onPacket(pkt, p) }

// VerifPeerSessionSecret returns the per-session "extra" secret of the peer's secure key
// (nil before the key exchange).
func VerifPeerSessionSecret(p *Peer) []byte {
	if p.secureKey == nil {
		return nil
	}
	return p.secureKey.extra
}

// VerifPeerReader returns the peer's packet reader (reset onto a SecureConn after the key exchange).
func VerifPeerReader(p *Peer) *PacketReader { return p.reader }

// VerifPeerConn returns the connection the peer currently writes to.
func VerifPeerConn(p *Peer) net.Conn { return p.conn }

const (
	VerifProtoAuth             = uint16(0x0000)
	VerifAuthSecureRequest     = uint16(0x0100)
	VerifAuthSecureResponse    = uint16(0x0200)
	VerifAuthSignatureRequest  = uint16(0x0300)
	VerifAuthSignatureResponse = uint16(0x0400)
)
