//go:build verif

// Verification hook (add-only, compiled only with -tags verif): a read-only snapshot of the
// locator manager's internal bookkeeping, taken under the manager lock. Used by the
// model-based replay driver in /verif/harness/txlocator to synchronise with the asynchronous
// flush worker and to compare the cache state with the TLA+ model (diagnostic only).

package txlocator

import "github.com/icon-project/goloop/module"

// VerifList describes one committed transaction list kept in the manager's window cache.
type VerifList struct {
	Height int64
	TS     int64
	TH     int64
	IDs    []string
}

// VerifState is a copy of the manager's bookkeeping.
type VerifState struct {
	Terminated bool
	Locators   []string
	Cache      [2][]VerifList
	MaxTSInDB  [2]int64
	Queued     int // flush jobs pushed but not yet fetched by the worker
	Workers    int // running flush workers
}

// VerifSnapshot returns the bookkeeping of a manager created by NewManager.
func VerifSnapshot(lm module.LocatorManager) VerifState {
	m := lm.(*manager)
	m.lock.Lock()
	defer m.lock.Unlock()

	var s VerifState
	s.Terminated = m.locators == nil
	for id := range m.locators {
		s.Locators = append(s.Locators, id)
	}
	for g := 0; g < 2; g++ {
		s.MaxTSInDB[g] = m.cache[g].maxTSInDB
		for l := m.cache[g].head; l != nil; l = l.next {
			vl := VerifList{Height: l.height, TS: l.ts, TH: l.th}
			for loc := l.head; loc != nil; loc = loc.next {
				vl.IDs = append(vl.IDs, loc.id)
			}
			s.Cache[g] = append(s.Cache[g], vl)
		}
	}
	for j := m.flushHead; j != nil; j = j.next {
		s.Queued++
	}
	s.Workers = m.flushWorker
	return s
}
