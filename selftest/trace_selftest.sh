#!/bin/bash
# Trace_ParallelExec must accept the recorded good trace and reject the corrupted variants.
# usage: selftest/trace_selftest.sh   (prints accepted=1/0 per file; expected: good 1, bad-* 0)
D=$(mktemp -d /var/tmp/trace-selftest.XXXX); cd "$(dirname "$0")/.."
cp spec/exec/ParallelExec.tla spec/exec/Trace_ParallelExec.tla spec/exec/Trace_ParallelExec.cfg $D/
for f in selftest/C09-trace-*.ndjson; do
  cp $f $D/trace.ndjson
  n=$(cd $D && JAVA_TOOL_OPTIONS="-Xss64m -Dtlc2.tool.queue.IStateQueue=StateDeque" timeout 600 tlc -config Trace_ParallelExec.cfg -metadir $D/meta -workers 1 -deadlock Trace_ParallelExec.tla 2>&1 | grep -c "Invariant NotAccepted is violated")
  rm -rf $D/meta; echo "$(basename $f) accepted=$n"
done
rm -rf $D
