#!/bin/bash
# mutant self-tests for C09 / C10 / C37 on the scratch worktree /var/tmp/wt-exec2 (carries the C10 repair)
W=/var/tmp/wt-exec2
L=/var/tmp/bx-pe/logs; mkdir -p $L
P=/verif/selftest/patches
cd $W
run() { prop=$1; name=$2; (cd $W && git diff > $P/$prop-$name.patch); (cd /verif && VERIF_DEV_SKIP_MC=1 VERIF_REPO=$W VERIF_WORKERS=4 python3 tools/check.py $prop quick > $L/mut-$prop-$name.log 2>&1; echo rc=$? >> $L/mut-$prop-$name.log); }
base() { git checkout -q service/state/worldvirtualstate.go service/transition_se.go service/transactionpool.go service/transition_pe.go; python3 - <<'P'
p='service/transition_pe.go'
s=open(p).read()
s=s.replace("	if c.lastError != nil {\n		c.lastError = e","	if c.lastError == nil {\n		c.lastError = e")
s=s.replace("		wvs.Realize()\n	}\n	return nil","		wvs.Realize()\n	}\n	return ec.Error()")
open(p,'w').write(s)
P
}
edit() { python3 - "$@" <<'P'
import sys
p,old,new=sys.argv[1],sys.argv[2],sys.argv[3]
s=open(p).read()
old=old.encode().decode('unicode_escape'); new=new.encode().decode('unicode_escape')
assert s.count(old)>=1, (p, old)
s=s.replace(old,new,1)
open(p,'w').write(s)
P
}
# ---- C09
base; edit service/state/worldvirtualstate.go '		if las.depend != nil {\n			las.depend.waitCommit()\n			if las.lock == AccountWriteLock {' '		if las.depend != nil {\n			if las.lock != AccountReadLock {\n				las.depend.waitCommit()\n			}\n			if las.lock == AccountWriteLock {'
run C09 M1-read-lock-does-not-wait
base; edit service/state/worldvirtualstate.go '		if las.lock == AccountWriteLock {\n			wvs.setLocker(id, wvs)\n		}\n	}\n}' '	}\n}'
run C09 M2-write-lockers-not-registered
base; edit service/state/worldvirtualstate.go '			las.depend = nil\n			las.base = las.state.GetSnapshot()\n		}\n		return las.state' '			las.base = las.state.GetSnapshot()\n			las.depend = nil\n		}\n		return las.state'
run C09 N1-reorder-independent-statements
# ---- C10
base; edit service/transition_se.go '				t.log.Warnf("Fail to execute transaction err=%+v", err)\n				return err' '				t.log.Warnf("Fail to execute transaction err=%+v", err)\n				break'
run C10 M1-sequential-skips-failed-tx
base; edit service/transition_pe.go '					t.log.Warnf("Fail to execute transaction retry=%d err=%+v", retry, err)\n					ec.Report(err)\n					break' '					t.log.Warnf("Fail to execute transaction retry=%d err=%+v", retry, err)\n					break'
run C10 M2-retry-exhausted-not-reported
base; edit service/transition_pe.go '					t.log.Warnf("Fail to execute transaction err=%+v", err)' '					t.log.Debugf("Fail to execute transaction err=%+v", err)'
run C10 N1-log-level
# ---- C37
base; edit service/transactionpool.go 'tx.PreValidate(wc, true)' 'tx.PreValidate(wc, false)'
run C37 M1-prevalidate-without-update
base; edit service/transactionpool.go '		} else if has {\n			e.err = errors.InvalidStateError.New("AlreadyProcessed")' '		} else if has && false {\n			e.err = errors.InvalidStateError.New("AlreadyProcessed")'
run C37 M2-committed-not-filtered
base; edit service/transactionpool.go '				dropped = append(dropped, e)\n			}\n			continue\n		}\n		if has, err' '				dropped = append(dropped, e)\n				continue\n			}\n		}\n		if has, err'
run C37 M3-future-tx-not-skipped
base; edit service/transactionpool.go 'configDefaultTxSliceCapacity    = 1024' 'configDefaultTxSliceCapacity    = 16'
run C37 N1-slice-capacity
base
