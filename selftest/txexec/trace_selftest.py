#!/usr/bin/env python3
"""Self-test of spec/txexec/Trace_TxExec.tla (C15/C16): a recorded good trace of the real code
(good.ndjson, 3 blocks) must be accepted without a verdict; every corrupted variant (one field
of one record changed, one transaction removed) must yield the expected verdict-bearing predicate.

    python3 selftest/txexec/trace_selftest.py        # exit 0 iff all variants behave as expected
"""
import copy, json, os, shutil, subprocess, sys, tempfile
HERE = os.path.dirname(os.path.abspath(__file__))
ROOT = os.path.dirname(os.path.dirname(HERE))
sys.path.insert(0, os.path.join(ROOT, "tools"))
import vlib

good = [json.loads(l) for l in open(os.path.join(HERE, "good.ndjson"))]


def find(pred):
    for bi, b in enumerate(good):
        for ti, t in enumerate(b["txs"]):
            if pred(b, t):
                return bi, ti
    raise SystemExit("good.ndjson lacks a transaction needed by the self-test")


def variant(name, expect, edit):
    tr = copy.deepcopy(good)
    edit(tr)
    return name, set(expect), tr


def later_posts(b, ti, f):
    """apply f to the recorded post-world of tx ti and of everything after it in the block"""
    for t in b["txs"][ti:]:
        f(t["post"])
    f(b["end"])


V = [("good", set(), good)]
# 1. a failed transaction whose state change survived (storage of the called contract)
bi, ti = find(lambda b, t: t["tx"]["kind"] == "call" and not t["rc"]["ok"] and t["tx"]["to"] in ("x", "y"))
def e1(tr):
    b = tr[bi]
    later_posts(b, ti, lambda w: w["st"][b["txs"][ti]["tx"]["to"]].__setitem__("k1", 2))
V.append(variant("failed-tx-storage-kept", ["FailedOnlyPayer"], e1))
# 2. the real state hash said that something else changed
def e2(tr):
    tr[bi]["txs"][ti]["rc"]["onlypayer"] = False
V.append(variant("failed-tx-hash-differs", ["OnlyPayerHash"], e2))
# 3. a failed transaction with an event log on its receipt
def e3(tr):
    tr[bi]["txs"][ti]["rc"]["logs"] = 1
V.append(variant("failed-tx-with-log", ["NoOutputOnFailure"], e3))
# 4. sender of a plain transfer charged one unit too much (and the unit vanished)
pb, pt = find(lambda b, t: t["tx"]["kind"] in ("transfer", "message") and t["rc"]["ok"] and t["tx"]["to"] in "abct")
def e4(tr):
    b = tr[pb]
    frm = b["txs"][pt]["tx"]["from"]
    later_posts(b, pt, lambda w: w["bal"].__setitem__(frm, w["bal"][frm] - 1))
V.append(variant("sender-overcharged", ["PlainTransfer", "Conserved", "SenderCharged"], e4))
# 5. stepUsed above the step limit
def e5(tr):
    t = tr[pb]["txs"][pt]
    t["rc"]["su"] = t["tx"]["limit"] + 1
V.append(variant("stepused-above-limit", ["StepBounds"], e5))
# 6. the treasury did not get the fees
fb = next(i for i, b in enumerate(good) if sum(t["rc"]["su"] * t["rc"]["price"] for t in b["txs"]) > 0)
def e6(tr):
    b = tr[fb]
    b["end"]["bal"]["t"] = b["txs"][-1]["post"]["bal"]["t"]
V.append(variant("treasury-not-credited", ["TreasuryGetsFees", "TotalConserved"], e6))
# 7. a successful call that lost the event logs of its frames
ob, ot = find(lambda b, t: t["rc"]["ok"] and t["rc"]["logs"] > 0)
def e7(tr):
    tr[ob]["txs"][ot]["rc"]["logs"] -= 1
V.append(variant("ok-tx-log-missing", ["FrameOutput"], e7))
# 8. a transaction removed from a block: the next recorded pre-state no longer follows
def e8(tr):
    b = next(b for b in tr if len(b["txs"]) >= 2 and b["txs"][0]["tx"]["kind"] != "price"
             and b["txs"][0]["rc"]["su"] * b["txs"][0]["rc"]["price"] > 0)
    del b["txs"][0]
V.append(variant("transaction-removed", None or ["ANY"], e8))
# 9. reported step price that is not the chain's
def e9(tr):
    t = tr[pb]["txs"][pt]
    t["rc"]["price"] = tr[pb]["price"] + 5
V.append(variant("foreign-step-price", ["PriceReported"], e9))

CONSTS = """CONSTANTS
  Users = {"a", "b", "c", "d"}
"""


def run(tr):
    wd = tempfile.mkdtemp(prefix="txexec-selftest.", dir=os.environ.get("VERIF_SCRATCH") or "/var/tmp")
    try:
        for f in os.listdir(os.path.join(ROOT, "spec", "txexec")):
            shutil.copy(os.path.join(ROOT, "spec", "txexec", f), wd)
        cfg = open(os.path.join(wd, "Trace_TxExec.cfg")).read()
        cfg = "\n".join(l for l in cfg.splitlines() if not l.strip().startswith("Users")) + "\n" + CONSTS
        open(os.path.join(wd, "t.cfg"), "w").write(cfg)
        with open(os.path.join(wd, "trace.ndjson"), "w") as fh:
            for b in tr:
                fh.write(json.dumps(b, sort_keys=True) + "\n")
        p = subprocess.run(["tlc", "-config", "t.cfg", "-metadir", os.path.join(wd, "meta"), "-deadlock",
                            "-workers", "1", "Trace_TxExec.tla"], cwd=wd, stdout=subprocess.PIPE,
                           stderr=subprocess.STDOUT, text=True, timeout=600)
        lines = [l for l in p.stdout.splitlines() if l.startswith("<<")]
        done = vlib.parse_tagged(lines, "D")
        fails = set()
        for v in vlib.parse_tagged(lines, "V"):
            fails |= set(v["fails"])
        return p.returncode, bool(done) and done[-1]["blocks"] == len(tr), fails
    finally:
        shutil.rmtree(wd, ignore_errors=True)


bad = 0
for name, expect, tr in V:
    rc, consumed, fails = run(tr)
    if expect == {"ANY"}:
        ok = rc == 0 and consumed and len(fails) > 0
    else:
        ok = rc == 0 and consumed and (fails == set() if not expect else expect <= fails)
    print("%-26s %s  verdicts=%s" % (name, "ok" if ok else "UNEXPECTED", sorted(fails)))
    bad += 0 if ok else 1
sys.exit(1 if bad else 0)
