#!/bin/bash
# C11 mutants on top of the fixed tree (/var/tmp/wt-exec)
cd /var/tmp/wt-exec
run() { name=$1; (cd /verif && VERIF_DEV_SKIP_MC=1 VERIF_REPO=/var/tmp/wt-exec VERIF_WORKERS=4 python3 tools/check.py C11 quick > /var/tmp/bx-tl/mut-$name.log 2>&1; echo rc=$? >> /var/tmp/bx-tl/mut-$name.log); }
# M1: tracker.Add skips the parent look-up for single-element lists
cp common/txlocator/manager.go /var/tmp/bx-tl/manager.go.fixed
python3 - <<'P'
p='common/txlocator/manager.go'
s=open(p).read()
s=s.replace("			if !force {\n				if has, err := t.parentHasInLock","			if !force && cnt > 0 {\n				if has, err := t.parentHasInLock")
open(p,'w').write(s)
P
git diff --stat > /var/tmp/bx-tl/mut-M1.diff; run M1; cp /var/tmp/bx-tl/manager.go.fixed common/txlocator/manager.go
# M2: CheckTxTimestamp lower bound <= -> <
cp service/tschecker.go /var/tmp/bx-tl/tschecker.go.orig
sed -i 's/	if ts <= min {/	if ts < min {/' service/tschecker.go
git diff --stat > /var/tmp/bx-tl/mut-M2.diff; run M2; cp /var/tmp/bx-tl/tschecker.go.orig service/tschecker.go
# M3: upper bound of the window exclusive
sed -i 's/	} else if ts > max {/	} else if ts >= max {/' service/tschecker.go
run M3; cp /var/tmp/bx-tl/tschecker.go.orig service/tschecker.go
# N1 (neutral): evict cache lists earlier (still correct through the DB)
python3 - <<'P'
p='common/txlocator/manager.go'
s=open(p).read()
s=s.replace("		if ptrMax > listMin {\n			break","		if ptrMax > listMin+list.th {\n			break")
open(p,'w').write(s)
P
git diff --stat > /var/tmp/bx-tl/mut-N1.diff; run N1; cp /var/tmp/bx-tl/manager.go.fixed common/txlocator/manager.go
