package btpproof

// Replays the proof decision table of spec/cert/QuorumCert.tla (vector form) into the real BTP
// proof contexts of btp/ntm (C29).  The oracle is the TLA+ text: a case is a vector of symbolic
// signatures [who, what] (or a single part with a claimed index) with the predicted verdict.  The
// driver concretizes them with real secp256k1 wallets for the "eth" and "icon" network type
// modules, goes through the wire encodings (NewProofFromBytes / NewProofPartFromBytes, or
// NewProof + Add) and compares accept/reject of BTPProofContext.Verify / VerifyPart.

import (
	"bytes"
	"encoding/json"
	"fmt"
	"hash/fnv"
	"math/rand"
	"runtime/debug"
	"strings"
	"testing"

	"github.com/icon-project/goloop/btp/ntm"
	"github.com/icon-project/goloop/common/codec"
	"github.com/icon-project/goloop/common/crypto"
	"github.com/icon-project/goloop/common/wallet"
	"github.com/icon-project/goloop/module"

	"verifharness/tlaio"
)

type asig struct {
	Who  int    `json:"who"`
	What string `json:"what"`
}

type step struct {
	Op     string          `json:"op"`
	N      int             `json:"n"`
	Proof  []asig          `json:"proof"`
	Idx    int             `json:"idx"`
	Part   asig            `json:"part"`
	Res    json.RawMessage `json:"res"`
	Ctx    string          `json:"ctx"`
	Who    int             `json:"who"`
	Kind   string          `json:"kind"`
	Defect string          `json:"defect"`
	Target string          `json:"target"`
	Parts  []string        `json:"parts"`
}

func (s step) res() string {
	var x string
	if json.Unmarshal(s.Res, &x) == nil {
		return x
	}
	return string(s.Res)
}

// walletProvider hands the context the signing key, as the chain does for a validator
type walletProvider struct{ w module.Wallet }

func (p walletProvider) WalletFor(dsa string) module.BaseWallet { return p.w }

// wire formats of btp/ntm/secp256k1proof.go
type wirePart struct {
	Index     int
	Signature *crypto.Signature
}
type wireProof struct {
	Signatures []*crypto.Signature
}

type world struct {
	uid     string
	pc      module.BTPProofContext
	wallets []module.Wallet // 0 = not a validator
	dHash   []byte
	other   []byte
}

func newWorld(rnd *rand.Rand, uid string, n int, ctx string) (*world, error) {
	w := &world{uid: uid, wallets: make([]module.Wallet, n+1)}
	keys := make([][]byte, n)
	for i := 0; i <= n; i++ {
		w.wallets[i] = wallet.New()
		if i > 0 {
			keys[i-1] = w.wallets[i].PublicKey()
		}
	}
	mod := ntm.ForUID(uid)
	if mod == nil {
		return nil, fmt.Errorf("no network type module %q", uid)
	}
	pc, err := mod.NewProofContext(keys)
	if err != nil {
		return nil, err
	}
	if ctx == "restored" {
		// the context as a node gets it: decoded from the bytes stored in the state
		if pc, err = mod.NewProofContextFromBytes(pc.Bytes()); err != nil {
			return nil, err
		}
	}
	w.pc = pc
	src := []byte(fmt.Sprintf("0x%x.icon", 1+rnd.Intn(100)))
	h, r := int64(10+rnd.Intn(100)), int32(rnd.Intn(3))
	nts := make([]byte, 32)
	rnd.Read(nts)
	w.dHash = pc.NewDecision(src, 1, h, r, nts).Hash()
	switch rnd.Intn(3) {
	case 0:
		w.other = pc.NewDecision(src, 1, h, r+1, nts).Hash()
	case 1:
		w.other = pc.NewDecision(src, 1, h+1, r, nts).Hash()
	default:
		w.other = pc.NewDecision(src, 2, h, r, nts).Hash()
	}
	return w, nil
}

func (w *world) sig(rnd *rand.Rand, s asig) (*crypto.Signature, string, error) {
	sign := func(hash []byte) ([]byte, error) { return w.wallets[s.Who].Sign(hash) }
	switch s.What {
	case "ok":
		bs, err := sign(w.dHash)
		if err != nil {
			return nil, "", err
		}
		sg, err := crypto.ParseSignature(bs)
		return sg, "", err
	case "other":
		bs, err := sign(w.other)
		if err != nil {
			return nil, "", err
		}
		sg, err := crypto.ParseSignature(bs)
		return sg, "", err
	case "forged":
		rsv, err := sign(w.dHash)
		if err != nil {
			return nil, "", err
		}
		var variant string
		switch rnd.Intn(3) {
		case 0:
			variant = "random"
			rnd.Read(rsv[:64])
			rsv[0] &= 0x7f
			rsv[32] &= 0x7f
		case 1:
			variant = "bitflip"
			rsv[rnd.Intn(64)] ^= 1 << uint(rnd.Intn(8))
		default:
			variant = "flag"
			rsv[64] ^= 1
		}
		sg, err := crypto.ParseSignature(rsv)
		return sg, variant, err
	case "garbage":
		sg, err := crypto.ParseSignature(make([]byte, 65))
		return sg, "zero-rs", err
	}
	return nil, "", fmt.Errorf("unknown signature kind %q", s.What)
}

func call(f func() error) (err error, panicked string) {
	defer func() {
		if r := recover(); r != nil {
			panicked = fmt.Sprintf("%v\n%s", r, debug.Stack())
		}
	}()
	return f(), ""
}

func firstLine(s string) string {
	if i := strings.IndexByte(s, '\n'); i >= 0 {
		return s[:i]
	}
	return s
}

func sigOf(uid string, s step) string {
	var b bytes.Buffer
	fmt.Fprintf(&b, "%s:%s:%s:n%d:", uid, s.Ctx, s.Op, s.N)
	if s.Op == "newpart" {
		fmt.Fprintf(&b, "w%d", s.Who)
	}
	if s.Op == "decode" {
		fmt.Fprintf(&b, "%s:%s", s.Kind, s.Defect)
	}
	if s.Op == "verifyproof" && len(s.Proof) != s.N {
		fmt.Fprintf(&b, "w%d:", len(s.Proof))
	}
	if s.Op == "verifypart" {
		fmt.Fprintf(&b, "i%d:%d%s", s.Idx, s.Part.Who, s.Part.What)
	}
	for _, c := range s.Proof {
		fmt.Fprintf(&b, "%d%s,", c.Who, c.What)
	}
	return b.String()
}

const maxPerKey = 8

func TestReplay(t *testing.T) {
	if !tlaio.HaveInput() {
		t.Skip("driven by tools/check.py")
	}
	ntm.InitIconModule() // the icon module is registered on demand only (the eth module always)
	out := tlaio.OpenOut()
	rnd := tlaio.Rand()
	worlds := map[string]*world{}
	perKey := map[string]int{}
	suppressed := 0
	violation := func(id, key, what string, det interface{}) {
		perKey[key]++
		if perKey[key] > maxPerKey {
			suppressed++
			return
		}
		out.Violation(id, key, what, det)
	}
	err := tlaio.ReadInput(func(idx int, raw json.RawMessage) error {
		if !tlaio.Mine(idx) {
			return nil
		}
		var steps []step
		if err := json.Unmarshal(raw, &steps); err != nil {
			return err
		}
		s := steps[0]
		for _, uid := range []string{"eth", "icon"} {
			wk := fmt.Sprintf("%s/%d/%s", uid, s.N, s.Ctx)
			w := worlds[wk]
			if w == nil {
				var err error
				if w, err = newWorld(rnd, uid, s.N, s.Ctx); err != nil {
					return err
				}
				worlds[wk] = w
			}
			h := fnv.New64a()
			h.Write([]byte(sigOf(uid, s)))
			crnd := rand.New(rand.NewSource(tlaio.Seed() ^ int64(h.Sum64()>>1)))
			id := fmt.Sprintf("c%d/%s", idx, uid)
			var notes []string
			var verr error
			var panicked, how string
			var wire []byte
			switch s.Op {
			case "verifyproof":
				// the proof has the width the case says: fewer, as many or more slots than the context has validators
				width := len(s.Proof)
				wp := wireProof{Signatures: make([]*crypto.Signature, width)}
				for i, a := range s.Proof {
					if a.What == "none" {
						continue
					}
					sg, note, err := w.sig(crnd, a)
					if err != nil {
						return err
					}
					if note != "" {
						notes = append(notes, fmt.Sprintf("%d:%s", i, note))
					}
					wp.Signatures[i] = sg
				}
				wire = codec.MustMarshalToBytes(&wp)
				var pf module.BTPProof
				if width != s.N || crnd.Intn(2) == 0 {
					// a serialized proof as a peer sends it (the only way to get a width other than n)
					how = "NewProofFromBytes"
					var err error
					if pf, err = w.pc.NewProofFromBytes(wire); err != nil {
						return fmt.Errorf("case %d: proof does not decode: %v", idx, err)
					}
					if pf.ValidatorCount() != width {
						return fmt.Errorf("case %d: decoded proof has %d slots, built %d", idx, pf.ValidatorCount(), width)
					}
				} else {
					// assemble from parts in a random order, as the consensus engine does from precommits
					how = "NewProof+Add"
					pf = w.pc.NewProof()
					for _, i := range crnd.Perm(s.N) {
						if wp.Signatures[i] == nil {
							continue
						}
						pp, err := w.pc.NewProofPartFromBytes(codec.MustMarshalToBytes(&wirePart{i, wp.Signatures[i]}))
						if err != nil {
							return fmt.Errorf("case %d: part does not decode: %v", idx, err)
						}
						pf.Add(pp)
					}
					if !bytes.Equal(pf.Bytes(), wire) {
						out.Divergence(id, "proof assembled with Add encodes differently from the signature vector", nil)
						continue
					}
				}
				verr, panicked = call(func() error { return w.pc.Verify(w.dHash, pf) })
				if len(steps) > 1 && steps[1].Op == "reverify" && panicked == "" {
					// history on ONE context object: the same proof and its parts presented again, for this or for another decision
					rv := steps[1]
					hash := w.dHash
					if rv.Target == "d2" {
						hash = w.other
					}
					rerr, rp := call(func() error { return w.pc.Verify(hash, pf) })
					rdet := map[string]interface{}{"behaviour": steps, "uid": uid, "wire": fmt.Sprintf("%x", wire), "target": rv.Target,
						"spec": rv.res(), "real": fmt.Sprint(rerr), "first": fmt.Sprint(verr)}
					switch {
					case rp != "":
						violation(id, "btpproof:replayed:panic", fmt.Sprintf("%s Verify panics when the proof is presented again for %s: %s", uid, rv.Target, firstLine(rp)), rdet)
					case rerr == nil && rv.res() != "ok":
						violation(id, "btpproof:replayed:accepted:"+rv.res(), fmt.Sprintf("%s proof context accepts for decision %s a proof it has verified before for d1 "+
							"(the spec rejects: %s): %s", uid, rv.Target, rv.res(), sigOf(uid, s)), rdet)
					case rerr != nil && rv.res() == "ok":
						out.Divergence(id, fmt.Sprintf("%s proof context rejects on the second presentation a proof the spec accepts: %s: %v", uid, sigOf(uid, s), rerr), rdet)
					}
					for i, want := range rv.Parts {
						if want == "none" || i >= len(wp.Signatures) || wp.Signatures[i] == nil {
							continue
						}
						pp, err := w.pc.NewProofPartFromBytes(codec.MustMarshalToBytes(&wirePart{i, wp.Signatures[i]}))
						if err != nil {
							return fmt.Errorf("case %d: part does not decode: %v", idx, err)
						}
						perr, pp2 := call(func() error { _, e := w.pc.VerifyPart(hash, pp); return e })
						if pp2 == "" && perr == nil && want != "ok" {
							violation(id, "btppart:replayed:accepted:"+want, fmt.Sprintf("%s proof context accepts for decision %s the part of slot %d that it has "+
								"verified before for d1 (the spec rejects: %s): %s", uid, rv.Target, i, want, sigOf(uid, s)), rdet)
						}
					}
				}
			case "verifypart":
				sg, note, err := w.sig(crnd, s.Part)
				if err != nil {
					return err
				}
				if note != "" {
					notes = append(notes, note)
				}
				wire = codec.MustMarshalToBytes(&wirePart{s.Idx - 1, sg})
				how = "NewProofPartFromBytes"
				pp, err := w.pc.NewProofPartFromBytes(wire)
				if err != nil {
					return fmt.Errorf("case %d: part does not decode: %v", idx, err)
				}
				verr, panicked = call(func() error {
					ri, err := w.pc.VerifyPart(w.dHash, pp)
					if err == nil && ri != s.Idx-1 {
						return fmt.Errorf("driver: VerifyPart returned index %d for a part at %d", ri, s.Idx-1)
					}
					return err
				})
			case "newpart":
				// the context makes the part for the holder of a key; 0 is a key outside the validator list
				how = "NewProofPart"
				verr, panicked = call(func() error {
					pp, err := w.pc.NewProofPart(w.dHash, walletProvider{w.wallets[s.Who]})
					if err != nil {
						return err
					}
					wire = pp.Bytes()
					ri, err := w.pc.VerifyPart(w.dHash, pp)
					if err == nil && ri != s.Who-1 {
						return fmt.Errorf("driver: the part made for validator %d verifies at index %d", s.Who-1, ri)
					}
					return err
				})
			case "decode":
				good, _, err := w.sig(crnd, asig{Who: 1, What: "ok"})
				if err != nil {
					return err
				}
				if s.Kind == "proof" {
					wire = codec.MustMarshalToBytes(&wireProof{Signatures: []*crypto.Signature{good}})
				} else {
					wire = codec.MustMarshalToBytes(&wirePart{0, good})
				}
				switch s.Defect {
				case "trunc":
					wire = wire[:1+crnd.Intn(len(wire)-1)]
				case "scalar": // a byte string where a list is expected
					wire = codec.MustMarshalToBytes(wire)
				case "badsig": // a signature field that is not 64 or 65 bytes long
					if s.Kind == "proof" {
						wire = codec.MustMarshalToBytes(&struct{ S [][]byte }{[][]byte{make([]byte, 10+crnd.Intn(40))}})
					} else {
						wire = codec.MustMarshalToBytes(&struct {
							I int
							S []byte
						}{0, make([]byte, 10+crnd.Intn(40))})
					}
				}
				how = "decode " + s.Kind
				verr, panicked = call(func() error {
					if s.Kind == "proof" {
						_, err := w.pc.NewProofFromBytes(wire)
						return err
					}
					_, err := w.pc.NewProofPartFromBytes(wire)
					return err
				})
			default:
				return fmt.Errorf("unexpected op %q", s.Op)
			}
			want := s.res()
			accept := want == "ok" || (s.Op == "newpart" && want != "0")
			det := map[string]interface{}{"behaviour": steps, "uid": uid, "wire": fmt.Sprintf("%x", wire), "via": how,
				"variants": notes, "spec": want, "real": fmt.Sprint(verr)}
			obj := "proof"
			if s.Op == "verifypart" || s.Op == "newpart" {
				obj = "part"
			}
			if s.Op == "decode" {
				obj = "bytes:" + s.Kind
			}
			switch {
			case panicked != "":
				det["panic"] = panicked
				violation(id, "btp"+obj+":panic", fmt.Sprintf("%s %s panics instead of rejecting n=%d %s: %s", uid, s.Op, s.N,
					sigOf(uid, s), firstLine(panicked)), det)
			case verr == nil && !accept:
				if s.Op == "verifyproof" && len(s.Proof) < s.N {
					obj = "proof:narrow" // fewer slots than validators
				} else if s.Op == "verifyproof" && len(s.Proof) > s.N {
					obj = "proof:wide"
				}
				violation(id, "btp"+obj+":accepted:"+want, fmt.Sprintf("%s proof context accepts a %s the spec rejects (%s): %s",
					uid, obj, want, sigOf(uid, s)), det)
			case verr != nil && accept && s.Op == "newpart":
				// the holder of a validator key must get a part that verifies at its own index
				violation(id, "btppart:newpart:"+s.Ctx, fmt.Sprintf("%s NewProofPart for validator %d fails or yields a part that does not verify at its index: %v",
					uid, s.Who-1, verr), det)
			case verr != nil && accept:
				out.Divergence(id, fmt.Sprintf("%s proof context rejects a %s the spec accepts: %s: %v", uid, obj, sigOf(uid, s), verr), det)
			default:
				out.OK(id, true, sigOf(uid, s))
			}
		}
		return nil
	})
	if err != nil {
		t.Fatal(err)
	}
	out.Close(map[string]interface{}{"violations_per_key": perKey, "suppressed_violation_records": suppressed})
}
