package txlocator

// Transition-level binding of C11 (thorough tier): the block validations of a TxLocator.tla behaviour are
// replayed as real transitions -- service.NewTransition(parent, ..., alreadyValidated=false).Execute runs
// ensureRecordTXIDs (TXID logger of the parent + Add) and validateTxs (timestamp window from the world state's
// threshold) -- on chains / forks of really executed blocks; "commit" is service.FinalizeTransition of the block.
// Only behaviours with one threshold for all blocks are used (the threshold is read from the world state).
// The accept/reject decision of every block is compared with the specification's.

import (
	"bytes"
	"encoding/base64"
	"encoding/json"
	"fmt"
	"math/big"
	"strings"
	"sync"
	"testing"
	"time"

	"github.com/icon-project/goloop/common"
	"github.com/icon-project/goloop/common/crypto"
	"github.com/icon-project/goloop/common/db"
	"github.com/icon-project/goloop/common/errors"
	"github.com/icon-project/goloop/common/log"
	"github.com/icon-project/goloop/common/merkle"
	"github.com/icon-project/goloop/common/trie"
	"github.com/icon-project/goloop/common/wallet"
	"github.com/icon-project/goloop/module"
	"github.com/icon-project/goloop/service"
	"github.com/icon-project/goloop/service/contract"
	"github.com/icon-project/goloop/service/scoredb"
	"github.com/icon-project/goloop/service/state"
	"github.com/icon-project/goloop/service/transaction"
	"github.com/icon-project/goloop/service/txresult"
	"github.com/icon-project/goloop/test"

	"verifharness/tlaio"
)

// ---------------------------------------------------------------- set-up transaction (balances, step price, threshold)

type tlSetupTx struct {
	Type string `json:"type"`
	Salt int64  `json:"salt"`
	id   []byte
}

type tlSetup struct {
	sender module.Address
	thMS   int64
}

var (
	tlSetupMu sync.Mutex
	tlSetups  = map[int64]*tlSetup{}
	tlRegOnce sync.Once
)

func (t *tlSetupTx) Group() module.TransactionGroup { return module.TransactionGroupNormal }
func (t *tlSetupTx) ID() []byte {
	if t.id == nil {
		t.id = crypto.SHA3Sum256(t.Bytes())
	}
	return t.id
}
func (t *tlSetupTx) From() module.Address                           { return state.SystemAddress }
func (t *tlSetupTx) Bytes() []byte                                  { bs, _ := json.Marshal(t); return bs }
func (t *tlSetupTx) Hash() []byte                                   { return t.ID() }
func (t *tlSetupTx) Verify() error                                  { return nil }
func (t *tlSetupTx) Version() int                                   { return module.TransactionVersion3 }
func (t *tlSetupTx) ToJSON(module.JSONVersion) (interface{}, error) { return map[string]interface{}{"type": t.Type}, nil }
func (t *tlSetupTx) ValidateNetwork(int) bool                       { return true }
func (t *tlSetupTx) PreValidate(state.WorldContext, bool) error     { return nil }
func (t *tlSetupTx) Timestamp() int64                               { return 0 }
func (t *tlSetupTx) Nonce() *big.Int                                { return nil }
func (t *tlSetupTx) To() module.Address                             { return state.SystemAddress }
func (t *tlSetupTx) IsSkippable() bool                              { return false }
func (t *tlSetupTx) Reset(s db.Database, k []byte) error            { return json.Unmarshal(k, t) }
func (t *tlSetupTx) Flush() error                                   { return nil }
func (t *tlSetupTx) Resolve(merkle.Builder) error                   { return nil }
func (t *tlSetupTx) ClearCache()                                    {}
func (t *tlSetupTx) Dispose()                                       {}
func (t *tlSetupTx) Equal(o trie.Object) bool {
	x, ok := o.(*tlSetupTx)
	return ok && bytes.Equal(x.ID(), t.ID())
}
func (t *tlSetupTx) GetHandler(contract.ContractManager) (transaction.Handler, error) { return t, nil }
func (t *tlSetupTx) Prepare(ctx contract.Context) (state.WorldContext, error) {
	return ctx.GetFuture([]state.LockRequest{{ID: state.WorldIDStr, Lock: state.AccountWriteLock}}), nil
}
func (t *tlSetupTx) Execute(ctx contract.Context, wcs state.WorldSnapshot, estimate bool) (txresult.Receipt, error) {
	tlSetupMu.Lock()
	d := tlSetups[t.Salt]
	tlSetupMu.Unlock()
	if d == nil {
		return nil, errors.CriticalUnknownError.New("harness: unknown set-up")
	}
	huge := new(big.Int).Lsh(big.NewInt(1), 100)
	ctx.GetAccountState(d.sender.ID()).SetBalance(huge)
	sys := ctx.GetAccountState(state.SystemID)
	if err := scoredb.NewVarDB(sys, state.VarStepPrice).Set(big.NewInt(1)); err != nil {
		return nil, err
	}
	if err := scoredb.NewVarDB(sys, state.VarTimestampThreshold).Set(d.thMS); err != nil {
		return nil, err
	}
	r := txresult.NewReceipt(ctx.Database(), ctx.Revision(), t.To())
	r.SetResult(module.StatusSuccess, big.NewInt(0), big.NewInt(0), nil)
	return r, nil
}

func tlRegister() {
	tlRegOnce.Do(func() {
		transaction.RegisterFactory(&transaction.Factory{
			Priority: 3,
			CheckJSON: func(jso map[string]interface{}) bool {
				v, ok := jso["type"]
				return ok && v == "veriftlsetup"
			},
			ParseJSON: func(js []byte, jsm map[string]interface{}, raw bool) (transaction.Transaction, error) {
				t := &tlSetupTx{}
				if err := json.Unmarshal(js, t); err != nil {
					return nil, err
				}
				return t, nil
			},
		})
	})
}

type tlLenientT struct{}

func (tlLenientT) Errorf(format string, args ...interface{}) {}
func (tlLenientT) Logf(format string, args ...any)           {}

type tlEnv struct {
	node *test.Node
	nctx *test.NodeContext
}

func newTLEnv() *tlEnv {
	tlRegister()
	e := &tlEnv{}
	e.node = test.NewNode(tlLenientT{}, test.UseSMFactory(func(ctx *test.NodeContext) module.ServiceManager {
		e.nctx = ctx
		return test.NewServiceManager(ctx.C, ctx.Platform, ctx.CM, ctx.EM)
	}))
	e.nctx.C.Logger().SetLevel(log.PanicLevel)
	log.GlobalLogger().SetLevel(log.PanicLevel)
	return e
}

type tlCB struct {
	validated chan error
	executed  chan error
}

func (c *tlCB) OnValidate(tr module.Transition, err error) { c.validated <- err }
func (c *tlCB) OnExecute(tr module.Transition, err error)  { c.executed <- err }

func (e *tlEnv) execute(tr module.Transition) (verr error, xerr error, done bool) {
	k := &tlCB{validated: make(chan error, 1), executed: make(chan error, 1)}
	if _, err := tr.Execute(k); err != nil {
		return nil, err, true
	}
	select {
	case verr = <-k.validated:
	case <-time.After(20 * time.Second):
		return nil, fmt.Errorf("validation did not finish"), true
	}
	if verr != nil {
		return verr, nil, true
	}
	select {
	case xerr = <-k.executed:
	case <-time.After(20 * time.Second):
		return nil, fmt.Errorf("execution did not finish"), true
	}
	return nil, xerr, true
}

// runTransitions replays the block / commit steps of one behaviour as real transitions.
func runTransitions(e *tlEnv, in input, delta, salt int64) (v verdict) {
	v.at = -1
	c := e.nctx.C
	th := in.RootTh
	for _, s := range in.Steps {
		if s.Op == "block" && s.Th != th {
			v.divergence = "behaviour with varying thresholds cannot be replayed as transitions"
			return
		}
	}
	if delta%1000 != 0 {
		delta *= 1000
	}
	w := wallet.New()
	recv := wallet.New()
	tlSetupMu.Lock()
	tlSetups[salt] = &tlSetup{sender: w.Address(), thMS: th * delta / 1000}
	tlSetupMu.Unlock()
	itr, err := service.NewInitTransition(c.Database(), nil, nil, e.nctx.CM, e.nctx.EM, c, c.Logger(), e.nctx.Platform,
		service.NewTimestampChecker())
	if err != nil {
		v.divergence = "init transition: " + err.Error()
		return
	}
	csi := common.NewConsensusInfo(nil, nil, nil)
	sl := transaction.NewTransactionListFromSlice(c.Database(),
		[]module.Transaction{transaction.Wrap(&tlSetupTx{Type: "veriftlsetup", Salt: salt})})
	setup := service.NewTransition(itr, nil, sl, common.NewBlockInfo(1, 0), csi, true)
	if verr, xerr, _ := e.execute(setup); verr != nil || xerr != nil {
		v.divergence = fmt.Sprintf("set-up block failed: %v %v", verr, xerr)
		return
	}
	if err := service.FinalizeTransition(setup, module.FinalizeNormalTransaction|module.FinalizeResult, false); err != nil {
		v.divergence = "set-up block finalize: " + err.Error()
		return
	}
	// real signed transfers, one per abstract id
	txs := map[string]module.Transaction{}
	var tsOf map[string]int64
	for _, s := range in.Steps {
		tsOf = s.TsOf
	}
	for id, ts := range tsOf {
		js := fmt.Sprintf(`{"version":"0x3","from":"%s","to":"%s","value":"0x0","stepLimit":"0x10","timestamp":"0x%x","nid":"0x%x","nonce":"0x%x"`,
			w.Address().String(), recv.Address().String(), ts*delta, c.NID(), salt%1000000+int64(id[0]))
		unsigned, err := transaction.NewTransactionFromJSON([]byte(js + "}"))
		if err != nil {
			v.divergence = "cannot build transaction: " + err.Error()
			return
		}
		sig, err := w.Sign(unsigned.ID())
		if err != nil {
			v.divergence = "cannot sign: " + err.Error()
			return
		}
		tx, err := transaction.NewTransactionFromJSON([]byte(js + `,"signature":"` + base64.StdEncoding.EncodeToString(sig) + `"}`))
		if err != nil || tx.Verify() != nil {
			v.divergence = fmt.Sprintf("cannot build signed transaction: %v", err)
			return
		}
		txs[id] = tx
	}
	nodes := map[int]module.Transition{1: setup}
	heights := map[int]int64{1: 1}
	for i, s := range in.Steps {
		switch s.Op {
		case "block":
			parent := nodes[s.P]
			if parent == nil {
				v.at, v.divergence = i, fmt.Sprintf("no transition for parent %d", s.P)
				return
			}
			list := make([]module.Transaction, len(s.L))
			for j, a := range s.L {
				list[j] = txs[a]
			}
			h := heights[s.P] + 1
			tr := service.NewTransition(parent, nil, transaction.NewTransactionListFromSlice(c.Database(), list),
				common.NewBlockInfo(h, s.Ts*delta), csi, false)
			verr, xerr, _ := e.execute(tr)
			if xerr != nil {
				v.at, v.divergence = i, fmt.Sprintf("step %d: execution of an accepted block failed: %v", i, xerr)
				return
			}
			res := "ok"
			if verr != nil {
				switch {
				case strings.Contains(verr.Error(), "DuplicateTx"):
					res = "dup"
				case strings.Contains(verr.Error(), "Expired") || strings.Contains(verr.Error(), "FutureTx"):
					res = "window"
				default:
					res = "error:" + verr.Error()
				}
			}
			if (res == "ok") != (s.Res == "ok") {
				v.at, v.violation = i, true
				if res == "ok" {
					kind := "dup-accepted:" + s.Cls
					if s.Res == "window" {
						kind = "out-of-window-accepted"
					}
					v.key = "txlocator:" + kind
					v.what = fmt.Sprintf("step %d (transition level): block(ts=%d, th=%d, txs=%v with timestamps %v) on parent %d passed "+
						"transition validation, the specification rejects it (%s %s)", i, s.Ts, s.Th, s.L, tsList(s), s.P, s.Res, s.Cls)
				} else {
					v.key = "txlocator:valid-block-rejected:" + strings.SplitN(res, ":", 2)[0]
					v.what = fmt.Sprintf("step %d (transition level): block(ts=%d, th=%d, txs=%v with timestamps %v) on parent %d failed "+
						"validation (%v) although no transaction is a duplicate or outside (bt-th, bt+th]", i, s.Ts, s.Th, s.L, tsList(s), s.P, verr)
				}
				return
			}
			if res == "ok" {
				nodes[s.N] = tr
				heights[s.N] = h
			}
		case "commit":
			tr := nodes[s.N]
			if tr == nil || s.N == 1 {
				continue
			}
			if err := service.FinalizeTransition(tr, module.FinalizeNormalTransaction|module.FinalizeResult, false); err != nil {
				v.at, v.divergence = i, fmt.Sprintf("step %d: finalize failed: %v", i, err)
				return
			}
		}
	}
	return
}

func TestReplayTransitions(t *testing.T) {
	if !tlaio.HaveInput() {
		t.Skip("driven by tools/check.py")
	}
	out := tlaio.OpenOut()
	rnd := tlaio.Rand()
	e := newTLEnv()
	err := tlaio.ReadInput(func(idx int, raw json.RawMessage) error {
		var in input
		if err := json.Unmarshal(raw, &in); err != nil {
			return err
		}
		delta, salt := in.Delta, in.Salt
		if delta == 0 {
			delta = []int64{1000, 7000, 1000000, 60000000}[rnd.Intn(4)]
			salt = rnd.Int63n(1 << 40)
		}
		if !tlaio.Mine(idx) {
			return nil
		}
		id := fmt.Sprintf("t%d", idx)
		v := runTransitions(e, in, delta, salt)
		detail := map[string]interface{}{"behaviour": in.Steps, "rootTh": in.RootTh, "delta": delta, "salt": salt, "level": "transition"}
		nontrivial := false
		for _, s := range in.Steps {
			if s.Op == "block" && s.Res != "ok" {
				nontrivial = true
			}
		}
		switch {
		case v.violation:
			out.Violation(id, v.key, v.what, detail)
		case v.divergence != "":
			out.Divergence(id, v.divergence, detail)
		default:
			out.OK(id, nontrivial, "T"+sig(in))
		}
		return nil
	})
	if err != nil {
		t.Fatal(err)
	}
	out.Close(nil)
}
