package txlocator

// Replays behaviours of spec/exec/TxLocator.tla into the real replay-protection code (C11):
// txlocator.NewManager + service.NewTXIDManager/TXIDLogger (NewLogger, Add, Has, Commit) and the
// window check service.NewTimestampRange(...).CheckTx / service.CheckTxTimestamp.
//
// The oracle is the TLA+ text: every step carries the spec's accept/reject decision (with the
// spec's name of the input class) and the predicted manager projection. This driver only
// concretizes abstract ids/timestamps (real v3 transactions, timestamp = k*delta microseconds),
// controls the moment at which the asynchronous flush worker may finish (a gate in the DB
// bucket the worker writes to) and reads the projection back through the verif snapshot hook.

import (
	"encoding/json"
	"fmt"
	"sort"
	"strings"
	"sync"
	"testing"
	"time"

	"github.com/icon-project/goloop/common/db"
	"github.com/icon-project/goloop/common/log"
	"github.com/icon-project/goloop/common/txlocator"
	"github.com/icon-project/goloop/module"
	"github.com/icon-project/goloop/service"
	"github.com/icon-project/goloop/service/transaction"

	"verifharness/tlaio"
)

type mproj struct {
	Locs    []string `json:"locs"`
	CacheQ  []int    `json:"cacheQ"`
	MaxTs   int64    `json:"maxTs"`
	Dbase   []string `json:"dbase"`
	Pending int      `json:"pending"`
}

type step struct {
	Op   string           `json:"op"`
	N    int              `json:"n"`
	P    int              `json:"p"`
	Ts   int64            `json:"ts"`
	Th   int64            `json:"th"`
	L    []string         `json:"l"`
	ID   string           `json:"id"`
	Res  string           `json:"res"`
	Cls  string           `json:"cls"`
	Win  bool             `json:"win"`
	Force bool            `json:"force"`
	M    mproj            `json:"m"`
	TsOf map[string]int64 `json:"tsOf"`
}

// ---------------------------------------------------------------- gate in front of the locator bucket

type gate struct {
	mu      sync.Mutex
	cond    *sync.Cond
	hold    map[string]bool // ids whose DB write has to wait
	waiting map[string]int  // writers currently parked, by id
}

func newGate() *gate {
	g := &gate{hold: map[string]bool{}, waiting: map[string]int{}}
	g.cond = sync.NewCond(&g.mu)
	return g
}

func (g *gate) setHold(ids [][]byte) {
	g.mu.Lock()
	g.hold = map[string]bool{}
	for _, id := range ids {
		g.hold[string(id)] = true
	}
	g.cond.Broadcast()
	g.mu.Unlock()
}

func (g *gate) pass(key []byte) {
	g.mu.Lock()
	for g.hold[string(key)] {
		g.waiting[string(key)]++
		g.cond.Wait()
		g.waiting[string(key)]--
	}
	g.mu.Unlock()
}

func (g *gate) blocked() bool {
	g.mu.Lock()
	defer g.mu.Unlock()
	// a parked writer whose id is no longer held is on its way out: not blocked
	for k, n := range g.waiting {
		if n > 0 && g.hold[k] {
			return true
		}
	}
	return false
}

type gatedDB struct {
	db.Database
	g *gate
}

type gatedBucket struct {
	db.Bucket
	g *gate
}

func (d *gatedDB) GetBucket(id db.BucketID) (db.Bucket, error) {
	bk, err := d.Database.GetBucket(id)
	if err != nil || id != db.TransactionLocatorByHash {
		return bk, err
	}
	return &gatedBucket{bk, d.g}, nil
}

func (b *gatedBucket) Set(key, value []byte) error {
	b.g.pass(key)
	return b.Bucket.Set(key, value)
}

// ---------------------------------------------------------------- concretization

func makeTx(name string, ts int64, salt int64) (transaction.Transaction, error) {
	js := fmt.Sprintf(`{"version":"0x3","from":"hx%040x","to":"hx%040x","value":"0x1","stepLimit":"0x186a0",`+
		`"timestamp":"0x%x","nid":"0x1","nonce":"0x%x","signature":"%s"}`,
		salt+int64(name[0]), 0xbeef, ts, salt, strings.Repeat("A", 87)+"=")
	return transaction.NewTransactionFromJSON([]byte(js))
}

type run struct {
	delta   int64
	base    db.Database
	g       *gate
	lm      module.LocatorManager
	tim     service.TXIDManager
	loggers map[int]service.TXIDLogger
	txs     map[string]transaction.Transaction
	name    map[string]string // real id -> abstract id
	held    int               // node whose flush is gated (0 = none)
	group   module.TransactionGroup
	root    int // model node of the current root tracker (height 0)
	lists   map[int][]string
}

func newRun(tsOf map[string]int64, delta, salt int64) (*run, error) {
	r := &run{delta: delta, base: db.NewMapDB(), g: newGate(), loggers: map[int]service.TXIDLogger{},
		txs: map[string]transaction.Transaction{}, name: map[string]string{}, lists: map[int][]string{}}
	lm, err := txlocator.NewManager(&gatedDB{r.base, r.g}, log.GlobalLogger())
	if err != nil {
		return nil, err
	}
	r.lm = lm
	for id, ts := range tsOf {
		tx, err := makeTx(id, ts*delta, salt)
		if err != nil {
			return nil, err
		}
		r.txs[id] = tx
		r.name[string(tx.ID())] = id
	}
	return r, nil
}

// start creates the root logger of the init transition: NewLogger(group, 0, 0) with the threshold of the checker
func (r *run) start(rootTh int64) error {
	tsc := service.NewTimestampChecker()
	tsc.SetThreshold(time.Duration(rootTh*r.delta) * time.Microsecond)
	tim, err := service.NewTXIDManager(r.lm, tsc, nil)
	if err != nil {
		return err
	}
	r.tim = tim
	r.loggers[1] = tim.NewLogger(r.group, 0, 0)
	r.lists[1] = nil
	r.root = 1
	return nil
}

// restart: Term() of the manager (waits for the flush worker), a new manager over the same DB, a new root logger
func (r *run) restart(node int, th int64) error {
	r.g.setHold(nil)
	r.held = 0
	r.lm.Term()
	lm, err := txlocator.NewManager(&gatedDB{r.base, r.g}, log.GlobalLogger())
	if err != nil {
		return err
	}
	r.lm = lm
	tsc := service.NewTimestampChecker()
	tsc.SetThreshold(time.Duration(th*r.delta) * time.Microsecond)
	tim, err := service.NewTXIDManager(lm, tsc, nil)
	if err != nil {
		return err
	}
	r.tim = tim
	r.loggers = map[int]service.TXIDLogger{node: tim.NewLogger(r.group, 0, 0)}
	r.lists[node] = nil
	r.root = node
	return nil
}

func (r *run) quiesce() (txlocator.VerifState, error) {
	deadline := time.Now().Add(10 * time.Second)
	for {
		s := txlocator.VerifSnapshot(r.lm)
		if r.g.blocked() || (s.Workers == 0 && s.Queued == 0) {
			// a blocked worker holds no manager state between Set calls; take the snapshot again
			// so that it is not older than the moment the worker blocked
			return txlocator.VerifSnapshot(r.lm), nil
		}
		if time.Now().After(deadline) {
			return s, fmt.Errorf("flush worker neither idle nor at the gate (workers=%d queued=%d)", s.Workers, s.Queued)
		}
		time.Sleep(50 * time.Microsecond)
	}
}

func (r *run) project(s txlocator.VerifState) (mproj, error) {
	var p mproj
	for _, id := range s.Locators {
		a, ok := r.name[id]
		if !ok {
			return p, fmt.Errorf("unknown id in locator map")
		}
		p.Locs = append(p.Locs, a)
	}
	sort.Strings(p.Locs)
	for _, l := range s.Cache[r.group] {
		h := int(l.Height)
		if h == 0 {
			h = r.root // the root tracker has height 0
		}
		p.CacheQ = append(p.CacheQ, h)
	}
	mx := s.MaxTSInDB[r.group]
	if mx%r.delta != 0 {
		return p, fmt.Errorf("maxTSInDB %d is not a multiple of delta %d", mx, r.delta)
	}
	p.MaxTs = mx / r.delta
	bk, err := r.base.GetBucket(db.TransactionLocatorByHash)
	if err != nil {
		return p, err
	}
	for a, tx := range r.txs {
		v, err := bk.Get(tx.ID())
		if err != nil {
			return p, err
		}
		if len(v) > 0 {
			p.Dbase = append(p.Dbase, a)
		}
	}
	sort.Strings(p.Dbase)
	if r.g.blocked() {
		p.Pending = r.held
	}
	return p, nil
}

func sameSet(a, b []string) bool {
	x := append([]string{}, a...)
	y := append([]string{}, b...)
	sort.Strings(x)
	sort.Strings(y)
	return strings.Join(x, ",") == strings.Join(y, ",")
}

func sameProj(a, b mproj) bool {
	if !sameSet(a.Locs, b.Locs) || !sameSet(a.Dbase, b.Dbase) || a.MaxTs != b.MaxTs || a.Pending != b.Pending ||
		len(a.CacheQ) != len(b.CacheQ) {
		return false
	}
	for i := range a.CacheQ {
		if a.CacheQ[i] != b.CacheQ[i] {
			return false
		}
	}
	return true
}

type verdict struct {
	at         int
	violation  bool
	key, what  string
	divergence string
}

// runBehaviour steps the real code through one behaviour.
func runBehaviour(steps []step, delta, salt int64, group string) (v verdict) {
	v.at = -1
	if len(steps) == 0 {
		return
	}
	r, err := newRun(steps[len(steps)-1].TsOf, delta, salt)
	if err != nil {
		v.divergence = "setup: " + err.Error()
		return
	}
	r.group = module.TransactionGroupNormal
	if group == "patch" {
		r.group = module.TransactionGroupPatch
	}
	defer func() {
		r.g.setHold(nil) // never leave the worker blocked
	}()
	for i, s := range steps {
		switch s.Op {
		case "root":
			if err := r.start(s.Th); err != nil {
				v.at, v.divergence = i, "root: "+err.Error()
				return
			}
		case "block":
			parent := r.loggers[s.P]
			if parent == nil {
				v.at, v.divergence = i, fmt.Sprintf("no logger for parent %d", s.P)
				return
			}
			// the height identifies the list in the cache projection: accepted blocks get their
			// node number, rejected ones a number the model never uses
			height := int64(s.N)
			if s.N == 0 {
				height = int64(1000 + i)
			}
			lg := parent.NewLogger(height, s.Ts*delta, s.Th*delta)
			txs := make([]module.Transaction, len(s.L))
			for j, a := range s.L {
				txs[j] = r.txs[a]
			}
			list := transaction.NewTransactionListFromSlice(r.base, txs)
			res := "ok"
			if _, err := lg.Add(list, s.Force); err != nil {
				res = "dup"
			} else {
				tsr := service.NewTimestampRange(s.Ts*delta, s.Th*delta)
				for _, a := range s.L {
					e1 := tsr.CheckTx(r.txs[a])
					e2 := service.CheckTxTimestamp((s.Ts-s.Th)*delta, (s.Ts+s.Th)*delta, r.txs[a])
					if (e1 == nil) != (e2 == nil) {
						v.at, v.violation = i, true
						v.key = "txlocator:window-check-inconsistent"
						v.what = fmt.Sprintf("step %d: timestampRange.CheckTx and CheckTxTimestamp disagree for tx ts=%d block ts=%d th=%d",
							i, s.TsOf[a], s.Ts, s.Th)
						return
					}
					if e1 != nil {
						res = "window"
					}
				}
			}
			if (res == "ok") != (s.Res == "ok") {
				v.at, v.violation = i, true
				if res == "ok" {
					kind := "dup-accepted:" + s.Cls
					if s.Res == "window" {
						kind = "out-of-window-accepted"
					}
					v.key = "txlocator:" + kind
					v.what = fmt.Sprintf("step %d: block(ts=%d, th=%d, txs=%v with timestamps %v) on parent %d was ACCEPTED by "+
						"TXIDLogger.Add + window check, the specification rejects it (%s %s)", i, s.Ts, s.Th, s.L, tsList(s), s.P, s.Res, s.Cls)
				} else {
					v.key = "txlocator:valid-block-rejected:" + res
					v.what = fmt.Sprintf("step %d: block(ts=%d, th=%d, txs=%v with timestamps %v) on parent %d was REJECTED (%s) "+
						"although no transaction is a duplicate or outside (bt-th, bt+th]", i, s.Ts, s.Th, s.L, tsList(s), s.P, res)
				}
				return
			}
			// which of several applicable reasons a rejection reports is not part of the property
			if res != s.Res && !(res == "window" && !s.Win) && v.divergence == "" {
				v.at, v.divergence = i, fmt.Sprintf("step %d: rejected as %s, spec says %s", i, res, s.Res)
			}
			if res == "ok" {
				r.loggers[s.N] = lg
				r.lists[s.N] = s.L
			}
		case "commit":
			lg := r.loggers[s.N]
			var ids [][]byte
			for _, a := range r.lists[s.N] {
				ids = append(ids, r.txs[a].ID())
			}
			if r.group == module.TransactionGroupPatch {
				ids = nil // the patch group is flushed inside Commit: nothing to hold back
			}
			r.g.setHold(ids)
			r.held = s.N
			done := make(chan error, 1)
			go func() { done <- lg.Commit() }()
			select {
			case err := <-done:
				if err != nil {
					v.at, v.divergence = i, fmt.Sprintf("step %d: Commit failed: %v", i, err)
					return
				}
			case <-time.After(10 * time.Second):
				v.at, v.divergence = i, fmt.Sprintf("step %d: Commit did not return", i)
				return
			}
		case "restart":
			if err := r.restart(s.N, s.Th); err != nil {
				v.at, v.divergence = i, fmt.Sprintf("step %d: restart failed: %v", i, err)
				return
			}
		case "flush":
			r.g.setHold(nil)
			r.held = 0
		case "has":
			var has bool
			var err error
			tx := r.txs[s.ID]
			if s.N == 0 {
				has, err = r.tim.HasRecent(r.group, tx.ID(), tx.Timestamp())
			} else {
				has, err = r.loggers[s.N].Has(tx.ID(), tx.Timestamp())
			}
			if err != nil {
				v.at, v.divergence = i, fmt.Sprintf("step %d: Has failed: %v", i, err)
				return
			}
			if fmt.Sprint(has) != s.Res {
				v.at, v.violation = i, true
				where := fmt.Sprintf("tracker %d", s.N)
				if s.N == 0 {
					where = "manager"
				}
				if has {
					v.key = "txlocator:has-false-positive"
				} else {
					v.key = "txlocator:has-missed:" + s.Cls
				}
				v.what = fmt.Sprintf("step %d: Has(%s ts=%d) on %s returned %v, the specification says %s", i, s.ID, s.TsOf[s.ID], where, has, s.Res)
				return
			}
		default:
			v.at, v.divergence = i, "unknown op "+s.Op
			return
		}
		if s.Op == "root" {
			continue
		}
		snap, err := r.quiesce()
		if err != nil {
			v.at, v.divergence = i, fmt.Sprintf("step %d: %v", i, err)
			return
		}
		got, err := r.project(snap)
		if err != nil {
			v.at, v.divergence = i, fmt.Sprintf("step %d: %v", i, err)
			return
		}
		if !sameProj(got, s.M) && v.divergence == "" {
			v.at = i
			v.divergence = fmt.Sprintf("step %d after %s: manager state %+v, spec says %+v", i, s.Op, got, s.M)
		}
	}
	return
}

func tsList(s step) []int64 {
	r := make([]int64, len(s.L))
	for i, a := range s.L {
		r[i] = s.TsOf[a]
	}
	return r
}

type input struct {
	Group  string `json:"group"`
	RootTh int64  `json:"rootTh"`
	Steps  []step `json:"steps"`
	Delta  int64  `json:"delta"`
	Salt   int64  `json:"salt"`
}

var deltas = []int64{1, 7, 1000, 1000000, 60000000}

func TestReplay(t *testing.T) {
	if !tlaio.HaveInput() {
		t.Skip("driven by tools/check.py")
	}
	log.GlobalLogger().SetLevel(log.PanicLevel)
	out := tlaio.OpenOut()
	rnd := tlaio.Rand()
	err := tlaio.ReadInput(func(idx int, raw json.RawMessage) error {
		var in input
		if err := json.Unmarshal(raw, &in); err != nil {
			return err
		}
		delta, salt := in.Delta, in.Salt
		if delta == 0 {
			delta = deltas[rnd.Intn(len(deltas))]
			salt = rnd.Int63n(1 << 40)
		}
		if !tlaio.Mine(idx) {
			return nil
		}
		steps := append([]step{{Op: "root", Th: in.RootTh}}, in.Steps...)
		id := fmt.Sprintf("b%d", idx)
		v := runBehaviour(steps, delta, salt, in.Group)
		detail := map[string]interface{}{"behaviour": in.Steps, "rootTh": in.RootTh, "delta": delta, "salt": salt, "group": in.Group}
		nontrivial := false
		for _, s := range in.Steps {
			if s.Op == "block" && s.Res != "ok" || s.Op == "has" && s.Res == "true" {
				nontrivial = true
			}
		}
		switch {
		case v.violation:
			out.Violation(id, v.key, v.what, detail)
		case v.divergence != "":
			out.Divergence(id, v.divergence, detail)
		default:
			out.OK(id, nontrivial, sig(in))
		}
		return nil
	})
	if err != nil {
		t.Fatal(err)
	}
	out.Close(nil)
}

func sig(in input) string {
	var b strings.Builder
	fmt.Fprintf(&b, "r%d;", in.RootTh)
	for _, s := range in.Steps {
		fmt.Fprintf(&b, "%s%d.%d.%d.%d%v%s;", s.Op[:1], s.N, s.P, s.Ts, s.Th, s.L, s.ID)
	}
	if len(in.Steps) > 0 {
		fmt.Fprintf(&b, "%v", in.Steps[0].TsOf)
	}
	return b.String()
}
