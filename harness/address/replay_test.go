package address

// Replays behaviours of spec/codec/Address.tla into common.Address and the address rules of the
// JSON-RPC validator (C36).  The oracle is the TLA+ text: every call record carries the predicted
// verdict and the predicted address / text / bytes in terms of the input; this driver concretizes
// character and hex-digit classes (L = 20 instance) and holds the id bytes of the current address.

import (
	"bytes"
	"encoding/hex"
	"encoding/json"
	"fmt"
	"math/rand"
	"strings"
	"testing"

	"github.com/icon-project/goloop/common"
	"github.com/icon-project/goloop/common/codec"
	"github.com/icon-project/goloop/module"
	"github.com/icon-project/goloop/server/jsonrpc"

	"verifharness/tlaio"
)

type rec struct {
	Op       string      `json:"op"`
	Text     []string    `json:"text"`
	Bytes    [][2]string `json:"bytes"`
	Ok       bool        `json:"ok"`
	Contract bool        `json:"contract"`
	Skip     int         `json:"skip"`
	Pad      int         `json:"pad"`
	Same     bool        `json:"same"`
	Rule     string      `json:"rule"`
	Pfx      string      `json:"pfx"`
	Type     int         `json:"type"`
	Len      int         `json:"len"`
	Off      int         `json:"off"`
	Take     int         `json:"take"`
	Held     string      `json:"held"`
	With     string      `json:"with"`
	Nil      bool        `json:"nil"`
	Stream   []struct {
		T string `json:"t"`
		V int    `json:"v"`
	} `json:"stream"`
}

func pick(rnd *rand.Rand, variant int, s string) byte {
	switch variant {
	case 0:
		return s[0]
	case 1:
		return s[len(s)-1]
	}
	return s[rnd.Intn(len(s))]
}

func concChar(cls string, variant int, rnd *rand.Rand) byte {
	switch cls {
	case "z":
		return '0'
	case "d":
		return pick(rnd, variant, "23456789")
	case "a":
		return pick(rnd, variant, "abdef")
	case "A":
		return pick(rnd, variant, "ABDEF")
	case "g":
		return pick(rnd, variant, "gijklmnopqrstuvwyz")
	case "G":
		return pick(rnd, variant, "GHXOZ")
	case "_":
		return pick(rnd, variant, " -.\n_:")
	}
	return cls[0] // c h x 1 C
}

func nibble(cls string, variant int, rnd *rand.Rand) byte {
	c := concChar(cls, variant, rnd)
	v, _ := hex.DecodeString("0" + string(c))
	return v[0]
}

type tEoa struct {
	V string `validate:"t_addr_eoa"`
}
type tScore struct {
	V string `validate:"t_addr_score"`
}
type tAddr struct {
	V string `validate:"t_addr"`
}

var validator = jsonrpc.NewValidator()

func validate(rule, s string) bool {
	switch rule {
	case "veoa":
		return validator.Validate(&tEoa{s}) == nil
	case "vscore":
		return validator.Validate(&tScore{s}) == nil
	}
	return validator.Validate(&tAddr{s}) == nil
}

// another implementation of module.Address, and a value that only has an Address() method
type foreign struct {
	ic bool
	id []byte
}

func (f foreign) String() string                { return "foreign" }
func (f foreign) Bytes() []byte                 { return append([]byte{map[bool]byte{false: 0, true: 1}[f.ic]}, f.id...) }
func (f foreign) ID() []byte                    { return f.id }
func (f foreign) IsContract() bool              { return f.ic }
func (f foreign) Equal(a module.Address) bool   { return a != nil && a.IsContract() == f.ic && bytes.Equal(a.ID(), f.id) }

type holder struct{ a module.Address }

func (h holder) Address() module.Address { return h.a }

// the object a setter / decoder is applied to: fresh, or already holding an account / a contract address
func preload(held string) common.Address {
	var a common.Address
	switch held {
	case "acct":
		a.SetTypeAndID(false, bytes.Repeat([]byte{0xee}, 20))
	case "ctr":
		a.SetTypeAndID(true, bytes.Repeat([]byte{0xee}, 20))
	}
	return a
}

type fail struct {
	violation bool
	key, what string
}

func runBehaviour(steps []rec, variant int, rnd *rand.Rand) (string, *fail) {
	var s string   // current text
	var bs []byte  // current byte string
	var id []byte  // id of the current address (concretization of the spec's addr.id)
	var cur *common.Address
	input := ""
	first := steps[0]
	if first.Op == "frombytes" || first.Op == "new" {
		bs = make([]byte, len(first.Bytes))
		for i, p := range first.Bytes {
			bs[i] = nibble(p[0], variant, rnd)<<4 | nibble(p[1], variant, rnd)
		}
		input = fmt.Sprintf("bytes %x", bs)
	} else {
		cs := make([]byte, len(first.Text))
		for i, c := range first.Text {
			cs[i] = concChar(c, variant, rnd)
		}
		s = string(cs)
		input = fmt.Sprintf("text %q", s)
	}
	for i, r := range steps {
		switch r.Op {
		case "strict":
			a := preload(r.Held)
			err := a.SetStringStrict(s)
			if err != nil && a != preload(r.Held) {
				return input, &fail{true, "strict:clobbers", fmt.Sprintf("SetStringStrict(%q) failed but changed the %s object to %s", s, r.Held, a.String())}
			}
			if (err == nil) != r.Ok {
				if r.Ok {
					return input, &fail{true, "strict:rejects", fmt.Sprintf("SetStringStrict(%q) fails (%v) on a canonical string", s, err)}
				}
				return input, &fail{true, "strict:accepts", fmt.Sprintf("SetStringStrict(%q) accepts a non-canonical string as %s", s, a.String())}
			}
			if r.Ok {
				want, _ := hex.DecodeString(s[2:])
				if a.IsContract() != r.Contract || !bytes.Equal(a.ID(), want) {
					return input, &fail{true, "strict:value", fmt.Sprintf("SetStringStrict(%q) gives contract=%v id=%x, spec says contract=%v id=%x", s, a.IsContract(), a.ID(), r.Contract, want)}
				}
				if cur != nil && (!bytes.Equal(id, want) || cur.IsContract() != r.Contract) {
					return input, &fail{true, "strict:back", fmt.Sprintf("printed text %q parses to another address than %x", s, cur.Bytes())}
				}
				id = want
				cur = &a
			} else if i == 0 {
				cur = nil
			}
		case "lenient":
			a := preload(r.Held)
			err := a.SetString(s)
			if err != nil && a != preload(r.Held) {
				return input, &fail{true, "lenient:clobbers", fmt.Sprintf("SetString(%q) failed but changed the %s object to %s", s, r.Held, a.String())}
			}
			crit := r.Same // a canonical string: reading it back is part of the property
			if (err == nil) != r.Ok {
				return input, &fail{crit, "lenient:verdict", fmt.Sprintf("SetString(%q) err=%v, spec ok=%v", s, err, r.Ok)}
			}
			if r.Ok {
				all := strings.ToLower(strings.Repeat("0", r.Pad) + s[r.Skip:])
				want, e := hex.DecodeString(all[:40])
				if e != nil {
					return input, &fail{false, "model:lenient", e.Error()}
				}
				if a.IsContract() != r.Contract || !bytes.Equal(a.ID(), want) {
					return input, &fail{crit, "lenient:value", fmt.Sprintf("SetString(%q) gives contract=%v id=%x, spec says contract=%v id=%x", s, a.IsContract(), a.ID(), r.Contract, want)}
				}
				if r.Same && (cur == nil || !a.Equal(cur)) {
					return input, &fail{true, "lenient:same", fmt.Sprintf("SetString(%q) differs from SetStringStrict", s)}
				}
			}
			if js, e := json.Marshal(s); e == nil && !strings.ContainsAny(s, "\n") {
				b := preload(r.Held)
				e2 := json.Unmarshal(js, &b)
				if (e2 == nil) != (err == nil) || (err == nil && b != a) {
					return input, &fail{crit, "lenient:json", fmt.Sprintf("UnmarshalJSON(%s) = %s,%v differs from SetString = %s,%v", js, b.String(), e2, a.String(), err)}
				}
			}
		case "validate":
			if got := validate(r.Rule, s); got != r.Ok {
				return input, &fail{true, "validator:" + r.Rule, fmt.Sprintf("validator rule %s(%q) = %v, spec says %v", r.Rule, s, got, r.Ok)}
			}
		case "print":
			if cur == nil {
				return input, &fail{false, "model:print", "print without address"}
			}
			got := cur.String()
			want := r.Pfx + hex.EncodeToString(id)
			if got != want {
				return input, &fail{true, "print", fmt.Sprintf("String() = %q, spec says %q", got, want)}
			}
			if r.Same && got != s {
				return input, &fail{true, "print:same", fmt.Sprintf("String() = %q after SetStringStrict(%q)", got, s)}
			}
			if js, e := json.Marshal(cur); e != nil || string(js) != `"`+want+`"` {
				return input, &fail{true, "print:json", fmt.Sprintf("MarshalJSON = %s (%v), want %q", js, e, want)}
			}
			s = got
		case "bytes":
			if cur == nil {
				return input, &fail{false, "model:bytes", "bytes without address"}
			}
			got := append([]byte{}, cur.Bytes()...)
			want := append([]byte{byte(r.Type)}, id...)
			if !bytes.Equal(got, want) || len(got) != r.Len {
				return input, &fail{true, "bytes", fmt.Sprintf("Bytes() = %x, spec says %x", got, want)}
			}
			if r.Same && !bytes.Equal(got, bs) {
				return input, &fail{true, "bytes:same", fmt.Sprintf("Bytes() = %x after SetBytes(%x)", got, bs)}
			}
			// the codec form (RLP bytes item) round-trips too
			enc, err := codec.BC.MarshalToBytes(cur)
			var back common.Address
			if err == nil {
				_, err = codec.BC.UnmarshalFromBytes(enc, &back)
			}
			if err != nil || back != *cur {
				return input, &fail{true, "bytes:codec", fmt.Sprintf("codec round trip of %s gives %s (%v)", cur.String(), back.String(), err)}
			}
			bs = got
		case "frombytes":
			a := preload(r.Held)
			err := a.SetBytes(bs)
			if err != nil && a != preload(r.Held) {
				return input, &fail{true, "frombytes:clobbers", fmt.Sprintf("SetBytes(%x) failed but changed the %s object to %s", bs, r.Held, a.String())}
			}
			// the codec decoder (RLPDecodeSelf) applied to the same kind of object gives the same verdict and address
			if enc, e := codec.BC.MarshalToBytes(bs); e == nil {
				c := preload(r.Held)
				_, e2 := codec.BC.UnmarshalFromBytes(enc, &c)
				if (e2 == nil) != (err == nil) || (err == nil && c != a) {
					return input, &fail{true, "frombytes:codec", fmt.Sprintf("codec decoding of the byte string %x into a %s object gives %s,%v; SetBytes gives %s,%v", bs, r.Held, c.String(), e2, a.String(), err)}
				}
			}
			if (err == nil) != r.Ok {
				if r.Ok {
					return input, &fail{true, "frombytes:rejects", fmt.Sprintf("SetBytes(%x) fails: %v", bs, err)}
				}
				return input, &fail{true, "frombytes:accepts", fmt.Sprintf("SetBytes(%x) accepted as %s, spec rejects", bs, a.String())}
			}
			n, nerr := common.NewAddress(bs)
			if (nerr == nil) != r.Ok || (nerr == nil && *n != a) {
				return input, &fail{true, "frombytes:new", fmt.Sprintf("NewAddress(%x) = %v,%v differs from SetBytes", bs, n, nerr)}
			}
			if r.Ok {
				want := bs[r.Off:]
				if a.IsContract() != r.Contract || !bytes.Equal(a.ID(), want) {
					return input, &fail{true, "frombytes:value", fmt.Sprintf("SetBytes(%x) gives contract=%v id=%x, spec says contract=%v id=%x", bs, a.IsContract(), a.ID(), r.Contract, want)}
				}
				if r.Same && (cur == nil || a != *cur) {
					return input, &fail{true, "frombytes:same", fmt.Sprintf("SetBytes(Bytes()) gives %s", a.String())}
				}
				id = append([]byte{}, want...)
				cur = &a
			}
		case "new":
			var a *common.Address
			if r.Contract {
				a = common.NewContractAddress(bs)
			} else {
				a = common.NewAccountAddress(bs)
			}
			want := append(make([]byte, r.Pad), bs[:r.Take]...)
			b := common.NewAddressWithTypeAndID(r.Contract, bs)
			h := preload(r.Held)
			h.SetTypeAndID(r.Contract, bs)
			if h != *a {
				return input, &fail{true, "new:reused", fmt.Sprintf("SetTypeAndID(%v, %x) on a %s object gives %s, on a fresh one %s", r.Contract, bs, r.Held, h.String(), a.String())}
			}
			if a.IsContract() != r.Contract || !bytes.Equal(a.ID(), want) || *a != *b {
				return input, &fail{true, "new", fmt.Sprintf("New%sAddress(%x) = %s (contract=%v), spec says contract=%v id=%x", map[bool]string{true: "Contract", false: "Account"}[r.Contract], bs, a.String(), a.IsContract(), r.Contract, want)}
			}
			id = want
			cur = a
		case "iscontract":
			if cur.IsContract() != r.Contract {
				return input, &fail{true, "iscontract", fmt.Sprintf("%s.IsContract() = %v", cur.String(), cur.IsContract())}
			}
		case "copy":
			if r.Nil {
				var n *common.Address
				if common.AddressToPtr(nil) != nil || common.ToAddress(nil) != nil || new(common.Address).Set(nil).String() != new(common.Address).String() || n != nil {
					return input, &fail{true, "copy:nil", "conversion of a nil address is not nil"}
				}
				break
			}
			other := foreign{cur.IsContract(), append([]byte{}, cur.ID()...)}
			hs := preload(r.Held)
			cands := map[string]*common.Address{
				"Set(reused)":          hs.Set(cur),
				"Set":                  new(common.Address).Set(cur),
				"Set(foreign)":         new(common.Address).Set(other),
				"AddressToPtr":         common.AddressToPtr(cur),
				"AddressToPtr(foreign)": common.AddressToPtr(other),
				"ToAddress":            common.ToAddress(cur),
				"ToAddress(foreign)":   common.ToAddress(other),
				"ToAddress(addresser)": common.ToAddress(holder{cur}),
			}
			if a, err := common.NewAddressFromString(cur.String()); err == nil {
				cands["NewAddressFromString"] = a
			} else {
				return input, &fail{true, "copy:string", err.Error()}
			}
			cands["MustNewAddressFromString"] = common.MustNewAddressFromString(cur.String())
			for k, a := range cands {
				if a == nil || *a != *cur || a.IsContract() != r.Contract {
					return input, &fail{true, "copy:" + k, fmt.Sprintf("%s of %s gives %v", k, cur.String(), a)}
				}
			}
		case "equal":
			var other *common.Address
			switch r.With {
			case "eq_same":
				other = common.MustNewAddress(append([]byte{}, cur.Bytes()...))
			case "eq_type":
				other = common.NewAddressWithTypeAndID(!cur.IsContract(), cur.ID())
			case "eq_id":
				oid := append([]byte{}, cur.ID()...)
				oid[len(oid)-1] ^= 0x01
				other = common.NewAddressWithTypeAndID(cur.IsContract(), oid)
			}
			var self *common.Address = cur // nil in the N family
			got := self.Equal(other)
			var mo module.Address
			if other != nil {
				mo = other
			}
			var ms module.Address
			if self != nil {
				ms = self
			}
			if got != r.Ok || other.Equal(self) != r.Ok || common.AddressEqual(ms, mo) != r.Ok || self.Equal(mo) != r.Ok {
				return input, &fail{true, "equal:" + r.With, fmt.Sprintf("Equal(%v, %v) = %v / %v / %v, spec says %v", self, other, got, other.Equal(self), common.AddressEqual(ms, mo), r.Ok)}
			}
			if self != nil && other != nil && bytes.Equal(self.Bytes(), other.Bytes()) != r.Ok {
				return input, &fail{true, "equal:bytes", fmt.Sprintf("Equal(%v, %v) = %v but byte forms %x / %x", self, other, got, self.Bytes(), other.Bytes())}
			}
		case "codec":
			want := []byte{}
			for _, e := range r.Stream {
				if e.T == "h" {
					want = append(want, byte(e.V))
				} else {
					want = append(want, cur.Bytes()[:e.V]...)
				}
			}
			enc, err := codec.BC.MarshalToBytes(cur) // cur may be a nil *Address
			if err != nil || !bytes.Equal(enc, want) {
				return input, &fail{true, "codec:bytes", fmt.Sprintf("codec form of %v is %x (%v), spec says %x", cur, enc, err, want)}
			}
			back := common.MustNewAddress(append([]byte{1}, make([]byte, 20)...)) // must be overwritten or set to nil
			_, err = codec.BC.UnmarshalFromBytes(enc, &back)
			if err != nil || (back == nil) != r.Nil || (back != nil && *back != *cur) {
				return input, &fail{true, "codec:roundtrip", fmt.Sprintf("codec form %x decodes as %v (%v), encoded %v", enc, back, err, cur)}
			}
			if r.Nil {
				if common.BytesOfAddress(nil) != nil {
					return input, &fail{true, "codec:bytesof", "BytesOfAddress(nil) is not nil"}
				}
				if a, err := common.BytesToAddress([]byte{}); a != nil || err != nil {
					return input, &fail{true, "codec:bytestoaddress", fmt.Sprintf("BytesToAddress(empty) = %v, %v", a, err)}
				}
			} else if a, err := common.BytesToAddress(cur.Bytes()); err != nil || !cur.Equal(a) {
				return input, &fail{true, "codec:bytestoaddress", fmt.Sprintf("BytesToAddress(%x) = %v, %v", cur.Bytes(), a, err)}
			}
		default:
			return input, &fail{false, "model:op", "unknown op " + r.Op}
		}
	}
	return input, nil
}

func TestReplay(t *testing.T) {
	if !tlaio.HaveInput() {
		t.Skip("driven by tools/check.py")
	}
	out := tlaio.OpenOut()
	rnd := tlaio.Rand()
	variants := 3
	if tlaio.Thorough() {
		variants = 6
	}
	err := tlaio.ReadInput(func(idx int, raw json.RawMessage) error {
		var steps []rec
		if err := json.Unmarshal(raw, &steps); err != nil {
			return err
		}
		if len(steps) == 0 {
			return fmt.Errorf("case %d: empty behaviour", idx)
		}
		id := fmt.Sprintf("b%d", idx)
		var sig string
		var n int
		if steps[0].Op == "frombytes" || steps[0].Op == "new" {
			n = len(steps[0].Bytes)
			sig = fmt.Sprintf("%s%v:%v", steps[0].Op, steps[0].Contract, steps[0].Bytes)
		} else if steps[0].Op == "equal" {
			n = 1
			sig = "N"
		} else {
			n = len(steps[0].Text)
			sig = "S:" + strings.Join(steps[0].Text, "")
		}
		sig += ":" + steps[0].Held
		for v := 0; v < variants; v++ {
			input, f := runBehaviour(steps, v, rnd)
			if f == nil {
				continue
			}
			detail := map[string]interface{}{"behaviour": steps, "input": input, "variant": v}
			if f.violation {
				out.Violation(id, "address:"+f.key, f.what, detail)
			} else {
				out.Divergence(id, f.key+": "+f.what, detail)
			}
			return nil
		}
		out.OK(id, n > 0, sig)
		return nil
	})
	if err != nil {
		t.Fatal(err)
	}
	out.Close(nil)
}
