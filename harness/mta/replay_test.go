package mta

// Replays spec/trie/MTA.tla into the real merkle tree accumulator (common/trie/mta) for C27.
//
// Two kinds of input lines, both produced by TLC:
//   * a table entry {"len": L, "wits": [...], "rwits": [...]}: the witness the spec predicts for
//     every item of an accumulator of length L, before and after Flush + Recover;
//   * a behaviour (array of steps add/addn/flush/recover/wit/all) of the state machine.
// Witness elements travel as [side, lo, h]: the sibling is the symbolic hash T(lo,h) of the
// perfect subtree over items lo..lo+2^h-1.  The only model knowledge on this side is the
// evaluation of such a term with the real hash function.

import (
	"bytes"
	"encoding/json"
	"fmt"
	"os"
	"sort"
	"strings"
	"testing"

	"github.com/icon-project/goloop/common/crypto"
	"github.com/icon-project/goloop/common/db"
	"github.com/icon-project/goloop/common/trie/mta"

	"verifharness/tlaio"
)

type welem struct {
	D  string
	Lo int
	H  int
}

func (w *welem) UnmarshalJSON(b []byte) error {
	var raw []interface{}
	if err := json.Unmarshal(b, &raw); err != nil {
		return err
	}
	if len(raw) != 3 {
		return fmt.Errorf("witness element %s", b)
	}
	w.D = raw[0].(string)
	w.Lo = int(raw[1].(float64))
	w.H = int(raw[2].(float64))
	return nil
}

type wit struct {
	OK bool    `json:"ok"`
	W  []welem `json:"w"`
}

type verdicts struct {
	Flip  []bool `json:"flip"`
	Alter []bool `json:"alter"`
	Other bool   `json:"other"`
	Trunc bool   `json:"trunc"`
	Extend bool  `json:"extend"`
}

type step struct {
	Op   string    `json:"op"`
	Kind string    `json:"kind"` // "d" AddData, "h" AddHash
	I    int       `json:"i"`
	K    int       `json:"k"`
	N    int       `json:"n"`
	OK   bool      `json:"ok"`
	W    []welem   `json:"w"`
	Wits []wit     `json:"wits"`
	TV   *verdicts `json:"tv"`
}

type table struct {
	Len   int      `json:"len"`
	Kinds []string `json:"kinds"`
	Data  []bool   `json:"data"` // is the data of item i in the bucket after Flush
	Wits  []wit    `json:"wits"`
	RWits []wit `json:"rwits"`
}

// ---------------------------------------------------------------- concretization of items and hash terms

type world struct {
	salt string
	memo map[[2]int][]byte
}

func (w *world) data(i int) []byte { return []byte(fmt.Sprintf("item-%s-%d", w.salt, i)) }

// term evaluates the symbolic hash T(lo,h) with the real hash function
func (w *world) term(lo, h int) []byte {
	k := [2]int{lo, h}
	if v, ok := w.memo[k]; ok {
		return v
	}
	var v []byte
	if h == 0 {
		v = crypto.SHA3Sum256(w.data(lo))
	} else {
		v = crypto.SHA3Sum256(append(append([]byte{}, w.term(lo, h-1)...), w.term(lo+(1<<uint(h-1)), h-1)...))
	}
	w.memo[k] = v
	return v
}

func (w *world) sameWitness(real []mta.Witness, pred []welem) string {
	if len(real) != len(pred) {
		return fmt.Sprintf("witness has %d elements, spec says %d", len(real), len(pred))
	}
	for j, e := range pred {
		d := mta.Left
		if e.D == "R" {
			d = mta.Right
		}
		if real[j].Direction != d {
			return fmt.Sprintf("element %d has direction %v, spec says %s", j, real[j].Direction, e.D)
		}
		if !bytes.Equal(real[j].HashValue, w.term(e.Lo, e.H)) {
			return fmt.Sprintf("element %d is %x, spec says the hash of items %d..%d", j, real[j].HashValue, e.Lo, e.Lo+(1<<uint(e.H))-1)
		}
	}
	return ""
}

type acc struct {
	a  *mta.Accumulator
	bk db.Bucket
}

// add appends item i either with its data (AddData) or with its hash only (AddHash)
func (x *acc) add(w *world, i int, kind string) []mta.Witness {
	if kind == "h" {
		return x.a.AddHash(w.term(i, 0))
	}
	return x.a.AddData(w.data(i))
}

func newAcc(bk db.Bucket) *acc {
	return &acc{a: &mta.Accumulator{KeyForState: []byte("state"), Bucket: bk}, bk: bk}
}

// guarded calls: a panic of the code under test is reported, not propagated
func (x *acc) witnessFor(i int) (w []mta.Witness, err error, crashed string) {
	defer func() {
		if p := recover(); p != nil {
			crashed = fmt.Sprint(p)
		}
	}()
	w, err = x.a.WitnessFor(int64(i))
	return
}

func (x *acc) flush() (err error, crashed string) {
	defer func() {
		if p := recover(); p != nil {
			crashed = fmt.Sprint(p)
		}
	}()
	err = x.a.Flush()
	return
}

type finding struct {
	violation bool
	key, what string
}

type findings []finding

func (f *findings) viol(key, format string, a ...interface{}) {
	*f = append(*f, finding{true, key, fmt.Sprintf(format, a...)})
}
func (f *findings) diverge(format string, a ...interface{}) {
	*f = append(*f, finding{false, "", fmt.Sprintf(format, a...)})
}

func ranges(xs []int) string {
	sort.Ints(xs)
	var parts []string
	for i := 0; i < len(xs); {
		j := i
		for j+1 < len(xs) && xs[j+1] == xs[j]+1 {
			j++
		}
		if j == i {
			parts = append(parts, fmt.Sprint(xs[i]))
		} else {
			parts = append(parts, fmt.Sprintf("%d-%d", xs[i], xs[j]))
		}
		i = j + 1
	}
	return strings.Join(parts, ",")
}

// checkAll: every item has a witness that verifies against the current roots and equals the prediction
func (w *world) checkAll(x *acc, n int, pred []wit, when string, f *findings) (crashIdx []int) {
	var noVerify, noWitness []int
	for i := 0; i < n; i++ {
		ws, err, crashed := x.witnessFor(i)
		if crashed != "" {
			crashIdx = append(crashIdx, i)
			continue
		}
		if err != nil {
			noWitness = append(noWitness, i)
			continue
		}
		if err := x.a.Verify(ws, w.term(i, 0)); err != nil {
			noVerify = append(noVerify, i)
			continue
		}
		if i < len(pred) {
			if !pred[i].OK {
				f.diverge("%s: spec predicts no witness for item %d", when, i)
			} else if d := w.sameWitness(ws, pred[i].W); d != "" {
				f.diverge("%s: WitnessFor(%d): %s", when, i, d)
			}
		}
	}
	if len(crashIdx) > 0 {
		f.viol("mta:witness:nil-root-slot", "%s: length %d: WitnessFor crashes (nil root slot dereferenced) for item indices %s",
			when, n, ranges(crashIdx))
	}
	if len(noWitness) > 0 {
		f.viol("mta:witness:error", "%s: length %d: WitnessFor fails for item indices %s", when, n, ranges(noWitness))
	}
	if len(noVerify) > 0 {
		f.viol("mta:witness:not-verified", "%s: length %d: the witness does not verify against the current roots for item indices %s",
			when, n, ranges(noVerify))
	}
	return
}

type stats struct {
	flushFail   []int
	witnessFail map[int][]int
}

func runTable(t *table, w *world, f *findings, st *stats) {
	bk, _ := db.NewMapDB().GetBucket("mta")
	x := newAcc(bk)
	for i := 0; i < t.Len; i++ {
		kind := "d"
		if i < len(t.Kinds) {
			kind = t.Kinds[i]
		}
		ws := x.add(w, i, kind)
		if err := x.a.Verify(ws, w.term(i, 0)); err != nil {
			f.viol("mta:add:witness", "length %d: the witness returned by Add(%s) for item %d does not verify: %v", i+1, kind, i, err)
		}
	}
	if x.a.Len() != int64(t.Len) {
		f.viol("mta:len", "Len()=%d after %d AddData calls", x.a.Len(), t.Len)
	}
	if ci := w.checkAll(x, t.Len, t.Wits, "fresh accumulator", f); len(ci) > 0 {
		st.witnessFail[t.Len] = ci
	}
	err, crashed := x.flush()
	if crashed != "" {
		st.flushFail = append(st.flushFail, t.Len)
		f.viol("mta:flush:nil-root-slot", "length %d: Flush crashes (nil root slot dereferenced): %s", t.Len, crashed)
		return
	}
	if err != nil {
		f.viol("mta:flush:error", "length %d: Flush fails: %v", t.Len, err)
		return
	}
	for i, want := range t.Data { // item data is stored exactly for the items added with AddData
		v, _ := bk.Get(w.term(i, 0))
		if (v != nil) != want {
			f.diverge("length %d: data of item %d in the bucket after Flush: %v, spec says %v", t.Len, i, v != nil, want)
		}
	}
	y := newAcc(bk)
	if err := y.a.Recover(); err != nil {
		f.viol("mta:recover:error", "length %d: Recover fails: %v", t.Len, err)
		return
	}
	if y.a.Len() != int64(t.Len) {
		f.viol("mta:recover:len", "length %d: Len()=%d after Recover", t.Len, y.a.Len())
		return
	}
	w.checkAll(y, t.Len, t.RWits, "after Flush+Recover", f)
}

func runBehaviour(steps []step, w *world, f *findings) (fatalAt int) {
	bk, _ := db.NewMapDB().GetBucket("mta")
	x := newAcc(bk)
	n := 0
	for si, s := range steps {
		at := fmt.Sprintf("step %d (%s)", si+1, s.Op)
		switch s.Op {
		case "add", "addn":
			k := 1
			if s.Op == "addn" {
				k = s.K
			}
			var ws []mta.Witness
			for j := 0; j < k; j++ {
				ws = x.add(w, n, s.Kind)
				if err := x.a.Verify(ws, w.term(n, 0)); err != nil {
					f.viol("mta:add:witness", "%s: the witness returned by Add(%s) for item %d does not verify: %v", at, s.Kind, n, err)
				}
				n++
			}
			if d := w.sameWitness(ws, s.W); d != "" {
				f.diverge("%s: witness returned by AddData: %s", at, d)
			}
		case "flush":
			err, crashed := x.flush()
			if crashed != "" {
				f.viol("mta:flush:nil-root-slot", "%s: length %d: Flush crashes (nil root slot dereferenced): %s", at, n, crashed)
				return si // the bucket no longer matches the spec
			}
			if err != nil {
				f.viol("mta:flush:error", "%s: length %d: %v", at, n, err)
				return si
			}
		case "recover":
			x = newAcc(bk)
			if err := x.a.Recover(); err != nil {
				f.viol("mta:recover:error", "%s: %v", at, err)
				return si
			}
			n = s.N
		case "wit":
			ws, err, crashed := x.witnessFor(s.I)
			if crashed != "" {
				f.viol("mta:witness:nil-root-slot", "%s: length %d: WitnessFor(%d) crashes (nil root slot dereferenced)", at, n, s.I)
				break
			}
			if !s.OK { // the spec predicts "no witness" (index out of range)
				if err == nil {
					f.viol("mta:witness:out-of-range", "%s: length %d: WitnessFor(%d) returned a witness, spec says there is none", at, n, s.I)
				}
				break
			}
			if err != nil {
				f.viol("mta:witness:error", "%s: length %d: WitnessFor(%d): %v", at, n, s.I, err)
				break
			}
			if d := w.sameWitness(ws, s.W); d != "" {
				f.diverge("%s: WitnessFor(%d): %s", at, s.I, d)
			}
			if err := x.a.Verify(ws, w.term(s.I, 0)); err != nil {
				f.viol("mta:witness:not-verified", "%s: length %d: witness of item %d does not verify: %v", at, n, s.I, err)
				break
			}
			if s.TV != nil {
				tamperChecks(x, w, ws, &s, n, at, f)
			}
		case "all":
			w.checkAll(x, n, s.Wits, at, f)
		}
		if int(x.a.Len()) != s.N {
			f.viol("mta:len", "%s: Len()=%d, spec says %d", at, x.a.Len(), s.N)
			return si
		}
	}
	return -1
}

// tamperChecks: altered witnesses must be rejected (verdicts predicted by the spec's Verify)
func tamperChecks(x *acc, w *world, ws []mta.Witness, s *step, n int, at string, f *findings) {
	cp := func() []mta.Witness {
		o := make([]mta.Witness, len(ws))
		for i := range ws {
			o[i] = mta.Witness{Direction: ws[i].Direction, HashValue: append([]byte(nil), ws[i].HashValue...)}
		}
		return o
	}
	judge := func(kind string, pred bool, err error) {
		if (err == nil) != pred {
			if err == nil {
				f.viol("mta:verify:tamper-accepted:"+kind, "%s: length %d item %d: Verify accepted a witness with %s", at, n, s.I, kind)
			} else {
				f.viol("mta:verify:rejected", "%s: length %d item %d: Verify rejected (%v) a witness with %s that the spec accepts", at, n, s.I, err, kind)
			}
		}
	}
	for j := range ws {
		if j < len(s.TV.Flip) {
			t := cp()
			t[j].Direction = 1 - t[j].Direction
			judge(fmt.Sprintf("the direction of element %d flipped", j), s.TV.Flip[j], x.a.Verify(t, w.term(s.I, 0)))
		}
		if j < len(s.TV.Alter) {
			t := cp()
			t[j].HashValue[(j*7)%32] ^= 0x10
			judge(fmt.Sprintf("the hash of element %d altered", j), s.TV.Alter[j], x.a.Verify(t, w.term(s.I, 0)))
		}
	}
	if n > 1 {
		o := s.I + 1
		if o >= n {
			o = s.I - 1
		}
		judge("the hash of another item", s.TV.Other, x.a.Verify(cp(), w.term(o, 0)))
	}
	ext := append(cp(), mta.Witness{Direction: mta.Right, HashValue: w.term(s.I, 0)})
	judge("one more element appended (longer than the accumulator is high)", s.TV.Extend, x.a.Verify(ext, w.term(s.I, 0)))
	if len(ws) > 0 {
		judge("the last element removed", s.TV.Trunc, x.a.Verify(cp()[:len(ws)-1], w.term(s.I, 0)))
	}
}

func TestReplay(t *testing.T) {
	if !tlaio.HaveInput() {
		t.Skip("driven by tools/check.py")
	}
	out := tlaio.OpenOut()
	rnd := tlaio.Rand()
	st := &stats{witnessFail: map[int][]int{}}
	maxLen := 0
	err := tlaio.ReadInput(func(idx int, raw json.RawMessage) error {
		if !tlaio.Mine(idx) {
			return nil
		}
		w := &world{salt: fmt.Sprintf("%x", rnd.Intn(1<<16)), memo: map[[2]int][]byte{}}
		if fx := os.Getenv("VERIF_FIX_SALT"); fx != "" { // replay files pin the concretization
			w.salt = fx
		}
		var f findings
		var id, sig string
		nontrivial := true
		detail := map[string]interface{}{"salt": w.salt}
		if raw[0] == '{' {
			var tb table
			if err := json.Unmarshal(raw, &tb); err != nil {
				return err
			}
			id = fmt.Sprintf("len%d", tb.Len)
			sig = id
			detail["table"] = tb.Len
			out.Begin(id, "mta:crash")
			runTable(&tb, w, &f, st)
			if tb.Len > maxLen {
				maxLen = tb.Len
			}
		} else {
			var steps []step
			if err := json.Unmarshal(raw, &steps); err != nil {
				return err
			}
			id = fmt.Sprintf("b%d", idx)
			var sb strings.Builder
			nontrivial = false
			for _, s := range steps {
				fmt.Fprintf(&sb, "%s%s%d.%d;", s.Op[:2], s.Kind, s.I, s.K)
				if s.Op == "recover" || s.Op == "wit" || s.Op == "all" {
					nontrivial = true
				}
			}
			sig = sb.String()
			detail["behaviour"] = json.RawMessage(raw)
			out.Begin(id, "mta:crash")
			detail["stopped_at_step"] = runBehaviour(steps, w, &f) + 1
		}
		seen := map[string]bool{}
		for _, x := range f {
			if x.violation && !seen[x.key] {
				seen[x.key] = true
				out.Violation(id, x.key, x.what, detail)
			}
		}
		if len(seen) == 0 {
			if len(f) > 0 {
				out.Divergence(id, f[0].what, detail)
			} else {
				out.OK(id, nontrivial, sig)
			}
		}
		return nil
	})
	if err != nil {
		t.Fatal(err)
	}
	// which lengths / indices fail (table part)
	wf := map[string]string{}
	for l, idx := range st.witnessFail {
		wf[fmt.Sprint(l)] = ranges(idx)
	}
	out.Close(map[string]interface{}{"table_max_len": maxLen, "flush_crash_lengths": ranges(st.flushFail),
		"flush_crash_count": len(st.flushFail), "witness_crash_lengths": len(st.witnessFail), "witness_crash": wf})
}
