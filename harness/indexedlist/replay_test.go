package indexedlist

// Replays behaviours of spec/data/IndexedList.tla into the real transaction and receipt lists
// (C22).  The TLA+ text is the oracle: a behaviour is  build(n), then iterate / get(i) / getall /
// key(i) / reopen  steps, each carrying the spec's prediction (iteration order as index runs,
// the item index a Get returns or -1, the key bytes).  This driver maps index i to the i-th
// real transaction / receipt of a seeded pool and compares.

import (
	"bytes"
	"encoding/json"
	"fmt"
	"math/big"
	"testing"

	"github.com/icon-project/goloop/common"
	"github.com/icon-project/goloop/common/codec"
	"github.com/icon-project/goloop/common/db"
	"github.com/icon-project/goloop/common/merkle"
	"github.com/icon-project/goloop/common/trie/trie_manager"
	"github.com/icon-project/goloop/module"
	"github.com/icon-project/goloop/service/transaction"
	"github.com/icon-project/goloop/service/txresult"

	"verifharness/tlaio"
)

type step struct {
	Op       string          `json:"op"`
	I        int             `json:"i"`
	N        int             `json:"n"`
	Res      json.RawMessage `json:"res"`
	Reopened string          `json:"reopened"`
}

type run struct {
	Lo int `json:"lo"`
	Hi int `json:"hi"`
}

// ---------------------------------------------------------------- item pools

type pools struct {
	dbase db.Database
	salt  int64
	txs   []module.Transaction
	rcts  []txresult.Receipt
}

func (p *pools) grow(n int) error {
	for i := len(p.txs); i < n; i++ {
		js := fmt.Sprintf(`{"version":"0x3","from":"hx%040x","to":"cx%040x","stepLimit":"0x%x","timestamp":"0x%x","nid":"0x1","nonce":"0x%x","value":"0x%x","signature":"%s"}`,
			p.salt+1, int64(i)*7+p.salt, 100000+i, 1600000000000000+int64(i), i, p.salt*1000+int64(i%13),
			"VAia7YZ2Ji6igKWzjR2YsGa2m53nKPrfK7uXYW78QLE+ATehAVZPC40szvAiA6NEU5gCYB4c4qaQzqDh2ugcHgA=")
		tx, err := transaction.NewTransactionFromJSON([]byte(js))
		if err != nil {
			return fmt.Errorf("cannot build pool transaction %d: %v", i, err)
		}
		p.txs = append(p.txs, tx)
		addr := common.MustNewAddressFromString(fmt.Sprintf("cx%040x", int64(i)*3+p.salt))
		r := txresult.NewReceipt(p.dbase, module.LatestRevision, addr)
		st := module.StatusSuccess
		if i%5 == 4 {
			st = module.StatusOutOfBalance
		}
		r.SetResult(st, big.NewInt(int64(i)+p.salt*100000), big.NewInt(12500000000), nil)
		p.rcts = append(p.rcts, r)
	}
	return nil
}

// one list under test, behind the operations the spec talks about
type list interface {
	name() string
	iterate(each func(item []byte, idx int, hasIdx bool) error) error
	get(i int) ([]byte, error)
	reopen(how string) (list, error)
	proof(i int, key []byte) ([]byte, error) // item bytes proven for index i, nil if the list has no proof API
	item(i int) []byte
}

type txList struct {
	p    *pools
	l    module.TransactionList
	kind string
}

func (t *txList) name() string      { return t.kind }
func (t *txList) item(i int) []byte { return t.p.txs[i].ID() }
func (t *txList) iterate(each func([]byte, int, bool) error) error {
	for it := t.l.Iterator(); it.Has(); {
		tx, idx, err := it.Get()
		if err != nil {
			return fmt.Errorf("iterator Get failed: %v", err)
		}
		if err := each(tx.ID(), idx, true); err != nil {
			return err
		}
		if err := it.Next(); err != nil {
			return fmt.Errorf("iterator Next failed: %v", err)
		}
	}
	return nil
}
func (t *txList) get(i int) ([]byte, error) {
	tx, err := t.l.Get(i)
	if err != nil || tx == nil {
		return nil, err
	}
	return tx.ID(), nil
}
func (t *txList) proof(i int, key []byte) ([]byte, error) { return nil, errNoProofAPI }
func (t *txList) reopen(how string) (list, error) {
	if t.kind == "txv1" {
		return t, nil
	}
	if err := t.l.Flush(); err != nil {
		return nil, err
	}
	if how == "sync" { // rebuild the list in another database from its hash through a merkle builder
		dst := db.NewMapDB()
		cc := merkle.NewCopyContext(t.p.dbase, dst)
		l2 := transaction.NewTransactionListWithBuilder(cc.Builder(), t.l.Hash())
		if err := cc.Run(); err != nil {
			return nil, fmt.Errorf("merkle copy failed: %v", err)
		}
		if t.p.salt%2 == 0 {
			l2 = transaction.NewTransactionListFromHash(dst, t.l.Hash())
		}
		return &txList{t.p, l2, t.kind}, nil
	}
	return &txList{t.p, transaction.NewTransactionListFromHash(t.p.dbase, t.l.Hash()), t.kind}, nil
}

var errNoProofAPI = fmt.Errorf("no proof API")

type rcList struct {
	p *pools
	l module.ReceiptList
	d db.Database // the database the list lives in when it was rebuilt elsewhere
}

func (t *rcList) name() string      { return "receipt" }
func (t *rcList) item(i int) []byte { return t.p.rcts[i].Bytes() }
func (t *rcList) iterate(each func([]byte, int, bool) error) error {
	for it := t.l.Iterator(); it.Has(); {
		r, err := it.Get()
		if err != nil {
			return fmt.Errorf("iterator Get failed: %v", err)
		}
		if err := each(r.Bytes(), 0, false); err != nil {
			return err
		}
		if err := it.Next(); err != nil {
			return fmt.Errorf("iterator Next failed: %v", err)
		}
	}
	return nil
}
func (t *rcList) get(i int) ([]byte, error) {
	r, err := t.l.Get(i)
	if err != nil || r == nil {
		return nil, err
	}
	return r.Bytes(), nil
}
func (t *rcList) proof(i int, key []byte) ([]byte, error) {
	pf, err := t.l.GetProof(i)
	if err != nil {
		return nil, err
	}
	// verify the proof against the list hash with the real prover
	obj, err := trie_manager.NewImmutableForObject(t.dbase(), t.l.Hash(), txresult.ReceiptType).Prove(key, pf)
	if err != nil {
		return nil, fmt.Errorf("proof does not verify: %v", err)
	}
	return obj.Bytes(), nil
}
func (t *rcList) dbase() db.Database {
	if t.d != nil {
		return t.d
	}
	return t.p.dbase
}
func (t *rcList) reopen(how string) (list, error) {
	if err := t.l.Flush(); err != nil {
		return nil, err
	}
	if how == "sync" {
		dst := db.NewMapDB()
		cc := merkle.NewCopyContext(t.p.dbase, dst)
		l2 := txresult.NewReceiptListWithBuilder(cc.Builder(), t.l.Hash())
		if err := cc.Run(); err != nil {
			return nil, fmt.Errorf("merkle copy failed: %v", err)
		}
		if t.p.salt%2 == 0 {
			l2 = txresult.NewReceiptListFromHash(dst, t.l.Hash())
		}
		return &rcList{t.p, l2, dst}, nil
	}
	return &rcList{t.p, txresult.NewReceiptListFromHash(t.p.dbase, t.l.Hash()), nil}, nil
}

type built struct {
	fresh    []list
	reopened map[string][]list
}

func (p *pools) build(n int) (*built, error) {
	if err := p.grow(n); err != nil {
		return nil, err
	}
	txs := append([]module.Transaction{}, p.txs[:n]...)
	rcts := append([]txresult.Receipt{}, p.rcts[:n]...)
	return &built{fresh: []list{
		&txList{p, transaction.NewTransactionListFromSlice(p.dbase, txs), "tx"},
		&rcList{p, txresult.NewReceiptListFromSlice(p.dbase, rcts), nil},
		&txList{p, transaction.NewTransactionListV1FromSlice(txs), "txv1"},
	}}, nil
}

func expand(raw json.RawMessage) ([]int, error) {
	var rs []run
	if err := json.Unmarshal(raw, &rs); err != nil {
		return nil, err
	}
	var res []int
	for _, r := range rs {
		for i := r.Lo; i <= r.Hi; i++ {
			res = append(res, i)
		}
	}
	return res, nil
}

// runs one step on one list; returns (violation key suffix, what) or ("","")
func doStep(l list, s step) (string, string) {
	switch s.Op {
	case "iterate":
		order, err := expand(s.Res)
		if err != nil {
			return "driver", err.Error()
		}
		pos := 0
		err = l.iterate(func(item []byte, idx int, hasIdx bool) error {
			if pos >= len(order) {
				return fmt.Errorf("iteration yields more than the %d items of the list", len(order))
			}
			want := order[pos]
			if !bytes.Equal(item, l.item(want)) {
				return fmt.Errorf("position %d of the iteration over %d items is not item %d (spec order)", pos, s.N, want)
			}
			if hasIdx && idx != want {
				return fmt.Errorf("position %d of the iteration over %d items reports index %d, spec says %d", pos, s.N, idx, want)
			}
			pos++
			return nil
		})
		if err != nil {
			return "iterate", err.Error()
		}
		if pos != len(order) {
			return "iterate", fmt.Sprintf("iteration over %d items ended after %d", s.N, pos)
		}
	case "get":
		var want int
		if err := json.Unmarshal(s.Res, &want); err != nil {
			return "driver", err.Error()
		}
		got, err := l.get(s.I)
		if want < 0 {
			if got != nil {
				return "get", fmt.Sprintf("Get(%d) on a list of %d items returned an item, spec says not found", s.I, s.N)
			}
		} else if got == nil || !bytes.Equal(got, l.item(want)) {
			return "get", fmt.Sprintf("Get(%d) on a list of %d items does not return item %d (err=%v)", s.I, s.N, want, err)
		}
	case "proof":
		var want struct {
			Item int   `json:"item"`
			Key  []int `json:"key"`
		}
		if err := json.Unmarshal(s.Res, &want); err != nil {
			return "driver", err.Error()
		}
		kb := make([]byte, len(want.Key))
		for i, x := range want.Key {
			kb[i] = byte(x)
		}
		got, err := l.proof(s.I, kb)
		if err == errNoProofAPI {
			return "", ""
		}
		if want.Item < 0 {
			if got != nil {
				return "proof", fmt.Sprintf("GetProof(%d) on a list of %d items proves an item, spec says there is none", s.I, s.N)
			}
		} else if got == nil || !bytes.Equal(got, l.item(want.Item)) {
			return "proof", fmt.Sprintf("GetProof(%d) on a list of %d items does not prove item %d under the spec's key %x (err=%v)", s.I, s.N, want.Item, kb, err)
		}
	case "getall":
		order, err := expand(s.Res)
		if err != nil {
			return "driver", err.Error()
		}
		for _, i := range order {
			got, err := l.get(i)
			if got == nil || !bytes.Equal(got, l.item(i)) {
				return "get", fmt.Sprintf("Get(%d) on a list of %d items does not return item %d (err=%v)", i, s.N, i, err)
			}
		}
	}
	return "", ""
}

func TestReplay(t *testing.T) {
	if !tlaio.HaveInput() {
		t.Skip("driven by tools/check.py")
	}
	out := tlaio.OpenOut()
	rnd := tlaio.Rand()
	p := &pools{dbase: db.NewMapDB(), salt: int64(rnd.Intn(1 << 20))}
	cache := map[int]*built{}
	err := tlaio.ReadInput(func(idx int, raw json.RawMessage) error {
		var steps []step
		if err := json.Unmarshal(raw, &steps); err != nil {
			return err
		}
		id := fmt.Sprintf("l%d", idx)
		if len(steps) == 0 || steps[0].Op != "build" {
			out.Skip(id, "behaviour does not start with build")
			return nil
		}
		n := steps[0].N
		sig := ""
		for _, s := range steps {
			sig += fmt.Sprintf("%s:%d:%d:%v;", s.Op, s.N, s.I, s.Reopened)
		}
		b := cache[n]
		if b == nil {
			var err error
			if b, err = p.build(n); err != nil {
				return err
			}
			cache[n] = b
		}
		key, what := "", ""
		for si, s := range steps {
			lists := b.fresh
			switch s.Op {
			case "build":
				continue
			case "reopen":
				if b.reopened == nil {
					b.reopened = map[string][]list{}
				}
				if b.reopened[s.Reopened] == nil {
					for _, l := range b.fresh {
						r, err := l.reopen(s.Reopened)
						if err != nil {
							key, what = "list:"+l.name()+":reopen", fmt.Sprintf("Flush/reopen of a list of %d items failed: %v", n, err)
							break
						}
						b.reopened[s.Reopened] = append(b.reopened[s.Reopened], r)
					}
				}
				continue
			case "key":
				var want []int
				if err := json.Unmarshal(s.Res, &want); err != nil {
					return err
				}
				wb := make([]byte, len(want))
				for i, x := range want {
					wb[i] = byte(x)
				}
				if got := transaction.VerifIntToKey(s.I); !bytes.Equal(got, wb) {
					key, what = "list:tx:key", fmt.Sprintf("transaction list key of index %d is %x, spec says %x", s.I, got, wb)
				} else if got, err := codec.BC.MarshalToBytes(uint(s.I)); err != nil || !bytes.Equal(got, wb) {
					key, what = "list:receipt:key", fmt.Sprintf("receipt list key of index %d is %x (err=%v), spec says %x", s.I, got, err, wb)
				}
			default:
				if s.Reopened != "no" && b.reopened[s.Reopened] != nil {
					lists = b.reopened[s.Reopened]
				}
				for _, l := range lists {
					if k, w := doStep(l, s); w != "" {
						key, what = "list:"+l.name()+":"+k, fmt.Sprintf("step %d (%s list%s): %s", si, l.name(), map[string]string{"hash": ", reopened from its hash", "sync": ", rebuilt through a merkle builder", "no": ""}[s.Reopened], w)
						break
					}
				}
			}
			if what != "" {
				break
			}
		}
		if what != "" {
			out.Violation(id, key, what, map[string]interface{}{"behaviour": steps})
		} else {
			out.OK(id, n > 1, sig)
		}
		return nil
	})
	if err != nil {
		t.Fatal(err)
	}
	out.Close(nil)
}
