package rlp

// Custom codec hooks of C23 (spec/codec/RlpMsg.tla):
//  family "msg": the byte stream the spec predicts for a consensus message (list of its fields, optional last
//    field left out when empty) is decoded by the real consensus.UnmarshalMessage into the real message type,
//    the decoded fields are compared with the message the spec says comes back, and the message is encoded
//    again by its real RLPEncodeSelf / reflection: the bytes must be the predicted ones.
//  family "any": codec.MarshalAny / UnmarshalAny (TypedObj, TypedDict) against the predicted tagged lists.

import (
	"bytes"
	"encoding/json"
	"fmt"
	"reflect"
	"testing"

	"github.com/icon-project/goloop/common/codec"
	"github.com/icon-project/goloop/consensus"

	"verifharness/tlaio"
)

type anyDesc struct {
	K     string    `json:"k"`
	N     int       `json:"n"`
	C     string    `json:"c"`
	Items []anyDesc `json:"items"`
	Keys  []string  `json:"keys"`
	Ord   []int     `json:"ord"`
}

type msgRec struct {
	Op      string  `json:"op"`
	Name    string  `json:"name"`
	Type    tdesc   `json:"type"`
	Val     vdesc   `json:"val"`
	Back    vdesc   `json:"back"`
	Omitted bool    `json:"omitted"`
	Stream  []elem  `json:"stream"`
	Obj     anyDesc `json:"obj"`
	ABack   json.RawMessage
}

var protoOf = map[string]uint16{
	"proposal":  uint16(consensus.ProtoProposal),
	"vote":      uint16(consensus.ProtoVote),
	"blockpart": uint16(consensus.ProtoBlockPart),
	"votelist":  uint16(consensus.ProtoVoteList),
}

func fld(v reflect.Value, i int) reflect.Value { return v.Field(i) }

// (Count or CountWord, Hash) of a *struct{uint, []byte} mirror
func psid(v reflect.Value) (isNil bool, n uint64, hash []byte) {
	if v.IsNil() {
		return true, 0, nil
	}
	return false, v.Elem().Field(0).Uint(), v.Elem().Field(1).Bytes()
}

func sigBytes(m interface{ MarshalBinary() ([]byte, error) }) []byte {
	bs, _ := m.MarshalBinary()
	return bs
}

// compare the decoded real message with the mirror of the message the spec says comes back
func checkFields(name string, msg consensus.Message, exp reflect.Value) string {
	switch name {
	case "proposal":
		m, ok := msg.(*consensus.ProposalMessage)
		if !ok {
			return fmt.Sprintf("decoded as %T", msg)
		}
		n, cnt, hash := psid(fld(exp, 3))
		if !bytes.Equal(sigBytes(&m.Signature), fld(exp, 0).Bytes()) || m.Height != fld(exp, 1).Int() || int64(m.Round) != fld(exp, 2).Int() ||
			int64(m.POLRound) != fld(exp, 4).Int() || uint64(m.NID) != fld(exp, 5).Uint() {
			return fmt.Sprintf("fields H=%d R=%d POL=%d NID=%d sig=%d bytes", m.Height, m.Round, m.POLRound, m.NID, len(sigBytes(&m.Signature)))
		}
		if (m.BlockPartSetID == nil) != n || (!n && (uint64(m.BlockPartSetID.Count) != cnt || !bytes.Equal(m.BlockPartSetID.Hash, hash) || (m.BlockPartSetID.Hash == nil) != (hash == nil))) {
			return fmt.Sprintf("BlockPartSetID %+v", m.BlockPartSetID)
		}
	case "vote":
		m, ok := msg.(*consensus.VoteMessage)
		if !ok {
			return fmt.Sprintf("decoded as %T", msg)
		}
		if !bytes.Equal(sigBytes(&m.Signature), fld(exp, 0).Bytes()) || m.Height != fld(exp, 1).Int() || int64(m.Round) != fld(exp, 2).Int() ||
			uint64(m.Type) != fld(exp, 3).Uint() || !bytes.Equal(m.BlockID, fld(exp, 4).Bytes()) || (m.BlockID == nil) != fld(exp, 4).IsNil() ||
			m.Timestamp != fld(exp, 6).Int() {
			return fmt.Sprintf("fields H=%d R=%d T=%d BID=%x TS=%d", m.Height, m.Round, m.Type, m.BlockID, m.Timestamp)
		}
		n, cw, hash := psid(fld(exp, 5))
		p := m.BlockPartSetIDAndNTSVoteCount
		if (p == nil) != n || (!n && (p.CountWord != cw || !bytes.Equal(p.Hash, hash))) {
			return fmt.Sprintf("BlockPartSetIDAndNTSVoteCount %+v", p)
		}
		nts := fld(exp, 7)
		if nts.IsNil() != (m.NTSVoteBases == nil) || nts.IsNil() != (m.NTSDProofParts == nil) || nts.Len() != len(m.NTSVoteBases) || nts.Len() != len(m.NTSDProofParts) {
			return fmt.Sprintf("NTS votes: %d bases, %d proof parts, spec says %d (nil=%v)", len(m.NTSVoteBases), len(m.NTSDProofParts), nts.Len(), nts.IsNil())
		}
		for i := 0; i < nts.Len(); i++ {
			e := nts.Index(i)
			if m.NTSVoteBases[i].NetworkTypeID != e.Field(0).Int() || !bytes.Equal(m.NTSVoteBases[i].NetworkTypeSectionHash, e.Field(1).Bytes()) ||
				!bytes.Equal(m.NTSDProofParts[i], e.Field(2).Bytes()) {
				return fmt.Sprintf("NTS vote %d differs", i)
			}
		}
	case "blockpart":
		m, ok := msg.(*consensus.BlockPartMessage)
		if !ok {
			return fmt.Sprintf("decoded as %T", msg)
		}
		if m.Height != fld(exp, 0).Int() || uint64(m.Index) != fld(exp, 1).Uint() || !bytes.Equal(m.BlockPart, fld(exp, 2).Bytes()) ||
			(m.BlockPart == nil) != fld(exp, 2).IsNil() || int64(m.Nonce) != fld(exp, 3).Int() {
			return fmt.Sprintf("fields H=%d I=%d part=%d bytes nonce=%d", m.Height, m.Index, len(m.BlockPart), m.Nonce)
		}
	case "votelist":
		m, ok := msg.(*consensus.VoteListMessage)
		if !ok {
			return fmt.Sprintf("decoded as %T", msg)
		}
		vl := fld(exp, 0)
		if vl.IsNil() != (m.VoteList == nil) {
			return fmt.Sprintf("VoteList nil=%v", m.VoteList == nil)
		}
		if vl.IsNil() {
			return ""
		}
		protos, items := vl.Elem().Field(0), vl.Elem().Field(1)
		if protos.Len() != len(m.VoteList.Prototypes) || protos.IsNil() != (m.VoteList.Prototypes == nil) ||
			items.Len() != len(m.VoteList.VoteItems) || items.IsNil() != (m.VoteList.VoteItems == nil) {
			return fmt.Sprintf("VoteList has %d prototypes, %d items; spec says %d, %d", len(m.VoteList.Prototypes), len(m.VoteList.VoteItems), protos.Len(), items.Len())
		}
		for i := 0; i < protos.Len(); i++ {
			e, p := protos.Index(i), m.VoteList.Prototypes[i]
			if p.Height != e.Field(0).Int() || int64(p.Round) != e.Field(1).Int() || uint64(p.Type) != e.Field(2).Uint() ||
				!bytes.Equal(p.BlockID, e.Field(3).Bytes()) || len(p.NTSVoteBases) != e.Field(5).Len() {
				return fmt.Sprintf("prototype %d differs", i)
			}
		}
		for i := 0; i < items.Len(); i++ {
			e, it := items.Index(i), m.VoteList.VoteItems[i]
			if int64(it.PrototypeIndex) != e.Field(0).Int() || it.Timestamp != e.Field(1).Int() || !bytes.Equal(sigBytes(&it.Signature), e.Field(2).Bytes()) ||
				len(it.NTSDProofParts) != e.Field(3).Len() {
				return fmt.Sprintf("vote item %d differs", i)
			}
		}
	}
	return ""
}

func runMsg(r msgRec, variant int, seed int64) (string, *fail) {
	b := &builder{seed: seed, variant: variant, sig65: true}
	mirror, err := b.build(r.Type, r.Val, "")
	if err != nil {
		return "", &fail{false, "model:value", err.Error()}
	}
	input := fmt.Sprintf("%s %s", r.Name, show(mirror))
	want, err := concStream(r.Stream, b.payloads)
	if err != nil {
		return input, &fail{false, "model:stream", err.Error()}
	}
	if !r.Omitted { // the plain struct of the same fields is written the same way
		if got, err := codec.RLP.MarshalToBytes(mirror.Interface()); err != nil || !bytes.Equal(got, want) {
			return input, &fail{true, "msg:mirror", fmt.Sprintf("struct of the fields of %s encodes as %x.., spec says %x.. (%v)", r.Name, head(got), head(want), err)}
		}
	}
	msg, err := consensus.UnmarshalMessage(protoOf[r.Name], want)
	if err != nil {
		return input, &fail{true, "msg:decode:" + r.Name, fmt.Sprintf("UnmarshalMessage(%s, %x..(%d bytes)) fails: %v", r.Name, head(want), len(want), err)}
	}
	b2 := &builder{seed: seed, variant: variant, sig65: true}
	exp, err := b2.build(r.Type, r.Back, "")
	if err != nil {
		return input, &fail{false, "model:back", err.Error()}
	}
	if w := checkFields(r.Name, msg, exp); w != "" {
		return input, &fail{true, "msg:fields:" + r.Name, fmt.Sprintf("%s decoded from %x..: %s; spec says %s", r.Name, head(want), w, show(exp))}
	}
	again, err := codec.BC.MarshalToBytes(msg)
	if err != nil || !bytes.Equal(again, want) {
		return input, &fail{true, "msg:encode:" + r.Name, fmt.Sprintf("%s re-encodes as %x..(%d bytes), spec says %x..(%d bytes) (%v)", r.Name, head(again), len(again), head(want), len(want), err)}
	}
	msg2, err := consensus.UnmarshalMessage(protoOf[r.Name], again)
	if err != nil {
		return input, &fail{true, "msg:roundtrip:" + r.Name, err.Error()}
	}
	if w := checkFields(r.Name, msg2, exp); w != "" {
		return input, &fail{true, "msg:roundtrip:" + r.Name, w}
	}
	return input, nil
}

// ---- TypedObj ----------------------------------------------------------------------------------

var tagByte = map[string]byte{"tnil": 0, "tdict": 1, "tlist": 2, "tbytes": 3, "tbytesnil": 3, "tstr": 4, "tbool": 5}

// Go value of the object + payload queue in the order the spec writes the items
func (b *builder) anyValue(o anyDesc, path string) interface{} {
	b.payloads = append(b.payloads, []byte{tagByte[o.K]})
	switch o.K {
	case "tnil":
		return nil
	case "tbytesnil":
		return []byte(nil)
	case "tbytes":
		p := genPayload(o.N, o.C, b.rnd(path))
		b.push(p)
		return p
	case "tstr":
		p := genPayload(o.N, o.C, b.rnd(path))
		b.push(p)
		return string(p)
	case "tbool":
		b.push([]byte{byte(o.N)})
		return o.N == 1
	case "tlist":
		l := make([]interface{}, len(o.Items))
		for i, it := range o.Items {
			l[i] = b.anyValue(it, fmt.Sprintf("%s/%d", path, i))
		}
		return l
	case "tdict":
		m := map[string]interface{}{}
		for _, j := range o.Ord { // the order in which the spec writes the entries
			i := j - 1
			k := strKeys[o.Keys[i]]
			b.push([]byte(k))
			m[k] = b.anyValue(o.Items[i], path+"/"+o.Keys[i])
		}
		return m
	}
	panic("bad object kind " + o.K)
}

func runAny(r msgRec, back anyDesc, variant int, seed int64) (string, *fail) {
	b := &builder{seed: seed, variant: variant}
	obj := b.anyValue(r.Obj, "")
	input := fmt.Sprintf("%#v", obj)
	if len(input) > 200 {
		input = input[:200] + "..."
	}
	want, err := concStream(r.Stream, b.payloads)
	if err != nil {
		return input, &fail{false, "model:stream", err.Error()}
	}
	got, err := codec.MarshalAny(codec.RLP, nil, obj)
	if err != nil || !bytes.Equal(got, want) {
		return input, &fail{true, "any:bytes", fmt.Sprintf("MarshalAny(%s) = %x..(%d bytes), spec says %x..(%d bytes) (%v)", input, head(got), len(got), head(want), len(want), err)}
	}
	b2 := &builder{seed: seed, variant: variant}
	exp := b2.anyValue(back, "")
	dec, err := codec.UnmarshalAny(codec.RLP, nil, got)
	if err != nil || !reflect.DeepEqual(dec, exp) {
		return input, &fail{true, "any:roundtrip", fmt.Sprintf("UnmarshalAny of the encoding of %s gives %#v (%v)", input, dec, err)}
	}
	return input, nil
}

func TestReplayMsg(t *testing.T) {
	if !tlaio.HaveInput() {
		t.Skip("driven by tools/check.py")
	}
	out := tlaio.OpenOut()
	variants := 2
	if tlaio.Thorough() {
		variants = 4
	}
	err := tlaio.ReadInput(func(idx int, raw json.RawMessage) error {
		var steps []msgRec
		if err := json.Unmarshal(raw, &steps); err != nil {
			return err
		}
		if len(steps) != 1 {
			return fmt.Errorf("case %d: malformed behaviour", idx)
		}
		r := steps[0]
		var back anyDesc
		if r.Op == "any" {
			var probe []struct {
				Back anyDesc `json:"back"`
			}
			if err := json.Unmarshal(raw, &probe); err != nil {
				return err
			}
			back = probe[0].Back
		}
		id := fmt.Sprintf("m%d", idx)
		for v := 0; v < variants; v++ {
			var input string
			var f *fail
			seed := tlaio.Seed()*1000003 + int64(idx)*31 + int64(v)
			if r.Op == "msg" {
				input, f = runMsg(r, v, seed)
			} else {
				input, f = runAny(r, back, v, seed)
			}
			if f == nil {
				continue
			}
			var generic []json.RawMessage
			json.Unmarshal(raw, &generic)
			detail := map[string]interface{}{"behaviour": generic, "input": input, "variant": v, "hooks": true}
			if f.violation {
				out.Violation(id, "rlp:"+f.key, f.what, detail)
			} else {
				out.Divergence(id, f.key+": "+f.what, detail)
			}
			return nil
		}
		out.OK(id, true, string(raw))
		return nil
	})
	if err != nil {
		t.Fatal(err)
	}
	out.Close(nil)
}
