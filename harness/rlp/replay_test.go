package rlp

// Replays behaviours of spec/codec/Rlp.tla into goloop's RLP codec (C23) through its public streaming
// API (codec.RLP.NewEncoderBytes / NewDecoder: Encode, EncodeList, DecodeBytes, DecodeList, Skip) and,
// where the value has a Go type, through MarshalToBytes / UnmarshalFromBytes.  The oracle is the TLA+
// text: the finish record carries the predicted byte stream (header bytes literally, payload runs by
// length), every decoder call carries its predicted result, corrupted streams are predicted to be
// rejected.  This driver only invents payload bytes and keeps the mirror tree to know which payload a
// decoder call must return (the spec names the item by its path).

import (
	"bytes"
	"encoding/json"
	"fmt"
	"io"
	"math/big"
	"math/rand"
	"reflect"
	"testing"

	"github.com/icon-project/goloop/common/codec"

	"verifharness/tlaio"
)

type elem struct {
	T string `json:"t"`
	V int    `json:"v"`
	C string `json:"c"`
}

type rec struct {
	Op     string   `json:"op"`
	N      int      `json:"n"`
	C      string   `json:"c"`
	Res    string   `json:"res"`
	At     []int    `json:"at"`
	Stream []elem   `json:"stream"`
	Digits []string `json:"digits"`
	Canon  bool     `json:"canon"`
	Skip   string   `json:"skip"` // corrupt: verdict of Skip(1) on the corrupted input
	Item   *item    `json:"item"` // raw: the item whose encoding is handed to the writer
}

type item struct {
	K     string `json:"k"`
	N     int    `json:"n"`
	C     string `json:"c"`
	Items []item `json:"items"`
}

// rawItem implements codec.Marshaler / codec.Unmarshaler: it carries the raw encoding of one item
type rawItem struct{ bs []byte }

func (r *rawItem) MarshalRLP() ([]byte, error) { return r.bs, nil }
func (r *rawItem) UnmarshalRLP(bs []byte) error {
	r.bs = append([]byte{}, bs...)
	return nil
}

// mirror node of a spec item with fresh payloads (appended to *payloads in encoding order)
func nodeOf(it item, rnd *rand.Rand, payloads *[][]byte) *node {
	switch it.K {
	case "b":
		p := genPayload(it.N, it.C, rnd)
		if it.N > 0 {
			*payloads = append(*payloads, p)
		}
		return &node{kind: "b", payload: p}
	case "nil":
		return &node{kind: "nil"}
	}
	n := &node{kind: "l"}
	for _, c := range it.Items {
		n.items = append(n.items, nodeOf(c, rnd, payloads))
	}
	return n
}

// payloads of a subtree in encoding order
func payloadsOf(n *node, acc *[][]byte) {
	if n.kind == "b" && len(n.payload) > 0 {
		*acc = append(*acc, n.payload)
	}
	for _, c := range n.items {
		payloadsOf(c, acc)
	}
}

type node struct {
	kind    string // b | nil | l
	payload []byte
	items   []*node
}

type fail struct {
	violation bool
	key, what string
}

func genPayload(n int, c string, rnd *rand.Rand) []byte {
	bs := make([]byte, n)
	rnd.Read(bs)
	if n == 1 {
		if c == "lo" {
			bs[0] &= 0x7f
		} else {
			bs[0] |= 0x80
		}
	}
	return bs
}

// concretize a predicted stream: header bytes literally, payload runs from the payloads in order
func concStream(st []elem, payloads [][]byte) ([]byte, error) {
	var out []byte
	pi := 0
	for _, e := range st {
		if e.T == "h" {
			out = append(out, byte(e.V))
			continue
		}
		if pi >= len(payloads) {
			return nil, fmt.Errorf("stream has more payload runs than items")
		}
		p := payloads[pi]
		pi++
		if e.V > len(p) {
			return nil, fmt.Errorf("run of %d bytes for a payload of %d", e.V, len(p))
		}
		out = append(out, p[:e.V]...)
	}
	return out, nil
}

func at(root []*node, path []int) (*node, bool) {
	list := root
	var n *node
	for i, p := range path {
		if p < 1 || p > len(list) {
			return nil, false
		}
		n = list[p-1]
		if i < len(path)-1 {
			list = n.items
		}
	}
	return n, n != nil
}

// Go value of an item for the reflective encoder: []byte / nil / []interface{}
func asAny(n *node) interface{} {
	switch n.kind {
	case "b":
		return n.payload
	case "nil":
		return nil
	}
	l := make([]interface{}, len(n.items))
	for i, c := range n.items {
		l[i] = asAny(c)
	}
	return l
}

// [][]byte mirror when the value is a flat list of strings / nils
func flat(n *node) ([][]byte, bool) {
	if n.kind != "l" {
		return nil, false
	}
	res := make([][]byte, 0, len(n.items))
	for _, c := range n.items {
		if c.kind == "l" {
			return nil, false
		}
		res = append(res, c.payload)
	}
	return res, true
}

func isReject(err error) bool { return err != nil && err != io.EOF && err != codec.ErrNilValue }

// full read of a (possibly corrupted) input through the streaming API, the way a consumer expecting the
// original value would do it: items in order, each list read to its end.  rejected = some call reported a
// format error; otherwise diffs says in what way the input was accepted.
func traverse(d codec.Decoder, items []*node, diffs *[]string) (rejected bool) {
	for i, n := range items {
		switch n.kind {
		case "b", "nil":
			bs, err := d.DecodeBytes()
			if isReject(err) {
				return true
			}
			if err == io.EOF {
				*diffs = append(*diffs, fmt.Sprintf("list ends before item %d", i))
				return false
			}
			if n.kind == "nil" && err != codec.ErrNilValue {
				*diffs = append(*diffs, fmt.Sprintf("item %d: a string instead of nil", i))
			} else if n.kind == "b" && (err != nil || bs == nil || !bytes.Equal(bs, n.payload)) {
				*diffs = append(*diffs, fmt.Sprintf("item %d: other content (%d bytes, err=%v)", i, len(bs), err))
			}
		case "l":
			d2, err := d.DecodeList()
			if isReject(err) {
				return true
			}
			if err == io.EOF {
				*diffs = append(*diffs, fmt.Sprintf("list ends before item %d", i))
				return false
			}
			if err == codec.ErrNilValue {
				*diffs = append(*diffs, fmt.Sprintf("item %d: nil instead of a list", i))
				continue
			}
			if traverse(d2, n.items, diffs) {
				return true
			}
		}
	}
	// the list must end here; whatever follows is skipped to the end of the list
	for k := 0; ; k++ {
		err := d.Skip(1)
		if isReject(err) {
			return true
		}
		if err != nil {
			break
		}
		*diffs = append(*diffs, "more items than encoded")
		if k > 1000000 {
			break
		}
	}
	return false
}

func newDecoder(buf []byte) codec.DecodeAndCloser {
	d := codec.RLP.NewDecoder(bytes.NewReader(buf))
	d.SetMaxBytes(len(buf))
	return d
}

func runStream(steps []rec, variant int, rnd *rand.Rand, begin func(string)) *fail {
	var buf []byte
	enc := codec.RLP.NewEncoderBytes(&buf)
	estack := []codec.Encoder{enc}
	root := &node{kind: "l"}
	nstack := []*node{root}
	var payloads [][]byte
	var good []byte
	var dstack []codec.Decoder
	for i, r := range steps {
		etop := estack[len(estack)-1]
		ntop := nstack[len(nstack)-1]
		switch r.Op {
		case "bytes":
			p := genPayload(r.N, r.C, rnd)
			if err := etop.Encode(p); err != nil {
				return &fail{true, "enc:bytes", err.Error()}
			}
			ntop.items = append(ntop.items, &node{kind: "b", payload: p})
			if r.N > 0 {
				payloads = append(payloads, p)
			}
		case "nil":
			var err error
			if variant%2 == 0 {
				err = etop.Encode(nil)
			} else {
				err = etop.Encode([]byte(nil))
			}
			if err != nil {
				return &fail{true, "enc:nil", err.Error()}
			}
			ntop.items = append(ntop.items, &node{kind: "nil"})
		case "raw":
			var own [][]byte
			n := nodeOf(*r.Item, rnd, &own)
			raw, err := concStream(r.Stream, own)
			if err != nil {
				return &fail{false, "model:stream", err.Error()}
			}
			if err := etop.Encode(&rawItem{raw}); err != nil {
				return &fail{true, "enc:raw", err.Error()}
			}
			ntop.items = append(ntop.items, n)
			payloads = append(payloads, own...)
		case "list":
			e2, err := etop.EncodeList()
			if err != nil {
				return &fail{true, "enc:list", err.Error()}
			}
			n := &node{kind: "l"}
			ntop.items = append(ntop.items, n)
			estack = append(estack, e2)
			nstack = append(nstack, n)
		case "end":
			estack = estack[:len(estack)-1]
			nstack = nstack[:len(nstack)-1]
		case "finish":
			if err := enc.Close(); err != nil {
				return &fail{true, "enc:close", err.Error()}
			}
			want, err := concStream(r.Stream, payloads)
			if err != nil {
				return &fail{false, "model:stream", err.Error()}
			}
			if !bytes.Equal(buf, want) {
				return &fail{true, "enc:bytes-differ", fmt.Sprintf("encoder output %x..(%d bytes), spec says %x..(%d bytes)", head(buf), len(buf), head(want), len(want))}
			}
			good = append([]byte{}, buf...)
			// the reflective path must produce the same bytes for the same value (determinism)
			if len(root.items) == 1 {
				alt, err := codec.RLP.MarshalToBytes(asAny(root.items[0]))
				if err != nil || !bytes.Equal(alt, good) {
					return &fail{true, "enc:reflect", fmt.Sprintf("MarshalToBytes of the same value gives %x.. (%v)", head(alt), err)}
				}
				if fl, ok := flat(root.items[0]); ok {
					var back [][]byte
					rest, err := codec.RLP.UnmarshalFromBytes(good, &back)
					if err != nil || len(rest) != 0 || !sameFlat(fl, back) {
						return &fail{true, "dec:reflect", fmt.Sprintf("UnmarshalFromBytes into [][]byte: %v, rest %d, equal %v", err, len(rest), sameFlat(fl, back))}
					}
				}
			}
			dstack = []codec.Decoder{newDecoder(good)}
		case "dbytes", "dlist", "dskip", "dpop", "draw":
			if f := decCall(r, i, variant, root, &dstack); f != nil {
				return f
			}
		case "corrupt":
			bad, err := concStream(r.Stream, payloads)
			if err != nil {
				return &fail{false, "model:stream", err.Error()}
			}
			begin(fmt.Sprintf("corrupt %s %x", r.C, head(bad)))
			var diffs []string
			if rej := traverse(newDecoder(bad), root.items, &diffs); !rej {
				return &fail{true, "malformed:" + r.C + ":stream", fmt.Sprintf("%s stream %x..(%d bytes, original %d) is read to the end without error: %v", r.C, head(bad), len(bad), len(good), diffs)}
			}
			if err := newDecoder(bad).Skip(1); (err == nil) != (r.Skip == "ok") {
				return &fail{true, "malformed:" + r.C + ":skip", fmt.Sprintf("Skip(1) over %s stream %x..(%d bytes, original %d) returns %v, spec says %s", r.C, head(bad), len(bad), len(good), err, r.Skip)}
			}
			if fl, ok := flat(root.items[0]); ok {
				var back [][]byte
				if _, err := codec.RLP.UnmarshalFromBytes(bad, &back); err == nil {
					return &fail{true, "malformed:" + r.C + ":unmarshal", fmt.Sprintf("UnmarshalFromBytes accepts %s stream %x..(%d of %d bytes) as %d items (original %d)", r.C, head(bad), len(bad), len(good), len(back), len(fl))}
				}
			}
			if root.items[0].kind == "b" {
				var back []byte
				if _, err := codec.RLP.UnmarshalFromBytes(bad, &back); err == nil {
					return &fail{true, "malformed:" + r.C + ":unmarshal", fmt.Sprintf("UnmarshalFromBytes accepts %s stream %x.. as %d bytes", r.C, head(bad), len(back))}
				}
			}
		default:
			return &fail{false, "model:op", "unknown op " + r.Op}
		}
	}
	return nil
}

func head(b []byte) []byte {
	if len(b) > 12 {
		return b[:12]
	}
	return b
}

func sameFlat(a, b [][]byte) bool {
	if len(a) != len(b) {
		return false
	}
	for i := range a {
		if (a[i] == nil) != (b[i] == nil) || !bytes.Equal(a[i], b[i]) {
			return false
		}
	}
	return true
}

func decCall(r rec, i, variant int, root *node, dstack *[]codec.Decoder) *fail {
	d := (*dstack)[len(*dstack)-1]
	item, have := at(root.items, r.At)
	where := fmt.Sprintf("call %d %s at %v", i, r.Op, r.At)
	switch r.Op {
	case "dbytes":
		var bs []byte
		var err error
		viaDecode := variant%2 == 1
		if viaDecode {
			err = d.Decode(&bs)
		} else {
			bs, err = d.DecodeBytes()
		}
		switch r.Res {
		case "ok":
			if !have || item.kind != "b" {
				return &fail{false, "model:path", where}
			}
			if err != nil || bs == nil || !bytes.Equal(bs, item.payload) {
				return &fail{true, "roundtrip:bytes", fmt.Sprintf("%s: got %d bytes (nil=%v, err=%v), encoded %d bytes", where, len(bs), bs == nil, err, len(item.payload))}
			}
		case "nil":
			if viaDecode {
				if err != nil || bs != nil {
					return &fail{true, "roundtrip:nil", fmt.Sprintf("%s: Decode(&[]byte) of nil gives %v, err=%v", where, bs, err)}
				}
			} else if err != codec.ErrNilValue {
				return &fail{true, "roundtrip:nil", fmt.Sprintf("%s: nil item read as %x, err=%v", where, bs, err)}
			}
		case "eof":
			if err != io.EOF {
				return &fail{true, "roundtrip:eof", fmt.Sprintf("%s: end of input expected, got %x, err=%v", where, head(bs), err)}
			}
		case "invalid":
			if !isReject(err) {
				return &fail{true, "malformed:list-as-bytes", fmt.Sprintf("%s: a list read as bytes gives %x, err=%v", where, head(bs), err)}
			}
		}
	case "dlist":
		d2, err := d.DecodeList()
		switch r.Res {
		case "ok":
			if err != nil {
				return &fail{true, "roundtrip:list", fmt.Sprintf("%s: %v", where, err)}
			}
			*dstack = append(*dstack, d2)
		case "nil":
			if err != codec.ErrNilValue {
				return &fail{true, "roundtrip:nil-list", fmt.Sprintf("%s: nil item read as list, err=%v", where, err)}
			}
		case "invalid":
			if !isReject(err) {
				return &fail{true, "malformed:bytes-as-list", fmt.Sprintf("%s: a string read as list, err=%v", where, err)}
			}
		}
	case "draw":
		if !have {
			return &fail{false, "model:path", where}
		}
		var own [][]byte
		payloadsOf(item, &own)
		want, err := concStream(r.Stream, own)
		if err != nil {
			return &fail{false, "model:stream", err.Error()}
		}
		var ri rawItem
		if err := d.Decode(&ri); err != nil || !bytes.Equal(ri.bs, want) {
			return &fail{true, "roundtrip:raw", fmt.Sprintf("%s: raw item is %x..(%d bytes, err=%v), spec says %x..(%d bytes)", where, head(ri.bs), len(ri.bs), err, head(want), len(want))}
		}
	case "dskip":
		if err := d.Skip(1); err != nil {
			return &fail{true, "roundtrip:skip", fmt.Sprintf("%s: %v", where, err)}
		}
	case "dpop":
		if r.Res == "eof" {
			if bs, err := d.DecodeBytes(); err != io.EOF {
				return &fail{true, "roundtrip:eof", fmt.Sprintf("%s: end of list expected, got %x, err=%v", where, head(bs), err)}
			}
		}
		*dstack = (*dstack)[:len(*dstack)-1]
	}
	return nil
}

// ---- scalar family ---------------------------------------------------------------------------

func concDigit(cls string, variant int, rnd *rand.Rand) byte {
	switch cls {
	case "z":
		return 0
	case "o":
		return 1
	case "f":
		return 0xff
	case "p":
		switch variant {
		case 0:
			return 0x02
		case 1:
			return 0x7f
		}
		return byte(2 + rnd.Intn(0x7e)) // 01 is the class "o"
	}
	switch variant {
	case 0:
		return 0x80
	case 1:
		return 0xfe
	}
	return byte(0x80 + rnd.Intn(0x7f))
}

func target(kind string, w int) reflect.Value {
	switch fmt.Sprintf("%s%d", kind, w) {
	case "bool1":
		return reflect.ValueOf(new(bool))
	case "int0":
		return reflect.ValueOf(new(int))
	case "uint0":
		return reflect.ValueOf(new(uint))
	case "int1":
		return reflect.ValueOf(new(int8))
	case "int2":
		return reflect.ValueOf(new(int16))
	case "int4":
		return reflect.ValueOf(new(int32))
	case "int8":
		return reflect.ValueOf(new(int64))
	case "uint1":
		return reflect.ValueOf(new(uint8))
	case "uint2":
		return reflect.ValueOf(new(uint16))
	case "uint4":
		return reflect.ValueOf(new(uint32))
	case "uint8":
		return reflect.ValueOf(new(uint64))
	}
	panic("bad target")
}

func runScalar(r rec, variant int, rnd *rand.Rand) (string, *fail) {
	bs := make([]byte, len(r.Digits))
	for i, c := range r.Digits {
		bs[i] = concDigit(c, variant, rnd)
	}
	enc, err := codec.RLP.MarshalToBytes(bs)
	if err != nil {
		return "", &fail{true, "enc:bytes", err.Error()}
	}
	input := fmt.Sprintf("%x as %s%d", bs, r.C, 8*r.N)
	tv := target(r.C, r.N)
	_, err = codec.RLP.UnmarshalFromBytes(enc, tv.Interface())
	ref := new(big.Int).SetBytes(bs)
	if len(bs) > 0 && bs[0]&0x80 != 0 {
		ref.Sub(ref, new(big.Int).Lsh(big.NewInt(1), uint(8*len(bs))))
	}
	got := new(big.Int)
	switch r.C {
	case "int":
		got.SetInt64(tv.Elem().Int())
	case "uint":
		got.SetUint64(tv.Elem().Uint())
	default:
		if tv.Elem().Bool() {
			got.SetInt64(1)
		}
	}
	if r.Res == "reject" {
		if err == nil {
			return input, &fail{got.Cmp(ref) != 0, "overflow:" + r.C, fmt.Sprintf("bytes %x (number %s) decoded into %s%d as %s without error", bs, ref, r.C, 8*r.N, got)}
		}
		return input, nil
	}
	if err != nil {
		return input, &fail{r.Canon, "scalar:rejects", fmt.Sprintf("bytes %x (number %s) rejected for %s%d: %v", bs, ref, r.C, 8*r.N, err)}
	}
	if got.Cmp(ref) != 0 {
		return input, &fail{true, "scalar:value", fmt.Sprintf("bytes %x decoded into %s%d as %s, the number is %s", bs, r.C, 8*r.N, got, ref)}
	}
	// the typed value encodes to the minimal form and decodes back
	enc2, err := codec.RLP.MarshalToBytes(tv.Elem().Interface())
	tv2 := target(r.C, r.N)
	if err == nil {
		_, err = codec.RLP.UnmarshalFromBytes(enc2, tv2.Interface())
	}
	if err != nil || !reflect.DeepEqual(tv.Elem().Interface(), tv2.Elem().Interface()) {
		return input, &fail{true, "scalar:roundtrip", fmt.Sprintf("%s%d value %s encodes as %x and decodes as %v (%v)", r.C, 8*r.N, got, enc2, tv2.Elem().Interface(), err)}
	}
	if r.Canon && !bytes.Equal(enc2, enc) {
		return input, &fail{true, "scalar:minimal", fmt.Sprintf("%s%d value %s encodes as %x, minimal form is %x", r.C, 8*r.N, got, enc2, enc)}
	}
	return input, nil
}

func TestReplay(t *testing.T) {
	if !tlaio.HaveInput() {
		t.Skip("driven by tools/check.py")
	}
	out := tlaio.OpenOut()
	rnd := tlaio.Rand()
	variants := 2
	if tlaio.Thorough() {
		variants = 4
	}
	err := tlaio.ReadInput(func(idx int, raw json.RawMessage) error {
		var steps []rec
		if err := json.Unmarshal(raw, &steps); err != nil {
			return err
		}
		if len(steps) == 0 {
			return fmt.Errorf("case %d: empty behaviour", idx)
		}
		id := fmt.Sprintf("b%d", idx)
		sig := ""
		for _, s := range steps {
			sig += fmt.Sprintf("%s%d%s%s%v;", s.Op, s.N, s.C, s.Res, s.Digits)
		}
		for v := 0; v < variants; v++ {
			var f *fail
			input := ""
			if steps[0].Op == "scalar" {
				input, f = runScalar(steps[0], v, rnd)
			} else {
				f = runStream(steps, v, rnd, func(what string) { out.Begin(id, "rlp:crash:"+steps[len(steps)-1].C) })
			}
			if f == nil {
				continue
			}
			detail := map[string]interface{}{"behaviour": steps, "input": input, "variant": v}
			if f.violation {
				out.Violation(id, "rlp:"+f.key, f.what, detail)
			} else {
				out.Divergence(id, f.key+": "+f.what, detail)
			}
			return nil
		}
		out.OK(id, len(steps) > 2 || steps[0].Op == "scalar", sig)
		return nil
	})
	if err != nil {
		t.Fatal(err)
	}
	out.Close(nil)
}
