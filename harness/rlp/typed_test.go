package rlp

// Typed family of C23: behaviours of spec/codec/RlpTyped.tla ((type, value) pairs with the predicted byte
// stream and the predicted value after decoding) replayed into codec.RLP.MarshalToBytes /
// UnmarshalFromBytes.  Go types are built with reflect from the spec's type descriptors, values from the
// spec's value descriptors; payload bytes are a function of the position of the leaf, so the value to
// encode and the value expected back share their concrete bytes.

import (
	"bytes"
	"encoding/json"
	"fmt"
	"hash/fnv"
	"math/big"
	"math/rand"
	"reflect"
	"testing"

	"github.com/icon-project/goloop/common/codec"

	"verifharness/tlaio"
)

type tdesc struct {
	T string  `json:"t"`
	E []tdesc `json:"e"`
}

type vdesc struct {
	V     string          `json:"v"`
	D     []string        `json:"d"`
	N     int             `json:"n"`
	C     string          `json:"c"`
	Items []vdesc         `json:"items"`
	Keys  json.RawMessage `json:"keys"`
	Ord   []int           `json:"ord"`
}

type typedRec struct {
	Name   string `json:"name"`
	Target tdesc  `json:"target"`
	Res    string `json:"res"`
	Op     string `json:"op"`
	Type   tdesc  `json:"type"`
	Val    vdesc  `json:"val"`
	Back   vdesc  `json:"back"`
	Stream []elem `json:"stream"`
}

var bigPtr = reflect.TypeOf((*big.Int)(nil))

func goType(t tdesc) reflect.Type {
	switch t.T {
	case "i8":
		return reflect.TypeOf(int8(0))
	case "i16":
		return reflect.TypeOf(int16(0))
	case "i32":
		return reflect.TypeOf(int32(0))
	case "i64":
		return reflect.TypeOf(int64(0))
	case "u8":
		return reflect.TypeOf(uint8(0))
	case "u16":
		return reflect.TypeOf(uint16(0))
	case "u32":
		return reflect.TypeOf(uint32(0))
	case "u64":
		return reflect.TypeOf(uint64(0))
	case "bool":
		return reflect.TypeOf(false)
	case "str":
		return reflect.TypeOf("")
	case "bytes":
		return reflect.TypeOf([]byte(nil))
	case "big":
		return bigPtr
	case "arrb1":
		return reflect.ArrayOf(1, reflect.TypeOf(uint8(0)))
	case "arrb2":
		return reflect.ArrayOf(2, reflect.TypeOf(uint8(0)))
	case "arrb32":
		return reflect.ArrayOf(32, reflect.TypeOf(uint8(0)))
	case "arr2":
		return reflect.ArrayOf(2, goType(t.E[0]))
	case "ptr":
		return reflect.PtrTo(goType(t.E[0]))
	case "slice":
		return reflect.SliceOf(goType(t.E[0]))
	case "struct":
		fs := make([]reflect.StructField, len(t.E))
		for i, e := range t.E {
			fs[i] = reflect.StructField{Name: fmt.Sprintf("F%d", i), Type: goType(e)}
		}
		return reflect.StructOf(fs)
	case "mapS":
		return reflect.MapOf(reflect.TypeOf(""), goType(t.E[0]))
	case "mapI":
		return reflect.MapOf(reflect.TypeOf(int64(0)), goType(t.E[0]))
	case "mapU":
		return reflect.MapOf(reflect.TypeOf(uint64(0)), goType(t.E[0]))
	}
	panic("bad type " + t.T)
}

// concrete string keys of the key names of the spec (ascending: "", "a", "ab", "b")
var strKeys = map[string]string{"k0": "", "ka": "a", "kab": "ab", "kb": "b"}

type builder struct {
	seed     int64
	variant  int
	sig65    bool     // 65-byte blobs are signatures: the recovery byte is 0 or 1
	payloads [][]byte // in encoding order, non-empty ones only
}

func (b *builder) rnd(path string) *rand.Rand {
	h := fnv.New64a()
	h.Write([]byte(path))
	return rand.New(rand.NewSource(b.seed ^ int64(h.Sum64())))
}

func (b *builder) push(p []byte) {
	if len(p) > 0 {
		b.payloads = append(b.payloads, p)
	}
}

func (b *builder) digits(d []string, path string) []byte {
	r := b.rnd(path)
	bs := make([]byte, len(d))
	for i, c := range d {
		if c == "one" {
			bs[i] = 1
		} else {
			bs[i] = concDigit(c, b.variant, r)
		}
	}
	return bs
}

func twos(bs []byte) *big.Int {
	v := new(big.Int).SetBytes(bs)
	if len(bs) > 0 && bs[0]&0x80 != 0 {
		v.Sub(v, new(big.Int).Lsh(big.NewInt(1), uint(8*len(bs))))
	}
	return v
}

// build the Go value of type t described by v; path identifies the leaf (same for value and expected-back)
func (b *builder) build(t tdesc, v vdesc, path string) (reflect.Value, error) {
	gt := goType(t)
	res := reflect.New(gt).Elem()
	switch v.V {
	case "nil":
		return res, nil // zero value of a nullable type
	case "int":
		bs := b.digits(v.D, path)
		b.push(bs)
		x := twos(bs)
		switch gt.Kind() {
		case reflect.Int8, reflect.Int16, reflect.Int32, reflect.Int64:
			if !x.IsInt64() {
				return res, fmt.Errorf("%s does not fit %s", x, t.T)
			}
			res.SetInt(x.Int64())
			if big.NewInt(res.Int()).Cmp(x) != 0 {
				return res, fmt.Errorf("%s does not fit %s", x, t.T)
			}
		case reflect.Uint8, reflect.Uint16, reflect.Uint32, reflect.Uint64:
			if !x.IsUint64() {
				return res, fmt.Errorf("%s does not fit %s", x, t.T)
			}
			res.SetUint(x.Uint64())
			if new(big.Int).SetUint64(res.Uint()).Cmp(x) != 0 {
				return res, fmt.Errorf("%s does not fit %s", x, t.T)
			}
		case reflect.Ptr: // *big.Int
			res.Set(reflect.ValueOf(x))
		default:
			return res, fmt.Errorf("int value for type %s", t.T)
		}
	case "bool":
		res.SetBool(v.N == 1)
		b.push([]byte{byte(v.N)})
	case "blob":
		p := genPayload(v.N, v.C, b.rnd(path))
		if b.sig65 && v.N == 65 {
			p[64] &= 1
		}
		b.push(p)
		switch gt.Kind() {
		case reflect.String:
			res.SetString(string(p))
		case reflect.Array:
			reflect.Copy(res, reflect.ValueOf(p))
		default:
			res.SetBytes(p)
		}
	case "cut": // the first ord[0] bytes of the n-byte string of this position, then ord[1] zero bytes
		p := genPayload(v.N, v.C, b.rnd(path))
		q := append(append([]byte{}, p[:v.Ord[0]]...), make([]byte, v.Ord[1])...)
		if gt.Kind() == reflect.Array {
			reflect.Copy(res, reflect.ValueOf(q))
		} else {
			res.SetBytes(q)
		}
	case "ptr":
		inner, err := b.build(t.E[0], v.Items[0], path+"/p")
		if err != nil {
			return res, err
		}
		p := reflect.New(gt.Elem())
		p.Elem().Set(inner)
		res.Set(p)
	case "list":
		if gt.Kind() != reflect.Array {
			res.Set(reflect.MakeSlice(gt, 0, len(v.Items)))
		}
		for i, it := range v.Items {
			x, err := b.build(t.E[0], it, fmt.Sprintf("%s/%d", path, i))
			if err != nil {
				return res, err
			}
			if gt.Kind() == reflect.Array {
				res.Index(i).Set(x)
			} else {
				res.Set(reflect.Append(res, x))
			}
		}
	case "struct":
		for i, it := range v.Items {
			x, err := b.build(t.E[i], it, fmt.Sprintf("%s/f%d", path, i))
			if err != nil {
				return res, err
			}
			res.Field(i).Set(x)
		}
	case "map":
		res.Set(reflect.MakeMap(gt))
		var names []string
		var dkeys [][]string
		if t.T == "mapS" {
			if err := json.Unmarshal(v.Keys, &names); err != nil {
				return res, err
			}
		} else if err := json.Unmarshal(v.Keys, &dkeys); err != nil {
			return res, err
		}
		for _, o := range v.Ord { // the order in which the spec says the entries are written
			i := o - 1
			var kname string
			key := reflect.New(gt.Key()).Elem()
			if t.T == "mapS" {
				kname = names[i]
				s, ok := strKeys[kname]
				if !ok {
					return res, fmt.Errorf("unknown key %s", kname)
				}
				key.SetString(s)
				b.push([]byte(s))
			} else {
				kname = fmt.Sprint(dkeys[i])
				bs := b.digits(dkeys[i], path+"/k"+kname)
				b.push(bs)
				x := twos(bs)
				if t.T == "mapI" {
					key.SetInt(x.Int64())
				} else {
					key.SetUint(x.Uint64())
				}
			}
			x, err := b.build(t.E[0], v.Items[i], path+"/m"+kname)
			if err != nil {
				return res, err
			}
			if res.MapIndex(key).IsValid() {
				return res, fmt.Errorf("duplicate concrete key %v", key)
			}
			res.SetMapIndex(key, x)
		}
	default:
		return res, fmt.Errorf("bad value kind %s", v.V)
	}
	return res, nil
}

// structural equality with nil and empty kept apart; *big.Int by value
func equal(a, b reflect.Value) bool {
	if a.Type() != b.Type() {
		return false
	}
	if a.Type() == bigPtr {
		if a.IsNil() || b.IsNil() {
			return a.IsNil() == b.IsNil()
		}
		return a.Interface().(*big.Int).Cmp(b.Interface().(*big.Int)) == 0
	}
	switch a.Kind() {
	case reflect.Ptr:
		if a.IsNil() || b.IsNil() {
			return a.IsNil() == b.IsNil()
		}
		return equal(a.Elem(), b.Elem())
	case reflect.Array:
		for i := 0; i < a.Len(); i++ {
			if !equal(a.Index(i), b.Index(i)) {
				return false
			}
		}
		return true
	case reflect.Slice:
		if a.IsNil() != b.IsNil() || a.Len() != b.Len() {
			return false
		}
		for i := 0; i < a.Len(); i++ {
			if !equal(a.Index(i), b.Index(i)) {
				return false
			}
		}
		return true
	case reflect.Struct:
		for i := 0; i < a.NumField(); i++ {
			if !equal(a.Field(i), b.Field(i)) {
				return false
			}
		}
		return true
	case reflect.Map:
		if a.IsNil() != b.IsNil() || a.Len() != b.Len() {
			return false
		}
		for _, k := range a.MapKeys() {
			bv := b.MapIndex(k)
			if !bv.IsValid() || !equal(a.MapIndex(k), bv) {
				return false
			}
		}
		return true
	}
	return reflect.DeepEqual(a.Interface(), b.Interface())
}

func show(v reflect.Value) string {
	s := fmt.Sprintf("%#v", v.Interface())
	if len(s) > 160 {
		s = s[:160] + "..."
	}
	return s
}

func runTyped(r typedRec, variant int, seed int64) (string, *fail) {
	b := &builder{seed: seed, variant: variant}
	val, err := b.build(r.Type, r.Val, "")
	if err != nil {
		return "", &fail{false, "model:value", err.Error()}
	}
	input := fmt.Sprintf("%s %s", goType(r.Type), show(val))
	want, err := concStream(r.Stream, b.payloads)
	if err != nil {
		return input, &fail{false, "model:stream", err.Error()}
	}
	// encode: by value and through a pointer (addressable) - both must give the predicted bytes
	var arg interface{} = val.Interface()
	if variant%2 == 1 {
		p := reflect.New(val.Type())
		p.Elem().Set(val)
		arg = p.Interface()
	}
	got, err := codec.RLP.MarshalToBytes(arg)
	if err != nil {
		return input, &fail{true, "typed:marshal", fmt.Sprintf("MarshalToBytes(%s): %v", input, err)}
	}
	if !bytes.Equal(got, want) {
		return input, &fail{true, "typed:bytes", fmt.Sprintf("MarshalToBytes(%s) = %x..(%d bytes), spec says %x..(%d bytes)", input, head(got), len(got), head(want), len(want))}
	}
	// a second encoding of an equal value (maps iterate in another order) gives the same bytes
	again, _ := codec.RLP.MarshalToBytes(arg)
	if !bytes.Equal(again, got) {
		return input, &fail{true, "typed:deterministic", fmt.Sprintf("two encodings of %s differ", input)}
	}
	// decode into a fresh value and compare with what the spec says comes back
	b2 := &builder{seed: seed, variant: variant}
	exp, err := b2.build(r.Type, r.Back, "")
	if err != nil {
		return input, &fail{false, "model:back", err.Error()}
	}
	target := reflect.New(val.Type())
	rest, err := codec.RLP.UnmarshalFromBytes(got, target.Interface())
	if err != nil || len(rest) != 0 {
		return input, &fail{true, "typed:unmarshal", fmt.Sprintf("UnmarshalFromBytes of the encoding of %s: %v (rest %d)", input, err, len(rest))}
	}
	if !equal(target.Elem(), exp) {
		return input, &fail{true, "typed:roundtrip", fmt.Sprintf("%s decodes as %s, spec says %s", input, show(target.Elem()), show(exp))}
	}
	return input, nil
}

// write a value of one type, read the bytes into a fresh value of another type
func runCross(r typedRec, variant int, seed int64) (string, *fail) {
	b := &builder{seed: seed, variant: variant}
	val, err := b.build(r.Type, r.Val, "")
	if err != nil {
		return "", &fail{false, "model:value", err.Error()}
	}
	input := fmt.Sprintf("%s: %s %s into %s", r.Name, goType(r.Type), show(val), goType(r.Target))
	want, err := concStream(r.Stream, b.payloads)
	if err != nil {
		return input, &fail{false, "model:stream", err.Error()}
	}
	got, err := codec.RLP.MarshalToBytes(val.Interface())
	if err != nil || !bytes.Equal(got, want) {
		return input, &fail{true, "typed:bytes", fmt.Sprintf("MarshalToBytes(%s) = %x.., spec says %x.. (%v)", input, head(got), head(want), err)}
	}
	target := reflect.New(goType(r.Target))
	_, err = codec.RLP.UnmarshalFromBytes(got, target.Interface())
	if r.Res == "reject" {
		if err == nil {
			return input, &fail{true, "cross:accepts:" + r.Name, fmt.Sprintf("%s: decoded without error as %s", input, show(target.Elem()))}
		}
		return input, nil
	}
	if err != nil {
		return input, &fail{true, "cross:rejects:" + r.Name, fmt.Sprintf("%s: %v", input, err)}
	}
	b2 := &builder{seed: seed, variant: variant}
	exp, err := b2.build(r.Target, r.Back, "")
	if err != nil {
		return input, &fail{false, "model:back", err.Error()}
	}
	if !equal(target.Elem(), exp) {
		return input, &fail{true, "cross:value:" + r.Name, fmt.Sprintf("%s: decoded as %s, spec says %s", input, show(target.Elem()), show(exp))}
	}
	return input, nil
}

func TestReplayTyped(t *testing.T) {
	if !tlaio.HaveInput() {
		t.Skip("driven by tools/check.py")
	}
	out := tlaio.OpenOut()
	variants := 2
	if tlaio.Thorough() {
		variants = 4
	}
	err := tlaio.ReadInput(func(idx int, raw json.RawMessage) error {
		var steps []typedRec
		if err := json.Unmarshal(raw, &steps); err != nil {
			return err
		}
		if len(steps) != 1 || (steps[0].Op != "typed" && steps[0].Op != "cross") {
			return fmt.Errorf("case %d: malformed behaviour", idx)
		}
		id := fmt.Sprintf("t%d", idx)
		var sigv, sigt []byte
		sigt, _ = json.Marshal(steps[0].Type)
		sigv, _ = json.Marshal(steps[0].Val)
		sigv = append(sigv, []byte(steps[0].Name)...)
		if steps[0].Op == "cross" {
			tt, _ := json.Marshal(steps[0].Target)
			sigv = append(sigv, tt...)
		}
		for v := 0; v < variants; v++ {
			var input string
			var f *fail
			if steps[0].Op == "cross" {
				input, f = runCross(steps[0], v, tlaio.Seed()*1000003+int64(idx)*31+int64(v))
			} else {
				input, f = runTyped(steps[0], v, tlaio.Seed()*1000003+int64(idx)*31+int64(v))
			}
			if f == nil {
				continue
			}
			detail := map[string]interface{}{"behaviour": steps, "input": input, "variant": v, "typed": true}
			if f.violation {
				out.Violation(id, "rlp:"+f.key, f.what, detail)
			} else {
				out.Divergence(id, f.key+": "+f.what, detail)
			}
			return nil
		}
		out.OK(id, steps[0].Val.V != "nil", string(sigt)+string(sigv))
		return nil
	})
	if err != nil {
		t.Fatal(err)
	}
	out.Close(nil)
}
