package reward

// Replays scenarios of spec/iiss/Reward.tla (one IISS-4 term: base votes, vote / status events at
// block offsets, reward calculation) into the real reward calculator (C35), along two routes:
//   E  end to end: icstage back snapshot (GlobalV3 + events) and icreward base snapshot (Voted,
//      Delegating, Bonding) -> calculator.New (iiss4Reward.Calculate) -> I-Score of every account;
//   A  the PRepInfo / PRep / Voter API of calculator/prep.go and voter.go called in the order
//      iiss4.go uses, which exposes commission, voter reward, wage and accumulated values of every
//      P-Rep and the reward a voter gets from one P-Rep.
// The oracle is the TLA+ text: the "calc" step carries every predicted value.  The driver maps
// abstract P-Reps/voters to addresses (P-Reps in ascending address order), scales vote amounts by
// a constant factor (rewards are invariant under it), and evaluates the budget inequalities of C35
// on the real outputs.  Verdict-bearing: the budgets and the proportional share (rounded down);
// any other difference from the prediction is a Divergence.

import (
	"encoding/json"
	"fmt"
	"math/big"
	"math/rand"
	"sort"
	"strings"
	"testing"

	"github.com/icon-project/goloop/common"
	"github.com/icon-project/goloop/common/db"
	"github.com/icon-project/goloop/common/log"
	"github.com/icon-project/goloop/icon/icmodule"
	"github.com/icon-project/goloop/icon/iiss/calculator"
	"github.com/icon-project/goloop/icon/iiss/icreward"
	"github.com/icon-project/goloop/icon/iiss/icstage"
	"github.com/icon-project/goloop/icon/iiss/icstate"
	"github.com/icon-project/goloop/icon/iiss/icutils"
	"github.com/icon-project/goloop/module"

	"verifharness/tlaio"
)

type modelCfg struct {
	NPreps    int      `json:"npreps"`
	BaseCount int      `json:"basecount"`
	Voters    []string `json:"voters"`
	T         int      `json:"t"`
	Elected   int      `json:"elected"`
	BRNum     int64    `json:"brnum"`
	BRDen     int64    `json:"brden"`
	RewardP   int64    `json:"rewardp"`
	RewardW   int64    `json:"rewardw"`
	MinBond   int64    `json:"minbond"`
}

type prepRes struct {
	Known      bool  `json:"known"`
	Rewardable bool  `json:"rewardable"`
	AccV       int64 `json:"accv"`
	AccP       int64 `json:"accp"`
	Commission int64 `json:"commission"`
	VReward    int64 `json:"vreward"`
	Wage       int64 `json:"wage"`
	Reward     int64 `json:"reward"`
}
type voterRes struct {
	AV     map[string]int64 `json:"av"`
	Share  map[string]int64 `json:"share"`
	Reward int64            `json:"reward"`
}
type calcRes struct {
	TReward int64               `json:"treward"`
	MinWage int64               `json:"minwage"`
	TotalAP int64               `json:"totalap"`
	Prep    map[string]prepRes  `json:"prep"`
	Voter   map[string]voterRes `json:"voter"`
}
type step struct {
	Op   string           `json:"op"`
	V    string           `json:"v,omitempty"`
	Ty   string           `json:"t,omitempty"`
	P    string           `json:"p,omitempty"`
	A    int64            `json:"a,omitempty"`
	S    string           `json:"s,omitempty"`
	Off  int              `json:"off,omitempty"`
	Rate map[string]int64 `json:"rate,omitempty"`
	Res  *calcRes         `json:"res,omitempty"`
}
type scenario struct {
	Cfg   modelCfg `json:"cfg"`
	Steps []step   `json:"steps"`
	Src   string   `json:"src,omitempty"`
}

type outcome struct {
	kind, key, what string
}

func viol(key, f string, a ...interface{}) *outcome {
	return &outcome{"violation", key, fmt.Sprintf(f, a...)}
}
func diverge(f string, a ...interface{}) *outcome { return &outcome{"divergence", "", fmt.Sprintf(f, a...)} }
func machinery(f string, a ...interface{}) *outcome {
	return &outcome{"machinery", "", fmt.Sprintf(f, a...)}
}

const (
	vtBond     = calculator.VoteType(1) // calculator.vtBond
	vtDelegate = calculator.VoteType(2) // calculator.vtDelegate
)

type conc struct {
	cfg    modelCfg
	scale  *big.Int
	prep   map[string]*common.Address
	voter  map[string]*common.Address
	preps  []string
	voters []string
	br     icmodule.Rate
}

func newConc(cfg modelCfg, rnd *rand.Rand) (*conc, error) {
	c := &conc{cfg: cfg, prep: map[string]*common.Address{}, voter: map[string]*common.Address{}}
	// scale: 1, a small factor, or 10^18 (loop per ICX)
	switch rnd.Intn(3) {
	case 0:
		c.scale = big.NewInt(1)
	case 1:
		c.scale = big.NewInt(int64(2 + rnd.Intn(1000)))
	default:
		c.scale = new(big.Int).Exp(big.NewInt(10), big.NewInt(18), nil)
	}
	// P-Rep addresses ascending with their index (PRep.Bigger breaks ties by address)
	raw := make([][]byte, cfg.NPreps)
	for i := range raw {
		raw[i] = make([]byte, common.AddressBytes)
		rnd.Read(raw[i][1:])
		raw[i][0] = 0
	}
	sort.Slice(raw, func(i, j int) bool { return string(raw[i]) < string(raw[j]) })
	for i := range raw {
		n := fmt.Sprintf("p%d", i+1)
		c.prep[n] = common.MustNewAddress(raw[i])
		c.preps = append(c.preps, n)
	}
	c.voters = append([]string{}, cfg.Voters...)
	sort.Strings(c.voters)
	for _, v := range c.voters {
		bs := make([]byte, common.AddressBytes)
		rnd.Read(bs[1:])
		bs[0] = 0
		c.voter[v] = common.MustNewAddress(bs)
	}
	if cfg.BRNum == 0 {
		c.br = 0
	} else {
		if (10000*cfg.BRNum)%cfg.BRDen != 0 {
			return nil, fmt.Errorf("bond requirement %d/%d is not a rate", cfg.BRNum, cfg.BRDen)
		}
		c.br = icmodule.Rate(10000 * cfg.BRNum / cfg.BRDen)
	}
	return c, nil
}

func (c *conc) amt(a int64) *big.Int { return new(big.Int).Mul(big.NewInt(a), c.scale) }

// unscale returns v/scale and whether the division is exact
func (c *conc) unscale(v *big.Int) (int64, bool) {
	q, r := new(big.Int).QuoRem(v, c.scale, new(big.Int))
	return q.Int64(), r.Sign() == 0 && q.IsInt64()
}

func gcd(a, b int64) int64 {
	for b != 0 {
		a, b = b, a%b
	}
	return a
}

type vote struct {
	v, ty, p string
	a        int64
	off      int
}

// routeA drives PRepInfo / Voter as iiss4.go does and returns the observed values
type obsA struct {
	prep  map[string]prepRes
	voter map[string]voterRes
}

func routeA(c *conc, base []vote, events []step, rates map[string]int64) (*obsA, *outcome) {
	cfg := c.cfg
	logger := log.GlobalLogger()
	pi := calculator.NewPRepInfo(c.br, cfg.Elected, cfg.T-1, logger)
	dlg := map[string]int64{}
	bnd := map[string]int64{}
	for _, b := range base {
		if b.ty == "d" {
			dlg[b.p] += b.a
		} else {
			bnd[b.p] += b.a
		}
	}
	for i := 0; i < cfg.BaseCount; i++ {
		n := c.preps[i]
		pi.Add(c.prep[n], icmodule.ESEnable, c.amt(dlg[n]), c.amt(bnd[n]), icmodule.Rate(rates[n]), true)
	}
	pi.Sort()
	pi.InitAccumulated()
	for _, e := range events {
		switch e.Op {
		case "vote":
			vt := vtDelegate
			if e.Ty == "b" {
				vt = vtBond
			}
			pi.ApplyVote(vt, icstage.VoteList{icstage.NewVote(c.prep[e.P], c.amt(e.A))}, e.Off)
		case "status":
			pi.SetStatus(c.prep[e.P], statusOf(e.S))
		}
	}
	pi.UpdateTotalAccumulatedPower()
	if err := pi.CalculateReward(big.NewInt(cfg.RewardP), big.NewInt(cfg.RewardW), c.amt(cfg.MinBond)); err != nil {
		return nil, diverge("PRepInfo.CalculateReward failed: %v", err)
	}
	o := &obsA{prep: map[string]prepRes{}, voter: map[string]voterRes{}}
	for _, n := range c.preps {
		p := pi.GetPRep(icutils.ToKey(c.prep[n]))
		if p == nil {
			o.prep[n] = prepRes{}
			continue
		}
		av, ok1 := c.unscale(p.AccumulatedVoted())
		ap, ok2 := c.unscale(p.AccumulatedPower())
		if !ok1 || !ok2 {
			return nil, diverge("accumulated values of %s are not multiples of the scale: %v %v", n, p.AccumulatedVoted(), p.AccumulatedPower())
		}
		// PRep exposes GetReward() = commission + wage; the caller separates the two by a second run without wage fund
		o.prep[n] = prepRes{Known: true, Rewardable: p.IsRewardable(cfg.Elected), AccV: av, AccP: ap,
			VReward: p.VoterReward().Int64(), Reward: p.GetReward().Int64()}
	}
	// voters: the complete voter, and one Voter object per (voter, P-Rep) fed with the votes for that P-Rep only
	mk := func(v string, only string) *big.Int {
		vo := calculator.NewVoter(c.voter[v], logger)
		d := icreward.NewDelegating()
		b := icreward.NewBonding()
		for _, bv := range base {
			if bv.v != v || (only != "" && bv.p != only) {
				continue
			}
			if bv.ty == "d" {
				d.Delegations = append(d.Delegations, icstate.NewDelegation(c.prep[bv.p], c.amt(bv.a)))
			} else {
				b.Bonds = append(b.Bonds, icstate.NewBond(c.prep[bv.p], c.amt(bv.a)))
			}
		}
		if !d.IsEmpty() {
			vo.ApplyVoting(d, int64(cfg.T))
		}
		if !b.IsEmpty() {
			vo.ApplyVoting(b, int64(cfg.T))
		}
		for _, e := range events {
			if e.Op != "vote" || e.V != v || (only != "" && e.P != only) {
				continue
			}
			vt := vtDelegate
			if e.Ty == "b" {
				vt = vtBond
			}
			ev := calculator.NewVoteEvent(vt, icstage.VoteList{icstage.NewVote(c.prep[e.P], c.amt(e.A))}, e.Off)
			vo.ApplyEvent(ev, cfg.T-1-e.Off)
		}
		return vo.CalculateReward(pi)
	}
	for _, v := range c.voters {
		r := voterRes{Share: map[string]int64{}}
		r.Reward = mk(v, "").Int64()
		for _, n := range c.preps {
			r.Share[n] = mk(v, n).Int64()
		}
		o.voter[v] = r
	}
	return o, nil
}

func statusOf(s string) icmodule.EnableStatus {
	if s == "enable" {
		return icmodule.ESEnable
	}
	return icmodule.ESDisableTemp
}

// routeE runs the real calculator end to end and returns the I-Score credited to every account
func routeE(c *conc, base []vote, events []step, rates map[string]int64) (map[string]int64, int64, *outcome) {
	cfg := c.cfg
	dbase := db.NewMapDB()
	// reward fund: Iglobal and allocation such that Iglobal*Iprep = RewardP and Iglobal*Iwage = RewardW
	g := gcd(cfg.RewardP, cfg.RewardW)
	if g == 0 {
		return nil, 0, machinery("no reward fund")
	}
	a, b := cfg.RewardP/g, cfg.RewardW/g
	if a+b > 10000 {
		return nil, 0, machinery("reward funds %d/%d cannot be expressed as an allocation", cfg.RewardP, cfg.RewardW)
	}
	rf := icstate.NewRewardFund(icstate.RFVersion2)
	if err := rf.SetIGlobal(big.NewInt(g * 10000)); err != nil {
		return nil, 0, machinery("%v", err)
	}
	if err := rf.SetAllocation(map[icstate.RFundKey]icmodule.Rate{
		icstate.KeyIprep: icmodule.Rate(a), icstate.KeyIwage: icmodule.Rate(b), icstate.KeyIcps: icmodule.Rate(10000 - a - b),
		icstate.KeyIrelay: 0}); err != nil {
		return nil, 0, machinery("%v", err)
	}
	startHeight := int64(1000)
	back := icstage.NewState(dbase)
	if err := back.AddGlobalV3(startHeight, icmodule.LatestRevision, cfg.T-1, cfg.Elected, c.br, rf, c.amt(cfg.MinBond)); err != nil {
		return nil, 0, machinery("%v", err)
	}
	for _, e := range events {
		var err error
		switch e.Op {
		case "vote":
			votes := icstage.VoteList{icstage.NewVote(c.prep[e.P], c.amt(e.A))}
			if e.Ty == "b" {
				_, _, err = back.AddEventBond(e.Off, c.voter[e.V], votes)
			} else {
				_, _, err = back.AddEventDelegation(e.Off, c.voter[e.V], votes)
			}
		case "status":
			_, err = back.AddEventEnable(e.Off, c.prep[e.P], statusOf(e.S))
		}
		if err != nil {
			return nil, 0, machinery("adding event: %v", err)
		}
	}
	bss := back.GetSnapshot()
	if err := bss.Flush(); err != nil {
		return nil, 0, machinery("%v", err)
	}
	rs := icreward.NewState(dbase, nil)
	dlg := map[string]int64{}
	bnd := map[string]int64{}
	dOf := map[string]*icreward.Delegating{}
	bOf := map[string]*icreward.Bonding{}
	for _, bv := range base {
		if bv.ty == "d" {
			dlg[bv.p] += bv.a
			if dOf[bv.v] == nil {
				dOf[bv.v] = icreward.NewDelegating()
			}
			dOf[bv.v].Delegations = append(dOf[bv.v].Delegations, icstate.NewDelegation(c.prep[bv.p], c.amt(bv.a)))
		} else {
			bnd[bv.p] += bv.a
			if bOf[bv.v] == nil {
				bOf[bv.v] = icreward.NewBonding()
			}
			bOf[bv.v].Bonds = append(bOf[bv.v].Bonds, icstate.NewBond(c.prep[bv.p], c.amt(bv.a)))
		}
	}
	for i := 0; i < cfg.BaseCount; i++ {
		n := c.preps[i]
		vd := icreward.NewVotedV2()
		vd.SetStatus(icmodule.ESEnable)
		vd.SetDelegated(c.amt(dlg[n]))
		vd.SetBonded(c.amt(bnd[n]))
		vd.SetCommissionRate(icmodule.Rate(rates[n]))
		if err := rs.SetVoted(c.prep[n], vd); err != nil {
			return nil, 0, machinery("%v", err)
		}
	}
	for v, d := range dOf {
		if err := rs.SetDelegating(c.voter[v], d); err != nil {
			return nil, 0, machinery("%v", err)
		}
	}
	for v, b := range bOf {
		if err := rs.SetBonding(c.voter[v], b); err != nil {
			return nil, 0, machinery("%v", err)
		}
	}
	rss := rs.GetSnapshot()
	if err := rss.Flush(); err != nil {
		return nil, 0, machinery("%v", err)
	}
	calc := calculator.New(dbase, bss, rss, log.GlobalLogger())
	if calc == nil {
		return nil, 0, machinery("calculator.New returned nil")
	}
	if err := calc.WaitResult(startHeight); err != nil {
		return nil, 0, diverge("calculation failed: %v", err)
	}
	res := calc.Result().NewState()
	out := map[string]int64{}
	get := func(name string, a module.Address) *outcome {
		is, err := res.GetIScore(a)
		if err != nil {
			return machinery("%v", err)
		}
		if is != nil && is.Value() != nil {
			out[name] = is.Value().Int64()
		} else {
			out[name] = 0
		}
		return nil
	}
	for n, a := range c.prep {
		if o := get(n, a); o != nil {
			return nil, 0, o
		}
	}
	for n, a := range c.voter {
		if o := get(n, a); o != nil {
			return nil, 0, o
		}
	}
	return out, calc.TotalReward().Int64(), nil
}

func runScenario(sc scenario, rnd *rand.Rand) (*outcome, map[string]interface{}) {
	info := map[string]interface{}{}
	c, err := newConc(sc.Cfg, rnd)
	if err != nil {
		return machinery("%v", err), info
	}
	info["scale"] = c.scale.String()
	var base []vote
	var events []step
	var rates map[string]int64
	var want *calcRes
	for _, s := range sc.Steps {
		switch s.Op {
		case "base":
			base = append(base, vote{s.V, s.Ty, s.P, s.A, 0})
		case "start":
			rates = s.Rate
		case "vote", "status":
			events = append(events, s)
		case "calc":
			want = s.Res
		}
	}
	if want == nil || rates == nil {
		return machinery("scenario without start/calc step"), info
	}
	// route A twice: with the wage fund and without it, the difference of GetReward() is the wage
	cfgNoWage := *c
	cfgNoWage.cfg.RewardW = 0
	oNo, o := routeA(&cfgNoWage, base, events, rates)
	if o != nil {
		return o, info
	}
	oA, o := routeA(c, base, events, rates)
	if o != nil {
		return o, info
	}
	for n, p := range oA.prep {
		p.Wage = p.Reward - oNo.prep[n].Reward
		p.Commission = oNo.prep[n].Reward
		oA.prep[n] = p
	}
	iscore, total, o := routeE(c, base, events, rates)
	if o != nil {
		return o, info
	}
	info["real"] = map[string]interface{}{"prep": oA.prep, "voter": oA.voter, "iscore": iscore, "total": total}

	// ---- C35 on the real outputs (the term's funds are the spec's treward / minwage)
	var sumPrep, sumWage, sumAll int64
	for _, n := range c.preps {
		p := oA.prep[n]
		sumPrep += p.Commission + p.VReward
		sumWage += p.Wage
		if p.Commission < 0 || p.VReward < 0 || p.Wage < 0 {
			return viol("budget:negative", "P-Rep %s: commission %d, voter reward %d, wage %d", n, p.Commission, p.VReward, p.Wage), info
		}
	}
	if sumPrep > want.TReward {
		return viol("budget:prep", "commissions + voter rewards of all P-Reps = %d I-Score exceed the term's P-Rep fund %d", sumPrep, want.TReward), info
	}
	if sumWage > want.MinWage {
		return viol("budget:wage", "wages of all P-Reps = %d I-Score exceed the term's wage fund %d", sumWage, want.MinWage), info
	}
	for _, n := range c.preps {
		p := oA.prep[n]
		var s int64
		for _, v := range c.voters {
			sh := oA.voter[v].Share[n]
			s += sh
			av := want.Voter[v].AV[n]       // accumulated votes: block-by-block sum of the spec
			accv := want.Prep[n].AccV       // accumulated votes of the P-Rep (spec)
			if sh < 0 {
				return viol("share:negative", "voter %s gets %d from P-Rep %s", v, sh, n), info
			}
			if p.Rewardable && av > 0 && accv > 0 {
				// share = floor(av * voterReward / accv)
				lhs := new(big.Int).Mul(big.NewInt(sh), big.NewInt(accv))
				mid := new(big.Int).Mul(big.NewInt(av), big.NewInt(p.VReward))
				rhs := new(big.Int).Mul(big.NewInt(sh+1), big.NewInt(accv))
				if lhs.Cmp(mid) > 0 || mid.Cmp(rhs) >= 0 {
					return viol("share:not-proportional", "voter %s gets %d I-Score from P-Rep %s; its proportional share of the voter reward %d "+
						"for accumulated votes %d of %d is %d", v, sh, n, p.VReward, av, accv, new(big.Int).Div(mid, big.NewInt(accv))), info
				}
			} else if sh != 0 && !(p.Rewardable && av > 0) {
				return viol("share:unearned", "voter %s gets %d I-Score from P-Rep %s without accumulated votes for a rewarded P-Rep", v, sh, n), info
			}
		}
		if s > p.VReward {
			return viol("budget:voter", "voters of P-Rep %s get %d I-Score in total, more than its voter reward %d", n, s, p.VReward), info
		}
	}
	for _, x := range iscore {
		sumAll += x
	}
	if sumAll > want.TReward+want.MinWage {
		return viol("budget:total", "calculator credited %d I-Score in total, the term's funds are %d + %d", sumAll, want.TReward, want.MinWage), info
	}
	if sumAll != total {
		return viol("budget:stats", "calculator statistics report a total of %d I-Score but %d were credited", total, sumAll), info
	}
	// the calculator (iiss4.go) must credit every voter exactly the proportional shares established above
	for _, v := range c.voters {
		if iscore[v] != oA.voter[v].Reward {
			return viol("share:not-proportional:calculator", "the calculator credits voter %s %d I-Score; its proportional shares of the "+
				"P-Reps' voter rewards sum to %d", v, iscore[v], oA.voter[v].Reward), info
		}
	}
	// ---- exact comparison with the prediction (diagnostic)
	var diffs []string
	for _, n := range c.preps {
		w, g := want.Prep[n], oA.prep[n]
		if w.Known != g.Known {
			diffs = append(diffs, fmt.Sprintf("%s known %v (spec %v)", n, g.Known, w.Known))
			continue
		}
		if !w.Known {
			continue
		}
		if w != g {
			diffs = append(diffs, fmt.Sprintf("%s %+v (spec %+v)", n, g, w))
		}
		if iscore[n] != w.Reward {
			diffs = append(diffs, fmt.Sprintf("I-Score of %s %d (spec %d)", n, iscore[n], w.Reward))
		}
	}
	for _, v := range c.voters {
		w, g := want.Voter[v], oA.voter[v]
		if w.Reward != g.Reward {
			diffs = append(diffs, fmt.Sprintf("voter %s reward %d (spec %d)", v, g.Reward, w.Reward))
		}
		for _, n := range c.preps {
			if w.Share[n] != g.Share[n] {
				diffs = append(diffs, fmt.Sprintf("voter %s share of %s %d (spec %d)", v, n, g.Share[n], w.Share[n]))
			}
		}
		if iscore[v] != w.Reward {
			diffs = append(diffs, fmt.Sprintf("I-Score of %s %d (spec %d)", v, iscore[v], w.Reward))
		}
	}
	if len(diffs) > 0 {
		return diverge("%s", strings.Join(diffs, "; ")), info
	}
	return nil, info
}

func sig(sc scenario) string {
	var sb strings.Builder
	for _, s := range sc.Steps {
		switch s.Op {
		case "base", "vote":
			fmt.Fprintf(&sb, "%s%s%s%s%d@%d;", s.Op[:1], s.V, s.Ty, s.P, s.A, s.Off)
		case "status":
			fmt.Fprintf(&sb, "s%s%s@%d;", s.P, s.S, s.Off)
		case "start":
			fmt.Fprintf(&sb, "r%v;", s.Rate)
		}
	}
	return sb.String()
}

func TestReplay(t *testing.T) {
	if !tlaio.HaveInput() {
		t.Skip("driven by tools/check.py")
	}
	log.GlobalLogger().SetLevel(log.FatalLevel)
	log.GlobalLogger().SetConsoleLevel(log.FatalLevel)
	out := tlaio.OpenOut()
	seed := tlaio.Seed()
	err := tlaio.ReadInput(func(idx int, raw json.RawMessage) error {
		if !tlaio.Mine(idx) {
			return nil
		}
		var sc scenario
		if err := json.Unmarshal(raw, &sc); err != nil {
			return err
		}
		id := fmt.Sprintf("s%d", idx)
		cseed := seed*1000003 + int64(idx)
		if sc.Src != "" {
			fmt.Sscanf(sc.Src, "cseed=%d", &cseed)
		}
		out.Begin(id, "crash")
		res, info := runScenario(sc, rand.New(rand.NewSource(cseed)))
		nontrivial := false
		for _, s := range sc.Steps {
			if s.Op == "calc" && s.Res != nil {
				for _, p := range s.Res.Prep {
					if p.VReward+p.Commission > 0 {
						nontrivial = true
					}
				}
			}
		}
		sc.Src = fmt.Sprintf("cseed=%d", cseed)
		switch {
		case res == nil:
			out.OK(id, nontrivial, sig(sc))
		case res.kind == "violation":
			info["behaviour"] = sc
			out.Violation(id, res.key, res.what, info)
		case res.kind == "divergence":
			info["behaviour"] = sc
			out.Divergence(id, res.what, info)
		default:
			return fmt.Errorf("case %s: %s", id, res.what)
		}
		return nil
	})
	if err != nil {
		t.Fatal(err)
	}
	out.Close(nil)
}
