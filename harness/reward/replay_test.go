package reward

// Replays scenarios of spec/iiss/Reward.tla (one IISS-4 term: base votes, vote / status events at
// block offsets, reward calculation) into the real reward calculator (C35), along two routes:
//   E  end to end: icstage back snapshot (GlobalV3 + events) and icreward base snapshot (Voted,
//      Delegating, Bonding) -> calculator.New (iiss4Reward.Calculate) -> I-Score of every account;
//   A  the PRepInfo / PRep / Voter API of calculator/prep.go and voter.go called in the order
//      iiss4.go uses, which exposes commission, voter reward, wage and accumulated values of every
//      P-Rep and the reward a voter gets from one P-Rep.
// The oracle is the TLA+ text: the "calc" step carries every predicted value.  The driver maps
// abstract P-Reps/voters to addresses (P-Reps in ascending address order), scales vote amounts by
// a constant factor (rewards are invariant under it), and evaluates the budget inequalities of C35
// on the real outputs.  Verdict-bearing: the budgets and the proportional share (rounded down);
// any other difference from the prediction is a Divergence.

import (
	"encoding/json"
	"fmt"
	"math/big"
	"math/rand"
	"sort"
	"strings"
	"testing"

	"github.com/icon-project/goloop/common"
	"github.com/icon-project/goloop/common/db"
	"github.com/icon-project/goloop/common/log"
	"github.com/icon-project/goloop/icon/icmodule"
	"github.com/icon-project/goloop/icon/iiss/calculator"
	"github.com/icon-project/goloop/icon/iiss/icreward"
	"github.com/icon-project/goloop/icon/iiss/icstage"
	"github.com/icon-project/goloop/icon/iiss/icstate"
	"github.com/icon-project/goloop/icon/iiss/icutils"
	"github.com/icon-project/goloop/module"

	"verifharness/tlaio"
)

type modelCfg struct {
	NPreps    int      `json:"npreps"`
	BaseCount int      `json:"basecount"`
	Voters    []string `json:"voters"`
	T         int      `json:"t"`
	Elected   int      `json:"elected"`
	BRNum     int64    `json:"brnum"`
	BRDen     int64    `json:"brden"`
	RewardP   int64    `json:"rewardp"`
	RewardW   int64    `json:"rewardw"`
	MinBond   int64    `json:"minbond"`
}

type prepRes struct {
	Known      bool  `json:"known"`
	Rewardable bool  `json:"rewardable"`
	AccV       int64 `json:"accv"`
	AccP       int64 `json:"accp"`
	Commission int64 `json:"commission"`
	VReward    int64 `json:"vreward"`
	Wage       int64 `json:"wage"`
	Reward     int64 `json:"reward"`
}
type voterRes struct {
	AV     map[string]int64 `json:"av"`
	Share  map[string]int64 `json:"share"`
	Reward int64            `json:"reward"`
}
type calcRes struct {
	TReward int64               `json:"treward"`
	MinWage int64               `json:"minwage"`
	TotalAP int64               `json:"totalap"`
	Prep    map[string]prepRes  `json:"prep"`
	Voter   map[string]voterRes `json:"voter"`
}
type basePrep struct {
	Known  bool   `json:"known"`
	Status string `json:"status"`
	Dlg    int64  `json:"dlg"`
	Bnd    int64  `json:"bnd"`
	Rate   int64  `json:"rate"`
	PubKey bool   `json:"pubkey"`
}
type baseVoter struct {
	D map[string]int64 `json:"d"`
	B map[string]int64 `json:"b"`
}
type baseRec struct {
	Prep  map[string]basePrep  `json:"prep"`
	Voter map[string]baseVoter `json:"voter"`
}
type step struct {
	Op       string   `json:"op"`
	V        string   `json:"v,omitempty"`
	X        string   `json:"x,omitempty"`
	Ty       string   `json:"t,omitempty"`
	P        string   `json:"p,omitempty"`
	A        int64    `json:"a,omitempty"`
	S        string   `json:"s,omitempty"`
	Off      int      `json:"off,omitempty"`
	Term     int      `json:"term,omitempty"`
	Base     *baseRec `json:"base,omitempty"`
	Res      *calcRes `json:"res,omitempty"`
	RateFail []string `json:"ratefail,omitempty"`
}
type scenario struct {
	Cfg   modelCfg `json:"cfg"`
	Steps []step   `json:"steps"`
	Src   string   `json:"src,omitempty"`
}

type outcome struct {
	kind, key, what string
}

func viol(key, f string, a ...interface{}) *outcome {
	return &outcome{"violation", key, fmt.Sprintf(f, a...)}
}
func diverge(f string, a ...interface{}) *outcome {
	return &outcome{"divergence", "", fmt.Sprintf(f, a...)}
}
func machinery(f string, a ...interface{}) *outcome {
	return &outcome{"machinery", "", fmt.Sprintf(f, a...)}
}

const (
	vtBond     = calculator.VoteType(1) // calculator.vtBond
	vtDelegate = calculator.VoteType(2) // calculator.vtDelegate
)

type conc struct {
	cfg    modelCfg
	scale  *big.Int
	prep   map[string]*common.Address
	voter  map[string]*common.Address
	preps  []string
	voters []string
	br     icmodule.Rate
}

func newConc(cfg modelCfg, rnd *rand.Rand) (*conc, error) {
	c := &conc{cfg: cfg, prep: map[string]*common.Address{}, voter: map[string]*common.Address{}}
	// scale: 1, a small factor, or 10^18 (loop per ICX)
	switch rnd.Intn(3) {
	case 0:
		c.scale = big.NewInt(1)
	case 1:
		c.scale = big.NewInt(int64(2 + rnd.Intn(1000)))
	default:
		c.scale = new(big.Int).Exp(big.NewInt(10), big.NewInt(18), nil)
	}
	// P-Rep addresses ascending with their index (PRep.Bigger breaks ties by address)
	raw := make([][]byte, cfg.NPreps)
	for i := range raw {
		raw[i] = make([]byte, common.AddressBytes)
		rnd.Read(raw[i][1:])
		raw[i][0] = 0
	}
	sort.Slice(raw, func(i, j int) bool { return string(raw[i]) < string(raw[j]) })
	for i := range raw {
		n := fmt.Sprintf("p%d", i+1)
		c.prep[n] = common.MustNewAddress(raw[i])
		c.preps = append(c.preps, n)
	}
	c.voters = append([]string{}, cfg.Voters...)
	sort.Strings(c.voters)
	for _, v := range c.voters {
		bs := make([]byte, common.AddressBytes)
		rnd.Read(bs[1:])
		bs[0] = 0
		c.voter[v] = common.MustNewAddress(bs)
	}
	if cfg.BRNum == 0 {
		c.br = 0
	} else {
		if (10000*cfg.BRNum)%cfg.BRDen != 0 {
			return nil, fmt.Errorf("bond requirement %d/%d is not a rate", cfg.BRNum, cfg.BRDen)
		}
		c.br = icmodule.Rate(10000 * cfg.BRNum / cfg.BRDen)
	}
	return c, nil
}

func (c *conc) addrOf(x string) module.Address {
	if a, ok := c.prep[x]; ok {
		return a
	}
	return c.voter[x]
}

func (c *conc) amt(a int64) *big.Int { return new(big.Int).Mul(big.NewInt(a), c.scale) }

// unscale returns v/scale and whether the division is exact
func (c *conc) unscale(v *big.Int) (int64, bool) {
	q, r := new(big.Int).QuoRem(v, c.scale, new(big.Int))
	return q.Int64(), r.Sign() == 0 && q.IsInt64()
}

func gcd(a, b int64) int64 {
	for b != 0 {
		a, b = b, a%b
	}
	return a
}

type vote struct {
	v, ty, p string
	a        int64
	off      int
}

// routeA drives PRepInfo / Voter as iiss4.go does and returns the observed values
type obsA struct {
	prep  map[string]prepRes
	voter map[string]voterRes
}

func routeA(c *conc, br *baseRec, events []step) (*obsA, *outcome) {
	var base []vote
	for _, v := range c.voters {
		for _, n := range c.preps {
			if a := br.Voter[v].D[n]; a > 0 {
				base = append(base, vote{v, "d", n, a, 0})
			}
			if a := br.Voter[v].B[n]; a > 0 {
				base = append(base, vote{v, "b", n, a, 0})
			}
		}
	}
	cfg := c.cfg
	logger := log.GlobalLogger()
	pi := calculator.NewPRepInfo(c.br, cfg.Elected, cfg.T-1, logger)
	for _, n := range c.preps {
		if bp := br.Prep[n]; bp.Known {
			pi.Add(c.prep[n], statusOf(bp.Status), c.amt(bp.Dlg), c.amt(bp.Bnd), icmodule.Rate(bp.Rate), bp.PubKey)
		}
	}
	pi.Sort()
	pi.InitAccumulated()
	for _, e := range events {
		switch e.Op {
		case "vote":
			vt := vtDelegate
			if e.Ty == "b" {
				vt = vtBond
			}
			pi.ApplyVote(vt, icstage.VoteList{icstage.NewVote(c.prep[e.P], c.amt(e.A))}, e.Off)
		case "status":
			pi.SetStatus(c.prep[e.P], statusOf(e.S))
		}
	}
	pi.UpdateTotalAccumulatedPower()
	if err := pi.CalculateReward(big.NewInt(cfg.RewardP), big.NewInt(cfg.RewardW), c.amt(cfg.MinBond)); err != nil {
		return nil, diverge("PRepInfo.CalculateReward failed: %v", err)
	}
	o := &obsA{prep: map[string]prepRes{}, voter: map[string]voterRes{}}
	for _, n := range c.preps {
		p := pi.GetPRep(icutils.ToKey(c.prep[n]))
		if p == nil {
			o.prep[n] = prepRes{}
			continue
		}
		av, ok1 := c.unscale(p.AccumulatedVoted())
		ap, ok2 := c.unscale(p.AccumulatedPower())
		if !ok1 || !ok2 {
			return nil, diverge("accumulated values of %s are not multiples of the scale: %v %v", n, p.AccumulatedVoted(), p.AccumulatedPower())
		}
		// PRep exposes GetReward() = commission + wage; the caller separates the two by a second run without wage fund
		o.prep[n] = prepRes{Known: true, Rewardable: p.IsRewardable(cfg.Elected), AccV: av, AccP: ap,
			VReward: p.VoterReward().Int64(), Reward: p.GetReward().Int64()}
	}
	// voters: the complete voter, and one Voter object per (voter, P-Rep) fed with the votes for that P-Rep only
	mk := func(v string, only string) *big.Int {
		vo := calculator.NewVoter(c.voter[v], logger)
		d := icreward.NewDelegating()
		b := icreward.NewBonding()
		for _, bv := range base {
			if bv.v != v || (only != "" && bv.p != only) {
				continue
			}
			if bv.ty == "d" {
				d.Delegations = append(d.Delegations, icstate.NewDelegation(c.prep[bv.p], c.amt(bv.a)))
			} else {
				b.Bonds = append(b.Bonds, icstate.NewBond(c.prep[bv.p], c.amt(bv.a)))
			}
		}
		if !d.IsEmpty() {
			vo.ApplyVoting(d, int64(cfg.T))
		}
		if !b.IsEmpty() {
			vo.ApplyVoting(b, int64(cfg.T))
		}
		for _, e := range events {
			if e.Op != "vote" || e.V != v || (only != "" && e.P != only) {
				continue
			}
			vt := vtDelegate
			if e.Ty == "b" {
				vt = vtBond
			}
			ev := calculator.NewVoteEvent(vt, icstage.VoteList{icstage.NewVote(c.prep[e.P], c.amt(e.A))}, e.Off)
			vo.ApplyEvent(ev, cfg.T-1-e.Off)
		}
		return vo.CalculateReward(pi)
	}
	for _, v := range c.voters {
		r := voterRes{Share: map[string]int64{}}
		r.Reward = mk(v, "").Int64()
		for _, n := range c.preps {
			r.Share[n] = mk(v, n).Int64()
		}
		o.voter[v] = r
	}
	return o, nil
}

func statusOf(s string) icmodule.EnableStatus {
	switch s {
	case "enable":
		return icmodule.ESEnable
	case "nextterm":
		return icmodule.ESEnableAtNextTerm
	}
	return icmodule.ESDisableTemp
}

// chainE is the end-to-end route: a database with the reward snapshot that each term's calculation
// (calculator.New -> iiss4Reward.Calculate) turns into the base of the next term
type chainE struct {
	c      *conc
	dbase  db.Database
	base   *icreward.Snapshot
	height int64
	prev   map[string]int64 // I-Score after the previous term
}

func newChainE(c *conc, br *baseRec) (*chainE, *outcome) {
	e := &chainE{c: c, dbase: db.NewMapDB(), height: 1000, prev: map[string]int64{}}
	rs := icreward.NewState(e.dbase, nil)
	for _, n := range c.preps {
		bp := br.Prep[n]
		if !bp.Known {
			continue
		}
		vd := icreward.NewVotedV2()
		vd.SetStatus(statusOf(bp.Status))
		vd.SetDelegated(c.amt(bp.Dlg))
		vd.SetBonded(c.amt(bp.Bnd))
		vd.SetCommissionRate(icmodule.Rate(bp.Rate))
		if err := rs.SetVoted(c.prep[n], vd); err != nil {
			return nil, machinery("%v", err)
		}
	}
	for _, v := range c.voters {
		d := icreward.NewDelegating()
		b := icreward.NewBonding()
		for _, n := range c.preps {
			if a := br.Voter[v].D[n]; a > 0 {
				d.Delegations = append(d.Delegations, icstate.NewDelegation(c.prep[n], c.amt(a)))
			}
			if a := br.Voter[v].B[n]; a > 0 {
				b.Bonds = append(b.Bonds, icstate.NewBond(c.prep[n], c.amt(a)))
			}
		}
		if !d.IsEmpty() {
			if err := rs.SetDelegating(c.voter[v], d); err != nil {
				return nil, machinery("%v", err)
			}
		}
		if !b.IsEmpty() {
			if err := rs.SetBonding(c.voter[v], b); err != nil {
				return nil, machinery("%v", err)
			}
		}
	}
	e.base = rs.GetSnapshot()
	if err := e.base.Flush(); err != nil {
		return nil, machinery("%v", err)
	}
	return e, nil
}

// term runs one term's calculation and returns the I-Score credited to every account in this term
func (e *chainE) term(events []step) (map[string]int64, int64, *outcome) {
	c := e.c
	cfg := c.cfg
	// reward fund: Iglobal and allocation such that Iglobal*Iprep = RewardP and Iglobal*Iwage = RewardW
	g := gcd(cfg.RewardP, cfg.RewardW)
	if g == 0 {
		return nil, 0, machinery("no reward fund")
	}
	a, b := cfg.RewardP/g, cfg.RewardW/g
	if a+b > 10000 {
		return nil, 0, machinery("reward funds %d/%d cannot be expressed as an allocation", cfg.RewardP, cfg.RewardW)
	}
	rf := icstate.NewRewardFund(icstate.RFVersion2)
	if err := rf.SetIGlobal(big.NewInt(g * 10000)); err != nil {
		return nil, 0, machinery("%v", err)
	}
	if err := rf.SetAllocation(map[icstate.RFundKey]icmodule.Rate{
		icstate.KeyIprep: icmodule.Rate(a), icstate.KeyIwage: icmodule.Rate(b), icstate.KeyIcps: icmodule.Rate(10000 - a - b),
		icstate.KeyIrelay: 0}); err != nil {
		return nil, 0, machinery("%v", err)
	}
	startHeight := e.height
	e.height += int64(cfg.T)
	back := icstage.NewState(e.dbase)
	if err := back.AddGlobalV3(startHeight, icmodule.LatestRevision, cfg.T-1, cfg.Elected, c.br, rf, c.amt(cfg.MinBond)); err != nil {
		return nil, 0, machinery("%v", err)
	}
	claimedNow := map[string]int64{} // I-Score claimed in this term: taken off the account by processClaim
	for _, ev := range events {
		var err error
		switch ev.Op {
		case "vote":
			votes := icstage.VoteList{icstage.NewVote(c.prep[ev.P], c.amt(ev.A))}
			if ev.Ty == "b" {
				_, _, err = back.AddEventBond(ev.Off, c.voter[ev.V], votes)
			} else {
				_, _, err = back.AddEventDelegation(ev.Off, c.voter[ev.V], votes)
			}
		case "status":
			_, err = back.AddEventEnable(ev.Off, c.prep[ev.P], statusOf(ev.S))
		case "rate":
			err = back.AddCommissionRate(c.prep[ev.P], icmodule.Rate(ev.A))
		case "claim":
			_, err = back.AddIScoreClaim(c.addrOf(ev.X), big.NewInt(ev.A))
			claimedNow[ev.X] += ev.A
		}
		if err != nil {
			return nil, 0, machinery("adding event: %v", err)
		}
	}
	bss := back.GetSnapshot()
	if err := bss.Flush(); err != nil {
		return nil, 0, machinery("%v", err)
	}
	calc := calculator.New(e.dbase, bss, e.base, log.GlobalLogger())
	if calc == nil {
		return nil, 0, machinery("calculator.New returned nil")
	}
	if err := calc.WaitResult(startHeight); err != nil {
		// the reward calculation of a term must succeed for every history: otherwise nothing is credited and the
		// block that waits for the result cannot be executed
		return nil, 0, viol("calculation-failed", "reward calculation failed: %v", err)
	}
	result := calc.Result()
	if err := result.Flush(); err != nil {
		return nil, 0, machinery("%v", err)
	}
	res := result.NewState()
	out := map[string]int64{}
	get := func(name string, a module.Address) *outcome {
		is, err := res.GetIScore(a)
		if err != nil {
			return machinery("%v", err)
		}
		var v int64
		if is != nil && is.Value() != nil {
			v = is.Value().Int64()
		}
		out[name] = v - e.prev[name] + claimedNow[name] // credited in this term
		e.prev[name] = v
		return nil
	}
	for n, a := range c.prep {
		if o := get(n, a); o != nil {
			return nil, 0, o
		}
	}
	for n, a := range c.voter {
		if o := get(n, a); o != nil {
			return nil, 0, o
		}
	}
	e.base = result // the calculated snapshot is the base of the next term
	return out, calc.TotalReward().Int64(), nil
}

// budgetIISS3 runs the first term of the scenario through the IISS 3.x calculator (GlobalV2 ->
// iiss3Reward.Calculate: voted reward by bonded delegation, voting reward by voting amount) with
// Iglobal*Iprep = Iglobal*Ivoter = RewardP and checks the same budget invariant on the real output: the
// I-Score credited in the term does not exceed the P-Rep fund plus the voter fund of the term.
func budgetIISS3(c *conc, br *baseRec, events []step, want *calcRes) *outcome {
	cfg := c.cfg
	dbase := db.NewMapDB()
	rs := icreward.NewState(dbase, nil)
	for _, n := range c.preps {
		bp := br.Prep[n]
		if !bp.Known {
			continue
		}
		vd := icreward.NewVoted()
		vd.SetStatus(statusOf(bp.Status))
		vd.SetDelegated(c.amt(bp.Dlg))
		vd.SetBonded(c.amt(bp.Bnd))
		vd.UpdateBondedDelegation(c.br)
		if err := rs.SetVoted(c.prep[n], vd); err != nil {
			return machinery("%v", err)
		}
	}
	for _, v := range c.voters {
		d := icreward.NewDelegating()
		b := icreward.NewBonding()
		for _, n := range c.preps {
			if a := br.Voter[v].D[n]; a > 0 {
				d.Delegations = append(d.Delegations, icstate.NewDelegation(c.prep[n], c.amt(a)))
			}
			if a := br.Voter[v].B[n]; a > 0 {
				b.Bonds = append(b.Bonds, icstate.NewBond(c.prep[n], c.amt(a)))
			}
		}
		if !d.IsEmpty() {
			if err := rs.SetDelegating(c.voter[v], d); err != nil {
				return machinery("%v", err)
			}
		}
		if !b.IsEmpty() {
			if err := rs.SetBonding(c.voter[v], b); err != nil {
				return machinery("%v", err)
			}
		}
	}
	base := rs.GetSnapshot()
	if err := base.Flush(); err != nil {
		return machinery("%v", err)
	}
	back := icstage.NewState(dbase)
	startHeight := int64(1000)
	// Iglobal = 4*RewardP, Iprep = Ivoter = 25%
	if err := back.AddGlobalV2(icmodule.RevisionICON2R3, startHeight, cfg.T-1, big.NewInt(4*cfg.RewardP),
		icmodule.ToRate(25), icmodule.ToRate(25), icmodule.ToRate(0), icmodule.ToRate(0), cfg.Elected, c.br); err != nil {
		return machinery("%v", err)
	}
	for _, ev := range events {
		var err error
		switch ev.Op {
		case "vote":
			votes := icstage.VoteList{icstage.NewVote(c.prep[ev.P], c.amt(ev.A))}
			if ev.Ty == "b" {
				_, _, err = back.AddEventBond(ev.Off, c.voter[ev.V], votes)
			} else {
				_, _, err = back.AddEventDelegation(ev.Off, c.voter[ev.V], votes)
			}
		case "status":
			_, err = back.AddEventEnable(ev.Off, c.prep[ev.P], statusOf(ev.S))
		}
		if err != nil {
			return machinery("adding event: %v", err)
		}
	}
	bss := back.GetSnapshot()
	if err := bss.Flush(); err != nil {
		return machinery("%v", err)
	}
	calc := calculator.New(dbase, bss, base, log.GlobalLogger())
	if calc == nil {
		return machinery("calculator.New returned nil")
	}
	if err := calc.WaitResult(startHeight); err != nil {
		return diverge("IISS3 calculation failed: %v", err)
	}
	res := calc.Result().NewState()
	var sum int64
	for _, a := range c.prep {
		if is, err := res.GetIScore(a); err == nil && is != nil && is.Value() != nil {
			sum += is.Value().Int64()
		}
	}
	for _, a := range c.voter {
		if is, err := res.GetIScore(a); err == nil && is != nil && is.Value() != nil {
			sum += is.Value().Int64()
		}
	}
	// P-Rep fund + voter fund of the term; the spec's treward is floor(RewardP*T*1000/MonthBlock)
	budget := 2 * (want.TReward + 1)
	hasStatus := false
	for _, ev := range events {
		if ev.Op == "status" {
			hasStatus = true
		}
	}
	if hasStatus {
		// enable/disable events inside an IISS 3.x term (turn-skipping penalty, unregistration) change which votes count
		// towards the maximal total voting amount; the spec does not model that accounting: not judged
		return nil
	}
	if sum > budget || calc.TotalReward().Int64() != sum {
		return viol("budget:total:iiss3", "IISS3 calculator credited %d I-Score (statistics: %v); the term's P-Rep and voter funds are %d",
			sum, calc.TotalReward(), budget)
	}
	return nil
}

func runScenario(sc scenario, rnd *rand.Rand) (*outcome, map[string]interface{}) {
	info := map[string]interface{}{}
	c, err := newConc(sc.Cfg, rnd)
	if err != nil {
		return machinery("%v", err), info
	}
	info["scale"] = c.scale.String()
	var chain *chainE
	var base *baseRec
	var events []step
	term := 0
	for _, s := range sc.Steps {
		switch s.Op {
		case "start":
			base = s.Base
			events = nil
			term = s.Term
			if chain == nil {
				var o *outcome
				if chain, o = newChainE(c, base); o != nil {
					return o, info
				}
			}
		case "vote", "status", "rate", "claim":
			events = append(events, s)
		case "calc":
			if base == nil || s.Res == nil {
				return machinery("calc step without start"), info
			}
			if o := checkTerm(c, chain, base, events, s.Res, term, info); o != nil {
				if o.key == "calculation-failed" && len(s.RateFail) > 0 {
					// The specification predicts this failure class of the real calculator (field ratefail). A failed
					// calculation credits nothing, so the statement of C35 (credited <= budget, proportional shares) is not
					// violated by it: it is recorded as an observation about the code, not as a violation of C35.
					o.kind = "observation"
					o.key = "calculation-failed:commission-rate-of-pruned-prep"
					o.what += fmt.Sprintf(" [history class: P-Rep %v set its commission rate in this term and was then disabled; it has no "+
						"votes and its old rate is 0, so UpdateVoted drops its Voted record and processCommissionRate fails with "+
						"'Non PRep set the commission rate']", s.RateFail)
				}
				return o, info
			}
			iiss3ok := term <= 1
			for _, ev := range events {
				if ev.Op == "status" && ev.S == "nextterm" { // "enable at next term" exists from IISS 4 on only
					iiss3ok = false
				}
			}
			if iiss3ok {
				if o := budgetIISS3(c, base, events, s.Res); o != nil {
					return o, info
				}
			}
			base = nil
		}
	}
	if chain == nil {
		return machinery("scenario without start/calc step"), info
	}
	return nil, info
}

// checkTerm runs one term through both routes, evaluates C35 on the real outputs and compares them with the prediction
func checkTerm(c *conc, chain *chainE, base *baseRec, events []step, want *calcRes, term int, info map[string]interface{}) *outcome {
	tag := fmt.Sprintf("term %d: ", term)
	fail := func(o *outcome) *outcome {
		o.what = tag + o.what
		return o
	}
	// route A twice: with the wage fund and without it, the difference of GetReward() is the wage
	cfgNoWage := *c
	cfgNoWage.cfg.RewardW = 0
	oNo, o := routeA(&cfgNoWage, base, events)
	if o != nil {
		return fail(o)
	}
	oA, o := routeA(c, base, events)
	if o != nil {
		return fail(o)
	}
	for n, p := range oA.prep {
		p.Wage = p.Reward - oNo.prep[n].Reward
		p.Commission = oNo.prep[n].Reward
		oA.prep[n] = p
	}
	iscore, total, o := chain.term(events)
	if o != nil {
		return fail(o)
	}
	info[fmt.Sprintf("real_term%d", term)] = map[string]interface{}{"prep": oA.prep, "voter": oA.voter, "iscore": iscore, "total": total}
	if o := judge(c, oA, iscore, total, want); o != nil {
		return fail(o)
	}
	return nil
}

func judge(c *conc, oA *obsA, iscore map[string]int64, total int64, want *calcRes) *outcome {
	info := map[string]interface{}{}
	_ = info
	// ---- C35 on the real outputs (the term's funds are the spec's treward / minwage)
	var sumPrep, sumWage, sumAll int64
	for _, n := range c.preps {
		p := oA.prep[n]
		sumPrep += p.Commission + p.VReward
		sumWage += p.Wage
		if p.Commission < 0 || p.VReward < 0 || p.Wage < 0 {
			return viol("budget:negative", "P-Rep %s: commission %d, voter reward %d, wage %d", n, p.Commission, p.VReward, p.Wage)
		}
	}
	if sumPrep > want.TReward {
		return viol("budget:prep", "commissions + voter rewards of all P-Reps = %d I-Score exceed the term's P-Rep fund %d", sumPrep, want.TReward)
	}
	if sumWage > want.MinWage {
		return viol("budget:wage", "wages of all P-Reps = %d I-Score exceed the term's wage fund %d", sumWage, want.MinWage)
	}
	for _, n := range c.preps {
		p := oA.prep[n]
		var s int64
		for _, v := range c.voters {
			sh := oA.voter[v].Share[n]
			s += sh
			av := want.Voter[v].AV[n] // accumulated votes: block-by-block sum of the spec
			accv := want.Prep[n].AccV // accumulated votes of the P-Rep (spec)
			if sh < 0 {
				return viol("share:negative", "voter %s gets %d from P-Rep %s", v, sh, n)
			}
			if p.Rewardable && av > 0 && accv > 0 {
				// share = floor(av * voterReward / accv)
				lhs := new(big.Int).Mul(big.NewInt(sh), big.NewInt(accv))
				mid := new(big.Int).Mul(big.NewInt(av), big.NewInt(p.VReward))
				rhs := new(big.Int).Mul(big.NewInt(sh+1), big.NewInt(accv))
				if lhs.Cmp(mid) > 0 || mid.Cmp(rhs) >= 0 {
					return viol("share:not-proportional", "voter %s gets %d I-Score from P-Rep %s; its proportional share of the voter reward %d "+
						"for accumulated votes %d of %d is %d", v, sh, n, p.VReward, av, accv, new(big.Int).Div(mid, big.NewInt(accv)))
				}
			} else if sh != 0 && !(p.Rewardable && av > 0) {
				return viol("share:unearned", "voter %s gets %d I-Score from P-Rep %s without accumulated votes for a rewarded P-Rep", v, sh, n)
			}
		}
		if s > p.VReward {
			return viol("budget:voter", "voters of P-Rep %s get %d I-Score in total, more than its voter reward %d", n, s, p.VReward)
		}
	}
	for _, x := range iscore {
		sumAll += x
	}
	if sumAll > want.TReward+want.MinWage {
		return viol("budget:total", "calculator credited %d I-Score in total, the term's funds are %d + %d", sumAll, want.TReward, want.MinWage)
	}
	if sumAll != total {
		return viol("budget:stats", "calculator statistics report a total of %d I-Score but %d were credited", total, sumAll)
	}
	// the calculator (iiss4.go) must credit every voter exactly the proportional shares established above
	for _, v := range c.voters {
		if iscore[v] != oA.voter[v].Reward {
			return viol("share:not-proportional:calculator", "the calculator credits voter %s %d I-Score; its proportional shares of the "+
				"P-Reps' voter rewards sum to %d", v, iscore[v], oA.voter[v].Reward)
		}
	}
	// ---- exact comparison with the prediction (diagnostic)
	var diffs []string
	for _, n := range c.preps {
		w, g := want.Prep[n], oA.prep[n]
		if w.Known != g.Known {
			diffs = append(diffs, fmt.Sprintf("%s known %v (spec %v)", n, g.Known, w.Known))
			continue
		}
		if !w.Known {
			continue
		}
		if w != g {
			diffs = append(diffs, fmt.Sprintf("%s %+v (spec %+v)", n, g, w))
		}
		if iscore[n] != w.Reward {
			diffs = append(diffs, fmt.Sprintf("I-Score of %s %d (spec %d)", n, iscore[n], w.Reward))
		}
	}
	for _, v := range c.voters {
		w, g := want.Voter[v], oA.voter[v]
		if w.Reward != g.Reward {
			diffs = append(diffs, fmt.Sprintf("voter %s reward %d (spec %d)", v, g.Reward, w.Reward))
		}
		for _, n := range c.preps {
			if w.Share[n] != g.Share[n] {
				diffs = append(diffs, fmt.Sprintf("voter %s share of %s %d (spec %d)", v, n, g.Share[n], w.Share[n]))
			}
		}
		if iscore[v] != w.Reward {
			diffs = append(diffs, fmt.Sprintf("I-Score of %s %d (spec %d)", v, iscore[v], w.Reward))
		}
	}
	if len(diffs) > 0 {
		return diverge("%s", strings.Join(diffs, "; "))
	}
	return nil
}

func sig(sc scenario) string {
	var sb strings.Builder
	for _, s := range sc.Steps {
		switch s.Op {
		case "base", "vote":
			fmt.Fprintf(&sb, "%s%s%s%s%d@%d;", s.Op[:1], s.V, s.Ty, s.P, s.A, s.Off)
		case "status":
			fmt.Fprintf(&sb, "s%s%s@%d;", s.P, s.S, s.Off)
		case "rate":
			fmt.Fprintf(&sb, "r%s=%d;", s.P, s.A)
		case "claim":
			fmt.Fprintf(&sb, "c%s;", s.X)
		case "start":
			if s.Base != nil {
				for _, n := range []string{"p1", "p2", "p3", "p4", "p5", "p6"} {
					if bp, ok := s.Base.Prep[n]; ok {
						fmt.Fprintf(&sb, "r%d", bp.Rate)
					}
				}
			}
			sb.WriteString("|")
		}
	}
	return sb.String()
}

func TestReplay(t *testing.T) {
	if !tlaio.HaveInput() {
		t.Skip("driven by tools/check.py")
	}
	log.GlobalLogger().SetLevel(log.FatalLevel)
	log.GlobalLogger().SetConsoleLevel(log.FatalLevel)
	out := tlaio.OpenOut()
	seed := tlaio.Seed()
	err := tlaio.ReadInput(func(idx int, raw json.RawMessage) error {
		if !tlaio.Mine(idx) {
			return nil
		}
		var sc scenario
		if err := json.Unmarshal(raw, &sc); err != nil {
			return err
		}
		id := fmt.Sprintf("s%d", idx)
		cseed := seed*1000003 + int64(idx)
		if sc.Src != "" {
			fmt.Sscanf(sc.Src, "cseed=%d", &cseed)
		}
		out.Begin(id, "crash")
		res, info := runScenario(sc, rand.New(rand.NewSource(cseed)))
		nontrivial := false
		for _, s := range sc.Steps {
			if s.Op == "calc" && s.Res != nil {
				for _, p := range s.Res.Prep {
					if p.VReward+p.Commission > 0 {
						nontrivial = true
					}
				}
			}
		}
		sc.Src = fmt.Sprintf("cseed=%d", cseed)
		switch {
		case res == nil:
			out.OK(id, nontrivial, sig(sc))
		case res.kind == "violation":
			info["behaviour"] = sc
			out.Violation(id, res.key, res.what, info)
		case res.kind == "divergence":
			info["behaviour"] = sc
			out.Divergence(id, res.what, info)
		case res.kind == "observation":
			out.Skip(id, "OBSERVATION "+res.key+": "+res.what)
		default:
			return fmt.Errorf("case %s: %s", id, res.what)
		}
		return nil
	})
	if err != nil {
		t.Fatal(err)
	}
	out.Close(nil)
}
