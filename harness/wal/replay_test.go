package wal

// Replays behaviours of spec/consensus/Wal.tla on the real file WAL of consensus/wal.go (C03).
// A crash is realised as: force everything appended so far into the tail file (so that the
// bytes are produced by the real writer), close it, and truncate the tail file to the byte
// offset that corresponds to the cut chosen by TLC (never below the durable watermark).
// Recovery is the protocol of consensus.applyRoundWAL: OpenWALForRead, ReadBytes until an
// error, CloseAndRepair unless the error is a clean EOF, then OpenWALForWrite.

import (
	"bytes"
	"encoding/binary"
	"encoding/json"
	"fmt"
	"math/rand"
	"os"
	"path/filepath"
	"strings"
	"testing"
	"time"

	"github.com/icon-project/goloop/consensus"

	"verifharness/tlaio"
)

const frameHeader = 8 // bytes of crc+length in front of every payload (HDR cells of the spec)

type cutInfo struct {
	Whole int    `json:"whole"`
	Part  string `json:"part"`
	Cells int    `json:"cells"`
}

type step struct {
	Op       string  `json:"op"`
	P        int     `json:"p"`
	Rid      int     `json:"rid"`
	Cut      cutInfo `json:"cut"`
	TailRids []int   `json:"tailRids"`
	Read     []int   `json:"read"`
	Ended    string  `json:"ended"`
	Durable  []int   `json:"durable"`
	Logical  []int   `json:"logical"`
	Synced   int     `json:"syncedCells"`
	// housekeep (one pass of walWriter.doHousekeeping)
	Rotate     bool  `json:"rotate"`
	HkSynced   bool  `json:"synced"`
	Head       int   `json:"head"`
	Tail       int   `json:"tail"`
	Files      []int `json:"files"`
	FileLimit  int   `json:"fileLimit"`
	TotalLimit int   `json:"totalLimit"`
	Eager      bool  `json:"eager"`
	HkDurable  []int `json:"hkDurable"`
}

const cellBytes = 4 // housekeeping behaviours: one cell of the spec is exactly 4 bytes (HDR = 2 cells = the 8 header bytes)

type variant struct {
	crashIdx int // index of the crash op whose byte offset inside its class is forced (-1: seeded)
	offset   int
}

type runner struct {
	dir      string
	id       string
	rnd      *rand.Rand
	w        consensus.WALWriter
	payloads map[int][]byte
	byData   map[string]int
	hdrCells int
	hk       bool // exact sizes: payload of p cells = 4*p bytes
	cfg      consensus.WALConfig
}

var cfg = consensus.WALConfig{
	FileLimit: 1 << 40, TotalLimit: 1 << 41,
	HousekeepingInterval: time.Hour, SyncInterval: time.Hour,
}

func (r *runner) payload(rid, p int) []byte {
	var n int
	if r.hk {
		bs := make([]byte, cellBytes*p)
		r.rnd.Read(bs)
		if len(bs) >= 4 {
			binary.BigEndian.PutUint32(bs[0:4], uint32(rid))
		}
		return bs
	}
	switch p {
	case 0:
		n = 0
	case 1:
		n = 12 + r.rnd.Intn(150)
	default:
		n = 4200 + r.rnd.Intn(6000) // larger than the writer's 4 KiB buffer
	}
	bs := make([]byte, n)
	r.rnd.Read(bs)
	if n >= 12 {
		binary.BigEndian.PutUint32(bs[0:4], uint32(rid))
	}
	return bs
}

func (r *runner) tailFile() (string, int) {
	ents, _ := os.ReadDir(r.dir)
	best, bestIdx := "", -1
	for _, e := range ents {
		var idx int
		if _, err := fmt.Sscanf(strings.TrimPrefix(e.Name(), "round_"), "%d", &idx); err == nil && idx > bestIdx {
			best, bestIdx = filepath.Join(r.dir, e.Name()), idx
		}
	}
	return best, bestIdx
}

type verdict struct {
	kind string // "", "violation", "divergence"
	key  string
	what string
}

func (r *runner) run(steps []step, v variant) verdict {
	var err error
	r.cfg = cfg
	for _, s := range steps {
		if s.Op == "housekeep" {
			// limits of the specification in bytes; the ticker never fires, every pass is scheduled by the behaviour
			r.hk = true
			r.cfg.FileLimit, r.cfg.TotalLimit = int64(cellBytes*s.FileLimit), int64(cellBytes*s.TotalLimit)
			if s.Eager {
				r.cfg.SyncInterval = time.Nanosecond
			}
			break
		}
	}
	r.w, err = consensus.OpenWALForWrite(r.id, &r.cfg)
	if err != nil {
		return verdict{"divergence", "", "open: " + err.Error()}
	}
	defer func() {
		if r.w != nil {
			r.w.Close()
		}
	}()
	lastCut := "none"
	for i, s := range steps {
		switch s.Op {
		case "write":
			bs := r.payload(s.Rid, s.P)
			r.payloads[s.Rid] = bs
			r.byData[string(bs)] = s.Rid
			if _, err := r.w.WriteBytes(bs); err != nil {
				return verdict{"divergence", "", fmt.Sprintf("step %d write: %v", i, err)}
			}
		case "sync":
			if err := r.w.Sync(); err != nil {
				return verdict{"divergence", "", fmt.Sprintf("step %d sync: %v", i, err)}
			}
		case "shift":
			sh, ok := r.w.(interface{ Shift() error })
			if !ok {
				return verdict{"divergence", "", "writer has no Shift()"}
			}
			if err := sh.Shift(); err != nil {
				return verdict{"divergence", "", fmt.Sprintf("step %d shift: %v", i, err)}
			}
		case "housekeep":
			if !consensus.VerifWALHousekeep(r.w) {
				return verdict{"divergence", "", "writer is not the file WAL writer"}
			}
			// the files the pass leaves behind: indices and sizes as predicted
			ents, _ := os.ReadDir(r.dir)
			have := map[int]int64{}
			for _, e := range ents {
				var idx int
				if _, err := fmt.Sscanf(strings.TrimPrefix(e.Name(), "round_"), "%d", &idx); err == nil {
					if fi, err := e.Info(); err == nil {
						have[idx] = fi.Size()
					}
				}
			}
			want := map[int]int64{}
			for k, c := range s.Files {
				want[s.Head-1+k] = int64(cellBytes * c)
			}
			// every record the specification still counts as durable must be readable from the files
			rd, err := consensus.OpenWALForRead(r.id)
			if err != nil {
				return verdict{"violation", "wal:housekeep:open-failed", fmt.Sprintf("step %d: OpenWALForRead after a housekeeping pass failed: %v", i, err)}
			}
			seen := map[int]bool{}
			for {
				bs, err := rd.ReadBytes()
				if err != nil {
					break
				}
				if rid, ok := r.byData[string(bs)]; ok {
					seen[rid] = true
				}
			}
			rd.Close()
			for _, d := range s.HkDurable {
				if !seen[d] {
					return verdict{"violation", "wal:housekeep:synced-record-lost",
						fmt.Sprintf("step %d: synced record %d cannot be read after the housekeeping pass (files on disk %v, the specification keeps %v)", i, d, have, want)}
				}
			}
			if fmt.Sprint(have) != fmt.Sprint(want) {
				return verdict{"divergence", "", fmt.Sprintf("step %d housekeep: files on disk %v, spec predicts %v (rotate=%v sync=%v)", i, have, want, s.Rotate, s.HkSynced)}
			}
		case "close":
			if err := r.w.Close(); err != nil {
				return verdict{"divergence", "", fmt.Sprintf("step %d close: %v", i, err)}
			}
			r.w = nil
		case "crash":
			// everything appended reaches the file through the real writer, then the cut is applied
			if err := r.w.Close(); err != nil {
				return verdict{"divergence", "", fmt.Sprintf("step %d crash/close: %v", i, err)}
			}
			r.w = nil
			tail, _ := r.tailFile()
			off := 0
			for k := 0; k < s.Cut.Whole; k++ {
				off += frameHeader + len(r.payloads[s.TailRids[k]])
			}
			if s.Cut.Part != "none" {
				pl := len(r.payloads[s.TailRids[s.Cut.Whole]])
				switch s.Cut.Part {
				case "hdr-in":
					o := 1 + r.rnd.Intn(frameHeader-1)
					if v.crashIdx == i {
						o = 1 + v.offset%(frameHeader-1)
					}
					off += o
				case "hdr-end":
					off += frameHeader
				case "pl-in":
					o := 1 + r.rnd.Intn(pl-1)
					if v.crashIdx == i {
						o = 1 + v.offset%(pl-1)
					}
					off += frameHeader + o
				}
			}
			st, err := os.Stat(tail)
			if err != nil {
				return verdict{"divergence", "", "stat tail: " + err.Error()}
			}
			want := 0
			for _, rid := range s.TailRids {
				want += frameHeader + len(r.payloads[rid])
			}
			if int(st.Size()) != want {
				return verdict{"divergence", "", fmt.Sprintf("step %d: tail file has %d bytes, the records appended to it make %d", i, st.Size(), want)}
			}
			if err := os.Truncate(tail, int64(off)); err != nil {
				return verdict{"divergence", "", "truncate: " + err.Error()}
			}
			lastCut = s.Cut.Part
			if s.Cut.Part == "none" && s.Cut.Whole < len(s.TailRids) {
				lastCut = "record-end"
			}
			if off == 0 && len(s.TailRids) > 0 {
				lastCut += "@segment-start"
			}
		case "recover":
			gotBs, gv := r.recover()
			if gv.kind != "" {
				gv.key += ":after-cut=" + lastCut
				gv.what = fmt.Sprintf("step %d: %s", i, gv.what)
				return gv
			}
			// records are identified by position: what is returned must be, byte for byte, a prefix of what
			// the log is supposed to hold
			if len(gotBs) > len(s.Logical) {
				return verdict{"violation", "wal:recover:not-a-prefix:after-cut=" + lastCut,
					fmt.Sprintf("step %d: recovery returned %d records, only %d were appended (%v)", i, len(gotBs), len(s.Logical), s.Logical)}
			}
			got := []int{}
			for k, bs := range gotBs {
				if !bytes.Equal(bs, r.payloads[s.Logical[k]]) {
					return verdict{"violation", "wal:recover:not-a-prefix:after-cut=" + lastCut,
						fmt.Sprintf("step %d: record #%d returned by recovery (%s) is not record %d of the appended records %v", i, k, r.name(bs), s.Logical[k], s.Logical)}
				}
				got = append(got, s.Logical[k])
			}
			for _, d := range s.Durable {
				if !contains(got, d) {
					return verdict{"violation", "wal:recover:synced-record-lost:after-cut=" + lastCut,
						fmt.Sprintf("step %d: synced record %d is missing after recovery: got %v, appended %v, synced %v", i, d, got, s.Logical, s.Durable)}
				}
			}
			if !equal(got, s.Read) {
				return verdict{"divergence", "", fmt.Sprintf("step %d: recovery returned %v, spec predicts %v", i, got, s.Read)}
			}
		}
	}
	return verdict{}
}

// the protocol of applyRoundWAL / applyLockWAL / applyCommitWAL
func (r *runner) name(bs []byte) string {
	for rid, p := range r.payloads {
		if bytes.Equal(p, bs) {
			return fmt.Sprintf("a copy of record %d", rid)
		}
	}
	return fmt.Sprintf("%d unknown bytes", len(bs))
}

func (r *runner) recover() ([][]byte, verdict) {
	rd, err := consensus.OpenWALForRead(r.id)
	if err != nil {
		return nil, verdict{"violation", "wal:recover:open-failed", "OpenWALForRead after crash failed: " + err.Error()}
	}
	var got [][]byte
	for {
		bs, err := rd.ReadBytes()
		if consensus.IsEOF(err) {
			break
		} else if consensus.IsCorruptedWAL(err) || consensus.IsUnexpectedEOF(err) {
			if err := rd.CloseAndRepair(); err != nil {
				return got, verdict{"violation", "wal:recover:repair-failed", "CloseAndRepair failed: " + err.Error()}
			}
			break
		} else if err != nil {
			rd.Close()
			return got, verdict{"violation", "wal:recover:read-error", "ReadBytes failed with an unclassified error: " + err.Error()}
		}
		if _, ok := r.byData[string(bs)]; !ok {
			rd.Close()
			return got, verdict{"violation", "wal:recover:corrupt-record-returned", fmt.Sprintf("ReadBytes returned %d bytes that were never appended", len(bs))}
		}
		got = append(got, bs)
	}
	rd.Close()
	r.w, err = consensus.OpenWALForWrite(r.id, &r.cfg)
	if err != nil {
		return got, verdict{"violation", "wal:recover:reopen-failed", "OpenWALForWrite after recovery failed: " + err.Error()}
	}
	return got, verdict{}
}

func isPrefix(a, b []int) bool {
	if len(a) > len(b) {
		return false
	}
	for i := range a {
		if a[i] != b[i] {
			return false
		}
	}
	return true
}
func equal(a, b []int) bool { return len(a) == len(b) && isPrefix(a, b) }
func contains(a []int, x int) bool {
	for _, y := range a {
		if y == x {
			return true
		}
	}
	return false
}

func TestReplay(t *testing.T) {
	if !tlaio.HaveInput() {
		t.Skip("driven by tools/check.py")
	}
	out := tlaio.OpenOut()
	base := tlaio.ScratchDir()
	seed := tlaio.Seed()
	n := 0
	err := tlaio.ReadInput(func(idx int, raw json.RawMessage) error {
		if !tlaio.Mine(idx) {
			return nil
		}
		var steps []step
		if err := json.Unmarshal(raw, &steps); err != nil {
			return err
		}
		variants := []variant{{-1, 0}}
		if tlaio.Thorough() {
			// byte-granular cuts: every offset inside a torn header, several inside a torn payload
			for i, s := range steps {
				if s.Op == "crash" && s.Cut.Part == "hdr-in" {
					for o := 0; o < frameHeader-1; o++ {
						variants = append(variants, variant{i, o})
					}
				}
				if s.Op == "crash" && s.Cut.Part == "pl-in" {
					for _, o := range []int{0, 1, 4094 - frameHeader, 4095 - frameHeader, 4096 - frameHeader, 1 << 20} {
						variants = append(variants, variant{i, o})
					}
				}
			}
		}
		sig := ""
		nontrivial := false
		for _, s := range steps {
			sig += s.Op[:2]
			if s.Op == "crash" {
				sig += fmt.Sprintf("(%d,%s)", s.Cut.Whole, s.Cut.Part)
				nontrivial = true
			}
			if s.Op == "write" {
				sig += fmt.Sprint(s.P)
			}
			sig += ";"
		}
		for vi, v := range variants {
			n++
			dir := filepath.Join(base, fmt.Sprintf("c%d_%d", idx, vi))
			os.MkdirAll(dir, 0700)
			r := &runner{dir: dir, id: filepath.Join(dir, "round"), rnd: rand.New(rand.NewSource(seed*1000003 + int64(idx)*131 + int64(vi))),
				payloads: map[int][]byte{}, byData: map[string]int{}}
			id := fmt.Sprintf("b%d.v%d", idx, vi)
			out.Begin(id, "wal:crash")
			vd := r.run(steps, v)
			os.RemoveAll(dir)
			switch vd.kind {
			case "violation":
				out.Violation(id, vd.key, vd.what, map[string]interface{}{"behaviour": steps, "variant": []int{v.crashIdx, v.offset}})
			case "divergence":
				out.Divergence(id, vd.what, map[string]interface{}{"behaviour": steps})
			default:
				out.OK(id, nontrivial, fmt.Sprintf("%s#%d", sig, vi))
			}
		}
		return nil
	})
	if err != nil {
		t.Fatal(err)
	}
	out.Close(nil)
}
