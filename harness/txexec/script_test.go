package txexec

// The scripted contract: a system SCORE (contract.RegisterSystemScore) that is invoked by the
// real CallHandler / TransferAndCallHandler and performs the operations chosen by the
// specification (hist[i].tx.prog) through the real CallContext: storage writes, event logs,
// BTP messages, step consumption, inter-call transfers and nested calls (real handlers from
// ContractManager.GetCallHandler, real cc.Call frames).  It only concretizes operations and
// records what it observed (step-charge decisions); it does not know expected outcomes.

import (
	"encoding/json"
	"fmt"
	"math/big"
	"sync"

	"github.com/icon-project/goloop/common"
	"github.com/icon-project/goloop/common/codec"
	"github.com/icon-project/goloop/common/errors"
	"github.com/icon-project/goloop/common/log"
	"github.com/icon-project/goloop/module"
	"github.com/icon-project/goloop/service/contract"
	"github.com/icon-project/goloop/service/eeproxy"
	"github.com/icon-project/goloop/service/scoreapi"
	"github.com/icon-project/goloop/service/scoreresult"
	"github.com/icon-project/goloop/service/state"
)

const scriptCID = "verif.script"
const topProgID = "000"

type op struct {
	O   string `json:"o"`
	A   string `json:"a"`
	N   int64  `json:"n"`
	Sub []op   `json:"sub"`
	C   bool   `json:"c"`
}

type prog struct {
	self string // abstract name of the contract that runs it
	ops  []op
}

// txRec is the script-side record of one transaction (keyed by transaction id).
type txRec struct {
	mu      sync.Mutex
	env     *env
	top     *prog
	nested  map[string]*prog
	nextID  int
	Entered bool   // the first frame's contract code was reached
	Orc     []bool // step-charge decisions in execution order (true = the charge fitted)
	Errs    []string
	Hung    int // calls of the never-answering handler that started waiting
}

func (r *txRec) dec(ok bool) {
	r.mu.Lock()
	r.Orc = append(r.Orc, ok)
	r.mu.Unlock()
}

func (r *txRec) addNested(p *prog) string {
	r.mu.Lock()
	defer r.mu.Unlock()
	r.nextID++
	id := fmt.Sprintf("n%d", r.nextID)
	r.nested[id] = p
	return id
}

func (r *txRec) lookup(id string) *prog {
	r.mu.Lock()
	defer r.mu.Unlock()
	if id == topProgID {
		r.Entered = true
		return r.top
	}
	return r.nested[id]
}

func (r *txRec) fail(format string, a ...interface{}) {
	r.mu.Lock()
	r.Errs = append(r.Errs, fmt.Sprintf(format, a...))
	r.mu.Unlock()
}

var (
	recMu   sync.Mutex
	recByTx = map[string]*txRec{}
)

func registerTx(id []byte, r *txRec) {
	recMu.Lock()
	recByTx[string(id)] = r
	recMu.Unlock()
}

func unregisterTx(id []byte) {
	recMu.Lock()
	delete(recByTx, string(id))
	recMu.Unlock()
}

func recFor(id []byte) *txRec {
	recMu.Lock()
	defer recMu.Unlock()
	return recByTx[string(id)]
}

type scriptScore struct {
	cc    contract.CallContext
	from  module.Address
	value *big.Int
}

var scoreOnce sync.Once

func registerScriptScore() {
	scoreOnce.Do(func() {
		contract.RegisterSystemScore(scriptCID, &contract.SystemScoreModule{
			New: func(cid string, cc contract.CallContext, from module.Address, value *big.Int) (contract.SystemScore, error) {
				return &scriptScore{cc: cc, from: from, value: value}, nil
			},
		})
	})
}

func (s *scriptScore) Install(param []byte) error { return nil }
func (s *scriptScore) Update(param []byte) error  { return nil }
func (s *scriptScore) GetAPI() *scoreapi.Info {
	return scoreapi.NewInfo([]*scoreapi.Method{
		{Type: scoreapi.Function, Name: "run", Flags: scoreapi.FlagExternal | scoreapi.FlagPayable, Indexed: 1,
			Inputs: []scoreapi.Parameter{{Name: "p", Type: scoreapi.String}}},
		{Type: scoreapi.Fallback, Name: "fallback", Flags: scoreapi.FlagPayable},
	})
}

// Ex_fallback is reached by plain transfers to the contract: the empty program.
func (s *scriptScore) Ex_fallback() error {
	r := recFor(s.cc.TransactionID())
	if r == nil {
		return scoreresult.UnknownFailureError.New("verif: unregistered transaction")
	}
	r.mu.Lock()
	r.Entered = true
	r.mu.Unlock()
	err := s.cc.ApplyCallSteps()
	r.dec(err == nil)
	return err
}

func (s *scriptScore) Ex_run(p string) error {
	r := recFor(s.cc.TransactionID())
	if r == nil {
		return scoreresult.UnknownFailureError.New("verif: unregistered transaction")
	}
	pg := r.lookup(p)
	if pg == nil {
		r.fail("unknown program %q", p)
		return scoreresult.UnknownFailureError.New("verif: unknown program")
	}
	// the contract's entry charge (what CallHandler charges for non-system contracts)
	err := s.cc.ApplyCallSteps()
	r.dec(err == nil)
	if err != nil {
		return err
	}
	return execProg(s.cc, r, pg)
}

func isOutOfStep(status error) bool {
	return status != nil && errors.CodeOf(status) == scoreresult.OutOfStepError
}

func isTimeout(status error) bool {
	return status != nil && errors.CodeOf(status) == scoreresult.TimeoutError
}

// execProg performs the operations of a program through the real CallContext. It is shared by
// the system SCORE (asynchronous CallHandler frames) and the synchronous handler double.
func execProg(cc contract.CallContext, r *txRec, pg *prog) error {
	e := r.env
	self := e.addr[pg.self]
	for _, o := range pg.ops {
		switch o.O {
		case "set":
			as := cc.GetAccountState(self.ID())
			var err error
			if o.N == 0 {
				_, err = as.DeleteValue([]byte(o.A))
			} else {
				_, err = as.SetValue([]byte(o.A), storeVal(int(o.N)))
			}
			if err != nil {
				r.fail("set: %v", err)
				return err
			}
		case "ev":
			cc.OnEvent(self, [][]byte{[]byte("Verif(int)"), {byte(len(pg.ops))}}, nil)
		case "msg":
			cc.OnBTPMessage(e.btpNID, []byte("verif-"+pg.self))
		case "revert":
			return scoreresult.ErrReverted
		case "burn":
			ok := cc.DeductSteps(big.NewInt(o.N))
			r.dec(ok)
			if !ok {
				return scoreresult.ErrOutOfStep
			}
		case "take":
			origin := cc.TransactionInfo().From
			aso := cc.GetAccountState(origin.ID())
			n := big.NewInt(o.N)
			if aso.GetBalance().Cmp(n) < 0 {
				return scoreresult.ErrOutOfBalance
			}
			aso.SetBalance(new(big.Int).Sub(aso.GetBalance(), n))
			ass := cc.GetAccountState(self.ID())
			ass.SetBalance(new(big.Int).Add(ass.GetBalance(), n))
		case "xfer":
			h, err := cc.ContractManager().GetCallHandler(self, mustAddr(e, o.A), big.NewInt(o.N), contract.CTypeTransfer, nil)
			if err != nil {
				r.fail("xfer handler: %v", err)
				return err
			}
			status, used, _, _ := cc.Call(h, cc.StepAvailable())
			cc.DeductSteps(used)
			r.dec(!isOutOfStep(status))
			if status != nil && !o.C {
				return status
			}
		case "call":
			to, ok := e.addrOf(o.A)
			if !ok {
				r.fail("call: unknown account %q", o.A)
				return scoreresult.UnknownFailureError.New("verif: unknown account")
			}
			id := r.addNested(&prog{self: o.A, ops: o.Sub})
			data, err := common.EncodeAny(map[string]interface{}{
				"method": "run",
				"params": map[string]interface{}{"p": id},
			})
			if err != nil {
				r.fail("call data: %v", err)
				return err
			}
			h, err := cc.ContractManager().GetCallHandler(self, to, big.NewInt(o.N), contract.CTypeCall, data)
			if err != nil {
				r.fail("call handler: %v", err)
				return err
			}
			status, used, _, _ := cc.Call(h, cc.StepAvailable())
			cc.DeductSteps(used)
			if isTimeout(status) {
				// a timeout is not an outcome a caller may handle: it travels up to the transaction
				return status
			}
			if status != nil && !o.C {
				return status
			}
		default:
			r.fail("unknown op %q", o.O)
			return scoreresult.UnknownFailureError.New("verif: unknown op")
		}
	}
	return nil
}

// ---------------------------------------------------------------------------------------------
// Handler doubles for two dedicated contract addresses, handed out by a wrapping ContractManager:
//   "s"  a SyncContractHandler that runs the program like the system SCORE does (the frames of
//        the system SCOREs are asynchronous CallHandler frames; this one is synchronous);
//   "e"  an AsyncContractHandler that behaves like a contract in an execution engine: it answers
//        later (callContext.OnResult from another goroutine), asks for inter-calls through
//        callContext.OnCall and receives their outcome through SendResult, and accounts its
//        own steps (callContext.waitResult request/result messages, handleResult forwarding);
//   "z"  an AsyncContractHandler that never answers, so that callContext.waitResult gives up
//        when the chain's TransactionTimeout expires.

type verifCM struct {
	contract.ContractManager
	env *env
}

func progIDOfJSON(data []byte) string {
	var d struct {
		Params struct {
			P string `json:"p"`
		} `json:"params"`
	}
	_ = json.Unmarshal(data, &d)
	return d.Params.P
}

func progIDOfObj(obj *codec.TypedObj) string {
	v, err := common.DecodeAny(obj)
	if err != nil {
		return ""
	}
	m, _ := v.(map[string]interface{})
	pm, _ := m["params"].(map[string]interface{})
	p, _ := pm["p"].(string)
	return p
}

func (m *verifCM) double(from, to module.Address, value *big.Int, id string, interCall bool) contract.ContractHandler {
	if m.env == nil || to == nil {
		return nil
	}
	ch := contract.NewCommonHandler(from, to, value, interCall, m.ContractManager.Logger())
	switch m.env.name[to.String()] {
	case "s":
		return &syncHandler{CommonHandler: ch, id: id}
	case "z":
		return &hangHandler{CommonHandler: ch}
	case "e":
		return &eeHandler{CommonHandler: ch, id: id, env: m.env, results: make(chan childResult, 1), done: make(chan struct{})}
	}
	return nil
}

func (m *verifCM) GetHandler(from, to module.Address, value *big.Int, ctype int, data []byte) (contract.ContractHandler, error) {
	if h := m.double(from, to, value, progIDOfJSON(data), false); h != nil {
		return h, nil
	}
	return m.ContractManager.GetHandler(from, to, value, ctype, data)
}

func (m *verifCM) GetCallHandler(from, to module.Address, value *big.Int, ctype int, paramObj *codec.TypedObj) (contract.ContractHandler, error) {
	if h := m.double(from, to, value, progIDOfObj(paramObj), true); h != nil {
		return h, nil
	}
	return m.ContractManager.GetCallHandler(from, to, value, ctype, paramObj)
}

type syncHandler struct {
	*contract.CommonHandler
	id string
}

func (h *syncHandler) ExecuteSync(cc contract.CallContext) (error, *codec.TypedObj, module.Address) {
	r := recFor(cc.TransactionID())
	if r == nil {
		return scoreresult.UnknownFailureError.New("verif: unregistered transaction"), nil, nil
	}
	pg := r.lookup(h.id)
	if pg == nil {
		r.fail("unknown program %q", h.id)
		return scoreresult.UnknownFailureError.New("verif: unknown program"), nil, nil
	}
	err := cc.ApplyCallSteps()
	r.dec(err == nil)
	if err != nil {
		return err, nil, nil
	}
	return execProg(cc, r, pg), nil, nil
}

type hangHandler struct {
	*contract.CommonHandler
	eeproxy.CallContext // never used: the double does not talk to an execution engine
}

func (h *hangHandler) Logger() log.Logger { return h.CommonHandler.Logger() }

func (h *hangHandler) ExecuteAsync(cc contract.CallContext) error {
	r := recFor(cc.TransactionID())
	if r == nil {
		return scoreresult.UnknownFailureError.New("verif: unregistered transaction")
	}
	if cc.FrameID() == 2 { // the first frame of the transaction
		r.mu.Lock()
		r.Entered = true
		r.mu.Unlock()
	}
	err := cc.ApplyCallSteps()
	r.dec(err == nil)
	if err != nil {
		return err
	}
	r.mu.Lock()
	r.Hung++
	r.mu.Unlock()
	return nil // ... and no result will ever be delivered
}

func (h *hangHandler) SendResult(status error, steps *big.Int, result *codec.TypedObj) error {
	return nil
}
func (h *hangHandler) Dispose()              {}
func (h *hangHandler) EEType() state.EEType { return state.NullEE }

// eeHandler: the execution-engine style double. The program runs in its own goroutine, as the
// proxy of an execution engine would drive it; everything it does goes through the real
// CallContext (state, events, OnCall, OnResult).
type childResult struct {
	status error
	steps  *big.Int
}

type eeHandler struct {
	*contract.CommonHandler
	eeproxy.CallContext // never used
	id      string
	env     *env
	results chan childResult
	done    chan struct{}
	once    sync.Once
}

func (h *eeHandler) Logger() log.Logger   { return h.CommonHandler.Logger() }
func (h *eeHandler) EEType() state.EEType { return state.NullEE }
func (h *eeHandler) Dispose()             { h.once.Do(func() { close(h.done) }) }

// SendResult: callContext.handleResult forwards the outcome of a child frame to the asynchronous parent.
func (h *eeHandler) SendResult(status error, steps *big.Int, result *codec.TypedObj) error {
	select {
	case h.results <- childResult{status, steps}:
	case <-h.done:
	}
	return nil
}

func (h *eeHandler) ExecuteAsync(cc contract.CallContext) error {
	r := recFor(cc.TransactionID())
	if r == nil {
		return scoreresult.UnknownFailureError.New("verif: unregistered transaction")
	}
	pg := r.lookup(h.id)
	if pg == nil {
		r.fail("unknown program %q", h.id)
		return scoreresult.UnknownFailureError.New("verif: unknown program")
	}
	// the call step is charged by the handler before the engine is invoked (CallHandler.DoExecuteAsync)
	err := cc.ApplyCallSteps()
	r.dec(err == nil)
	if err != nil {
		return err
	}
	avail := cc.StepAvailable()
	go func() {
		status, used := h.run(cc, r, pg, avail)
		select {
		case <-h.done: // the frame was cleaned up (timeout): nobody waits for the answer
		default:
			cc.OnResult(status, 0, used, nil, nil)
		}
	}()
	return nil
}

// run performs the program; it returns the status and the steps the "engine" used (own steps plus
// the steps of the inter-calls, as an execution engine reports them).
func (h *eeHandler) run(cc contract.CallContext, r *txRec, pg *prog, avail *big.Int) (error, *big.Int) {
	e := h.env
	self := e.addr[pg.self]
	used := new(big.Int)
	charge := func(n *big.Int) bool {
		used.Add(used, n)
		if used.Cmp(avail) > 0 {
			used.Set(avail)
			return false
		}
		return true
	}
	call := func(handler contract.ContractHandler) (error, bool) {
		cc.OnCall(handler, new(big.Int).Sub(avail, used))
		select {
		case res := <-h.results:
			charge(res.steps)
			return res.status, true
		case <-h.done:
			return scoreresult.ErrTimeout, false
		}
	}
	for _, o := range pg.ops {
		select {
		case <-h.done: // the frame was cleaned up (transaction timeout): stop touching the world
			return scoreresult.ErrTimeout, used
		default:
		}
		switch o.O {
		case "set":
			as := cc.GetAccountState(self.ID())
			var err error
			if o.N == 0 {
				_, err = as.DeleteValue([]byte(o.A))
			} else {
				_, err = as.SetValue([]byte(o.A), storeVal(int(o.N)))
			}
			if err != nil {
				r.fail("set: %v", err)
				return err, used
			}
		case "ev":
			cc.OnEvent(self, [][]byte{[]byte("Verif(int)"), {byte(len(pg.ops))}}, nil)
		case "msg":
			cc.OnBTPMessage(e.btpNID, []byte("verif-"+pg.self))
		case "revert":
			return scoreresult.ErrReverted, used
		case "burn":
			ok := charge(big.NewInt(o.N))
			r.dec(ok)
			if !ok {
				return scoreresult.ErrOutOfStep, used
			}
		case "take":
			origin := cc.TransactionInfo().From
			aso := cc.GetAccountState(origin.ID())
			n := big.NewInt(o.N)
			if aso.GetBalance().Cmp(n) < 0 {
				return scoreresult.ErrOutOfBalance, used
			}
			aso.SetBalance(new(big.Int).Sub(aso.GetBalance(), n))
			ass := cc.GetAccountState(self.ID())
			ass.SetBalance(new(big.Int).Add(ass.GetBalance(), n))
		case "xfer":
			hd, err := cc.ContractManager().GetCallHandler(self, mustAddr(e, o.A), big.NewInt(o.N), contract.CTypeTransfer, nil)
			if err != nil {
				r.fail("xfer handler: %v", err)
				return err, used
			}
			status, alive := call(hd)
			if !alive {
				return status, used
			}
			r.dec(!isOutOfStep(status))
			if status != nil && !o.C {
				return status, used
			}
		case "call":
			to, ok := e.addrOf(o.A)
			if !ok {
				r.fail("call: unknown account %q", o.A)
				return scoreresult.UnknownFailureError.New("verif: unknown account"), used
			}
			id := r.addNested(&prog{self: o.A, ops: o.Sub})
			data, err := common.EncodeAny(map[string]interface{}{
				"method": "run",
				"params": map[string]interface{}{"p": id},
			})
			if err != nil {
				r.fail("call data: %v", err)
				return err, used
			}
			hd, err := cc.ContractManager().GetCallHandler(self, to, big.NewInt(o.N), contract.CTypeCall, data)
			if err != nil {
				r.fail("call handler: %v", err)
				return err, used
			}
			status, alive := call(hd)
			if !alive || isTimeout(status) {
				return status, used
			}
			if status != nil && !o.C {
				return status, used
			}
		default:
			r.fail("unknown op %q", o.O)
			return scoreresult.UnknownFailureError.New("verif: unknown op"), used
		}
	}
	return nil, used
}

func mustAddr(e *env, n string) module.Address {
	a, ok := e.addrOf(n)
	if !ok {
		panic("verif: unknown account " + n)
	}
	return a
}
