package txexec

// Environment of the C15/C16 replay driver: one real node (test.NewNode on the basic
// platform), a recording platform wrapper (observes the world before/after every transaction
// through the platform callbacks of the real transition), the scripted system SCORE, a setup
// transaction type (establishes the pre-state chosen by the specification) and helpers that
// build real, signed v3 transactions and run real transitions (service.NewTransition).

import (
	"bytes"
	"encoding/base64"
	"encoding/json"
	"errors"
	"fmt"
	"math/big"
	"sync"
	"sync/atomic"
	"time"

	"github.com/icon-project/goloop/chain/base"
	"github.com/icon-project/goloop/common"
	"github.com/icon-project/goloop/common/crypto"
	"github.com/icon-project/goloop/common/db"
	"github.com/icon-project/goloop/common/log"
	"github.com/icon-project/goloop/common/merkle"
	"github.com/icon-project/goloop/common/trie"
	"github.com/icon-project/goloop/common/wallet"
	"github.com/icon-project/goloop/consensus"
	"github.com/icon-project/goloop/module"
	"github.com/icon-project/goloop/service"
	"github.com/icon-project/goloop/service/contract"
	"github.com/icon-project/goloop/service/platform/basic"
	"github.com/icon-project/goloop/service/scoredb"
	"github.com/icon-project/goloop/service/state"
	"github.com/icon-project/goloop/service/transaction"
	"github.com/icon-project/goloop/service/txresult"
	"github.com/icon-project/goloop/test"
)

// ---------------------------------------------------------------- lenient T for the fixture

type lenientT struct{ errs []string }

func (t *lenientT) Errorf(format string, args ...interface{}) {
	t.errs = append(t.errs, fmt.Sprintf(format, args...))
}
func (t *lenientT) Logf(format string, args ...any) {}

// ---------------------------------------------------------------- recording platform

// txObs is what the platform callback sees right after transactionHandler.Execute returned.
type txObs struct {
	snap state.WorldSnapshot
	rct  txresult.Receipt
}

type recPlatform struct {
	base.Platform
	env    *env
	mu     sync.Mutex
	active bool
	begin  state.WorldSnapshot
	txs    []txObs
}

// the contract manager of the node hands out the handler doubles for "s" and "z" (script_test.go)
func (p *recPlatform) NewContractManager(dbase db.Database, dir string, logger log.Logger) (contract.ContractManager, error) {
	cm, err := p.Platform.NewContractManager(dbase, dir, logger)
	if err != nil {
		return nil, err
	}
	return &verifCM{ContractManager: cm, env: p.env}, nil
}

// tmoChain shortens the transaction timeout for blocks whose programs call the never-answering
// contract, so that such a case costs ~150 ms instead of the fixture's 5 s.
type tmoChain struct {
	*test.Chain
	env *env
}

func (c *tmoChain) TransactionTimeout() time.Duration {
	if ms := atomic.LoadInt64(&c.env.tmoMillis); ms > 0 {
		return time.Duration(ms) * time.Millisecond
	}
	return c.Chain.TransactionTimeout()
}

func (p *recPlatform) OnExecutionBegin(wc state.WorldContext, logger log.Logger) error {
	p.mu.Lock()
	if p.active {
		p.begin = wc.GetSnapshot()
		p.txs = nil
	}
	p.mu.Unlock()
	return p.Platform.OnExecutionBegin(wc, logger)
}

func (p *recPlatform) OnTransactionEnd(wc state.WorldContext, logger log.Logger, rct txresult.Receipt) error {
	p.mu.Lock()
	if p.active {
		p.txs = append(p.txs, txObs{snap: wc.GetSnapshot(), rct: rct})
	}
	p.mu.Unlock()
	return p.Platform.OnTransactionEnd(wc, logger, rct)
}

// ---------------------------------------------------------------- setup transaction

// setupTx establishes a pre-state: balances, deployed scripted contracts, storage values.
// It is harness code (the concretization of the specification's initial world / Fund action),
// charges nothing and is never part of a checked block.
type setupJSON struct {
	Type    string            `json:"type"`
	Seq     int64             `json:"seq"`
	TS      common.HexInt64   `json:"timestamp"`
	Bal     map[string]string `json:"bal,omitempty"`    // address -> hex balance
	Deploy  []string          `json:"deploy,omitempty"` // contract addresses to install the script SCORE on
	Mark    []string          `json:"mark,omitempty"`   // addresses that become contract accounts without code
	Store   map[string]map[string]string `json:"store,omitempty"` // address -> key -> hex value ("" deletes)
}

type setupTx struct {
	js setupJSON
	id atomic.Value
}

const setupType = "verifsetup"

var regOnce sync.Once

func registerSetupFactory() {
	regOnce.Do(func() {
		transaction.RegisterFactory(&transaction.Factory{
			Priority: 4,
			CheckJSON: func(jso map[string]interface{}) bool {
				v, ok := jso["type"]
				return ok && v == setupType
			},
			ParseJSON: func(js []byte, jsm map[string]interface{}, raw bool) (transaction.Transaction, error) {
				t := &setupTx{}
				if err := json.Unmarshal(js, &t.js); err != nil {
					return nil, err
				}
				return t, nil
			},
		})
	})
}

func (t *setupTx) Prepare(ctx contract.Context) (state.WorldContext, error) {
	return ctx.GetFuture([]state.LockRequest{{state.WorldIDStr, state.AccountWriteLock}}), nil
}

func (t *setupTx) Execute(ctx contract.Context, wcs state.WorldSnapshot, estimate bool) (txresult.Receipt, error) {
	r := txresult.NewReceipt(ctx.Database(), ctx.Revision(), t.To())
	for _, a := range t.js.Deploy {
		addr := common.MustNewAddressFromString(a)
		as := ctx.GetAccountState(addr.ID())
		if as.IsContract() {
			continue
		}
		cc := contract.NewCallContext(ctx, big.NewInt(1<<40), false)
		tid := crypto.SHA3Sum256([]byte("verif-script-" + a))
		err := contract.DeployAndInstallSystemSCORE(cc, scriptCID, state.SystemAddress, addr, nil, tid)
		cc.Dispose()
		if err != nil {
			return nil, err
		}
	}
	for _, a := range t.js.Mark {
		as := ctx.GetAccountState(common.MustNewAddressFromString(a).ID())
		if !as.IsContract() {
			as.InitContractAccount(state.SystemAddress)
		}
	}
	for a, v := range t.js.Bal {
		addr := common.MustNewAddressFromString(a)
		n := new(common.HexInt)
		if _, ok := n.SetString(v, 0); !ok {
			return nil, fmt.Errorf("bad balance %q", v)
		}
		ctx.GetAccountState(addr.ID()).SetBalance(&n.Int)
	}
	for a, kv := range t.js.Store {
		addr := common.MustNewAddressFromString(a)
		as := ctx.GetAccountState(addr.ID())
		for k, v := range kv {
			if v == "" {
				if _, err := as.DeleteValue([]byte(k)); err != nil {
					return nil, err
				}
			} else if _, err := as.SetValue([]byte(k), []byte(v)); err != nil {
				return nil, err
			}
		}
	}
	r.SetResult(module.StatusSuccess, big.NewInt(0), big.NewInt(0), nil)
	return r, nil
}

func (t *setupTx) Dispose()                        {}
func (t *setupTx) Group() module.TransactionGroup  { return module.TransactionGroupNormal }
func (t *setupTx) From() module.Address            { return state.SystemAddress }
func (t *setupTx) To() module.Address              { return state.SystemAddress }
func (t *setupTx) Bytes() []byte                   { bs, _ := json.Marshal(&t.js); return bs }
func (t *setupTx) Hash() []byte                    { return t.ID() }
func (t *setupTx) Verify() error                   { return nil }
func (t *setupTx) Version() int                    { return module.TransactionVersion3 }
func (t *setupTx) ValidateNetwork(nid int) bool    { return true }
func (t *setupTx) Timestamp() int64                { return t.js.TS.Value }
func (t *setupTx) Nonce() *big.Int                 { return nil }
func (t *setupTx) IsSkippable() bool               { return false }
func (t *setupTx) Flush() error                    { return nil }
func (t *setupTx) Resolve(b merkle.Builder) error  { return nil }
func (t *setupTx) ClearCache()                     {}
func (t *setupTx) PreValidate(wc state.WorldContext, update bool) error { return nil }
func (t *setupTx) GetHandler(cm contract.ContractManager) (transaction.Handler, error) {
	return t, nil
}
func (t *setupTx) ID() []byte {
	id := t.id.Load()
	if id == nil {
		id = crypto.SHA3Sum256(t.Bytes())
		t.id.Store(id)
	}
	return id.([]byte)
}
func (t *setupTx) ToJSON(version module.JSONVersion) (interface{}, error) {
	var m map[string]interface{}
	err := json.Unmarshal(t.Bytes(), &m)
	return m, err
}
func (t *setupTx) Reset(s db.Database, k []byte) error { return json.Unmarshal(k, &t.js) }
func (t *setupTx) Equal(o trie.Object) bool {
	if tx, ok := o.(*setupTx); ok {
		return bytes.Equal(tx.ID(), t.ID())
	}
	return false
}

// ---------------------------------------------------------------- environment

// chain configuration = the step cost constants of the specification
type chainCfg struct {
	DefaultCost, InputCost, CallCost int
	InvokeLimit                      int64
	Revision                         int // 0: fixture default
	BTP                              bool
}

type env struct {
	cfg    chainCfg
	t      *lenientT
	node   *test.Node
	nctx   *test.NodeContext
	plt    *recPlatform
	tsc    *service.TxTimestampChecker
	base   module.Transition
	baseH  int64
	baseTS int64
	seq    int64

	contracts []string // contracts with storage (projection)
	scores    []string // ... that are scripted system SCOREs
	syncs     []string // ... that are served by the synchronous handler double
	btpNID    int64
	tmoMillis int64    // transaction timeout override (0: the fixture's)

	wallets map[string]module.Wallet  // users
	addr    map[string]module.Address // every abstract account
	name    map[string]string         // address string -> abstract name
	alias   map[string]module.Address // twins: addresses of the other form for the id of an existing account
}

const treasuryAddr = "hx1000000000000000000000000000000000000000"

func genesisFor(cfg chainCfg) string {
	rev := ""
	if cfg.Revision != 0 {
		rev = fmt.Sprintf(`"revision":"0x%x",`, cfg.Revision)
	}
	return fmt.Sprintf(`{
  "accounts": [
    {"name": "god", "address": "hx54f7853dc6481b670caf69c5a27c7c8fe5be8269", "balance": "0x0"},
    {"name": "treasury", "address": "%s", "balance": "0x0"}
  ],
  "chain": {
    %s
    "fee": {
      "stepPrice": "0x1",
      "stepLimit": {"invoke": "0x%x", "query": "0x10000000"},
      "stepCosts": {"default": "0x%x", "input": "0x%x", "contractCall": "0x%x"}
    }
  },
  "message": "verif txexec",
  "nid": "0x1"
}`, treasuryAddr, rev, cfg.InvokeLimit, cfg.DefaultCost, cfg.InputCost, cfg.CallCost)
}

func detWallet(seed string) module.Wallet {
	sk, err := crypto.ParsePrivateKey(crypto.SHA3Sum256([]byte("verif-txexec-" + seed)))
	if err != nil {
		panic(err)
	}
	w, err := wallet.NewFromPrivateKey(sk)
	if err != nil {
		panic(err)
	}
	return w
}

func newEnv(cfg chainCfg, users, scores, syncs, ghosts []string, salt string) (*env, error) {
	contracts := append(append([]string{}, scores...), syncs...)
	registerSetupFactory()
	registerScriptScore()
	e := &env{cfg: cfg, t: &lenientT{}, contracts: contracts, scores: scores, syncs: syncs, wallets: map[string]module.Wallet{}, addr: map[string]module.Address{}, name: map[string]string{}}
	e.plt = nil
	e.node = test.NewNode(e.t,
		test.UseGenesis(genesisFor(cfg)),
		test.UseWallet(detWallet("node")),
		test.UseConfig(&test.FixtureConfig{
			NewPlatform: func(ctx *test.NodeContext) base.Platform {
				e.plt = &recPlatform{Platform: basic.Platform, env: e}
				return e.plt
			},
			NewSM: func(ctx *test.NodeContext) module.ServiceManager {
				e.nctx = ctx
				return test.NewServiceManager(ctx.C, ctx.Platform, ctx.CM, ctx.EM)
			},
		}))
	if len(e.t.errs) > 0 {
		return nil, fmt.Errorf("fixture: %v", e.t.errs)
	}
	e.node.Chain.Logger().SetLevel(log.FatalLevel)
	log.GlobalLogger().SetLevel(log.FatalLevel)
	// the post-genesis state is the Result of block 1
	e.node.ProposeFinalizeBlock(consensus.NewEmptyCommitVoteList())
	if len(e.t.errs) > 0 {
		return nil, fmt.Errorf("block 1: %v", e.t.errs)
	}
	for _, u := range users {
		w := detWallet(salt + "/" + u)
		e.wallets[u] = w
		e.addr[u] = w.Address()
	}
	for i, c := range append(append([]string{}, contracts...), ghosts...) {
		id := crypto.SHA3Sum256([]byte("verif-contract-" + salt + "/" + c))[:20]
		_ = i
		e.addr[c] = common.NewContractAddress(id)
	}
	e.addr["t"] = common.MustNewAddressFromString(treasuryAddr)
	// "xh": the account-form (hx) address with the id of contract x; "ac": the contract-form (cx)
	// address with the id of user a. They address existing accounts, so they are not projected.
	e.alias = map[string]module.Address{}
	if x, ok := e.addr["x"]; ok {
		e.alias["xh"] = common.NewAccountAddress(x.ID())
	}
	if a, ok := e.addr["a"]; ok {
		e.alias["ac"] = common.NewContractAddress(a.ID())
	}
	for n, a := range e.addr {
		e.name[a.String()] = n
	}
	e.tsc = service.NewTimestampChecker()
	blk := e.node.LastBlock
	tr, err := service.NewInitTransition(e.nctx.C.Database(), blk.Result(), blk.NextValidators(),
		e.nctx.CM, e.nctx.EM, &tmoChain{Chain: e.nctx.C, env: e}, e.nctx.C.Logger(), e.plt, e.tsc)
	if err != nil {
		return nil, err
	}
	e.base = tr
	e.baseH = blk.Height()
	e.baseTS = blk.Timestamp()
	if cfg.BTP {
		// open a BTP network (id 1) so that contracts can send BTP messages
		const dsa = "ecdsa/secp256k1"
		tx := test.NewTx().SetTimestamp(e.baseTS+1000).SetValidatorsNode(e.node).
			CallFrom(e.node.CommonAddress(), "setBTPPublicKey", map[string]string{
				"name":   dsa,
				"pubKey": fmt.Sprintf("0x%x", e.node.Chain.WalletFor(dsa).PublicKey()),
			}).Call("openBTPNetwork", map[string]string{
			"networkTypeName": "eth",
			"name":            "eth-verif",
			"owner":           e.node.CommonAddress().String(),
		})
		tr2, err := e.runBlock(e.base, e.baseH+1, []module.Transaction{transaction.Wrap(tx)}, false)
		if err != nil {
			return nil, fmt.Errorf("opening the BTP network: %w", err)
		}
		e.base = tr2
		e.baseH++
		e.btpNID = 1
		ws, err := e.worldOf(tr2)
		if err != nil {
			return nil, err
		}
		bc := state.NewBTPContext(nil, scoredb.NewStateStoreWith(ws.GetAccountSnapshot(state.SystemID)))
		if nw, err := bc.GetNetwork(e.btpNID); err != nil || nw == nil {
			return nil, fmt.Errorf("BTP network %d was not opened: %v", e.btpNID, err)
		}
	}
	return e, nil
}

func (e *env) close() { e.node.Close() }

// a block of <= 3 tiny transactions takes milliseconds; this is only a watchdog
const blockTimeout = 20 * time.Second

var errHang = errors.New("transition did not finish")

type trCallback struct{ ch chan error }

func (c *trCallback) OnValidate(tr module.Transition, err error) {
	if err != nil {
		c.ch <- fmt.Errorf("validate: %w", err)
	}
}
func (c *trCallback) OnExecute(tr module.Transition, err error) { c.ch <- err }

// runBlock executes txs in a real transition on top of parent and makes its result readable.
func (e *env) runBlock(parent module.Transition, height int64, txs []module.Transaction, record bool) (module.Transition, error) {
	dbase := e.nctx.C.Database()
	e.plt.mu.Lock()
	e.plt.active = record
	e.plt.begin, e.plt.txs = nil, nil
	e.plt.mu.Unlock()
	defer func() {
		e.plt.mu.Lock()
		e.plt.active = false
		e.plt.mu.Unlock()
	}()
	bi := common.NewBlockInfo(height, e.baseTS+height*1000)
	csi := common.NewConsensusInfo(e.node.Address(), nil, nil)
	tr := service.NewTransition(parent,
		transaction.NewTransactionListFromSlice(dbase, nil),
		transaction.NewTransactionListFromSlice(dbase, txs), bi, csi, true)
	cb := &trCallback{ch: make(chan error, 2)}
	if _, err := tr.Execute(cb); err != nil {
		return nil, err
	}
	select {
	case err := <-cb.ch:
		if err != nil {
			return nil, err
		}
	case <-time.After(blockTimeout):
		// the executing goroutine cannot be stopped: the caller reports the case and ends the run
		return nil, errHang
	}
	if err := service.FinalizeTransition(tr, module.FinalizeResult, false); err != nil {
		return nil, err
	}
	return tr, nil
}

func (e *env) worldOf(tr module.Transition) (state.WorldSnapshot, error) {
	return service.NewWorldSnapshot(e.nctx.C.Database(), e.plt, tr.Result(), nil)
}

func (e *env) nextSeq() int64 { e.seq++; return e.seq }

func (e *env) newSetup(height int64, bal map[string]int64, deploy, mark []string, store map[string]map[string]int) module.Transaction {
	t := &setupTx{}
	t.js.Type = setupType
	t.js.Seq = e.nextSeq()
	t.js.TS = common.HexInt64{Value: e.baseTS + height*1000}
	if len(bal) > 0 {
		t.js.Bal = map[string]string{}
		for n, v := range bal {
			t.js.Bal[e.addr[n].String()] = fmt.Sprintf("0x%x", v)
		}
	}
	for _, c := range deploy {
		t.js.Deploy = append(t.js.Deploy, e.addr[c].String())
	}
	for _, c := range mark {
		t.js.Mark = append(t.js.Mark, e.addr[c].String())
	}
	if len(store) > 0 {
		t.js.Store = map[string]map[string]string{}
		for c, kv := range store {
			m := map[string]string{}
			for k, v := range kv {
				if v == 0 {
					m[k] = ""
				} else {
					m[k] = string(storeVal(v))
				}
			}
			t.js.Store[e.addr[c].String()] = m
		}
	}
	return transaction.Wrap(t)
}

func storeVal(v int) []byte { return []byte(fmt.Sprintf("v%d", v)) }

// newV3 builds a real, signed version-3 transaction.
func (e *env) newV3(from string, to module.Address, value, limit int64, height int64, dataType string, data string) (module.Transaction, error) {
	m := map[string]interface{}{
		"version":   "0x3",
		"from":      e.addr[from].String(),
		"to":        to.String(),
		"stepLimit": fmt.Sprintf("0x%x", limit),
		"timestamp": fmt.Sprintf("0x%x", e.baseTS+height*1000),
		"nid":       "0x1",
		"nonce":     fmt.Sprintf("0x%x", e.nextSeq()),
	}
	if value != 0 || dataType == "" {
		m["value"] = fmt.Sprintf("0x%x", value)
	}
	if dataType != "" {
		m["dataType"] = dataType
		m["data"] = json.RawMessage(data)
	}
	js, _ := json.Marshal(m)
	tx0, err := transaction.NewTransactionFromJSON(js)
	if err != nil {
		return nil, err
	}
	sig, err := e.wallets[from].Sign(tx0.ID())
	if err != nil {
		return nil, err
	}
	m["signature"] = base64.StdEncoding.EncodeToString(sig)
	js, _ = json.Marshal(m)
	tx, err := transaction.NewTransactionFromJSON(js)
	if err != nil {
		return nil, err
	}
	if !bytes.Equal(tx.ID(), tx0.ID()) {
		return nil, fmt.Errorf("transaction id changed by signing")
	}
	if err := tx.Verify(); err != nil {
		return nil, fmt.Errorf("generated transaction does not verify: %w", err)
	}
	return tx, nil
}

func (e *env) priceTx(height int64, price int) module.Transaction {
	tx := test.NewTx().SetTimestamp(e.baseTS+height*1000+e.nextSeq()%1000).Call("setStepPrice", map[string]string{
		"price": fmt.Sprintf("0x%x", price),
	})
	return transaction.Wrap(tx)
}

func strPtr(s string) *string { return &s }

// balance / storage getters on a world snapshot (projection to the abstract world)
func balOf(ws state.WorldSnapshot, a module.Address) *big.Int {
	if as := ws.GetAccountSnapshot(a.ID()); as != nil {
		return as.GetBalance()
	}
	return new(big.Int)
}

func valOf(ws state.WorldSnapshot, a module.Address, key string) ([]byte, error) {
	if as := ws.GetAccountSnapshot(a.ID()); as != nil {
		return as.GetValue([]byte(key))
	}
	return nil, nil
}

var _ = scoredb.NewVarDB

// addrOf resolves an abstract account or twin name.
func (e *env) addrOf(n string) (module.Address, bool) {
	if a, ok := e.addr[n]; ok {
		return a, true
	}
	a, ok := e.alias[n]
	return a, ok
}
