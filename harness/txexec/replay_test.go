package txexec

// Replays behaviours of spec/txexec/TxExec.tla into real goloop transitions (C15, C16) and
// records what the real code did.
//
// Direction 1 (replay): every behaviour is a sequence of steps init / fund / price / tx / end
// with the specification's predictions (receipt status, stepUsed, stepPrice, number of event
// logs and BTP messages, world after every transaction and after the block).  The driver turns
// tx steps into real signed v3 transactions, runs each block in a real transition
// (service.NewTransition -> transactionHandler.Execute -> callContext frames -> handlers) and
// compares observation and prediction.  It has no model of its own: a difference is only
// reported as `mism` (diagnostic).
// Direction 2 (record): the observation (pre-world, receipts, post-world per transaction, world
// after the block, step-charge decisions seen by the scripted contracts, and the real
// state-hash check "post = pre with only the payer's balance replaced") is returned
// as the record's detail; tools/props/c15.py feeds it to Trace_TxExec.tla, which decides the
// verdict-bearing predicates.

import (
	"encoding/json"
	"errors"
	"fmt"
	"math/big"
	"os"
	"strconv"
	"strings"
	"sync/atomic"
	"testing"

	"github.com/icon-project/goloop/common"
	"github.com/icon-project/goloop/module"
	"github.com/icon-project/goloop/service/scoredb"
	"github.com/icon-project/goloop/service/state"

	"verifharness/tlaio"
)

type world struct {
	Bal map[string]int64          `json:"bal"`
	St  map[string]map[string]int `json:"st"`
}

type txDesc struct {
	From  string `json:"from"`
	To    string `json:"to"`
	Value int64  `json:"value"`
	Limit int64  `json:"limit"`
	Kind  string `json:"kind"`
	Dlen  int    `json:"dlen"`
	Prog  []op   `json:"prog"`
}

type result struct {
	Ok      bool   `json:"ok"`
	Code    string `json:"code,omitempty"`
	Su      int64  `json:"su"`
	Price   int64  `json:"price"`
	Fee     int64  `json:"fee"`
	Logs    int    `json:"logs"`
	Msgs    int    `json:"msgs"`
	Entered bool   `json:"entered"`
	Orc     []bool `json:"orc"`
	OnlyPayer bool `json:"onlypayer"` // observed only: real state hash = hash of the pre-state with the payer's balance replaced
	Status  int    `json:"status"`  // observed only: receipt status code
}

type step struct {
	Op    string  `json:"op"`
	Price int64   `json:"price"`
	W     *world  `json:"w"`
	Tx    *txDesc `json:"tx"`
	Res   *result `json:"res"`
	A     string  `json:"a"`
	N     int64   `json:"n"`
}

// what the real code did with one block (input of Trace_TxExec)
type txTrace struct {
	Tx   *txDesc `json:"tx"`
	Rc   result  `json:"rc"`
	Post world   `json:"post"`
}
type blockTrace struct {
	Case  string    `json:"case"`
	Blk   int       `json:"blk"`
	Price int64     `json:"price"`
	Pre   world     `json:"pre"`
	Txs   []txTrace `json:"txs"`
	End   world     `json:"end"`
}

type caseOut struct {
	Blocks    []blockTrace `json:"blocks"`
	Mism      []string     `json:"mism,omitempty"`
	Behaviour interface{}  `json:"behaviour,omitempty"`
}

var keys = []string{"k1", "k2"}

func (e *env) accounts() []string {
	r := make([]string, 0, len(e.addr))
	for n := range e.addr {
		r = append(r, n)
	}
	return r
}

func (e *env) project(ws state.WorldSnapshot) (world, error) {
	w := world{Bal: map[string]int64{}, St: map[string]map[string]int{}}
	for n, a := range e.addr {
		b := balOf(ws, a)
		if !b.IsInt64() {
			return w, fmt.Errorf("balance of %s out of range: %s", n, b)
		}
		w.Bal[n] = b.Int64()
	}
	for _, c := range e.contracts {
		m := map[string]int{}
		for _, k := range keys {
			v, err := valOf(ws, e.addr[c], k)
			if err != nil {
				return w, err
			}
			switch {
			case len(v) == 0:
				m[k] = 0
			case strings.HasPrefix(string(v), "v"):
				n, err := strconv.Atoi(string(v[1:]))
				if err != nil {
					return w, fmt.Errorf("storage %s/%s: %q", c, k, v)
				}
				m[k] = n
			default:
				return w, fmt.Errorf("storage %s/%s: %q", c, k, v)
			}
		}
		w.St[c] = m
	}
	return w, nil
}

func priceOf(ws state.WorldSnapshot) int64 {
	ass := ws.GetAccountSnapshot(state.SystemID)
	if ass == nil {
		return -1
	}
	v := scoredb.NewVarDB(scoredb.NewStateStoreWith(ass), state.VarStepPrice).BigInt()
	if v == nil {
		return 0
	}
	return v.Int64()
}

func sameWorld(a, b *world) bool {
	for n, v := range a.Bal {
		if b.Bal[n] != v {
			return false
		}
	}
	for c, m := range a.St {
		for k, v := range m {
			if b.St[c][k] != v {
				return false
			}
		}
	}
	return true
}

func sameOrc(a, b []bool) bool {
	if len(a) != len(b) {
		return false
	}
	for i := range a {
		if a[i] != b[i] {
			return false
		}
	}
	return true
}

// concretization of a tx step into a real v3 transaction
func (e *env) concretize(d *txDesc, height int64) (module.Transaction, *txRec, error) {
	to, ok := e.addrOf(d.To)
	if !ok {
		return nil, nil, fmt.Errorf("unknown account %q", d.To)
	}
	var dataType, data string
	switch d.Kind {
	case "transfer":
	case "message":
		dataType, data = "message", `"0x6d"`
	case "call":
		dataType, data = "call", `{"method":"run","params":{"p":"`+topProgID+`"}}`
	default:
		return nil, nil, fmt.Errorf("unknown kind %q", d.Kind)
	}
	if len(data) != d.Dlen {
		return nil, nil, fmt.Errorf("data length of kind %s is %d, the specification assumes %d", d.Kind, len(data), d.Dlen)
	}
	tx, err := e.newV3(d.From, to, d.Value, d.Limit, height, dataType, data)
	if err != nil {
		return nil, nil, err
	}
	r := &txRec{env: e, top: &prog{self: d.To, ops: d.Prog}, nested: map[string]*prog{}}
	return tx, r, nil
}

// long enough that a block of tiny transactions does not time out by itself on a loaded machine
const shortTimeoutMillis = 250

func callsHanger(ops []op) bool {
	for _, o := range ops {
		if o.O == "call" && (o.A == "z" || callsHanger(o.Sub)) {
			return true
		}
	}
	return false
}

// onlyPayer: the real post-state hash equals the hash of the pre-state in which only the
// payer's balance was replaced by its balance in the post-state.
func onlyPayer(pre, post state.WorldSnapshot, payer module.Address) (bool, error) {
	ws, err := state.WorldStateFromSnapshot(pre)
	if err != nil {
		return false, err
	}
	ws.GetAccountState(payer.ID()).SetBalance(balOf(post, payer))
	exp := ws.GetSnapshot()
	return string(exp.StateHash()) == string(post.StateHash()), nil
}

func (e *env) execBlock(parent module.Transition, height int64, steps []*step, caseID string, blk int, out *caseOut) (module.Transition, error) {
	txs := make([]module.Transaction, len(steps))
	recs := make([]*txRec, len(steps))
	for i, s := range steps {
		if s.Op == "price" { // the governance changes the step price inside the block
			txs[i] = e.priceTx(height, int(s.Price))
			continue
		}
		tx, r, err := e.concretize(s.Tx, height)
		if err != nil {
			return nil, err
		}
		txs[i], recs[i] = tx, r
		registerTx(tx.ID(), r)
		defer unregisterTx(tx.ID())
	}
	// blocks whose programs call the never-answering contract run with a short transaction timeout
	hangs := false
	for _, s := range steps {
		if s.Op == "tx" && (s.Tx.To == "z" || callsHanger(s.Tx.Prog)) {
			hangs = true
		}
	}
	if hangs {
		atomic.StoreInt64(&e.tmoMillis, shortTimeoutMillis)
	}
	tr, err := e.runBlock(parent, height, txs, true)
	atomic.StoreInt64(&e.tmoMillis, 0)
	if err != nil {
		return nil, fmt.Errorf("block %d of case %s failed: %w", blk, caseID, err)
	}
	obs, begin := e.plt.txs, e.plt.begin
	if len(obs) != len(steps) || begin == nil {
		return nil, fmt.Errorf("observed %d receipts for %d transactions", len(obs), len(steps))
	}
	bt := blockTrace{Case: caseID, Blk: blk, Price: priceOf(begin)}
	if bt.Pre, err = e.project(begin); err != nil {
		return nil, err
	}
	pre := begin
	for i, s := range steps {
		o := obs[i]
		if s.Op == "price" {
			post, err := e.project(o.snap)
			if err != nil {
				return nil, err
			}
			if got := priceOf(o.snap); got != s.Price || o.rct.Status() != module.StatusSuccess {
				return nil, fmt.Errorf("setStepPrice(%d) inside a block: price is %d, status %d", s.Price, got, o.rct.Status())
			}
			bt.Txs = append(bt.Txs, txTrace{Tx: &txDesc{Kind: "price", Value: s.Price, Prog: []op{}},
				Rc: result{Ok: true, Orc: []bool{}}, Post: post})
			pre = o.snap
			continue
		}
		rc := result{
			Ok:      o.rct.Status() == module.StatusSuccess,
			Status:  int(o.rct.Status()),
			Su:      o.rct.StepUsed().Int64(),
			Price:   o.rct.StepPrice().Int64(),
			Entered: recs[i].Entered,
			Orc:     append([]bool{}, recs[i].Orc...),
		}
		for it := o.rct.EventLogIterator(); it.Has(); it.Next() {
			rc.Logs++
		}
		if l := o.rct.BTPMessages(); l != nil {
			rc.Msgs = l.Len()
		}
		fee := new(big.Int).Mul(o.rct.StepUsed(), o.rct.StepPrice())
		rc.Fee = fee.Int64()
		if rc.OnlyPayer, err = onlyPayer(pre, o.snap, e.addr[s.Tx.From]); err != nil {
			return nil, err
		}
		post, err := e.project(o.snap)
		if err != nil {
			return nil, err
		}
		if len(recs[i].Errs) > 0 {
			if hangs && module.Status(rc.Status) == module.StatusTimeout {
				// the short transaction timeout fired on its own (overloaded machine): the record is
				// still a legitimate execution (a failed transaction), the doubles' complaints are not
				out.Mism = append(out.Mism, fmt.Sprintf("blk %d tx %d: timed out by itself: %v", blk, i, recs[i].Errs))
			} else {
				return nil, fmt.Errorf("script problem: %v", recs[i].Errs)
			}
		}
		bt.Txs = append(bt.Txs, txTrace{Tx: s.Tx, Rc: rc, Post: post})
		// comparison with the specification's prediction (diagnostic; the verdict is Trace_TxExec's)
		p := s.Res
		if p != nil {
			tag := fmt.Sprintf("blk %d tx %d (%s %s->%s)", blk, i, s.Tx.Kind, s.Tx.From, s.Tx.To)
			if (p.Code == "timeout") != (module.Status(rc.Status) == module.StatusTimeout) {
				out.Mism = append(out.Mism, fmt.Sprintf("%s: receipt status %d, spec code %s", tag, rc.Status, p.Code))
			}
			if p.Ok != rc.Ok {
				out.Mism = append(out.Mism, fmt.Sprintf("%s: status ok=%v (code %d), spec ok=%v (%s)", tag, rc.Ok, rc.Status, p.Ok, p.Code))
			}
			if p.Su != rc.Su || p.Price != rc.Price {
				out.Mism = append(out.Mism, fmt.Sprintf("%s: stepUsed/price %d/%d, spec %d/%d", tag, rc.Su, rc.Price, p.Su, p.Price))
			}
			if p.Logs != rc.Logs || p.Msgs != rc.Msgs {
				out.Mism = append(out.Mism, fmt.Sprintf("%s: logs/msgs %d/%d, spec %d/%d", tag, rc.Logs, rc.Msgs, p.Logs, p.Msgs))
			}
			if p.Entered != rc.Entered || !sameOrc(p.Orc, rc.Orc) {
				out.Mism = append(out.Mism, fmt.Sprintf("%s: entered/decisions %v/%v, spec %v/%v", tag, rc.Entered, rc.Orc, p.Entered, p.Orc))
			}
			if s.W != nil && !sameWorld(s.W, &post) {
				out.Mism = append(out.Mism, fmt.Sprintf("%s: world %v, spec %v", tag, post, *s.W))
			}
		}
		pre = o.snap
	}
	endws, err := e.worldOf(tr)
	if err != nil {
		return nil, err
	}
	if bt.End, err = e.project(endws); err != nil {
		return nil, err
	}
	out.Blocks = append(out.Blocks, bt)
	return tr, nil
}

func (e *env) runBehaviour(steps []*step, caseID string) (*caseOut, error) {
	out := &caseOut{}
	parent := e.base
	h := e.baseH
	var pending []*step
	blk := 0
	var err error
	setup := func(tx module.Transaction) error {
		h++
		parent, err = e.runBlock(parent, h, []module.Transaction{tx}, false)
		return err
	}
	flush := func(end *step) error {
		if len(pending) == 0 {
			return nil
		}
		h++
		blk++
		tr, err := e.execBlock(parent, h, pending, caseID, blk, out)
		if err != nil {
			return err
		}
		pending = nil
		parent = tr
		if end != nil && end.W != nil {
			got := &out.Blocks[len(out.Blocks)-1].End
			if !sameWorld(end.W, got) {
				out.Mism = append(out.Mism, fmt.Sprintf("blk %d end: world %v, spec %v", blk, *got, *end.W))
			}
		}
		return nil
	}
	for _, s := range steps {
		switch s.Op {
		case "init":
			bal := map[string]int64{}
			for n, v := range s.W.Bal {
				bal[n] = v
			}
			if err := setup(e.newSetup(h+1, bal, e.scores, e.syncs, s.W.St)); err != nil {
				return nil, err
			}
			if err := setup(e.priceTx(h+1, int(s.Price))); err != nil {
				return nil, err
			}
		case "fund":
			if err := setup(e.newSetup(h+1, map[string]int64{s.A: s.N}, nil, nil, nil)); err != nil {
				return nil, err
			}
		case "price":
			if len(pending) > 0 {
				pending = append(pending, s)
			} else if err := setup(e.priceTx(h+1, int(s.Price))); err != nil {
				return nil, err
			}
		case "tx":
			pending = append(pending, s)
		case "end":
			if err := flush(s); err != nil {
				return nil, err
			}
		default:
			return nil, fmt.Errorf("unknown step %q", s.Op)
		}
	}
	if err := flush(nil); err != nil {
		return nil, err
	}
	return out, nil
}

func cfgFromEnv() chainCfg {
	geti := func(k string, d int) int {
		if v, err := strconv.Atoi(os.Getenv(k)); err == nil {
			return v
		}
		return d
	}
	return chainCfg{
		DefaultCost: geti("VERIF_TX_DEFAULT", 2),
		InputCost:   geti("VERIF_TX_INPUT", 0),
		CallCost:    geti("VERIF_TX_CALL", 1),
		BTP:         os.Getenv("VERIF_TX_BTP") == "1",
		Revision:    geti("VERIF_TX_REVISION", 0),
		InvokeLimit: int64(geti("VERIF_TX_INVOKE", 0x10000000)),
	}
}

func TestReplay(t *testing.T) {
	if !tlaio.HaveInput() {
		t.Skip("driven by tools/check.py")
	}
	out := tlaio.OpenOut()
	e, err := newEnv(cfgFromEnv(), []string{"a", "b", "c", "d"}, []string{"x", "y"}, []string{"s", "e"}, []string{"g", "z"}, fmt.Sprint(tlaio.Seed()))
	if err != nil {
		t.Fatal(err)
	}
	defer e.close()
	err = tlaio.ReadInput(func(idx int, raw json.RawMessage) error {
		if !tlaio.Mine(idx) {
			return nil
		}
		var steps []*step
		if err := json.Unmarshal(raw, &steps); err != nil {
			return err
		}
		id := fmt.Sprintf("b%d", idx)
		out.Begin(id, "txexec:crash")
		co, err := e.runBehaviour(steps, id)
		if errors.Is(err, errHang) {
			// real code that does not terminate: nothing of this process can be trusted afterwards
			out.Violation(id, "txexec:hang", fmt.Sprintf("executing a block did not finish within %s: %v", blockTimeout, err),
				map[string]interface{}{"behaviour": json.RawMessage(raw), "chain": os.Getenv("VERIF_TX_CHAIN")})
			return errStop
		}
		if err != nil {
			return fmt.Errorf("case %s: %w", id, err)
		}
		nontrivial := false
		sig := ""
		for _, s := range steps {
			if s.Op == "tx" {
				sig += fmt.Sprintf("%s:%s>%s:%d:%d:%d;", s.Tx.Kind, s.Tx.From, s.Tx.To, s.Tx.Value, s.Tx.Limit, len(s.Tx.Prog))
				if s.Res != nil && (!s.Res.Ok || len(s.Tx.Prog) > 0) {
					nontrivial = true
				}
			} else {
				sig += s.Op[:1] + ";"
			}
		}
		if len(co.Mism) > 0 {
			co.Behaviour = json.RawMessage(raw)
		}
		out.Emit(tlaio.Record{Case: id, Status: "ok", Nontrivial: nontrivial, Sig: sig, Detail: co})
		return nil
	})
	if err != nil && err != errStop {
		t.Fatal(err)
	}
	out.Close(nil)
	if err == errStop {
		os.Exit(0) // goroutines of the hung transition are still spinning
	}
}

var errStop = errors.New("stop")

var _ = common.HexInt{}
