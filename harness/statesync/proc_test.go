package statesync

// Replays behaviours of spec/trie/SyncProc.tla into the real sync processor
// (service/sync2 syncProcessor through the add-only shim service/sync2/verif_export.go):
// the processor runs DoSync in its own goroutine over a real merkle builder; the network is
// this driver: it records every pack the processor sends to a peer and answers it with the
// payloads the TLC-generated behaviour chooses (any sub-list of the pack in either order,
// optionally preceded by a forged payload, or nothing at all).

import (
	"bytes"
	"encoding/json"
	"fmt"
	"math/rand"
	"os"
	"strings"
	"testing"
	"time"

	"github.com/icon-project/goloop/common/crypto"
	"github.com/icon-project/goloop/common/db"
	"github.com/icon-project/goloop/common/log"
	"github.com/icon-project/goloop/common/merkle"
	"github.com/icon-project/goloop/common/trie/trie_manager"
	"github.com/icon-project/goloop/module"
	"github.com/icon-project/goloop/service/sync2"

	"verifharness/tlaio"
)

type peerID string

func (p peerID) Bytes() []byte               { return []byte(p) }
func (p peerID) Equal(o module.PeerID) bool  { return o != nil && bytes.Equal(o.Bytes(), []byte(p)) }
func (p peerID) String() string              { return string(p) }

type sentReq struct {
	peer  string
	reqID uint32
	pack  []sync2.BucketIDAndBytes
}

type fakeNet struct{ ch chan sentReq }

func (n *fakeNet) RequestData(peer module.PeerID, reqID uint32, reqData []sync2.BucketIDAndBytes) error {
	n.ch <- sentReq{peer.String(), reqID, append([]sync2.BucketIDAndBytes(nil), reqData...)}
	return nil
}

type pstep struct {
	step
	P      string `json:"p"`
	Items  []int  `json:"items"`
	Forged bool   `json:"forged"`
	NextP  string `json:"nextp"`
	NextN  int    `json:"nextn"`
}

func (r *runner) runProc(steps []pstep, rnd *rand.Rand) int {
	r.setup(&steps[0].step, rnd) // source trie; (the plain builder of setup is replaced below)
	r.dest = newRecDB()
	r.bd = merkle.NewBuilder(r.dest)
	trie_manager.NewImmutableForObject(r.bd.Database(), r.root, objType).Resolve(r.bd)
	net := &fakeNet{ch: make(chan sentReq, 16)}
	lg := log.New()
	lg.SetLevel(log.FatalLevel)
	h := sync2.NewVerifHarness(r.bd, net, lg)
	h.Join(peerID("p1"))
	h.Join(peerID("p2"))
	done := make(chan error, 1)
	go func() { done <- h.DoSync() }()
	defer h.Stop()
	// next event of the processor: a pack sent to a peer, or the end of DoSync
	var cur *sentReq
	finished := false
	var old []sentReq
	await := func(at string, wantP string, wantN int, wantDone bool) bool {
		cur = nil
		select {
		case rq := <-net.ch:
			cur = &rq
		case err := <-done:
			finished = true
			if err != nil {
				r.viol("proc:dosync:error", "%s: DoSync returned %v", at, err)
			}
		case <-time.After(3 * time.Second):
			r.viol("proc:stall", "%s: the processor neither sends a request nor finishes within 3 s (outstanding=%d); spec says next request to %q",
				at, r.bd.UnresolvedCount(), wantP)
			return false
		}
		if finished != wantDone {
			// verdict-bearing, real against real: finished exactly when complete
			stored := r.storedCount()
			if finished && stored != len(r.all) {
				r.viol("proc:done-iff-complete", "%s: DoSync finished but %d of %d entries are stored", at, stored, len(r.all))
			} else {
				r.diverge("%s: processor finished=%v, spec says %v", at, finished, wantDone)
			}
			return false
		}
		if cur != nil {
			for _, it := range cur.pack {
				if _, ok := r.lookup(it.Bytes); !ok {
					r.viol("sync:request:not-in-target", "%s: the processor asks peer %s for %x which is not part of the trusted state", at, cur.peer, it.Bytes)
					return false
				}
			}
			// (which peer is asked depends on real migration timers; the pack is what matters)
			if len(cur.pack) != wantN {
				r.diverge("%s: request of %d hashes to %s, spec says %d to %s", at, len(cur.pack), cur.peer, wantN, wantP)
			}
		}
		return true
	}
	if !await("start", "p1", 1, false) {
		return 0
	}
	for i := 1; i < len(steps); i++ {
		s := &steps[i]
		at := fmt.Sprintf("step %d (%s)", i, s.Op)
		before := r.storedCount()
		switch s.Op {
		case "respond":
			if cur == nil {
				r.diverge("%s: no request in flight", at)
				return i
			}
			var data []sync2.BucketIDAndBytes
			var forgedHash []byte
			if s.Forged {
				v := make([]byte, 20+rnd.Intn(40))
				rnd.Read(v)
				forgedHash = crypto.SHA3Sum256(v)
				data = append(data, sync2.BucketIDAndBytes{BkID: db.MerkleTrie, Bytes: v})
			}
			for _, j := range s.Items {
				if j < 1 || j > len(cur.pack) {
					r.diverge("%s: spec answers pack position %d of %d", at, j, len(cur.pack))
					return i
				}
				e, _ := r.lookup(cur.pack[j-1].Bytes)
				data = append(data, sync2.BucketIDAndBytes{BkID: cur.pack[j-1].BkID, Bytes: e.val})
			}
			old = append(old, *cur)
			if err := h.Respond(peerID(cur.peer), cur.reqID, data); err != nil {
				// the request's own 500 ms expiry fired before this driver answered (slow machine): the real
				// schedule left the behaviour; not a statement about the code
				return -2
			}
			if len(data) == 0 && s.NextP == "" {
				// the answering peer waits for its migration timer; nothing else can happen
				time.Sleep(30 * time.Millisecond)
				cur = nil
			} else if !await(at, s.NextP, s.NextN, s.Done) {
				return i
			}
			if forgedHash != nil {
				for _, bid := range []db.BucketID{db.MerkleTrie, db.BytesByHash} {
					if r.present(entry{bid, string(forgedHash), nil}) {
						r.viol("sync:stored:unrequested", "%s: a forged payload was stored", at)
					}
				}
			}
		case "late":
			if len(old) == 0 {
				break
			}
			o := old[rnd.Intn(len(old))]
			e, _ := r.lookup(o.pack[0].Bytes)
			_ = h.Respond(peerID(o.peer), o.reqID, []sync2.BucketIDAndBytes{{BkID: o.pack[0].BkID, Bytes: e.val}})
			time.Sleep(5 * time.Millisecond)
			if r.storedCount() != before {
				r.viol("proc:late-answer-stored", "%s: an answer to a request that is not pending changed the store", at)
			}
		case "migrate":
			// the real timer (200 ms) fires by itself: it may already have brought the peer back and caused a request
			if cur == nil && s.NextP != "" {
				if !await(at, s.NextP, s.NextN, s.Done) {
					return i
				}
			}
		}
		if finished {
			break
		}
		stored := r.storedCount()
		if stored != s.NStored || r.bd.UnresolvedCount() != s.Unres {
			r.diverge("%s: %d outstanding / %d stored, spec says %d / %d", at, r.bd.UnresolvedCount(), stored, s.Unres, s.NStored)
		}
		for _, x := range r.f {
			if x.violation {
				return i
			}
		}
	}
	if finished {
		if r.storedCount() != len(r.all) {
			r.viol("proc:done-iff-complete", "DoSync finished but %d of %d entries are stored", r.storedCount(), len(r.all))
		}
		r.finish()
	}
	return -1
}

func TestReplayProc(t *testing.T) {
	if !tlaio.HaveInput() {
		t.Skip("driven by tools/check.py")
	}
	out := tlaio.OpenOut()
	rnd := tlaio.Rand()
	completed := 0
	err := tlaio.ReadInput(func(idx int, raw json.RawMessage) error {
		if !tlaio.Mine(idx) {
			return nil
		}
		var steps []pstep
		if err := json.Unmarshal(raw, &steps); err != nil {
			return err
		}
		id := fmt.Sprintf("p%d", idx)
		seed := rnd.Int63()
		if fx := os.Getenv("VERIF_FIX_SEED"); fx != "" {
			fmt.Sscan(fx, &seed)
		}
		lr := rand.New(rand.NewSource(seed))
		r := &runner{salt: fmt.Sprintf("%x", lr.Intn(1<<12))}
		out.Begin(id, "proc:crash")
		at := r.runProc(steps, lr)
		if at == -2 {
			out.Skip(id, "request expired before the driver answered (real-time artefact)")
			return nil
		}
		var sb strings.Builder
		fmt.Fprintf(&sb, "%v:", steps[0].Map)
		for _, s := range steps[1:] {
			fmt.Fprintf(&sb, "%s%v%v;", s.Op[:2], s.Items, s.Forged)
		}
		done := steps[len(steps)-1].Done
		if done {
			completed++
		}
		detail := map[string]interface{}{"behaviour": json.RawMessage(raw), "seed": seed, "at_step": at, "proc": true}
		seen := map[string]bool{}
		for _, x := range r.f {
			if x.violation && !seen[x.key] {
				seen[x.key] = true
				out.Violation(id, x.key, x.what, detail)
			}
		}
		if len(seen) == 0 {
			if len(r.f) > 0 {
				out.Divergence(id, r.f[0].what, detail)
			} else {
				out.OK(id, done, sb.String())
			}
		}
		return nil
	})
	if err != nil {
		t.Fatal(err)
	}
	out.Close(map[string]int{"completed_syncs": completed})
}
