package statesync

// Replays behaviours of spec/trie/StateSync.tla into the real merkle builder
// (common/merkle.NewBuilder + OnData/Requests/UnresolvedCount/Flush) driving the real trie
// resolution (ompt Resolve / nodeRequester) for C20.
//
// The first record of a behaviour names the target map; the driver builds the real target
// trie (values are objects whose data lives in the BytesByHash bucket) in a source database
// whose writes are recorded, then starts a builder on an empty database that knows only the
// root hash.  Each following record is one arrival of data: the answer to the i-th outstanding
// request, a duplicate, forged bytes, or a genuine entry nobody asked for (yet).  The spec
// predicts the result, the number of outstanding requests and of stored entries and whether
// the sync is complete.

import (
	"bytes"
	"encoding/json"
	"fmt"
	"math/rand"
	"os"
	"reflect"
	"sort"
	"strings"
	"testing"

	"github.com/icon-project/goloop/common/crypto"
	"github.com/icon-project/goloop/common/db"
	"github.com/icon-project/goloop/common/merkle"
	"github.com/icon-project/goloop/common/trie"
	"github.com/icon-project/goloop/common/trie/trie_manager"

	"verifharness/tlaio"
)

// ---------------------------------------------------------------- value object stored by hash

type obj struct {
	bk   db.Bucket
	hash []byte
	data []byte
}

func (o *obj) Bytes() []byte { return o.hash }
func (o *obj) Reset(d db.Database, k []byte) error {
	bk, err := d.GetBucket(db.BytesByHash)
	if err != nil {
		return err
	}
	o.bk, o.hash, o.data = bk, append([]byte(nil), k...), nil
	return nil
}
func (o *obj) Flush() error {
	if o.data != nil {
		return o.bk.Set(o.hash, o.data)
	}
	return nil
}
func (o *obj) Equal(x trie.Object) bool {
	o2, ok := x.(*obj)
	return ok && o2 != nil && bytes.Equal(o.hash, o2.hash)
}
func (o *obj) Resolve(bd merkle.Builder) error {
	if v, err := o.bk.Get(o.hash); err == nil && v != nil {
		return nil // present locally
	}
	bd.RequestData(db.BytesByHash, o.hash, o)
	return nil
}
func (o *obj) OnData(bs []byte, bd merkle.Builder) error { o.data = bs; return nil }
func (o *obj) ClearCache()                               {}
func (o *obj) Data() []byte {
	if o.data == nil {
		o.data, _ = o.bk.Get(o.hash)
	}
	return o.data
}

var objType = reflect.TypeOf((*obj)(nil))

// ---------------------------------------------------------------- database wrapper recording writes

type recDB struct {
	db.Database
	sets map[db.BucketID]map[string][]byte
}

type recBucket struct {
	db.Bucket
	id  db.BucketID
	rec *recDB
}

func newRecDB() *recDB {
	return &recDB{Database: db.NewMapDB(), sets: map[db.BucketID]map[string][]byte{}}
}
func (r *recDB) GetBucket(id db.BucketID) (db.Bucket, error) {
	bk, err := r.Database.GetBucket(id)
	if err != nil {
		return nil, err
	}
	return &recBucket{bk, id, r}, nil
}
func (b *recBucket) Set(k, v []byte) error {
	if b.rec.sets[b.id] == nil {
		b.rec.sets[b.id] = map[string][]byte{}
	}
	b.rec.sets[b.id][string(k)] = append([]byte(nil), v...)
	return b.Bucket.Set(k, v)
}

// ---------------------------------------------------------------- behaviour

type step struct {
	Op       string  `json:"op"`
	I        int     `json:"i"`
	Res      string  `json:"res"`
	Unres    int     `json:"unres"`
	NStored  int     `json:"nstored"`
	NTarget  int     `json:"ntarget"`
	Done     bool    `json:"done"`
	Complete bool    `json:"complete"`
	W        int     `json:"w"`
	Keys     [][]int `json:"keys"`
	Map      []int   `json:"map"`
	Alias    struct {
		V int `json:"v"` // the value whose data is byte-identical to ...
		K int `json:"k"` // ... the serialized leaf node of this key (index into keys); 0 = no alias in this target
	} `json:"alias"`
}

type entry struct {
	bid db.BucketID
	key string
	val []byte
}

type finding struct {
	violation bool
	key, what string
}

type runner struct {
	salt  string
	nib   []byte
	f     []finding
	src   *recDB
	dest  *recDB
	bd    merkle.Builder
	all   []entry // every entry of the complete state (recorded while flushing the source trie)
	given [][]byte
	snap  trie.SnapshotForObject
	root  []byte
	pairs map[string][]byte // key bytes -> object data
	alias map[int][]byte    // value -> data override (the serialized leaf node of another key)
}

func (r *runner) viol(key, format string, a ...interface{}) {
	r.f = append(r.f, finding{true, key, fmt.Sprintf(format, a...)})
}
func (r *runner) diverge(format string, a ...interface{}) {
	r.f = append(r.f, finding{false, "", fmt.Sprintf(format, a...)})
}

func (r *runner) keyBytes(nibs []int) []byte {
	out := make([]byte, len(nibs)/2)
	for i := range out {
		out[i] = r.nib[nibs[2*i]]<<4 | r.nib[nibs[2*i+1]]
	}
	return out
}

func (r *runner) objData(v int) []byte {
	if d, ok := r.alias[v]; ok {
		return d
	}
	return []byte(fmt.Sprintf("object-%s-%d", r.salt, v))
}

func (r *runner) present(e entry) bool {
	bk, err := r.bd.Database().GetBucket(e.bid)
	if err != nil {
		return false
	}
	v, err := bk.Get([]byte(e.key))
	return err == nil && v != nil
}

func (r *runner) requested() map[string]bool {
	res := map[string]bool{}
	for it := r.bd.Requests(); it.Next(); {
		res[string(it.Key())] = true
	}
	return res
}

func (r *runner) storedCount() (n int) {
	for _, e := range r.all {
		if r.present(e) {
			n++
		}
	}
	return
}

func (r *runner) setup(s *step, rnd *rand.Rand) {
	perm := rnd.Perm(16)[:s.W]
	sort.Ints(perm)
	for _, p := range perm {
		r.nib = append(r.nib, byte(p))
	}
	r.src = newRecDB()
	if s.Alias.K > 0 && r.alias == nil {
		// first pass: build the target with a placeholder, take the serialized leaf node of the alias key (the last
		// element of its proof), and use these bytes as the data of the alias value: the same hash is then wanted in the
		// MerkleTrie bucket (node) and in the BytesByHash bucket (object data)
		r.alias = map[int][]byte{}
		r.buildSource(s)
		proof := r.snap.GetProof(r.keyBytes(s.Keys[s.Alias.K-1]))
		if len(proof) == 0 {
			panic("no proof for the alias key")
		}
		r.alias[s.Alias.V] = append([]byte(nil), proof[len(proof)-1]...)
		r.src = newRecDB()
		r.all = nil
	}
	r.buildSource(s)
	if s.Alias.K > 0 {
		proof := r.snap.GetProof(r.keyBytes(s.Keys[s.Alias.K-1]))
		if !bytes.Equal(proof[len(proof)-1], r.alias[s.Alias.V]) {
			panic("alias leaf changed between the passes")
		}
	}
	r.dest = newRecDB()
	r.bd = merkle.NewBuilder(r.dest)
	trie_manager.NewImmutableForObject(r.bd.Database(), r.root, objType).Resolve(r.bd)
}

// buildSource builds and flushes the target trie into r.src (writes recorded) and lists all its entries
func (r *runner) buildSource(s *step) {
	mt := trie_manager.NewMutableForObject(r.src, nil, objType)
	bk, _ := r.src.GetBucket(db.BytesByHash)
	r.pairs = map[string][]byte{}
	for i, v := range s.Map {
		if v == 0 {
			continue
		}
		d := r.objData(v)
		kb := r.keyBytes(s.Keys[i])
		r.pairs[string(kb)] = d
		if _, err := mt.Set(kb, &obj{bk: bk, hash: crypto.SHA3Sum256(d), data: d}); err != nil {
			panic(err)
		}
	}
	sn := mt.GetSnapshot()
	if err := sn.Flush(); err != nil {
		panic(err)
	}
	r.snap = sn
	r.root = sn.Hash()
	for bid, m := range r.src.sets {
		for k, v := range m {
			r.all = append(r.all, entry{bid, k, v})
		}
	}
	sort.Slice(r.all, func(i, j int) bool {
		if r.all[i].key != r.all[j].key {
			return r.all[i].key < r.all[j].key
		}
		return r.all[i].bid < r.all[j].bid
	})
}

func (r *runner) lookup(key []byte) (entry, bool) {
	for _, e := range r.all {
		if e.key == string(key) {
			return e, true
		}
	}
	return entry{}, false
}

func (r *runner) run(steps []step, rnd *rand.Rand) int {
	r.setup(&steps[0], rnd)
	if len(r.all) != steps[0].NTarget {
		r.diverge("the real target state has %d entries, spec says %d", len(r.all), steps[0].NTarget)
	}
	for i := 1; i < len(steps); i++ {
		s := &steps[i]
		at := fmt.Sprintf("step %d (%s)", i, s.Op)
		before := r.storedCount()
		switch s.Op {
		case "deliver":
			it := r.bd.Requests()
			n := 0
			var key []byte
			var bids []db.BucketID
			for it.Next() {
				n++
				if n == s.I {
					key, bids = it.Key(), it.BucketIDs()
				}
			}
			if key == nil {
				if n == 0 {
					r.diverge("%s: no outstanding request, spec says there are %d", at, steps[i-1].Unres)
					return i
				}
				idx := (s.I - 1) % n // keep going with another request
				it = r.bd.Requests()
				for j := 0; it.Next(); j++ {
					if j == idx {
						key, bids = it.Key(), it.BucketIDs()
					}
				}
				r.diverge("%s: only %d outstanding requests, spec delivers number %d", at, n, s.I)
			}
			e, ok := r.lookup(key)
			if !ok {
				r.viol("sync:request:not-in-target", "%s: the builder requests %x which is not part of the trusted state", at, key)
				return i
			}
			r.given = append(r.given, e.val)
			if err := r.bd.OnData(bids[0], e.val); err != nil {
				r.viol("sync:ondata:requested-rejected", "%s: OnData for requested hash %x failed: %v", at, key, err)
				return i
			}
			for _, bid := range bids { // it must be in the bucket of EVERY requester
				if !r.present(entry{bid, string(key), nil}) {
					r.viol("sync:ondata:not-stored", "%s: requested data %x was accepted but is not in bucket %q of a requester", at, key, bid)
				}
			}
		case "dup":
			if len(r.given) == 0 {
				break
			}
			// (a hash may legitimately be requested again for another bucket: only data that is not requested now)
			req := r.requested()
			var cand [][]byte
			for _, g := range r.given {
				if !req[string(crypto.SHA3Sum256(g))] {
					cand = append(cand, g)
				}
			}
			if len(cand) == 0 {
				break
			}
			v := cand[rnd.Intn(len(cand))]
			if err := r.bd.OnData(db.MerkleTrie, v); err != merkle.ErrNoRequester {
				r.viol("sync:ondata:duplicate", "%s: OnData for already delivered data returned %v, spec says ErrNoRequester", at, err)
			}
		case "forged":
			v := make([]byte, 10+rnd.Intn(60))
			rnd.Read(v)
			if rnd.Intn(2) == 0 && len(r.given) > 0 { // a genuine node with one byte changed
				v = append([]byte(nil), r.given[rnd.Intn(len(r.given))]...)
				v[rnd.Intn(len(v))] ^= 0x20
			}
			err := r.bd.OnData(db.MerkleTrie, v)
			h := crypto.SHA3Sum256(v)
			for _, bid := range []db.BucketID{db.MerkleTrie, db.BytesByHash} {
				if r.present(entry{bid, string(h), nil}) {
					r.viol("sync:stored:unrequested", "%s: forged payload %x (hash %x) was stored in bucket %q", at, v, h, bid)
				}
			}
			if err != merkle.ErrNoRequester {
				r.viol("sync:ondata:forged-accepted", "%s: OnData for forged data returned %v, spec says ErrNoRequester", at, err)
			}
		case "early":
			req := r.requested()
			var cand []entry
			for _, e := range r.all {
				if !req[e.key] && !r.present(e) {
					cand = append(cand, e)
				}
			}
			if len(cand) != s.I {
				r.diverge("%s: %d entries are neither stored nor requested, spec says %d", at, len(cand), s.I)
			}
			if len(cand) == 0 {
				break
			}
			e := cand[rnd.Intn(len(cand))]
			err := r.bd.OnData(e.bid, e.val)
			if r.present(e) {
				r.viol("sync:stored:unrequested", "%s: entry %x of the target that nobody requested was stored", at, e.key)
			}
			if err != merkle.ErrNoRequester {
				r.viol("sync:ondata:unrequested-accepted", "%s: OnData for unrequested data returned %v, spec says ErrNoRequester", at, err)
			}
		}
		// verdict-bearing, real against real: no outstanding requests exactly when the store is complete
		stored := r.storedCount()
		unres := r.bd.UnresolvedCount()
		if (unres == 0) != (stored == len(r.all)) {
			r.viol("sync:done-iff-complete", "%s: UnresolvedCount()=%d but %d of %d entries of the state are stored", at, unres, stored, len(r.all))
		}
		if s.Op != "deliver" && stored != before {
			r.viol("sync:stored:unrequested", "%s: the number of stored entries changed from %d to %d", at, before, stored)
		}
		// diagnostic exactness
		if unres != s.Unres || stored != s.NStored {
			r.diverge("%s: %d outstanding / %d stored, spec says %d / %d", at, unres, stored, s.Unres, s.NStored)
		}
		// a divergence (counts/order differ from the model) does not end the behaviour: the verdict-bearing
		// checks are real against real and stay meaningful; a violation does
		for _, x := range r.f {
			if x.violation {
				return i
			}
		}
	}
	last := steps[len(steps)-1]
	if last.Done != (r.bd.UnresolvedCount() == 0) {
		r.diverge("at the end UnresolvedCount()=%d, spec says done=%v", r.bd.UnresolvedCount(), last.Done)
	}
	if r.bd.UnresolvedCount() == 0 {
		r.finish()
	}
	return -1
}

// finish: write the layer to the destination and compare the rebuilt state with the source
func (r *runner) finish() {
	if err := r.bd.Flush(true); err != nil {
		r.viol("sync:flush:error", "Flush(true): %v", err)
		return
	}
	want := map[string]bool{}
	for _, e := range r.all {
		want[string(e.bid)+"/"+e.key] = true
	}
	for bid, m := range r.dest.sets {
		for k, v := range m {
			e, ok := r.lookup([]byte(k))
			if !ok || !want[string(bid)+"/"+k] || !bytes.Equal(e.val, v) {
				r.viol("sync:stored:unrequested", "the destination database received %q/%x which is not an entry of the trusted state", bid, k)
			}
			delete(want, string(bid)+"/"+k)
		}
	}
	if len(want) > 0 {
		r.viol("sync:incomplete", "%d entries of the state are missing in the destination database", len(want))
	}
	rebuilt := trie_manager.NewImmutableForObject(r.dest, r.root, objType)
	n := 0
	for it := rebuilt.Iterator(); it.Has(); it.Next() {
		o, k, err := it.Get()
		if err != nil {
			r.viol("sync:rebuilt:iterate", "iteration of the rebuilt trie failed: %v", err)
			return
		}
		n++
		d, ok := r.pairs[string(k)]
		if !ok || !bytes.Equal(o.(*obj).Data(), d) {
			r.viol("sync:rebuilt:content", "rebuilt trie has %x -> %x, the source has %x", k, o.(*obj).Data(), d)
		}
	}
	if n != len(r.pairs) {
		r.viol("sync:rebuilt:content", "rebuilt trie has %d pairs, the source has %d", n, len(r.pairs))
	}
	if !bytes.Equal(rebuilt.Hash(), r.root) {
		r.viol("sync:rebuilt:root", "rebuilt trie has root %x, trusted root is %x", rebuilt.Hash(), r.root)
	}
}

func TestReplay(t *testing.T) {
	if !tlaio.HaveInput() {
		t.Skip("driven by tools/check.py")
	}
	out := tlaio.OpenOut()
	rnd := tlaio.Rand()
	completed := 0
	err := tlaio.ReadInput(func(idx int, raw json.RawMessage) error {
		if !tlaio.Mine(idx) {
			return nil
		}
		var steps []step
		if err := json.Unmarshal(raw, &steps); err != nil {
			return err
		}
		id := fmt.Sprintf("b%d", idx)
		seed := rnd.Int63()
		if fx := os.Getenv("VERIF_FIX_SEED"); fx != "" {
			fmt.Sscan(fx, &seed)
		}
		lr := rand.New(rand.NewSource(seed))
		r := &runner{salt: fmt.Sprintf("%x", lr.Intn(1<<12))}
		out.Begin(id, "sync:crash")
		at := r.run(steps, lr)
		var sb strings.Builder
		fmt.Fprintf(&sb, "%v:", steps[0].Map)
		for _, s := range steps[1:] {
			fmt.Fprintf(&sb, "%s%d;", s.Op[:2], s.I)
		}
		done := steps[len(steps)-1].Done
		if done {
			completed++
		}
		detail := map[string]interface{}{"behaviour": json.RawMessage(raw), "seed": seed, "at_step": at}
		seen := map[string]bool{}
		for _, x := range r.f {
			if x.violation && !seen[x.key] {
				seen[x.key] = true
				out.Violation(id, x.key, x.what, detail)
			}
		}
		if len(seen) == 0 {
			if len(r.f) > 0 {
				out.Divergence(id, r.f[0].what, detail)
			} else {
				out.OK(id, done, sb.String())
			}
		}
		return nil
	})
	if err != nil {
		t.Fatal(err)
	}
	out.Close(map[string]int{"completed_syncs": completed})
}
