package bloom

// Replays behaviours of spec/data/Bloom.tla into the real txresult.LogsBloom (C26).
// The TLA+ text is the oracle: after every call the spec lists, per bloom, the items whose
// bits must be set, each with its hash preimage (literal bytes + references to the concrete
// address / value bytes) and the number of hash bits; Contain/queries carry the verdict
// "must be TRUE" (res = true) or "may be either" (res = false, a TRUE is a false positive).
// This driver concretizes abstract addresses/values with seeded bytes, evaluates the symbolic
// bit terms <<item, k>> with the real SHA3-256 (bit k = big-endian uint16 at hash bytes
// 2k, 2k+1, masked to the bloom width) and reads the real bits back.

import (
	"bytes"
	"encoding/binary"
	"encoding/json"
	"fmt"
	"math/big"
	"math/rand"
	"testing"

	"github.com/icon-project/goloop/common"
	"github.com/icon-project/goloop/common/codec"
	"github.com/icon-project/goloop/common/crypto"
	"github.com/icon-project/goloop/common/db"
	"github.com/icon-project/goloop/module"
	"github.com/icon-project/goloop/service/txresult"

	"verifharness/tlaio"
)

type item struct {
	T string `json:"t"`
	A string `json:"a"`
	P int    `json:"p"`
	V string `json:"v"`
}

type piece struct {
	Lit []int  `json:"lit"`
	Ref string `json:"ref"`
}

type pitem struct {
	Item item    `json:"item"`
	Pre  []piece `json:"pre"`
}

type step struct {
	Op     string             `json:"op"`
	B      string             `json:"b"`
	B2     string             `json:"b2"`
	A      string             `json:"a"`
	Vs     []string           `json:"vs"`
	Item   item               `json:"item"`
	Kind   string             `json:"kind"`
	Res    bool               `json:"res"`
	Blooms map[string][]pitem `json:"blooms"`
	Ser    []pitem            `json:"ser"`
	NBits  int                `json:"nbits"`
}

// a LogsBloom of another implementation (Merge/Contain must work through the interface)
type foreign struct{ bs []byte }

func (f *foreign) String() string               { return fmt.Sprintf("%x", f.bs) }
func (f *foreign) Bytes() []byte                { return f.bs }
func (f *foreign) CompressedBytes() []byte      { return common.Compress(f.bs) }
func (f *foreign) LogBytes() []byte             { return f.bs }
func (f *foreign) Contain(module.LogsBloom) bool { return false }
func (f *foreign) Merge(module.LogsBloom)       {}
func (f *foreign) Equal(module.LogsBloom) bool  { return false }

type world struct {
	viaRcpt bool // the receipt blooms r1, r2 live inside real receipts (txresult.NewReceipt ... AddLog)
	dbase   db.Database
	rcpts   map[string]txresult.Receipt
	rnd    *rand.Rand
	addrs  map[string]module.Address
	vals   map[string][]byte
	blooms map[string]*txresult.LogsBloom
	fpos   int
}

func (w *world) addr(id string) module.Address {
	if a, ok := w.addrs[id]; ok {
		return a
	}
	bs := make([]byte, 21)
	w.rnd.Read(bs)
	bs[0] = byte(w.rnd.Intn(2))
	a := common.MustNewAddress(bs)
	w.addrs[id] = a
	return a
}

func (w *world) val(id string) []byte {
	if id == "nil" {
		return nil
	}
	if id == "e" {
		return []byte{}
	}
	if v, ok := w.vals[id]; ok {
		return v
	}
	v := make([]byte, 1+w.rnd.Intn(40))
	w.rnd.Read(v)
	w.vals[id] = v
	return v
}

func (w *world) refBytes(ref string) []byte {
	if ref == "" {
		return nil
	}
	if ref[0] == 'a' {
		return w.addr(ref).Bytes()
	}
	return w.val(ref)
}

func (w *world) receipt(id string) txresult.Receipt {
	if r, ok := w.rcpts[id]; ok {
		return r
	}
	to := make([]byte, 21)
	w.rnd.Read(to)
	to[0] = 1
	r := txresult.NewReceipt(w.dbase, module.LatestRevision, common.MustNewAddress(to))
	w.rcpts[id] = r
	return r
}

func (w *world) bloom(id string) *txresult.LogsBloom {
	if b, ok := w.blooms[id]; ok {
		return b
	}
	if w.viaRcpt && id != "blk" {
		b := w.receipt(id).LogsBloom().(*txresult.LogsBloom)
		w.blooms[id] = b
		return b
	}
	b := txresult.NewLogsBloom(nil)
	w.blooms[id] = b
	return b
}

func (w *world) asArg(lb *txresult.LogsBloom) module.LogsBloom {
	if w.rnd.Intn(3) == 0 {
		return &foreign{append([]byte{}, lb.Bytes()...)}
	}
	return lb
}

func (w *world) logOf(vs []string) [][]byte {
	res := make([][]byte, len(vs))
	for i, v := range vs {
		res[i] = w.val(v)
	}
	return res
}

func (w *world) queryOf(it item) *txresult.LogsBloom {
	q := txresult.NewLogsBloom(nil)
	if it.T == "addr" {
		q.AddAddressOfLog(w.addr(it.A))
	} else {
		q.AddIndexedOfLog(it.P, w.val(it.V))
	}
	return q
}

func roundtrip(lb *txresult.LogsBloom, kind string) (*txresult.LogsBloom, error) {
	switch kind {
	case "compress":
		return txresult.NewLogsBloomFromCompressed(lb.CompressedBytes()), nil
	case "bytes":
		return txresult.NewLogsBloom(lb.Bytes()), nil
	case "logbytes":
		return txresult.NewLogsBloom(lb.LogBytes()), nil
	case "json":
		bs, err := json.Marshal(lb)
		if err != nil {
			return nil, err
		}
		n := txresult.NewLogsBloom(nil)
		if err := json.Unmarshal(bs, n); err != nil {
			return nil, err
		}
		return n, nil
	case "rlp":
		bs, err := codec.BC.MarshalToBytes(lb)
		if err != nil {
			return nil, err
		}
		n := txresult.NewLogsBloom(nil)
		if _, err := codec.BC.UnmarshalFromBytes(bs, n); err != nil {
			return nil, err
		}
		return n, nil
	}
	return nil, fmt.Errorf("unknown round trip %s", kind)
}

// wantBits evaluates the symbolic bits of the items with the real hash
func (w *world) wantBits(items []pitem, nbits int) map[int]string {
	want := map[int]string{}
	for _, it := range items {
		var pre []byte
		for _, p := range it.Pre {
			for _, x := range p.Lit {
				pre = append(pre, byte(x))
			}
			pre = append(pre, w.refBytes(p.Ref)...)
		}
		h := crypto.SHA3Sum256(pre)
		for k := 0; k < nbits; k++ {
			want[int(binary.BigEndian.Uint16(h[2*k:2*k+2]))&(txresult.LogsBloomBits-1)] = fmt.Sprintf("bit %d of item %+v", k, it.Item)
		}
	}
	return want
}

// checkBits compares the real bit vector of every bloom with the predicted items
func (w *world) checkBits(s step) (string, string, string) {
	div := ""
	for id, items := range s.Blooms {
		lb := w.bloom(id)
		want := map[int]string{}
		for _, it := range items {
			var pre []byte
			for _, p := range it.Pre {
				for _, x := range p.Lit {
					pre = append(pre, byte(x))
				}
				pre = append(pre, w.refBytes(p.Ref)...)
			}
			h := crypto.SHA3Sum256(pre)
			for k := 0; k < s.NBits; k++ {
				want[int(binary.BigEndian.Uint16(h[2*k:2*k+2]))&(txresult.LogsBloomBits-1)] = fmt.Sprintf("bit %d of item %+v (preimage %x)", k, it.Item, pre)
			}
		}
		for idx, why := range want {
			if lb.Bit(idx) != 1 {
				return "bloom:missingbit:" + s.Op, fmt.Sprintf("after %s bloom %s lacks bit %d = %s", s.Op, id, idx, why), ""
			}
		}
		if lb.BitLen() > txresult.LogsBloomBits {
			return "bloom:width", fmt.Sprintf("after %s bloom %s has %d bits", s.Op, id, lb.BitLen()), ""
		}
		for idx := 0; idx < txresult.LogsBloomBits; idx++ {
			if _, ok := want[idx]; !ok && lb.Bit(idx) == 1 {
				div = fmt.Sprintf("after %s bloom %s has bit %d set that no added item explains", s.Op, id, idx)
			}
		}
	}
	return "", "", div
}

// collect merges the blooms of the block's receipts into the block bloom; in receipt mode the receipts are
// finalized, stored in a real receipt list, read back from its hash and the STORED receipts' blooms are merged
func (w *world) collect(blk *txresult.LogsBloom) error {
	if !w.viaRcpt {
		blk.Merge(w.asArg(w.bloom("r1")))
		blk.Merge(w.asArg(w.bloom("r2")))
		return nil
	}
	var rs []txresult.Receipt
	for i, id := range []string{"r1", "r2"} {
		r := w.receipt(id)
		st := module.StatusSuccess
		if i == 1 && w.rnd.Intn(2) == 0 {
			st = module.StatusReverted
		}
		r.SetResult(st, big.NewInt(int64(1000+w.rnd.Intn(1000))), big.NewInt(12500000000), nil)
		rs = append(rs, r)
	}
	rl := txresult.NewReceiptListFromSlice(w.dbase, rs)
	if err := rl.Flush(); err != nil {
		return fmt.Errorf("receipt list flush: %v", err)
	}
	rl2 := txresult.NewReceiptListFromHash(w.dbase, rl.Hash())
	n := 0
	for it := rl2.Iterator(); it.Has(); it.Next() {
		r, err := it.Get()
		if err != nil {
			return fmt.Errorf("stored receipt %d unreadable: %v", n, err)
		}
		if !r.LogsBloom().Equal(rs[n].LogsBloom()) {
			return fmt.Errorf("bloom of stored receipt %d differs from the bloom of the receipt: %x vs %x", n, r.LogsBloom().Bytes(), rs[n].LogsBloom().Bytes())
		}
		blk.Merge(r.LogsBloom())
		n++
	}
	if n != len(rs) {
		return fmt.Errorf("receipt list returns %d of %d receipts", n, len(rs))
	}
	return nil
}

func (w *world) run(steps []step) (key, what, div string) {
	for i, s := range steps {
		lb := w.bloom(s.B)
		switch s.Op {
		case "addlog":
			if w.viaRcpt && s.B != "blk" {
				data := make([][]byte, w.rnd.Intn(3))
				for j := range data {
					data[j] = []byte{byte(j), 0x55}
				}
				w.receipt(s.B).AddLog(w.addr(s.A), w.logOf(s.Vs), data)
			} else {
				lb.AddLog(w.addr(s.A), w.logOf(s.Vs))
			}
		case "collect":
			if err := w.collect(lb); err != nil {
				return "bloom:collect", fmt.Sprintf("step %d: %v", i, err), ""
			}
		case "additem":
			if s.Item.T == "addr" {
				lb.AddAddressOfLog(w.addr(s.Item.A))
			} else {
				lb.AddIndexedOfLog(s.Item.P, w.val(s.Item.V))
			}
		case "merge":
			lb.Merge(w.asArg(w.bloom(s.B2)))
		case "mergenil":
			lb.Merge(nil)
		case "roundtrip":
			n, err := roundtrip(lb, s.Kind)
			if err != nil {
				return "bloom:roundtrip:" + s.Kind, fmt.Sprintf("step %d: %s round trip of bloom %s failed: %v", i, s.Kind, s.B, err), ""
			}
			if !n.Equal(lb) || !lb.Equal(n) || !n.Contain(lb) {
				return "bloom:roundtrip:" + s.Kind, fmt.Sprintf("step %d: bloom %s is not preserved by the %s round trip: %x -> %x", i, s.B, s.Kind, lb.Bytes(), n.Bytes()), ""
			}
			if !(w.viaRcpt && s.B != "blk") {
				w.blooms[s.B] = n
			}
		case "serialize":
			// the SAME object is serialized (possibly again, after mutations); the bytes must describe its current content
			n, err := roundtrip(lb, s.Kind)
			if err != nil {
				return "bloom:serialize:" + s.Kind, fmt.Sprintf("step %d: %s serialization of bloom %s failed: %v", i, s.Kind, s.B, err), ""
			}
			for idx, why := range w.wantBits(s.Ser, s.NBits) {
				if n.Bit(idx) != 1 {
					return "bloom:staleserialization:" + s.Kind, fmt.Sprintf("step %d: the %s serialization of bloom %s lacks bit %d = %s, which the bloom holds (stale or lossy serialization)", i, s.Kind, s.B, idx, why), ""
				}
			}
			if !n.Equal(lb) {
				return "bloom:staleserialization:" + s.Kind, fmt.Sprintf("step %d: the %s serialization of bloom %s decodes to %x, the bloom is %x", i, s.Kind, s.B, n.Bytes(), lb.Bytes()), ""
			}
		case "contain", "query", "querylog":
			var q *txresult.LogsBloom
			switch s.Op {
			case "contain":
				q = w.bloom(s.B2)
			case "query":
				q = w.queryOf(s.Item)
			default:
				q = txresult.NewLogsBloom(nil)
				q.AddLog(w.addr(s.A), w.logOf(s.Vs))
			}
			got := lb.Contain(w.asArg(q))
			if s.Res && !got {
				return "bloom:falsenegative:" + s.Op, fmt.Sprintf("step %d: %s: bloom %s does not contain %s%+v%v although its items were added (false negative)", i, s.Op, s.B, s.B2, s.Item, s.Vs), ""
			}
			if !s.Res && got {
				w.fpos++
			}
		}
		if k, wh, d := w.checkBits(s); wh != "" {
			return k, fmt.Sprintf("step %d: %s", i, wh), ""
		} else if d != "" {
			div = fmt.Sprintf("step %d: %s", i, d)
		}
	}
	return "", "", div
}

func TestReplay(t *testing.T) {
	if !tlaio.HaveInput() {
		t.Skip("driven by tools/check.py")
	}
	out := tlaio.OpenOut()
	rnd := tlaio.Rand()
	fpos := 0
	err := tlaio.ReadInput(func(idx int, raw json.RawMessage) error {
		var steps []step
		if err := json.Unmarshal(raw, &steps); err != nil {
			return err
		}
		id := fmt.Sprintf("b%d", idx)
		var sig bytes.Buffer
		writes := 0
		for _, s := range steps {
			fmt.Fprintf(&sig, "%s:%s:%s:%s:%v:%v:%s;", s.Op, s.B, s.B2, s.A, s.Vs, s.Item, s.Kind)
			switch s.Op {
			case "addlog", "additem", "merge", "collect":
				writes++
			}
		}
		w := &world{viaRcpt: rnd.Intn(2) == 0, dbase: db.NewMapDB(), rcpts: map[string]txresult.Receipt{}, rnd: rnd, addrs: map[string]module.Address{}, vals: map[string][]byte{}, blooms: map[string]*txresult.LogsBloom{}}
		key, what, div := w.run(steps)
		fpos += w.fpos
		switch {
		case what != "":
			out.Violation(id, key, what, map[string]interface{}{"behaviour": steps})
		case div != "":
			out.Divergence(id, div, nil)
		default:
			out.OK(id, writes > 0, sig.String())
		}
		return nil
	})
	if err != nil {
		t.Fatal(err)
	}
	out.Close(map[string]int{"false_positives": fpos})
}
