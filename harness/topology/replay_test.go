package topology

// Replays behaviours of spec/net/Topology.tla into real PeerToPeer instances (one per node) joined by
// hand-made Peer objects (hook VerifNewTopo): requests go through tryTransitPeerConnection, packets
// wait in the real per-peer send queues until the behaviour delivers them to PeerToPeer.onPacket
// (handleP2PConnectionRequest / handleP2PConnectionResponse), role changes through setRole, closes
// through Peer.Close. After every event the real connection type, transit/reject membership, closed
// flag and queue length of every peer at every node are compared with the spec's prediction; at the
// end of a behaviour one real discover round per node is compared with the spec's discover decisions.

import (
	"encoding/json"
	"fmt"
	"math/rand"
	"sort"
	"testing"

	"github.com/icon-project/goloop/network"

	"verifharness/tlaio"
)

type tick struct {
	Req   [][]string `json:"req"`
	Close []string   `json:"close"`
}

type nodeSt struct {
	Ct     map[string]string `json:"ct"`
	Trans  []string          `json:"trans"`
	Rej    []string          `json:"rej"`
	Closed []string          `json:"closed"`
	Q      map[string]int    `json:"q"`
	Tick   tick              `json:"tick"`
	Np     int               `json:"np"`
	Nu     int               `json:"nu"`
}

type step struct {
	Op   string              `json:"op"`
	Role map[string][]string `json:"role"`
	Lim  map[string]int      `json:"lim"`
	A    string              `json:"a"`
	B    string              `json:"b"`
	T    string              `json:"t"`
	C    string              `json:"c"`
	V    string              `json:"v"`
	St   map[string]nodeSt   `json:"st"`
}

type verdict struct {
	key, what string
	violation bool
}

var typeCode = map[string]byte{"none": 0, "parent": 1, "children": 2, "uncle": 3, "nephew": 4, "friend": 5, "other": 6, "bad": 9}
var typeName = []string{"none", "parent", "children", "uncle", "nephew", "friend", "other"}
var names = []string{"n1", "n2", "n3", "n4"}

func roleCode(r []string) byte {
	var c byte
	for _, x := range r {
		if x == "seed" {
			c |= network.VerifRoleSeed
		} else if x == "root" {
			c |= network.VerifRoleRoot
		}
	}
	return c
}

func has(l []string, x string) bool {
	for _, y := range l {
		if y == x {
			return true
		}
	}
	return false
}

func compare(t *network.VerifTopo, idx map[string]int, st map[string]nodeSt, where string) *verdict {
	for an, ns := range st {
		a := idx[an]
		for bn, want := range ns.Ct {
			b := idx[bn]
			g := t.State(a, b)
			closed := has(ns.Closed, bn)
			if g.Closed != closed {
				return &verdict{"topology:closed", fmt.Sprintf("%s: at %s peer %s closed=%v, spec says %v", where, an, bn, g.Closed, closed), false}
			}
			if closed {
				continue
			}
			if int(g.ConnType) >= len(typeName) {
				return &verdict{"topology:invalid-type", fmt.Sprintf("%s: at %s peer %s has invalid connection type %d", where, an, bn, g.ConnType), true}
			}
			if !t.InSet(a, b) {
				return &verdict{"topology:not-in-set", fmt.Sprintf("%s: at %s peer %s has type %s but is not in that set", where, an, bn, typeName[g.ConnType]), true}
			}
			if typeName[g.ConnType] != want {
				return &verdict{"topology:type", fmt.Sprintf("%s: at %s peer %s has type %s, spec says %s", where, an, bn, typeName[g.ConnType], want), false}
			}
			if g.Transiting != has(ns.Trans, bn) || g.Rejected != has(ns.Rej, bn) {
				return &verdict{"topology:transit", fmt.Sprintf("%s: at %s peer %s transiting=%v rejected=%v, spec says %v/%v", where, an, bn, g.Transiting, g.Rejected, has(ns.Trans, bn), has(ns.Rej, bn)), false}
			}
			if g.Queued != ns.Q[bn] {
				return &verdict{"topology:queue", fmt.Sprintf("%s: %d packets queued %s->%s, spec says %d", where, g.Queued, an, bn, ns.Q[bn]), false}
			}
		}
	}
	return nil
}

func runBehaviour(steps []step, rnd *rand.Rand) *verdict {
	cfg := steps[0]
	n := len(cfg.Role)
	idx := map[string]int{}
	ids := make([][]byte, n)
	roles := make([]byte, n)
	dials := make([][]bool, n)
	for i := 0; i < n; i++ {
		idx[names[i]] = i
		ids[i] = make([]byte, 20)
		rnd.Read(ids[i])
		roles[i] = roleCode(cfg.Role[names[i]])
		dials[i] = make([]bool, n)
		for j := 0; j < i; j++ {
			dials[i][j] = true // the later node dialled the earlier one (MCDials)
		}
	}
	lim := [5]int{cfg.Lim["parent"], cfg.Lim["uncle"], cfg.Lim["children"], cfg.Lim["nephew"], cfg.Lim["other"]}
	t := network.VerifNewTopo(ids, roles, dials, lim)
	limOf := map[byte]int{1: lim[0], 3: lim[1], 2: lim[2], 4: lim[3], 6: lim[4]}
	for i, s := range steps[1:] {
		a, b := idx[s.A], idx[s.B]
		where := fmt.Sprintf("step %d (%s %s %s %s %s)", i, s.Op, s.A, s.B, s.T, s.C)
		switch s.Op {
		case "request":
			ok := t.TryTransit(a, b, typeCode[s.T])
			if ok != (s.V == "sent") {
				return &verdict{"topology:request", fmt.Sprintf("%s: tryTransitPeerConnection returned %v, spec says %s", where, ok, s.V), false}
			}
		case "deliver", "deliver-req", "deliver-resp":
			sub, rt, ct, dropped, err := t.Deliver(a, b)
			if err != nil {
				return &verdict{"topology:deliver", where + ": " + err.Error(), false}
			}
			isReq := sub == 0x0900
			wantRt := typeCode[s.T]
			if rt != wantRt || (!isReq && int(ct) < len(typeName) && typeName[ct] != s.C) || (isReq != (s.Op == "deliver-req") && !dropped) {
				return &verdict{"topology:packet", fmt.Sprintf("%s: the packet is sub=%#x req=%d ct=%d", where, sub, rt, ct), false}
			}
			if dropped != (s.V == "dropped:closed") {
				return &verdict{"topology:deliver", fmt.Sprintf("%s: dropped=%v, spec says %s", where, dropped, s.V), false}
			}
		case "inject":
			if err := t.InjectResponse(a, b, typeCode[s.T], typeCode[s.C]); err != nil {
				return &verdict{"topology:inject", where + ": " + err.Error(), false}
			}
		case "role":
			t.SetRole(a, roleCode(map[string][]string{"none": {}, "seed": {"seed"}, "root": {"root"}, "seedroot": {"seed", "root"}}[s.V]))
		case "learn":
			t.Learn(a, b)
		case "close":
			t.Close(a, b)
		}
		// the limits are never exceeded, whatever the spec says
		for an := range s.St {
			for ct, l := range limOf {
				if c := t.Count(idx[an], ct); c > l {
					return &verdict{"topology:limit-exceeded", fmt.Sprintf("%s: node %s has %d peers of type %s, limit %d", where, an, c, typeName[ct], l), true}
				}
			}
		}
		if v := compare(t, idx, s.St, where); v != nil {
			return v
		}
	}
	// one real discover round per node against the spec's discover decisions for the final state
	last := steps[len(steps)-1].St
	if len(steps) < 2 {
		return nil
	}
	for an, ns := range last {
		a := idx[an]
		before := map[string]network.VerifTopoState{}
		for bn := range ns.Ct {
			before[bn] = t.State(a, idx[bn])
		}
		t.DiscoverTick(a)
		var gotReq, gotClose []string
		for bn := range ns.Ct {
			b := idx[bn]
			g := t.State(a, b)
			if g.Closed && !before[bn].Closed {
				gotClose = append(gotClose, bn)
				continue
			}
			for _, e := range t.QueuedTypes(a, b)[before[bn].Queued:] {
				if e[0] == 0x0900 && int(e[1]) < len(typeName) {
					gotReq = append(gotReq, bn+":"+typeName[e[1]])
				}
			}
		}
		var wantClose []string
		wantClose = append(wantClose, ns.Tick.Close...)
		sort.Strings(gotClose)
		sort.Strings(wantClose)
		if fmt.Sprint(gotClose) != fmt.Sprint(wantClose) {
			return &verdict{"topology:discover-close", fmt.Sprintf("discover round at %s closes %v, spec says %v", an, gotClose, wantClose), false}
		}
		if len(wantClose) > 0 {
			continue // closing frees slots: the requests of this round are not predicted
		}
		allowed := map[string]bool{}
		nAllowed := map[string]int{}
		for _, r := range ns.Tick.Req {
			allowed[r[0]+":"+r[1]] = true
			nAllowed[r[1]]++
		}
		nGot := map[string]int{}
		for _, r := range gotReq {
			if !allowed[r] {
				return &verdict{"topology:discover-request", fmt.Sprintf("discover round at %s sends %s, spec allows %v", an, r, ns.Tick.Req), false}
			}
			nGot[r[len(r)-len(typeOf(r)):]]++
		}
		min := func(x, y int) int {
			if x < y {
				return x
			}
			return y
		}
		want := map[string]int{"friend": nAllowed["friend"], "none": nAllowed["none"],
			"parent": min(nAllowed["parent"], lim[0]-ns.Np), "uncle": min(nAllowed["uncle"], lim[1]-ns.Nu)}
		for k, w := range want {
			if w < 0 {
				w = 0
			}
			if nGot[k] != w {
				return &verdict{"topology:discover-count", fmt.Sprintf("discover round at %s sends %d %s requests %v, spec says %d of %v", an, nGot[k], k, gotReq, w, ns.Tick.Req), false}
			}
		}
	}
	return nil
}

func typeOf(r string) string {
	for i := len(r) - 1; i >= 0; i-- {
		if r[i] == ':' {
			return r[i+1:]
		}
	}
	return r
}

func TestReplay(t *testing.T) {
	if !tlaio.HaveInput() {
		t.Skip("driven by tools/check.py")
	}
	out := tlaio.OpenOut()
	rnd := tlaio.Rand()
	err := tlaio.ReadInput(func(i int, raw json.RawMessage) error {
		var steps []step
		sub := rnd.Int63()
		if err := json.Unmarshal(raw, &steps); err != nil {
			var rp struct {
				Behaviour []step `json:"behaviour"`
				Sub       int64  `json:"sub"`
			}
			if err2 := json.Unmarshal(raw, &rp); err2 != nil || rp.Behaviour == nil {
				return err
			}
			steps, sub = rp.Behaviour, rp.Sub
		}
		if !tlaio.Mine(i) {
			return nil
		}
		sig, nontrivial := "", false
		for _, s := range steps {
			if s.Op == "cfg" {
				sig += fmt.Sprint(s.Role) + "|"
				continue
			}
			sig += fmt.Sprintf("%s.%s.%s.%s.%s;", s.Op[:2], s.A, s.B, s.T, s.C)
			if s.Op == "deliver-resp" || s.Op == "deliver-req" {
				nontrivial = true
			}
		}
		id := fmt.Sprintf("b%d", i)
		v := runBehaviour(steps, rand.New(rand.NewSource(sub)))
		// keep replay files small: events without the predicted states
		type ev struct{ Op, A, B, T, C, V string }
		var evs []ev
		for _, s := range steps {
			evs = append(evs, ev{s.Op, s.A, s.B, s.T, s.C, s.V})
		}
		detail := map[string]interface{}{"behaviour": steps, "events": evs, "sub": sub}
		if v == nil {
			out.OK(id, nontrivial, sig)
		} else if v.violation {
			out.Violation(id, "net-"+v.key, v.what, detail)
		} else {
			out.Divergence(id, v.key+": "+v.what, detail)
		}
		return nil
	})
	if err != nil {
		t.Fatal(err)
	}
	out.Close(nil)
}
