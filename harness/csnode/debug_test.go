package csnode

import (
	"encoding/json"
	"fmt"
	"math/rand"
	"os"
	"testing"
)

func TestDebugCluster(t *testing.T) {
	p := os.Getenv("VERIF_DEBUG_IN")
	if p == "" {
		t.Skip()
	}
	bs, _ := os.ReadFile(p)
	var sc clSchedule
	if err := json.Unmarshal(bs, &sc); err != nil {
		t.Fatal(err)
	}
	cl, problem := runCluster(sc, rand.New(rand.NewSource(1)))
	for _, e := range cl.Rec.Events() {
		delete(e, "_raw")
		delete(e, "_pi")
		fmt.Println("EV", e)
	}
	fmt.Println("PROBLEM", problem)
	cl.Close()
}
