package csnode

import (
	"encoding/json"
	"fmt"
	"math/rand"
	"strings"
	"testing"
	"time"

	"github.com/icon-project/goloop/consensus"

	"verifharness/tlaio"
)

type envStep struct {
	Op   string          `json:"op"`
	R    int32           `json:"r"`
	From json.RawMessage `json:"from"`
	Val  string          `json:"val"`
	Pol  int32           `json:"pol"`
	Type string          `json:"type"`
	Mode string          `json:"mode"`
	K    int             `json:"k"`
}

type envBehaviour struct {
	Me    int       `json:"me"`
	Byz   int       `json:"byz"`
	Steps []envStep `json:"steps"`
	// ReplaceVal >= 0: a transaction of the first block replaces that validator by a fresh key (in force from height 3);
	// the former validator is addressed as validator 9 afterwards
	ReplaceVal *int `json:"replaceval,omitempty"`
	// TmoMs > 0: propose timeout of the engine for this schedule (multi-height schedules must deliver the proposal of
	// the next height before the engine gives up waiting for it, also on a loaded machine)
	TmoMs int `json:"tmo_ms,omitempty"`
}

const tmoPropose = 600 * time.Millisecond

func vtOf(s string) consensus.VoteType {
	if s == "pv" {
		return consensus.VoteTypePrevote
	}
	return consensus.VoteTypePrecommit
}

// latest non-nil value the engine itself voted for or proposed
func hasHeightOp(steps []envStep) bool {
	for _, s := range steps {
		if s.Op == "height" {
			return true
		}
	}
	return false
}

func ownValue(cl *Cluster, node string) *Block {
	evs := cl.Rec.Events()
	for i := len(evs) - 1; i >= 0; i-- {
		e := evs[i]
		if e["ev"] == "send" && e["node"] == node && e["kind"] == "vote" && fmt.Sprint(e["h"]) == fmt.Sprint(cl.Height) {
			if v, _ := e["val"].(string); strings.HasPrefix(v, "X") {
				return cl.Names.Lookup(v)
			}
		}
	}
	return nil
}

func finalized(cl *Cluster) bool {
	for _, e := range cl.Rec.Events() {
		if e["ev"] == "finalize" {
			return true
		}
	}
	return false
}

// runEnv executes one environment schedule against one real engine and returns the recorded events.
func runEnv(b envBehaviour, rnd *rand.Rand) ([]Event, string) {
	tmo := tmoPropose
	if b.TmoMs > 0 {
		tmo = time.Duration(b.TmoMs) * time.Millisecond
	}
	cl := NewCluster(4, []int{b.Me}, tmo)
	defer cl.Close()
	blocks := map[string]*Block{}
	for i := 0; i < 4; i++ {
		if i != b.Me {
			blocks[fmt.Sprintf("B%d", i)] = cl.Fabricate(i, fmt.Sprintf("B%d", i))
		}
	}
	e := cl.Engines[b.Me]
	if b.ReplaceVal != nil {
		if err := cl.ReplaceValidator(*b.ReplaceVal); err != nil {
			return cl.Rec.Events(), "replace validator: " + err.Error()
		}
		// blocks fabricated before the transaction was in the pools do not carry it: fabricate again
		for i := 0; i < 4; i++ {
			if i != b.Me {
				blocks[fmt.Sprintf("B%d", i)] = cl.Fabricate(i, fmt.Sprintf("B%d", i))
			}
		}
	}
	cl.Rec.Add(Event{"ev": "init", "node": e.name, "me": b.Me, "h": 1})
	// a power loss may hit the very first actions of the engine (a proposer proposes from Start): a schedule that
	// begins with a crash operation arms it BEFORE the engine starts
	startArm, startMode := -1, ""
	if len(b.Steps) > 0 && b.Steps[0].Op == "crash" && b.Steps[0].K < 1000 {
		startArm, startMode = b.Steps[0].K, b.Steps[0].Mode
		if startMode == "graceful" {
			startMode = "torn"
		}
		b.Steps = b.Steps[1:]
	}
	if err := e.StartArmed(startArm); err != nil {
		return cl.Rec.Events(), "start: " + err.Error()
	}
	cl.Rec.Quiesce(30*time.Millisecond, 600*time.Millisecond)
	pick := func(n int) int {
		if n <= 0 {
			return 0
		}
		return rnd.Intn(n)
	}
	pendingMode := ""
	if startArm >= 0 {
		// give the start-up actions (propose callback, own prevote) time to run into the armed power loss
		dl := time.Now().Add(1500 * time.Millisecond)
		for time.Now().Before(dl) && !e.PowerLost() {
			time.Sleep(10 * time.Millisecond)
		}
		if err := e.Restart(startMode, pick); err != nil {
			return cl.Rec.Events(), "restart: " + err.Error()
		}
		cl.Rec.Quiesce(30*time.Millisecond, 600*time.Millisecond)
	}
	others := []int{}
	for i := 0; i < 4; i++ {
		if i != b.Me {
			others = append(others, i)
		}
	}
	finalizedAt := func(h int64) (bool, int32) {
		for _, ev := range cl.Rec.Events() {
			if ev["ev"] == "finalize" && fmt.Sprint(ev["h"]) == fmt.Sprint(h) {
				return true, 0
			}
		}
		return false, 0
	}
	resolve := func(name string) *Block {
		if name == "own" {
			return ownValue(cl, e.name)
		}
		return blocks[name]
	}
	type redo struct {
		h int64
		f func()
	}
	var delivered []redo
	for _, s := range b.Steps {
		switch s.Op {
		case "height":
			// the schedule continues at the next height: needs the engine to have finalized the current one
			dl := time.Now().Add(3 * time.Second)
			for time.Now().Before(dl) {
				if ok, _ := finalizedAt(cl.Height); ok {
					break
				}
				time.Sleep(10 * time.Millisecond)
			}
			if ok, _ := finalizedAt(cl.Height); !ok {
				return cl.Rec.Events(), ""
			}
			if err := cl.NextHeight(e, others, int32(s.R)); err != nil {
				return cl.Rec.Events(), "next height: " + err.Error()
			}
			for _, i := range others {
				blocks[fmt.Sprintf("B%d", i)] = cl.Fabricate(i, fmt.Sprintf("H%dB%d", cl.Height, i))
			}
			cl.Rec.Add(Event{"ev": "init", "node": e.name, "me": b.Me, "h": cl.Height})
			// the engine enters the new height after its commit timeout
			dl = time.Now().Add(4 * time.Second)
			for time.Now().Before(dl) && e.Status().Height != cl.Height {
				time.Sleep(10 * time.Millisecond)
			}
			continue
		case "proposal":
			var from int
			_ = json.Unmarshal(s.From, &from)
			blk := resolve(s.Val)
			if blk == nil {
				continue
			}
			s, h := s, cl.Height
			deliver := func() {
				cl.RecvEvent(e, from, "proposal", Event{"r": s.R, "val": blk.Name, "pol": s.Pol, "h": h})
				_ = e.Inject(from, consensus.ProtoProposal, cl.ProposalBytes(from, blk, s.R, s.Pol))
				if blk.PartMsg != nil {
					for _, pm := range blk.PartMsg(s.R) {
						_ = e.Inject(from, consensus.ProtoBlockPart, pm)
					}
				}
			}
			deliver()
			delivered = append(delivered, redo{h, deliver})
		case "votes":
			var from []int
			_ = json.Unmarshal(s.From, &from)
			var blk *Block
			if s.Val != "nil" {
				if blk = resolve(s.Val); blk == nil {
					continue
				}
			}
			for _, f := range from {
				name := "nil"
				if blk != nil {
					name = blk.Name
				}
				s, f, h := s, f, cl.Height
				bs := cl.VoteBytes(f, vtOf(s.Type), s.R, blk, 1000+int64(s.R))
				_, member := cl.signer(f)
				deliver := func() {
					ev := Event{"type": s.Type, "r": s.R, "val": name, "h": h}
					if !member {
						ev["nonval"] = true // signed by a key that is not in the validator set of this height
					}
					cl.RecvEvent(e, f, "vote", ev)
					_ = e.InjectFrom(cl.peerOf(f), consensus.ProtoVote, bs)
				}
				deliver()
				delivered = append(delivered, redo{h, deliver})
			}
		case "holdimport":
			e.HoldImports()
			continue
		case "releaseimport":
			e.ReleaseImports()
		case "redeliver":
			// the peers gossip again what they sent at this height (an engine that lost its memory in a restart is
			// stimulated again with the same, identical messages)
			for _, d := range delivered {
				if d.h == cl.Height {
					d.f()
				}
			}
		case "block":
			// fast-sync result: the block with precommits of some of the other validators
			var from []int
			_ = json.Unmarshal(s.From, &from)
			blk := resolve(s.Val)
			if blk == nil || blk.Data == nil {
				continue
			}
			for _, f := range from {
				cl.RecvEvent(e, f, "vote", Event{"type": "pc", "r": s.R, "val": blk.Name, "h": cl.Height})
			}
			e.InjectBlock(blk, s.R, from, 1000+int64(s.R))
		case "wait":
			// until the engine does something observable or moves to another round (a timer fired)
			n0 := cl.Rec.Len()
			r0 := e.Status().Round
			dl := time.Now().Add(1800 * time.Millisecond)
			for time.Now().Before(dl) && cl.Rec.Len() == n0 && e.Status().Round == r0 {
				time.Sleep(10 * time.Millisecond)
			}
		case "crash":
			if s.K >= 1000 {
				if err := e.Restart(s.Mode, pick); err != nil {
					return cl.Rec.Events(), "restart: " + err.Error()
				}
			} else {
				if pendingMode != "" {
					if err := e.Restart(pendingMode, pick); err != nil {
						return cl.Rec.Events(), "restart: " + err.Error()
					}
				}
				e.ArmPowerLoss(s.K)
				pendingMode = s.Mode
				if pendingMode == "graceful" {
					pendingMode = "torn"
				}
				continue
			}
		}
		cl.Rec.Quiesce(30*time.Millisecond, 600*time.Millisecond)
		if pendingMode != "" && (e.PowerLost() || s.Op != "crash") {
			mode := pendingMode
			pendingMode = ""
			if err := e.Restart(mode, pick); err != nil {
				return cl.Rec.Events(), "restart: " + err.Error()
			}
			cl.Rec.Quiesce(30*time.Millisecond, 600*time.Millisecond)
		}
		if ok, _ := finalizedAt(cl.Height); ok && !hasHeightOp(b.Steps) {
			break
		}
	}
	cl.Rec.Quiesce(40*time.Millisecond, 600*time.Millisecond)
	return cl.Rec.Events(), ""
}

// TraceLines converts recorded events of one engine into the lines of Trace_CsContract: one execution per
// height (the contract is per height; WAL syncs and restarts belong to every height).
func TraceLines(id string, evs []Event, node string, names *Names) []Event {
	heights := []string{}
	for _, e := range evs {
		if e["node"] == node && e["ev"] == "init" {
			heights = append(heights, fmt.Sprint(e["h"]))
		}
	}
	var out []Event
	for _, h := range heights {
		// the engine may already act at a height before the driver records its "init" event for it (it enters the
		// next height by itself): the execution of a height starts with its init line and contains every event
		// of that height, wherever the init event was recorded
		for _, e := range evs {
			if e["node"] == node && e["ev"] == "init" && fmt.Sprint(e["h"]) == h {
				tid := id
				if h != "1" {
					tid = id + ".h" + h
				}
				out = append(out, Event{"ev": "init", "t": tid, "me": e["me"], "h": e["h"], "seq": e["seq"]})
				break
			}
		}
		for _, e := range evs {
			if e["node"] != node || e["ev"] == "init" {
				continue
			}
			if eh, ok := e["h"]; ok && fmt.Sprint(eh) != h {
				continue
			}
			switch e["ev"] {
			case "recv":
				if e["kind"] == "vote" && e["nonval"] != true {
					out = append(out, Event{"ev": "recv", "seq": e["seq"], "from": e["from"], "type": e["type"], "r": e["r"], "val": e["val"]})
				}
			case "send":
				if e["kind"] == "vote" {
					out = append(out, Event{"ev": "sign", "seq": e["seq"], "type": e["type"], "r": e["r"], "val": e["val"], "mid": e["mid"], "ts": e["ts"]})
				} else if e["kind"] == "proposal" {
					out = append(out, Event{"ev": "signprop", "seq": e["seq"], "r": e["r"], "val": e["val"], "pol": e["pol"], "mid": e["mid"]})
				}
			case "walwrite":
				if e["wal"] == "round" && e["kind"] == "vote" {
					// own vote signed and logged (it counts in the engine's vote sets from here on, also after a restart)
					out = append(out, Event{"ev": "walvote", "seq": e["seq"], "mid": e["mid"], "type": e["type"], "r": e["r"], "val": e["val"]})
				} else if e["wal"] == "round" && e["kind"] == "proposal" {
					out = append(out, Event{"ev": "walwrite", "seq": e["seq"], "mid": e["mid"]})
				}
			case "walsync":
				if e["wal"] == "round" {
					out = append(out, Event{"ev": "walsync", "seq": e["seq"]})
				}
			case "restart":
				out = append(out, Event{"ev": "restart", "seq": e["seq"]})
			case "finalize":
				out = append(out, Event{"ev": "finalize", "seq": e["seq"], "val": e["val"]})
			}
		}
	}
	return out
}

func summarize(evs []Event) (sig string, nontrivial bool) {
	var b strings.Builder
	for _, e := range evs {
		switch e["ev"] {
		case "send":
			if e["kind"] == "vote" {
				fmt.Fprintf(&b, "%v%v:%v,", e["type"], e["r"], e["val"])
				if e["val"] != "nil" {
					nontrivial = true
				}
			} else if e["kind"] == "proposal" {
				fmt.Fprintf(&b, "prop%v,", e["r"])
			}
		case "restart":
			b.WriteString("R,")
			nontrivial = true
		case "finalize":
			b.WriteString("F,")
			nontrivial = true
		}
	}
	return b.String(), nontrivial
}

func TestNode(t *testing.T) {
	if !tlaio.HaveInput() {
		t.Skip("driven by tools/check.py")
	}
	out := tlaio.OpenOut()
	seed := tlaio.Seed()
	err := tlaio.ReadInput(func(idx int, raw json.RawMessage) error {
		if !tlaio.Mine(idx) {
			return nil
		}
		var b envBehaviour
		if err := json.Unmarshal(raw, &b); err != nil {
			return err
		}
		id := fmt.Sprintf("n%d", idx)
		rnd := rand.New(rand.NewSource(seed*7919 + int64(idx)))
		evs, problem := runEnv(b, rnd)
		lines := TraceLines(id, evs, fmt.Sprintf("v%d", b.Me), nil)
		sig, nt := summarize(evs)
		rec := tlaio.Record{Case: id, Status: "ok", Nontrivial: nt, Sig: fmt.Sprintf("me%d:%s", b.Me, sig),
			Detail: map[string]interface{}{"trace": lines, "behaviour": b, "events": len(evs)}}
		if problem != "" {
			rec.Status = "skip"
			rec.What = problem
		}
		out.Emit(rec)
		return nil
	})
	if err != nil {
		t.Fatal(err)
	}
	out.Close(nil)
}
