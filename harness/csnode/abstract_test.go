package csnode

// Interpreter of CsAbstract behaviours (spec/consensus/Gen_CsAbstract.tla) for SEVERAL real engines: two of the
// three correct validators of the abstract behaviour run the real engine, the third correct validator and the
// Byzantine one are fabricated. The interpreter walks the behaviour phase by phase, waits for what the real
// engines do, relays their real messages to each other and delivers the fabricated ones, withholding exactly the
// votes the abstract behaviour says a validator has not learned of yet (DESIGN.md Appendix D.5). Verdicts:
// Agreement over the real BlockManager.Finalize calls and CsContract on every engine's recorded trace. A real
// engine that reacts differently from its abstract counterpart is not an error (the schedule is best effort).

import (
	"encoding/json"
	"fmt"
	"math/rand"
	"testing"
	"time"

	"github.com/icon-project/goloop/consensus"
	"github.com/icon-project/goloop/module"

	"verifharness/tlaio"
)

type absStep struct {
	A        string            `json:"a"`
	R        int32             `json:"r"`
	Proposer string            `json:"proposer"`
	Prop     string            `json:"prop"`
	F        map[string]string `json:"f"`
	G        map[string]string `json:"g"`
	Polka    string            `json:"polka"`
	Pcq      string            `json:"pcq"`
	I        string            `json:"i"`
	Val      string            `json:"val"`
}

type absCase struct {
	Steps []absStep      `json:"steps"`
	Real  []string       `json:"real"` // abstract names of the validators that run the real engine
	Idx   map[string]int `json:"idx"`  // abstract name -> validator index
}

type heldVote struct {
	from string
	val  string // abstract value or "nil"
}

type absRun struct {
	cl      *Cluster
	c       absCase
	rnd     *rand.Rand
	names   map[string]*Block // abstract value -> block
	polkas  map[int32]string
	heldPV  map[string]map[int32][]heldVote
	heldPC  map[string]map[int32][]heldVote
	shownPC map[string]map[int32]int
	prop    map[int32]absStep
}

func (a *absRun) isReal(n string) bool {
	for _, r := range a.c.Real {
		if r == n {
			return true
		}
	}
	return false
}

func (a *absRun) eng(n string) *Engine { return a.cl.Engines[a.c.Idx[n]] }

// sendOf returns the recorded send event of a real engine (vote of a type and round, or proposal of a round).
func (a *absRun) sendOf(n string, pred func(Event) bool, wait time.Duration) Event {
	return a.cl.await(a.eng(n).name, wait, pred)
}

func (a *absRun) relay(src, dst string, e Event) {
	if e == nil {
		return
	}
	pi := e["_pi"].(module.ProtocolInfo)
	raw := e["_raw"].([]byte)
	d := a.eng(dst)
	if e["kind"] == "vote" {
		a.cl.RecvEvent(d, a.c.Idx[src], "vote", Event{"type": e["type"], "r": e["r"], "val": e["val"], "h": e["h"]})
	}
	_ = d.Inject(a.c.Idx[src], pi, raw)
}

// relayProposal hands the proposal of round r, its block parts and the proposer's POL vote list to dst.
func (a *absRun) relayProposal(src, dst string, r int32) {
	s := a.eng(src)
	d := a.eng(dst)
	for _, e := range a.cl.Rec.Events() {
		if e["node"] != s.name || e["ev"] != "send" {
			continue
		}
		if !(isProposal(r)(e) || e["kind"] == "blockpart" || (e["kind"] == "votelist" && e["type"] == "pv")) {
			continue
		}
		pi := e["_pi"].(module.ProtocolInfo)
		raw := e["_raw"].([]byte)
		if e["kind"] == "votelist" {
			if msg, err := consensus.UnmarshalMessage(pi.Uint16(), raw); err == nil {
				vl := msg.(*consensus.VoteListMessage).VoteList
				for i := 0; i < vl.Len(); i++ {
					v := vl.Get(i)
					a.cl.RecvEvent(d, a.cl.indexOfSigner(v), "vote", Event{"type": voteTypeName(v.Type), "r": v.Round,
						"val": a.cl.Names.OfVote(v.BlockID, v.BlockPartSetIDAndNTSVoteCount), "h": v.Height})
				}
			}
		}
		_ = d.Inject(a.c.Idx[src], pi, raw)
	}
}

func (a *absRun) block(v string) *Block {
	if v == "nil" || v == "none" || v == "any" {
		return nil
	}
	return a.names[v]
}

// deliver a fabricated vote of validator `from` to the real engine dst
func (a *absRun) fabVote(dst, from string, t consensus.VoteType, r int32, v string) {
	var blk *Block
	name := "nil"
	if v != "nil" {
		if blk = a.block(v); blk == nil {
			return
		}
		name = blk.Name
	}
	d := a.eng(dst)
	a.cl.RecvEvent(d, a.c.Idx[from], "vote", Event{"type": voteTypeName(t), "r": r, "val": name, "h": 1})
	_ = d.Inject(a.c.Idx[from], consensus.ProtoVote, a.cl.VoteBytes(a.c.Idx[from], t, r, blk, 1000+int64(r)))
}

// deliverVote gives dst the vote of `from` for (type, round): the real message if `from` runs a real engine and has
// sent one, a fabricated one otherwise.
func (a *absRun) deliverVote(dst string, hv heldVote, t consensus.VoteType, r int32) {
	if hv.from == dst {
		return
	}
	if a.isReal(hv.from) {
		a.relay(hv.from, dst, a.sendOf(hv.from, isVote(voteTypeName(t), r), 10*time.Millisecond))
		return
	}
	a.fabVote(dst, hv.from, t, r, hv.val)
}

func others(all map[string]int, me string) []string {
	var res []string
	for _, n := range []string{"a", "b", "c", "byz"} {
		if _, ok := all[n]; ok && n != me {
			res = append(res, n)
		}
	}
	return res
}

func (a *absRun) run() string {
	cl := a.cl
	for _, n := range a.c.Real {
		cl.Rec.Add(Event{"ev": "init", "node": a.eng(n).name, "me": a.c.Idx[n], "h": 1})
		if err := a.eng(n).Start(); err != nil {
			return "start: " + err.Error()
		}
	}
	nextG := map[int32]map[string]string{}
	for _, st := range a.c.Steps {
		if st.A == "precommit" {
			nextG[st.R] = st.G
		}
	}
	const long = 3500 * time.Millisecond
	for _, st := range a.c.Steps {
		switch st.A {
		case "propose":
			a.prop[st.R] = st
		case "prevote":
			r := st.R
			p := a.prop[r].Proposer
			a.polkas[r] = st.Polka
			// ---- proposal
			if a.isReal(p) {
				if e := a.sendOf(p, isProposal(r), long); e != nil {
					cl.Rec.Quiesce(30*time.Millisecond, time.Second)
					pv := a.prop[r].Prop
					if v, _ := e["val"].(string); pv != "none" && pv != "any" && a.names[pv] == nil {
						dl := time.Now().Add(long)
						for time.Now().Before(dl) && cl.Names.Lookup(cl.Names.resolvePS(v)) == nil {
							time.Sleep(10 * time.Millisecond)
						}
						if b := cl.Names.Lookup(cl.Names.resolvePS(v)); b != nil {
							a.names[pv] = b
						}
					}
					for _, n := range a.c.Real {
						if n != p && st.F[n] != "none" && st.F[n] != "nil" {
							a.relayProposal(p, n, r)
						}
					}
				}
			} else {
				for _, n := range a.c.Real {
					v := st.F[n]
					if v == "none" || v == "nil" {
						continue
					}
					if a.names[v] == nil {
						a.names[v] = cl.Fabricate(a.c.Idx[p], fmt.Sprintf("B%d", a.c.Idx[p]))
					}
					blk := a.names[v]
					pol := int32(-1)
					for q, pv := range a.polkas {
						if q < r && pv == v && q > pol {
							pol = q
						}
					}
					d := a.eng(n)
					cl.RecvEvent(d, a.c.Idx[p], "proposal", Event{"r": r, "val": blk.Name, "pol": pol, "h": 1})
					_ = d.Inject(a.c.Idx[p], consensus.ProtoProposal, cl.ProposalBytes(a.c.Idx[p], blk, r, pol))
					if blk.PartMsg != nil {
						for _, pm := range blk.PartMsg(r) {
							_ = d.Inject(a.c.Idx[p], consensus.ProtoBlockPart, pm)
						}
					}
				}
			}
			// ---- every real engine that takes part prevotes (possibly only after its propose timeout)
			for _, n := range a.c.Real {
				if st.F[n] != "none" {
					a.sendOf(n, isVote("pv", r), long)
				}
			}
			// ---- what each real engine is shown
			for _, n := range a.c.Real {
				var pairs []heldVote
				for _, j := range others(a.c.Idx, n) {
					v := st.F[j]
					if j == "byz" {
						v = st.Polka
						if v == "none" {
							v = "nil"
						}
					}
					if v == "none" || v == "" {
						continue
					}
					pairs = append(pairs, heldVote{j, v})
				}
				g := nextG[r][n]
				switch {
				case g == "lock" || g == "nilpolka" || g == "locknosend" || g == "sendnolock":
					if g == "locknosend" {
						a.eng(n).ArmPowerLoss(4)
					}
					for _, hv := range pairs {
						a.deliverVote(n, hv, consensus.VoteTypePrevote, r)
					}
					if g == "locknosend" {
						cl.Rec.Quiesce(30*time.Millisecond, 600*time.Millisecond)
						_ = a.eng(n).Restart([]string{"all", "torn", "synced"}[a.rnd.Intn(3)], func(k int) int {
							if k <= 0 {
								return 0
							}
							return a.rnd.Intn(k)
						})
					}
				case len(pairs) > 0:
					// "timeout", and also "abstain": a real engine cannot sit out a round; the closest real behaviour is
					// that it sees +2/3 prevotes without a decision, times out and precommits nil (which the abstract
					// model allows wherever it allows abstaining)
					a.deliverVote(n, pairs[0], consensus.VoteTypePrevote, r)
					if pairs[0].from != "byz" {
						a.fabVote(n, "byz", consensus.VoteTypePrevote, r, "nil")
					} else if len(pairs) > 1 {
						a.deliverVote(n, pairs[1], consensus.VoteTypePrevote, r)
					}
					a.heldPV[n][r] = pairs[1:]
				default:
					a.heldPV[n][r] = pairs
				}
			}
		case "precommit":
			r := st.R
			for _, n := range a.c.Real {
				if g := st.G[n]; g != "locknosend" {
					a.sendOf(n, isVote("pc", r), long)
				}
			}
			for _, n := range a.c.Real {
				for _, j := range others(a.c.Idx, n) {
					v := "none"
					if a.isReal(j) {
						// what the real engine j really precommitted decides (it may differ from its abstract counterpart)
						if e := a.sendOf(j, isVote("pc", r), 10*time.Millisecond); e != nil {
							if ev, _ := e["val"].(string); ev == "nil" {
								v = "nil"
							} else {
								v = st.Polka
								if v == "none" || v == "nil" {
									v = "real"
								}
							}
						}
					} else if j == "byz" {
						v = st.Pcq
						if v == "none" {
							v = "nil"
						}
					} else {
						switch st.G[j] {
						case "lock", "sendnolock":
							v = st.Polka
						case "abstain", "locknosend":
							v = "none"
						default:
							v = "nil"
						}
					}
					if v == "none" {
						continue
					}
					if v == "nil" {
						a.deliverVote(n, heldVote{j, v}, consensus.VoteTypePrecommit, r)
						a.shownPC[n][r]++
					} else {
						a.heldPC[n][r] = append(a.heldPC[n][r], heldVote{j, v})
					}
				}
			}
		case "unlock":
			if a.isReal(st.I) {
				for _, hv := range a.heldPV[st.I][st.R] {
					a.deliverVote(st.I, hv, consensus.VoteTypePrevote, st.R)
				}
				delete(a.heldPV[st.I], st.R)
			}
		case "commit":
			if a.isReal(st.I) {
				for _, hv := range a.heldPC[st.I][st.R] {
					a.deliverVote(st.I, hv, consensus.VoteTypePrecommit, st.R)
				}
				delete(a.heldPC[st.I], st.R)
				cl.await(a.eng(st.I).name, 1500*time.Millisecond, func(e Event) bool { return e["ev"] == "finalize" })
			}
		case "crash":
			if a.isReal(st.I) {
				if err := a.eng(st.I).Restart([]string{"graceful", "all", "torn", "synced"}[a.rnd.Intn(4)], func(k int) int {
					if k <= 0 {
						return 0
					}
					return a.rnd.Intn(k)
				}); err != nil {
					return "restart: " + err.Error()
				}
			}
		case "nextround":
			r := st.R
			for _, n := range a.c.Real {
				// +2/3 precommits of any kind let the engine leave the round through its precommit timeout
				if a.shownPC[n][r] < 2 {
					a.fabVote(n, "byz", consensus.VoteTypePrecommit, r, "nil")
					a.shownPC[n][r]++
					var rest []heldVote
					for _, hv := range a.heldPC[n][r] {
						if hv.from != "byz" {
							rest = append(rest, hv)
						}
					}
					a.heldPC[n][r] = rest
				}
				if a.shownPC[n][r] < 2 && len(a.heldPC[n][r]) > 0 {
					a.deliverVote(n, a.heldPC[n][r][0], consensus.VoteTypePrecommit, r)
					a.heldPC[n][r] = a.heldPC[n][r][1:]
					a.shownPC[n][r]++
				}
			}
			// until every real engine that is still at this round moved on (or the timeout budget is used)
			dl := time.Now().Add(1500 * time.Millisecond)
			for time.Now().Before(dl) {
				moved := true
				for _, n := range a.c.Real {
					if s := a.eng(n).Status(); s.Height == 1 && s.Round <= r {
						moved = false
					}
				}
				if moved {
					break
				}
				time.Sleep(20 * time.Millisecond)
			}
		}
		cl.Rec.Quiesce(30*time.Millisecond, 600*time.Millisecond)
	}
	cl.Rec.Quiesce(50*time.Millisecond, time.Second)
	return ""
}

func TestClusterAbstract(t *testing.T) {
	if !tlaio.HaveInput() {
		t.Skip("driven by tools/check.py")
	}
	out := tlaio.OpenOut()
	seed := tlaio.Seed()
	err := tlaio.ReadInput(func(idx int, raw json.RawMessage) error {
		if !tlaio.Mine(idx) {
			return nil
		}
		var c absCase
		if err := json.Unmarshal(raw, &c); err != nil {
			return err
		}
		var real []int
		for _, n := range c.Real {
			real = append(real, c.Idx[n])
		}
		id := fmt.Sprintf("c%d", idx)
		cl := NewCluster(4, real, 1200*time.Millisecond)
		a := &absRun{cl: cl, c: c, rnd: rand.New(rand.NewSource(seed*101 + int64(idx))), names: map[string]*Block{}, polkas: map[int32]string{},
			heldPV: map[string]map[int32][]heldVote{}, heldPC: map[string]map[int32][]heldVote{}, shownPC: map[string]map[int32]int{}, prop: map[int32]absStep{}}
		for _, n := range c.Real {
			a.heldPV[n], a.heldPC[n], a.shownPC[n] = map[int32][]heldVote{}, map[int32][]heldVote{}, map[int32]int{}
		}
		problem := a.run()
		evs := cl.Rec.Events()
		cl.Close()
		var lines []Event
		fin := map[string]string{}
		sig := ""
		for _, i := range real {
			node := fmt.Sprintf("v%d", i)
			lines = append(lines, TraceLines(fmt.Sprintf("%s.%s", id, node), evs, node, nil)...)
			s, _ := summarizeNode(evs, node)
			sig += node + "[" + s + "]"
		}
		for _, e := range evs {
			if e["ev"] == "finalize" && fmt.Sprint(e["h"]) == "1" {
				fin[e["node"].(string)] = e["val"].(string)
			}
		}
		rec := tlaio.Record{Case: id, Status: "ok", Nontrivial: true, Sig: sig,
			Detail: map[string]interface{}{"trace": lines, "behaviour": c, "finalized": fin}}
		vals := map[string]bool{}
		for _, v := range fin {
			vals[v] = true
		}
		if len(vals) > 1 {
			rec.Status = "violation"
			rec.Key = "cluster:disagreement"
			rec.What = fmt.Sprintf("two correct validators (real engines) finalized different blocks at height 1: %v", fin)
		} else if problem != "" {
			rec.Status = "skip"
			rec.What = problem
		}
		out.Emit(rec)
		return nil
	})
	if err != nil {
		t.Fatal(err)
	}
	out.Close(nil)
}

func summarizeNode(evs []Event, node string) (string, bool) {
	var mine []Event
	for _, e := range evs {
		if e["node"] == node {
			mine = append(mine, e)
		}
	}
	return summarize(mine)
}
