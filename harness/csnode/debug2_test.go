package csnode

import (
	"encoding/json"
	"fmt"
	"math/rand"
	"os"
	"testing"
	"time"
)

func TestDebugNode(t *testing.T) {
	p := os.Getenv("VERIF_DEBUG_IN")
	if p == "" {
		t.Skip()
	}
	bs, _ := os.ReadFile(p)
	var b envBehaviour
	if err := json.Unmarshal(bs, &b); err != nil {
		t.Fatal(err)
	}
	evs, problem := runEnv(b, rand.New(rand.NewSource(1)))
	for _, e := range evs {
		delete(e, "_raw")
		delete(e, "_pi")
		fmt.Println("EV", e)
	}
	fmt.Println("PROBLEM", problem)
}

func TestDebugAbstract(t *testing.T) {
	p := os.Getenv("VERIF_DEBUG_IN")
	if p == "" {
		t.Skip()
	}
	bs, _ := os.ReadFile(p)
	var c absCase
	if err := json.Unmarshal(bs, &c); err != nil {
		t.Fatal(err)
	}
	var real []int
	for _, n := range c.Real {
		real = append(real, c.Idx[n])
	}
	cl := NewCluster(4, real, 1200*time.Millisecond)
	a := &absRun{cl: cl, c: c, rnd: rand.New(rand.NewSource(1)), names: map[string]*Block{}, polkas: map[int32]string{},
		heldPV: map[string]map[int32][]heldVote{}, heldPC: map[string]map[int32][]heldVote{}, shownPC: map[string]map[int32]int{}, prop: map[int32]absStep{}}
	for _, n := range c.Real {
		a.heldPV[n], a.heldPC[n], a.shownPC[n] = map[int32][]heldVote{}, map[int32][]heldVote{}, map[int32]int{}
	}
	problem := a.run()
	for _, e := range cl.Rec.Events() {
		delete(e, "_raw")
		delete(e, "_pi")
		if e["ev"] == "walwrite" || e["ev"] == "walsync" {
			continue
		}
		fmt.Println("EV", e)
	}
	fmt.Println("PROBLEM", problem)
	cl.Close()
}
