package csnode

import (
	"encoding/json"
	"fmt"
	"math/rand"
	"os"
	"testing"
)

func TestDebugNode(t *testing.T) {
	p := os.Getenv("VERIF_DEBUG_IN")
	if p == "" {
		t.Skip()
	}
	bs, _ := os.ReadFile(p)
	var b envBehaviour
	if err := json.Unmarshal(bs, &b); err != nil {
		t.Fatal(err)
	}
	evs, problem := runEnv(b, rand.New(rand.NewSource(1)))
	for _, e := range evs {
		delete(e, "_raw")
		delete(e, "_pi")
		fmt.Println("EV", e)
	}
	fmt.Println("PROBLEM", problem)
}
