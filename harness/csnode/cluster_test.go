package csnode

// Cluster schedules: several real engines in one fixture, the remaining validators fabricated.
// The schedule decides who sees which message when (relay of real messages between the engines,
// fabricated votes/proposals of the others, restarts). Verdicts: Agreement over the real
// BlockManager.Finalize calls, and CsContract on every engine's trace.

import (
	"encoding/json"
	"fmt"
	"math/rand"
	"testing"
	"time"

	"github.com/icon-project/goloop/consensus"
	"github.com/icon-project/goloop/module"

	"verifharness/tlaio"
)

type clStep struct {
	Op   string          `json:"op"`
	Node int             `json:"node"`
	To   int             `json:"to"`
	From json.RawMessage `json:"from"`
	What string          `json:"what"`
	Type string          `json:"type"`
	R    int32           `json:"r"`
	Val  string          `json:"val"`
	Pol  int32           `json:"pol"`
	Bind string          `json:"bind"`
	Mode string          `json:"mode"`
	Soft bool            `json:"soft"`
}

type clSchedule struct {
	Name  string   `json:"name"`
	Kind  string   `json:"kind"`
	Real  []int    `json:"real"`
	Steps []clStep `json:"steps"`
}

func (cl *Cluster) find(node string, pred func(e Event) bool) Event {
	for _, e := range cl.Rec.Events() {
		if e["node"] == node && pred(e) {
			return e
		}
	}
	return nil
}

func (cl *Cluster) await(node string, max time.Duration, pred func(e Event) bool) Event {
	dl := time.Now().Add(max)
	for time.Now().Before(dl) {
		if e := cl.find(node, pred); e != nil {
			return e
		}
		time.Sleep(10 * time.Millisecond)
	}
	return nil
}

func isVote(t string, r int32) func(e Event) bool {
	return func(e Event) bool {
		return e["ev"] == "send" && e["kind"] == "vote" && e["type"] == t && fmt.Sprint(e["r"]) == fmt.Sprint(r) && fmt.Sprint(e["h"]) == "1"
	}
}
func isProposal(r int32) func(e Event) bool {
	return func(e Event) bool {
		return e["ev"] == "send" && e["kind"] == "proposal" && fmt.Sprint(e["r"]) == fmt.Sprint(r) && fmt.Sprint(e["h"]) == "1"
	}
}

func runCluster(sc clSchedule, rnd *rand.Rand) (*Cluster, string) {
	cl := NewCluster(4, sc.Real, 2500*time.Millisecond)
	alias := map[string]*Block{}
	for i := 0; i < 4; i++ {
		real := false
		for _, r := range sc.Real {
			real = real || r == i
		}
		if !real {
			alias[fmt.Sprintf("B%d", i)] = cl.Fabricate(i, fmt.Sprintf("B%d", i))
		}
	}
	for _, i := range sc.Real {
		cl.Rec.Add(Event{"ev": "init", "node": cl.Engines[i].name, "me": i, "h": 1})
	}
	pick := func(n int) int {
		if n <= 0 {
			return 0
		}
		return rnd.Intn(n)
	}
	const maxWait = 5 * time.Second
	resolve := func(v string) (*Block, bool) {
		if v == "nil" {
			return nil, true
		}
		b, ok := alias[v]
		return b, ok
	}
	for k, s := range sc.Steps {
		switch s.Op {
		case "start":
			if err := cl.Engines[s.Node].Start(); err != nil {
				return cl, fmt.Sprintf("step %d: start: %v", k, err)
			}
		case "await":
			e := cl.Engines[s.Node]
			var got Event
			switch s.What {
			case "vote":
				got = cl.await(e.name, maxWait, isVote(s.Type, s.R))
			case "proposal":
				got = cl.await(e.name, maxWait, isProposal(s.R))
				if got != nil { // the block parts follow the proposal
					cl.Rec.Quiesce(30*time.Millisecond, time.Second)
				}
			case "finalize":
				got = cl.await(e.name, maxWait, func(e Event) bool { return e["ev"] == "finalize" })
			case "round":
				dl := time.Now().Add(maxWait)
				for time.Now().Before(dl) && e.Status().Round != s.R {
					time.Sleep(10 * time.Millisecond)
				}
				if e.Status().Round == s.R {
					got = Event{}
				}
			}
			if got == nil && s.Soft {
				continue
			}
			if got == nil {
				return cl, fmt.Sprintf("step %d: engine v%d did not produce %s %s r=%d (schedule not realizable as compiled)", k, s.Node, s.What, s.Type, s.R)
			}
			if s.Bind != "" {
				if v, _ := got["val"].(string); v != "" && v != "nil" {
					// a proposal may precede the first vote that names the block: wait for the name
					dl := time.Now().Add(maxWait)
					for time.Now().Before(dl) && cl.Names.Lookup(cl.Names.resolvePS(v)) == nil {
						time.Sleep(10 * time.Millisecond)
					}
					alias[s.Bind] = cl.Names.Lookup(cl.Names.resolvePS(v))
				}
			}
		case "relay":
			src, dst := cl.Engines[s.Node], cl.Engines[s.To]
			n := 0
			for _, e := range cl.Rec.Events() {
				if e["node"] != src.name || e["ev"] != "send" {
					continue
				}
				match := false
				switch s.What {
				case "vote":
					match = isVote(s.Type, s.R)(e)
				case "proposal":
					match = isProposal(s.R)(e) || e["kind"] == "blockpart" || (e["kind"] == "votelist" && e["type"] == "pv")
				}
				if !match {
					continue
				}
				pi := e["_pi"].(module.ProtocolInfo)
				raw := e["_raw"].([]byte)
				if e["kind"] == "vote" {
					cl.RecvEvent(dst, s.Node, "vote", Event{"type": e["type"], "r": e["r"], "val": e["val"], "h": e["h"]})
				} else if e["kind"] == "votelist" {
					// the POL votes of the proposer: each contained vote becomes knowledge of the receiver
					if msg, err := consensus.UnmarshalMessage(pi.Uint16(), raw); err == nil {
						vl := msg.(*consensus.VoteListMessage).VoteList
						for i := 0; i < vl.Len(); i++ {
							v := vl.Get(i)
							cl.RecvEvent(dst, cl.indexOfSigner(v), "vote", Event{"type": voteTypeName(v.Type), "r": v.Round,
								"val": cl.Names.OfVote(v.BlockID, v.BlockPartSetIDAndNTSVoteCount), "h": v.Height})
						}
					}
				}
				_ = dst.Inject(s.Node, pi, raw)
				n++
			}
			if n == 0 {
				return cl, fmt.Sprintf("step %d: nothing to relay (%s r=%d from v%d)", k, s.What, s.R, s.Node)
			}
		case "votes":
			var from []int
			_ = json.Unmarshal(s.From, &from)
			blk, ok := resolve(s.Val)
			if !ok {
				return cl, fmt.Sprintf("step %d: value %s unknown", k, s.Val)
			}
			name := "nil"
			if blk != nil {
				name = blk.Name
			}
			dst := cl.Engines[s.To]
			for _, f := range from {
				cl.RecvEvent(dst, f, "vote", Event{"type": s.Type, "r": s.R, "val": name, "h": 1})
				_ = dst.Inject(f, consensus.ProtoVote, cl.VoteBytes(f, vtOf(s.Type), s.R, blk, 1000+int64(s.R)))
			}
		case "proposal":
			var from int
			_ = json.Unmarshal(s.From, &from)
			blk, ok := resolve(s.Val)
			if !ok || blk == nil {
				return cl, fmt.Sprintf("step %d: value %s unknown", k, s.Val)
			}
			dst := cl.Engines[s.To]
			_ = dst.Inject(from, consensus.ProtoProposal, cl.ProposalBytes(from, blk, s.R, s.Pol))
			if blk.PartMsg != nil {
				for _, pm := range blk.PartMsg(s.R) {
					_ = dst.Inject(from, consensus.ProtoBlockPart, pm)
				}
			}
		case "restart":
			if err := cl.Engines[s.Node].Restart(s.Mode, pick); err != nil {
				return cl, fmt.Sprintf("step %d: restart: %v", k, err)
			}
		case "sleep":
			time.Sleep(100 * time.Millisecond)
		}
		cl.Rec.Quiesce(30*time.Millisecond, 600*time.Millisecond)
	}
	cl.Rec.Quiesce(50*time.Millisecond, time.Second)
	return cl, ""
}

func TestCluster(t *testing.T) {
	if !tlaio.HaveInput() {
		t.Skip("driven by tools/check.py")
	}
	out := tlaio.OpenOut()
	seed := tlaio.Seed()
	err := tlaio.ReadInput(func(idx int, raw json.RawMessage) error {
		if !tlaio.Mine(idx) {
			return nil
		}
		var sc clSchedule
		if err := json.Unmarshal(raw, &sc); err != nil {
			return err
		}
		id := fmt.Sprintf("c%d", idx)
		cl, problem := runCluster(sc, rand.New(rand.NewSource(seed*31+int64(idx))))
		evs := cl.Rec.Events()
		cl.Close()
		var lines []Event
		fin := map[string]string{}
		sig := ""
		for _, i := range sc.Real {
			node := fmt.Sprintf("v%d", i)
			lines = append(lines, TraceLines(fmt.Sprintf("%s.%s", id, node), evs, node, nil)...)
		}
		for _, e := range evs {
			if e["ev"] == "finalize" && fmt.Sprint(e["h"]) == "1" {
				fin[e["node"].(string)] = e["val"].(string)
				sig += fmt.Sprintf("%v:F(%v),", e["node"], e["val"])
			}
		}
		rec := tlaio.Record{Case: id, Status: "ok", Nontrivial: true, Sig: sc.Name + ":" + sig,
			Detail: map[string]interface{}{"trace": lines, "behaviour": sc, "finalized": fin}}
		vals := map[string]bool{}
		for _, v := range fin {
			vals[v] = true
		}
		if len(vals) > 1 {
			rec.Status = "violation"
			rec.Key = "cluster:disagreement"
			rec.What = fmt.Sprintf("two correct validators finalized different blocks at height 1: %v (schedule %s)", fin, sc.Name)
		} else if problem != "" {
			rec.Status = "skip"
			rec.What = problem
		}
		out.Emit(rec)
		return nil
	})
	if err != nil {
		t.Fatal(err)
	}
	out.Close(nil)
}
