package txrepr

// Replays cases of spec/data/TxRepr.tla into the real service/transaction code (C12).
// The TLA+ text is the oracle: the start record describes the submitted JSON document
// (keys, textual forms, data payload tree), every conversion step carries the predicted
// representation (object mode struct/raw, stored bytes rlp/json), the predicted id PREIMAGE
// (the ICON serialization with address placeholders) and the observables every representation
// must agree on.  This driver renders the JSON text (seeded key order / whitespace / string
// escapes), substitutes real addresses, signs with a real secp256k1 wallet, calls the real
// conversion functions and compares.  Symbolic hash: id = SHA3-256(preimage).

import (
	"bytes"
	"encoding"
	"encoding/base64"
	"encoding/hex"
	"encoding/json"
	"fmt"
	"math/big"
	"math/rand"
	"reflect"
	"strings"
	"testing"

	"github.com/icon-project/goloop/common"
	"github.com/icon-project/goloop/common/codec"
	"github.com/icon-project/goloop/common/crypto"
	"github.com/icon-project/goloop/common/db"
	"github.com/icon-project/goloop/common/wallet"
	"github.com/icon-project/goloop/module"
	"github.com/icon-project/goloop/service/transaction"

	"verifharness/tlaio"
)

// ---------------------------------------------------------------- spec records

type tree struct {
	K     string   `json:"k"`
	Cs    []string `json:"cs"`
	Txt   string   `json:"txt"`
	Int   string   `json:"int"`
	Items []tree   `json:"items"`
	Es    []struct {
		Key []string `json:"key"`
		Val tree     `json:"val"`
	} `json:"es"`
}

type entry struct {
	Key  string `json:"key"`
	Jk   string `json:"jk"`
	Text string `json:"text"`
	Tree tree   `json:"tree"`
}

type num struct {
	P  string   `json:"p"`
	D  []string `json:"d"`
	Lz bool     `json:"lz"`
	Up bool     `json:"up"`
}

type obs struct {
	From  string `json:"from"`
	To    string `json:"to"`
	Value num    `json:"value"`
	Step  num    `json:"step"`
	Ts    num    `json:"ts"`
	Nonce num    `json:"nonce"`
	Nid   num    `json:"nid"`
	Dtype string `json:"dtype"`
	Data  tree   `json:"data"`
	Spre  string `json:"spre"`
}

type rep struct {
	K    string `json:"k"`
	Doc  string `json:"doc"`
	Mode string `json:"mode"`
}

type step struct {
	Op     string                 `json:"op"`
	Rep    rep                    `json:"rep"`
	Pre    string                 `json:"pre"`
	Obs    obs                    `json:"obs"`
	Other  map[string]interface{} `json:"other"`
	What   string                 `json:"what"`
	Same   bool                   `json:"same"`
	Render []entry                `json:"render"`
	Canon  bool                   `json:"canon"`
}

// ---------------------------------------------------------------- concretization

type actors struct {
	w    module.Wallet
	subs *strings.Replacer
}

func hasLetter(b []byte) bool { return strings.ContainsAny(hex.EncodeToString(b), "abcdef") }

func newActors(rnd *rand.Rand) *actors {
	var w module.Wallet
	for {
		w = wallet.New()
		if hasLetter(w.Address().ID()) {
			break
		}
	}
	other := func() string {
		for {
			b := make([]byte, 20)
			rnd.Read(b)
			if hasLetter(b) {
				return hex.EncodeToString(b)
			}
		}
	}
	f := hex.EncodeToString(w.Address().ID())
	t, x := other(), other()
	return &actors{w: w, subs: strings.NewReplacer(
		"@UF", strings.ToUpper(f), "@UT", strings.ToUpper(t), "@UX", strings.ToUpper(x), "@F", f, "@T", t, "@X", x)}
}

func (a *actors) text(s string) string { return a.subs.Replace(s) }
func (a *actors) id(pre string) []byte { return crypto.SHA3Sum256([]byte(a.text(pre))) }

func jsonString(s string, rnd *rand.Rand) string {
	if rnd.Intn(3) == 0 { // escape every character as \uXXXX
		var b strings.Builder
		b.WriteByte('"')
		for _, r := range s {
			fmt.Fprintf(&b, "\\u%04x", r)
		}
		b.WriteByte('"')
		return b.String()
	}
	bs, _ := json.Marshal(s)
	return string(bs)
}

func renderTree(t tree, rnd *rand.Rand) string {
	switch t.K {
	case "null":
		return "null"
	case "str":
		return jsonString(strings.Join(t.Cs, ""), rnd)
	case "num":
		return t.Txt
	case "list":
		parts := make([]string, len(t.Items))
		for i, it := range t.Items {
			parts[i] = renderTree(it, rnd)
		}
		return "[" + strings.Join(parts, ",") + "]"
	case "dict":
		parts := make([]string, len(t.Es))
		for i, e := range t.Es {
			parts[i] = jsonString(strings.Join(e.Key, ""), rnd) + ":" + renderTree(e.Val, rnd)
		}
		rnd.Shuffle(len(parts), func(i, j int) { parts[i], parts[j] = parts[j], parts[i] })
		return "{" + strings.Join(parts, ",") + "}"
	}
	panic("unknown tree kind " + t.K)
}

// renderDoc produces the submitted JSON text: seeded key order, whitespace and string escapes.
func (a *actors) renderDoc(es []entry, extra map[string]string, rnd *rand.Rand) ([]byte, string) {
	var parts []string
	dataText := ""
	for _, e := range es {
		var v string
		switch e.Jk {
		case "null":
			v = "null"
		case "tree":
			v = renderTree(e.Tree, rnd)
			dataText = v
		default:
			v = jsonString(a.text(e.Text), rnd)
		}
		parts = append(parts, jsonString(e.Key, rnd)+":"+v)
	}
	for k, v := range extra {
		parts = append(parts, jsonString(k, rnd)+":"+jsonString(v, rnd))
	}
	rnd.Shuffle(len(parts), func(i, j int) { parts[i], parts[j] = parts[j], parts[i] })
	js := "{" + strings.Join(parts, ",") + "}"
	if rnd.Intn(2) == 0 {
		var b bytes.Buffer
		if err := json.Indent(&b, []byte(js), strings.Repeat(" ", rnd.Intn(3)), strings.Repeat(" ", 1+rnd.Intn(4))); err == nil {
			js = b.String()
		}
	}
	return []byte(js), dataText
}

func hexOf(n num) string { return "0x" + strings.Join(n.D, "") }

func bigOf(n num) *big.Int {
	v, ok := new(big.Int).SetString(strings.Join(n.D, ""), 16)
	if !ok {
		panic("bad digits")
	}
	return v
}

// the stored binary form a peer would send for the observable field values (field order of the v3 format)
type mirror struct {
	Version   common.HexUint16
	From      common.Address
	To        common.Address
	Value     *common.HexInt
	StepLimit common.HexInt
	TimeStamp common.HexInt64
	NID       *common.HexInt64
	Nonce     *common.HexInt
	Signature common.Signature
	DataType  *string
	Data      json.RawMessage
}

func (a *actors) mirrorBytes(o obs, dataText string, sig []byte) ([]byte, error) {
	m := &mirror{}
	m.Version.Value = 3
	if err := m.From.SetString(a.text(o.From)); err != nil {
		return nil, err
	}
	if err := m.To.SetString(a.text(o.To)); err != nil {
		return nil, err
	}
	if o.Value.P == "val" {
		m.Value = new(common.HexInt)
		m.Value.Set(bigOf(o.Value))
	}
	m.StepLimit.Set(bigOf(o.Step))
	m.TimeStamp.Value = bigOf(o.Ts).Int64()
	if o.Nid.P == "val" {
		m.NID = &common.HexInt64{Value: bigOf(o.Nid).Int64()}
	}
	if o.Nonce.P == "val" {
		m.Nonce = new(common.HexInt)
		m.Nonce.Set(bigOf(o.Nonce))
	}
	if sig != nil {
		s, err := crypto.ParseSignature(sig)
		if err != nil {
			return nil, err
		}
		m.Signature.Signature = s
	}
	if o.Dtype != "absent" {
		dt := o.Dtype
		m.DataType = &dt
	}
	if o.Data.K != "absent" {
		var b bytes.Buffer
		if err := json.Compact(&b, []byte(dataText)); err != nil {
			return nil, err
		}
		m.Data = b.Bytes()
	}
	return codec.MarshalToBytes(m)
}

// ---------------------------------------------------------------- checks

type fail struct {
	key, what string
	div       bool
}

func numEq(got interface{}, want num, name string) string {
	if want.P != "val" {
		if got != nil {
			return fmt.Sprintf("%s is %v, spec says absent", name, got)
		}
		return ""
	}
	s, ok := got.(string)
	if !ok {
		return fmt.Sprintf("%s is %v (%T), spec says %s", name, got, got, hexOf(want))
	}
	v := new(common.HexInt)
	if _, ok := v.SetString(s, 0); !ok || v.Cmp(bigOf(want)) != 0 {
		return fmt.Sprintf("%s is %s, spec says the number %s", name, s, hexOf(want))
	}
	return ""
}

func jsonEq(a, b []byte) bool {
	var x, y interface{}
	if json.Unmarshal(a, &x) != nil || json.Unmarshal(b, &y) != nil {
		return false
	}
	return reflect.DeepEqual(x, y)
}

// checkObj compares a parsed transaction object with the spec's step record
func (a *actors) checkObj(tx transaction.Transaction, s step, first []byte, dataText string) *fail {
	want := a.id(s.Pre)
	got := tx.ID()
	if !bytes.Equal(got, want) {
		return &fail{"txrepr:id:" + s.Op + ":" + s.Rep.Mode, fmt.Sprintf("after %s (%s mode) the id is %x, spec says SHA3(%q) = %x", s.Op, s.Rep.Mode, got, a.text(s.Pre), want), false}
	}
	if first != nil && !bytes.Equal(got, first) {
		return &fail{"txrepr:idchanged:" + s.Op, fmt.Sprintf("after %s the id is %x, it was %x before", s.Op, got, first), false}
	}
	o := s.Obs
	if f := tx.From().String(); f != a.text(o.From) {
		return &fail{"txrepr:from:" + s.Op, fmt.Sprintf("after %s the sender is %s, spec says %s", s.Op, f, a.text(o.From)), false}
	}
	if t := tx.To().String(); t != a.text(o.To) {
		return &fail{"txrepr:to:" + s.Op, fmt.Sprintf("after %s the recipient is %s, spec says %s", s.Op, t, a.text(o.To)), false}
	}
	if ts := tx.Timestamp(); ts != bigOf(o.Ts).Int64() {
		return &fail{"txrepr:timestamp:" + s.Op, fmt.Sprintf("after %s the timestamp is %#x, spec says %s", s.Op, ts, hexOf(o.Ts)), false}
	}
	if n := tx.Nonce(); (n == nil) != (o.Nonce.P != "val") || (n != nil && n.Cmp(bigOf(o.Nonce)) != 0) {
		return &fail{"txrepr:nonce:" + s.Op, fmt.Sprintf("after %s the nonce is %v, spec says %v", s.Op, n, o.Nonce), false}
	}
	jo, err := tx.ToJSON(module.JSONVersionLast)
	if err != nil {
		return &fail{"txrepr:tojson:" + s.Op, fmt.Sprintf("after %s ToJSON fails: %v", s.Op, err), false}
	}
	jb, err := json.Marshal(jo)
	if err != nil {
		return &fail{"txrepr:tojson:" + s.Op, fmt.Sprintf("after %s ToJSON output cannot be marshalled: %v", s.Op, err), false}
	}
	if f := a.checkJSON(jb, s, dataText); f != nil {
		return f
	}
	if err := tx.Verify(); err != nil {
		return &fail{"txrepr:verify:" + s.Op, fmt.Sprintf("after %s Verify() fails although the sender signed the id: %v", s.Op, err), false}
	}
	if raw := tx.Bytes()[0] == '{'; raw != (s.Rep.Mode == "raw") {
		return &fail{"txrepr:mode", fmt.Sprintf("after %s the object keeps raw JSON = %v, spec says mode %s", s.Op, raw, s.Rep.Mode), true}
	}
	return nil
}

// checkJSON compares a JSON document produced by the real code with the observables
func (a *actors) checkJSON(jb []byte, s step, dataText string) *fail {
	var m map[string]interface{}
	if err := json.Unmarshal(jb, &m); err != nil {
		return &fail{"txrepr:tojson:" + s.Op, fmt.Sprintf("ToJSON output is not a JSON object: %v", err), false}
	}
	o := s.Obs
	for _, c := range []struct {
		name string
		want num
	}{{"value", o.Value}, {"stepLimit", o.Step}, {"timestamp", o.Ts}, {"nonce", o.Nonce}, {"nid", o.Nid}} {
		if w := numEq(m[c.name], c.want, c.name); w != "" {
			return &fail{"txrepr:" + c.name + ":" + s.Op, fmt.Sprintf("after %s: JSON form: %s", s.Op, w), false}
		}
	}
	for _, c := range [][2]string{{"from", o.From}, {"to", o.To}} {
		var ad common.Address
		if str, ok := m[c[0]].(string); !ok || ad.SetString(str) != nil || ad.String() != a.text(c[1]) {
			return &fail{"txrepr:" + c[0] + ":" + s.Op, fmt.Sprintf("after %s: JSON form: %s is %v, spec says %s", s.Op, c[0], m[c[0]], a.text(c[1])), false}
		}
	}
	if dt, ok := m["dataType"]; ok != (o.Dtype != "absent") || (ok && dt != o.Dtype) {
		return &fail{"txrepr:dataType:" + s.Op, fmt.Sprintf("after %s: JSON form: dataType is %v, spec says %s", s.Op, dt, o.Dtype), false}
	}
	d, ok := m["data"]
	if ok != (o.Data.K != "absent") {
		return &fail{"txrepr:data:" + s.Op, fmt.Sprintf("after %s: JSON form: data present = %v, spec says %s", s.Op, ok, o.Data.K), false}
	}
	if ok {
		db, _ := json.Marshal(d)
		if !jsonEq(db, []byte(dataText)) {
			return &fail{"txrepr:data:" + s.Op, fmt.Sprintf("after %s: JSON form: data is %s, submitted was %s", s.Op, db, dataText), false}
		}
	}
	if h, ok := m["txHash"].(string); !ok || h != "0x"+hex.EncodeToString(a.id(s.Pre)) {
		return &fail{"txrepr:txhash:" + s.Op, fmt.Sprintf("after %s: JSON form: txHash is %v, spec says 0x%x", s.Op, m["txHash"], a.id(s.Pre)), false}
	}
	return nil
}

// ---------------------------------------------------------------- conversions (seeded choice of entry point)

func parseJSON(js []byte, rnd *rand.Rand) (transaction.Transaction, error) {
	if rnd.Intn(2) == 0 {
		return transaction.NewTransactionFromJSON(js)
	}
	// through the wrapper's json.Unmarshaler
	dummy, err := transaction.NewTransactionFromJSON([]byte(`{"version":"0x3","from":"hx0000000000000000000000000000000000000001","to":"hx0000000000000000000000000000000000000002","stepLimit":"0x1","timestamp":"0x1"}`))
	if err != nil {
		return nil, err
	}
	if err := json.Unmarshal(js, dummy); err != nil {
		return nil, err
	}
	return dummy, nil
}

func parseStored(bs []byte, rnd *rand.Rand) (transaction.Transaction, error) {
	switch rnd.Intn(3) {
	case 0:
		return transaction.NewTransaction(bs)
	case 1:
		dummy, err := transaction.NewTransaction(bs)
		if err != nil {
			return nil, err
		}
		if err := dummy.(encoding.BinaryUnmarshaler).UnmarshalBinary(append([]byte{}, bs...)); err != nil {
			return nil, err
		}
		return dummy, nil
	default:
		dummy, err := transaction.NewTransactionFromJSON([]byte(`{"version":"0x3","from":"hx0000000000000000000000000000000000000001","to":"hx0000000000000000000000000000000000000002","stepLimit":"0x1","timestamp":"0x1"}`))
		if err != nil {
			return nil, err
		}
		type resetter interface {
			Reset(s db.Database, k []byte) error
		}
		if err := dummy.(resetter).Reset(db.NewMapDB(), append([]byte{}, bs...)); err != nil {
			return nil, err
		}
		return dummy, nil
	}
}

func toJSON(tx transaction.Transaction, rnd *rand.Rand) ([]byte, error) {
	if rnd.Intn(2) == 0 {
		return json.Marshal(tx)
	}
	jo, err := tx.ToJSON(module.JSONVersionLast)
	if err != nil {
		return nil, err
	}
	return json.Marshal(jo)
}

// ---------------------------------------------------------------- one case

func runCase(steps []step, rnd *rand.Rand) *fail {
	if len(steps) == 0 || steps[0].Op != "start" {
		return &fail{"txrepr:driver", "case does not begin with a start record", true}
	}
	a := newActors(rnd)
	st := steps[0]
	sig, err := a.w.Sign(a.id(st.Pre))
	if err != nil {
		return &fail{"txrepr:driver", "cannot sign: " + err.Error(), true}
	}
	extra := map[string]string{"signature": base64.StdEncoding.EncodeToString(sig)}
	if h, _ := st.Other["txhash"].(bool); h {
		extra["txHash"] = "0x" + hex.EncodeToString(a.id(st.Pre))
	}
	doc, dataText := a.renderDoc(st.Render, extra, rnd)

	var curJSON, curBytes, firstID []byte
	var cur transaction.Transaction
	if st.Rep.K == "json" {
		curJSON = doc
	} else {
		if curBytes, err = a.mirrorBytes(st.Obs, dataText, sig); err != nil {
			return &fail{"txrepr:driver", "cannot build the peer's stored form: " + err.Error(), true}
		}
	}
	for i, s := range steps[1:] {
		if s.Op != "compare" {
			s.Obs = st.Obs // the observables are the same for every representation
		}
		switch s.Op {
		case "parsejson":
			if cur, err = parseJSON(curJSON, rnd); err != nil {
				return &fail{"txrepr:parsejson", fmt.Sprintf("step %d: well-formed JSON rejected: %v\n%s", i+1, err, curJSON), false}
			}
		case "parsestored":
			if cur, err = parseStored(curBytes, rnd); err != nil {
				return &fail{"txrepr:parsestored", fmt.Sprintf("step %d: stored form (%s) rejected: %v", i+1, steps[i].Rep.Mode, err), false}
			}
		case "bytes":
			if rnd.Intn(2) == 0 {
				curBytes = cur.Bytes()
			} else if curBytes, err = cur.(encoding.BinaryMarshaler).MarshalBinary(); err != nil {
				return &fail{"txrepr:bytes", fmt.Sprintf("step %d: MarshalBinary fails: %v", i+1, err), false}
			}
			if len(curBytes) == 0 {
				return &fail{"txrepr:bytes", fmt.Sprintf("step %d: Bytes() is empty", i+1), false}
			}
			if isJSON := curBytes[0] == '{'; isJSON != (s.Rep.Mode == "json") {
				return &fail{"txrepr:storedkind", fmt.Sprintf("step %d: stored form is JSON = %v, spec says %s", i+1, isJSON, s.Rep.Mode), true}
			}
			if s.Rep.Mode == "rlp" {
				if mb, err := a.mirrorBytes(s.Obs, dataText, sig); err != nil || !bytes.Equal(mb, curBytes) {
					return &fail{"txrepr:storedbytes", fmt.Sprintf("step %d: stored RLP form differs from the encoding of the field values (err=%v)\n got %x\nwant %x", i+1, err, curBytes, mb), true}
				}
			}
			continue
		case "tojson":
			if curJSON, err = toJSON(cur, rnd); err != nil {
				return &fail{"txrepr:tojson", fmt.Sprintf("step %d: ToJSON fails: %v", i+1, err), false}
			}
			if f := a.checkJSON(curJSON, s, dataText); f != nil {
				f.what = fmt.Sprintf("step %d: %s", i+1, f.what)
				return f
			}
			continue
		case "compare":
			return a.compare(st, s, doc, dataText, rnd)
		default:
			return &fail{"txrepr:driver", "unknown op " + s.Op, true}
		}
		if f := a.checkObj(cur, s, firstID, dataText); f != nil {
			f.what = fmt.Sprintf("step %d: %s", i+1, f.what)
			return f
		}
		if firstID == nil {
			firstID = cur.ID()
		}
	}
	return nil
}

// compare: id sensitivity between the start document and a document with one signed field changed
func (a *actors) compare(st, s step, doc []byte, dataText string, rnd *rand.Rand) *fail {
	tx1, err := transaction.NewTransactionFromJSON(doc)
	if err != nil {
		return &fail{"txrepr:parsejson", fmt.Sprintf("well-formed JSON rejected: %v\n%s", err, doc), false}
	}
	doc2, dataText2 := a.renderDoc(s.Render, map[string]string{}, rnd)
	tx2, err := transaction.NewTransactionFromJSON(doc2)
	if err != nil {
		return &fail{"txrepr:parsejson", fmt.Sprintf("well-formed JSON rejected: %v\n%s", err, doc2), false}
	}
	if want := a.id(s.Pre); !bytes.Equal(tx2.ID(), want) {
		return &fail{"txrepr:id:compare", fmt.Sprintf("the id of the changed document is %x, spec says SHA3(%q) = %x", tx2.ID(), a.text(s.Pre), want), false}
	}
	same := bytes.Equal(tx1.ID(), tx2.ID())
	if same && !s.Same {
		return &fail{"txrepr:insensitive:" + s.What, fmt.Sprintf("changing %s does not change the id %x\n%s\n%s", s.What, tx1.ID(), doc, doc2), false}
	}
	if !same && s.Same {
		return &fail{"txrepr:equivalence:" + s.What, fmt.Sprintf("spec says the change of %s is a value equivalence, ids differ\n%s\n%s", s.What, doc, doc2), true}
	}
	// the same comparison on stored binary forms received from a peer (ids computed from the fields)
	if st.Canon && s.Canon {
		b1, err1 := a.mirrorBytes(st.Obs, dataText, nil)
		b2, err2 := a.mirrorBytes(s.Obs, dataText2, nil)
		if err1 != nil || err2 != nil {
			return &fail{"txrepr:driver", fmt.Sprintf("cannot build stored forms: %v %v", err1, err2), true}
		}
		p1, err1 := transaction.NewTransaction(b1)
		p2, err2 := transaction.NewTransaction(b2)
		if err1 != nil || err2 != nil {
			return &fail{"txrepr:parsestored", fmt.Sprintf("stored form rejected: %v %v", err1, err2), false}
		}
		if want := a.id(s.Obs.Spre); !bytes.Equal(p2.ID(), want) {
			return &fail{"txrepr:id:stored", fmt.Sprintf("the id of the stored form of the changed document is %x, spec says SHA3(%q) = %x", p2.ID(), a.text(s.Obs.Spre), want), false}
		}
		if same := bytes.Equal(p1.ID(), p2.ID()); same && !s.Same {
			return &fail{"txrepr:insensitive:stored:" + s.What, fmt.Sprintf("stored forms: changing %s does not change the id %x", s.What, p1.ID()), false}
		}
	}
	return nil
}

func TestReplay(t *testing.T) {
	if !tlaio.HaveInput() {
		t.Skip("driven by tools/check.py")
	}
	out := tlaio.OpenOut()
	rnd := tlaio.Rand()
	err := tlaio.ReadInput(func(idx int, raw json.RawMessage) error {
		var steps []step
		if err := json.Unmarshal(raw, &steps); err != nil {
			return err
		}
		id := fmt.Sprintf("t%d", idx)
		if !tlaio.Mine(idx) {
			return nil
		}
		var sig strings.Builder
		for _, s := range steps {
			fmt.Fprintf(&sig, "%s:%s:%s;", s.Op, s.Rep.Mode, s.What)
		}
		if len(steps) > 0 {
			ob, _ := json.Marshal(steps[len(steps)-1].Other)
			o0, _ := json.Marshal(steps[0].Other)
			sig.Write(o0)
			sig.Write(ob)
		}
		var f *fail
		func() {
			defer func() {
				if r := recover(); r != nil {
					f = &fail{"txrepr:panic", fmt.Sprintf("the code under test panicked: %v", r), false}
				}
			}()
			f = runCase(steps, rnd)
		}()
		switch {
		case f == nil:
			out.OK(id, len(steps) > 2 || (len(steps) == 2 && steps[1].Op == "compare"), sig.String())
		case f.div:
			out.Divergence(id, f.what, map[string]interface{}{"key": f.key})
		default:
			out.Violation(id, f.key, f.what, map[string]interface{}{"behaviour": steps})
		}
		return nil
	})
	if err != nil {
		t.Fatal(err)
	}
	out.Close(nil)
}
