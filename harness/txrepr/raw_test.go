package txrepr

// Replays cases of spec/data/TxReprRaw.tla (version-2 and genesis transactions, C12).

import (
	"bytes"
	"encoding/base64"
	"encoding/hex"
	"encoding/json"
	"fmt"
	"math/rand"
	"strings"
	"testing"

	"github.com/icon-project/goloop/common"
	"github.com/icon-project/goloop/module"
	"github.com/icon-project/goloop/service/transaction"

	"verifharness/tlaio"
)

type rawObs struct {
	From    string `json:"from"`
	To      string `json:"to"`
	Value   string `json:"value"`
	Ts      string `json:"ts"`
	Nonce   string `json:"nonce"`
	Version int    `json:"version"`
	Nid     string `json:"nid"`
}

type rawStep struct {
	Op      string                 `json:"op"`
	Rep     string                 `json:"rep"`
	Pre     string                 `json:"pre"`
	Desc    map[string]interface{} `json:"desc"`
	Render  []entry                `json:"render"`
	Obs     rawObs                 `json:"obs"`
	Verdict string                 `json:"verdict"`
	What    string                 `json:"what"`
	Same    bool                   `json:"same"`
}

// renderTreeSub renders a tree with address placeholders inside strings substituted
func (a *actors) renderTreeSub(t tree, rnd *rand.Rand) string {
	switch t.K {
	case "str":
		return jsonString(a.text(strings.Join(t.Cs, "")), rnd)
	case "list":
		parts := make([]string, len(t.Items))
		for i, it := range t.Items {
			parts[i] = a.renderTreeSub(it, rnd)
		}
		return "[" + strings.Join(parts, ",") + "]"
	case "dict":
		parts := make([]string, len(t.Es))
		for i, e := range t.Es {
			parts[i] = jsonString(strings.Join(e.Key, ""), rnd) + ":" + a.renderTreeSub(e.Val, rnd)
		}
		rnd.Shuffle(len(parts), func(i, j int) { parts[i], parts[j] = parts[j], parts[i] })
		return "{" + strings.Join(parts, ",") + "}"
	}
	return renderTree(t, rnd)
}

// renderRaw renders a v2 / genesis document; @ID is the hex of the predicted id
func (a *actors) renderRaw(s rawStep, withSig bool, rnd *rand.Rand) ([]byte, error) {
	id := a.id(s.Pre)
	var parts []string
	for _, e := range s.Render {
		var v string
		if e.Jk == "tree" {
			v = a.renderTreeSub(e.Tree, rnd)
		} else {
			v = jsonString(strings.ReplaceAll(a.text(e.Text), "@ID", hex.EncodeToString(id)), rnd)
		}
		parts = append(parts, jsonString(e.Key, rnd)+":"+v)
	}
	if withSig {
		sig, err := a.w.Sign(id)
		if err != nil {
			return nil, err
		}
		parts = append(parts, `"signature":"`+base64.StdEncoding.EncodeToString(sig)+`"`)
	}
	rnd.Shuffle(len(parts), func(i, j int) { parts[i], parts[j] = parts[j], parts[i] })
	js := "{" + strings.Join(parts, ",") + "}"
	if rnd.Intn(2) == 0 {
		var b bytes.Buffer
		if err := json.Indent(&b, []byte(js), "", strings.Repeat(" ", 1+rnd.Intn(3))); err == nil {
			js = b.String()
		}
	}
	return []byte(js), nil
}

func hexEq(got interface{}, want string) bool {
	s, ok := got.(string)
	if !ok {
		return false
	}
	g, w := new(common.HexInt), new(common.HexInt)
	if _, ok := g.SetString(s, 0); !ok {
		return false
	}
	w.SetString(want, 0)
	return g.Cmp(&w.Int) == 0
}

func (a *actors) checkRawObj(tx transaction.Transaction, st, s rawStep, first []byte, doc []byte) *fail {
	want := a.id(s.Pre)
	got := tx.ID()
	kind, _ := st.Desc["kind"].(string)
	if !bytes.Equal(got, want) {
		return &fail{"txrepr:" + kind + ":id:" + s.Op, fmt.Sprintf("after %s the id of the %s transaction is %x, spec says SHA3(%q) = %x", s.Op, kind, got, a.text(s.Pre), want), false}
	}
	if first != nil && !bytes.Equal(got, first) {
		return &fail{"txrepr:" + kind + ":idchanged:" + s.Op, fmt.Sprintf("after %s the id is %x, it was %x before", s.Op, got, first), false}
	}
	o := st.Obs
	if tx.Version() != o.Version {
		return &fail{"txrepr:" + kind + ":version", fmt.Sprintf("after %s Version() = %d, spec says %d", s.Op, tx.Version(), o.Version), false}
	}
	if o.From != "" {
		if f := tx.From().String(); f != a.text(o.From) {
			return &fail{"txrepr:" + kind + ":from", fmt.Sprintf("after %s the sender is %s, spec says %s", s.Op, f, a.text(o.From)), false}
		}
		if t := tx.To().String(); t != a.text(o.To) {
			return &fail{"txrepr:" + kind + ":to", fmt.Sprintf("after %s the recipient is %s, spec says %s", s.Op, t, a.text(o.To)), false}
		}
		tsw := new(common.HexInt)
		tsw.SetString(o.Ts, 0)
		if tx.Timestamp() != tsw.Int64() {
			return &fail{"txrepr:" + kind + ":timestamp", fmt.Sprintf("after %s the timestamp is %d, spec says %s", s.Op, tx.Timestamp(), o.Ts), false}
		}
		if n := tx.Nonce(); (n == nil) != (o.Nonce == "") || (n != nil && !hexEq("0x"+n.Text(16), o.Nonce)) {
			return &fail{"txrepr:" + kind + ":nonce", fmt.Sprintf("after %s the nonce is %v, spec says %q", s.Op, n, o.Nonce), false}
		}
	} else if tx.From() != nil {
		return &fail{"txrepr:" + kind + ":from", "a genesis transaction has a sender", false}
	}
	jo, err := tx.ToJSON(module.JSONVersionLast)
	if err != nil {
		return &fail{"txrepr:" + kind + ":tojson", fmt.Sprintf("after %s ToJSON fails: %v", s.Op, err), false}
	}
	jb, _ := json.Marshal(jo)
	if !jsonEq(jb, doc) {
		return &fail{"txrepr:" + kind + ":tojson", fmt.Sprintf("after %s ToJSON is not the submitted document:\n%s\n%s", s.Op, jb, doc), false}
	}
	if o.Value != "" {
		if m, ok := jo.(map[string]interface{}); !ok || !hexEq(m["value"], o.Value) {
			return &fail{"txrepr:" + kind + ":value", fmt.Sprintf("after %s the value is %v, spec says %s", s.Op, jo, o.Value), false}
		}
	}
	err = tx.Verify()
	if (err == nil) != (st.Verdict == "accept") {
		if err == nil {
			return &fail{"txrepr:" + kind + ":verify:accepts", fmt.Sprintf("after %s Verify() accepts, spec says reject (desc %v)\n%s", s.Op, st.Desc, doc), false}
		}
		return &fail{"txrepr:" + kind + ":verify:rejects", fmt.Sprintf("after %s Verify() fails (%v), spec says accept (desc %v)\n%s", s.Op, err, st.Desc, doc), false}
	}
	if b := tx.Bytes(); len(b) == 0 || b[0] != '{' {
		return &fail{"txrepr:" + kind + ":stored", fmt.Sprintf("after %s the stored form is not JSON text", s.Op), true}
	}
	return nil
}

func runRawCase(steps []rawStep, rnd *rand.Rand) *fail {
	if len(steps) == 0 || steps[0].Op != "start" {
		return &fail{"txrepr:driver", "case does not begin with a start record", true}
	}
	a := newActors(rnd)
	st := steps[0]
	kind, _ := st.Desc["kind"].(string)
	doc, err := a.renderRaw(st, kind == "v2", rnd)
	if err != nil {
		return &fail{"txrepr:driver", err.Error(), true}
	}
	curJSON := doc
	var curBytes, firstID []byte
	var cur transaction.Transaction
	for i, s := range steps[1:] {
		switch s.Op {
		case "parsejson":
			if kind != "v2" && rnd.Intn(2) == 0 {
				g, e := transaction.NewGenesisTransaction(curJSON)
				if e == nil && st.Obs.Nid != "" {
					w := new(common.HexInt)
					w.SetString(st.Obs.Nid, 0)
					if int64(g.NID()) != w.Int64() {
						return &fail{"txrepr:" + kind + ":nid", fmt.Sprintf("genesis NID() = %d, spec says %s", g.NID(), st.Obs.Nid), false}
					}
				}
				cur, err = g, e
			} else {
				cur, err = parseJSON(curJSON, rnd)
			}
			if err != nil {
				return &fail{"txrepr:" + kind + ":parsejson", fmt.Sprintf("step %d: well-formed %s JSON rejected: %v\n%s", i+1, kind, err, curJSON), false}
			}
		case "parsestored":
			if cur, err = parseStored(curBytes, rnd); err != nil {
				return &fail{"txrepr:" + kind + ":parsestored", fmt.Sprintf("step %d: stored form rejected: %v", i+1, err), false}
			}
		case "bytes":
			curBytes = cur.Bytes()
			continue
		case "tojson":
			if curJSON, err = toJSON(cur, rnd); err != nil {
				return &fail{"txrepr:" + kind + ":tojson", fmt.Sprintf("step %d: ToJSON fails: %v", i+1, err), false}
			}
			continue
		case "compare":
			tx1, err := transaction.NewTransactionFromJSON(doc)
			if err != nil {
				return &fail{"txrepr:" + kind + ":parsejson", fmt.Sprintf("well-formed JSON rejected: %v\n%s", err, doc), false}
			}
			doc2, err := a.renderRaw(s, kind == "v2", rnd)
			if err != nil {
				return &fail{"txrepr:driver", err.Error(), true}
			}
			tx2, err := transaction.NewTransactionFromJSON(doc2)
			if err != nil {
				return &fail{"txrepr:" + kind + ":parsejson", fmt.Sprintf("well-formed JSON rejected: %v\n%s", err, doc2), false}
			}
			if want := a.id(s.Pre); !bytes.Equal(tx2.ID(), want) {
				return &fail{"txrepr:" + kind + ":id:compare", fmt.Sprintf("the id of the changed document is %x, spec says SHA3(%q)", tx2.ID(), a.text(s.Pre)), false}
			}
			same := bytes.Equal(tx1.ID(), tx2.ID())
			if same && !s.Same {
				return &fail{"txrepr:" + kind + ":insensitive:" + s.What, fmt.Sprintf("changing %s does not change the id\n%s\n%s", s.What, doc, doc2), false}
			}
			if !same && s.Same {
				return &fail{"txrepr:" + kind + ":unsigned:" + s.What, fmt.Sprintf("changing the unsigned field %s changes the id\n%s\n%s", s.What, doc, doc2), false}
			}
			return nil
		}
		if f := a.checkRawObj(cur, st, s, firstID, doc); f != nil {
			f.what = fmt.Sprintf("step %d: %s", i+1, f.what)
			return f
		}
		if firstID == nil {
			firstID = cur.ID()
		}
	}
	return nil
}

func TestReplayRaw(t *testing.T) {
	if !tlaio.HaveInput() {
		t.Skip("driven by tools/check.py")
	}
	out := tlaio.OpenOut()
	rnd := tlaio.Rand()
	err := tlaio.ReadInput(func(idx int, raw json.RawMessage) error {
		var steps []rawStep
		if err := json.Unmarshal(raw, &steps); err != nil {
			return err
		}
		id := fmt.Sprintf("r%d", idx)
		if !tlaio.Mine(idx) {
			return nil
		}
		var sig strings.Builder
		for _, s := range steps {
			d, _ := json.Marshal(s.Desc)
			fmt.Fprintf(&sig, "%s:%s:%s:%s;", s.Op, s.Rep, s.What, d)
		}
		var f *fail
		func() {
			defer func() {
				if r := recover(); r != nil {
					f = &fail{"txrepr:raw:panic", fmt.Sprintf("the code under test panicked: %v", r), false}
				}
			}()
			f = runRawCase(steps, rnd)
		}()
		switch {
		case f == nil:
			out.OK(id, true, sig.String())
		case f.div:
			out.Divergence(id, f.what, map[string]interface{}{"key": f.key})
		default:
			out.Violation(id, f.key, f.what, map[string]interface{}{"kind": "raw", "behaviour": steps})
		}
		return nil
	})
	if err != nil {
		t.Fatal(err)
	}
	out.Close(nil)
}
