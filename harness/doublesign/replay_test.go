package doublesign

// Replays the decision table and the log behaviours of spec/cert/DoubleSign.tla into the real
// double-sign code (C06).  The oracle is the TLA+ text: every row of the table carries the set of
// partner messages the spec predicts to be in conflict, every Receive step carries the predicted
// evidence flag and the message the log is predicted to hold.  This driver only concretizes
// abstract messages with real wallets, real signatures and the real wire encoding, and reads the
// real verdicts back:
//   check  consensus.DecodeDoubleSignData + module.DoubleSignData.IsConflictWith
//          (the predicate doubleSignReportTx.PreValidate applies to a reported pair)
//   recv   dsmLog.LogAndCheckVoteMessage / LogAndCheckProposalMessage (hook VerifDSMLog), fed with
//          messages decoded by consensus.UnmarshalMessage as the engine does.

import (
	"bytes"
	"encoding/json"
	"fmt"
	"math/rand"
	"testing"

	"github.com/icon-project/goloop/common"
	"github.com/icon-project/goloop/common/codec"
	"github.com/icon-project/goloop/common/crypto"
	"github.com/icon-project/goloop/common/wallet"
	"github.com/icon-project/goloop/consensus"
	"github.com/icon-project/goloop/module"

	"verifharness/tlaio"
)

type amsg struct {
	Kind   string `json:"kind"`
	Signer string `json:"signer"`
	Height int    `json:"height"`
	Round  int    `json:"round"`
	Nid    int    `json:"nid"`
	Body   string `json:"body"`
	Aux    int    `json:"aux"`
	U      int    `json:"u"` // unsigned part of a precommit (BTP vote bases and proof parts): 0 none, 1, 2
}

func (m amsg) key() string {
	k := fmt.Sprintf("%s/%s/h%d/r%d/n%d/%s/a%d", m.Kind, m.Signer, m.Height, m.Round, m.Nid, m.Body, m.Aux)
	if m.U != 0 {
		k += fmt.Sprintf("/u%d", m.U)
	}
	return k
}

const badNid = 9 // DoubleSign.tla BadNid: the nil vote's network field does not decode

type step struct {
	Op  string `json:"op"`
	M   amsg   `json:"m"`
	M2  amsg   `json:"m2"`
	Old amsg   `json:"old"`
	Ev  bool   `json:"ev"`
	D   string `json:"d"`
	Res string `json:"res"`
}

type input struct {
	T     string `json:"t"` // alphabet | row | beh
	Msgs  []amsg `json:"msgs"`
	M     amsg   `json:"m"`
	Evs   []amsg `json:"evs"`
	Steps []step `json:"steps"`
}

// concretization of the abstract alphabet, drawn once per run from the seed
type world struct {
	out        *tlaio.Out
	perKey     map[string]int
	suppressed int
	wallets    map[string]module.Wallet
	h0         int64
	r0         int32
	nids       [3]uint32
	ts0        int64
	bid        map[string][]byte
	psid       map[string]*consensus.PartSetID
	nts        [3][]module.NTSHashEntryFormat // unsigned BTP vote bases for u = 1, 2
	ntsp       [3][][]byte                    // and their proof parts
	badNid     []byte
	cache      map[string]*cmsg
}

type cmsg struct {
	a     amsg
	dst   string
	bytes []byte
	dsd   module.DoubleSignData
}

func newWorld(rnd *rand.Rand) *world {
	w := &world{wallets: map[string]module.Wallet{}, bid: map[string][]byte{}, psid: map[string]*consensus.PartSetID{},
		cache: map[string]*cmsg{}}
	w.h0 = int64(1 + rnd.Intn(1000))
	w.r0 = int32(rnd.Intn(5))
	w.nids[0] = 0
	w.nids[1] = uint32(1 + rnd.Intn(0xfffff))
	for w.nids[2] == 0 || w.nids[2] == w.nids[1] {
		w.nids[2] = uint32(1 + rnd.Intn(0xfffff))
	}
	w.ts0 = int64(1_600_000_000_000_000 + rnd.Intn(1_000_000))
	rb := func(n int) []byte {
		b := make([]byte, n)
		rnd.Read(b)
		return b
	}
	// bodies x and y differ in the block id, in the part-set hash, in the part count, or in all
	bx, hx, cx := rb(32), rb(32), uint16(1+rnd.Intn(3))
	by, hy, cy := bx, hx, cx
	switch rnd.Intn(4) {
	case 0:
		by = rb(32)
	case 1:
		hy = rb(32)
	case 2:
		cy = cx + 1
	default:
		by, hy, cy = rb(32), rb(32), cx+1
	}
	w.bid["x"], w.psid["x"] = bx, &consensus.PartSetID{Count: cx, Hash: hx}
	w.bid["y"], w.psid["y"] = by, &consensus.PartSetID{Count: cy, Hash: hy}
	// a proposal carries only the part-set id: make sure x and y differ there
	if w.psid["x"].Equal(w.psid["y"]) {
		w.psid["yp"] = &consensus.PartSetID{Count: cx, Hash: rb(32)}
	} else {
		w.psid["yp"] = w.psid["y"]
	}
	w.psid["xp"] = w.psid["x"]
	w.badNid = [][]byte{{}, {0xc1, 0x01}, {0xb8}, rb(40)}[rnd.Intn(4)]
	if len(w.badNid) == 40 {
		w.badNid[0] = 0xf9 // a list header announcing more than is there
	}
	// the unsigned part of a precommit: u = 1 one BTP vote base with a proof part; u = 2 differs from it in the
	// section hash, in the network type id, in the number of entries, or only in the proof part
	h1 := rb(32)
	w.nts[1] = []module.NTSHashEntryFormat{{NetworkTypeID: 1, NetworkTypeSectionHash: h1}}
	w.ntsp[1] = [][]byte{rb(70)}
	switch rnd.Intn(4) {
	case 0:
		w.nts[2] = []module.NTSHashEntryFormat{{NetworkTypeID: 1, NetworkTypeSectionHash: rb(32)}}
		w.ntsp[2] = w.ntsp[1]
	case 1:
		w.nts[2] = []module.NTSHashEntryFormat{{NetworkTypeID: 2, NetworkTypeSectionHash: h1}}
		w.ntsp[2] = w.ntsp[1]
	case 2:
		w.nts[2] = []module.NTSHashEntryFormat{{NetworkTypeID: 1, NetworkTypeSectionHash: h1}, {NetworkTypeID: 2, NetworkTypeSectionHash: rb(32)}}
		w.ntsp[2] = [][]byte{w.ntsp[1][0], rb(70)}
	default:
		w.nts[2] = w.nts[1]
		w.ntsp[2] = [][]byte{rb(70)}
	}
	return w
}

// violation emits at most maxPerKey records per violation key (one defect class can falsify
// thousands of table entries); the rest is counted in the summary.
const maxPerKey = 8

func (w *world) violation(id, key, what string, det interface{}) {
	if w.perKey == nil {
		w.perKey = map[string]int{}
	}
	w.perKey[key]++
	if w.perKey[key] > maxPerKey {
		w.suppressed++
		return
	}
	w.out.Violation(id, key, what, det)
}

func (w *world) wallet(s string) module.Wallet {
	if x, ok := w.wallets[s]; ok {
		return x
	}
	x := wallet.New()
	w.wallets[s] = x
	return x
}

// conc builds, signs and encodes the real message for an abstract one, then decodes it the
// way a report found in a transaction is decoded.
func (w *world) conc(a amsg) (*cmsg, error) {
	if c, ok := w.cache[a.key()]; ok {
		return c, nil
	}
	c := &cmsg{a: a}
	h := w.h0 + int64(a.Height)
	r := w.r0 + int32(a.Round)
	var nid uint32
	if a.Nid < badNid {
		nid = w.nids[a.Nid]
	}
	switch a.Kind {
	case "prevote", "precommit":
		vt := consensus.VoteTypePrevote
		if a.Kind == "precommit" {
			vt = consensus.VoteTypePrecommit
		}
		ts := w.ts0 + int64(a.Aux)
		var vm *consensus.VoteMessage
		if a.Body == "nil" {
			// a nil vote carries the network id in place of the block id and no part-set id
			bid := codec.MustMarshalToBytes(int(nid))
			if a.Nid == badNid {
				bid = w.badNid // bytes that do not decode as a network id
			}
			vm = consensus.NewVoteMessage(w.wallet(a.Signer), vt, h, r, bid, nil, ts, nil, nil, 0)
		} else {
			vm = consensus.NewVoteMessage(w.wallet(a.Signer), vt, h, r, w.bid[a.Body], w.psid[a.Body], ts, nil, nil, 0)
			vm.BlockPartSetIDAndNTSVoteCount = w.psid[a.Body].WithAppData(uint64(nid) << 16)
		}
		if err := vm.Sign(w.wallet(a.Signer)); err != nil {
			return nil, err
		}
		c.dst = module.DSTVote
		c.bytes = codec.BC.MustMarshalToBytes(vm)
		if a.U != 0 {
			// the same genuine vote re-encoded with an unsigned BTP part: same signature bytes, same signed content
			base := a
			base.U = 0
			cb, err := w.conc(base)
			if err != nil {
				return nil, err
			}
			bm, err := consensus.UnmarshalMessage(uint16(consensus.ProtoVote), cb.bytes)
			if err != nil {
				return nil, err
			}
			um := consensus.NewVoteMessage(w.wallet(a.Signer), vt, h, r, bm.(*consensus.VoteMessage).BlockID, nil, ts,
				w.nts[a.U], w.ntsp[a.U], 0)
			um.BlockPartSetIDAndNTSVoteCount = bm.(*consensus.VoteMessage).BlockPartSetIDAndNTSVoteCount
			um.Signature = bm.(*consensus.VoteMessage).Signature
			c.bytes = codec.BC.MustMarshalToBytes(um)
			// it must still decode, carry the unsigned part, and have the base's signature
			dm, err := consensus.UnmarshalMessage(uint16(consensus.ProtoVote), c.bytes)
			if err != nil {
				return nil, fmt.Errorf("re-encoded vote %s does not decode: %v", a.key(), err)
			}
			dv := dm.(*consensus.VoteMessage)
			s1, _ := dv.Signature.Signature.SerializeRSV()
			s2, _ := bm.(*consensus.VoteMessage).Signature.Signature.SerializeRSV()
			if !bytes.Equal(s1, s2) || len(dv.NTSDProofParts) != len(w.ntsp[a.U]) || bytes.Equal(c.bytes, cb.bytes) {
				return nil, fmt.Errorf("re-encoded vote %s lost its signature or its unsigned part", a.key())
			}
		}
	case "proposal":
		pm := consensus.NewProposalMessage()
		pm.Height = h
		pm.Round = r
		pm.BlockPartSetID = w.psid[a.Body+"p"]
		pm.POLRound = int32(a.Aux) - 2
		pm.NID = nid
		if err := pm.Sign(w.wallet(a.Signer)); err != nil {
			return nil, err
		}
		c.dst = module.DSTProposal
		c.bytes = codec.BC.MustMarshalToBytes(pm)
	default:
		return nil, fmt.Errorf("unknown kind %q", a.Kind)
	}
	d, err := consensus.DecodeDoubleSignData(c.dst, c.bytes)
	if err != nil {
		return nil, fmt.Errorf("DecodeDoubleSignData(%s): %v", a.key(), err)
	}
	if !bytes.Equal(d.Signer(), w.wallet(a.Signer).Address().ID()) || d.Height() != h || d.Type() != c.dst {
		return nil, fmt.Errorf("decoded message %s has signer %x height %d type %s", a.key(), d.Signer(), d.Height(), d.Type())
	}
	c.dsd = d
	w.cache[a.key()] = c
	return c, nil
}

// class names the first clause of the property in which two abstract messages differ; it is
// only used to label a violation (the verdict itself comes from the spec's prediction).
func class(a, b amsg) string {
	fam := func(k string) string {
		if k == "proposal" {
			return "dsproposal"
		}
		return "dsvote"
	}
	p := fam(a.Kind) + ":conflict:"
	switch {
	case a.Kind != b.Kind:
		return p + "different-types"
	case a.Signer != b.Signer:
		return p + "different-signers"
	case a.Height != b.Height:
		return p + "different-heights"
	case a.Round != b.Round:
		return p + "different-rounds"
	case a.Nid != 0 && b.Nid != 0 && a.Nid != badNid && b.Nid != badNid && a.Nid != b.Nid:
		return p + "different-nonzero-nids"
	case a == b:
		return p + "identical-messages"
	case signed(a) == signed(b):
		return p + "same-signed-content" // one genuine vote re-encoded with another unsigned part
	}
	return p + "other"
}

func signed(a amsg) amsg {
	a.U = 0
	return a
}

func (w *world) describe(c *cmsg) map[string]interface{} {
	return map[string]interface{}{"abstract": c.a, "type": c.dst, "bytes": fmt.Sprintf("%x", c.bytes),
		"nid": c.a.Nid}
}

func (w *world) runRow(out *tlaio.Out, id string, in *input, alphabet []amsg) error {
	c1, err := w.conc(in.M)
	if err != nil {
		return err
	}
	want := map[string]bool{}
	for _, e := range in.Evs {
		want[e.key()] = true
	}
	bad := 0
	for _, b := range alphabet {
		c2, err := w.conc(b)
		if err != nil {
			return err
		}
		got := c1.dsd.IsConflictWith(c2.dsd)
		exp := want[b.key()]
		if got == exp {
			continue
		}
		bad++
		det := map[string]interface{}{"m1": w.describe(c1), "m2": w.describe(c2), "spec": exp, "real": got,
			"behaviour": []step{{Op: "check", M: in.M, M2: b, Ev: exp}}}
		cid := id + ":" + b.key()
		if got && !exp {
			w.violation(cid, class(in.M, b), fmt.Sprintf("IsConflictWith reports %s and %s as double-sign evidence; "+
				"the spec (property C06) says they are not a conflict", in.M.key(), b.key()), det)
		} else {
			out.Divergence(cid, fmt.Sprintf("IsConflictWith does not report %s / %s, the spec says they conflict", in.M.key(), b.key()), det)
		}
	}
	if bad == 0 {
		out.OK(id, len(in.Evs) > 0, "row:"+in.M.key())
	}
	return nil
}

func (w *world) toEngineMsg(c *cmsg) (consensus.Message, error) {
	if c.dst == module.DSTVote {
		return consensus.UnmarshalMessage(uint16(consensus.ProtoVote), c.bytes)
	}
	return consensus.UnmarshalMessage(uint16(consensus.ProtoProposal), c.bytes)
}

func (w *world) runBehaviour(out *tlaio.Out, id string, steps []step) error {
	log := consensus.NewVerifDSMLog(consensus.VerifDSMLogSize)
	sig := ""
	nontrivial := false
	for i, s := range steps {
		switch s.Op {
		case "check":
			c1, err := w.conc(s.M)
			if err != nil {
				return err
			}
			c2, err := w.conc(s.M2)
			if err != nil {
				return err
			}
			got := c1.dsd.IsConflictWith(c2.dsd)
			sig += "c" + s.M.key() + "|" + s.M2.key() + ";"
			if got != s.Ev {
				det := map[string]interface{}{"m1": w.describe(c1), "m2": w.describe(c2), "spec": s.Ev, "real": got, "behaviour": steps}
				if got {
					w.violation(id, class(s.M, s.M2), fmt.Sprintf("IsConflictWith reports %s and %s as double-sign evidence; "+
						"the spec (property C06) says they are not a conflict", s.M.key(), s.M2.key()), det)
				} else {
					out.Divergence(id, fmt.Sprintf("step %d: IsConflictWith does not report %s / %s", i, s.M.key(), s.M2.key()), det)
				}
				return nil
			}
			nontrivial = nontrivial || s.Ev
		case "decode":
			c, err := w.conc(s.M)
			if err != nil {
				return err
			}
			bs := append([]byte{}, c.bytes...)
			dst := c.dst
			switch s.D {
			case "trunc":
				bs = bs[:1+(len(bs)-2)*(1+s.M.Aux)/4]
			case "unknowntype":
				dst = "precommit"
			case "wrongtype":
				if dst == module.DSTVote {
					dst = module.DSTProposal
				} else {
					dst = module.DSTVote
				}
			case "badsig":
				// the same message with a signature from which no key can be recovered (r = s = 0)
				em, err := w.toEngineMsg(c)
				if err != nil {
					return err
				}
				zero, err := crypto.ParseSignature(make([]byte, 65))
				if err != nil {
					return err
				}
				switch m := em.(type) {
				case *consensus.VoteMessage:
					m.Signature = common.Signature{Signature: zero}
					bs = codec.BC.MustMarshalToBytes(m)
				case *consensus.ProposalMessage:
					m.Signature = common.Signature{Signature: zero}
					bs = codec.BC.MustMarshalToBytes(m)
				}
			default:
				return fmt.Errorf("unknown defect %q", s.D)
			}
			w.out.Begin(id, "dsdecode:crash:"+s.D)
			var derr error
			var dd module.DoubleSignData
			panicked := ""
			func() {
				defer func() {
					if r := recover(); r != nil {
						panicked = fmt.Sprint(r)
					}
				}()
				dd, derr = consensus.DecodeDoubleSignData(dst, bs)
			}()
			sig += "d" + s.D + s.M.key() + ";"
			det := map[string]interface{}{"behaviour": steps, "bytes": fmt.Sprintf("%x", bs), "type": dst, "spec": s.Res, "real": fmt.Sprint(derr)}
			switch {
			case panicked != "":
				w.violation(id, "dsdecode:panic:"+s.D, fmt.Sprintf("DecodeDoubleSignData panics on %s of %s: %s", s.D, s.M.key(), panicked), det)
				return nil
			case derr == nil && s.Res == "error":
				w.violation(id, "dsdecode:accepted:"+s.D, fmt.Sprintf("DecodeDoubleSignData accepts %s of %s as double-sign data", s.D, s.M.key()), det)
				_ = dd
				return nil
			}
		case "recv":
			c, err := w.conc(s.M)
			if err != nil {
				return err
			}
			em, err := w.toEngineMsg(c)
			if err != nil {
				return fmt.Errorf("UnmarshalMessage(%s): %v", s.M.key(), err)
			}
			var ev []module.DoubleSignData
			switch m := em.(type) {
			case *consensus.VoteMessage:
				ev = log.LogAndCheckVoteMessage(m)
			case *consensus.ProposalMessage:
				ev = log.LogAndCheckProposalMessage(m)
			}
			sig += "r" + s.M.key() + ";"
			got := len(ev) > 0
			det := map[string]interface{}{"step": i, "m": w.describe(c), "spec": s.Ev, "real": got, "behaviour": steps}
			if got != s.Ev {
				if got {
					// what does the real log claim the message conflicts with
					var with string
					other := s.Old
					for k, cm := range w.cache {
						if len(ev) == 2 && bytes.Equal(cm.bytes, ev[0].Bytes()) {
							with = k
							other = cm.a
						}
					}
					det["reported_with"] = with
					w.violation(id, class(other, s.M), fmt.Sprintf("step %d: the double-sign log reports %s against %s as evidence; "+
						"the spec (property C06) says there is no conflict", i, s.M.key(), with), det)
				} else {
					out.Divergence(id, fmt.Sprintf("step %d: the double-sign log does not report %s, the spec says it conflicts with %s",
						i, s.M.key(), s.Old.key()), det)
				}
				return nil
			}
			if got {
				nontrivial = true
				co, err := w.conc(s.Old)
				if err != nil {
					return err
				}
				if len(ev) != 2 || !bytes.Equal(ev[0].Bytes(), co.bytes) || !bytes.Equal(ev[1].Bytes(), c.bytes) {
					out.Divergence(id, fmt.Sprintf("step %d: reported pair is not (logged %s, received %s)", i, s.Old.key(), s.M.key()), det)
					return nil
				}
			}
		default:
			return fmt.Errorf("unknown op %q", s.Op)
		}
	}
	out.OK(id, nontrivial, sig)
	return nil
}

func TestReplay(t *testing.T) {
	if !tlaio.HaveInput() {
		t.Skip("driven by tools/check.py")
	}
	out := tlaio.OpenOut()
	w := newWorld(tlaio.Rand())
	w.out = out
	var alphabet []amsg
	err := tlaio.ReadInput(func(idx int, raw json.RawMessage) error {
		var in input
		if err := json.Unmarshal(raw, &in); err != nil {
			return err
		}
		switch in.T {
		case "alphabet":
			alphabet = in.Msgs
			return nil
		case "row":
			return w.runRow(out, fmt.Sprintf("row%d", idx), &in, alphabet)
		case "beh":
			return w.runBehaviour(out, fmt.Sprintf("b%d", idx), in.Steps)
		}
		return fmt.Errorf("unknown input record %q", in.T)
	})
	if err != nil {
		t.Fatal(err)
	}
	out.Close(map[string]interface{}{"alphabet": len(alphabet), "nids": w.nids, "violations_per_key": w.perKey,
		"suppressed_violation_records": w.suppressed})
}
