package mpt

// Replays behaviours of spec/trie/MPT.tla into the real Merkle Patricia trie
// (common/trie/ompt through trie_manager) for C17 (canonical map) and C18 (proofs).
//
// The oracle is the TLA+ text: every step carries the spec's predicted result, the predicted
// contents of the mutable trie and of every snapshot slot, and for the observing calls
// (snap/check/reload) the predicted iteration order, prefix filters, node shape (with
// hashed/embedded classification), proof lengths and the verdict of Prove for the genuine and
// the tampered proofs.  This driver only concretizes abstract nibbles/keys/values, executes the
// calls on the real code and projects the real observations back (an RLP walk over the nodes
// returned by GetProof reconstructs the shape).

import (
	"bytes"
	"encoding/hex"
	"encoding/json"
	"fmt"
	"math/rand"
	"os"
	"sort"
	"testing"

	"github.com/icon-project/goloop/common/crypto"
	"github.com/icon-project/goloop/common/db"
	"github.com/icon-project/goloop/common/trie"
	"github.com/icon-project/goloop/common/trie/trie_manager"

	"verifharness/tlaio"
)

type shape struct {
	T string   `json:"t"`
	K []int    `json:"k,omitempty"`
	V int      `json:"v,omitempty"`
	H bool     `json:"h,omitempty"`
	N *shape   `json:"n,omitempty"`
	C []*shape `json:"c,omitempty"`
}

type tamper struct {
	Kind string `json:"kind"`
	I    int    `json:"i"`
	R    int    `json:"r"`
	Left int    `json:"left"`
	Why  string `json:"why"`
}

type proofRec struct {
	K   int      `json:"k"`
	OK  bool     `json:"ok"`
	N   int      `json:"n"`
	R   int      `json:"r"`
	Why string   `json:"why"`
	Tam []tamper `json:"tam"`
	XK  []int    `json:"xk"`
}

type obs struct {
	It    [][2]int   `json:"it"`
	Flt   [][][2]int `json:"flt"`
	Shape *shape     `json:"shape"`
	Pf    []proofRec `json:"pf"`
}

type step struct {
	Op  string  `json:"op"`
	K   int     `json:"k"`
	V   int     `json:"v"`
	VL  int     `json:"vl"`
	S   int     `json:"s"`
	Res int     `json:"res"`
	M   []int   `json:"m"`
	SM  [][]int `json:"sm"`
	SF  []bool  `json:"sf"`
	Obs obs     `json:"obs"`
}

type behaviour struct {
	W        int     `json:"w"`
	Keys     [][]int `json:"keys"`
	Prefixes [][]int `json:"prefixes"`
	Init     []int   `json:"init"` // contents the trie starts with (directed generators)
	VLen     []int   `json:"vlen"` // byte length of value v (the spec's VLen)
	InitFl   bool    `json:"initfl"` // slot 1 starts as a flushed snapshot of the initial contents
	Steps    []step  `json:"steps"`
	FixNib   string  `json:"fix_nibbles,omitempty"` // replay files pin the concretization
	FixSalt  *int    `json:"fix_salt,omitempty"`
}

// ---------------------------------------------------------------- concretization

type conc struct {
	nib    []byte // abstract symbol -> real nibble (ascending, so orders agree)
	inv    map[byte]int
	salt   byte
	keys   [][]byte
	vlen   map[int]int // abstract value -> byte length (from the spec's VLen, carried by set steps)
	id     string
	keyIdx map[string]int
}

func newConc(b *behaviour, rnd *rand.Rand) *conc {
	c := &conc{inv: map[byte]int{}, vlen: map[int]int{}, keyIdx: map[string]int{}}
	perm := rnd.Perm(16)[:b.W]
	sort.Ints(perm)
	c.salt = byte(rnd.Intn(4))
	if fx, err := hex.DecodeString(b.FixNib); err == nil && len(fx) == b.W {
		for i := range perm {
			perm[i] = int(fx[i])
		}
	}
	if b.FixSalt != nil {
		c.salt = byte(*b.FixSalt)
	}
	for i, p := range perm {
		c.nib = append(c.nib, byte(p))
		c.inv[byte(p)] = i
	}
	for i, k := range b.Keys {
		kb := c.bytesOf(k)
		c.keys = append(c.keys, kb)
		c.keyIdx[string(kb)] = i + 1
	}
	for i, l := range b.VLen {
		c.vlen[i+1] = l
	}
	for _, s := range b.Steps {
		if s.Op == "set" {
			c.vlen[s.V] = s.VL
		}
	}
	c.id = fmt.Sprintf("%x/%d", c.nib, c.salt)
	return c
}

func (c *conc) bytesOf(nibs []int) []byte {
	if len(nibs)%2 != 0 {
		panic("odd key length in the key universe")
	}
	out := make([]byte, len(nibs)/2)
	for i := range out {
		out[i] = c.nib[nibs[2*i]]<<4 | c.nib[nibs[2*i+1]]
	}
	return out
}

func (c *conc) value(v int) []byte {
	l := c.vlen[v]
	if l < 2 {
		panic(fmt.Sprintf("value %d has no length", v))
	}
	bs := make([]byte, l)
	bs[0] = 0x80 | byte(v)
	bs[1] = c.salt
	for i := 2; i < l; i++ {
		bs[i] = byte(i*7 + v)
	}
	return bs
}

func (c *conc) abstractValue(bs []byte) (int, error) {
	if len(bs) == 0 {
		return 0, nil
	}
	v := int(bs[0] &^ 0x80)
	if l, ok := c.vlen[v]; ok && l == len(bs) && bytes.Equal(bs, c.value(v)) {
		return v, nil
	}
	return -1, fmt.Errorf("unknown value %x", bs)
}

// ---------------------------------------------------------------- RLP walk (projection of the real shape)

type rlpItem struct {
	list  bool
	data  []byte // string content
	items []rlpItem
	raw   []byte
}

func rlpParse(b []byte) (rlpItem, []byte, error) {
	if len(b) == 0 {
		return rlpItem{}, nil, fmt.Errorf("rlp: empty")
	}
	t := b[0]
	var hdr, n int
	list := false
	switch {
	case t < 0x80:
		return rlpItem{data: b[:1], raw: b[:1]}, b[1:], nil
	case t < 0xB8:
		hdr, n = 1, int(t-0x80)
	case t < 0xC0:
		ll := int(t - 0xB7)
		if len(b) < 1+ll {
			return rlpItem{}, nil, fmt.Errorf("rlp: short")
		}
		for _, x := range b[1 : 1+ll] {
			n = n<<8 | int(x)
		}
		hdr = 1 + ll
	case t < 0xF8:
		hdr, n, list = 1, int(t-0xC0), true
	default:
		ll := int(t - 0xF7)
		if len(b) < 1+ll {
			return rlpItem{}, nil, fmt.Errorf("rlp: short")
		}
		for _, x := range b[1 : 1+ll] {
			n = n<<8 | int(x)
		}
		hdr, list = 1+ll, true
	}
	if len(b) < hdr+n {
		return rlpItem{}, nil, fmt.Errorf("rlp: short content")
	}
	it := rlpItem{list: list, raw: b[:hdr+n]}
	body := b[hdr : hdr+n]
	if !list {
		it.data = body
		return it, b[hdr+n:], nil
	}
	for len(body) > 0 {
		sub, rest, err := rlpParse(body)
		if err != nil {
			return rlpItem{}, nil, err
		}
		it.items = append(it.items, sub)
		body = rest
	}
	return it, b[hdr+n:], nil
}

func decodeNibs(kb []byte) (leaf bool, nibs []byte) {
	leaf = kb[0]&0x20 != 0
	if kb[0]&0x10 != 0 {
		nibs = append(nibs, kb[0]&0x0f)
	}
	for _, b := range kb[1:] {
		nibs = append(nibs, b>>4, b&0x0f)
	}
	return
}

// shapeOf reconstructs the abstract shape of a node from its serialization; links by hash
// are resolved through nodes (hash -> serialized) collected from the proofs.
func (c *conc) shapeOf(ser []byte, nodes map[string][]byte, w int, isRoot bool, byHash bool) (*shape, error) {
	it, rest, err := rlpParse(ser)
	if err != nil || len(rest) != 0 || !it.list {
		return nil, fmt.Errorf("bad node serialization %x (%v)", ser, err)
	}
	hashed := byHash
	if isRoot {
		hashed = len(ser) > 32
	} else if byHash != (len(ser) > 32) {
		return nil, fmt.Errorf("node of %d bytes linked by hash=%v", len(ser), byHash)
	}
	link := func(l rlpItem) (*shape, error) {
		if l.list {
			return c.shapeOf(l.raw, nodes, w, false, false)
		}
		if len(l.data) == 0 {
			return &shape{T: "N"}, nil
		}
		if len(l.data) != 32 {
			return nil, fmt.Errorf("link of %d bytes", len(l.data))
		}
		s, ok := nodes[string(l.data)]
		if !ok {
			return nil, fmt.Errorf("node %x is on no proof path", l.data)
		}
		return c.shapeOf(s, nodes, w, false, true)
	}
	abs := func(nibs []byte) ([]int, error) {
		out := []int{}
		for _, n := range nibs {
			a, ok := c.inv[n]
			if !ok {
				return nil, fmt.Errorf("nibble %x outside the alphabet", n)
			}
			out = append(out, a)
		}
		return out, nil
	}
	switch len(it.items) {
	case 2:
		if it.items[0].list || len(it.items[0].data) == 0 {
			return nil, fmt.Errorf("bad key header")
		}
		leaf, nibs := decodeNibs(it.items[0].data)
		k, err := abs(nibs)
		if err != nil {
			return nil, err
		}
		if leaf {
			v, err := c.abstractValue(it.items[1].data)
			if err != nil {
				return nil, err
			}
			return &shape{T: "L", K: k, V: v, H: hashed}, nil
		}
		n, err := link(it.items[1])
		if err != nil {
			return nil, err
		}
		return &shape{T: "E", K: k, N: n, H: hashed}, nil
	case 17:
		sh := &shape{T: "B", H: hashed}
		used := map[int]bool{}
		for a := 0; a < w; a++ {
			ch, err := link(it.items[c.nib[a]])
			if err != nil {
				return nil, err
			}
			sh.C = append(sh.C, ch)
			used[int(c.nib[a])] = true
		}
		for i := 0; i < 16; i++ {
			if !used[i] && (it.items[i].list || len(it.items[i].data) != 0) {
				return nil, fmt.Errorf("child at nibble %x outside the alphabet", i)
			}
		}
		v, err := c.abstractValue(it.items[16].data)
		if err != nil {
			return nil, err
		}
		sh.V = v
		return sh, nil
	}
	return nil, fmt.Errorf("node with %d items", len(it.items))
}

func shapeEq(a, b *shape) bool {
	if a == nil || b == nil {
		return a == b
	}
	if a.T != b.T || a.V != b.V || len(a.K) != len(b.K) || len(a.C) != len(b.C) {
		return false
	}
	if a.T != "N" && a.H != b.H {
		return false
	}
	for i := range a.K {
		if a.K[i] != b.K[i] {
			return false
		}
	}
	if (a.N == nil) != (b.N == nil) || (a.N != nil && !shapeEq(a.N, b.N)) {
		return false
	}
	for i := range a.C {
		if !shapeEq(a.C[i], b.C[i]) {
			return false
		}
	}
	return true
}

func sha3(b []byte) []byte { return crypto.SHA3Sum256(b) }

func js(x interface{}) string { bs, _ := json.Marshal(x); return string(bs) }

// ---------------------------------------------------------------- runner

type fail struct {
	violation bool
	fatal     bool // the real state left the spec's state: the rest of the behaviour is not comparable
	key, what string
}

type runner struct {
	b      *behaviour
	c      *conc
	aspect string // "c17" or "c18"
	dbase  db.Database
	mut    trie.Mutable
	snaps  []trie.Snapshot
	shash  [][]byte
	fails  []fail
	canon  map[string][]byte // map signature -> root hash (shared by all behaviours of a run)
	rcanon map[string]string // root hash -> map signature
	out    *tlaio.Out
	caseID string
	proofs int
}

func (r *runner) viol(key, f string, a ...interface{}) {
	r.fails = append(r.fails, fail{true, true, key, fmt.Sprintf(f, a...)})
}

// pviol: a violation about proofs; the trie state is still in step with the spec
func (r *runner) pviol(key, f string, a ...interface{}) {
	r.fails = append(r.fails, fail{true, false, key, fmt.Sprintf(f, a...)})
}
func (r *runner) diverge(f string, a ...interface{}) {
	r.fails = append(r.fails, fail{false, false, "", fmt.Sprintf(f, a...)})
}

func (r *runner) c17() bool { return r.aspect != "c18" }
func (r *runner) c18() bool { return r.aspect != "c17" }

// sig identifies the concrete contents (key bytes = value bytes pairs) that the abstract map m stands for
// under this behaviour's concretization; equal concrete contents are the same map whatever the nibble choice
func (r *runner) sig(m []int) string {
	var ps []string
	for i, v := range m {
		if v != 0 {
			ps = append(ps, fmt.Sprintf("%x=%x", r.c.keys[i], r.c.value(v)))
		}
	}
	sort.Strings(ps)
	return fmt.Sprint(ps)
}

// checkHash: the root hash is a function of the map alone (across orders, snapshots, flush,
// reload, cache clearing and behaviours), and equals the hash of a fresh trie filled in key order.
func (r *runner) checkHash(at string, m []int, h []byte) {
	if !r.c17() {
		return
	}
	sg := r.sig(m)
	empty := true
	for _, v := range m {
		if v != 0 {
			empty = false
		}
	}
	if empty {
		if h != nil {
			r.viol("mpt:hash:empty", "%s: empty trie has root hash %x", at, h)
		}
		return
	}
	if len(h) != 32 {
		r.viol("mpt:hash:size", "%s: root hash %x of a non-empty trie", at, h)
		return
	}
	want, ok := r.canon[sg]
	if !ok {
		fresh := trie_manager.NewMutable(db.NewMapDB(), nil)
		for i, v := range m {
			if v != 0 {
				if _, err := fresh.Set(r.c.keys[i], r.c.value(v)); err != nil {
					r.viol("mpt:set:error", "fresh set: %v", err)
				}
			}
		}
		want = fresh.GetSnapshot().Hash()
		r.canon[sg] = want
		if prev, dup := r.rcanon[string(want)]; dup && prev != sg {
			r.viol("mpt:hash:collision", "maps %s and %s have the same root %x", prev, sg, want)
		}
		r.rcanon[string(want)] = sg
	}
	if !bytes.Equal(want, h) {
		r.viol("mpt:hash:canonical", "%s: root hash %x for contents %v, but a trie with the same contents built "+
			"in key order (or seen earlier) has %x", at, h, m, want)
	}
}

func (r *runner) checkGets(at string, what string, get func([]byte) ([]byte, error), m []int, key string) {
	if !r.c17() {
		return
	}
	for i, kb := range r.c.keys {
		bs, err := get(kb)
		if err != nil {
			r.viol(key+":error", "%s: %s Get(%x): %v", at, what, kb, err)
			continue
		}
		a, err := r.c.abstractValue(bs)
		if err != nil || a != m[i] {
			r.viol(key, "%s: %s Get(key %d = %x) = %d (%v), spec says %d", at, what, i+1, kb, a, err, m[i])
		}
	}
}

func (r *runner) iterate(it trie.Iterator) ([][2]int, error) {
	res := [][2]int{}
	for ; it.Has(); it.Next() {
		v, k, err := it.Get()
		if err != nil {
			return nil, err
		}
		ki, ok := r.c.keyIdx[string(k)]
		if !ok {
			return nil, fmt.Errorf("iterator returned unknown key %x", k)
		}
		a, err := r.c.abstractValue(v)
		if err != nil {
			return nil, err
		}
		res = append(res, [2]int{ki, a})
		if len(res) > 100 {
			return nil, fmt.Errorf("iterator does not terminate")
		}
	}
	return res, nil
}

func pairsEq(a, b [][2]int) bool {
	if len(a) != len(b) {
		return false
	}
	for i := range a {
		if a[i] != b[i] {
			return false
		}
	}
	return true
}

// prove runs Prove guarded: a crash of the code under test is a finding of its own.
func (r *runner) prove(im trie.Immutable, key []byte, proof [][]byte, what string) (val []byte, err error, crashed bool) {
	r.proofs++
	defer func() {
		if p := recover(); p != nil {
			crashed = true
			err = fmt.Errorf("panic: %v", p)
		}
	}()
	val, err = im.Prove(key, proof)
	return
}

func tamperProof(p [][]byte, t tamper, other [][]byte, rnd *rand.Rand) [][]byte {
	cp := func(x [][]byte) [][]byte {
		o := make([][]byte, len(x))
		for i := range x {
			o[i] = append([]byte(nil), x[i]...)
		}
		return o
	}
	q := cp(p)
	switch t.Kind {
	case "alter":
		e := q[t.I-1]
		pos := rnd.Intn(len(e))
		e[pos] ^= byte(1 << uint(rnd.Intn(8)))
	case "drop":
		q = append(q[:t.I-1], q[t.I:]...)
	case "dup":
		q = append(q[:t.I], append([][]byte{append([]byte(nil), q[t.I-1]...)}, q[t.I:]...)...)
	case "other":
		q = cp(other)
	}
	return q
}

// observe compares everything a reader can see of an immutable trie with the spec's prediction.
func (r *runner) observe(at string, im trie.Immutable, m []int, o *obs, slot int, ord int, rnd *rand.Rand) {
	h := im.Hash()
	r.checkHash(at, m, h)
	proofs := make([][][]byte, len(r.c.keys))
	nodes := map[string][]byte{}
	var rootSer []byte
	// the four kinds of reads; `ord` (chosen by TLC) says which one meets the trie first: on a reloaded or cache-cleared
	// trie the first read is the one that has to realize the nodes from the database
	reads := []func(){
		func() {
			if r.c17() {
				r.checkGets(at, "immutable", im.Get, m, "mpt:get:immutable")
			}
		},
		func() {
			if !r.c17() {
				return
			}
			got, err := r.iterate(im.Iterator())
			if err != nil {
				r.viol("mpt:iter:error", "%s: iteration failed: %v", at, err)
			} else if !pairsEq(got, o.It) {
				r.viol("mpt:iter", "%s: iteration returned %v, spec says %v (contents %v)", at, got, o.It, m)
			}
		},
		func() {
			if !r.c17() {
				return
			}
			for j, p := range r.b.Prefixes {
				got, err := r.iterate(im.Filter(r.c.bytesOf(p)))
				if err != nil {
					r.viol("mpt:filter:error", "%s: Filter(%v) failed: %v", at, p, err)
				} else if !pairsEq(got, o.Flt[j]) {
					r.viol("mpt:filter", "%s: Filter(prefix %v) returned %v, spec says %v (contents %v)", at, p, got, o.Flt[j], m)
				}
			}
		},
		func() { // proofs of every key of the universe
			for i, kb := range r.c.keys {
				p := im.GetProof(kb)
				proofs[i] = p
				pr := o.Pf[i]
				if r.c18() {
					if (p != nil) != pr.OK || len(p) != pr.N {
						// the proof of a stored key must exist (completeness); the rest is diagnostic
						if m[i] != 0 && p == nil {
							r.pviol("proof:missing", "%s: GetProof(key %d) returned nil for a stored key", at, i+1)
						} else {
							r.diverge("%s: GetProof(key %d) has %d elements (nil=%v), spec says %d (ok=%v)", at, i+1, len(p), p == nil, pr.N, pr.OK)
						}
					}
				}
				for j, e := range p {
					if j == 0 {
						rootSer = e
					}
					nodes[string(sha3(e))] = e
				}
			}
		},
	}
	if ord < 1 || ord > len(reads) {
		ord = 1
	}
	for i := range reads {
		reads[(ord-1+i)%len(reads)]()
	}
	if rootSer != nil && o.Shape != nil {
		sh, err := r.c.shapeOf(rootSer, nodes, r.b.W, true, true)
		if err != nil {
			r.diverge("%s: cannot reconstruct the shape: %v", at, err)
		} else if !shapeEq(sh, o.Shape) {
			r.diverge("%s: real shape %s, spec says %s", at, js(sh), js(o.Shape))
		}
	} else if (rootSer == nil) != (o.Shape == nil || o.Shape.T == "N") {
		r.diverge("%s: root presence differs from the spec's shape %s", at, js(o.Shape))
	}
	if !r.c18() {
		return
	}
	// Prove: on the trie itself (resolved nodes) and on a verifier that knows only the root hash
	verifier := func() trie.Immutable { return trie_manager.NewImmutable(db.NewMapDB(), h) }
	judge := func(what string, pred int, open bool, val []byte, err error, crashed bool, stored int, key string) {
		if crashed {
			k := "mpt:prove:crash"
			if pred == 0 {
				k = "mpt:prove:absent-at-branch-nil-object"
			}
			r.pviol(k, "%s: %s: Prove crashed (%v); spec says %s", at, what, err, predText(pred))
			return
		}
		if err == nil {
			a, aerr := r.c.abstractValue(val)
			if aerr != nil || (a != stored) {
				r.pviol("proof:sound", "%s: %s: Prove accepted and returned %x (abstract %d), the stored value is %d", at, what, val, a, stored)
				return
			}
			if pred < 0 {
				if open {
					r.diverge("%s: %s accepted (value authentic), spec says rejected", at, what)
				} else {
					r.pviol(key, "%s: %s: Prove accepted a proof that the spec rejects", at, what)
				}
			}
			return
		}
		if pred >= 1 {
			if open {
				r.diverge("%s: %s rejected (%v), spec says accepted with left-over elements", at, what, err)
			} else {
				r.pviol("proof:complete", "%s: %s: Prove rejected (%v), spec says it yields value %d", at, what, err, pred)
			}
		}
	}
	for i, kb := range r.c.keys {
		pr := o.Pf[i]
		p := proofs[i]
		for vi, im2 := range []trie.Immutable{im, verifier()} {
			side := []string{"resolved trie", "root-hash verifier"}[vi]
			val, err, crashed := r.prove(im2, kb, p, "genuine")
			judge(fmt.Sprintf("%s, key %d, the trie's own proof (%d elements)", side, i+1, len(p)), pr.R, false, val, err, crashed, m[i], "proof:absent-accepted")
		}
		if p == nil {
			continue
		}
		for _, t := range pr.Tam {
			var other [][]byte
			if t.Kind == "other" {
				if t.I < 1 || t.I > len(r.snaps) || r.snaps[t.I-1] == nil {
					continue
				}
				other = r.snaps[t.I-1].GetProof(kb)
			} else if t.I > len(p) {
				continue
			}
			q := tamperProof(p, t, other, rnd)
			for vi, im2 := range []trie.Immutable{im, verifier()} {
				side := []string{"resolved trie", "root-hash verifier"}[vi]
				val, err, crashed := r.prove(im2, kb, q, t.Kind)
				// left-over elements behind an authenticated value are the case the design leaves open
				open := t.Kind == "dup" && t.R >= 1
				judge(fmt.Sprintf("%s, key %d, proof with element %d %s", side, i+1, t.I, t.Kind), t.R, open, val, err, crashed, m[i],
					"proof:tamper-accepted:"+t.Kind)
			}
		}
		// the proof of key i presented for every other key
		for j, kb2 := range r.c.keys {
			if j == i || j >= len(pr.XK) {
				continue
			}
			val, err, crashed := r.prove(verifier(), kb2, p, "xk")
			judge(fmt.Sprintf("root-hash verifier, key %d with the proof of key %d", j+1, i+1), pr.XK[j], false, val, err, crashed, m[j],
				"proof:wrong-key-accepted")
		}
	}
}

func predText(p int) string {
	switch {
	case p >= 1:
		return fmt.Sprintf("value %d", p)
	case p == 0:
		return "no value"
	}
	return "rejected"
}

func (r *runner) run(rnd *rand.Rand) (at int) {
	r.dbase = db.NewMapDB()
	r.mut = trie_manager.NewMutable(r.dbase, nil)
	ns := 0
	if len(r.b.Steps) > 0 {
		ns = len(r.b.Steps[0].SM)
	}
	r.snaps = make([]trie.Snapshot, ns)
	r.shash = make([][]byte, ns)
	for i := range r.snaps {
		r.snaps[i] = r.mut.GetSnapshot()
	}
	for i, v := range r.b.Init { // initial contents, written in key order
		if v != 0 {
			if _, err := r.mut.Set(r.c.keys[i], r.c.value(v)); err != nil {
				r.viol("mpt:set:error", "initial contents: %v", err)
			}
		}
	}
	if r.b.InitFl && len(r.snaps) > 0 {
		r.snaps[0] = r.mut.GetSnapshot()
		r.shash[0] = r.snaps[0].Hash()
		if err := r.snaps[0].Flush(); err != nil {
			r.viol("mpt:flush:error", "initial flush: %v", err)
		}
	}
	for i, s := range r.b.Steps {
		at := fmt.Sprintf("step %d (%s)", i+1, s.Op)
		switch s.Op {
		case "set":
			old, err := r.mut.Set(r.c.keys[s.K-1], r.c.value(s.V))
			a, aerr := r.c.abstractValue(old)
			if r.c17() && (err != nil || aerr != nil || a != s.Res) {
				r.viol("mpt:set:old", "%s: Set(key %d, value %d) returned old value %d (%v %v), spec says %d", at, s.K, s.V, a, err, aerr, s.Res)
			}
		case "del":
			old, err := r.mut.Delete(r.c.keys[s.K-1])
			a, aerr := r.c.abstractValue(old)
			if r.c17() && (err != nil || aerr != nil || a != s.Res) {
				r.viol("mpt:delete:old", "%s: Delete(key %d) returned old value %d (%v %v), spec says %d", at, s.K, a, err, aerr, s.Res)
			}
		case "snap":
			sn := r.mut.GetSnapshot()
			r.snaps[s.S-1] = sn
			r.shash[s.S-1] = sn.Hash()
			r.observe(at, sn, s.SM[s.S-1], &s.Obs, s.S, s.K, rnd)
		case "snaplazy": // nothing is asked from the snapshot now (its nodes stay frozen-but-unhashed)
			r.snaps[s.S-1] = r.mut.GetSnapshot()
			r.shash[s.S-1] = nil
		case "check":
			r.observe(at, r.snaps[s.S-1], s.SM[s.S-1], &s.Obs, s.S, s.K, rnd)
		case "reset":
			if err := r.mut.Reset(r.snaps[s.S-1]); err != nil {
				r.viol("mpt:reset:error", "%s: %v", at, err)
			}
		case "flush":
			if err := r.snaps[s.S-1].Flush(); err != nil {
				r.viol("mpt:flush:error", "%s: %v", at, err)
			}
		case "reload":
			h := r.snaps[s.S-1].Hash()
			r.mut = trie_manager.NewMutable(r.dbase, h)
			r.observe(at, trie_manager.NewImmutable(r.dbase, h), s.SM[s.S-1], &s.Obs, s.S, s.K, rnd)
		case "look":
		case "clear":
			if s.S == 0 {
				r.mut.ClearCache()
			} else {
				r.snaps[s.S-1].ClearCache()
			}
		default:
			panic("unknown op " + s.Op)
		}
		// at every Look step (an action of the spec; reading realizes nodes, so it is not done behind the spec's back
		// after every call) and at the end: the mutable trie and every snapshot hold exactly what the spec says
		lookNow := s.Op == "look" || i == len(r.b.Steps)-1
		if lookNow {
			r.checkGets(at, "mutable", r.mut.Get, s.M, "mpt:get")
		}
		for j, sn := range r.snaps {
			if !lookNow {
				break
			}
			r.checkGets(at, fmt.Sprintf("snapshot %d", j+1), sn.Get, s.SM[j], "mpt:snapshot:changed")
			if r.c17() {
				h := sn.Hash()
				if r.shash[j] != nil && !bytes.Equal(h, r.shash[j]) {
					r.viol("mpt:snapshot:hash-changed", "%s: root hash of snapshot %d changed from %x to %x", at, j+1, r.shash[j], h)
				}
				r.checkHash(at+fmt.Sprintf(" snapshot %d", j+1), s.SM[j], h)
				if r.shash[j] == nil { // a lazily taken snapshot is hashed here for the first time
					r.shash[j] = h
				}
			}
		}
		for _, f := range r.fails {
			if f.fatal {
				return i
			}
		}
	}
	return -1
}

func TestReplay(t *testing.T) {
	if !tlaio.HaveInput() {
		t.Skip("driven by tools/check.py")
	}
	out := tlaio.OpenOut()
	rnd := tlaio.Rand()
	aspect := os.Getenv("VERIF_ASPECT")
	canon := map[string][]byte{}
	rcanon := map[string]string{}
	proofs := 0
	err := tlaio.ReadInput(func(idx int, raw json.RawMessage) error {
		if !tlaio.Mine(idx) {
			return nil
		}
		var b behaviour
		if err := json.Unmarshal(raw, &b); err != nil {
			return err
		}
		id := fmt.Sprintf("b%d", idx)
		out.Begin(id, "mpt:crash")
		r := &runner{b: &b, c: newConc(&b, rnd), aspect: aspect, canon: canon, rcanon: rcanon, out: out, caseID: id}
		at := r.run(rnd)
		proofs += r.proofs
		sg, nontrivial := sigOf(&b)
		if len(r.fails) > 0 {
			detail := map[string]interface{}{"behaviour": b, "nibbles": hex.EncodeToString(r.c.nib), "salt": r.c.salt, "at_step": at + 1}
			seen := map[string]bool{}
			for _, f := range r.fails { // one record per distinct violation key
				if f.violation && !seen[f.key] {
					seen[f.key] = true
					out.Violation(id, f.key, f.what, detail)
				}
			}
			if len(seen) == 0 {
				out.Divergence(id, r.fails[0].what, detail)
			}
		} else {
			out.OK(id, nontrivial, sg)
		}
		return nil
	})
	if err != nil {
		t.Fatal(err)
	}
	out.Close(map[string]int{"prove_calls": proofs})
}

func sigOf(b *behaviour) (string, bool) {
	var s bytes.Buffer
	nontrivial := false
	fmt.Fprintf(&s, "w%d:", b.W)
	for _, st := range b.Steps {
		fmt.Fprintf(&s, "%s%d.%d.%d;", st.Op[:2], st.K, st.V, st.S)
		if st.Op == "snap" || st.Op == "check" || st.Op == "reload" {
			nontrivial = true
		}
	}
	return s.String(), nontrivial
}
