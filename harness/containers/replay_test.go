package containers

// Replays behaviours of spec/data/ContainerKeys.tla and spec/data/Containers.tla into the real
// common/containerdb (C21).  The TLA+ text is the oracle: every step carries the key the spec
// predicts for every key builder alive (as segments: literal bytes or SHA3 of a preimage), the
// predicted SplitKeys result, the predicted container result and the predicted store contents.
// This driver only (a) turns abstract byte-string parts into typed Go values whose real
// ToBytes() form is that byte string (string, []byte, int, bool, byte, *big.Int, HexInt,
// Address, Value), (b) concretizes symbolic hashes with the real SHA3 and (c) reads the real
// results and store back.

import (
	"bytes"
	"encoding/hex"
	"encoding/json"
	"fmt"
	"math/big"
	"math/rand"
	"sort"
	"testing"

	"github.com/icon-project/goloop/common"
	"github.com/icon-project/goloop/common/containerdb"
	"github.com/icon-project/goloop/common/crypto"
	"github.com/icon-project/goloop/common/db"
	"github.com/icon-project/goloop/common/intconv"
	"github.com/icon-project/goloop/common/trie"
	"github.com/icon-project/goloop/common/trie/trie_manager"
	"github.com/icon-project/goloop/service/scoredb"
	"github.com/icon-project/goloop/service/state"

	"verifharness/tlaio"
)

// ---------------------------------------------------------------- abstract <-> real values

type bseq []int

func (b bseq) bytes() []byte {
	r := make([]byte, len(b))
	for i, x := range b {
		r[i] = byte(x)
	}
	return r
}

type seg struct {
	Lit *bseq `json:"lit"`
	H   *bseq `json:"h"`
}

func concSegs(ss []seg) []byte {
	var out []byte
	for _, s := range ss {
		if s.H != nil {
			out = append(out, crypto.SHA3Sum256(s.H.bytes())...)
		} else if s.Lit != nil {
			out = append(out, s.Lit.bytes()...)
		}
	}
	if out == nil {
		out = []byte{}
	}
	return out
}

type valueOf struct {
	containerdb.Value
	bs []byte
}

func (v valueOf) Bytes() []byte { return v.bs }

// typed returns a Go value of a seeded type whose containerdb.ToBytes() form is exactly bs.
// Candidates are produced by DECODING bs with the real decoders and kept only if the real
// ToBytes gives bs back, so no encoding knowledge lives here.
func typed(bs []byte, rnd *rand.Rand) (interface{}, string) {
	type cand struct {
		v interface{}
		n string
	}
	cs := []cand{{append([]byte{}, bs...), "bytes"}, {string(bs), "string"}, {valueOf{bs: append([]byte{}, bs...)}, "value"}}
	if len(bs) == 1 {
		cs = append(cs, cand{bs[0], "byte"}, cand{bs[0] != 0, "bool"})
	}
	if len(bs) >= 1 && len(bs) <= 8 {
		if v, ok := intconv.SafeBytesToInt64(bs); ok {
			cs = append(cs, cand{v, "int64"}, cand{int(v), "int"})
			if int64(int32(v)) == v {
				cs = append(cs, cand{int32(v), "int32"})
			}
			if int64(int16(v)) == v {
				cs = append(cs, cand{int16(v), "int16"})
			}
		}
	}
	if len(bs) >= 1 && len(bs) <= 40 {
		bi := intconv.BigIntSetBytes(new(big.Int), bs)
		cs = append(cs, cand{bi, "bigint"})
		hi := new(common.HexInt)
		hi.Set(bi)
		cs = append(cs, cand{hi, "hexint"})
	}
	if a, err := common.NewAddress(bs); err == nil {
		cs = append(cs, cand{a, "address"})
	}
	var ok []cand
	for _, c := range cs {
		if bytes.Equal(containerdb.ToBytes(c.v), bs) {
			ok = append(ok, c)
		}
	}
	c := ok[rnd.Intn(len(ok))]
	return c.v, c.n
}

func typedAll(parts []bseq, rnd *rand.Rand) ([]interface{}, string) {
	res := make([]interface{}, len(parts))
	names := ""
	for i, p := range parts {
		v, n := typed(p.bytes(), rnd)
		res[i] = v
		names += n + ","
	}
	return res, names
}

type builder struct {
	Type  string   `json:"type"`
	Raw   bseq     `json:"raw"`
	Parts []bseq   `json:"parts"`
	Ids   []string `json:"ids"`
}

// tkeyBuilder adapts scoredb.ToKey / scoredb.AppendKeys (plain functions on byte slices) to the KeyBuilder interface
type tkeyBuilder []byte

func (b tkeyBuilder) Append(keys ...interface{}) containerdb.KeyBuilder {
	return tkeyBuilder(scoredb.AppendKeys(b, keys...))
}
func (b tkeyBuilder) Build() []byte { return b }

// newBuilder calls the real constructor that the abstract builder stands for.
func newBuilder(b builder, rawGiven bool, rnd *rand.Rand) (containerdb.KeyBuilder, string) {
	keys, names := typedAll(b.Parts, rnd)
	switch b.Type {
	case "hash":
		if rawGiven {
			return containerdb.NewHashKey(b.Raw.bytes(), keys...), "NewHashKey(" + names + ")"
		}
		return containerdb.ToKey(containerdb.HashBuilder, keys...), "ToKey(Hash," + names + ")"
	case "phash":
		rv, rn := typed(b.Raw.bytes(), rnd)
		return containerdb.ToKey(containerdb.PrefixedHashBuilder, append([]interface{}{rv}, keys...)...), "ToKey(PrefixedHash," + rn + ";" + names + ")"
	case "tkey":
		return tkeyBuilder(scoredb.ToKey(b.Raw.bytes()[0], keys...)), "scoredb.ToKey(" + names + ")"
	case "rlp":
		return containerdb.ToKey(containerdb.RLPBuilder, keys...), "ToKey(RLP," + names + ")"
	case "raw":
		return containerdb.ToKey(containerdb.RawBuilder, keys...), "ToKey(Raw," + names + ")"
	}
	panic("unknown builder type " + b.Type)
}

// guarded turns a panic of the code under test into a reported failure of this case
func guarded(f func() (string, string), key string) (k string, what string) {
	defer func() {
		if r := recover(); r != nil {
			k, what = key, fmt.Sprintf("the code under test panicked: %v", r)
		}
	}()
	return f()
}

// ---------------------------------------------------------------- ContainerKeys replay

type splitRes struct {
	Ok    bool   `json:"ok"`
	Parts []bseq `json:"parts"`
	Input *bseq  `json:"input"`
}

type kstep struct {
	Op    string   `json:"op"`
	Type  string   `json:"type"`
	Raw   string   `json:"raw"`
	From  int      `json:"from"`
	Ps    []string `json:"ps"`
	Probe string   `json:"probe"`
	Res   splitRes `json:"res"`
	Rawb  bseq     `json:"rawb"`
	Args  []bseq   `json:"args"`
	Out   []seg    `json:"out"`
	Split splitRes `json:"split"`
	Ids   []string `json:"ids"`
}

type kbehaviour struct {
	Steps []kstep    `json:"steps"`
	Outs  [][]seg    `json:"outs"`
	Ids   [][]string `json:"ids"`
}

func sameParts(got [][]byte, want []bseq) bool {
	if len(got) != len(want) {
		return false
	}
	for i := range got {
		if !bytes.Equal(got[i], want[i].bytes()) {
			return false
		}
	}
	return true
}

func hx(b []byte) string {
	if len(b) > 48 {
		return fmt.Sprintf("%x..(%d bytes)", b[:48], len(b))
	}
	return hex.EncodeToString(b)
}

// returns key, what ("" = ok), divergence flag
func runKeys(bh kbehaviour, rnd *rand.Rand) (string, string, bool) {
	var kbs []containerdb.KeyBuilder
	var descr []string
	var allKeys [][]interface{} // the typed arguments each builder was made of (bookkeeping of our own calls)
	for i, s := range bh.Steps {
		switch s.Op {
		case "new":
			kb, d := newBuilder(builder{Type: s.Type, Raw: s.Rawb, Parts: s.Args}, s.Raw != "", rnd)
			keys, _ := typedAll(s.Args, rnd)
			kbs, descr, allKeys = append(kbs, kb), append(descr, d), append(allKeys, keys)
		case "append":
			keys, names := typedAll(s.Args, rnd)
			kbs = append(kbs, kbs[s.From-1].Append(keys...))
			descr = append(descr, descr[s.From-1]+".Append("+names+")")
			allKeys = append(allKeys, append(append([]interface{}{}, allKeys[s.From-1]...), keys...))
		case "probe":
			in := s.Res.Input.bytes()
			parts, err := containerdb.SplitKeys(in)
			if (err == nil) != s.Res.Ok || (err == nil && !sameParts(parts, s.Res.Parts)) {
				return "keys:probe:" + s.Probe, fmt.Sprintf("step %d SplitKeys(%s) = %x, err=%v; spec says ok=%v parts=%v",
					i, hx(in), parts, err, s.Res.Ok, s.Res.Parts), true
			}
			continue
		}
		// the newest builder must produce its predicted key ...
		j := len(kbs) - 1
		got := kbs[j].Build()
		want := concSegs(s.Out)
		if !bytes.Equal(got, want) {
			return "keys:build:" + s.Type, fmt.Sprintf("step %d (%s): builder %d %s with parts %v builds %s, spec says %s",
				i, s.Op, j+1, descr[j], s.Ids, hx(got), hx(want)), false
		}
		// ... and its composite key must split back into its parts
		comp := containerdb.AppendKeys([]byte{}, allKeys[j]...)
		if s.Type == "rlp" {
			comp = got
		}
		parts, err := containerdb.SplitKeys(comp)
		if (err == nil) != s.Split.Ok || !sameParts(parts, s.Split.Parts) {
			return "keys:split", fmt.Sprintf("step %d: SplitKeys(%s) of parts %v = %x, err=%v; spec says ok=%v parts=%v",
				i, hx(comp), s.Ids, parts, err, s.Split.Ok, s.Split.Parts), false
		}
	}
	// at the end every builder (also the ones other builders were derived from) still produces its own key
	if len(kbs) != len(bh.Outs) {
		return "keys:driver", fmt.Sprintf("%d builders, spec has %d", len(kbs), len(bh.Outs)), true
	}
	for j, kb := range kbs {
		got := kb.Build()
		want := concSegs(bh.Outs[j])
		if !bytes.Equal(got, want) {
			return "keys:build:final", fmt.Sprintf("at the end builder %d %s with parts %v builds %s, spec says %s",
				j+1, descr[j], bh.Ids[j], hx(got), hx(want)), false
		}
	}
	return "", "", false
}

func TestReplayKeys(t *testing.T) {
	if !tlaio.HaveInput() {
		t.Skip("driven by tools/check.py")
	}
	out := tlaio.OpenOut()
	rnd := tlaio.Rand()
	err := tlaio.ReadInput(func(idx int, raw json.RawMessage) error {
		var bh kbehaviour
		if err := json.Unmarshal(raw, &bh); err != nil {
			return err
		}
		steps := bh.Steps
		id := fmt.Sprintf("k%d", idx)
		sig := ""
		nontrivial := false
		for _, s := range steps {
			sig += fmt.Sprintf("%s:%s:%s:%d:%v:%s;", s.Op, s.Type, s.Raw, s.From, s.Ps, s.Probe)
			if s.Op == "append" || len(s.Ps) > 0 {
				nontrivial = true
			}
		}
		div := false
		key, what := guarded(func() (k string, w string) { k, w, div = runKeys(bh, rnd); return }, "keys:panic")
		switch {
		case what == "":
			out.OK(id, nontrivial, sig)
		case div:
			out.Divergence(id, what, map[string]interface{}{"key": key})
		default:
			out.Violation(id, key, what, map[string]interface{}{"kind": "keys", "behaviour": bh})
		}
		return nil
	})
	if err != nil {
		t.Fatal(err)
	}
	out.Close(nil)
}

// ---------------------------------------------------------------- Containers replay

type entry struct {
	T string `json:"t"`
	V int    `json:"v"`
}

type kv struct {
	K []seg `json:"k"`
	E entry `json:"e"`
}

type cstep struct {
	Op    string          `json:"op"`
	C     string          `json:"c"`
	I     int             `json:"i"`
	Ks    []bseq          `json:"ks"`
	V     int             `json:"v"`
	Via   []int           `json:"via"`
	Kb    builder         `json:"kb"`
	Api   string          `json:"api"`
	On    string          `json:"on"`
	Res   json.RawMessage `json:"res"`
	Store []kv            `json:"store"`
}

// a store that remembers which keys were ever touched, so that its contents can be enumerated
type snapFn func(k []byte) ([]byte, error)

func (f snapFn) GetValue(k []byte) ([]byte, error) { return f(k) }

type recStore struct {
	snapshot func() containerdb.BytesStoreSnapshot // an immutable view of the current contents
	get     func(k []byte) ([]byte, error)
	set     func(k, v []byte) ([]byte, error)
	del     func(k []byte) ([]byte, error)
	touched map[string]bool
}

func (s *recStore) GetValue(k []byte) ([]byte, error) { return s.get(k) }
func (s *recStore) SetValue(k, v []byte) ([]byte, error) {
	s.touched[string(k)] = true
	return s.set(k, v)
}
func (s *recStore) DeleteValue(k []byte) ([]byte, error) {
	s.touched[string(k)] = true
	return s.del(k)
}

func newMapStore() *recStore {
	m := map[string][]byte{}
	return &recStore{
		snapshot: func() containerdb.BytesStoreSnapshot {
			c := map[string][]byte{}
			for k, v := range m {
				c[k] = v
			}
			return snapFn(func(k []byte) ([]byte, error) { return c[string(k)], nil })
		},
		get: func(k []byte) ([]byte, error) { return m[string(k)], nil },
		set: func(k, v []byte) ([]byte, error) {
			o := m[string(k)]
			m[string(k)] = append([]byte{}, v...)
			return o, nil
		},
		del: func(k []byte) ([]byte, error) {
			o := m[string(k)]
			delete(m, string(k))
			return o, nil
		},
		touched: map[string]bool{},
	}
}

// newAccountStores: the stores of two contract accounts of one real world state; the second one is the
// neighbour contract that uses the same container names
func newAccountStores() (*recStore, *recStore) {
	ws := state.NewWorldState(db.NewMapDB(), nil, nil, nil, nil)
	mk := func(id byte) *recStore {
		as := ws.GetAccountState(append([]byte{id}, bytes.Repeat([]byte{0x77}, 19)...))
		return &recStore{get: as.GetValue, set: as.SetValue, del: as.DeleteValue, touched: map[string]bool{},
			snapshot: func() containerdb.BytesStoreSnapshot { return as.GetSnapshot() }}
	}
	return mk(1), mk(2)
}

func newTrieStore() *recStore {
	var tr trie.Mutable = trie_manager.NewMutable(db.NewMapDB(), nil)
	return &recStore{
		snapshot: func() containerdb.BytesStoreSnapshot { ss := tr.GetSnapshot(); return snapFn(ss.Get) },
		get:     func(k []byte) ([]byte, error) { return tr.Get(k) },
		set:     func(k, v []byte) ([]byte, error) { return tr.Set(k, v) },
		del:     func(k []byte) ([]byte, error) { return tr.Delete(k) },
		touched: map[string]bool{},
	}
}

// concrete form of an abstract stored value (seeded type per run)
func concVal(v int, kind int, salt byte) interface{} {
	switch kind {
	case 0:
		return fmt.Sprintf("value-%d-%02x", v, salt)
	case 1:
		return bytes.Repeat([]byte{byte(0x40 + v), salt}, 20+v)
	case 2:
		return 1000*int(salt) + v + 300
	case 3:
		return common.MustNewAddress(append([]byte{byte(v % 2)}, bytes.Repeat([]byte{salt, byte(v)}, 10)...))
	case 4:
		return big.NewInt(int64(v) + int64(salt)<<40)
	default:
		return v == 1 // bool: the two abstract values of the model
	}
}

type world struct {
	cur   containerdb.BytesStoreState // the store containers are opened on: the live store or the read-only snapshot
	snap  containerdb.BytesStoreState
	st    *recStore
	rnd   *rand.Rand
	kind  int
	salt  byte
	fresh bool
	arr   map[string]*containerdb.ArrayDB
	dict  map[string]*containerdb.DictDB
	vr    map[string]*containerdb.VarDB
}

func (w *world) array(s cstep) *containerdb.ArrayDB {
	if a, ok := w.arr[s.C]; ok && !w.fresh && s.On != "snap" {
		return a
	}
	var a *containerdb.ArrayDB
	if s.Api == "scoredb" { // the type part is added by scoredb itself
		keys, _ := typedAll(s.Kb.Parts[1:], w.rnd)
		a = scoredb.NewArrayDB(w.cur, keys...)
	} else {
		kb, _ := newBuilder(s.Kb, len(s.Kb.Raw) > 0, w.rnd)
		a = containerdb.NewArrayDB(w.cur, kb)
	}
	if s.On != "snap" {
		w.arr[s.C] = a
	}
	return a
}

func (w *world) dictdb(s cstep, depth int) *containerdb.DictDB {
	if d, ok := w.dict[s.C]; ok && !w.fresh && s.On != "snap" {
		return d
	}
	var d *containerdb.DictDB
	if s.Api == "scoredb" {
		keys, _ := typedAll(s.Kb.Parts[2:], w.rnd)
		d = scoredb.NewDictDB(w.cur, string(s.Kb.Parts[1].bytes()), depth, keys...)
	} else {
		kb, _ := newBuilder(s.Kb, len(s.Kb.Raw) > 0, w.rnd)
		d = containerdb.NewDictDB(w.cur, depth, kb)
	}
	if s.On != "snap" {
		w.dict[s.C] = d
	}
	return d
}

func (w *world) vardb(s cstep) *containerdb.VarDB {
	if v, ok := w.vr[s.C]; ok && !w.fresh && s.On != "snap" {
		return v
	}
	var v *containerdb.VarDB
	if s.Api == "scoredb" {
		keys, _ := typedAll(s.Kb.Parts[1:], w.rnd)
		v = scoredb.NewVarDB(w.cur, keys...)
	} else {
		kb, _ := newBuilder(s.Kb, len(s.Kb.Raw) > 0, w.rnd)
		v = containerdb.NewVarDB(w.cur, kb)
	}
	if s.On != "snap" {
		w.vr[s.C] = v
	}
	return v
}

// abstract value of real bytes: 0 for nil, v if the bytes are the concrete form of v, -1 otherwise
func (w *world) abs(bs []byte, vals int) int {
	if bs == nil {
		return 0
	}
	for v := 1; v <= vals; v++ {
		if bytes.Equal(bs, containerdb.ToBytes(concVal(v, w.kind, w.salt))) {
			return v
		}
	}
	return -1
}


// absV reads a stored value back through the typed getter that matches the type it was written with
// (String, Int64/Uint64/BigInt, Address, Bool, Bytes) and returns its abstract value, 0 for nil, -1 if unknown
func (w *world) absV(v containerdb.Value) int {
	if v == nil || v.Bytes() == nil {
		return 0
	}
	for a := 1; a <= nVals; a++ {
		switch c := concVal(a, w.kind, w.salt).(type) {
		case string:
			if v.String() == c {
				return a
			}
		case int:
			if v.Int64() == int64(c) && v.Uint64() == uint64(c) && v.BigInt().Cmp(big.NewInt(int64(c))) == 0 && containerdb.Int64Safe(v) == int64(c) {
				return a
			}
		case *common.Address:
			if ad := v.Address(); ad != nil && ad.Equal(c) {
				return a
			}
		case *big.Int:
			if v.BigInt().Cmp(c) == 0 && containerdb.BigIntSafe(v).Cmp(c) == 0 {
				return a
			}
		case bool:
			if a <= 2 && v.Bool() == c {
				return a
			}
		default:
			if bytes.Equal(v.Bytes(), containerdb.ToBytes(c)) {
				return a
			}
		}
	}
	return -1
}

const nVals = 3

func (w *world) step(s cstep) (string, error) {
	depthOf := map[string]int{"D1": 2, "D2": 1, "D3": 3}
	keys := func(ks []bseq) []interface{} { r, _ := typedAll(ks, w.rnd); return r }
	errRes := func(err error) string {
		if err != nil {
			return `"error"`
		}
		return `"ok"`
	}
	num := func(n int) string { return fmt.Sprintf("%d", n) }
	w.cur = w.st
	if s.On == "snap" { // containers opened on the read-only snapshot store
		w.cur = w.snap
	}
	switch s.Op {
	case "freeze":
		if w.rnd.Intn(2) == 0 {
			w.snap = scoredb.NewStateStoreWith(w.st.snapshot())
		} else {
			w.snap = containerdb.NewBytesStoreStateWithSnapshot(w.st.snapshot())
		}
		return `"ok"`, nil
	case "put":
		return errRes(w.array(s).Put(concVal(s.V, w.kind, w.salt))), nil
	case "pop":
		v := w.array(s).Pop()
		if v == nil {
			return "0", nil
		}
		return num(w.absV(v)), nil
	case "aset":
		return errRes(w.array(s).Set(s.I, concVal(s.V, w.kind, w.salt))), nil
	case "aget":
		v := w.array(s).Get(s.I)
		if v == nil {
			return "0", nil
		}
		return num(w.absV(v)), nil
	case "size":
		return num(w.array(s).Size()), nil
	case "dset", "ddel", "dget":
		depth := depthOf[s.C]
		d := w.dictdb(s, depth)
		ks := keys(s.Ks)
		for _, g := range s.Via { // sub-dictionaries: GetDB with g keys at once, possibly chained
			d = d.GetDB(ks[:g]...)
			if d == nil {
				return "", fmt.Errorf("GetDB with %d of the %d keys returned nil (via %v)", g, depth, s.Via)
			}
			ks = ks[g:]
		}
		switch s.Op {
		case "dset":
			return errRes(d.Set(append(ks, concVal(s.V, w.kind, w.salt))...)), nil
		case "ddel":
			return errRes(d.Delete(ks...)), nil
		default:
			v := d.Get(ks...)
			if v == nil {
				return "0", nil
			}
			return num(w.absV(v)), nil
		}
	case "getdb":
		d := w.dictdb(s, depthOf[s.C]).GetDB(keys(s.Ks)...)
		if d == nil {
			return "0", nil
		}
		return `"db"`, nil
	case "vset":
		return errRes(w.vardb(s).Set(concVal(s.V, w.kind, w.salt))), nil
	case "vdel":
		v, err := w.vardb(s).Delete()
		if err != nil {
			return `"error"`, nil
		}
		if v == nil {
			return "0", nil
		}
		return num(w.absV(v)), nil
	case "vget":
		return num(w.absV(w.vardb(s))), nil
	}
	return "", fmt.Errorf("unknown op %s", s.Op)
}

// compares the real store with the predicted one; returns "" when equal
func (w *world) compareStore(pred []kv) string {
	want := map[string]entry{}
	for _, p := range pred {
		want[string(concSegs(p.K))] = p.E
	}
	if len(want) != len(pred) {
		return fmt.Sprintf("predicted keys collide after concretization (%d of %d distinct)", len(want), len(pred))
	}
	var ks []string
	for k := range w.st.touched {
		ks = append(ks, k)
	}
	sort.Strings(ks)
	present := 0
	for _, k := range ks {
		bs, err := w.st.get([]byte(k))
		if err != nil {
			return fmt.Sprintf("store read failed: %v", err)
		}
		if bs == nil {
			continue
		}
		present++
		e, ok := want[k]
		if !ok {
			return fmt.Sprintf("store has an entry at key %x (value %s) that the spec does not predict", k, hx(bs))
		}
		if e.T == "size" {
			if got := containerdb.NewValue(containerdb.NewValueSnapshotFromBytes(bs)).Int64(); got != int64(e.V) {
				return fmt.Sprintf("array size entry at key %x is %d, spec says %d", k, got, e.V)
			}
		} else if got := w.abs(bs, nVals); got != e.V {
			return fmt.Sprintf("entry at key %x holds abstract value %d (%s), spec says %d", k, got, hx(bs), e.V)
		}
	}
	if present != len(want) {
		for k, e := range want {
			if bs, _ := w.st.get([]byte(k)); bs == nil {
				return fmt.Sprintf("store lacks the entry %v at key %x predicted by the spec", e, k)
			}
		}
	}
	return ""
}

func runContainers(steps []cstep, rnd *rand.Rand) (string, string) {
	w := &world{rnd: rnd, kind: rnd.Intn(6), salt: byte(rnd.Intn(256)), fresh: rnd.Intn(2) == 0,
		arr: map[string]*containerdb.ArrayDB{}, dict: map[string]*containerdb.DictDB{}, vr: map[string]*containerdb.VarDB{}}
	var neighbour *world
	switch rnd.Intn(3) {
	case 0:
		w.st = newMapStore()
	case 1:
		w.st = newTrieStore()
	default: // a contract account of a real world state, next to another contract doing the same calls
		var st2 *recStore
		w.st, st2 = newAccountStores()
		neighbour = &world{st: st2, rnd: rnd, kind: (w.kind + 1) % 6, salt: w.salt + 1, fresh: true,
			arr: map[string]*containerdb.ArrayDB{}, dict: map[string]*containerdb.DictDB{}, vr: map[string]*containerdb.VarDB{}}
	}
	for i, s := range steps {
		if neighbour != nil && s.On != "snap" && s.Op != "freeze" && rnd.Intn(2) == 0 {
			neighbour.step(s) // same containers, other contract, other values: must not show up in this contract's store
		}
		got, err := w.step(s)
		if err != nil {
			return "containers:" + s.Op + ":call", fmt.Sprintf("step %d %s(%s): %v", i, s.Op, s.C, err)
		}
		if got != string(bytes.TrimSpace(s.Res)) {
			return "containers:" + s.Op + ":result", fmt.Sprintf("step %d %s(%s i=%d ks=%v v=%d via=%v) returned %s, spec says %s",
				i, s.Op, s.C, s.I, s.Ks, s.V, s.Via, got, string(s.Res))
		}
		if what := w.compareStore(s.Store); what != "" {
			return "containers:" + s.Op + ":store", fmt.Sprintf("step %d after %s(%s i=%d ks=%v v=%d): %s", i, s.Op, s.C, s.I, s.Ks, s.V, what)
		}
	}
	return "", ""
}

func TestReplay(t *testing.T) {
	if !tlaio.HaveInput() {
		t.Skip("driven by tools/check.py")
	}
	out := tlaio.OpenOut()
	rnd := tlaio.Rand()
	err := tlaio.ReadInput(func(idx int, raw json.RawMessage) error {
		var steps []cstep
		if err := json.Unmarshal(raw, &steps); err != nil {
			return err
		}
		id := fmt.Sprintf("c%d", idx)
		sig := ""
		writes := 0
		for _, s := range steps {
			sig += fmt.Sprintf("%s:%s:%d:%v:%d:%v;", s.Op, s.C, s.I, s.Ks, s.V, s.Via)
			switch s.Op {
			case "put", "pop", "aset", "dset", "ddel", "vset", "vdel":
				writes++
			}
		}
		if len(steps) > 0 {
			sig = steps[0].Api + "/" + steps[0].Kb.Type + "/" + fmt.Sprint(steps[0].Kb.Raw) + "/" + sig
		}
		key, what := guarded(func() (string, string) { return runContainers(steps, rnd) }, "containers:panic")
		if what == "" {
			out.OK(id, writes >= 2, sig)
		} else {
			out.Violation(id, key, what, map[string]interface{}{"kind": "containers", "behaviour": steps})
		}
		return nil
	})
	if err != nil {
		t.Fatal(err)
	}
	out.Close(nil)
}
