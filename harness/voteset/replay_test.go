package voteset

// Replays behaviours of spec/consensus/VoteSet.tla into the real consensus.voteSet (C04)
// through the verif-tagged export consensus.VerifNewVoteSet. Abstract decisions are mapped to
// real round decisions (nil vote = network id as block id and no part set id; "A", "B" =
// distinct block ids with their part set ids; "A2" = block id of A with another part set id),
// abstract timestamps to real ones, validator slots to real wallets.

import (
	"encoding/json"
	"fmt"
	"sort"
	"testing"

	"github.com/icon-project/goloop/common/codec"
	"github.com/icon-project/goloop/common/crypto"
	"github.com/icon-project/goloop/common/wallet"
	"github.com/icon-project/goloop/consensus"
	"github.com/icon-project/goloop/module"

	"verifharness/tlaio"
)

type slotT struct {
	Dec string `json:"dec"`
	Ts  int    `json:"ts"`
}
type step struct {
	I        int     `json:"i"`
	Dec      string  `json:"dec"`
	Ts       int     `json:"ts"`
	Added    bool    `json:"added"`
	Any23    bool    `json:"any23"`
	Decision string  `json:"decision"`
	Slots    []slotT `json:"slots"`
	Members  []int   `json:"members"`
}
type behaviour struct {
	N     int    `json:"n"`
	Steps []step `json:"steps"`
}

type decision struct {
	id   []byte
	psid *consensus.PartSetID
}

var wallets []module.Wallet

func walletFor(i int) module.Wallet {
	for len(wallets) <= i {
		wallets = append(wallets, wallet.New())
	}
	return wallets[i]
}

func mkDecisions(salt int64) map[string]decision {
	h := func(s string) []byte { return crypto.SHA3Sum256([]byte(fmt.Sprintf("%s-%d", s, salt))) }
	psA := &consensus.PartSetID{Count: 1, Hash: h("psA")}
	psA2 := &consensus.PartSetID{Count: 2, Hash: h("psA2")}
	psB := &consensus.PartSetID{Count: 1, Hash: h("psB")}
	return map[string]decision{
		"nil": {codec.MustMarshalToBytes(int32(1)), nil},
		"A":   {h("A"), psA},
		"A2":  {h("A"), psA2},
		"B":   {h("B"), psB},
		"A3":  {h("A3"), psA}, // another block id under A's part set id
	}
}

type obs struct {
	T        string  `json:"t"`
	K        int     `json:"k"`
	Slots    []slotT `json:"slots"`
	Decision string  `json:"decision"`
	Any23    bool    `json:"any23"`
}

// run applies every add of the behaviour to the real vote set. It returns the first mismatch with the
// spec's prediction (diagnostic) and the observations of the real object after each add (the trace that
// Trace_VoteSet.tla judges).
func run(id string, b behaviour, salt int64, vt consensus.VoteType) (string, []obs) {
	decs := mkDecisions(salt)
	vs := consensus.VerifNewVoteSet(b.N)
	absOf := func(m *consensus.VoteMessage) slotT {
		if m == nil {
			return slotT{"none", 0}
		}
		for name, d := range decs {
			same := string(m.BlockID) == string(d.id)
			if d.psid == nil {
				same = same && m.BlockPartSetIDAndNTSVoteCount == nil
			} else {
				same = same && m.BlockPartSetIDAndNTSVoteCount != nil && m.BlockPartSetIDAndNTSVoteCount.ID().Equal(d.psid)
			}
			if same {
				return slotT{name, int(m.Timestamp - 1000*salt)}
			}
		}
		return slotT{"?", -1}
	}
	mismatch := ""
	note := func(f string, a ...interface{}) {
		if mismatch == "" {
			mismatch = fmt.Sprintf(f, a...)
		}
	}
	var trace []obs
	for k, s := range b.Steps {
		d := decs[s.Dec]
		msg := consensus.NewVoteMessage(walletFor(s.I-1), vt, 10, 2, d.id, d.psid, 1000*salt+int64(s.Ts), nil, nil, 0)
		added := vs.Add(s.I-1, msg)
		psid, ok := vs.OverTwoThirdsPartSetID()
		got := "none"
		if ok {
			got = "?"
			for name, dd := range decs {
				if (dd.psid == nil && psid == nil) || (dd.psid != nil && psid != nil && psid.Equal(dd.psid)) {
					got = name
				}
			}
			// several decisions may share a part set id: the votes of the +2/3 list name the decision
			if vl := vs.VoteListForOverTwoThirds(); vl != nil && vl.Len() > 0 {
				if a := absOf(vl.Get(0)); a.Dec != "?" && a.Dec != "none" {
					if d1, d2 := decs[a.Dec], decs[got]; (d1.psid == nil && d2.psid == nil) || (d1.psid != nil && d2.psid != nil && d1.psid.Equal(d2.psid)) {
						got = a.Dec
					}
				}
			}
		}
		o := obs{T: id, K: k + 1, Decision: got, Any23: vs.HasOverTwoThirds()}
		for i := 0; i < b.N; i++ {
			o.Slots = append(o.Slots, absOf(vs.Slot(i)))
		}
		trace = append(trace, o)
		if got != s.Decision {
			note("step %d (slot %d votes %s@%d): vote set reports +2/3 decision %q, spec %q for slots %v (n=%d)", k, s.I, s.Dec, s.Ts, got, s.Decision, s.Slots, b.N)
		}
		if o.Any23 != s.Any23 {
			note("step %d: hasOverTwoThirds=%v, spec says %v for slots %v (n=%d)", k, o.Any23, s.Any23, s.Slots, b.N)
		}
		if added != s.Added {
			note("step %d (slot %d votes %s@%d): add returned %v, spec says %v", k, s.I, s.Dec, s.Ts, added, s.Added)
		}
		for i := 0; i < b.N; i++ {
			if o.Slots[i] != s.Slots[i] {
				note("step %d: slot %d holds %v, spec says %v", k, i+1, o.Slots[i], s.Slots[i])
			}
		}
		// the lists handed to peers / commit certificates must be consistent with the real slots
		if n := vs.VoteList().Len(); n != countFilled(o.Slots) {
			note("step %d: voteList has %d votes, %d slots are filled", k, n, countFilled(o.Slots))
		}
		vl := vs.VoteListForOverTwoThirds()
		var mem []int
		if vl != nil {
			for i := 0; i < vl.Len(); i++ {
				m := vl.Get(i)
				if absOf(m).Dec != got {
					note("step %d: +2/3 vote list contains a vote for %s, reported decision is %s", k, absOf(m).Dec, got)
				}
				for j := 0; j < b.N; j++ {
					if sl := vs.Slot(j); sl != nil && string(codec.MustMarshalToBytes(sl)) == string(codec.MustMarshalToBytes(m)) {
						mem = append(mem, j+1)
					}
				}
			}
		}
		sort.Ints(mem)
		want := append([]int{}, s.Members...)
		sort.Ints(want)
		if fmt.Sprint(mem) != fmt.Sprint(want) {
			note("step %d: +2/3 vote list has members %v, spec says %v", k, mem, want)
		}
	}
	return mismatch, trace
}

func countFilled(s []slotT) int {
	n := 0
	for _, x := range s {
		if x.Dec != "none" {
			n++
		}
	}
	return n
}

func TestReplay(t *testing.T) {
	if !tlaio.HaveInput() {
		t.Skip("driven by tools/check.py")
	}
	out := tlaio.OpenOut()
	rnd := tlaio.Rand()
	err := tlaio.ReadInput(func(idx int, raw json.RawMessage) error {
		if !tlaio.Mine(idx) {
			return nil
		}
		var b behaviour
		if err := json.Unmarshal(raw, &b); err != nil {
			return err
		}
		salt := int64(1 + rnd.Intn(1000))
		vt := consensus.VoteType(rnd.Intn(2))
		sig := fmt.Sprintf("n%d:", b.N)
		nontrivial := false
		for _, s := range b.Steps {
			sig += fmt.Sprintf("%d%s%d,", s.I, s.Dec, s.Ts)
			if !s.Added || s.Decision != "none" {
				nontrivial = true
			}
		}
		id := fmt.Sprintf("b%d", idx)
		out.Begin(id, "voteset:crash")
		what, trace := run(id, b, salt, vt)
		if what != "" {
			// the verdict is taken by Trace_VoteSet.tla on the recorded observations
			out.Divergence(id, what, map[string]interface{}{"behaviour": b, "salt": salt, "trace": trace})
		} else if idx%50 == 0 {
			out.Emit(tlaio.Record{Case: id, Status: "ok", Nontrivial: nontrivial, Sig: sig, Detail: map[string]interface{}{"trace": trace}})
		} else {
			out.OK(id, nontrivial, sig)
		}
		return nil
	})
	if err != nil {
		t.Fatal(err)
	}
	out.Close(nil)
}
