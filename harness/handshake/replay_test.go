package handshake

// Replays behaviours of spec/net/Handshake.tla into real network.Authenticator instances (C32).
// Node b accepts up to three connections: session 1 from honest dialer a, session 2 from node m (the
// attacker's own node), session 3 from itself (self-connection). Every node is a real Authenticator with its own wallet; every connection a
// pair of real Peer objects over an in-memory transport, driven synchronously through the handler
// callbacks (onPeer / onPacket) exactly as Peer.receiveRoutine would. The key exchange runs
// unmodified (real ECDH + HKDF); the harness is the network: it takes the genuine signature
// messages off the wire and hands the handlers the message chosen by the behaviour (replayed,
// spliced between sessions, signed by m, or with a damaged key/signature encoding).
// The oracle is the TLA+ text: each delivery carries the predicted verdict (accept + identity /
// error:<reason>); the driver maps abstract terms [signer, content] to real signatures over the
// real session secrets and observes whether the next handler received the peer and with which id.

import (
	"bytes"
	"encoding/json"
	"fmt"
	"math/rand"
	"strings"
	"testing"
	"time"

	"github.com/icon-project/goloop/common"
	"github.com/icon-project/goloop/common/codec"
	"github.com/icon-project/goloop/common/crypto"
	"github.com/icon-project/goloop/common/wallet"
	"github.com/icon-project/goloop/module"
	"github.com/icon-project/goloop/network"

	"verifharness/securechan"
	"verifharness/tlaio"
)

type step struct {
	Op  string `json:"op"`
	S   int    `json:"s"`
	Pkw string `json:"pkw"`
	Pkf string `json:"pkf"`
	Sw  string `json:"sw"`
	Sc  int    `json:"sc"`
	Sf  string `json:"sf"`
	Err bool   `json:"err"`
	Res string `json:"res"`
	ID  string `json:"id"`
	Suite string `json:"suite"` // secure suite of the run: none | tls:<aead> | ecdhe:<aead>
	Acc   []struct {
		S    int    `json:"s"`
		Side string `json:"side"`
		ID   string `json:"id"`
	} `json:"acc"` // identities assigned so far, as the spec says they must (still) be
}

type verdict struct {
	key, what string
	violation bool
}

type node struct {
	name     string
	w        module.Wallet
	a        *network.Authenticator
	id       module.PeerID
	idb      []byte // the node's identity as plain bytes (copies, independent of any PeerID object)
	ids      string
	accepted map[*network.Peer]module.PeerID // peers handed to the next handler, with their id at that moment
}

func newNode(name string) *node {
	n := &node{name: name, w: wallet.New(), accepted: map[*network.Peer]module.PeerID{}}
	n.a = network.VerifNewAuthenticator(n.w)
	n.id = network.NewPeerIDFromAddress(n.w.Address())
	n.idb = append([]byte(nil), n.w.Address().ID()...)
	n.ids = n.w.Address().String()
	network.VerifAuthSetNext(n.a, func(p *network.Peer) { n.accepted[p] = p.ID() })
	return n
}

type session struct {
	dialer, acceptor *node
	pd, pa           *network.Peer // the dialer's and the acceptor's peer object of this connection
	secret           []byte
	secureReq        *network.VerifPacket // the SecureRequest that opened the session, as recorded on the wire
	sigReq           *network.SignatureRequest // the dialer's genuine SignatureRequest, as recorded on the wire
	replayOf         int                  // > 0: connection opened by the attacker with the SecureRequest of that session
}

type world struct {
	pending *verdict // a violation noticed on the way, reported unless a more specific one follows
	rnd   *rand.Rand
	nodes map[string]*node
	sess  map[int]*session
	suite network.SecureSuite
	aead  network.SecureAeadSuite
}

const channel = "verif"

// next takes the next packet the peer object p would receive
func next(p *network.Peer) (*network.Packet, error) { return network.VerifPeerReader(p).ReadPacket() }

func (w *world) start(s int) *verdict {
	se := w.sess[s]
	ca, cb, _, _ := securechan.NewPipe(nil)
	// an accepted peer starts its receive routine: it must find a connection that blocks like a socket
	ca.Blocking, cb.Blocking = true, true
	ca.BlockFor, cb.BlockFor = 20*time.Second, 20*time.Second
	se.pd = network.VerifAuthNewPeer(ca, false, channel)
	se.pa = network.VerifAuthNewPeer(cb, true, "")
	_ = se.dialer.a.SetSecureSuites(channel, []network.SecureSuite{w.suite})
	_ = se.dialer.a.SetSecureAeads(channel, []network.SecureAeadSuite{w.aead})
	network.VerifAuthOnPeer(se.acceptor.a, se.pa)
	network.VerifAuthOnPeer(se.dialer.a, se.pd) // sends SecureRequest
	// message 0: SecureRequest at the acceptor; message 1: SecureResponse at the dialer
	pkt0, err := next(se.pa)
	if err != nil {
		return &verdict{"handshake:driver", fmt.Sprintf("session %d: no SecureRequest: %v", s, err), false}
	}
	f0 := network.VerifPacketOf(pkt0) // the network records the SecureRequest
	f0.Payload = append([]byte(nil), f0.Payload...)
	se.secureReq = &f0
	network.VerifAuthOnPacket(se.acceptor.a, pkt0, se.pa)
	if se.pa.IsClosed() {
		return &verdict{"handshake:driver", fmt.Sprintf("session %d: key exchange failed at the acceptor: %s", s, se.pa.CloseInfo()), false}
	}
	pkt1, err := next(se.pd)
	if err != nil {
		return &verdict{"handshake:driver", fmt.Sprintf("session %d: no SecureResponse: %v", s, err), false}
	}
	// with the tls suite the dialer runs the TLS client handshake inside this handler; the accepting side answers it
	// when it reads next (below), so the handler runs beside the driver
	hs := make(chan struct{})
	go func() {
		defer close(hs)
		network.VerifAuthOnPacket(se.dialer.a, pkt1, se.pd)
	}()
	if w.suite != network.SecureSuiteTls {
		<-hs
		if se.pd.IsClosed() {
			return &verdict{"handshake:driver", fmt.Sprintf("session %d: key exchange failed at the dialer: %s", s, se.pd.CloseInfo()), false}
		}
	}
	defer func() { <-hs }()
	// the dialer's genuine SignatureRequest is now in transit: the harness (the network) takes it
	pkt, err := next(se.pa)
	if err != nil {
		return &verdict{"handshake:driver", fmt.Sprintf("session %d: no SignatureRequest (suite %s): %v", s, w.suite, err), false}
	}
	<-hs // the dialer's handler has returned
	f := network.VerifPacketOf(pkt)
	var rq network.SignatureRequest
	if _, err := codec.MP.UnmarshalFromBytes(f.Payload, &rq); err != nil || f.SubProtocol != network.VerifAuthSignatureRequest {
		return &verdict{"handshake:driver", fmt.Sprintf("session %d: unexpected message %#x: %v", s, f.SubProtocol, err), false}
	}
	se.sigReq = &rq
	sd, sa := network.VerifPeerSessionSecret(se.pd), network.VerifPeerSessionSecret(se.pa)
	if len(sd) == 0 || len(sa) == 0 {
		return &verdict{"authenticator:session-secret-reused", fmt.Sprintf("session %d (secure suite %s): the key exchange left NO session secret (dialer %d bytes, acceptor %d bytes): both sides sign and verify the empty string, so a SignatureRequest recorded in any session is valid in every other one", s, w.suite, len(sd), len(sa)), true}
	}
	if !bytes.Equal(sd, sa) {
		return &verdict{"handshake:secret-mismatch", fmt.Sprintf("session %d: the two ends derived different session secrets", s), false}
	}
	se.secret = sd
	for o, other := range w.sess {
		if o != s && other.secret != nil && bytes.Equal(other.secret, sd) {
			return &verdict{"authenticator:session-secret-reused", fmt.Sprintf("sessions %d and %d have the same session secret: a signature over it is not bound to one session", o, s), true}
		}
	}
	// the genuine request must be what the spec says the dialer emits: its key, its signature over this secret
	if id, err := se.acceptor.a.VerifySignature(rq.PublicKey, rq.Signature, sd); err != nil || !is(id, se.dialer) {
		return &verdict{"handshake:genuine-request", fmt.Sprintf("session %d: the dialer's own SignatureRequest does not verify: %v", s, err), false}
	}
	return nil
}

// replayTranscript: the attacker opens a new connection to the acceptor and sends the SecureRequest
// recorded in session from; the acceptor runs its normal key exchange on it
func (w *world) replayTranscript(t, from int) *verdict {
	rec := w.sess[from]
	if rec == nil || rec.secureReq == nil {
		return &verdict{"handshake:driver", "transcript replay of a session that was not recorded", false}
	}
	se := &session{dialer: rec.dialer, acceptor: rec.acceptor, replayOf: from}
	w.sess[t] = se
	_, cb, _, _ := securechan.NewPipe(nil)
	cb.Blocking, cb.BlockFor = true, 20*time.Second
	if w.suite == network.SecureSuiteTls {
		cb.BlockFor = 200 * time.Millisecond // nobody completes the TLS handshake on this connection
	}
	se.pa = network.VerifAuthNewPeer(cb, true, "")
	network.VerifAuthOnPeer(se.acceptor.a, se.pa)
	f := *rec.secureReq
	f.Hash = 0
	network.VerifAuthOnPacket(se.acceptor.a, network.VerifNewPacket(f), se.pa)
	if se.pa.IsClosed() {
		return &verdict{"handshake:replay-refused", fmt.Sprintf("connection %d: the replayed SecureRequest of session %d was refused: %s", t, from, se.pa.CloseInfo()), false}
	}
	se.secret = network.VerifPeerSessionSecret(se.pa)
	if len(se.secret) == 0 {
		return &verdict{"authenticator:session-secret-reused", fmt.Sprintf("connection %d (secure suite %s): no session secret after the replayed SecureRequest", t, w.suite), true}
	}
	for o, other := range w.sess {
		if o != t && other.secret != nil && bytes.Equal(other.secret, se.secret) {
			// keep going: the replayed SignatureRequest will show what this allows
			w.pending = &verdict{"authenticator:session-secret-reused", fmt.Sprintf("connection %d opened with the recorded SecureRequest of session %d got the SAME session secret as session %d: the acceptor contributed no fresh randomness, recorded signatures stay valid", t, from, o), true}
		}
	}
	return nil
}

// is reports whether a PeerID denotes node n (compared by value, not by object)
func is(id module.PeerID, n *node) bool {
	return id != nil && bytes.Equal(id.Bytes(), n.idb) && id.String() == n.ids
}

// otherIDs: the environment creates many peer ids that have nothing to do with the sessions -- more than
// the id cache of the network package holds (100) -- through every public way an id comes into being
func (w *world) otherIDs(n int) *verdict {
	var wire bytes.Buffer
	pw := network.NewPacketWriter(&wire)
	for i := 0; i < n; i++ {
		b := make([]byte, 20)
		w.rnd.Read(b)
		switch i % 3 {
		case 0:
			_ = network.NewPeerID(b)
		case 1:
			_ = network.NewPeerIDFromAddress(common.NewAccountAddress(b))
		default: // a packet with a foreign src id passes through the packet reader
			pkt := network.VerifNewPacket(network.VerifPacket{Protocol: 0x0500, SubProtocol: 0x0100, Src: b, Dest: 0, TTL: 0, Payload: []byte{byte(i)}})
			if err := pw.WritePacket(pkt); err != nil {
				return &verdict{"handshake:driver", "WritePacket: " + err.Error(), false}
			}
			if _, err := network.NewPacketReader(&wire).ReadPacket(); err != nil {
				return &verdict{"handshake:driver", "ReadPacket: " + err.Error(), false}
			}
		}
	}
	return nil
}

// identities compares Peer.ID() of every connection the spec lists as identified with the proven identity
func (w *world) identities(i int, st step) *verdict {
	for _, a := range st.Acc {
		se := w.sess[a.S]
		if se == nil {
			continue
		}
		p, holder := se.pa, se.acceptor
		if a.Side == "d" {
			p, holder = se.pd, se.dialer
		}
		if p == nil {
			continue
		}
		if _, ok := holder.accepted[p]; !ok {
			continue // not handed on by the real code: reported where it happened
		}
		if got := p.ID(); !is(got, w.nodes[a.ID]) {
			return &verdict{"authenticator:identity-changed",
				fmt.Sprintf("step %d (%s): the connection of session %d (%s side) was identified as node %s (%s) by a verified signature, now Peer.ID() returns %v: an accepted connection changed its identity without any proof", i, st.Op, a.S, map[string]string{"a": "acceptor", "d": "dialer"}[a.Side], a.ID, w.nodes[a.ID].ids, got), true}
		}
	}
	return nil
}

// wrongMessage builds the packet for a protocol misuse: "garbage" = the awaited kind with an undecodable
// payload, otherwise a well-formed message of another kind
func (w *world) wrongMessage(what string, awaited uint16, other uint16, from []byte) *network.Packet {
	sub := awaited
	var payload []byte
	switch what {
	case "garbage":
		if w.rnd.Intn(2) == 0 {
			payload = []byte{0xc1, 0xff, 0x00} // not a value of the codec
		} else { // a valid value followed by extra bytes
			payload = append(codec.MP.MustMarshalToBytes(&network.SignatureRequest{PublicKey: []byte{1}, Signature: []byte{2}}), 0x01, 0x02)
		}
	case "securerequest":
		sub = network.VerifAuthSecureRequest
		payload = codec.MP.MustMarshalToBytes(&network.SecureRequest{Channel: channel, SecureSuites: []network.SecureSuite{w.suite},
			SecureAeadSuites: []network.SecureAeadSuite{w.aead}, SecureParam: []byte{4}})
	case "secureresponse":
		sub = network.VerifAuthSecureResponse
		payload = codec.MP.MustMarshalToBytes(&network.SecureResponse{Channel: channel, SecureSuite: w.suite, SecureAeadSuite: w.aead, SecureParam: []byte{4}})
	case "othersig", "earlysig":
		sub = other
		n := w.nodes["a"]
		payload = codec.MP.MustMarshalToBytes(&network.SignatureRequest{PublicKey: n.w.PublicKey(), Signature: n.a.Signature([]byte("no session secret"))})
	}
	return network.VerifNewPacket(network.VerifPacket{Protocol: network.VerifProtoAuth, SubProtocol: sub, Src: from,
		Dest: network.VerifDestPeer, TTL: 1, Payload: payload})
}

// refused: after a misuse the connection must be closed and must not have been handed on
func refused(n *node, p *network.Peer, desc, res string) *verdict {
	if id, ok := n.accepted[p]; ok {
		return &verdict{"authenticator:accepted:misuse:" + res[6:], desc + fmt.Sprintf(": the peer was handed on with identity %v, spec says %s", id, res), true}
	}
	if !p.IsClosed() {
		return &verdict{"handshake:not-closed", desc + ": spec says " + res + ", the connection stays open", false}
	}
	return nil
}

func (w *world) misuse(i int, st step) *verdict {
	se := w.sess[st.S]
	desc := fmt.Sprintf("step %d: session %d, %s sent to the %s side", i, st.S, st.Pkf, st.Sf)
	if st.Sf == "a" { // the acceptor waits for the SignatureRequest
		network.VerifAuthOnPacket(se.acceptor.a, w.wrongMessage(st.Pkf, network.VerifAuthSignatureRequest, network.VerifAuthSignatureResponse, se.dialer.idb), se.pa)
		return refused(se.acceptor, se.pa, desc, st.Res)
	}
	network.VerifAuthOnPacket(se.dialer.a, w.wrongMessage(st.Pkf, network.VerifAuthSignatureResponse, network.VerifAuthSignatureRequest, se.acceptor.idb), se.pd)
	return refused(se.dialer, se.pd, desc, st.Res)
}

// freshMisuse: the attacker opens a connection to the acceptor and starts with something else than a proper SecureRequest
func (w *world) freshMisuse(i int, st step) *verdict {
	b := w.nodes["b"]
	se := &session{dialer: w.nodes["m"], acceptor: b, replayOf: -1}
	w.sess[st.S] = se
	_, cb, _, _ := securechan.NewPipe(nil)
	cb.Blocking, cb.BlockFor = true, 20*time.Second
	se.pa = network.VerifAuthNewPeer(cb, true, "")
	network.VerifAuthOnPeer(b.a, se.pa)
	var pkt *network.Packet
	switch st.Pkf {
	case "earlysig":
		pkt = w.wrongMessage("earlysig", 0, network.VerifAuthSignatureRequest, w.nodes["m"].idb)
	case "badparam":
		bad := [][]byte{{0x04, 1, 2, 3}, {}, bytes.Repeat([]byte{0x04}, 65)}[w.rnd.Intn(3)]
		pkt = network.VerifNewPacket(network.VerifPacket{Protocol: network.VerifProtoAuth, SubProtocol: network.VerifAuthSecureRequest,
			Src: w.nodes["m"].idb, Dest: network.VerifDestPeer, TTL: 1,
			Payload: codec.MP.MustMarshalToBytes(&network.SecureRequest{Channel: channel, SecureSuites: []network.SecureSuite{w.suite},
				SecureAeadSuites: []network.SecureAeadSuite{w.aead}, SecureParam: bad})})
	default:
		pkt = w.wrongMessage("garbage", network.VerifAuthSecureRequest, 0, w.nodes["m"].idb)
	}
	network.VerifAuthOnPacket(b.a, pkt, se.pa)
	return refused(b, se.pa, fmt.Sprintf("step %d: fresh connection %d starting with %s", i, st.S, st.Pkf), st.Res)
}

func (w *world) pubKey(owner, form string) []byte {
	pk := w.nodes[owner].w.PublicKey()
	switch form {
	case "comp":
		return pk
	case "uncomp":
		k, err := crypto.ParsePublicKey(pk)
		if err != nil {
			panic(err)
		}
		return k.SerializeUncompressed()
	}
	switch w.rnd.Intn(4) { // "bad": encodings that are not a public key
	case 0:
		return nil
	case 1:
		return []byte{0x00}
	case 2:
		return pk[:len(pk)-1]
	default:
		b := append([]byte(nil), pk...)
		b[0] = 0x05
		return b
	}
}

func (w *world) signature(signer string, content int, form string) []byte {
	sig := append([]byte(nil), w.nodes[signer].a.Signature(w.sess[content].secret)...)
	switch form {
	case "full":
	case "nov":
		sig = sig[:64]
	case "vflip":
		sig[64] ^= 1
	case "rflip":
		sig[w.rnd.Intn(64)] ^= 1 << uint(w.rnd.Intn(8))
	case "empty":
		sig = nil
	case "short":
		sig = sig[:63]
	case "long":
		sig = append(sig, byte(w.rnd.Intn(256)))
	}
	return sig
}

func (w *world) deliver(i int, st step) *verdict {
	se := w.sess[st.S]
	toAcc := st.Op == "toacc"
	target, peer, from := se.dialer, se.pd, se.acceptor
	sub := network.VerifAuthSignatureResponse
	if toAcc {
		target, peer, from = se.acceptor, se.pa, se.dialer
		sub = network.VerifAuthSignatureRequest
	}
	var payload []byte
	var pk, sig []byte
	if !st.Err {
		pk, sig = w.pubKey(st.Pkw, st.Pkf), w.signature(st.Sw, st.Sc, st.Sf)
	}
	if st.Op == "reflect" {
		// the accepting end did the anonymous key exchange and echoes the dialer's own SignatureRequest fields
		// (byte for byte what travelled; only the key encoding may be re-encoded as the behaviour says)
		sig = se.sigReq.Signature
		if st.Pkf == "comp" {
			pk = se.sigReq.PublicKey
		}
	}
	if toAcc {
		payload = codec.MP.MustMarshalToBytes(&network.SignatureRequest{PublicKey: pk, Signature: sig})
	} else if st.Err {
		payload = codec.MP.MustMarshalToBytes(&network.SignatureResponse{Error: "refused"})
	} else {
		payload = codec.MP.MustMarshalToBytes(&network.SignatureResponse{PublicKey: pk, Signature: sig})
	}
	desc := fmt.Sprintf("step %d: session %d (%s->%s) %s{key of %s (%s), signature by %s over the secret of session %d (%s), err=%v}",
		i, st.S, se.dialer.name, se.acceptor.name, st.Op, st.Pkw, st.Pkf, st.Sw, st.Sc, st.Sf, st.Err)
	if se.replayOf > 0 {
		desc = fmt.Sprintf("connection %d was opened by replaying the recorded SecureRequest of session %d; ", st.S, se.replayOf) + desc
	}
	side := "dialer"
	if toAcc {
		side = "acceptor"
	}
	// the function named by the property, directly: identity only with a valid signature over THIS session's secret
	if !st.Err {
		id, err := target.a.VerifySignature(pk, sig, se.secret)
		wantOK := st.Res == "accept" || st.Res == "error:self"
		if err == nil && !wantOK {
			return &verdict{"authenticator:verify-accepted:" + st.Res[6:], desc + ": VerifySignature returned no error, spec says " + st.Res, true}
		}
		if err == nil && !is(id, w.nodes[st.Pkw]) {
			return &verdict{"authenticator:wrong-id", desc + fmt.Sprintf(": VerifySignature returned id %v, the key belongs to %v", id, w.nodes[st.Pkw].id), true}
		}
		if err != nil && wantOK {
			return &verdict{"authenticator:verify-refused", desc + ": VerifySignature failed: " + err.Error(), false}
		}
	}
	pkt := network.VerifNewPacket(network.VerifPacket{Protocol: network.VerifProtoAuth, SubProtocol: sub,
		Src: from.idb, Dest: network.VerifDestPeer, TTL: 1, Payload: payload})
	network.VerifAuthOnPacket(target.a, pkt, peer)
	gotID, accepted := target.accepted[peer]
	if accepted {
		if st.Res == "error:self" && toAcc {
			// a valid proof by the node's own key: refusing it is protocol behaviour, not part of the property
			return &verdict{"handshake:self-accepted", desc + ": the acceptor handed on a peer with its own identity", false}
		}
		if st.Res == "error:self" && !toAcc {
			return &verdict{"authenticator:identity-without-key:reflection",
				desc + fmt.Sprintf(": the dialer handed the connection on with ITS OWN identity %v -- the other end only echoed the dialer's public key and signature and never proved possession of any key (handleSignatureResponse has no self-identity test); required: refused (selfAddress), closed", gotID), true}
		}
		if st.Res != "accept" {
			return &verdict{"authenticator:accepted:" + side + ":" + st.Res[6:],
				desc + fmt.Sprintf(": the %s handed the peer on with identity %v, spec says %s", side, gotID, st.Res), true}
		}
		if !is(gotID, w.nodes[st.ID]) {
			return &verdict{"authenticator:wrong-id", desc + fmt.Sprintf(": peer got identity %v, spec says %s", gotID, st.ID), true}
		}
		other := se.pa
		if toAcc {
			other = se.pd
		}
		// (when the other end has already closed, an encrypted channel delivers its close notification to the accepted
		// peer's receive routine at once: a closed connection is then the correct state)
		if peer.IsClosed() && (other == nil || !other.IsClosed()) {
			return &verdict{"handshake:closed-after-accept", desc + ": peer accepted and closed", false}
		}
	} else {
		if st.Res == "accept" {
			return &verdict{"handshake:refused", desc + ": spec says accept, the peer was not handed on: " + peer.CloseInfo(), false}
		}
		if !peer.IsClosed() {
			return &verdict{"handshake:not-closed", desc + ": refused but the connection stays open", false}
		}
	}
	_, dialerDone := se.dialer.accepted[se.pd]
	if toAcc && se.pd != nil && !dialerDone && !se.pd.IsClosed() {
		// the acceptor's answer travels to the dialer: the network takes it (the behaviour decides what arrives)
		rp, err := next(se.pd)
		if err != nil {
			return &verdict{"handshake:driver", desc + ": no SignatureResponse: " + err.Error(), false}
		}
		var rs network.SignatureResponse
		f := network.VerifPacketOf(rp)
		if _, err := codec.MP.UnmarshalFromBytes(f.Payload, &rs); err != nil {
			return &verdict{"handshake:driver", desc + ": undecodable SignatureResponse", false}
		}
		if (rs.Error == "") != accepted {
			return &verdict{"handshake:response", desc + fmt.Sprintf(": response error=%q, accepted=%v", rs.Error, accepted), false}
		}
		if accepted {
			if id, err := se.dialer.a.VerifySignature(rs.PublicKey, rs.Signature, se.secret); err != nil || !is(id, se.acceptor) {
				return &verdict{"handshake:genuine-response", desc + ": the acceptor's own SignatureResponse does not verify", false}
			}
		}
	}
	return nil
}

func runBehaviour(steps []step, rnd *rand.Rand) *verdict {
	w := &world{rnd: rnd, nodes: map[string]*node{}, sess: map[int]*session{}}
	for _, n := range []string{"a", "b", "m"} {
		w.nodes[n] = newNode(n)
	}
	w.sess[1] = &session{dialer: w.nodes["a"], acceptor: w.nodes["b"]}
	w.sess[2] = &session{dialer: w.nodes["m"], acceptor: w.nodes["b"]}
	w.sess[3] = &session{dialer: w.nodes["b"], acceptor: w.nodes["b"]} // b dials its own listener
	// the secure suite is a dimension of the spec: the nodes negotiate what the behaviour says
	w.suite, w.aead = network.SecureSuiteNone, network.SecureAeadSuiteChaCha20Poly1305
	if len(steps) > 0 {
		parts := strings.SplitN(steps[0].Suite, ":", 2)
		switch parts[0] {
		case "tls":
			w.suite = network.SecureSuiteTls
		case "ecdhe":
			w.suite = network.SecureSuiteEcdhe
		}
		if len(parts) == 2 {
			w.aead = map[string]network.SecureAeadSuite{"chacha": network.SecureAeadSuiteChaCha20Poly1305,
				"aes128": network.SecureAeadSuiteAes128Gcm, "aes256": network.SecureAeadSuiteAes256Gcm}[parts[1]]
		}
	}
	defer func() {
		for _, se := range w.sess {
			for _, p := range []*network.Peer{se.pd, se.pa} {
				if p != nil {
					p.Close("end of behaviour")
				}
			}
		}
	}()
	for i, st := range steps {
		var v *verdict
		switch st.Op {
		case "start":
			v = w.start(st.S)
		case "replaytx":
			v = w.replayTranscript(st.S, st.Sc)
		case "toacc", "todial", "reflect":
			v = w.deliver(i, st)
		case "churn":
			v = w.otherIDs(150)
		case "misuse":
			v = w.misuse(i, st)
		case "freshmisuse":
			v = w.freshMisuse(i, st)
		}
		if v == nil {
			v = w.identities(i, st)
		}
		if v != nil {
			if w.pending != nil && v.violation {
				v.what += " [" + w.pending.what + "]"
			}
			return v
		}
	}
	return w.pending
}

func TestReplay(t *testing.T) {
	if !tlaio.HaveInput() {
		t.Skip("driven by tools/check.py")
	}
	out := tlaio.OpenOut()
	rnd := tlaio.Rand()
	err := tlaio.ReadInput(func(idx int, raw json.RawMessage) error {
		var steps []step
		sub := rnd.Int63()
		if err := json.Unmarshal(raw, &steps); err != nil {
			var rp struct {
				Behaviour []step `json:"behaviour"`
				Sub       int64  `json:"sub"`
			}
			if err2 := json.Unmarshal(raw, &rp); err2 != nil || rp.Behaviour == nil {
				return err
			}
			steps, sub = rp.Behaviour, rp.Sub
		}
		if !tlaio.Mine(idx) {
			return nil
		}
		sig, nontrivial := "", false
		for _, s := range steps {
			sig += fmt.Sprintf("%s%d:%s.%s.%s%d.%s.%v;", s.Op, s.S, s.Pkw, s.Pkf, s.Sw, s.Sc, s.Sf, s.Err)
			if s.Op != "start" {
				nontrivial = true
			}
		}
		id := fmt.Sprintf("b%d", idx)
		out.Begin(id, "authenticator:crash") // a panic of a handler is attributed to this behaviour
		v := runBehaviour(steps, rand.New(rand.NewSource(sub)))
		detail := map[string]interface{}{"behaviour": steps, "sub": sub}
		if v == nil {
			out.OK(id, nontrivial, sig)
		} else if v.violation {
			out.Violation(id, v.key, v.what, detail)
		} else {
			out.Divergence(id, v.key+": "+v.what, detail)
		}
		return nil
	})
	if err != nil {
		t.Fatal(err)
	}
	out.Close(nil)
}
