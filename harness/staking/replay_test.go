package staking

// Replays behaviours of spec/iiss/Staking.tla into the real IISS code through icon/icsim (C34).
//
// The oracle is the TLA+ text: every transaction step carries the spec's accept/reject verdict,
// every "end" step the predicted projection (balance, stake, unstake slots, delegations, bonds,
// unbonds, P-Rep status of every modelled account, network totals) and the set of unstake slots
// whose timer entry the code's job list loses.  This driver only
//   (a) concretizes: abstract accounts -> fresh addresses funded with MaxAmt units, external
//       P-Reps -> P-Reps registered by icsim.NewEnv, one model block -> one real block with the
//       transactions followed by T-1 empty blocks (T = term period; lock and unbonding periods are
//       multiples of T, so real height = base + T * model height), one unit -> 2000/Fee ICX;
//   (b) projects the real state back with getters, and
//   (c) evaluates the property itself (C34's invariants) on the real state of ALL accounts of the
//       simulated network after every block.
// Verdict-bearing (Violation): the invariants on the real state and acceptance of a transaction
// whose rejection the invariants force.  Everything else that differs from the prediction is a
// Divergence (diagnostic).

import (
	"encoding/json"
	"fmt"
	"math/big"
	"math/rand"
	"sort"
	"strings"
	"testing"

	"github.com/icon-project/goloop/common"
	"github.com/icon-project/goloop/common/log"
	"github.com/icon-project/goloop/icon/icmodule"
	"github.com/icon-project/goloop/icon/icsim"
	"github.com/icon-project/goloop/icon/iiss/icstate"
	"github.com/icon-project/goloop/module"
	"github.com/icon-project/goloop/service/state"

	"verifharness/tlaio"
)

type modelCfg struct {
	Accts        []string `json:"accts"`
	Ext          []string `json:"ext"`
	MaxAmt       int64    `json:"maxamt"`
	Fee          int64    `json:"fee"`
	SlotMax      int64    `json:"slotmax"`
	UnbondPeriod int64    `json:"unbondperiod"`
	UnbondMax    int64    `json:"unbondmax"`
	ExtBond      int64    `json:"extbond"`
	ExtDeleg     int64    `json:"extdeleg"`
}

type ubnd struct {
	Val int64 `json:"val"`
	Exp int64 `json:"exp"`
}
type slot struct {
	Val int64 `json:"val"`
	Exp int64 `json:"exp"`
}
type acctProj struct {
	Bal    int64            `json:"bal"`
	Stake  int64            `json:"stake"`
	Slots  []slot           `json:"slots"`
	Deleg  map[string]int64 `json:"deleg"`
	Bond   map[string]int64 `json:"bond"`
	Unbond map[string]ubnd  `json:"unbond"`
	Reg    string           `json:"reg"`
}
type lostRec struct {
	A     string `json:"a"`
	E     int64  `json:"e"`
	Cause string `json:"cause"`
}
type step struct {
	Op      string              `json:"op"`
	A       string              `json:"a,omitempty"`
	V       int64               `json:"v,omitempty"`
	To      string              `json:"to,omitempty"`
	Vec     map[string]int64    `json:"vec,omitempty"`
	Res     string              `json:"res,omitempty"`
	Why     string              `json:"why,omitempty"`
	Forced  bool                `json:"forced,omitempty"`
	H       int64               `json:"h"`
	Lp      int64               `json:"lp"`
	St      map[string]acctProj `json:"st,omitempty"`
	Lost    []lostRec           `json:"lost,omitempty"`
	Stale   []lostRec           `json:"stale,omitempty"`
	Tot     map[string]int64    `json:"tot,omitempty"`
	Tot0    map[string]int64    `json:"tot0,omitempty"`
	Xst     strMap              `json:"xst,omitempty"`
	Restart bool                `json:"restart,omitempty"`
}

// strMap decodes a TLA+ function with string domain; the empty function is printed as an empty array
type strMap map[string]string

func (m *strMap) UnmarshalJSON(bs []byte) error {
	if strings.HasPrefix(strings.TrimSpace(string(bs)), "[") {
		*m = strMap{}
		return nil
	}
	var x map[string]string
	if err := json.Unmarshal(bs, &x); err != nil {
		return err
	}
	*m = x
	return nil
}

type behaviour struct {
	Cfg   modelCfg `json:"cfg"`
	Steps []step   `json:"steps"`
	Src   string   `json:"src,omitempty"`
}

const termPeriod = 5 // real blocks per model block

var icx = new(big.Int).Exp(big.NewInt(10), big.NewInt(18), nil)

type outcome struct {
	kind   string // "", "violation", "divergence", "machinery"
	key    string
	what   string
	detail map[string]interface{}
}

func viol(key, what string, args ...interface{}) *outcome {
	return &outcome{kind: "violation", key: key, what: fmt.Sprintf(what, args...)}
}
func diverge(what string, args ...interface{}) *outcome {
	return &outcome{kind: "divergence", what: fmt.Sprintf(what, args...)}
}
func machinery(what string, args ...interface{}) *outcome {
	return &outcome{kind: "machinery", what: fmt.Sprintf(what, args...)}
}

// world is one simulated network with the bookkeeping needed to evaluate the property on it.
type world struct {
	sim        icsim.Simulator
	all        []module.Address // every account that can hold ICX or stake
	unit       *big.Int
	base       int64 // real height of model block 0
	addr       map[string]module.Address
	name       map[string]string // address string -> abstract name
	accts      []string
	targets    []string
	treasury   module.Address
	governance module.Address
	curLock    int64
	tot0       [4]*big.Int // supply, total stake, total delegation, total bond at model block 0
}

func (w *world) totals() [4]*big.Int {
	return [4]*big.Int{w.sim.TotalSupply(), w.sim.TotalStake(), icsim.VerifTotalDelegation(w.sim), w.sim.TotalBond()}
}

type acctObs struct {
	bal      *big.Int
	stake    *big.Int
	unstakes icstate.Unstakes
	delegs   icstate.Delegations
	bonds    icstate.Bonds
	unbonds  icstate.Unbonds
	using    *big.Int
}

func (w *world) observeAll() []acctObs {
	raw := icsim.VerifObserve(w.sim, w.all)
	res := make([]acctObs, len(raw))
	for i, r := range raw {
		o := acctObs{bal: r.Balance, stake: new(big.Int), using: new(big.Int)}
		if as := r.Account; as != nil {
			o.stake = as.Stake()
			o.unstakes = as.UnStakes()
			o.delegs = as.Delegations()
			o.bonds = as.Bonds()
			o.unbonds = as.Unbonds()
			o.using = as.UsingStake()
		}
		res[i] = o
	}
	return res
}

func (o acctObs) unstaking() *big.Int { return o.unstakes.GetUnstakeAmount() }
func (o acctObs) locked() *big.Int    { return new(big.Int).Add(o.stake, o.unstaking()) }

type netObs struct {
	supply *big.Int
	height int64
	acct   map[string]acctObs // by address string
}

// activePReps: which of the delegation / bond targets of the observed accounts are active P-Reps
func (w *world) activePReps(obs []acctObs) map[string]bool {
	seen := map[string]bool{}
	var ts []module.Address
	add := func(t module.Address) {
		if k := string(t.Bytes()); !seen[k] {
			seen[k] = true
			ts = append(ts, t)
		}
	}
	for _, o := range obs {
		for _, d := range o.delegs {
			add(d.To())
		}
		for _, b := range o.bonds {
			add(b.To())
		}
	}
	res := map[string]bool{}
	for i, st := range icsim.VerifPRepStatus(w.sim, ts) {
		res[string(ts[i].Bytes())] = st == "active"
	}
	return res
}

// checkInvariants evaluates C34's invariants on the real state of the whole simulated network.
// prev (may be nil) is the observation at an earlier height.
func (w *world) checkInvariants(prev *netObs) (*netObs, *outcome) {
	sim := w.sim
	H := sim.BlockHeight()
	cur := &netObs{height: H, acct: map[string]acctObs{}}
	sum := new(big.Int)
	sumStake := new(big.Int)
	sumDeleg := new(big.Int)
	sumBond := new(big.Int)
	var out *outcome
	set := func(o *outcome) {
		if out == nil {
			out = o
		}
	}
	obs := w.observeAll()
	active := w.activePReps(obs)
	cur.supply = sim.TotalSupply()
	burnedSince := new(big.Int)
	if prev != nil {
		burnedSince.Sub(prev.supply, cur.supply)
	}
	for ai, a := range w.all {
		o := obs[ai]
		cur.acct[string(a.Bytes())] = o
		who := w.nameOf(a)
		if o.bal.Sign() < 0 || o.stake.Sign() < 0 {
			set(viol("negative:"+classOf(who), "height %d: account %s has balance %v stake %v", H, who, o.bal, o.stake))
		}
		sum.Add(sum, o.bal)
		sum.Add(sum, o.stake)
		sum.Add(sum, o.unstaking())
		sumStake.Add(sumStake, o.stake)
		// delegated + bonded + unbonding <= stake
		if o.using.Cmp(o.stake) > 0 {
			set(viol("voting-exceeds-stake", "height %d: account %s delegated+bonded+unbonding=%v exceeds its stake %v",
				H, who, o.using, o.stake))
		}
		used := new(big.Int)
		for _, d := range o.delegs {
			used.Add(used, d.Amount())
			if active[string(d.To().Bytes())] {
				sumDeleg.Add(sumDeleg, d.Amount())
			}
		}
		for _, b := range o.bonds {
			used.Add(used, b.Amount())
			if active[string(b.To().Bytes())] {
				sumBond.Add(sumBond, b.Amount())
			}
		}
		for _, u := range o.unbonds {
			used.Add(used, u.Value())
			if u.Expire() <= H {
				set(viol("unbond:overdue", "height %d: account %s still has unbond %v of expire height %d", H, who, u.Value(), u.Expire()))
			}
		}
		if used.Cmp(o.using) != 0 {
			set(viol("voting-sum", "height %d: account %s: UsingStake()=%v but its delegations+bonds+unbonds sum to %v", H, who, o.using, used))
		}
		// no unstake entry survives its expire height
		for _, u := range o.unstakes {
			if u.GetValue().Sign() <= 0 {
				set(viol("unstake:nonpositive", "height %d: account %s has unstake slot %v", H, who, u))
			}
			if u.GetExpire() <= H {
				set(viol("unstake:overdue", "height %d: account %s still has unstake slot %v ICX-loop expiring at height %d: "+
					"the ICX did not return to the balance when its lock period ended", H, who, u.GetValue(), u.GetExpire()).
					with("account", who).with("expire", u.GetExpire()))
			}
		}
		// locked ICX leaves only through entries that became due since the previous observation
		if prev != nil {
			if po, ok := prev.acct[string(a.Bytes())]; ok {
				due := new(big.Int)
				for _, u := range po.unstakes {
					if u.GetExpire() > prev.height && u.GetExpire() <= H {
						due.Add(due, u.GetValue())
					}
				}
				min := new(big.Int).Sub(po.locked(), due)
				min.Sub(min, burnedSince) // slashed bonds leave the stake and are burned
				if o.locked().Cmp(min) < 0 {
					set(viol("unstake:early-release", "heights %d..%d: stake+unstaking of account %s fell from %v to %v although only %v was due",
						prev.height, H, who, po.locked(), o.locked(), due))
				}
			}
		}
	}
	if ts := sim.TotalSupply(); ts.Cmp(sum) != 0 {
		set(viol("conservation", "height %d: total supply %v != sum of balances+stakes+unstaking %v (difference %v)",
			H, ts, sum, new(big.Int).Sub(ts, sum)))
	}
	if t := sim.TotalStake(); t.Cmp(sumStake) != 0 {
		set(viol("total-stake", "height %d: network total stake %v != sum of account stakes %v", H, t, sumStake))
	}
	if t := icsim.VerifTotalDelegation(sim); t.Cmp(sumDeleg) != 0 {
		set(viol("total-delegation", "height %d: network total delegation %v != sum of delegations to active P-Reps %v", H, t, sumDeleg))
	}
	if t := sim.TotalBond(); t.Cmp(sumBond) != 0 {
		set(viol("total-bond", "height %d: network total bond %v != sum of bonds to active P-Reps %v", H, t, sumBond))
	}
	return cur, out
}

func (o *outcome) with(k string, v interface{}) *outcome {
	if o.detail == nil {
		o.detail = map[string]interface{}{}
	}
	o.detail[k] = v
	return o
}

func classOf(who string) string {
	if strings.HasPrefix(who, "hx") || strings.HasPrefix(who, "cx") {
		return "background"
	}
	return "modelled"
}

func (w *world) nameOf(a module.Address) string {
	if n, ok := w.name[a.String()]; ok {
		return n
	}
	return a.String()
}

func (w *world) toUnits(v *big.Int) (int64, bool) {
	q, r := new(big.Int).QuoRem(v, w.unit, new(big.Int))
	return q.Int64(), r.Sign() == 0
}

func (w *world) amount(units int64) *big.Int {
	return new(big.Int).Mul(big.NewInt(units), w.unit)
}

func (w *world) tick(real int64) (int64, bool) {
	d := real - w.base
	return d / termPeriod, d%termPeriod == 0
}

func newAddr(rnd *rand.Rand) module.Address {
	bs := make([]byte, common.AddressBytes)
	rnd.Read(bs[1:])
	bs[0] = 0
	return common.MustNewAddress(bs)
}

func prepInfo(tag string) *icstate.PRepInfo {
	s := func(x string) *string { return &x }
	return &icstate.PRepInfo{
		City: s("Seoul"), Country: s("KOR"), Name: s("verif-" + tag), Email: s(tag + "@example.com"),
		WebSite: s("https://" + tag + ".example.com/"), Details: s("https://" + tag + ".example.com/details/"),
		P2PEndpoint: s(tag + ".example.com:9080"),
	}
}

func okAll(rs []icsim.Receipt, err error) error {
	if err != nil {
		return err
	}
	for i, r := range rs {
		if r.Status() != icsim.Success {
			return fmt.Errorf("receipt %d failed: %v", i, r.Error())
		}
	}
	return nil
}

// baseNet is a decentralized network at the latest revision built by icsim.NewEnv; every behaviour
// runs on its own fork of it (icsim.VerifFork), so behaviours never see each other's effects.
type baseNet struct {
	sim                   icsim.Simulator
	preps, users, bonders []module.Address
	treasury, governance  module.Address
	forks                 int
}

var bases = map[string]*baseNet{}

func getBase(cfg modelCfg) (*baseNet, error) {
	key := fmt.Sprintf("%d/%d/%d", cfg.UnbondPeriod, cfg.SlotMax, cfg.UnbondMax)
	if b := bases[key]; b != nil && b.forks < 400 {
		b.forks++
		return b, nil
	}
	b, err := newBase(cfg)
	if err != nil {
		return nil, err
	}
	bases[key] = b
	b.forks = 1
	return b, nil
}

func newBase(cfg modelCfg) (*baseNet, error) {
	if cfg.SlotMax < 2 || cfg.Fee < 1 || 2000%cfg.Fee != 0 {
		return nil, fmt.Errorf("unsupported model constants %+v", cfg)
	}
	sc := icsim.NewSimConfigWithParams(map[icsim.SimConfigOption]interface{}{
		icsim.SCOTermPeriod:     int64(termPeriod),
		icsim.SCOMainPReps:      int64(4),
		icsim.SCOSubPReps:       int64(3),
		icsim.SCOExtraMainPReps: int64(0),
	})
	sc.LockMinMultiplier = 1
	sc.LockMaxMultiplier = 1
	sc.UnbondingPeriodMultiplier = cfg.UnbondPeriod
	sc.UnstakeSlotMax = cfg.SlotMax
	sc.UnbondingMax = cfg.UnbondMax
	env, err := icsim.NewEnv(sc, icmodule.ValueToRevision(icmodule.LatestRevision))
	if err != nil {
		return nil, err
	}
	b := &baseNet{sim: env.Simulator(), governance: env.Governance()}
	b.preps, b.users, b.bonders, b.treasury = env.VerifAddresses()
	return b, nil
}

// newWorld forks the base network and prepares the modelled accounts.
func newWorld(cfg modelCfg, rnd *rand.Rand) (*world, error) {
	base, err := getBase(cfg)
	if err != nil {
		return nil, err
	}
	sim := icsim.VerifFork(base.sim)
	preps, users, bonders, treasury := base.preps, base.users, base.bonders, base.treasury
	w := &world{sim: sim, addr: map[string]module.Address{}, name: map[string]string{}, treasury: treasury, curLock: 1,
		governance: base.governance}
	w.unit = new(big.Int).Mul(big.NewInt(2000/cfg.Fee), icx)
	w.all = append(w.all, preps...)
	w.all = append(w.all, users...)
	w.all = append(w.all, bonders...)
	w.all = append(w.all, treasury, state.SystemAddress, base.governance)
	for _, v := range sim.ValidatorList() {
		w.all = append(w.all, v.Address())
	}
	w.accts = append([]string{}, cfg.Accts...)
	sort.Strings(w.accts)
	ext := append([]string{}, cfg.Ext...)
	sort.Strings(ext)
	w.targets = append(append([]string{}, w.accts...), ext...)
	if len(ext) > len(preps) || len(w.accts) > 20 {
		return nil, fmt.Errorf("too many accounts")
	}
	perm := rnd.Perm(len(preps))
	blk := icsim.NewBlock()
	var acctAddrs []*common.Address
	for _, n := range w.accts {
		a := newAddr(rnd)
		w.addr[n] = a
		w.name[a.String()] = n
		w.all = append(w.all, a)
		acctAddrs = append(acctAddrs, common.AddressToPtr(a))
	}
	// fund: every modelled account gets MaxAmt units from a user of its own (users hold 8000 liquid ICX)
	fund := w.amount(cfg.MaxAmt)
	if fund.Cmp(new(big.Int).Mul(big.NewInt(8000), icx)) > 0 {
		return nil, fmt.Errorf("MaxAmt*unit exceeds what a user can fund")
	}
	uperm := rnd.Perm(len(users))
	for i, n := range w.accts {
		blk.AddTransaction(sim.Transfer(users[uperm[i]], w.addr[n], fund))
	}
	// the treasury pays reward claims; icsim does not issue ICX, so it is funded by a user
	blk.AddTransaction(sim.Transfer(users[uperm[len(w.accts)]], treasury, new(big.Int).Mul(big.NewInt(1000), icx)))
	var cand []module.Address // external P-Reps must hold exactly the background votes the spec assumes
	for _, i := range perm {
		d, b := icsim.VerifPRepVotes(sim, preps[i])
		if d != nil && d.Cmp(w.amount(cfg.ExtDeleg)) == 0 && b.Cmp(w.amount(cfg.ExtBond)) == 0 {
			cand = append(cand, preps[i])
		}
	}
	if len(cand) < len(ext) {
		return nil, fmt.Errorf("not enough P-Reps with background delegation %d / bond %d units", cfg.ExtDeleg, cfg.ExtBond)
	}
	for i, n := range ext {
		p := cand[i]
		w.addr[n] = p
		w.name[p.String()] = n
		var pi int
		for j := range preps {
			if preps[j].Equal(p) {
				pi = j
			}
		}
		bl := icstate.BonderList{common.AddressToPtr(bonders[pi]), common.AddressToPtr(p)}
		bl = append(bl, acctAddrs...)
		blk.AddTransaction(sim.SetBonderList(p, bl))
	}
	if err := okAll(sim.GoByBlock(nil, blk)); err != nil {
		return nil, fmt.Errorf("prologue: %v", err)
	}
	// model block 0 lands on a seeded offset within the term
	off := int64(rnd.Intn(termPeriod))
	for (sim.BlockHeight()+1)%termPeriod != off {
		if err := sim.Go(nil, 1); err != nil {
			return nil, err
		}
	}
	w.base = sim.BlockHeight() + 1
	w.tot0 = w.totals()
	return w, nil
}

func (w *world) vecDelegations(vec map[string]int64) icstate.Delegations {
	ds := icstate.Delegations{}
	for _, t := range w.targets {
		if v := vec[t]; v > 0 {
			ds = append(ds, icstate.NewDelegation(common.AddressToPtr(w.addr[t]), w.amount(v)))
		}
	}
	return ds
}

func (w *world) vecBonds(vec map[string]int64) icstate.Bonds {
	bs := icstate.Bonds{}
	for _, t := range w.targets {
		if v := vec[t]; v > 0 {
			bs = append(bs, icstate.NewBond(common.AddressToPtr(w.addr[t]), w.amount(v)))
		}
	}
	return bs
}

// txsOf concretizes one model transaction; a registration is RegisterPRep followed by
// SetBonderList(all modelled accounts) of the same sender.
func (w *world) txsOf(s step, tag string) []icsim.Transaction {
	sim := w.sim
	from := w.addr[s.A]
	switch s.Op {
	case "stake":
		return []icsim.Transaction{sim.SetStake(from, w.amount(s.V))}
	case "deleg":
		return []icsim.Transaction{sim.SetDelegation(from, w.vecDelegations(s.Vec))}
	case "bond":
		return []icsim.Transaction{sim.SetBond(from, w.vecBonds(s.Vec))}
	case "xfer":
		return []icsim.Transaction{sim.Transfer(from, w.addr[s.To], w.amount(s.V))}
	case "reg":
		bl := icstate.BonderList{}
		for _, n := range w.accts {
			bl = append(bl, common.AddressToPtr(w.addr[n]))
		}
		return []icsim.Transaction{sim.RegisterPRep(from, prepInfo(tag)), sim.SetBonderList(from, bl)}
	case "unreg":
		return []icsim.Transaction{sim.UnregisterPRep(from)}
	case "disq":
		return []icsim.Transaction{sim.DisqualifyPRep(w.governance, w.addr[s.To])}
	case "claim":
		return []icsim.Transaction{sim.ClaimIScore(from)}
	}
	return nil
}

// project maps the real state of a modelled account to the abstract record of the spec.
func (w *world) project(n string, o acctObs) (acctProj, int64, error) {
	p := acctProj{Deleg: map[string]int64{}, Bond: map[string]int64{}, Unbond: map[string]ubnd{}, Slots: []slot{}}
	// rewards are below the unit resolution: balance = units*unit + dust
	q, r := new(big.Int).QuoRem(o.bal, w.unit, new(big.Int))
	p.Bal = q.Int64()
	dust := r
	if !dust.IsInt64() {
		return p, 0, fmt.Errorf("account %s: balance %v is not units + small reward dust", n, o.bal)
	}
	var ok bool
	if p.Stake, ok = w.toUnits(o.stake); !ok {
		return p, 0, fmt.Errorf("account %s: stake %v not a multiple of the unit", n, o.stake)
	}
	for _, u := range o.unstakes {
		v, ok1 := w.toUnits(u.GetValue())
		e, ok2 := w.tick(u.GetExpire())
		if !ok1 || !ok2 {
			return p, 0, fmt.Errorf("account %s: unstake %v not aligned to unit/term", n, u)
		}
		p.Slots = append(p.Slots, slot{v, e})
	}
	for _, t := range w.targets {
		p.Deleg[t], p.Bond[t], p.Unbond[t] = 0, 0, ubnd{}
	}
	for _, d := range o.delegs {
		t, known := w.name[d.To().String()]
		v, ok1 := w.toUnits(d.Amount())
		if !known || !ok1 {
			return p, 0, fmt.Errorf("account %s: unexpected delegation %v", n, d)
		}
		p.Deleg[t] += v
	}
	for _, b := range o.bonds {
		t, known := w.name[b.To().String()]
		v, ok1 := w.toUnits(b.Amount())
		if !known || !ok1 {
			return p, 0, fmt.Errorf("account %s: unexpected bond %v", n, b)
		}
		p.Bond[t] += v
	}
	for _, u := range o.unbonds {
		t, known := w.name[u.Address().String()]
		v, ok1 := w.toUnits(u.Value())
		e, ok2 := w.tick(u.Expire())
		if !known || !ok1 || !ok2 {
			return p, 0, fmt.Errorf("account %s: unexpected unbond %v", n, u)
		}
		p.Unbond[t] = ubnd{p.Unbond[t].Val + v, e}
	}
	switch icsim.VerifPRepStatus(w.sim, []module.Address{w.addr[n]})[0] {
	case "active":
		p.Reg = "active"
	case "unregistered":
		p.Reg = "unreg"
	case "disqualified":
		p.Reg = "disq"
	default:
		p.Reg = "none"
	}
	return p, dust.Int64(), nil
}

func diffProj(n string, want, got acctProj) string {
	var d []string
	if want.Bal != got.Bal {
		d = append(d, fmt.Sprintf("balance %d (spec %d)", got.Bal, want.Bal))
	}
	if want.Stake != got.Stake {
		d = append(d, fmt.Sprintf("stake %d (spec %d)", got.Stake, want.Stake))
	}
	if fmt.Sprint(want.Slots) != fmt.Sprint(got.Slots) {
		d = append(d, fmt.Sprintf("unstake slots %v (spec %v)", got.Slots, want.Slots))
	}
	for t, v := range want.Deleg {
		if got.Deleg[t] != v {
			d = append(d, fmt.Sprintf("delegation to %s %d (spec %d)", t, got.Deleg[t], v))
		}
	}
	for t, v := range want.Bond {
		if got.Bond[t] != v {
			d = append(d, fmt.Sprintf("bond to %s %d (spec %d)", t, got.Bond[t], v))
		}
	}
	for t, v := range want.Unbond {
		g := got.Unbond[t]
		if g.Val != v.Val || (v.Val > 0 && g.Exp != v.Exp) {
			d = append(d, fmt.Sprintf("unbond from %s %v (spec %v)", t, g, v))
		}
	}
	if want.Reg != got.Reg {
		d = append(d, fmt.Sprintf("P-Rep status %s (spec %s)", got.Reg, want.Reg))
	}
	sort.Strings(d)
	if len(d) == 0 {
		return ""
	}
	return "account " + n + ": " + strings.Join(d, ", ")
}

// classify an overdue unstake entry with the spec's record of lost timer entries
func overdueKey(o *outcome, lost []lostRec, w *world) {
	acct, _ := o.detail["account"].(string)
	exp, _ := o.detail["expire"].(int64)
	e, aligned := w.tick(exp)
	if !aligned {
		return
	}
	for _, l := range lost {
		if l.A == acct && l.E == e {
			switch l.Cause {
			case "increase":
				o.key = "unstake:equal-expire-slots:timer-removed-by-increase"
				o.what += " [history class: two unstake slots of the account had the same expire height; a later stake increase removed " +
					"one of them and with it the account's entry in that height's unstaking timer]"
			case "extend":
				o.key = "unstake:equal-expire-slots:timer-removed-by-slot-extension"
				o.what += " [history class: two unstake slots of the account had the same expire height; with all slots in use a further " +
					"stake decrease moved the last slot to a later height and removed the account's entry in the old height's unstaking timer]"
			}
			return
		}
	}
}

func runBehaviour(b behaviour, rnd *rand.Rand) (res *outcome, blocks int, info map[string]interface{}) {
	info = map[string]interface{}{}
	w, err := newWorld(b.Cfg, rnd)
	if err != nil {
		return machinery("cannot build the simulated network: %v", err), 0, info
	}
	sim := w.sim
	conc := map[string]string{}
	for n, a := range w.addr {
		conc[n] = a.String()
	}
	info["addresses"] = conc
	info["base_height"] = w.base
	info["unit_icx"] = new(big.Int).Div(w.unit, icx).String()
	prev, o := w.checkInvariants(nil)
	if o != nil {
		return machinery("invariants do not hold on the freshly built network: %s", o.what), 0, info
	}
	dust := map[string]int64{}
	for _, n := range w.accts {
		p, d, err := w.project(n, prev.acct[string(w.addr[n].Bytes())])
		if err != nil || p.Bal != b.Cfg.MaxAmt || p.Stake != 0 || d != 0 {
			return machinery("initial state of %s is not the spec's Init: %+v %v", n, p, err), 0, info
		}
		dust[n] = 0
	}
	i := 0
	regs := 0
	// transactions after the last "end" step carry no prediction: not executed
	last := len(b.Steps)
	for last > 0 && b.Steps[last-1].Op != "end" {
		last--
	}
	b.Steps = b.Steps[:last]
	for i < len(b.Steps) {
		// collect the transactions of this block
		j := i
		for j < len(b.Steps) && b.Steps[j].Op != "end" {
			j++
		}
		txSteps := b.Steps[i:j]
		var end *step
		if j < len(b.Steps) {
			end = &b.Steps[j]
		}
		hModel := b.Steps[i].H
		lp := b.Steps[i].Lp
		if sim.BlockHeight()+1 != w.base+hModel*termPeriod {
			return machinery("height bookkeeping: next real block %d, model block %d, base %d", sim.BlockHeight()+1, hModel, w.base), blocks, info
		}
		if lp != w.curLock {
			if err := icsim.VerifSetLockMultipliers(sim, lp, lp); err != nil {
				return machinery("cannot set the lock period: %v", err), blocks, info
			}
			w.curLock = lp
		}
		if got := icsim.VerifUnstakeLockPeriod(sim); got != lp*termPeriod {
			return machinery("lock period is %d blocks, wanted %d", got, lp*termPeriod), blocks, info
		}
		blk := icsim.NewBlock()
		first := make([]int, len(txSteps)) // receipt index of the first transaction of each step
		n := 1
		claimed := map[string]bool{}
		claimable := map[string]*big.Int{} // ICX the account's I-Score is worth before the block
		for _, s := range txSteps {
			if s.Op == "claim" && claimable[s.A] == nil {
				claimable[s.A] = new(big.Int).Div(sim.QueryIScore(w.addr[s.A]), big.NewInt(1000))
			}
		}
		for k, s := range txSteps {
			first[k] = n
			tag := fmt.Sprintf("r%d-%d", regs, rnd.Intn(1<<30))
			if s.Op == "reg" {
				regs++
			}
			if s.Op == "claim" {
				claimed[s.A] = true
			}
			for _, tx := range w.txsOf(s, tag) {
				blk.AddTransaction(tx)
				n++
			}
		}
		rcpts, err := sim.GoByBlock(nil, blk)
		blocks++
		if err != nil {
			// the block itself failed (timer handling, term processing): the network cannot make progress
			o := viol("block-execution-failed", "real block %d (model block %d) failed: %v", sim.BlockHeight()+1, hModel, err)
			// the spec recorded which unbonding-timer entries a 100%% slash leaves without an unbond
			for _, st := range b.Steps[:j] { // including the transactions of the failing block itself
				for _, l := range st.Stale {
					if l.E == hModel && strings.Contains(err.Error(), "Unbond timer not found") {
						o.key = "unbond:slashed-while-unbonding:stale-timer-entry:block-fails"
						o.what += fmt.Sprintf(" [history class: account %s was unbonding from a P-Rep when the P-Rep's bonds were slashed by 100%%; "+
							"the unbond entry was removed but the account stayed in the unbonding timer of its expire height, and "+
							"handleUnbondingTimer fails the block at that height]", l.A)
					}
				}
			}
			return o, blocks, info
		}
		// accept / reject
		var resOutcome *outcome
		for k, s := range txSteps {
			ok := rcpts[first[k]].Status() == icsim.Success
			if s.Op == "reg" && ok {
				if rcpts[first[k]+1].Status() != icsim.Success {
					return machinery("SetBonderList after registration failed: %v", rcpts[first[k]+1].Error()), blocks, info
				}
			}
			want := s.Res == "ok"
			if ok == want {
				continue
			}
			if !want && s.Forced {
				resOutcome = viol("accepted:"+s.Op+":"+s.Why,
					"model block %d: %s of account %s (%s) was accepted although C34's invariants force its rejection (%s)",
					hModel, s.Op, s.A, describe(s), s.Why)
			} else if resOutcome == nil {
				e := ""
				if !ok {
					e = fmt.Sprint(rcpts[first[k]].Error())
				}
				resOutcome = diverge("model block %d: %s of account %s (%s): real accepted=%v (%s), spec says %s (%s)",
					hModel, s.Op, s.A, describe(s), ok, e, s.Res, s.Why)
			}
			break
		}
		// the property on the real state after the block with the transactions (timers of this height have fired)
		prevBlock := prev
		cur, o := w.checkInvariants(prev)
		if o != nil {
			if o.key == "unstake:overdue" && end != nil {
				overdueKey(o, end.Lost, w)
			}
			return o, blocks, info
		}
		if resOutcome != nil {
			return resOutcome, blocks, info
		}
		prev = cur
		if end == nil {
			break
		}
		// predicted projection
		paid := new(big.Int)
		for _, name := range w.accts {
			got, d, err := w.project(name, cur.acct[string(w.addr[name].Bytes())])
			if err != nil {
				return diverge("model block %d: %v", hModel, err), blocks, info
			}
			if d != dust[name] && (!claimed[name] || d < dust[name]) {
				return viol("balance-dust", "model block %d: balance of %s changed by %d loop without a reward claim", hModel, name, d-dust[name]), blocks, info
			}
			if claimed[name] {
				// ClaimAccounted: the claimer receives exactly the ICX its I-Score was worth
				got := big.NewInt(d - dust[name])
				paid.Add(paid, got)
				if got.Cmp(claimable[name]) != 0 {
					return viol("claim:not-accounted", "model block %d: claim of %s paid %v loop, its I-Score was worth %v loop",
						hModel, name, got, claimable[name]), blocks, info
				}
			}
			dust[name] = d
			if df := diffProj(name, end.St[name], got); df != "" {
				return diverge("after model block %d: %s", hModel, df), blocks, info
			}
		}
		// ClaimAccounted: what the claimers received left the treasury, nothing else did
		tb, ta := prevBlock.acct[string(w.treasury.Bytes())].bal, cur.acct[string(w.treasury.Bytes())].bal
		if d := new(big.Int).Sub(tb, ta); d.Cmp(paid) != 0 {
			return viol("claim:treasury", "model block %d: treasury changed by -%v loop, claimers received %v loop", hModel, d, paid), blocks, info
		}
		// predicted network totals (relative to model block 0; the spec starts with supply = accounts * MaxAmt)
		now := w.totals()
		wantTot := [4]int64{end.Tot["supply"] - end.Tot0["supply"], end.Tot["tstake"] - end.Tot0["tstake"],
			end.Tot["tdeleg"] - end.Tot0["tdeleg"], end.Tot["tbond"] - end.Tot0["tbond"]}
		for k, nm := range []string{"total supply", "total stake", "total delegation", "total bond"} {
			if d := new(big.Int).Sub(now[k], w.tot0[k]); d.Cmp(w.amount(wantTot[k])) != 0 {
				return diverge("after model block %d: %s changed by %v, spec says %d units", hModel, nm, d, wantTot[k]), blocks, info
			}
		}
		// BurnAccounted on the real chain: the supply only shrinks, by what the spec says was burned
		if d := new(big.Int).Sub(w.tot0[0], now[0]); d.Cmp(w.amount(end.Tot["burned"])) != 0 {
			return diverge("after model block %d: %v loop burned, spec says %d units", hModel, d, end.Tot["burned"]), blocks, info
		}
		for _, n := range b.Cfg.Ext {
			st := icsim.VerifPRepStatus(sim, []module.Address{w.addr[n]})[0]
			want := map[string]string{"active": "active", "disq": "disqualified"}[end.Xst[n]]
			if st != want {
				return diverge("after model block %d: external P-Rep %s is %s, spec says %s", hModel, n, st, want), blocks, info
			}
		}
		// T-1 empty blocks up to the next model block
		for k := 0; k < termPeriod-1; k++ {
			if err := sim.Go(nil, 1); err != nil {
				return viol("block-execution-failed", "empty real block %d failed: %v", sim.BlockHeight()+1, err), blocks, info
			}
			blocks++
		}
		cur, o = w.checkInvariants(prev)
		if o != nil {
			if o.key == "unstake:overdue" {
				overdueKey(o, end.Lost, w)
			}
			return o, blocks, info
		}
		prev = cur
		if end.Restart {
			// the node restarts from its database: all later reads decode the stored accounts, timers and P-Rep records
			ns, err := icsim.VerifRestart(w.sim)
			if err != nil {
				return machinery("restart from the database failed: %v", err), blocks, info
			}
			w.sim = ns
			sim = ns
			if _, o := w.checkInvariants(prev); o != nil {
				o.what = "after a restart from the database: " + o.what
				return o, blocks, info
			}
		}
		i = j + 1
	}
	return nil, blocks, info
}

func describe(s step) string {
	switch s.Op {
	case "stake":
		return fmt.Sprintf("SetStake(%d)", s.V)
	case "xfer":
		return fmt.Sprintf("Transfer(%d to %s)", s.V, s.To)
	case "deleg", "bond":
		var ks []string
		for k, v := range s.Vec {
			if v > 0 {
				ks = append(ks, fmt.Sprintf("%s:%d", k, v))
			}
		}
		sort.Strings(ks)
		return "{" + strings.Join(ks, " ") + "}"
	}
	return s.Op
}

func sig(b behaviour) string {
	var sb strings.Builder
	for _, s := range b.Steps {
		if s.Op == "end" {
			fmt.Fprintf(&sb, "|%d;", s.Lp)
		} else {
			fmt.Fprintf(&sb, "%s%s%s;", s.Op[:2], s.A, describe(s))
		}
	}
	return sb.String()
}

func TestReplay(t *testing.T) {
	if !tlaio.HaveInput() {
		t.Skip("driven by tools/check.py")
	}
	log.GlobalLogger().SetLevel(log.FatalLevel)
	log.GlobalLogger().SetConsoleLevel(log.FatalLevel)
	out := tlaio.OpenOut()
	seed := tlaio.Seed()
	totalBlocks := 0
	err := tlaio.ReadInput(func(idx int, raw json.RawMessage) error {
		if !tlaio.Mine(idx) {
			return nil
		}
		var b behaviour
		if err := json.Unmarshal(raw, &b); err != nil {
			return err
		}
		id := fmt.Sprintf("b%d", idx)
		// concretization is derived from (seed, idx) so that a case replays identically on its own
		cseed := seed*1000003 + int64(idx)
		if b.Src != "" {
			fmt.Sscanf(b.Src, "cseed=%d", &cseed)
		}
		rnd := rand.New(rand.NewSource(cseed))
		out.Begin(id, "crash")
		res, blocks, info := runBehaviour(b, rnd)
		totalBlocks += blocks
		nontrivial := false
		for _, s := range b.Steps {
			if s.Op != "end" && s.Res == "ok" && s.Why != "same" {
				nontrivial = true
			}
		}
		switch {
		case res == nil:
			out.OK(id, nontrivial, sig(b))
		case res.kind == "violation":
			info["behaviour"] = behaviour{Cfg: b.Cfg, Steps: b.Steps, Src: fmt.Sprintf("cseed=%d", cseed)}
			for k, v := range res.detail {
				info[k] = v
			}
			out.Violation(id, res.key, res.what, info)
		case res.kind == "divergence":
			info["behaviour"] = behaviour{Cfg: b.Cfg, Steps: b.Steps, Src: fmt.Sprintf("cseed=%d", cseed)}
			out.Divergence(id, res.what, info)
		default:
			return fmt.Errorf("case %s: %s", id, res.what)
		}
		return nil
	})
	if err != nil {
		t.Fatal(err)
	}
	out.Close(map[string]interface{}{"real_blocks": totalBlocks})
}
