package txpool

// Replays behaviours of spec/exec/TxPool.tla into the real service.TransactionPool (C37):
// Add, RemoveList (after a block with some transactions was committed to the real locator manager through
// service.TXIDManager / TXIDLogger) and Candidate on a real world context; the list Candidate returns is
// re-validated as a block by a real transition (service.NewTransition(..., alreadyValidated=false).Execute:
// TXID recording + timestamp window + signature + cumulative PreValidate) -- that is the verdict-bearing
// predicate of C37. The specification's predicted selection / pool content are compared as diagnostics.
//
// Transactions are real signed v3 transfers; balances, step price, default step cost and the timestamp
// threshold are put into a real world state by one set-up block (a harness transaction type).

import (
	"bytes"
	"encoding/base64"
	"encoding/json"
	"fmt"
	"math/big"
	"strings"
	"sync"
	"testing"
	"time"

	"github.com/icon-project/goloop/common"
	"github.com/icon-project/goloop/common/crypto"
	"github.com/icon-project/goloop/common/db"
	"github.com/icon-project/goloop/common/errors"
	"github.com/icon-project/goloop/common/log"
	"github.com/icon-project/goloop/common/merkle"
	"github.com/icon-project/goloop/common/trie"
	"github.com/icon-project/goloop/common/txlocator"
	"github.com/icon-project/goloop/common/wallet"
	"github.com/icon-project/goloop/module"
	"github.com/icon-project/goloop/service"
	"github.com/icon-project/goloop/service/contract"
	"github.com/icon-project/goloop/service/scoredb"
	"github.com/icon-project/goloop/service/state"
	"github.com/icon-project/goloop/service/transaction"
	"github.com/icon-project/goloop/service/txresult"
	"github.com/icon-project/goloop/test"

	"verifharness/tlaio"
)

type atx struct {
	N     int    `json:"n"`
	From  string `json:"from"`
	To    string `json:"to"`
	Value int64  `json:"value"`
	Limit int64  `json:"limit"`
	Ts    int64  `json:"ts"`
	Size  int    `json:"size"` // length in units of the byte limit (sizeUnit bytes each)
}

type step struct {
	Op     string `json:"op"`
	Tx     atx    `json:"tx"`
	Direct bool   `json:"direct"`
	Res    string `json:"res"`
	Bt     int64  `json:"bt"`
	Max    int    `json:"max"`
	Bytes  int    `json:"bytes"` // byte limit of the block in units (0: the default limit)
	Sel    []atx  `json:"sel"`
	Txs    []atx  `json:"txs"`
	Pool   []int  `json:"pool"`
}

type params struct {
	Th      int64 `json:"Th"`
	Price   int64 `json:"Price"`
	MinStep int64 `json:"MinStep"`
	InitBal int64 `json:"InitBal"`
	MaxPool int   `json:"MaxPool"`
	Rich    []string `json:"Rich"`    // accounts that start with InitBal (nil: all of them)
	PoorBal int64    `json:"PoorBal"` // balance of the others
}

type conc struct {
	Delta int64 `json:"delta"` // microseconds per abstract time unit (multiple of 1000)
	L     int64 `json:"l"`     // steps per abstract step
	P     int64 `json:"p"`     // loop per step and abstract price unit; value unit = L*P
	Salt  int64 `json:"salt"`
}

type input struct {
	Params   params   `json:"params"`
	Accounts []string `json:"accounts"`
	Steps    []step   `json:"steps"`
	Conc     *conc    `json:"conc"`
}

// ---------------------------------------------------------------- set-up transaction

type setupTx struct {
	Type string `json:"type"`
	Salt int64  `json:"salt"`
	id   []byte
}

type setupData struct {
	balances  map[string]*big.Int // address string -> balance
	addrs     map[string]module.Address
	price     *big.Int
	minStep   int64
	thMS      int64
}

var (
	setupMu  sync.Mutex
	setups   = map[int64]*setupData{}
	regOnce  sync.Once
)

func (t *setupTx) Group() module.TransactionGroup { return module.TransactionGroupNormal }
func (t *setupTx) ID() []byte {
	if t.id == nil {
		t.id = crypto.SHA3Sum256(t.Bytes())
	}
	return t.id
}
func (t *setupTx) From() module.Address                           { return state.SystemAddress }
func (t *setupTx) Bytes() []byte                                  { bs, _ := json.Marshal(t); return bs }
func (t *setupTx) Hash() []byte                                   { return t.ID() }
func (t *setupTx) Verify() error                                  { return nil }
func (t *setupTx) Version() int                                   { return module.TransactionVersion3 }
func (t *setupTx) ToJSON(module.JSONVersion) (interface{}, error) { return map[string]interface{}{"type": t.Type}, nil }
func (t *setupTx) ValidateNetwork(int) bool                       { return true }
func (t *setupTx) PreValidate(state.WorldContext, bool) error     { return nil }
func (t *setupTx) Timestamp() int64                               { return 0 }
func (t *setupTx) Nonce() *big.Int                                { return nil }
func (t *setupTx) To() module.Address                             { return state.SystemAddress }
func (t *setupTx) IsSkippable() bool                              { return false }
func (t *setupTx) Reset(s db.Database, k []byte) error            { return json.Unmarshal(k, t) }
func (t *setupTx) Flush() error                                   { return nil }
func (t *setupTx) Resolve(merkle.Builder) error                   { return nil }
func (t *setupTx) ClearCache()                                    {}
func (t *setupTx) Dispose()                                       {}
func (t *setupTx) Equal(o trie.Object) bool {
	x, ok := o.(*setupTx)
	return ok && bytes.Equal(x.ID(), t.ID())
}
func (t *setupTx) GetHandler(contract.ContractManager) (transaction.Handler, error) { return t, nil }
func (t *setupTx) Prepare(ctx contract.Context) (state.WorldContext, error) {
	return ctx.GetFuture([]state.LockRequest{{ID: state.WorldIDStr, Lock: state.AccountWriteLock}}), nil
}
func (t *setupTx) Execute(ctx contract.Context, wcs state.WorldSnapshot, estimate bool) (txresult.Receipt, error) {
	setupMu.Lock()
	d := setups[t.Salt]
	setupMu.Unlock()
	if d == nil {
		return nil, errors.CriticalUnknownError.New("harness: unknown set-up")
	}
	for name, bal := range d.balances {
		ctx.GetAccountState(d.addrs[name].ID()).SetBalance(bal)
	}
	sys := ctx.GetAccountState(state.SystemID)
	if err := scoredb.NewVarDB(sys, state.VarStepPrice).Set(d.price); err != nil {
		return nil, err
	}
	if err := scoredb.NewVarDB(sys, state.VarTimestampThreshold).Set(d.thMS); err != nil {
		return nil, err
	}
	if err := scoredb.NewArrayDB(sys, state.VarStepTypes).Put(state.StepTypeDefault); err != nil {
		return nil, err
	}
	if err := scoredb.NewDictDB(sys, state.VarStepCosts, 1).Set(state.StepTypeDefault, d.minStep); err != nil {
		return nil, err
	}
	r := txresult.NewReceipt(ctx.Database(), ctx.Revision(), t.To())
	r.SetResult(module.StatusSuccess, big.NewInt(0), big.NewInt(0), nil)
	return r, nil
}

func register() {
	regOnce.Do(func() {
		transaction.RegisterFactory(&transaction.Factory{
			Priority: 3,
			CheckJSON: func(jso map[string]interface{}) bool {
				v, ok := jso["type"]
				return ok && v == "verifsetup"
			},
			ParseJSON: func(js []byte, jsm map[string]interface{}, raw bool) (transaction.Transaction, error) {
				t := &setupTx{}
				if err := json.Unmarshal(js, t); err != nil {
					return nil, err
				}
				return t, nil
			},
		})
	})
}

// ---------------------------------------------------------------- environment

type lenientT struct{}

func (lenientT) Errorf(format string, args ...interface{}) {}
func (lenientT) Logf(format string, args ...any)           {}

type env struct {
	node *test.Node
	nctx *test.NodeContext
}

func newEnv() *env {
	register()
	e := &env{}
	e.node = test.NewNode(lenientT{}, test.UseSMFactory(func(ctx *test.NodeContext) module.ServiceManager {
		e.nctx = ctx
		return test.NewServiceManager(ctx.C, ctx.Platform, ctx.CM, ctx.EM)
	}))
	e.nctx.C.Logger().SetLevel(log.PanicLevel)
	log.GlobalLogger().SetLevel(log.PanicLevel)
	return e
}

type cb struct {
	validated chan error
	executed  chan error
	cancel    func() bool
	stop      bool
}

func (c *cb) OnValidate(tr module.Transition, err error) { c.validated <- err }
func (c *cb) OnExecute(tr module.Transition, err error)  { c.executed <- err }

func newCB() *cb { return &cb{validated: make(chan error, 1), executed: make(chan error, 1)} }

type monitor struct{}

func (monitor) OnDropTx(n int, user bool)                          {}
func (monitor) OnAddTx(n int, user bool)                           {}
func (monitor) OnRemoveTx(n int, user bool)                        {}
func (monitor) OnCommit(id []byte, ts time.Time, d time.Duration) {}

// ---------------------------------------------------------------- one behaviour

type run struct {
	e       *env
	in      input
	c       conc
	wallets map[string]module.Wallet
	txs     map[int]transaction.Transaction // by n
	parent  module.Transition               // finalized set-up transition
	pool    *service.TransactionPool
	tim     service.TXIDManager
	height  int64
}

func (r *run) unit() *big.Int { return new(big.Int).Mul(big.NewInt(r.c.L), big.NewInt(r.c.P)) }

func (r *run) setup() error {
	c := r.e.nctx.C
	d := &setupData{balances: map[string]*big.Int{}, addrs: map[string]module.Address{},
		price: new(big.Int).Mul(big.NewInt(r.in.Params.Price), big.NewInt(r.c.P)),
		minStep: r.in.Params.MinStep * r.c.L, thMS: r.in.Params.Th * r.c.Delta / 1000}
	r.wallets = map[string]module.Wallet{}
	for _, a := range r.in.Accounts {
		w := wallet.New()
		r.wallets[a] = w
		d.addrs[a] = w.Address()
		bal := r.in.Params.InitBal
		if r.in.Params.Rich != nil {
			bal = r.in.Params.PoorBal
			for _, x := range r.in.Params.Rich {
				if x == a {
					bal = r.in.Params.InitBal
				}
			}
		}
		d.balances[a] = new(big.Int).Mul(big.NewInt(bal), r.unit())
	}
	setupMu.Lock()
	setups[r.c.Salt] = d
	setupMu.Unlock()
	itr, err := service.NewInitTransition(c.Database(), nil, nil, r.e.nctx.CM, r.e.nctx.EM, c, c.Logger(),
		r.e.nctx.Platform, service.NewTimestampChecker())
	if err != nil {
		return err
	}
	list := transaction.NewTransactionListFromSlice(c.Database(),
		[]module.Transaction{transaction.Wrap(&setupTx{Type: "verifsetup", Salt: r.c.Salt})})
	tr := service.NewTransition(itr, nil, list, common.NewBlockInfo(1, 1), common.NewConsensusInfo(nil, nil, nil), true)
	k := newCB()
	if _, err := tr.Execute(k); err != nil {
		return err
	}
	if err := <-k.validated; err != nil {
		return err
	}
	select {
	case err := <-k.executed:
		if err != nil {
			return err
		}
	case <-time.After(20 * time.Second):
		return fmt.Errorf("set-up block did not finish")
	}
	if err := service.FinalizeTransition(tr, module.FinalizeNormalTransaction|module.FinalizeResult, false); err != nil {
		return err
	}
	r.parent = tr
	lm, err := txlocator.NewManager(c.Database(), c.Logger())
	if err != nil {
		return err
	}
	tim, err := service.NewTXIDManager(lm, service.NewTimestampChecker(), nil)
	if err != nil {
		return err
	}
	r.tim = tim
	r.pool = service.NewTransactionPool(module.TransactionGroupNormal, r.in.Params.MaxPool, tim, monitor{}, c.Logger())
	r.txs = map[int]transaction.Transaction{}
	r.height = 2
	return nil
}

// build makes the real signed v3 transfer for an abstract transaction (once per n).
// sizeUnit: every transaction is padded with a message so that len(tx.Bytes()) is exactly size * sizeUnit
const sizeUnit = 2000

func (r *run) build(a atx) (transaction.Transaction, error) {
	if tx, ok := r.txs[a.N]; ok {
		return tx, nil
	}
	size := a.Size
	if size <= 0 {
		size = 1
	}
	target := size * sizeUnit
	// the encoded length grows by a fixed amount per message byte, plus a little where a length prefix grows: correct the
	// padding until the length is exact; a wider nonce shifts everything if a prefix jump sits exactly on the target
	for _, wide := range []int64{0, 0x1000, 0x100000, 0x10000000, 0x1000000000, 0x100000000000} {
		t0, err := r.buildPadded(a, 0, wide)
		if err != nil {
			return nil, err
		}
		t1, err := r.buildPadded(a, 16, wide)
		if err != nil {
			return nil, err
		}
		l0, per := len(t0.Bytes()), (len(t1.Bytes())-len(t0.Bytes()))/16
		if per < 1 || l0 > target {
			return nil, fmt.Errorf("transaction cannot be padded to its size class (%d bytes unpadded, %d per message byte, class %d)", l0, per, target)
		}
		pad := (target - l0) / per
		for try := 0; try < 6 && pad >= 0; try++ {
			tx, err := r.buildPadded(a, pad, wide)
			if err != nil {
				return nil, err
			}
			l := len(tx.Bytes())
			if l == target {
				r.txs[a.N] = tx
				return tx, nil
			}
			d := (target - l) / per
			if d == 0 {
				break
			}
			pad += d
		}
	}
	return nil, fmt.Errorf("cannot pad the transaction to %d bytes", target)
}

// buildPadded makes the real signed v3 transfer for an abstract transaction with a message of pad bytes.
func (r *run) buildPadded(a atx, pad int, wideNonce int64) (transaction.Transaction, error) {
	nonce := int64(a.N) + r.c.Salt%1000 + wideNonce
	value := new(big.Int).Mul(big.NewInt(a.Value), r.unit())
	js := fmt.Sprintf(`{"version":"0x3","from":"%s","to":"%s","value":"0x%x","stepLimit":"0x%x","timestamp":"0x%x","nid":"0x%x","nonce":"0x%x",`+
		`"dataType":"message","data":"0x%s"`,
		r.wallets[a.From].Address().String(), r.wallets[a.To].Address().String(), value, a.Limit*r.c.L, a.Ts*r.c.Delta,
		r.e.nctx.C.NID(), nonce, strings.Repeat("5a", pad))
	unsigned, err := transaction.NewTransactionFromJSON([]byte(js + "}"))
	if err != nil {
		return nil, err
	}
	sig, err := r.wallets[a.From].Sign(unsigned.ID())
	if err != nil {
		return nil, err
	}
	tx, err := transaction.NewTransactionFromJSON([]byte(js + `,"signature":"` + base64.StdEncoding.EncodeToString(sig) + `"}`))
	if err != nil {
		return nil, err
	}
	if !bytes.Equal(tx.ID(), unsigned.ID()) {
		return nil, fmt.Errorf("signing changed the id")
	}
	if err := tx.Verify(); err != nil {
		return nil, fmt.Errorf("built transaction does not verify: %v", err)
	}
	return tx, nil
}

func (r *run) nOf(tx module.Transaction) int {
	for n, t := range r.txs {
		if bytes.Equal(t.ID(), tx.ID()) {
			return n
		}
	}
	return -1
}

func (r *run) worldContext(bt int64) (state.WorldContext, module.BlockInfo, error) {
	c := r.e.nctx.C
	wss, err := service.NewWorldSnapshot(c.Database(), r.e.nctx.Platform, r.parent.Result(), nil)
	if err != nil {
		return nil, nil, err
	}
	ws, err := state.WorldStateFromSnapshot(wss)
	if err != nil {
		return nil, nil, err
	}
	bi := common.NewBlockInfo(r.height, bt*r.c.Delta)
	return state.NewWorldContext(ws, bi, common.NewConsensusInfo(nil, nil, nil), r.e.nctx.Platform), bi, nil
}

// cand is what one real Candidate call returned, in abstract terms; the specification judges it (Check_TxPool.tla)
type cand struct {
	Step int   `json:"step"`
	Bt   int64 `json:"bt"`
	Sel  []atx `json:"sel"`
	Comm []atx `json:"comm"`
}

type verdict struct {
	violation  bool
	key, what  string
	divergence string
	cands      []cand
}

func (v *verdict) div(format string, a ...interface{}) {
	if v.divergence == "" {
		v.divergence = fmt.Sprintf(format, a...)
	}
}

func (r *run) poolOrder() []int {
	var ns []int
	for _, tx := range r.pool.FilterTransactions(&service.TxBloom{}, 1000) {
		ns = append(ns, r.nOf(tx))
	}
	return ns
}

func sameInts(a, b []int) bool {
	if len(a) != len(b) {
		return false
	}
	for i := range a {
		if a[i] != b[i] {
			return false
		}
	}
	return true
}

func (r *run) exec() (v verdict) {
	if err := r.setup(); err != nil {
		v.div("set-up failed: %v", err)
		return
	}
	c := r.e.nctx.C
	committed := map[int]bool{}
	abstract := map[int]atx{}
	var comm []atx
	for i, s := range r.in.Steps {
		switch s.Op {
		case "add":
			tx, err := r.build(s.Tx)
			if err != nil {
				v.div("step %d: cannot build transaction: %v", i, err)
				return
			}
			abstract[s.Tx.N] = s.Tx
			res := "ok"
			if err := r.pool.Add(tx, s.Direct); err != nil {
				switch {
				case err == service.ErrDuplicateTransaction:
					res = "dup"
				case err == service.ErrTransactionPoolOverFlow:
					res = "overflow"
				default:
					res = "error:" + err.Error()
				}
			}
			if res != s.Res {
				v.div("step %d: Add returned %s, spec says %s", i, res, s.Res)
			}
		case "commit":
			var list []module.Transaction
			for _, a := range s.Txs {
				tx, err := r.build(a)
				if err != nil {
					v.div("step %d: %v", i, err)
					return
				}
				list = append(list, tx)
				if !committed[a.N] {
					comm = append(comm, a)
				}
				committed[a.N] = true
			}
			tl := transaction.NewTransactionListFromSlice(c.Database(), list)
			lg := r.tim.NewLogger(module.TransactionGroupNormal, r.height, r.height)
			if _, err := lg.Add(tl, true); err != nil {
				v.div("step %d: TXIDLogger.Add failed: %v", i, err)
				return
			}
			if err := lg.Commit(); err != nil {
				v.div("step %d: TXIDLogger.Commit failed: %v", i, err)
				return
			}
			r.height++
			// the locator flush is asynchronous: wait until the ids are in the DB (validators look there)
			bk, _ := c.Database().GetBucket(db.TransactionLocatorByHash)
			deadline := time.Now().Add(10 * time.Second)
			for _, tx := range list {
				for {
					if bs, _ := bk.Get(tx.ID()); len(bs) > 0 {
						break
					}
					if time.Now().After(deadline) {
						v.div("step %d: locator of a committed transaction never reached the DB", i)
						return
					}
					time.Sleep(100 * time.Microsecond)
				}
			}
			r.pool.RemoveList(tl)
		case "dropold":
			r.pool.DropOldTXs(s.Bt * r.c.Delta)
		case "checktxs":
			wc, _, err := r.worldContext(s.Bt)
			if err != nil {
				v.div("step %d: %v", i, err)
				return
			}
			if got := fmt.Sprint(r.pool.CheckTxs(wc)); got != s.Res {
				v.div("step %d: CheckTxs(block time %d) returned %s, spec says %s", i, s.Bt, got, s.Res)
			}
		case "hastx":
			tx, err := r.build(s.Tx)
			if err != nil {
				v.div("step %d: %v", i, err)
				return
			}
			if got := fmt.Sprint(r.pool.HasTx(tx.ID())); got != s.Res {
				v.div("step %d: HasTx(#%d) returned %s, spec says %s", i, s.Tx.N, got, s.Res)
			}
		case "candidate":
			wc, bi, err := r.worldContext(s.Bt)
			if err != nil {
				v.div("step %d: %v", i, err)
				return
			}
			maxBytes := s.Bytes * sizeUnit // 0: the default limit
			txs, _ := r.pool.Candidate(wc, maxBytes, s.Max)
			var got, want []int
			for _, tx := range txs {
				got = append(got, r.nOf(tx))
			}
			for _, a := range s.Sel {
				want = append(want, a.N)
			}
			if !sameInts(got, want) {
				v.div("step %d: Candidate(bt=%d, max=%d) returned transactions %v, spec says %v", i, s.Bt, s.Max, got, want)
			}
			// the real output, to be judged by the specification's own bookkeeping (window, ids, cumulative balance)
			cd := cand{Step: i, Bt: s.Bt, Sel: []atx{}, Comm: append([]atx{}, comm...)}
			for _, n := range got {
				cd.Sel = append(cd.Sel, abstract[n])
			}
			v.cands = append(v.cands, cd)
			// verdict: the proposed list must validate as a block on the same parent state
			if len(txs) > 0 {
				tl := transaction.NewTransactionListFromSlice(c.Database(), txs)
				tr := service.NewTransition(r.parent, nil, tl, bi, common.NewConsensusInfo(nil, nil, nil), false)
				k := newCB()
				cancel, err := tr.Execute(k)
				if err != nil {
					v.div("step %d: cannot start validation: %v", i, err)
					return
				}
				select {
				case verr := <-k.validated:
					cancel()
					if verr != nil {
						v.violation = true
						v.key = "txpool:candidate-rejected:" + classOf(verr)
						v.what = fmt.Sprintf("step %d: Candidate(block time %d, threshold %d, max %d) proposed transactions %s; a validator "+
							"rejects this block: %v", i, s.Bt, r.in.Params.Th, s.Max, r.describe(got), verr)
						return
					}
				case <-time.After(20 * time.Second):
					v.div("step %d: validation of the proposed block did not finish", i)
					return
				}
			}
		}
		// diagnostic: pool content after the step (dropped elements are removed asynchronously)
		var want []int
		for _, n := range s.Pool {
			if !committed[n] {
				want = append(want, n)
			}
		}
		if v.divergence != "" {
			continue // already diverged: the projection is not compared any further (each comparison may wait)
		}
		deadline := time.Now().Add(projWait)
		for {
			got := r.poolOrder()
			if sameInts(got, want) && r.pool.Used() == len(s.Pool) {
				break
			}
			if time.Now().After(deadline) {
				v.div("step %d after %s: pool holds %v (%d elements), spec says %v (%d elements)", i, s.Op, got, r.pool.Used(), want, len(s.Pool))
				if projMisses++; projMisses >= 5 {
					projWait = 50 * time.Millisecond
				}
				break
			}
			time.Sleep(200 * time.Microsecond)
		}
	}
	return
}

func (r *run) describe(ns []int) string {
	var b strings.Builder
	for _, s := range r.in.Steps {
		if s.Op != "add" {
			continue
		}
		for _, n := range ns {
			if n == s.Tx.N && !strings.Contains(b.String(), fmt.Sprintf("#%d(", n)) {
				fmt.Fprintf(&b, "#%d(%s->%s value %d limit %d ts %d) ", n, s.Tx.From, s.Tx.To, s.Tx.Value, s.Tx.Limit, s.Tx.Ts)
			}
		}
	}
	return fmt.Sprintf("%v = %s(initial balance %d, step price %d)", ns, b.String(), r.in.Params.InitBal, r.in.Params.Price)
}

func classOf(err error) string {
	s := err.Error()
	switch {
	case strings.Contains(s, "OutOfBalance"):
		return "out-of-balance"
	case strings.Contains(s, "Expired"):
		return "expired"
	case strings.Contains(s, "FutureTx"):
		return "future"
	case strings.Contains(s, "DuplicateTx"):
		return "duplicate"
	case strings.Contains(s, "NotEnoughStep"):
		return "not-enough-step"
	}
	return "other"
}

var deltas = []int64{1000, 7000, 1000000, 60000000}

// how long the pool projection may lag (dropped elements are removed by a goroutine); it shrinks after repeated
// mismatches so that a tree whose pool content differs everywhere is not waited for case after case
var projWait = 2 * time.Second
var projMisses = 0

func TestReplay(t *testing.T) {
	if !tlaio.HaveInput() {
		t.Skip("driven by tools/check.py")
	}
	out := tlaio.OpenOut()
	rnd := tlaio.Rand()
	e := newEnv()
	err := tlaio.ReadInput(func(idx int, raw json.RawMessage) error {
		var in input
		if err := json.Unmarshal(raw, &in); err != nil {
			return err
		}
		c := conc{Delta: deltas[rnd.Intn(len(deltas))], L: []int64{1, 100000}[rnd.Intn(2)],
			P: []int64{1, 12500000000}[rnd.Intn(2)], Salt: rnd.Int63n(1 << 40)}
		if in.Conc != nil {
			c = *in.Conc
		}
		if !tlaio.Mine(idx) {
			return nil
		}
		in.Conc = &c
		id := fmt.Sprintf("b%d", idx)
		r := &run{e: e, in: in, c: c}
		v := r.exec()
		detail := map[string]interface{}{"behaviour": in}
		nontrivial := false
		for _, s := range in.Steps {
			if s.Op == "candidate" && len(s.Sel) > 0 {
				nontrivial = true
			}
		}
		switch {
		case v.violation:
			out.Violation(id, v.key, v.what, detail)
		case v.divergence != "":
			// (the real Candidate outputs are judged by the specification also when they differ from its prediction)
			out.Emit(tlaio.Record{Case: id, Status: "divergence", What: v.divergence, Detail: detail, Nontrivial: true,
				Extra: map[string]interface{}{"cands": v.cands}})
		default:
			out.Emit(tlaio.Record{Case: id, Status: "ok", Nontrivial: nontrivial, Sig: sig(in),
				Extra: map[string]interface{}{"cands": v.cands}})
		}
		return nil
	})
	if err != nil {
		t.Fatal(err)
	}
	out.Close(nil)
}

func sig(in input) string {
	var b strings.Builder
	for _, s := range in.Steps {
		switch s.Op {
		case "add":
			fmt.Fprintf(&b, "a%v%v;", s.Tx, s.Direct)
		case "commit":
			fmt.Fprintf(&b, "c%v;", s.Txs)
		default:
			fmt.Fprintf(&b, "k%d.%d;", s.Bt, s.Max)
		}
	}
	return b.String()
}
