package quorumcert

// C05, import path: the certificate of a case becomes the commit vote list of a child block that is
// given to the real BlockManager.Import (block.verifyNewBlock -> verifyProofForLastBlock ->
// CommitVoteSet.VerifyBlock with the validators designated by the parent chain).  The child is the
// block the real Propose builds, re-encoded with the case's vote list and the matching timestamp,
// so the certificate is the only thing that can make the import fail.

import (
	"bytes"
	"encoding/json"
	"fmt"
	"hash/fnv"
	"math/rand"
	"os"
	"testing"

	"github.com/icon-project/goloop/consensus"
	"github.com/icon-project/goloop/module"
	"github.com/icon-project/goloop/common/wallet"

	"verifharness/chainimport"
	"verifharness/tlaio"
)

func TestImport(t *testing.T) {
	if !tlaio.HaveInput() {
		t.Skip("driven by tools/check.py")
	}
	os.Setenv("TMPDIR", tlaio.ScratchDir())
	out := &capped{Out: tlaio.OpenOut()}
	chains := map[int]*chainimport.Chain{}
	targets := map[int]*target{}
	outsider := wallet.New()
	n := 0
	err := tlaio.ReadInput(func(idx int, raw json.RawMessage) error {
		if !tlaio.Mine(idx) {
			return nil
		}
		var steps []step
		if err := json.Unmarshal(raw, &steps); err != nil {
			return err
		}
		s := steps[0]
		c := chains[s.N]
		if c == nil {
			var err error
			if c, err = chainimport.NewChain(chainimport.NewWallets(s.N)); err != nil {
				return err
			}
			chains[s.N] = c
			// block 1 (no certificate needed for the genesis block) becomes the certified block
			f, err := c.HonestChild()
			if err != nil {
				return err
			}
			f.HF.Timestamp = 1_700_000_000_000_000
			bc, err, p := c.Import(f.Reader())
			if err != nil || p != "" {
				return fmt.Errorf("cannot build block 1: %v %s", err, p)
			}
			if err = c.Finalize(bc); err != nil {
				return err
			}
			bc.Dispose()
			psid, err := chainimport.PartSetIDOf(c.Tip)
			if err != nil {
				return err
			}
			targets[s.N] = &target{height: c.Tip.Height(), id: c.Tip.ID(), round: 0, psid: psid, ts0: c.Tip.Timestamp() + 1}
		}
		tg := targets[s.N]
		h := fnv.New64a()
		h.Write([]byte(sigOf(s)))
		crnd := rand.New(rand.NewSource(tlaio.Seed() ^ int64(h.Sum64()>>1)))
		ws := append([]module.Wallet{outsider}, c.Wallets...)
		vb, notes, err := buildList(crnd, tg, ws, s.Cert)
		if err != nil {
			return err
		}
		cvs := consensus.NewCommitVoteSetFromBytes(vb)
		if cvs == nil {
			return fmt.Errorf("case %d: the commit vote list does not decode", idx)
		}
		f, err := c.HonestChild()
		if err != nil {
			return err
		}
		f.SetVotes(vb)
		f.HF.Timestamp = cvs.Timestamp() // the block timestamp rule (C07) is satisfied whenever the list is not empty
		var enc bytes.Buffer
		enc.ReadFrom(f.Reader())
		id := fmt.Sprintf("i%d", idx)
		bc, ierr, panicked := c.Import(bytes.NewReader(enc.Bytes()))
		n++
		det := map[string]interface{}{"behaviour": steps, "votes": fmt.Sprintf("%x", vb), "variants": notes, "spec": s.Res,
			"real": fmt.Sprint(ierr), "block": fmt.Sprintf("%x", enc.Bytes())}
		switch {
		case panicked != "":
			det["panic"] = panicked
			out.Violation(id, "cvl:panic:"+panicClass(s.Cert), fmt.Sprintf("BlockManager.Import panics instead of rejecting a block whose "+
				"commit vote list is n=%d %v (%s): %s", s.N, s.Cert, notes, firstLine(panicked)), det)
		case ierr == nil && s.Res != "ok":
			bc.Dispose()
			out.Violation(id, "cvl:accepted:"+s.Res, fmt.Sprintf("BlockManager.Import accepts a block whose commit vote list the spec rejects (%s): n=%d %v",
				s.Res, s.N, s.Cert), det)
		case ierr != nil && s.Res == "ok":
			out.Divergence(id, fmt.Sprintf("BlockManager.Import rejects a block with a certificate the spec accepts: n=%d %v: %v", s.N, s.Cert, ierr), det)
		default:
			if bc != nil {
				bc.Dispose()
			}
			out.OK(id, true, "import:"+sigOf(s))
		}
		return nil
	})
	for _, c := range chains {
		c.Close()
	}
	if err != nil {
		t.Fatal(err)
	}
	out.Close(map[string]interface{}{"imported": n, "violations_per_key": out.perKey, "suppressed_violation_records": out.suppressed})
}
