package quorumcert

// Replays the certificate decision table of spec/cert/QuorumCert.tla (list form) into the real
// commit-vote-list verifier (C05).  The oracle is the TLA+ text: each case is a list of symbolic
// signatures [who, what] with the verdict the spec predicts.  This driver only concretizes the
// symbolic signatures with real wallets over a real block of a real block manager and compares
// accept/reject:
//   TestReplay  wire bytes -> consensus.NewCommitVoteSetFromBytes -> CommitVoteSet.VerifyBlock(block, validators)
//   TestImport  the same certificate as the vote list of a child block given to BlockManager.Import
//               (block.verifyNewBlock -> verifyProofForLastBlock), see import_test.go

import (
	"bytes"
	"encoding/json"
	"fmt"
	"hash/fnv"
	"math/rand"
	"os"
	"runtime/debug"
	"strings"
	"testing"

	"github.com/icon-project/goloop/common"
	"github.com/icon-project/goloop/common/codec"
	"github.com/icon-project/goloop/common/crypto"
	"github.com/icon-project/goloop/common/db"
	"github.com/icon-project/goloop/common/wallet"
	"github.com/icon-project/goloop/consensus"
	"github.com/icon-project/goloop/module"
	"github.com/icon-project/goloop/service/state"
	"github.com/icon-project/goloop/test"

	"verifharness/tlaio"
)

type asig struct {
	Who  int    `json:"who"`
	What string `json:"what"`
}

type step struct {
	Op     string `json:"op"`
	N      int    `json:"n"`
	Cert   []asig `json:"cert"`
	Res    string `json:"res"`
	Defect string `json:"defect"`
}

// wire format of a commit vote list (consensus.CommitVoteList without BTP proofs)
type wireItem struct {
	Timestamp int64
	Signature common.Signature
}
type wireList struct {
	Round int32
	BPSID *consensus.PartSetIDAndAppData
	Items []wireItem
}

// lenient T for the goloop test fixtures (they assert internally; a failed assert is a machinery problem)
type lenientT struct{ errs []string }

func (l *lenientT) Errorf(format string, args ...interface{}) {
	l.errs = append(l.errs, fmt.Sprintf(format, args...))
}
func (l *lenientT) Logf(format string, args ...any) {}

// target is what a valid precommit signs
type target struct {
	height int64
	id     []byte
	round  int32
	psid   *consensus.PartSetID
	ts0    int64
}

type signerSet struct {
	wallets  []module.Wallet // index 0 = a key that is not a validator
	validors module.ValidatorList
}

func newSignerSet(n int, ws []module.Wallet) (*signerSet, error) {
	s := &signerSet{wallets: make([]module.Wallet, n+1)}
	s.wallets[0] = wallet.New()
	vs := make([]module.Validator, n)
	for i := 1; i <= n; i++ {
		if ws != nil {
			s.wallets[i] = ws[i-1]
		} else {
			s.wallets[i] = wallet.New()
		}
		v, err := state.ValidatorFromAddress(s.wallets[i].Address())
		if err != nil {
			return nil, err
		}
		vs[i-1] = v
	}
	vl, err := state.ValidatorSnapshotFromSlice(db.NewMapDB(), vs)
	if err != nil {
		return nil, err
	}
	s.validors = vl
	return s, nil
}

func randBytes(rnd *rand.Rand, n int) []byte {
	b := make([]byte, n)
	rnd.Read(b)
	return b
}

// item concretizes one symbolic signature for the target. dupOf >= 0 names an earlier item of the
// same signer (a duplicate either repeats it byte for byte or is a second signature with another timestamp).
func item(rnd *rand.Rand, tg *target, ws []module.Wallet, s asig, prev *wireItem) (wireItem, string, error) {
	w := ws[s.Who]
	ts := tg.ts0 + int64(rnd.Intn(1000))
	sign := func(vt consensus.VoteType, h int64, r int32, id []byte, ps *consensus.PartSetID, t int64) common.Signature {
		return consensus.NewVoteMessage(w, vt, h, r, id, ps, t, nil, nil, 0).Signature
	}
	switch s.What {
	case "ok":
		if prev != nil && rnd.Intn(2) == 0 {
			return *prev, "copy", nil
		}
		return wireItem{ts, sign(consensus.VoteTypePrecommit, tg.height, tg.round, tg.id, tg.psid, ts)}, "", nil
	case "block":
		return wireItem{ts, sign(consensus.VoteTypePrecommit, tg.height, tg.round, randBytes(rnd, 32), tg.psid, ts)}, "", nil
	case "round":
		return wireItem{ts, sign(consensus.VoteTypePrecommit, tg.height, tg.round+1, tg.id, tg.psid, ts)}, "", nil
	case "psid":
		ps := &consensus.PartSetID{Count: tg.psid.Count, Hash: randBytes(rnd, 32)}
		if rnd.Intn(2) == 0 {
			ps = &consensus.PartSetID{Count: tg.psid.Count + 1, Hash: tg.psid.Hash}
		}
		return wireItem{ts, sign(consensus.VoteTypePrecommit, tg.height, tg.round, tg.id, ps, ts)}, "", nil
	case "type":
		return wireItem{ts, sign(consensus.VoteTypePrevote, tg.height, tg.round, tg.id, tg.psid, ts)}, "", nil
	case "ts":
		return wireItem{ts + 1, sign(consensus.VoteTypePrecommit, tg.height, tg.round, tg.id, tg.psid, ts)}, "", nil
	case "forged":
		good := sign(consensus.VoteTypePrecommit, tg.height, tg.round, tg.id, tg.psid, ts)
		rsv, err := good.Signature.SerializeRSV()
		if err != nil {
			return wireItem{}, "", err
		}
		var variant string
		switch rnd.Intn(3) {
		case 0: // random r, s with a valid recovery flag
			variant = "random"
			copy(rsv, randBytes(rnd, 64))
			rsv[0] &= 0x7f
			rsv[32] &= 0x7f
		case 1: // one bit of a genuine signature flipped
			variant = "bitflip"
			rsv[rnd.Intn(64)] ^= 1 << uint(rnd.Intn(8))
		default: // the other recovery flag
			variant = "flag"
			rsv[64] ^= 1
		}
		sig, err := crypto.ParseSignature(rsv)
		if err != nil {
			return wireItem{}, "", err
		}
		return wireItem{ts, common.Signature{Signature: sig}}, variant, nil
	case "garbage":
		// no public key can be recovered from these bytes
		if rnd.Intn(2) == 0 {
			return wireItem{ts, common.Signature{}}, "empty", nil
		}
		sig, err := crypto.ParseSignature(make([]byte, 65))
		if err != nil {
			return wireItem{}, "", err
		}
		return wireItem{ts, common.Signature{Signature: sig}}, "zero-rs", nil
	}
	return wireItem{}, "", fmt.Errorf("unknown signature kind %q", s.What)
}

func buildList(rnd *rand.Rand, tg *target, ws []module.Wallet, cert []asig) ([]byte, []string, error) {
	wl := wireList{Round: tg.round, BPSID: tg.psid.WithAppData(0)}
	first := map[int]int{}
	var notes []string
	for i, s := range cert {
		var prev *wireItem
		if s.What == "ok" {
			if j, ok := first[s.Who]; ok {
				prev = &wl.Items[j]
			} else {
				first[s.Who] = i
			}
		}
		it, note, err := item(rnd, tg, ws, s, prev)
		if err != nil {
			return nil, nil, err
		}
		if note != "" {
			notes = append(notes, fmt.Sprintf("%d:%s", i, note))
		}
		wl.Items = append(wl.Items, it)
	}
	bs, err := codec.BC.MarshalToBytes(&wl)
	return bs, notes, err
}

// verifyBlock calls the real verifier; a panic of the real code is caught so that the remaining
// cases still run (the validator list releases its lock by defer).
func verifyBlock(cvs module.CommitVoteSet, blk module.BlockData, vl module.ValidatorList) (err error, panicked string) {
	defer func() {
		if r := recover(); r != nil {
			panicked = fmt.Sprintf("%v\n%s", r, debug.Stack())
		}
	}()
	_, err = cvs.VerifyBlock(blk, vl)
	return err, ""
}

func panicClass(cert []asig) string {
	for _, c := range cert {
		if c.What == "garbage" || c.What == "forged" {
			return "unrecoverable-signature"
		}
	}
	return "other"
}

func firstLine(s string) string {
	if i := strings.IndexByte(s, '\n'); i >= 0 {
		return s[:i]
	}
	return s
}

// at most maxPerKey violation records per key are written (one defect falsifies thousands of table entries)
const maxPerKey = 8

type capped struct {
	*tlaio.Out
	perKey     map[string]int
	suppressed int
}

func (c *capped) Violation(id interface{}, key, what string, det interface{}) {
	if c.perKey == nil {
		c.perKey = map[string]int{}
	}
	c.perKey[key]++
	if c.perKey[key] > maxPerKey {
		c.suppressed++
		return
	}
	c.Out.Violation(id, key, what, det)
}

func sigOf(s step) string {
	var b bytes.Buffer
	fmt.Fprintf(&b, "n%d:", s.N)
	for _, c := range s.Cert {
		fmt.Fprintf(&b, "%d%s,", c.Who, c.What)
	}
	return b.String()
}

func partSetIDOf(blk module.BlockData) (*consensus.PartSetID, error) {
	var buf bytes.Buffer
	if err := blk.Marshal(&buf); err != nil {
		return nil, err
	}
	pb := consensus.NewPartSetBuffer(consensus.ConfigBlockPartSize)
	if _, err := pb.Write(buf.Bytes()); err != nil {
		return nil, err
	}
	return pb.PartSet().ID(), nil
}

func TestReplay(t *testing.T) {
	if !tlaio.HaveInput() {
		t.Skip("driven by tools/check.py")
	}
	os.Setenv("TMPDIR", tlaio.ScratchDir())
	out := &capped{Out: tlaio.OpenOut()}
	rnd := tlaio.Rand()
	lt := &lenientT{}
	// a real finalized block of a real block manager is the certified block
	node := test.NewNode(lt)
	defer node.Close()
	for i := 0; i < 1+rnd.Intn(3); i++ {
		node.ProposeFinalizeBlock(consensus.NewEmptyCommitVoteList())
	}
	blk := node.LastBlock
	genesis, gerr := node.BM.GetBlockByHeight(0)
	if gerr != nil {
		t.Fatal(gerr)
	}
	psid, err := partSetIDOf(blk)
	if err != nil || len(lt.errs) > 0 {
		t.Fatalf("fixture: %v %v", err, lt.errs)
	}
	tg := &target{height: blk.Height(), id: blk.ID(), round: int32(rnd.Intn(4)), psid: psid, ts0: blk.Timestamp() + 1}
	sets := map[int]*signerSet{}
	n := 0
	err = tlaio.ReadInput(func(idx int, raw json.RawMessage) error {
		if !tlaio.Mine(idx) {
			return nil
		}
		var steps []step
		if err := json.Unmarshal(raw, &steps); err != nil {
			return err
		}
		s := steps[0]
		if s.Op != "verifylist" && s.Op != "decodelist" {
			return fmt.Errorf("unexpected op %q", s.Op)
		}
		ss := sets[s.N]
		if ss == nil {
			if ss, err = newSignerSet(s.N, nil); err != nil {
				return err
			}
			sets[s.N] = ss
		}
		// per-case randomness depends only on the seed and the case, so a replay file reproduces it
		h := fnv.New64a()
		h.Write([]byte(sigOf(s)))
		crnd := rand.New(rand.NewSource(tlaio.Seed() ^ int64(h.Sum64()>>1)))
		id := fmt.Sprintf("c%d", idx)
		if s.Op == "decodelist" {
			// bytes that are not an encoding of a vote list must not yield a vote set
			good, _, err := buildList(crnd, tg, ss.wallets, []asig{{Who: map[bool]int{true: 1, false: 0}[s.N >= 1], What: "ok"}})
			if err != nil {
				return err
			}
			switch s.Defect {
			case "trunc":
				good = good[:1+crnd.Intn(len(good)-1)]
			case "scalar":
				good = codec.BC.MustMarshalToBytes(good)
			case "baditem": // an item whose signature field has an impossible length
				good = codec.BC.MustMarshalToBytes(&struct {
					Round int32
					BPSID *consensus.PartSetIDAndAppData
					Items []struct {
						Timestamp int64
						Signature []byte
					}
				}{tg.round, tg.psid.WithAppData(0), []struct {
					Timestamp int64
					Signature []byte
				}{{tg.ts0, make([]byte, 7+crnd.Intn(50))}}})
			}
			out.Begin(id, "cvl:crash:decode")
			if cvs := consensus.NewCommitVoteSetFromBytes(good); cvs != nil {
				out.Violation(id, "cvl:decoded:"+s.Defect, fmt.Sprintf("NewCommitVoteSetFromBytes returns a vote set for malformed bytes (%s)", s.Defect),
					map[string]interface{}{"behaviour": steps, "bytes": fmt.Sprintf("%x", good)})
			} else {
				out.OK(id, true, "decodelist:"+s.Defect+fmt.Sprint(s.N))
			}
			return nil
		}
		bs, notes, err := buildList(crnd, tg, ss.wallets, s.Cert)
		if err != nil {
			return err
		}
		out.Begin(id, "cvl:crash")
		cvs := consensus.NewCommitVoteSetFromBytes(bs)
		if cvs == nil {
			return fmt.Errorf("case %d: the commit vote list does not decode", idx)
		}
		// no validator set is designated (n = 0): the genesis block, a nil validator list or an empty one
		vblk, vals := module.BlockData(blk), ss.validors
		if s.N == 0 {
			switch crnd.Intn(3) {
			case 0:
				vals = nil
				notes = append(notes, "nil-validators")
			case 1:
				notes = append(notes, "empty-validators")
			default:
				vblk = genesis
				if four, err := newSignerSet(4, nil); err == nil {
					vals = four.validors
				}
				notes = append(notes, "genesis-block")
			}
		}
		verr, panicked := verifyBlock(cvs, vblk, vals)
		n++
		det := map[string]interface{}{"behaviour": steps, "bytes": fmt.Sprintf("%x", bs), "variants": notes,
			"spec": s.Res, "real": fmt.Sprint(verr), "height": tg.height, "round": tg.round}
		switch {
		case panicked != "":
			det["panic"] = panicked
			out.Violation(id, "cvl:panic:"+panicClass(s.Cert), fmt.Sprintf("VerifyBlock panics instead of rejecting the commit vote list "+
				"n=%d %v (%s): %s", s.N, s.Cert, notes, firstLine(panicked)), det)
		case verr == nil && s.Res != "ok":
			out.Violation(id, "cvl:accepted:"+s.Res, fmt.Sprintf("VerifyBlock accepts a commit vote list that the spec rejects (%s): n=%d %v",
				s.Res, s.N, s.Cert), det)
		case verr != nil && s.Res == "ok":
			out.Divergence(id, fmt.Sprintf("VerifyBlock rejects a list the spec accepts: n=%d %v: %v", s.N, s.Cert, verr), det)
		default:
			out.OK(id, len(s.Cert) > 0, sigOf(s))
		}
		return nil
	})
	if err != nil {
		t.Fatal(err)
	}
	if len(lt.errs) > 0 {
		t.Fatalf("fixture asserts failed: %v", lt.errs)
	}
	out.Close(map[string]interface{}{"verified": n, "violations_per_key": out.perKey, "suppressed_violation_records": out.suppressed})
}
