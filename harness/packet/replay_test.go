package packet

// Replays behaviours of spec/net/PacketStream.tla into the real packet framing code (C30):
// packets are written with network.PacketWriter.WritePacket onto a byte stream, the stream is
// cut into the chunks chosen by the behaviour (each model chunk is further split at random byte
// positions), bytes are altered where the behaviour says so, and network.PacketReader.ReadPacket
// reads them back from a reader that returns exactly those chunks. The oracle is the TLA+ text:
// every event carries the reader output predicted by the spec; this driver only maps abstract
// cells to bytes and compares.

import (
	"bytes"
	"encoding/binary"
	"encoding/json"
	"fmt"
	"io"
	"math/rand"
	"sync"
	"testing"
	"time"

	"github.com/icon-project/goloop/network"

	"verifharness/tlaio"
)

type outPkt struct {
	Hv  int   `json:"hv"`
	Pay []int `json:"pay"`
	El  int   `json:"el"`
	Ext []int `json:"ext"`
}

type event struct {
	Op   string   `json:"op"`
	Hv   int      `json:"hv"`
	Pl   int      `json:"pl"`
	El   int      `json:"el"`
	At   int      `json:"at"`
	Kind string   `json:"kind"`
	V    int      `json:"v"`
	N    int      `json:"n"`
	Out  []outPkt `json:"out"`
	Dead bool     `json:"dead"`
	Nout int      `json:"nout"`
}

const (
	maxLenCells = 3 // MaxLen of the spec: payload cells the reader accepts
	payloadMax  = 1024 * 1024
	fieldsSize  = 26 // protocol, sub-protocol, src, dest, ttl
	garbled     = 99
)

type fields struct {
	pi, spi   uint16
	src       []byte
	dest, ttl byte
	hint      byte
}

// concretization parameters of one behaviour
type conc struct {
	rnd  *rand.Rand
	hdr  map[int]fields
	blk  int // bytes per payload cell
	eblk int // bytes per ext cell
	salt byte
}

func pick16(r *rand.Rand) uint16 {
	switch r.Intn(5) {
	case 0:
		return 0
	case 1:
		return 0xFFFF
	default:
		return uint16(r.Intn(0x10000))
	}
}

func pick8(r *rand.Rand) byte {
	switch r.Intn(5) {
	case 0:
		return 0
	case 1:
		return 0xFF
	default:
		return byte(r.Intn(256))
	}
}

func newConc(r *rand.Rand) *conc {
	c := &conc{rnd: r, hdr: map[int]fields{}, salt: byte(r.Intn(256))}
	blks := []int{1, 1, 2, 7, 100, 1500, 4096, 5000}
	if tlaio.Thorough() {
		blks = append(blks, 20000, 349525) // 3 cells = 1 MiB - 1, the largest payload
	} else if r.Intn(12) == 0 {
		blks = []int{349525}
	}
	c.blk = blks[r.Intn(len(blks))]
	eblks := []int{1, 4, 50, 341}
	c.eblk = eblks[r.Intn(len(eblks))]
	for hv := 1; hv <= 3; hv++ {
		f := fields{pi: pick16(r), spi: pick16(r), src: make([]byte, 20), dest: pick8(r), ttl: pick8(r), hint: byte(r.Intn(64))}
		r.Read(f.src)
		c.hdr[hv] = f
	}
	return c
}

func (c *conc) block(kind byte, i, n int) []byte {
	b := make([]byte, n)
	for j := range b {
		b[j] = kind ^ byte(i*31) ^ byte(j*7) ^ byte(j>>8) ^ c.salt
	}
	return b
}

func (c *conc) payload(cells []int) []byte {
	var b []byte
	for _, v := range cells {
		b = append(b, c.block(0x50, v, c.blk)...)
	}
	return b
}

type span struct{ a, b int }

// feedReader returns exactly the byte chunks it is given; it tells the driver when it starves.
type feedReader struct {
	ch   chan []byte
	idle chan struct{}
	cur  []byte
}

func (r *feedReader) Read(p []byte) (int, error) {
	for len(r.cur) == 0 {
		r.idle <- struct{}{}
		b, ok := <-r.ch
		if !ok {
			return 0, io.EOF
		}
		r.cur = b
	}
	n := copy(p, r.cur)
	r.cur = r.cur[n:]
	return n, nil
}

type reader struct {
	fr   *feedReader
	done chan struct{}
	mtx  sync.Mutex
	got  []network.VerifPacket
	err  error
	over bool
}

func startReader() *reader {
	rd := &reader{fr: &feedReader{ch: make(chan []byte), idle: make(chan struct{})}, done: make(chan struct{})}
	go func() {
		defer close(rd.done)
		pr := network.NewPacketReader(rd.fr)
		for {
			pkt, err := pr.ReadPacket()
			if err != nil {
				rd.mtx.Lock()
				rd.err = err
				rd.mtx.Unlock()
				return
			}
			rd.mtx.Lock()
			rd.got = append(rd.got, network.VerifPacketOf(pkt))
			rd.mtx.Unlock()
		}
	}()
	rd.wait()
	return rd
}

// wait blocks until the reader starves again or has returned an error
func (rd *reader) wait() {
	if rd.over {
		return
	}
	select {
	case <-rd.fr.idle:
	case <-rd.done:
		rd.over = true
	case <-time.After(60 * time.Second):
		panic("reader neither starves nor ends")
	}
}

func (rd *reader) feed(b []byte) {
	if rd.over || len(b) == 0 {
		return
	}
	select {
	case rd.fr.ch <- b:
	case <-rd.done:
		rd.over = true
		return
	}
	rd.wait()
}

func (rd *reader) eof() {
	if !rd.over {
		close(rd.fr.ch)
		<-rd.done
		rd.over = true
	}
}

func (rd *reader) count() int {
	rd.mtx.Lock()
	defer rd.mtx.Unlock()
	return len(rd.got)
}

type verdict struct {
	key, what string
	violation bool
}

// checkPacket compares a packet returned by the real reader with the spec's prediction
func (c *conc) checkPacket(g network.VerifPacket, m outPkt, hdrOnly bool) string {
	f, ok := c.hdr[m.Hv]
	if !ok {
		return fmt.Sprintf("spec predicts unknown header id %d", m.Hv)
	}
	if g.Protocol != f.pi || g.SubProtocol != f.spi || !bytes.Equal(g.Src, f.src) || g.Dest != f.dest || g.TTL != f.ttl {
		return fmt.Sprintf("header fields differ: got pi=%#x spi=%#x src=%x dest=%#x ttl=%d, written pi=%#x spi=%#x src=%x dest=%#x ttl=%d",
			g.Protocol, g.SubProtocol, g.Src, g.Dest, g.TTL, f.pi, f.spi, f.src, f.dest, f.ttl)
	}
	if !bytes.Equal(g.Payload, c.payload(m.Pay)) {
		return fmt.Sprintf("payload differs: got %d bytes, written %d bytes (or content)", len(g.Payload), len(m.Pay)*c.blk)
	}
	if hdrOnly {
		return ""
	}
	if g.ExtHint != f.hint {
		return fmt.Sprintf("ext hint differs: got %d, written %d", g.ExtHint, f.hint)
	}
	if len(g.Ext) != m.El*c.eblk {
		return fmt.Sprintf("ext length differs: got %d, spec says %d", len(g.Ext), m.El*c.eblk)
	}
	for i, v := range m.Ext {
		if v < 11 || v > 13 {
			continue // altered or mis-framed cell: content not predicted
		}
		if !bytes.Equal(g.Ext[i*c.eblk:(i+1)*c.eblk], c.block(0xE0, v-10, c.eblk)) {
			return fmt.Sprintf("ext block %d differs", i)
		}
	}
	return ""
}

func runBehaviour(evs []event, c *conc) *verdict {
	var wire bytes.Buffer
	var img []byte // the stream as the reader will see it (wire with alterations)
	var cells []span
	pos := 0
	pw := network.NewPacketWriter(&wire)
	rd := startReader()
	defer rd.eof()
	// alterations so far: hitKind = kind of the first one, hitPkt = first packet with an altered header,
	// length, payload or hash (0: none), elHit = an ext length was altered
	hitKind, hitPkt, elHit := "", 0, false
	nsent := 0
	for i, e := range evs {
		switch e.Op {
		case "write":
			f := c.hdr[e.Hv]
			var pay, ext []byte
			var cellsPay []int
			for j := 1; j <= e.Pl; j++ {
				cellsPay = append(cellsPay, j)
			}
			pay = c.payload(cellsPay)
			for j := 1; j <= e.El; j++ {
				ext = append(ext, c.block(0xE0, j, c.eblk)...)
			}
			pkt := network.VerifNewPacket(network.VerifPacket{Protocol: f.pi, SubProtocol: f.spi, Src: f.src,
				Dest: f.dest, TTL: f.ttl, Payload: pay, ExtHint: f.hint, Ext: ext})
			before := wire.Len()
			if err := pw.WritePacket(pkt); err != nil {
				return &verdict{"packet:write-error", fmt.Sprintf("step %d: WritePacket failed: %v", i, err), true}
			}
			nb := wire.Bytes()[before:]
			want := network.VerifPacketHeaderSize + len(pay) + network.VerifPacketFooterSize + len(ext)
			if len(nb) != want {
				return &verdict{"packet:wire-length", fmt.Sprintf("step %d: WritePacket put %d bytes on the stream, layout says %d", i, len(nb), want), true}
			}
			off := len(img)
			img = append(img, nb...)
			cells = append(cells, span{off, off + fieldsSize}, span{off + fieldsSize, off + fieldsSize + 4})
			o := off + network.VerifPacketHeaderSize
			for j := 0; j < e.Pl; j++ {
				cells = append(cells, span{o, o + c.blk})
				o += c.blk
			}
			cells = append(cells, span{o, o + 8}, span{o + 8, o + 10})
			o += 10
			for j := 0; j < e.El; j++ {
				cells = append(cells, span{o, o + c.eblk})
				o += c.eblk
			}
			nsent++
		case "corrupt":
			sp := cells[e.At-1]
			if hitKind == "" {
				hitKind = e.Kind
			} else {
				hitKind += "+" + e.Kind
			}
			if e.Kind == "hash" && e.V == 0 {
				hitKind += "=0"
			}
			if e.Kind == "hv" || e.Kind == "pl" || e.Kind == "pay" || e.Kind == "hash" {
				if hitPkt == 0 || e.N < hitPkt {
					hitPkt = e.N
				}
			}
			if e.Kind == "el" {
				elHit = true
			}
			switch e.Kind {
			case "pl":
				n := uint32(e.V * c.blk)
				if e.V > maxLenCells {
					n = uint32(payloadMax + 1 + c.rnd.Intn(1<<20))
				}
				binary.BigEndian.PutUint32(img[sp.a:sp.b], n)
			case "el":
				f := binary.BigEndian.Uint16(img[sp.a:sp.b])
				binary.BigEndian.PutUint16(img[sp.a:sp.b], f&0xFC00|uint16(e.V*c.eblk))
			case "hash":
				if e.V == 0 { // the footer hash blanked to all zeros
					for k := sp.a; k < sp.b; k++ {
						img[k] = 0
					}
				} else {
					img[sp.a+c.rnd.Intn(sp.b-sp.a)] ^= 1 << uint(c.rnd.Intn(8))
				}
			default: // one bit of one byte of the cell
				img[sp.a+c.rnd.Intn(sp.b-sp.a)] ^= 1 << uint(c.rnd.Intn(8))
			}
		case "chunk":
			a, b := cells[pos].a, cells[pos+e.N-1].b
			pos += e.N
			// the model chunk is delivered as 1..4 reads cut at random byte positions
			for a < b {
				n := b - a
				if k := c.rnd.Intn(4); k > 0 && n > 1 {
					n = 1 + c.rnd.Intn(n)
				}
				rd.feed(img[a : a+n])
				a += n
			}
		case "close":
		case "eof":
			rd.eof()
		}
		if hitKind == "" {
			// no alteration so far: the reader returns each packet as soon as it is complete, and no error
			if rd.over && e.Op != "eof" {
				return &verdict{"packet:roundtrip:error", fmt.Sprintf("step %d (%s): ReadPacket failed on an unaltered stream: %v (blk=%d)", i, e.Op, rd.err, c.blk), true}
			}
			if rd.count() != e.Nout {
				return &verdict{"packet:roundtrip:count", fmt.Sprintf("step %d (%s): reader has returned %d packets, spec says %d (blk=%d eblk=%d)", i, e.Op, rd.count(), e.Nout, c.blk, c.eblk), true}
			}
		}
	}
	last := evs[len(evs)-1]
	if last.Op != "eof" {
		return &verdict{"packet:driver", "behaviour does not end with eof", false}
	}
	got := rd.got
	protected := hitPkt > 0
	if protected && len(got) >= hitPkt {
		return &verdict{"packet:corruption-accepted:" + hitKind,
			fmt.Sprintf("packet %d had its %s altered in transit but ReadPacket returned %d packets without error (blk=%d)", hitPkt, hitKind, len(got), c.blk), true}
	}
	if len(got) > nsent {
		return &verdict{"packet:phantom", fmt.Sprintf("reader returned %d packets, %d were written", len(got), nsent), true}
	}
	for j, g := range got {
		if j >= len(last.Out) {
			break
		}
		if w := c.checkPacket(g, last.Out[j], true); w != "" {
			return &verdict{"packet:field-mismatch", fmt.Sprintf("packet %d: %s (blk=%d)", j+1, w, c.blk), true}
		}
	}
	if elHit {
		return nil // how much follows a wrong ext length depends on block sizes; header/payload were compared
	}
	if len(got) != len(last.Out) {
		v := &verdict{"packet:count", fmt.Sprintf("reader returned %d packets, spec says %d (alteration: %q, blk=%d)", len(got), len(last.Out), hitKind, c.blk), hitKind == ""}
		return v
	}
	for j, g := range got {
		if w := c.checkPacket(g, last.Out[j], false); w != "" {
			return &verdict{"packet:ext-mismatch", fmt.Sprintf("packet %d: %s (eblk=%d)", j+1, w, c.eblk), hitKind == ""}
		}
	}
	if hitKind == "" && rd.err != io.EOF {
		return &verdict{"packet:roundtrip:error", fmt.Sprintf("stream ended cleanly but ReadPacket reported %v", rd.err), true}
	}
	if protected && rd.err == nil {
		return &verdict{"packet:corruption-accepted:" + hitKind, "no error reported", true}
	}
	return nil
}

func TestReplay(t *testing.T) {
	if !tlaio.HaveInput() {
		t.Skip("driven by tools/check.py")
	}
	out := tlaio.OpenOut()
	rnd := tlaio.Rand()
	err := tlaio.ReadInput(func(idx int, raw json.RawMessage) error {
		var evs []event
		sub := rnd.Int63()
		if err := json.Unmarshal(raw, &evs); err != nil {
			// a replay file entry: {"behaviour": [...], "sub": n} re-runs with the same concretization
			var rp struct {
				Behaviour []event `json:"behaviour"`
				Sub       int64   `json:"sub"`
			}
			if err2 := json.Unmarshal(raw, &rp); err2 != nil || rp.Behaviour == nil {
				return err
			}
			evs, sub = rp.Behaviour, rp.Sub
		}
		if !tlaio.Mine(idx) {
			return nil
		}
		c := newConc(rand.New(rand.NewSource(sub)))
		// a behaviour whose payloads are all zero or one cell long (and whose length fields are not altered) can
		// use a cell of EXACTLY the maximum payload (1 MiB), the largest packet a writer may legally produce
		small := true
		for _, e := range evs {
			if (e.Op == "write" && e.Pl > 1) || (e.Op == "corrupt" && e.Kind == "pl") {
				small = false
			}
		}
		if small && c.rnd.Intn(3) == 0 {
			c.blk = payloadMax
		}
		id := fmt.Sprintf("b%d", idx)
		sig, nontrivial := "", false
		for _, e := range evs {
			switch e.Op {
			case "write":
				sig += fmt.Sprintf("w%d.%d.%d;", e.Hv, e.Pl, e.El)
			case "chunk":
				sig += fmt.Sprintf("c%d;", e.N)
				nontrivial = true
			case "corrupt":
				sig += fmt.Sprintf("x%d%s%d;", e.At, e.Kind, e.V)
			default:
				sig += e.Op[:1] + ";"
			}
		}
		v := runBehaviour(evs, c)
		detail := map[string]interface{}{"behaviour": evs, "sub": sub, "blk": c.blk, "eblk": c.eblk}
		if v == nil {
			out.OK(id, nontrivial, sig)
		} else if v.violation {
			out.Violation(id, v.key, v.what, detail)
		} else {
			out.Divergence(id, v.key+": "+v.what, detail)
		}
		return nil
	})
	if err != nil {
		t.Fatal(err)
	}
	out.Close(nil)
}
