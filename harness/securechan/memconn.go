// Package securechan holds the in-memory transport used by the C31/C32 replay drivers: a pair of
// net.Conn ends joined by two frame queues that the driver can inspect and manipulate (the "tap").
package securechan

import (
	"errors"
	"math/rand"
	"net"
	"sync"
	"time"
)

// ErrWouldBlock is returned by Read when nothing is in transit (a real connection would block).
var ErrWouldBlock = errors.New("memconn: no data in transit")

// Queue is one direction of the transport: every conn.Write call is kept as one unit.
// The driver may edit Frames between calls (single-threaded replay).
type Queue struct {
	mtx    sync.Mutex
	wake   chan struct{} // closed and replaced whenever something changes
	Frames [][]byte      // units not yet (completely) read
	headAt int           // bytes of Frames[0] already read
	Last   []byte        // last unit that was read completely
	Writes int
	closed bool
}

func newQueue() *Queue { return &Queue{wake: make(chan struct{})} }

func (q *Queue) Len() int {
	q.mtx.Lock()
	defer q.mtx.Unlock()
	return len(q.Frames)
}

func (q *Queue) signal() {
	close(q.wake)
	q.wake = make(chan struct{})
}

type addr struct{}

func (addr) Network() string { return "mem" }
func (addr) String() string  { return "mem" }

// MemConn is one end. Read may return fewer bytes than available. With Blocking unset Read
// never blocks (ErrWouldBlock when nothing is in transit); with Blocking set it waits for data,
// for Close of either end, or at most BlockFor.
type MemConn struct {
	In, Out  *Queue
	Rnd      *rand.Rand // nil: reads return as much as possible within one unit
	Blocking bool
	BlockFor time.Duration
	rmtx     sync.Mutex
}

// NewPipe returns the two ends (a writes to ab and reads from ba; b the other way round).
func NewPipe(rnd *rand.Rand) (a, b *MemConn, ab, ba *Queue) {
	ab, ba = newQueue(), newQueue()
	return &MemConn{In: ba, Out: ab, Rnd: rnd}, &MemConn{In: ab, Out: ba, Rnd: rnd}, ab, ba
}

func (c *MemConn) Read(p []byte) (int, error) {
	q := c.In
	if len(p) == 0 {
		return 0, nil
	}
	deadline := time.Now().Add(c.BlockFor)
	for {
		q.mtx.Lock()
		if len(q.Frames) > 0 {
			h := q.Frames[0][q.headAt:]
			n := len(h)
			if n > len(p) {
				n = len(p)
			}
			if c.Rnd != nil && n > 1 {
				c.rmtx.Lock()
				if c.Rnd.Intn(3) == 0 {
					n = 1 + c.Rnd.Intn(n)
				}
				c.rmtx.Unlock()
			}
			copy(p, h[:n])
			q.headAt += n
			if q.headAt == len(q.Frames[0]) {
				q.Last = q.Frames[0]
				q.Frames = q.Frames[1:]
				q.headAt = 0
			}
			q.mtx.Unlock()
			return n, nil
		}
		closed, wake := q.closed, q.wake
		q.mtx.Unlock()
		if closed {
			return 0, net.ErrClosed
		}
		if !c.Blocking {
			return 0, ErrWouldBlock
		}
		left := time.Until(deadline)
		if left <= 0 {
			return 0, ErrWouldBlock
		}
		select {
		case <-wake:
		case <-time.After(left):
		}
	}
}

func (c *MemConn) Write(p []byte) (int, error) {
	q := c.Out
	q.mtx.Lock()
	defer q.mtx.Unlock()
	if q.closed {
		return len(p), nil
	}
	q.Frames = append(q.Frames, append([]byte(nil), p...))
	q.Writes++
	q.signal()
	return len(p), nil
}

// Close ends this end's reads. What the other end still writes is discarded silently (like the
// first writes to a socket whose peer has gone).
func (c *MemConn) Close() error {
	q := c.In
	q.mtx.Lock()
	if !q.closed {
		q.closed = true
		q.Frames, q.headAt = nil, 0
		q.signal()
	}
	q.mtx.Unlock()
	return nil
}

func (c *MemConn) LocalAddr() net.Addr                { return addr{} }
func (c *MemConn) RemoteAddr() net.Addr               { return addr{} }
func (c *MemConn) SetDeadline(t time.Time) error      { return nil }
func (c *MemConn) SetReadDeadline(t time.Time) error  { return nil }
func (c *MemConn) SetWriteDeadline(t time.Time) error { return nil }
