package securechan

// Replays behaviours of spec/net/SecureChannel.tla into real network.SecureConn pairs (C31).
// Both ends are keyed exactly as Authenticator.applySecureConn does (ECDH + HKDF through
// secureKey.setup, hook VerifSecurePair) on top of an in-memory transport whose frame queues the
// driver manipulates as the behaviour says (tamper / drop / duplicate / swap / replay / reflect).
// The oracle is the TLA+ text: every Read carries the number of bytes (or the failure) the spec
// predicts; the driver maps stream offsets to bytes and compares what SecureConn.Read returns.

import (
	"bytes"
	"encoding/json"
	"fmt"
	"math/rand"
	"testing"

	"github.com/icon-project/goloop/network"

	"verifharness/tlaio"
)

type step struct {
	Op   string `json:"op"`
	D    string `json:"d"`
	N    int    `json:"n"`
	I    int    `json:"i"`
	Kind string `json:"kind"`
	Res  int    `json:"res"`
	Off  int    `json:"off"`
	Wab  int    `json:"wab"`
	Wba  int    `json:"wba"`
}

type verdict struct {
	key, what string
	violation bool
}

var suites = []network.SecureAeadSuite{
	network.SecureAeadSuiteChaCha20Poly1305, network.SecureAeadSuiteAes128Gcm, network.SecureAeadSuiteAes256Gcm,
}

// content of the stream written in direction d: byte at offset k
func streamByte(salt byte, d string, k int) byte {
	x := uint32(k)*2654435761 + uint32(salt)*97
	if d == "ba" {
		x ^= 0x5bd1e995
	}
	return byte(x >> 13)
}

func streamBytes(salt byte, d string, off, n int) []byte {
	b := make([]byte, n)
	for i := range b {
		b[i] = streamByte(salt, d, off+i)
	}
	return b
}

func checkKeys(a, b *network.VerifSecureEnd) string {
	switch {
	case len(a.OutSecret) == 0 || len(a.InSecret) == 0:
		return "empty secret"
	case !bytes.Equal(a.OutSecret, b.InSecret):
		return "the dialer's write key differs from the acceptor's read key"
	case !bytes.Equal(a.InSecret, b.OutSecret):
		return "the dialer's read key differs from the acceptor's write key"
	case bytes.Equal(a.InSecret, a.OutSecret):
		return "both directions use the same key"
	case !bytes.Equal(a.Extra, b.Extra):
		return "the two ends derive different session secrets (extra)"
	case bytes.Equal(a.Extra, a.InSecret) || bytes.Equal(a.Extra, a.OutSecret):
		return "the session secret (extra) equals a traffic key"
	case a.IsLower == b.IsLower:
		return "both ends chose the same key order"
	}
	return ""
}

func runBehaviour(steps []step, suite network.SecureAeadSuite, rnd *rand.Rand) *verdict {
	salt := byte(rnd.Intn(256))
	ca, cb, qab, qba := NewPipe(rnd)
	a, b, err := network.VerifSecurePair(suite, ca, cb)
	if err != nil {
		return &verdict{"securechan:setup", err.Error(), false}
	}
	if w := checkKeys(a, b); w != "" {
		return &verdict{"securechan:keys", fmt.Sprintf("suite %v: %s", suite, w), true}
	}
	ovh := network.VerifSecureOverhead(a.Conn)
	q := map[string]*Queue{"ab": qab, "ba": qba}
	writer := map[string]*network.SecureConn{"ab": a.Conn, "ba": b.Conn}
	reader := map[string]*network.SecureConn{"ab": b.Conn, "ba": a.Conn}
	rcvd := map[string]int{}
	lastGood := map[string][]byte{}
	firstGood := map[string][]byte{} // the first frame of the connection, as recorded by the eavesdropper
	failed := map[string]bool{}
	attack := ""
	for i, s := range steps {
		switch s.Op {
		case "write":
			data := streamBytes(salt, s.D, s.Off, s.N)
			before := q[s.D].Len()
			n, err := writer[s.D].Write(data)
			if err != nil || n != s.N {
				return &verdict{"secureaead:write", fmt.Sprintf("step %d: Write(%d bytes) returned (%d, %v)", i, s.N, n, err), true}
			}
			if got := q[s.D].Len() - before; got != s.I {
				return &verdict{"secureaead:frames", fmt.Sprintf("step %d: Write(%d) produced %d transport writes, spec says %d frames", i, s.N, got, s.I), false}
			}
			left := s.N
			for _, fr := range q[s.D].Frames[before:] {
				l := left
				if l > network.VerifSecureFrameSize {
					l = network.VerifSecureFrameSize
				}
				if len(fr) != network.VerifSecureHeaderSize+l+ovh || int(fr[0])<<8|int(fr[1]) != l {
					return &verdict{"secureaead:frame-layout", fmt.Sprintf("step %d: frame of %d bytes for %d plaintext bytes", i, len(fr), l), false}
				}
				if l >= 16 && bytes.Contains(fr, data[s.N-left:s.N-left+16]) {
					return &verdict{"secureaead:plaintext-on-wire", fmt.Sprintf("step %d: plaintext visible in a frame", i), true}
				}
				left -= l
			}
		case "read":
			buf := bytes.Repeat([]byte{0xA5}, s.N)
			n, err := reader[s.D].Read(buf)
			if s.Res < 0 {
				if err == nil {
					return &verdict{"secureaead:attack-accepted:" + attack,
						fmt.Sprintf("step %d: after attack %q the next frame must not open, but Read returned %d bytes without error (suite %v)", i, attack, n, suite), true}
				}
				failed[s.D] = true
				continue
			}
			if err != nil {
				return &verdict{"secureaead:read:spurious-error", fmt.Sprintf("step %d: Read(buffer %d) failed with %v, spec says %d bytes (suite %v, attack %q)", i, s.N, err, s.Res, suite, attack), true}
			}
			if n > s.N {
				return &verdict{"secureaead:read:buffer-smaller-than-frame",
					fmt.Sprintf("SecureConn.Read with a %d-byte buffer returned n=%d (> len(buf)); a byte stream must return at most %d bytes and keep the rest of the frame for the next Read, the other %d bytes are lost (suite %v)", s.N, n, s.N, n-s.N, suite), true}
			}
			if n < 1 {
				return &verdict{"secureaead:read:zero", fmt.Sprintf("step %d: Read(buffer %d) returned 0 bytes without error", i, s.N), true}
			}
			if want := streamBytes(salt, s.D, rcvd[s.D], n); !bytes.Equal(buf[:n], want) {
				return &verdict{"secureaead:read:wrong-bytes",
					fmt.Sprintf("step %d: Read(buffer %d) returned %d bytes that are not the bytes at offset %d of what the other end wrote (suite %v, attack %q)", i, s.N, n, rcvd[s.D], suite, attack), true}
			}
			rcvd[s.D] += n
			if s.I == 1 {
				lastGood[s.D] = q[s.D].Last
				if firstGood[s.D] == nil {
					firstGood[s.D] = q[s.D].Last
				}
			}
			if n != s.Res {
				return &verdict{"secureaead:read:short", fmt.Sprintf("step %d: Read(buffer %d) returned %d bytes, spec says %d (allowed for a stream, later predictions do not apply)", i, s.N, n, s.Res), false}
			}
		case "attack":
			attack = s.Kind
			qq := q[s.D]
			switch s.Kind {
			case "len":
				fr := append([]byte(nil), qq.Frames[s.I-1]...)
				fr[rnd.Intn(2)] ^= 1 << uint(rnd.Intn(8))
				qq.Frames[s.I-1] = fr
			case "body", "tag":
				fr := append([]byte(nil), qq.Frames[s.I-1]...)
				lo, hi := network.VerifSecureHeaderSize, len(fr)-ovh
				if s.Kind == "tag" || hi == lo {
					lo, hi = len(fr)-ovh, len(fr)
				}
				fr[lo+rnd.Intn(hi-lo)] ^= 1 << uint(rnd.Intn(8))
				qq.Frames[s.I-1] = fr
			case "cut", "cuthdr": // the frame loses its tail
				fr := qq.Frames[s.I-1]
				n := 1 + rnd.Intn(network.VerifSecureHeaderSize-1)
				if s.Kind == "cut" {
					n = network.VerifSecureHeaderSize + rnd.Intn(len(fr)-network.VerifSecureHeaderSize)
				}
				qq.Frames[s.I-1] = append([]byte(nil), fr[:n]...)
			case "drop":
				qq.Frames = append(append([][]byte(nil), qq.Frames[:s.I-1]...), qq.Frames[s.I:]...)
			case "dup":
				nf := append([][]byte(nil), qq.Frames[:s.I]...)
				nf = append(nf, qq.Frames[s.I-1])
				qq.Frames = append(nf, qq.Frames[s.I:]...)
			case "swap":
				nf := append([][]byte(nil), qq.Frames...)
				nf[s.I-1], nf[s.I] = nf[s.I], nf[s.I-1]
				qq.Frames = nf
			case "replayfar":
				// honest traffic until the reader expects nonce n0 + far: s.N one-byte writes, each read at once
				if firstGood[s.D] == nil {
					return &verdict{"securechan:driver", "replayfar without a delivered frame", false}
				}
				one := make([]byte, 1)
				buf := make([]byte, 16)
				for k := 0; k < s.N; k++ {
					one[0] = streamByte(salt, s.D, s.Off+k)
					if n, err := writer[s.D].Write(one); err != nil || n != 1 {
						return &verdict{"secureaead:write", fmt.Sprintf("step %d: filler write %d returned (%d, %v)", i, k, n, err), true}
					}
					n, err := reader[s.D].Read(buf)
					if err != nil || n != 1 || buf[0] != one[0] {
						return &verdict{"secureaead:read:spurious-error", fmt.Sprintf("step %d: filler frame %d of %d (honest traffic): Read returned (%d, %v) (suite %v)", i, k, s.N, n, err, suite), true}
					}
				}
				rcvd[s.D] += s.N
				attack = fmt.Sprintf("replayfar:%d", s.I)
				qq.Frames = append([][]byte{firstGood[s.D]}, qq.Frames...)
			case "replay":
				if lastGood[s.D] == nil {
					return &verdict{"securechan:driver", "replay without a delivered frame", false}
				}
				qq.Frames = append([][]byte{lastGood[s.D]}, qq.Frames...)
			case "reflect":
				o := "ab"
				if s.D == "ab" {
					o = "ba"
				}
				q[o].Frames = append([][]byte{qq.Frames[s.I-1]}, q[o].Frames...)
			}
		}
		// transport occupancy (diagnostic): frames in transit as the spec says, unless a failed read mis-framed
		if !failed["ab"] && !failed["ba"] && (qab.Len() != s.Wab || qba.Len() != s.Wba) {
			return &verdict{"secureaead:transit", fmt.Sprintf("step %d (%s): %d/%d frames in transit, spec says %d/%d", i, s.Op, qab.Len(), qba.Len(), s.Wab, s.Wba), false}
		}
	}
	return nil
}

type input struct {
	Behaviour []step `json:"behaviour"`
	Sub       int64  `json:"sub"`
	Suite     int    `json:"suite"`
}

func TestReplay(t *testing.T) {
	if !tlaio.HaveInput() {
		t.Skip("driven by tools/check.py")
	}
	out := tlaio.OpenOut()
	rnd := tlaio.Rand()
	err := tlaio.ReadInput(func(idx int, raw json.RawMessage) error {
		var steps []step
		sub := rnd.Int63()
		only := -1
		if err := json.Unmarshal(raw, &steps); err != nil {
			var rp input
			if err2 := json.Unmarshal(raw, &rp); err2 != nil || rp.Behaviour == nil {
				return err
			}
			steps, sub, only = rp.Behaviour, rp.Sub, rp.Suite
		}
		if !tlaio.Mine(idx) {
			return nil
		}
		sig, nontrivial := "", false
		for _, s := range steps {
			sig += fmt.Sprintf("%s%s%d.%d%s;", s.Op[:1], s.D, s.N, s.I, s.Kind)
			if s.Op == "read" {
				nontrivial = true
			}
		}
		id := fmt.Sprintf("b%d", idx)
		var bad *verdict
		badSuite := 0
		for si, suite := range suites {
			if only >= 0 && si != only {
				continue
			}
			if v := runBehaviour(steps, suite, rand.New(rand.NewSource(sub+int64(si)))); v != nil && (bad == nil || (v.violation && !bad.violation)) {
				bad, badSuite = v, si
			}
		}
		detail := map[string]interface{}{"behaviour": steps, "sub": sub, "suite": badSuite}
		if bad == nil {
			out.OK(id, nontrivial, sig)
		} else if bad.violation {
			out.Violation(id, bad.key, bad.what, detail)
		} else {
			out.Divergence(id, bad.key+": "+bad.what, detail)
		}
		return nil
	})
	if err != nil {
		t.Fatal(err)
	}
	out.Close(nil)
}
