package intenc

// Replays the decision-table rows of spec/codec/HexJson.tla (C24, JSON text forms of byte strings and flags)
// into common.HexBytes / RawHexBytes / HexHash / HexBool, jsonrpc.HexBytes / HexInt and the validator rules
// t_hash, t_rhash, t_bool, t_int.

import (
	"bytes"
	"encoding/hex"
	"encoding/json"
	"fmt"
	"math/big"
	"math/rand"
	"strings"
	"testing"

	"github.com/icon-project/goloop/common"
	"github.com/icon-project/goloop/server/jsonrpc"

	"verifharness/tlaio"
)

type hjRec struct {
	HexInt bool `json:"hexint"`
	Op       string   `json:"op"`
	Text     []string `json:"text"`
	Skip     int      `json:"skip"`
	HexBytes bool     `json:"hexbytes"`
	RawHex   bool     `json:"rawhex"`
	HexHash  bool     `json:"hexhash"`
	Zero     bool     `json:"zero"`
	HexBool  bool     `json:"hexbool"`
	BoolVal  bool     `json:"boolval"`
	THash    bool     `json:"thash"`
	TRHash   bool     `json:"trhash"`
	TBool    bool     `json:"tbool"`
	TInt     bool     `json:"tint"`
	Canon    bool     `json:"canon"`
	N        int      `json:"n"`
	Nil      bool     `json:"nil"`
	HashText string   `json:"hashtext"`
	HashBack string   `json:"hashback"`
}

func hjChar(cls string, variant int, rnd *rand.Rand) byte {
	switch cls {
	case "z":
		return '0'
	case "d":
		return pick(rnd, variant, "23456789")
	case "a":
		return pick(rnd, variant, "acdef")
	case "A":
		return pick(rnd, variant, "ABCDEF")
	case "g":
		return pick(rnd, variant, "ghopwyz")
	case "G":
		return pick(rnd, variant, "XGHZ")
	case "_":
		return pick(rnd, variant, " -._:")
	}
	return cls[0] // 1 b x
}

type vHash struct {
	V string `validate:"t_hash"`
}
type vRHash struct {
	V string `validate:"t_rhash"`
}
type vBool struct {
	V string `validate:"t_bool"`
}

func quote(s string) []byte { b, _ := json.Marshal(s); return b }

func runHexText(r *hjRec, variant int, rnd *rand.Rand) (string, *fail) {
	cs := make([]byte, len(r.Text))
	for i, c := range r.Text {
		cs[i] = hjChar(c, variant, rnd)
	}
	s := string(cs)
	js := quote(s)
	want, _ := hex.DecodeString(strings.ToLower(s[r.Skip:]))
	crit := r.Canon // canonical text: reading it is part of "formatting parses back"
	var hb common.HexBytes
	if err := json.Unmarshal(js, &hb); (err == nil) != r.HexBytes || (err == nil && (!bytes.Equal(hb, want) || hb == nil)) {
		return s, &fail{crit, "hexbytes", fmt.Sprintf("HexBytes.UnmarshalJSON(%q) = %x, %v; spec ok=%v value %x", s, []byte(hb), err, r.HexBytes, want)}
	}
	if r.Canon {
		if out, err := json.Marshal(hb); err != nil || string(out) != string(js) {
			return s, &fail{true, "hexbytes:canon", fmt.Sprintf("HexBytes(%x) is written as %s, read from %s", []byte(hb), out, js)}
		}
	}
	var rh common.RawHexBytes
	wantRaw, _ := hex.DecodeString(strings.ToLower(s))
	if err := json.Unmarshal(js, &rh); (err == nil) != r.RawHex || (err == nil && !bytes.Equal(rh, wantRaw)) {
		return s, &fail{false, "rawhex", fmt.Sprintf("RawHexBytes.UnmarshalJSON(%q) = %x, %v; spec ok=%v", s, []byte(rh), err, r.RawHex)}
	}
	var hh common.HexHash
	if err := json.Unmarshal(js, &hh); (err == nil) != r.HexHash || (err == nil && ((hh == nil) != r.Zero || (!r.Zero && !bytes.Equal(hh, want)))) {
		return s, &fail{true, "hexhash", fmt.Sprintf("HexHash.UnmarshalJSON(%q) = %x (nil=%v), %v; spec ok=%v zero=%v", s, []byte(hh), hh == nil, err, r.HexHash, r.Zero)}
	}
	if r.THash {
		if out, err := json.Marshal(hh); err != nil || string(out) != string(js) {
			return s, &fail{true, "hexhash:canon", fmt.Sprintf("HexHash read from %s is written as %s", js, out)}
		}
		if got := jsonrpc.HexBytes(s).Bytes(); !bytes.Equal(got, want) {
			return s, &fail{true, "jsonrpc:hexbytes", fmt.Sprintf("jsonrpc.HexBytes(%q).Bytes() = %x", s, got)}
		}
	}
	var b common.HexBool
	if err := json.Unmarshal(js, &b); (err == nil) != r.HexBool || (err == nil && b.Value != r.BoolVal) {
		return s, &fail{r.HexBool, "hexbool", fmt.Sprintf("HexBool.UnmarshalJSON(%q) = %v, %v; spec ok=%v", s, b.Value, err, r.HexBool)}
	}
	if r.HexBool && b.String() != s {
		return s, &fail{true, "hexbool:canon", fmt.Sprintf("HexBool read from %q prints %q", s, b.String())}
	}
	if r.TInt {
		digits := s[2:]
		wantI, _ := new(big.Int).SetString(digits, 16)
		if v, err := jsonrpc.HexInt(s).BigInt(); err != nil || v.Cmp(wantI) != 0 {
			return s, &fail{true, "jsonrpc:hexint", fmt.Sprintf("jsonrpc.HexInt(%q).BigInt() = %v, %v", s, v, err)}
		}
		if wantI.IsInt64() {
			if out := string(jsonrpc.HexIntFromInt64(wantI.Int64())); out != s {
				return s, &fail{true, "jsonrpc:hexint:format", fmt.Sprintf("HexIntFromInt64(%s) = %q, canonical text %q", wantI, out, s)}
			}
		}
	}
	for _, c := range []struct {
		rule string
		got  bool
		want bool
	}{
		{"t_hash", validator.Validate(&vHash{s}) == nil, r.THash},
		{"t_rhash", validator.Validate(&vRHash{s}) == nil, r.TRHash},
		{"t_bool", validator.Validate(&vBool{s}) == nil, r.TBool},
		{"t_int", tintOK(s), r.TInt},
	} {
		if c.got != c.want {
			return s, &fail{true, "validator:" + c.rule, fmt.Sprintf("validator rule %s(%q) = %v, spec says %v", c.rule, s, c.got, c.want)}
		}
	}
	return s, nil
}

func runHexBytes(r *hjRec, variant int, rnd *rand.Rand) (string, *fail) {
	var bs []byte
	if !r.Nil {
		bs = make([]byte, r.N)
		if !r.Zero {
			rnd.Read(bs)
			bs[rnd.Intn(len(bs))] |= 1 << uint(variant%8)
		}
	}
	in := fmt.Sprintf("%x (nil=%v)", bs, r.Nil)
	text := "null"
	if !r.Nil {
		text = `"0x` + hex.EncodeToString(bs) + `"`
	}
	out, err := json.Marshal(common.HexBytes(bs))
	if err != nil || string(out) != text {
		return in, &fail{true, "hexbytes:marshal", fmt.Sprintf("HexBytes(%s) is written as %s, spec says %s", in, out, text)}
	}
	var back common.HexBytes = []byte{1}
	if err := json.Unmarshal(out, &back); err != nil || !bytes.Equal(back, bs) || (back == nil) != r.Nil {
		return in, &fail{true, "hexbytes:roundtrip", fmt.Sprintf("HexBytes(%s) -> %s -> %x (nil=%v, %v)", in, out, []byte(back), back == nil, err)}
	}
	if !r.Nil && (common.HexBytes(bs).String() != text[1:len(text)-1] || !bytes.Equal(common.HexBytes(bs).Bytes(), bs)) {
		return in, &fail{true, "hexbytes:string", fmt.Sprintf("HexBytes(%s).String() = %q", in, common.HexBytes(bs).String())}
	}
	rawText := "null"
	if !r.Nil {
		rawText = `"` + hex.EncodeToString(bs) + `"`
		if common.RawHexBytes(bs).String() != hex.EncodeToString(bs) || !bytes.Equal(common.RawHexBytes(bs).Bytes(), bs) {
			return in, &fail{true, "rawhex:string", fmt.Sprintf("RawHexBytes(%s).String() = %q", in, common.RawHexBytes(bs).String())}
		}
	}
	out, err = json.Marshal(common.RawHexBytes(bs))
	var rback common.RawHexBytes = []byte{1}
	if err == nil {
		err = json.Unmarshal(out, &rback)
	}
	if err != nil || string(out) != rawText || !bytes.Equal(rback, bs) || (rback == nil) != r.Nil {
		return in, &fail{true, "rawhex:roundtrip", fmt.Sprintf("RawHexBytes(%s) -> %s -> %x (%v)", in, out, []byte(rback), err)}
	}
	// HexHash: nil and the zero hash are one value
	hashText := `"0x` + hex.EncodeToString(bs) + `"`
	if r.HashText == "zero" {
		hashText = `"0x` + strings.Repeat("00", 32) + `"`
	}
	out, err = json.Marshal(common.HexHash(bs))
	if err != nil || string(out) != hashText {
		return in, &fail{true, "hexhash:marshal", fmt.Sprintf("HexHash(%s) is written as %s, spec says %s", in, out, hashText)}
	}
	if `"`+common.HexHash(bs).String()+`"` != hashText {
		return in, &fail{true, "hexhash:string", fmt.Sprintf("HexHash(%s).String() = %q, JSON form %s", in, common.HexHash(bs).String(), hashText)}
	}
	var hback common.HexHash = []byte{1}
	err = json.Unmarshal(out, &hback)
	switch r.HashBack {
	case "nil":
		if err != nil || hback != nil {
			return in, &fail{true, "hexhash:roundtrip", fmt.Sprintf("HexHash(%s) -> %s -> %x, %v; spec says nil", in, out, []byte(hback), err)}
		}
	case "same":
		if err != nil || !bytes.Equal(hback, bs) {
			return in, &fail{true, "hexhash:roundtrip", fmt.Sprintf("HexHash(%s) -> %s -> %x, %v", in, out, []byte(hback), err)}
		}
	case "reject":
		if err == nil {
			return in, &fail{false, "hexhash:length", fmt.Sprintf("HexHash text %s of %d bytes accepted", out, r.N)}
		}
	}
	return in, nil
}

func runHexNull(r *hjRec) (string, *fail) {
	js := []byte("null")
	var hb common.HexBytes = []byte{1}
	var rh common.RawHexBytes = []byte{1}
	var hh common.HexHash = []byte{1}
	var b common.HexBool
	var hi common.HexInt
	for _, c := range []struct {
		name string
		err  error
		nilv bool
		want bool
	}{
		{"HexBytes", json.Unmarshal(js, &hb), hb == nil, r.HexBytes},
		{"RawHexBytes", json.Unmarshal(js, &rh), rh == nil, r.RawHex},
		{"HexHash", json.Unmarshal(js, &hh), hh == nil, r.HexHash},
		{"HexBool", b.UnmarshalJSON(js), true, r.HexBool},
		{"HexInt", hi.UnmarshalJSON(js), true, r.HexInt},
	} {
		if (c.err == nil) != c.want || (c.want && !c.nilv) {
			return "null", &fail{true, "null:" + c.name, fmt.Sprintf("%s.UnmarshalJSON(null): err=%v nil=%v, spec accepts=%v", c.name, c.err, c.nilv, c.want)}
		}
	}
	if hb.String() != "null" || rh.String() != "null" || hb.Bytes() != nil || rh.Bytes() != nil || hh.Bytes() != nil {
		return "null", &fail{true, "null:accessors", "String()/Bytes() of nil byte values"}
	}
	return "null", nil
}

func TestReplayHexJson(t *testing.T) {
	if !tlaio.HaveInput() {
		t.Skip("driven by tools/check.py")
	}
	out := tlaio.OpenOut()
	rnd := tlaio.Rand()
	variants := 3
	if tlaio.Thorough() {
		variants = 6
	}
	err := tlaio.ReadInput(func(idx int, raw json.RawMessage) error {
		var steps []hjRec
		if err := json.Unmarshal(raw, &steps); err != nil {
			return err
		}
		if len(steps) != 1 {
			return fmt.Errorf("case %d: malformed behaviour", idx)
		}
		r := &steps[0]
		id := fmt.Sprintf("j%d", idx)
		sig := fmt.Sprintf("%s:%s:%d:%v:%v", r.Op, strings.Join(r.Text, ""), r.N, r.Zero, r.Nil)
		for v := 0; v < variants; v++ {
			var in string
			var f *fail
			if r.Op == "text" {
				in, f = runHexText(r, v, rnd)
			} else if r.Op == "null" {
				in, f = runHexNull(r)
			} else {
				in, f = runHexBytes(r, v, rnd)
			}
			if f == nil {
				continue
			}
			detail := map[string]interface{}{"behaviour": steps, "input": in, "variant": v}
			if f.violation {
				out.Violation(id, "hexjson:"+f.key, f.what, detail)
			} else {
				out.Divergence(id, f.key+": "+f.what, detail)
			}
			return nil
		}
		out.OK(id, len(r.Text) > 0 || r.N > 0, sig)
		return nil
	})
	if err != nil {
		t.Fatal(err)
	}
	out.Close(nil)
}
