package intenc

// Replays the cases of spec/codec/IntEnc.tla into the real integer <-> bytes functions of
// common/intconv and common.HexInt (C24).  The oracle is the TLA+ text: every case carries the digit
// classes of the input, the predicted verdict of the decoder, and the predicted number / encoder
// output as "pre zero bytes + input without its first drop bytes".  This driver only concretizes
// digit classes to bytes (W = 8 instance of the spec) and abstract numbers to math/big values.

import (
	"bytes"
	"encoding/json"
	"fmt"
	"math/big"
	"math/rand"
	"strings"
	"testing"

	"github.com/icon-project/goloop/common"
	"github.com/icon-project/goloop/common/codec"
	"github.com/icon-project/goloop/common/intconv"

	"verifharness/tlaio"
)

type rec struct {
	Op    string   `json:"op"`
	Kind  string   `json:"kind"`
	In    []string `json:"in"`
	Ok    bool     `json:"ok"`
	Neg   bool     `json:"neg"`
	Zero  bool     `json:"zero"`
	Pre   int      `json:"pre"`
	Drop  int      `json:"drop"`
	Canon bool     `json:"canon"`
	Back  []string `json:"back"`
}

var decKinds = []string{"big", "int", "uint", "size64", "size"}

// concretize one digit class (W = 8): z = 00, f = ff, p = 01..7f, n = 80..fe
func concByte(cls string, variant int, rnd *rand.Rand) byte {
	switch cls {
	case "z":
		return 0x00
	case "f":
		return 0xff
	case "p":
		switch variant {
		case 0:
			return 0x01
		case 1:
			return 0x7f
		}
		return byte(1 + rnd.Intn(0x7f))
	case "n":
		switch variant {
		case 0:
			return 0x80
		case 1:
			return 0xfe
		}
		return byte(0x80 + rnd.Intn(0x7f))
	}
	panic("bad class " + cls)
}

// meaning of a byte string as a number (the spec's Val / UVal at W = 8)
func valSigned(bs []byte) *big.Int {
	v := new(big.Int).SetBytes(bs)
	if len(bs) > 0 && bs[0]&0x80 != 0 {
		v.Sub(v, new(big.Int).Lsh(big.NewInt(1), uint(8*len(bs))))
	}
	return v
}
func valUnsigned(bs []byte) *big.Int { return new(big.Int).SetBytes(bs) }

func rebuild(in []byte, pre, drop int) []byte {
	out := []byte{}
	if pre == 1 {
		out = append(out, 0)
	}
	return append(out, in[drop:]...)
}

// real decoders: (value, accepted, panicked-variant-consistent)
func realDecode(kind string, in []byte) (v *big.Int, ok bool, note string) {
	switch kind {
	case "big":
		x := intconv.BigIntSetBytes(new(big.Int), in)
		var h common.HexInt
		h.SetBytes(in)
		if h.Int.Cmp(x) != 0 {
			note = fmt.Sprintf("HexInt.SetBytes gives %s, BigIntSetBytes %s", h.Int.String(), x.String())
		}
		return x, true, note
	case "int":
		x, ok := intconv.SafeBytesToInt64(in)
		y, panicked := tryInt64(in)
		if panicked == ok || (ok && x != y) {
			note = "BytesToInt64 disagrees with SafeBytesToInt64"
		}
		return big.NewInt(x), ok, note
	case "uint":
		x, ok := intconv.SafeBytesToUint64(in)
		y, panicked := tryUint64(in)
		if panicked == ok || (ok && x != y) {
			note = "BytesToUint64 disagrees with SafeBytesToUint64"
		}
		return new(big.Int).SetUint64(x), ok, note
	case "size64":
		x, ok := intconv.SafeBytesToSize64(in)
		return new(big.Int).SetUint64(x), ok, ""
	case "size":
		x, ok := intconv.SafeBytesToSize(in)
		return big.NewInt(int64(x)), ok, ""
	}
	panic("bad kind " + kind)
}

func tryInt64(in []byte) (v int64, panicked bool) {
	defer func() {
		if recover() != nil {
			panicked = true
		}
	}()
	return intconv.BytesToInt64(in), false
}
func tryUint64(in []byte) (v uint64, panicked bool) {
	defer func() {
		if recover() != nil {
			panicked = true
		}
	}()
	return intconv.BytesToUint64(in), false
}

func refFor(kind string, in []byte) *big.Int {
	if kind == "size64" || kind == "size" {
		return valUnsigned(in)
	}
	return valSigned(in)
}

func realEncode(kind string, x *big.Int) (out []byte, note string) {
	switch kind {
	case "big":
		out = intconv.BigIntToBytes(x)
		var h common.HexInt
		h.Set(x)
		if hb := h.Bytes(); !bytes.Equal(hb, out) {
			note = fmt.Sprintf("HexInt.Bytes %x differs from BigIntToBytes %x", hb, out)
		}
		if mb, err := h.MarshalBinary(); err != nil || !bytes.Equal(mb, out) {
			note = fmt.Sprintf("HexInt.MarshalBinary %x differs from BigIntToBytes %x", mb, out)
		}
		var h2 common.HexInt
		if err := h2.UnmarshalBinary(out); err != nil || h2.Int.Cmp(x) != 0 || func() bool { c := h.Clone(); return c.Int.Cmp(x) != 0 }() || h.Value().Cmp(x) != 0 {
			note = fmt.Sprintf("HexInt.UnmarshalBinary(%x) = %s", out, h2.Int.String())
		}
		var h3 common.HexInt
		if enc, err := codec.BC.MarshalToBytes(&h); err != nil {
			note = "codec form of HexInt: " + err.Error()
		} else if _, err := codec.BC.UnmarshalFromBytes(enc, &h3); err != nil || h3.Int.Cmp(x) != 0 {
			note = fmt.Sprintf("codec round trip of HexInt %s gives %s (%v)", x, h3.Int.String(), err)
		}
		return
	case "int":
		if !x.IsInt64() {
			return nil, "model enabled the int64 encoder for a number outside int64"
		}
		// the codec form of the HexInt64 wrapper is the codec form of the plain int64, and it reads back
		w := common.HexInt64{Value: x.Int64()}
		var w2 common.HexInt64
		e1, err1 := codec.BC.MarshalToBytes(&w)
		e2, err2 := codec.BC.MarshalToBytes(x.Int64())
		if err1 != nil || err2 != nil || !bytes.Equal(e1, e2) {
			note = fmt.Sprintf("codec form of HexInt64(%d) is %x, of int64 %x", x.Int64(), e1, e2)
		} else if _, err := codec.BC.UnmarshalFromBytes(e1, &w2); err != nil || w2.Value != w.Value {
			note = fmt.Sprintf("codec round trip of HexInt64(%d) gives %d (%v)", w.Value, w2.Value, err)
		}
		if x.Cmp(big.NewInt(int64(int16(x.Int64())))) == 0 {
			if hb := (common.HexInt16{Value: int16(x.Int64())}).Bytes(); !bytes.Equal(hb, intconv.Int64ToBytes(x.Int64())) {
				note = fmt.Sprintf("HexInt16.Bytes %x", hb)
			}
		}
		return intconv.Int64ToBytes(x.Int64()), note
	case "uint":
		if !x.IsUint64() {
			return nil, "model enabled the uint64 encoder for a number outside uint64"
		}
		return intconv.Uint64ToBytes(x.Uint64()), ""
	case "size":
		if !x.IsUint64() {
			return nil, "model enabled the size encoder for a number outside uint64"
		}
		return intconv.SizeToBytes(x.Uint64()), ""
	}
	panic("bad kind " + kind)
}

type fail struct {
	violation bool
	key, what string
}

func runCase(steps []rec, variant int, rnd *rand.Rand) (in []byte, f *fail) {
	d := steps[0]
	in = make([]byte, len(d.In))
	for i, c := range d.In {
		in[i] = concByte(c, variant, rnd)
	}
	arg := append([]byte{}, in...)
	x, ok, note := realDecode(d.Kind, arg)
	if !bytes.Equal(arg, in) {
		return in, &fail{true, "dec:" + d.Kind + ":mutates", fmt.Sprintf("decoder %s modified its input %x -> %x", d.Kind, in, arg)}
	}
	if note != "" {
		return in, &fail{true, "dec:" + d.Kind + ":variants", fmt.Sprintf("input %x: %s", in, note)}
	}
	ref := refFor(d.Kind, in)
	if ok != d.Ok {
		if d.Ok {
			what := fmt.Sprintf("decoder %s rejects %x, spec accepts (value %s)", d.Kind, in, ref)
			return in, &fail{d.Canon, "dec:" + d.Kind + ":rejects", what}
		}
		what := fmt.Sprintf("decoder %s accepts %x as %s, spec rejects (meaning of the bytes: %s)", d.Kind, in, x, ref)
		return in, &fail{x.Cmp(ref) != 0, "dec:" + d.Kind + ":accepts", what}
	}
	if !ok {
		return in, nil
	}
	want := valSigned(rebuild(in, d.Pre, d.Drop))
	if x.Cmp(want) != 0 {
		return in, &fail{true, "dec:" + d.Kind + ":value", fmt.Sprintf("decoder %s reads %x as %s, spec says %s", d.Kind, in, x, want)}
	}
	if (x.Sign() < 0) != d.Neg || (x.Sign() == 0) != d.Zero {
		return in, &fail{false, "model:sign", fmt.Sprintf("sign prediction wrong for %x", in)}
	}
	for _, e := range steps[1:] {
		out, note := realEncode(e.Kind, x)
		if out == nil {
			return in, &fail{false, "model:enabled", note}
		}
		if note != "" {
			return in, &fail{true, "enc:" + e.Kind + ":variants", fmt.Sprintf("number %s: %s", x, note)}
		}
		exp := rebuild(in, e.Pre, e.Drop)
		if !bytes.Equal(out, exp) {
			return in, &fail{true, "enc:" + e.Kind, fmt.Sprintf("encoder %s of %s gives %x, spec says %x (minimal form)", e.Kind, x, out, exp)}
		}
		for i, b := range e.Back {
			k := decKinds[i]
			y, ok2, _ := realDecode(k, append([]byte{}, out...))
			switch b {
			case "same":
				if !ok2 || y.Cmp(x) != 0 {
					return in, &fail{true, "roundtrip:" + e.Kind + ":" + k,
						fmt.Sprintf("%s encoded by %s is %x, decoder %s returns (%s, accepted=%v)", x, e.Kind, out, k, y, ok2)}
				}
			case "rej":
				if ok2 {
					r := refFor(k, out)
					return in, &fail{y.Cmp(r) != 0, "back:" + k + ":accepts",
						fmt.Sprintf("decoder %s accepts %x as %s, spec rejects (meaning %s)", k, out, y, r)}
				}
			case "diff":
				if !ok2 {
					return in, &fail{false, "back:" + k + ":rejects", fmt.Sprintf("decoder %s rejects %x, spec accepts it as another number", k, out)}
				}
			}
		}
	}
	return in, nil
}

func TestReplay(t *testing.T) {
	if !tlaio.HaveInput() {
		t.Skip("driven by tools/check.py")
	}
	out := tlaio.OpenOut()
	rnd := tlaio.Rand()
	variants := 3
	if tlaio.Thorough() {
		variants = 6
	}
	err := tlaio.ReadInput(func(idx int, raw json.RawMessage) error {
		var steps []rec
		if err := json.Unmarshal(raw, &steps); err != nil {
			return err
		}
		if len(steps) == 0 || steps[0].Op != "dec" {
			return fmt.Errorf("case %d: malformed behaviour", idx)
		}
		id := fmt.Sprintf("b%d", idx)
		sig := steps[0].Kind + ":" + strings.Join(steps[0].In, "")
		for v := 0; v < variants; v++ {
			in, f := runCase(steps, v, rnd)
			if f == nil {
				continue
			}
			detail := map[string]interface{}{"behaviour": steps, "input": fmt.Sprintf("%x", in), "variant": v}
			if f.violation {
				out.Violation(id, "intenc:"+f.key, f.what, detail)
			} else {
				out.Divergence(id, f.key+": "+f.what, detail)
			}
			return nil
		}
		out.OK(id, len(steps[0].In) > 0, sig)
		return nil
	})
	if err != nil {
		t.Fatal(err)
	}
	out.Close(nil)
}
