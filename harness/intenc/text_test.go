package intenc

// Replays the cases of spec/codec/HexText.tla into the real text functions (C24):
//   family T: arbitrary candidate strings -> intconv.ParseBigInt / HexInt.UnmarshalJSON
//   family N: numbers -> FormatBigInt/FormatInt/FormatUint, HexInt*/HexUint* String + JSON, parsed back,
//             and out-of-range texts must be rejected by the fixed-width parsers.
// The spec predicts verdict, sign, base and which characters are digits; this driver concretizes the
// character / hex-digit classes and builds the expected number from exactly those digits.

import (
	"encoding/json"
	"fmt"
	"math/big"
	"math/rand"
	"strings"
	"testing"

	"github.com/icon-project/goloop/common"
	"github.com/icon-project/goloop/common/intconv"
	"github.com/icon-project/goloop/server/jsonrpc"

	"verifharness/tlaio"
)

type trec struct {
	Op string `json:"op"`
	// parse
	Text  []string `json:"text"`
	Ok    bool     `json:"ok"`
	Neg   bool     `json:"neg"`
	Base  int      `json:"base"`
	Canon bool     `json:"canon"`
	TInt  bool     `json:"tint"`
	// present
	Kind  string `json:"kind"`
	Width int    `json:"width"`
	Fits  bool   `json:"fits"`
	Pfx   string `json:"pfx"`
	Zero  bool   `json:"zero"`
	// digs: positions (parse) or digit classes (present)
	Digs json.RawMessage `json:"digs"`
	Raw  *struct {
		Ok   bool  `json:"ok"`
		Neg  bool  `json:"neg"`
		Base int   `json:"base"`
		Digs []int `json:"digs"`
	} `json:"raw"`
}

func pick(rnd *rand.Rand, variant int, s string) byte {
	switch variant {
	case 0:
		return s[0]
	case 1:
		return s[len(s)-1]
	}
	return s[rnd.Intn(len(s))]
}

func concChar(cls string, variant int, rnd *rand.Rand) byte {
	switch cls {
	case "7":
		return pick(rnd, variant, "234567")
	case "9":
		return pick(rnd, variant, "89")
	case "a":
		return pick(rnd, variant, "acdef")
	case "A":
		return pick(rnd, variant, "ACDEF")
	case "g":
		return pick(rnd, variant, "ghpzGHPZ .#")
	}
	return cls[0] // literal classes: 0 1 b B x X o O _ - +
}

func concNibble(cls string, variant int, rnd *rand.Rand) byte {
	switch cls {
	case "0":
		return '0'
	case "lo":
		return pick(rnd, variant, "1234567")
	case "half":
		return '8'
	case "hi":
		return pick(rnd, variant, "9abcde")
	case "top":
		return 'f'
	}
	panic("bad digit class " + cls)
}

type tInt struct {
	V string `validate:"t_int"`
}

var validator = jsonrpc.NewValidator()

func tintOK(s string) bool { return validator.Validate(&tInt{V: s}) == nil }

func runParse(r *trec, variant int, rnd *rand.Rand) (string, *fail) {
	bs := make([]byte, len(r.Text))
	for i, c := range r.Text {
		bs[i] = concChar(c, variant, rnd)
	}
	s := string(bs)
	var got big.Int
	err := intconv.ParseBigInt(&got, s)
	want := new(big.Int)
	if r.Ok {
		var pos []int
		if e := json.Unmarshal(r.Digs, &pos); e != nil {
			return s, &fail{false, "model:digs", e.Error()}
		}
		ds := make([]byte, len(pos))
		for i, p := range pos {
			ds[i] = bs[p-1]
		}
		if _, ok := want.SetString(string(ds), r.Base); !ok {
			return s, &fail{false, "model:digits", fmt.Sprintf("text %q: spec digits %q are not base %d", s, ds, r.Base)}
		}
		if r.Neg {
			want.Neg(want)
		}
	}
	if (err == nil) != r.Ok {
		if r.Ok {
			return s, &fail{r.Canon, "parse:rejects", fmt.Sprintf("ParseBigInt(%q) fails (%v), spec accepts as %s", s, err, want)}
		}
		return s, &fail{false, "parse:accepts", fmt.Sprintf("ParseBigInt(%q) = %s, spec rejects", s, got.String())}
	}
	if r.Ok && got.Cmp(want) != 0 {
		return s, &fail{r.Canon, "parse:value", fmt.Sprintf("ParseBigInt(%q) = %s, spec says %s (base %d)", s, got.String(), want, r.Base)}
	}
	if r.Canon {
		// canonical text: formatting the number gives the text back, and the JSON form of HexInt reads it
		if f := intconv.FormatBigInt(&got); f != s {
			// the stated property only needs the text to parse back (checked in the number family)
			return s, &fail{false, "format:canon", fmt.Sprintf("FormatBigInt(%s) = %q, canonical text is %q", got.String(), f, s)}
		}
		var h common.HexInt
		if e := h.UnmarshalJSON([]byte(`"` + s + `"`)); e != nil || h.Int.Cmp(want) != 0 {
			return s, &fail{true, "hexint:json", fmt.Sprintf("HexInt.UnmarshalJSON(%q) = %s, %v; want %s", s, h.Int.String(), e, want)}
		}
	}
	if ok := tintOK(s); ok != r.TInt {
		return s, &fail{false, "tint", fmt.Sprintf("validator t_int(%q) = %v, spec says %v", s, ok, r.TInt)}
	}
	if r.Raw != nil { // the same characters as a bare JSON value
		var h common.HexInt
		err := h.UnmarshalJSON([]byte(s))
		wantRaw := new(big.Int)
		if r.Raw.Ok {
			ds := make([]byte, len(r.Raw.Digs))
			for i, p := range r.Raw.Digs {
				ds[i] = bs[p-1]
			}
			wantRaw.SetString(string(ds), r.Raw.Base)
			if r.Raw.Neg {
				wantRaw.Neg(wantRaw)
			}
		}
		if (err == nil) != r.Raw.Ok || (err == nil && h.Int.Cmp(wantRaw) != 0) {
			return s, &fail{r.Canon, "hexint:raw", fmt.Sprintf("HexInt.UnmarshalJSON(%s) (bare) = %s, %v; spec ok=%v value %s", s, h.Int.String(), err, r.Raw.Ok, wantRaw)}
		}
	}
	return s, nil
}

func bitsOf(width int) int { return width * 4 }

// fixed-width wrappers of common/hexint.go: (String(), JSON round trip) for a value that fits
func hexWrap(kind string, width int, x *big.Int) (str string, back *big.Int, err error) {
	var js []byte
	switch kind + fmt.Sprint(width) {
	case "i4":
		v := common.HexInt16{Value: int16(x.Int64())}
		var w common.HexInt16
		str = v.String()
		if js, err = json.Marshal(v); err == nil {
			err = json.Unmarshal(js, &w)
		}
		back = big.NewInt(int64(w.Value))
	case "i8":
		v := common.HexInt32{Value: int32(x.Int64())}
		var w common.HexInt32
		str = v.String()
		if js, err = json.Marshal(v); err == nil {
			err = json.Unmarshal(js, &w)
		}
		back = big.NewInt(int64(w.Value))
	case "i16":
		v := common.HexInt64{Value: x.Int64()}
		var w common.HexInt64
		str = v.String()
		if js, err = json.Marshal(v); err == nil {
			err = json.Unmarshal(js, &w)
		}
		back = big.NewInt(w.Value)
	case "u4":
		v := common.HexUint16{Value: uint16(x.Uint64())}
		var w common.HexUint16
		str = v.String()
		if js, err = json.Marshal(v); err == nil {
			err = json.Unmarshal(js, &w)
		}
		back = new(big.Int).SetUint64(uint64(w.Value))
	case "u8":
		v := common.HexUint32{Value: uint32(x.Uint64())}
		var w common.HexUint32
		str = v.String()
		if js, err = json.Marshal(v); err == nil {
			err = json.Unmarshal(js, &w)
		}
		back = new(big.Int).SetUint64(uint64(w.Value))
	case "u16":
		v := common.HexUint64{Value: x.Uint64()}
		var w common.HexUint64
		str = v.String()
		if js, err = json.Marshal(v); err == nil {
			err = json.Unmarshal(js, &w)
		}
		back = new(big.Int).SetUint64(w.Value)
	default:
		panic("bad kind")
	}
	return
}

// the fixed-width wrappers reading a text: accepted value or error
func hexReadRaw(kind string, width int, text string) (*big.Int, error) {
	return hexReadJS(kind, width, []byte(text))
}

func hexRead(kind string, width int, text string) (*big.Int, error) {
	return hexReadJS(kind, width, []byte(`"`+text+`"`))
}

func hexReadJS(kind string, width int, js []byte) (*big.Int, error) {
	switch kind + fmt.Sprint(width) {
	case "i4":
		var w common.HexInt16
		err := w.UnmarshalJSON(js)
		return big.NewInt(int64(w.Value)), err
	case "i8":
		var w common.HexInt32
		err := w.UnmarshalJSON(js)
		return big.NewInt(int64(w.Value)), err
	case "i16":
		var w common.HexInt64
		err := w.UnmarshalJSON(js)
		return big.NewInt(w.Value), err
	case "u4":
		var w common.HexUint16
		err := w.UnmarshalJSON(js)
		return new(big.Int).SetUint64(uint64(w.Value)), err
	case "u8":
		var w common.HexUint32
		err := w.UnmarshalJSON(js)
		return new(big.Int).SetUint64(uint64(w.Value)), err
	case "u16":
		var w common.HexUint64
		err := w.UnmarshalJSON(js)
		return new(big.Int).SetUint64(w.Value), err
	}
	panic("bad kind")
}

func runPresent(r *trec, variant int, rnd *rand.Rand) (string, *fail) {
	var cls []string
	if e := json.Unmarshal(r.Digs, &cls); e != nil {
		return "", &fail{false, "model:digs", e.Error()}
	}
	mag := make([]byte, len(cls))
	for i, c := range cls {
		mag[i] = concNibble(c, variant, rnd)
	}
	x := new(big.Int)
	if len(mag) > 0 {
		x.SetString(string(mag), 16)
	}
	if r.Neg {
		x.Neg(x)
	}
	text := r.Pfx + string(mag)
	if r.Zero {
		text = r.Pfx + "0"
	}
	key := fmt.Sprintf("%s%d", r.Kind, r.Width)
	if r.Kind == "big" {
		s := intconv.FormatBigInt(x)
		var y big.Int
		if err := intconv.ParseBigInt(&y, s); err != nil || y.Cmp(x) != 0 {
			return text, &fail{true, "roundtrip:big", fmt.Sprintf("FormatBigInt(%s) = %q parses back as %s (%v)", x, s, y.String(), err)}
		}
		h := common.HexInt{}
		h.Set(x)
		var h2 common.HexInt
		js, err := json.Marshal(&h)
		if err == nil {
			err = json.Unmarshal(js, &h2)
		}
		if err != nil || h2.Int.Cmp(x) != 0 || h.String() != s {
			return text, &fail{true, "roundtrip:hexint", fmt.Sprintf("HexInt(%s) -> %s -> %s (%v), String %q", x, js, h2.Int.String(), err, h.String())}
		}
		if s != text {
			return text, &fail{false, "format:big", fmt.Sprintf("FormatBigInt(%s) = %q, spec says %q", x, s, text)}
		}
		if ok := tintOK(s); ok != r.TInt {
			return text, &fail{false, "tint", fmt.Sprintf("validator t_int(%q) = %v, spec says %v", s, ok, r.TInt)}
		}
		return text, nil
	}
	bits := bitsOf(r.Width)
	if !r.Fits {
		// the canonical text of a number outside the type must not be read as some other number
		if r.Kind == "i" {
			if v, err := intconv.ParseInt(text, bits); err == nil {
				return text, &fail{true, "range:" + key, fmt.Sprintf("ParseInt(%q, %d) = %d, the number %s does not fit", text, bits, v, x)}
			}
		} else {
			if v, err := intconv.ParseUint(text, bits); err == nil {
				return text, &fail{true, "range:" + key, fmt.Sprintf("ParseUint(%q, %d) = %d, the number %s does not fit", text, bits, v, x)}
			}
		}
		if v, err := hexRead(r.Kind, r.Width, text); err == nil {
			return text, &fail{true, "range:hex" + key, fmt.Sprintf("Hex%s%d.UnmarshalJSON(%q) = %s, the number %s does not fit", r.Kind, bits, text, v, x)}
		}
		return text, nil
	}
	var s string
	back := new(big.Int)
	var err error
	if r.Kind == "i" {
		if !x.IsInt64() {
			return text, &fail{false, "model:fits", fmt.Sprintf("%s said to fit int%d", x, bits)}
		}
		s = intconv.FormatInt(x.Int64())
		var v int64
		v, err = intconv.ParseInt(s, bits)
		back.SetInt64(v)
	} else {
		if !x.IsUint64() {
			return text, &fail{false, "model:fits", fmt.Sprintf("%s said to fit uint%d", x, bits)}
		}
		s = intconv.FormatUint(x.Uint64())
		var v uint64
		v, err = intconv.ParseUint(s, bits)
		back.SetUint64(v)
	}
	if err != nil || back.Cmp(x) != 0 {
		return text, &fail{true, "roundtrip:" + key, fmt.Sprintf("%s formats as %q which parses (%d bits) as %s (%v)", x, s, bits, back, err)}
	}
	if rawv, rerr := hexReadRaw(r.Kind, r.Width, text); rerr != nil || rawv.Cmp(x) != 0 {
		return text, &fail{true, "roundtrip:raw" + key, fmt.Sprintf("Hex wrapper %s reading the bare JSON value %s gives %s (%v)", key, text, rawv, rerr)}
	}
	if r.Kind == "i" && r.Width == 16 {
		j := jsonrpc.HexInt(text)
		if v, err := j.Int64(); err != nil || v != x.Int64() || j.Value() != x.Int64() {
			return text, &fail{true, "jsonrpc:int64", fmt.Sprintf("jsonrpc.HexInt(%q).Int64() = %d, %v", text, v, err)}
		}
	}
	hs, hback, herr := hexWrap(r.Kind, r.Width, x)
	if herr != nil || hback.Cmp(x) != 0 {
		return text, &fail{true, "roundtrip:hex" + key, fmt.Sprintf("Hex wrapper %s of %s: String %q, JSON round trip gives %s (%v)", key, x, hs, hback, herr)}
	}
	if s != text || hs != text {
		return text, &fail{false, "format:" + key, fmt.Sprintf("%s formats as %q / %q, spec says %q", x, s, hs, text)}
	}
	return text, nil
}

func TestReplayText(t *testing.T) {
	if !tlaio.HaveInput() {
		t.Skip("driven by tools/check.py")
	}
	out := tlaio.OpenOut()
	rnd := tlaio.Rand()
	variants := 3
	if tlaio.Thorough() {
		variants = 5
	}
	err := tlaio.ReadInput(func(idx int, raw json.RawMessage) error {
		var steps []trec
		if err := json.Unmarshal(raw, &steps); err != nil {
			return err
		}
		if len(steps) != 1 {
			return fmt.Errorf("case %d: malformed behaviour", idx)
		}
		r := &steps[0]
		id := fmt.Sprintf("t%d", idx)
		var sig string
		nontrivial := true
		if r.Op == "parse" {
			sig = "T:" + strings.Join(r.Text, "")
			nontrivial = len(r.Text) > 0
		} else {
			sig = fmt.Sprintf("N:%s%d:%v:%s", r.Kind, r.Width, r.Neg, string(r.Digs))
		}
		for v := 0; v < variants; v++ {
			var text string
			var f *fail
			if r.Op == "parse" {
				text, f = runParse(r, v, rnd)
			} else {
				text, f = runPresent(r, v, rnd)
			}
			if f == nil {
				continue
			}
			detail := map[string]interface{}{"behaviour": steps, "text": text, "variant": v}
			if f.violation {
				out.Violation(id, "hextext:"+f.key, f.what, detail)
			} else {
				out.Divergence(id, f.key+": "+f.what, detail)
			}
			return nil
		}
		out.OK(id, nontrivial, sig)
		return nil
	})
	if err != nil {
		t.Fatal(err)
	}
	out.Close(nil)
}
