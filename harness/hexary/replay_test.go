package hexary

// Replays behaviours of spec/trie/Hexary.tla (arity 16) into the real hexary accumulator and
// merkle tree (icon/merkle/hexary) for C28.
//
// Every step carries the spec's prediction: the length, the merkle header as a symbolic hash
// term, the item sequence (run-length encoded versions) and, for check steps, the verdict of
// MerkleTree.Add for the genuine proof and its tampered variants.  Terms are
//   ["Z"]            no hash (empty accumulator)
//   ["F", lo, l, v]  hash of the full subtree of level l over items lo.. (all of version v); l = 0: the item
//   ["N", [t...]]    hash of the node with exactly these children
// and are evaluated here with the real hash function; that evaluation is the only model
// knowledge on this side.

import (
	"bytes"
	"encoding/json"
	"fmt"
	"os"
	"strings"
	"testing"

	"github.com/icon-project/goloop/common/crypto"
	"github.com/icon-project/goloop/common/db"
	"github.com/icon-project/goloop/common/errors"
	"github.com/icon-project/goloop/icon/merkle/hexary"

	"verifharness/tlaio"
)

type term struct {
	Kind     string
	Lo, L, V int
	C        []term
}

func (t *term) UnmarshalJSON(b []byte) error {
	var raw []json.RawMessage
	if err := json.Unmarshal(b, &raw); err != nil {
		return err
	}
	if err := json.Unmarshal(raw[0], &t.Kind); err != nil {
		return err
	}
	switch t.Kind {
	case "Z":
	case "F":
		for i, p := range []*int{&t.Lo, &t.L, &t.V} {
			if err := json.Unmarshal(raw[i+1], p); err != nil {
				return err
			}
		}
	case "N":
		return json.Unmarshal(raw[1], &t.C)
	default:
		return fmt.Errorf("term kind %q", t.Kind)
	}
	return nil
}

type header struct {
	Root   term `json:"root"`
	Leaves int  `json:"leaves"`
}

type proofCase struct {
	OK       bool     `json:"ok"`
	N        int      `json:"n"`
	Min      int      `json:"min"`
	Full     string   `json:"full"`
	BadHash  string   `json:"badhash"`
	OtherKey string   `json:"otherkey"`
	Alter    []string `json:"alter"`
	Drop     []string `json:"drop"`
	Extra    string   `json:"extra"`
	Partial  string   `json:"partial"`
	KnownFull  string   `json:"knownfull"`
	KnownAlter []string `json:"knownalter"`
	Partial0 string   `json:"partial0"`
}

type step struct {
	Op   string     `json:"op"`
	V    int        `json:"v"`
	N    int        `json:"n"`
	L    int        `json:"l"`
	Res  string     `json:"res"`
	Len  int        `json:"len"`
	Hdr  header     `json:"hdr"`
	Runs [][2]int   `json:"runs"`
	PLen int        `json:"plen"`
	PHdr header     `json:"phdr"`
	PC   *proofCase `json:"pc"`
}

type world struct {
	salt string
	memo map[[3]int][]byte
}

func (w *world) item(pos, v int) []byte {
	return crypto.SHA3Sum256([]byte(fmt.Sprintf("blk-%s-%d-%d", w.salt, pos, v)))
}

func (w *world) full(lo, l, v int) []byte {
	if l == 0 {
		return w.item(lo, v)
	}
	k := [3]int{lo, l, v}
	if h, ok := w.memo[k]; ok {
		return h
	}
	sz := 1
	for i := 1; i < l; i++ {
		sz *= 16
	}
	var buf []byte
	for j := 0; j < 16; j++ {
		buf = append(buf, w.full(lo+j*sz, l-1, v)...)
	}
	h := crypto.SHA3Sum256(buf)
	w.memo[k] = h
	return h
}

func (w *world) eval(t *term) []byte {
	switch t.Kind {
	case "Z":
		return nil
	case "F":
		return w.full(t.Lo, t.L, t.V)
	}
	var buf []byte
	for i := range t.C {
		buf = append(buf, w.eval(&t.C[i])...)
	}
	return crypto.SHA3Sum256(buf)
}

type finding struct {
	violation bool
	key, what string
}

// kept: a header object obtained earlier together with a copy of its bytes taken at that time
type kept struct {
	hd     *hexary.MerkleHeader
	root   []byte
	leaves int64
	at     string
}

type runner struct {
	keep   []kept
	w      *world
	tb, ab db.Bucket
	acc    hexary.Accumulator
	f      []finding
}

func (r *runner) viol(key, format string, a ...interface{}) {
	r.f = append(r.f, finding{true, key, fmt.Sprintf(format, a...)})
}
func (r *runner) diverge(format string, a ...interface{}) {
	r.f = append(r.f, finding{false, "", fmt.Sprintf(format, a...)})
}

// fresh: header of a new accumulator fed with exactly the item sequence (real code, no history)
func (r *runner) fresh(runs [][2]int) *hexary.MerkleHeader {
	d := db.NewMapDB()
	tb, _ := d.GetBucket("t")
	ab, _ := d.GetBucket("a")
	acc, _ := hexary.NewAccumulator(tb, ab, "")
	pos := 0
	for _, run := range runs {
		for j := 0; j < run[1]; j++ {
			acc.Add(r.w.item(pos, run[0]))
			pos++
		}
	}
	return acc.GetMerkleHeader()
}

// keepHeader retains a returned header: a header value once returned must never change (it is a function of the
// sequence accumulated when it was taken), whatever is added later
func (r *runner) keepHeader(at string, hd *hexary.MerkleHeader) {
	if hd != nil {
		r.keep = append(r.keep, kept{hd, append([]byte(nil), hd.RootHash...), hd.Leaves, at})
	}
}

func (r *runner) checkKept(at string) {
	for _, k := range r.keep {
		if !bytes.Equal(k.hd.RootHash, k.root) || k.hd.Leaves != k.leaves {
			r.viol("hexary:header:mutated-later", "%s: the header {%x,%d} returned at %s now reads {%x,%d}", at, k.root, k.leaves, k.at,
				k.hd.RootHash, k.hd.Leaves)
			return
		}
	}
}

func (r *runner) checkHeader(at string, hd *hexary.MerkleHeader, s *step) bool {
	r.keepHeader(at, hd)
	want := r.w.eval(&s.Hdr.Root)
	if hd.Leaves == int64(s.Hdr.Leaves) && bytes.Equal(hd.RootHash, want) {
		return true
	}
	// model and code disagree: is the real header at least a function of the sequence?
	fr := r.fresh(s.Runs)
	if fr.Leaves != hd.Leaves || !bytes.Equal(fr.RootHash, hd.RootHash) {
		r.viol("hexary:header:history-dependent", "%s: header {%x,%d} after this history, but accumulating the same %d hashes "+
			"from scratch gives {%x,%d}", at, hd.RootHash, hd.Leaves, s.Len, fr.RootHash, fr.Leaves)
	} else {
		r.diverge("%s: header {%x,%d}, spec term evaluates to {%x,%d}", at, hd.RootHash, hd.Leaves, want, s.Hdr.Leaves)
	}
	return false
}

func guardedAdd(mt hexary.MerkleTree, key int64, h []byte, proof [][]byte) (err error, crashed string) {
	defer func() {
		if p := recover(); p != nil {
			crashed = fmt.Sprint(p)
		}
	}()
	err = mt.Add(key, h, proof)
	return
}

func (r *runner) verifier(hd *hexary.MerkleHeader) hexary.MerkleTree {
	vb, _ := db.NewMapDB().GetBucket("v")
	v, err := hexary.NewMerkleTree(vb, hd, 0)
	if err != nil {
		panic(err)
	}
	return v
}

func cp(p [][]byte) [][]byte {
	o := make([][]byte, len(p))
	for i := range p {
		o[i] = append([]byte(nil), p[i]...)
	}
	return o
}

func (r *runner) check(at string, s *step) {
	key := int64(s.L)
	hd, err := r.acc.Finalize()
	if err != nil {
		r.viol("hexary:finalize:error", "%s: %v", at, err)
		return
	}
	if !r.checkHeader(at+" Finalize", hd, s) {
		return
	}
	mt, err := hexary.NewMerkleTree(r.tb, hd, 0)
	if err != nil {
		r.viol("hexary:tree:error", "%s: %v", at, err)
		return
	}
	pc := s.PC
	proof, err := mt.Prove(key, 0)
	if err != nil {
		r.viol("hexary:prove:error", "%s: Prove(%d) on a tree of %d leaves failed: %v", at, key, s.Len, err)
		return
	}
	if len(proof) != pc.N {
		r.diverge("%s: Prove(%d) returned %d nodes, spec says %d", at, key, len(proof), pc.N)
	}
	pos, v := 0, 0
	for _, run := range s.Runs {
		if int(key) < pos+run[1] {
			v = run[0]
			break
		}
		pos += run[1]
	}
	h := r.w.item(int(key), v)
	judge := func(kind, pred string, err error, crashed string, kkey string) {
		if crashed != "" {
			r.viol(kkey, "%s: key %d of %d leaves, %s: MerkleTree.Add crashed (%s); spec says %s", at, key, s.Len, kind, crashed, pred)
			return
		}
		if (err == nil) != (pred == "ok") {
			if err == nil {
				r.viol(kkey+":accepted", "%s: key %d of %d leaves: MerkleTree.Add accepted %s; spec says %s", at, key, s.Len, kind, pred)
			} else {
				r.viol("hexary:add:rejected", "%s: key %d of %d leaves: MerkleTree.Add rejected %s (%v); spec says ok", at, key, s.Len, kind, err)
			}
			return
		}
		if err != nil && (pred == "verify") != errors.Is(err, hexary.ErrVerify) {
			r.diverge("%s: key %d, %s: error %v, spec says %s", at, key, kind, err, pred)
		}
	}
	e, c := guardedAdd(r.verifier(hd), key, h, proof)
	judge("the genuine proof", pc.Full, e, c, "hexary:add:genuine")
	bad := append([]byte(nil), h...)
	bad[5] ^= 0x40
	e, c = guardedAdd(r.verifier(hd), key, bad, proof)
	judge("an altered hash", pc.BadHash, e, c, "hexary:add:altered-hash")
	if s.Len > 1 {
		ok := key + 1
		if ok >= int64(s.Len) {
			ok = key - 1
		}
		e, c = guardedAdd(r.verifier(hd), ok, h, proof)
		judge(fmt.Sprintf("the proof and hash for key %d", ok), pc.OtherKey, e, c, "hexary:add:other-key")
	}
	for j := range proof {
		if j < len(pc.Alter) {
			q := cp(proof)
			q[j][(j*13+3)%len(q[j])] ^= 0x01
			e, c = guardedAdd(r.verifier(hd), key, h, q)
			judge(fmt.Sprintf("a proof with element %d altered", j), pc.Alter[j], e, c, "hexary:add:altered-proof")
		}
		if j < len(pc.Drop) {
			q := append(cp(proof[:j]), cp(proof[j+1:])...)
			e, c = guardedAdd(r.verifier(hd), key, h, q)
			judge(fmt.Sprintf("a proof with element %d dropped", j), pc.Drop[j], e, c, "hexary:add:dropped-element")
		}
	}
	q := append([][]byte{make([]byte, 32)}, cp(proof)...)
	e, c = guardedAdd(r.verifier(hd), key, h, q)
	judge("a proof with one more element than the tree has levels", pc.Extra, e, c, "hexary:add:proof-longer-than-level")
	if key > 0 {
		part, err := mt.Prove(key, -1)
		if err != nil {
			r.viol("hexary:prove:error", "%s: Prove(%d,-1): %v", at, key, err)
			return
		}
		if len(part) != pc.Min {
			r.diverge("%s: Prove(%d,-1) returned %d nodes, spec says %d", at, key, len(part), pc.Min)
		}
		prev, err := mt.Prove(key-1, 0)
		if err != nil {
			r.viol("hexary:prove:error", "%s: Prove(%d): %v", at, key-1, err)
			return
		}
		pv, pvv := 0, 0
		for _, run := range s.Runs {
			if int(key-1) < pv+run[1] {
				pvv = run[0]
				break
			}
			pv += run[1]
		}
		ver := r.verifier(hd)
		if e, c := guardedAdd(ver, key-1, r.w.item(int(key-1), pvv), prev); e != nil || c != "" {
			r.viol("hexary:add:rejected", "%s: genuine proof of key %d rejected: %v %s", at, key-1, e, c)
			return
		}
		e, c = guardedAdd(ver, key, h, part)
		judge("the partial proof after key-1 was added", pc.Partial, e, c, "hexary:add:partial")
		// non-first addition on ONE tree object that already knows (and caches) the shared upper nodes: the full proof
		// with an element altered -- also an element the tree already knows -- must be rejected; the genuine one accepted
		ver2 := r.verifier(hd)
		if e, c := guardedAdd(ver2, key-1, r.w.item(int(key-1), pvv), prev); e != nil || c != "" {
			r.viol("hexary:add:rejected", "%s: genuine proof of key %d rejected: %v %s", at, key-1, e, c)
			return
		}
		for j := range proof {
			if j < len(pc.KnownAlter) {
				q := cp(proof)
				q[j][(j*11+5)%len(q[j])] ^= 0x04
				e, c = guardedAdd(ver2, key, h, q)
				judge(fmt.Sprintf("a full proof with element %d altered, given to a tree that already added key %d", j, key-1),
					pc.KnownAlter[j], e, c, "hexary:add:altered-known-element")
			}
		}
		e, c = guardedAdd(ver2, key, h, proof)
		judge("the full proof on a tree that already added key-1", pc.KnownFull, e, c, "hexary:add:known-full")
		e, c = guardedAdd(r.verifier(hd), key, h, part)
		judge("the partial proof on an empty verifier", pc.Partial0, e, c, "hexary:add:partial-unknown-prefix")
	}
}

// syncAll: one verifier receives every hash in order with the partial proof Prove(key,-1); the spec
// predicts the first key that is not accepted (s.L; -1 = all accepted)
func (r *runner) syncAll(at string, s *step) {
	hd, err := r.acc.Finalize()
	if err != nil {
		r.viol("hexary:finalize:error", "%s: %v", at, err)
		return
	}
	if !r.checkHeader(at+" Finalize", hd, s) {
		return
	}
	mt, err := hexary.NewMerkleTree(r.tb, hd, 0)
	if err != nil {
		r.viol("hexary:tree:error", "%s: %v", at, err)
		return
	}
	ver := r.verifier(hd)
	key := 0
	first := -1
	for _, run := range s.Runs {
		for j := 0; j < run[1] && first < 0; j++ {
			part, err := mt.Prove(int64(key), -1)
			if err != nil {
				r.viol("hexary:prove:error", "%s: Prove(%d,-1): %v", at, key, err)
				return
			}
			if e, c := guardedAdd(ver, int64(key), r.w.item(key, run[0]), part); e != nil || c != "" {
				first = key
			}
			key++
		}
	}
	if first != s.L {
		if first >= 0 {
			r.viol("hexary:sync:rejected", "%s: sequential sync of %d hashes with partial proofs: key %d was not accepted, spec says %d",
				at, s.Len, first, s.L)
		} else {
			r.diverge("%s: sequential sync accepted every key, spec says key %d is rejected", at, s.L)
		}
	}
}

func (r *runner) run(steps []step) int {
	d := db.NewMapDB()
	r.tb, _ = d.GetBucket("tree")
	r.ab, _ = d.GetBucket("acc")
	var err error
	r.acc, err = hexary.NewAccumulator(r.tb, r.ab, "")
	if err != nil {
		panic(err)
	}
	pos := 0
	for i := range steps {
		s := &steps[i]
		at := fmt.Sprintf("step %d (%s)", i+1, s.Op)
		switch s.Op {
		case "add":
			for j := 0; j < s.N; j++ {
				if err := r.acc.Add(r.w.item(pos, s.V)); err != nil {
					r.viol("hexary:add:error", "%s: %v", at, err)
					return i
				}
				pos++
			}
		case "setlen":
			err := r.acc.SetLen(int64(s.L))
			if (err == nil) != (s.Res == "ok") {
				r.viol("hexary:setlen:result", "%s: SetLen(%d) on length %d returned %v, spec says %s", at, s.L, pos, err, s.Res)
				return i
			}
		case "finalize":
			hd, err := r.acc.Finalize()
			if err != nil {
				r.viol("hexary:finalize:error", "%s: %v", at, err)
				return i
			}
			r.checkHeader(at, hd, s)
		case "reopen":
			r.acc, err = hexary.NewAccumulator(r.tb, r.ab, "")
			if err != nil {
				r.viol("hexary:reopen:error", "%s: %v", at, err)
				return i
			}
		case "check":
			r.check(at, s)
		case "sync":
			r.syncAll(at, s)
		}
		pos = s.Len
		r.checkKept(at)
		if r.acc.Len() != int64(s.Len) {
			r.viol("hexary:len", "%s: Len()=%d, spec says %d", at, r.acc.Len(), s.Len)
			return i
		}
		// GetMerkleHeader is read when the spec says so (action "header") and at the end -- not behind the spec's back after
		// every call: a header read at every length would hide anything that depends on which lengths were read
		if s.Op == "header" || i == len(steps)-1 {
			if !r.checkHeader(at, r.acc.GetMerkleHeader(), s) {
				return i
			}
		}
		// the persisted record: a second accumulator opened on the same buckets (SetLen(0) leaves the record behind)
		probe, err := hexary.NewAccumulator(r.tb, r.ab, "")
		if err != nil {
			r.viol("hexary:reopen:error", "%s: %v", at, err)
			return i
		}
		ph := probe.GetMerkleHeader()
		if probe.Len() != int64(s.PLen) || !bytes.Equal(ph.RootHash, r.w.eval(&s.PHdr.Root)) {
			r.diverge("%s: an accumulator opened on the persisted record has length %d header %x, spec says %d / %x", at, probe.Len(),
				ph.RootHash, s.PLen, r.w.eval(&s.PHdr.Root))
		}
	}
	return -1
}

func TestReplay(t *testing.T) {
	if !tlaio.HaveInput() {
		t.Skip("driven by tools/check.py")
	}
	out := tlaio.OpenOut()
	rnd := tlaio.Rand()
	maxLen := 0
	err := tlaio.ReadInput(func(idx int, raw json.RawMessage) error {
		if !tlaio.Mine(idx) {
			return nil
		}
		var steps []step
		if err := json.Unmarshal(raw, &steps); err != nil {
			return err
		}
		id := fmt.Sprintf("b%d", idx)
		r := &runner{w: &world{salt: fmt.Sprintf("%x", rnd.Intn(1<<16)), memo: map[[3]int][]byte{}}}
		if fx := os.Getenv("VERIF_FIX_SALT"); fx != "" { // replay files pin the concretization
			r.w.salt = fx
		}
		out.Begin(id, "hexary:crash")
		at := r.run(steps)
		var sb strings.Builder
		nontrivial := false
		for _, s := range steps {
			fmt.Fprintf(&sb, "%s%d.%d.%d;", s.Op[:2], s.V, s.N, s.L)
			if s.Op == "check" || (s.Op == "setlen" && s.Res == "ok") {
				nontrivial = true
			}
			if s.Len > maxLen {
				maxLen = s.Len
			}
		}
		detail := map[string]interface{}{"behaviour": json.RawMessage(raw), "salt": r.w.salt, "stopped_at_step": at + 1}
		seen := map[string]bool{}
		for _, x := range r.f {
			if x.violation && !seen[x.key] {
				seen[x.key] = true
				out.Violation(id, x.key, x.what, detail)
			}
		}
		if len(seen) == 0 {
			if len(r.f) > 0 {
				out.Divergence(id, r.f[0].what, detail)
			} else {
				out.OK(id, nontrivial, sb.String())
			}
		}
		return nil
	})
	if err != nil {
		t.Fatal(err)
	}
	out.Close(map[string]int{"max_len": maxLen})
}
