package parexec

// Environment of the parallel-execution drivers (C09, C10): a real service transition
// (service.NewInitTransition / NewTransition / Execute) over
//   - a chain wrapper whose ConcurrencyLevel() is chosen per block,
//   - a platform wrapper that can fail OnTransactionEnd of a chosen transaction,
//   - a harness transaction type whose Prepare issues the declared lock requests through the real
//     contract.Context.GetFuture and whose Execute runs a scripted program of balance reads / writes
//     through the real contract.Context.GetAccountState, every operation behind a scheduler gate,
//   - a wrapper of the real WorldVirtualState that gates / reports Commit,
//   - a transaction list wrapper whose iterator gates the dispatcher's loop top.
// Nothing here decides what is correct: predictions come from spec/exec/ParallelExec.tla.

import (
	"bytes"
	"encoding/json"
	"fmt"
	"math/big"
	"sync"
	"time"

	"github.com/icon-project/goloop/chain/base"
	"github.com/icon-project/goloop/common"
	"github.com/icon-project/goloop/common/crypto"
	"github.com/icon-project/goloop/common/db"
	"github.com/icon-project/goloop/common/errors"
	"github.com/icon-project/goloop/common/log"
	"github.com/icon-project/goloop/common/merkle"
	"github.com/icon-project/goloop/common/trie"
	"github.com/icon-project/goloop/module"
	"github.com/icon-project/goloop/service"
	"github.com/icon-project/goloop/service/contract"
	"github.com/icon-project/goloop/service/state"
	"github.com/icon-project/goloop/service/transaction"
	"github.com/icon-project/goloop/service/txresult"
	"github.com/icon-project/goloop/test"
)

// ---------------------------------------------------------------- scheduler (gates and notifications)

type sched struct {
	mu      sync.Mutex
	cond    *sync.Cond
	free    bool // every gate open (free-running mode)
	granted map[string]bool
	arrived map[string]bool
	notes   map[string]int // notification -> value
	order   []string       // notifications in the order they were posted
	delay   func(key string)
}

func newSched(free bool) *sched {
	s := &sched{free: free, granted: map[string]bool{}, arrived: map[string]bool{}, notes: map[string]int{}}
	s.cond = sync.NewCond(&s.mu)
	return s
}

// gate is called by the code under test: announce arrival, wait for the grant.
func (s *sched) gate(key string) {
	s.mu.Lock()
	s.arrived[key] = true
	s.cond.Broadcast()
	for !s.free && !s.granted[key] {
		s.cond.Wait()
	}
	d := s.delay
	s.mu.Unlock()
	if d != nil {
		d(key)
	}
}

func (s *sched) note(key string, val int) {
	s.mu.Lock()
	s.notes[key] = val
	s.order = append(s.order, key)
	s.cond.Broadcast()
	s.mu.Unlock()
}

func (s *sched) grant(key string) {
	s.mu.Lock()
	s.granted[key] = true
	s.cond.Broadcast()
	s.mu.Unlock()
}

func (s *sched) setFree() {
	s.mu.Lock()
	s.free = true
	s.cond.Broadcast()
	s.mu.Unlock()
}

// wait blocks until pred (evaluated under the lock) holds or the timeout expires.
func (s *sched) wait(d time.Duration, pred func() bool) bool {
	deadline := time.Now().Add(d)
	s.mu.Lock()
	defer s.mu.Unlock()
	for !pred() {
		left := time.Until(deadline)
		if left <= 0 {
			return false
		}
		t := time.AfterFunc(left, func() { s.mu.Lock(); s.cond.Broadcast(); s.mu.Unlock() })
		s.cond.Wait()
		t.Stop()
	}
	return true
}

func (s *sched) waitArrived(key string, d time.Duration) bool {
	return s.wait(d, func() bool { return s.arrived[key] })
}

func (s *sched) waitNote(key string, d time.Duration) (int, bool) {
	ok := s.wait(d, func() bool { _, h := s.notes[key]; return h })
	s.mu.Lock()
	defer s.mu.Unlock()
	return s.notes[key], ok
}

func (s *sched) hasNote(key string) bool {
	s.mu.Lock()
	defer s.mu.Unlock()
	_, h := s.notes[key]
	return h
}

func (s *sched) hasArrived(key string) bool {
	s.mu.Lock()
	defer s.mu.Unlock()
	return s.arrived[key]
}

// ---------------------------------------------------------------- one block run

type prog struct {
	World string            `json:"world"` // "N", "R" (world read lock + write locks), "W"
	Ens   bool              `json:"ens"`   // Prepare calls WorldVirtualState.Ensure()
	Twice bool              `json:"twice"` // every write lock is requested as a read lock first and then as a write lock
	Lock  map[string]string `json:"lock"`
	Ops   [][]string        `json:"ops"`
	Fate  string            `json:"fate"`
}

type readRec struct {
	T, Att, I int
	A         string
	Val       int
}

type blockRun struct {
	s        *sched
	progs    []prog // index 0 = transaction 1
	accounts map[string]module.Address
	init     map[string]int // values before the block (spec: init); non-zero ones are written by a set-up block
	pltFail  bool // inject non-retryable failures through Platform.OnTransactionEnd instead of Execute
	rerun    bool // use CriticalRerunError instead of ExecutionFailError for retryable failures

	mu       sync.Mutex
	attempts []int
	handlers []int // GetHandler calls per transaction
	failNow  map[int]bool // transaction index (0-based) whose OnTransactionEnd has to fail
	reads    []readRec
	events   []map[string]interface{} // free-running recorder (per-thread order is what matters)
	armed    bool
	tr       module.Transition
	cancel   func() bool
	didCancel bool // the canceler was called and returned true
	cancelAt int // sequential / free-running mode: call the canceler when this transaction starts executing (0: never)
}

// the block a harness transaction belongs to, by transaction id (goroutines of a failed block may outlive it)
var runsByTx sync.Map

func runOf(id []byte) *blockRun {
	if v, ok := runsByTx.Load(string(id)); ok {
		return v.(*blockRun)
	}
	return nil
}

func (r *blockRun) record(ev map[string]interface{}) {
	r.mu.Lock()
	r.events = append(r.events, ev)
	r.mu.Unlock()
}

// ---------------------------------------------------------------- harness transaction type

type peTx struct {
	Idx  int   `json:"idx"` // 1-based position in the block
	TS   int64 `json:"timestamp"`
	Salt int64 `json:"salt"`
	Type string `json:"type"`
	// set-up transaction of a block run: balances the accounts have before the block (abstract value 9 = the account exists)
	Setup map[string]int64 `json:"setup,omitempty"`
	id    []byte
}

func (t *peTx) run() *blockRun { return runOf(t.ID()) }
func (t *peTx) prog() prog     { return t.run().progs[t.Idx-1] }

func (t *peTx) Group() module.TransactionGroup { return module.TransactionGroupNormal }
func (t *peTx) ID() []byte {
	if t.id == nil {
		t.id = crypto.SHA3Sum256(t.Bytes())
	}
	return t.id
}
func (t *peTx) From() module.Address { return state.SystemAddress }
func (t *peTx) Bytes() []byte        { bs, _ := json.Marshal(t); return bs }
func (t *peTx) Hash() []byte         { return t.ID() }
func (t *peTx) Verify() error        { return nil }
func (t *peTx) Version() int         { return module.TransactionVersion3 }
func (t *peTx) ToJSON(module.JSONVersion) (interface{}, error) {
	return map[string]interface{}{"type": "verifpe", "idx": t.Idx}, nil
}
func (t *peTx) ValidateNetwork(int) bool                       { return true }
func (t *peTx) PreValidate(state.WorldContext, bool) error     { return nil }
func (t *peTx) Timestamp() int64                               { return t.TS }
func (t *peTx) Nonce() *big.Int                                { return nil }
func (t *peTx) To() module.Address                             { return state.SystemAddress }
func (t *peTx) IsSkippable() bool                              { return false }
func (t *peTx) Reset(s db.Database, k []byte) error            { return json.Unmarshal(k, t) }
func (t *peTx) Flush() error                                   { return nil }
func (t *peTx) Resolve(merkle.Builder) error                   { return nil }
func (t *peTx) ClearCache()                                    {}
func (t *peTx) Dispose()                                       {}
func (t *peTx) Equal(o trie.Object) bool {
	x, ok := o.(*peTx)
	return ok && bytes.Equal(x.ID(), t.ID())
}
// GetHandler: fate "nohandler" always fails, "retryh" fails from the second call on (the call made for a retry).
func (t *peTx) GetHandler(contract.ContractManager) (transaction.Handler, error) {
	if t.Setup != nil {
		return t, nil
	}
	r := t.run()
	r.mu.Lock()
	r.handlers[t.Idx-1]++
	n := r.handlers[t.Idx-1]
	r.mu.Unlock()
	switch f := t.prog().Fate; {
	case f == "nohandler", f == "retryh" && n >= 2:
		return nil, errors.InvalidStateError.Errorf("harness: GetHandler of tx %d fails (call %d)", t.Idx, n)
	}
	return t, nil
}

// Prepare: the declared lock requests go through the real contract.Context.GetFuture; the resulting real
// world context is re-based on a wrapper of the real virtual state that gates and reports Commit.
func (t *peTx) Prepare(ctx contract.Context) (state.WorldContext, error) {
	if t.Setup != nil {
		return ctx.GetFuture([]state.LockRequest{{ID: state.WorldIDStr, Lock: state.AccountWriteLock}}), nil
	}
	r := t.run()
	p := t.prog()
	if p.Fate == "noprep" {
		return nil, errors.InvalidStateError.Errorf("harness: Prepare of tx %d fails", t.Idx)
	}
	var lq []state.LockRequest
	if p.World == "W" {
		lq = append(lq, state.LockRequest{ID: state.WorldIDStr, Lock: state.AccountWriteLock})
	} else {
		if p.World == "R" {
			lq = append(lq, state.LockRequest{ID: state.WorldIDStr, Lock: state.AccountReadLock})
		}
		for _, name := range sortedKeys(p.Lock) {
			switch p.Lock[name] {
			case "R":
				lq = append(lq, state.LockRequest{ID: string(r.accounts[name].ID()), Lock: state.AccountReadLock})
			case "W":
				if p.Twice {
					lq = append(lq, state.LockRequest{ID: string(r.accounts[name].ID()), Lock: state.AccountReadLock})
				}
				lq = append(lq, state.LockRequest{ID: string(r.accounts[name].ID()), Lock: state.AccountWriteLock})
			}
		}
	}
	wc := ctx.GetFuture(lq)
	inner := wc.WorldVirtualState()
	res := wc.WorldStateChanged(&wvsWrap{WorldVirtualState: inner, r: r, idx: t.Idx})
	r.record(map[string]interface{}{"th": "D", "op": "top", "t": t.Idx})
	if p.Ens {
		// as CallHandler.Prepare does: resolve every locked account now, in the dispatcher
		r.s.note(fmt.Sprintf("future:%d", t.Idx), 0)
		r.s.gate(fmt.Sprintf("ensure:%d", t.Idx))
		inner.Ensure()
		r.record(map[string]interface{}{"th": "D", "op": "ensure", "t": t.Idx})
	}
	r.s.note(fmt.Sprintf("prepared:%d", t.Idx), 0)
	return res, nil
}

func (t *peTx) Execute(ctx contract.Context, wcs state.WorldSnapshot, estimate bool) (txresult.Receipt, error) {
	if t.Setup != nil {
		r := t.run()
		for name, v := range t.Setup {
			ctx.GetAccountState(r.accounts[name].ID()).SetBalance(big.NewInt(v))
		}
		rct := txresult.NewReceipt(ctx.Database(), ctx.Revision(), t.To())
		rct.SetResult(module.StatusSuccess, big.NewInt(0), big.NewInt(0), nil)
		return rct, nil
	}
	r := t.run()
	p := t.prog()
	r.mu.Lock()
	att := r.attempts[t.Idx-1]
	r.attempts[t.Idx-1]++
	r.mu.Unlock()
	if att == 0 {
		r.record(map[string]interface{}{"th": t.Idx, "op": "begin", "t": t.Idx})
	}
	if att == 0 && r.cancelAt == t.Idx {
		r.mu.Lock()
		c := r.cancel
		r.mu.Unlock()
		if c != nil && c() {
			r.s.note("cancel-accepted", 0)
		} else {
			r.s.note("cancel-refused", 0)
		}
	}
	r.s.note(fmt.Sprintf("exec:%d:%d", t.Idx, att), 0)
	for i, op := range p.Ops {
		r.s.gate(fmt.Sprintf("op:%d:%d:%d", t.Idx, att, i+1))
		as := ctx.GetAccountState(r.accounts[op[1]].ID())
		if as == nil {
			return nil, errors.CriticalUnknownError.Errorf("harness: account %s not reachable from tx %d", op[1], t.Idx)
		}
		val := t.Idx
		if op[0] == "r" {
			val = int(as.GetBalance().Int64())
			r.mu.Lock()
			r.reads = append(r.reads, readRec{T: t.Idx, Att: att, I: i + 1, A: op[1], Val: val})
			r.mu.Unlock()
		} else {
			as.SetBalance(big.NewInt(int64(t.Idx)))
		}
		r.record(map[string]interface{}{"th": t.Idx, "op": "step", "t": t.Idx, "i": i + 1, "k": op[0], "a": op[1], "val": val})
		r.s.note(fmt.Sprintf("opdone:%d:%d:%d", t.Idx, att, i+1), val)
	}
	r.s.gate(fmt.Sprintf("end:%d:%d", t.Idx, att))
	out := "ok"
	switch p.Fate {
	case "fatal":
		out = "fatal"
	case "retry1":
		if att == 0 {
			out = "retry"
		}
	case "retryh":
		out = "retryh"
	case "retryx":
		out = "retry"
		if att >= service.RetryCount {
			out = "exhausted"
		}
	}
	r.record(map[string]interface{}{"th": t.Idx, "op": "end", "t": t.Idx, "out": out, "i": att})
	retryable := errors.ExecutionFailError
	if r.rerun {
		retryable = errors.CriticalRerunError
	}
	switch out {
	case "retry", "exhausted", "retryh":
		return nil, retryable.Errorf("harness: retryable failure of tx %d attempt %d", t.Idx, att)
	case "fatal":
		if !r.pltFail {
			return nil, errors.InvalidStateError.Errorf("harness: non-retryable failure of tx %d", t.Idx)
		}
		r.mu.Lock()
		r.failNow[t.Idx-1] = true
		r.mu.Unlock()
	}
	rct := txresult.NewReceipt(ctx.Database(), ctx.Revision(), t.To())
	rct.SetResult(module.StatusSuccess, big.NewInt(0), big.NewInt(0), nil)
	return rct, nil
}

var regOnce sync.Once

// registerFactory makes the transaction codec recognise the harness transaction type.
func registerFactory() {
	regOnce.Do(func() {
		transaction.RegisterFactory(&transaction.Factory{
			Priority: 3,
			CheckJSON: func(jso map[string]interface{}) bool {
				v, ok := jso["type"]
				return ok && v == "verifpe"
			},
			ParseJSON: func(js []byte, jsm map[string]interface{}, raw bool) (transaction.Transaction, error) {
				t := &peTx{}
				if err := json.Unmarshal(js, t); err != nil {
					return nil, err
				}
				return t, nil
			},
		})
	})
}

func sortedKeys(m map[string]string) []string {
	ks := make([]string, 0, len(m))
	for k := range m {
		ks = append(ks, k)
	}
	for i := range ks {
		for j := i + 1; j < len(ks); j++ {
			if ks[j] < ks[i] {
				ks[i], ks[j] = ks[j], ks[i]
			}
		}
	}
	return ks
}

// ---------------------------------------------------------------- wrappers

// wvsWrap delegates everything to the real worldVirtualState; Commit is gated and reported.
type wvsWrap struct {
	state.WorldVirtualState
	r     *blockRun
	idx   int
	began bool
}

// GetSnapshot is the first thing a transaction goroutine does (a world-lock transaction realizes its base in
// there, holding the mutexes of its uncommitted predecessors meanwhile): the start of the goroutine is gated here.
func (w *wvsWrap) GetSnapshot() state.WorldSnapshot {
	if !w.began {
		w.began = true
		w.r.s.gate(fmt.Sprintf("begin:%d", w.idx))
	}
	return w.WorldVirtualState.GetSnapshot()
}

func (w *wvsWrap) GetFuture(reqs []state.LockRequest) state.WorldVirtualState {
	return w.WorldVirtualState.GetFuture(reqs)
}

func (w *wvsWrap) Commit() {
	w.r.s.gate(fmt.Sprintf("commit:%d", w.idx))
	// recorded before the call: the dispatcher's final Realize is woken from inside Commit, so the block can be
	// reported as finished before this goroutine runs again (only the order within one thread matters to the trace spec)
	w.r.record(map[string]interface{}{"th": w.idx, "op": "commit", "t": w.idx})
	w.WorldVirtualState.Commit()
	w.r.s.note(fmt.Sprintf("committed:%d", w.idx), 0)
}

type chainWrap struct {
	module.Chain
	level int
}

func (c *chainWrap) ConcurrencyLevel() int { return c.level }

type pltWrap struct {
	base.Platform
}

func (p *pltWrap) OnTransactionEnd(wc state.WorldContext, logger log.Logger, rct txresult.Receipt) error {
	r := runOf(wc.TransactionInfo().Hash)
	if r != nil {
		idx := int(wc.TransactionInfo().Index)
		r.mu.Lock()
		f := r.failNow[idx]
		delete(r.failNow, idx)
		r.mu.Unlock()
		if f {
			return errors.InvalidStateError.Errorf("harness: OnTransactionEnd fails for tx %d", idx+1)
		}
	}
	return p.Platform.OnTransactionEnd(wc, logger, rct)
}

// gatedList gates the dispatcher's loop top: Has() of the iterator used by the executor.
type gatedList struct {
	module.TransactionList
	r *blockRun
}

type gatedIter struct {
	module.TransactionIterator
	r   *blockRun
	pos int
}

func (l *gatedList) Iterator() module.TransactionIterator {
	it := l.TransactionList.Iterator()
	l.r.mu.Lock()
	armed := l.r.armed
	l.r.mu.Unlock()
	if !armed {
		return it
	}
	return &gatedIter{TransactionIterator: it, r: l.r, pos: 1}
}

func (i *gatedIter) Has() bool {
	i.r.s.gate(fmt.Sprintf("has:%d", i.pos))
	return i.TransactionIterator.Has()
}

func (i *gatedIter) Next() error {
	i.pos++
	return i.TransactionIterator.Next()
}

// ---------------------------------------------------------------- node

type lenientT struct{}

func (lenientT) Errorf(format string, args ...interface{}) {}
func (lenientT) Logf(format string, args ...any)           {}

type env struct {
	node *test.Node
	nctx *test.NodeContext
}

func newEnv() *env {
	registerFactory()
	e := &env{}
	e.node = test.NewNode(lenientT{}, test.UseSMFactory(func(ctx *test.NodeContext) module.ServiceManager {
		e.nctx = ctx
		return test.NewServiceManager(ctx.C, ctx.Platform, ctx.CM, ctx.EM)
	}))
	e.nctx.C.Logger().SetLevel(log.PanicLevel)
	log.GlobalLogger().SetLevel(log.PanicLevel)
	return e
}

type setupCB struct{ done chan error }

func (c *setupCB) OnValidate(tr module.Transition, err error) {
	if err != nil {
		c.done <- err
	}
}
func (c *setupCB) OnExecute(tr module.Transition, err error) { c.done <- err }

type cb struct {
	s *sched
	r *blockRun
}

func (c *cb) OnValidate(tr module.Transition, err error) {
	if err != nil {
		c.s.note("validate-error", 0)
		return
	}
	c.r.mu.Lock()
	c.r.armed = true
	c.r.mu.Unlock()
	c.s.note("validated", 0)
}

func (c *cb) OnExecute(tr module.Transition, err error) {
	if err != nil {
		c.s.note("result:err", 0)
	} else {
		c.s.note("result:ok", 0)
	}
	c.s.note("result", 0)
}

// start creates the transition for the block of r and starts its execution.
func (e *env) start(r *blockRun, level int, height int64, salt int64) error {
	r.attempts = make([]int, len(r.progs))
	r.handlers = make([]int, len(r.progs))
	r.failNow = map[int]bool{}
	c := e.nctx.C
	chain := &chainWrap{Chain: c, level: level}
	itr, err := service.NewInitTransition(c.Database(), nil, nil, e.nctx.CM, e.nctx.EM, chain,
		c.Logger(), &pltWrap{e.nctx.Platform}, service.NewTimestampChecker())
	if err != nil {
		return err
	}
	var parent module.Transition = itr
	setup := map[string]int64{}
	for a, v := range r.init {
		if v != 0 {
			setup[a] = int64(v)
		}
	}
	if len(setup) > 0 {
		// the block before: gives the accounts their initial values (executed by the sequential executor, no gates)
		stx := &peTx{Idx: 0, TS: height*1000 - 1, Salt: salt, Type: "verifpe", Setup: setup}
		runsByTx.Store(string(stx.ID()), r)
		sl := transaction.NewTransactionListFromSlice(c.Database(), []module.Transaction{transaction.Wrap(stx)})
		str := service.NewTransition(itr, nil, sl, common.NewBlockInfo(height, height*1000-1), common.NewConsensusInfo(nil, nil, nil), true)
		done := make(chan error, 2)
		if _, err := str.Execute(&setupCB{done}); err != nil {
			return err
		}
		select {
		case err := <-done:
			if err != nil {
				return err
			}
		case <-time.After(20 * time.Second):
			return fmt.Errorf("set-up block did not finish")
		}
		parent = str
		height++
	}
	txs := make([]module.Transaction, len(r.progs))
	for i := range r.progs {
		tx := &peTx{Idx: i + 1, TS: height*1000 + int64(i), Salt: salt, Type: "verifpe"}
		runsByTx.Store(string(tx.ID()), r)
		txs[i] = transaction.Wrap(tx)
	}
	list := &gatedList{TransactionList: transaction.NewTransactionListFromSlice(c.Database(), txs), r: r}
	tr := service.NewTransition(parent, nil, list, common.NewBlockInfo(height, height*1000),
		common.NewConsensusInfo(nil, nil, nil), true)
	r.tr = tr
	cancel, err := tr.Execute(&cb{s: r.s, r: r})
	r.mu.Lock()
	r.cancel = cancel
	r.mu.Unlock()
	return err
}

// balances reads the final account values of an executed transition.
func (e *env) balances(r *blockRun) (map[string]int, []byte, int, error) {
	if err := service.FinalizeTransition(r.tr, module.FinalizeResult, false); err != nil {
		return nil, nil, 0, err
	}
	ws, err := service.NewWorldSnapshot(e.nctx.C.Database(), e.nctx.Platform, r.tr.Result(), nil)
	if err != nil {
		return nil, nil, 0, err
	}
	res := map[string]int{}
	for name, addr := range r.accounts {
		ass := ws.GetAccountSnapshot(addr.ID())
		if ass == nil {
			res[name] = 0
		} else {
			res[name] = int(ass.GetBalance().Int64())
		}
	}
	n := 0
	for it := r.tr.NormalReceipts().Iterator(); it.Has(); it.Next() {
		if rct, err := it.Get(); err == nil && rct != nil {
			n++
		}
	}
	return res, ws.StateHash(), n, nil
}

func makeAccounts(names []string, salt int64) map[string]module.Address {
	m := map[string]module.Address{}
	for i, n := range names {
		bs := crypto.SHA3Sum256([]byte(fmt.Sprintf("verif-account-%s-%d-%d", n, i, salt)))
		m[n] = common.NewAccountAddress(bs[:20])
	}
	return m
}
