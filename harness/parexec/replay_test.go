package parexec

// Replays behaviours of spec/exec/ParallelExec.tla (complete executions of one block: TLC-chosen
// schedules of dispatcher steps, program operations, returns and commits) into the real concurrent
// executor, and the same block into the real sequential executor (C09, C10).
//
// The oracle is the TLA+ text: every step carries the value the specification predicts for a read,
// the outcome of the block and the set of goroutines that have to be parked inside the real code;
// the last step carries the sequential reference (values, final state, outcome) computed by the
// specification. This driver only realises the schedule (one token per step), lets parked
// goroutines run ahead to check that the real code really waits, and reads observations back.
//
// A crash of the code under test (nil receipt in doExecute) kills the process: cases run in child
// processes of this test binary; the parent attributes a crash to the case in progress.

import (
	"bufio"
	"flag"
	"encoding/json"
	"fmt"
	"os"
	"os/exec"
	"strconv"
	"math/rand"
	"strings"
	"sync"
	"testing"
	"time"

	"verifharness/tlaio"
)

type seqRef struct {
	Reads  [][]int        `json:"reads"`  // [t][i]: value seen / written by operation i of transaction t
	Final  map[string]int `json:"final"`  // final account values
	Result string         `json:"result"` // "ok" | "err"
	PResult string        `json:"presult"` // outcome in the concurrent executor (a failing Prepare only exists there)
	First  int            `json:"first"`  // first failing transaction (K+1: none)
	Init   map[string]int `json:"init"`   // account values before the block
}

type step struct {
	Op    string         `json:"op"`
	T     int            `json:"t"`
	I     int            `json:"i"`
	K     string         `json:"k"`
	A     string         `json:"a"`
	Val   int            `json:"val"`
	Out   string         `json:"out"`
	Prog  prog           `json:"prog"`
	Blk   []int          `json:"blk"`
	Dblk  bool           `json:"dblk"`
	Eblk  bool           `json:"eblk"`
	Real  map[string]int `json:"real"`
	Latch int            `json:"latch"`
	Seq   *seqRef        `json:"seq"`
}

type input struct {
	Level int      `json:"level"`
	K     int      `json:"k"`
	Acc   []string `json:"acc"`
	Steps []step   `json:"steps"`
	Salt  int64    `json:"salt"`
	Plt   *bool    `json:"plt"`
	Rerun *bool    `json:"rerun"`
}

const stepTimeout = 8 * time.Second
const parkCheck = 300 * time.Microsecond

type finding struct {
	violation bool
	key, what string
}

func (f *finding) set(v bool, key, what string) {
	if f.key == "" && f.what == "" || (v && !f.violation) {
		f.violation, f.key, f.what = v, key, what
	}
}

func progsOf(in input) []prog {
	ps := make([]prog, in.K)
	for i := range ps {
		ps[i] = prog{World: "N", Lock: map[string]string{}, Ops: [][]string{}, Fate: "ok"}
		for _, a := range in.Acc {
			ps[i].Lock[a] = "N"
		}
	}
	for _, s := range in.Steps {
		if s.Op == "top" || s.Op == "toprefuse" {
			ps[s.T-1] = s.Prog
		}
	}
	return ps
}

func anyFails(ps []prog) (int, bool) {
	for i, p := range ps {
		if p.Fate == "fatal" || p.Fate == "retryx" || p.Fate == "nohandler" || p.Fate == "retryh" {
			return i + 1, true
		}
	}
	return 0, false
}

// runScheduled realises the schedule of the behaviour on the concurrent executor.
func runScheduled(e *env, in input, height int64, f *finding) (*blockRun, string) {
	r := &blockRun{s: newSched(false), progs: progsOf(in), accounts: makeAccounts(in.Acc, in.Salt), init: initOf(in),
		pltFail: in.Plt != nil && *in.Plt, rerun: in.Rerun != nil && *in.Rerun}
	if err := e.start(r, in.Level, height, in.Salt); err != nil {
		f.set(false, "", "cannot start the transition: "+err.Error())
		return r, ""
	}
	s := r.s
	att := make([]int, in.K+1)
	cancelled := false
	pre := map[string]bool{} // gates granted ahead of the model step (parked goroutines)
	preCommit := map[int]bool{} // transactions whose Commit was let run ahead and is not yet committed in the model
	desync := func(i int, what string) string {
		// the real execution left the behaviour: let it run to the end and judge the outcome only
		s.setFree()
		if _, ok := s.waitNote("result", stepTimeout); !ok {
			f.set(false, "", fmt.Sprintf("step %d: %s; afterwards the block never finished", i, what))
			return ""
		}
		f.set(false, "", fmt.Sprintf("step %d: %s", i, what))
		if s.hasNote("result:ok") {
			return "ok"
		}
		return "err"
	}
	if _, ok := s.waitNote("validated", stepTimeout); !ok {
		f.set(false, "", "validation did not finish")
		return r, ""
	}
	for i, st := range in.Steps {
		switch st.Op {
		case "top", "topfail", "toprefuse":
			key := fmt.Sprintf("has:%d", st.T)
			if !s.waitArrived(key, stepTimeout) {
				return r, desync(i, fmt.Sprintf("dispatcher did not reach the loop top of tx %d", st.T))
			}
			s.grant(key)
			prep := fmt.Sprintf("prepared:%d", st.T)
			if st.Op == "topfail" && cancelled {
				// the dispatcher stops without reporting anything: nothing may be prepared any more
				time.Sleep(cancelGrace)
				if s.hasNote(prep) || s.hasNote(fmt.Sprintf("future:%d", st.T)) {
					f.set(true, "parexec:dispatch-after-cancel", fmt.Sprintf("step %d: tx %d was dispatched although the transition had been cancelled", i, st.T))
				}
				return r, afterCancel(s)
			}
			if st.Op == "top" && st.Prog.Ens {
				prep = fmt.Sprintf("future:%d", st.T) // Prepare stops in front of Ensure()
			}
			if !s.wait(stepTimeout, func() bool { _, a := s.notes[prep]; _, b := s.notes["result"]; return a || b }) {
				return r, desync(i, fmt.Sprintf("dispatcher neither prepared tx %d nor returned", st.T))
			}
			if st.Op == "top" && !s.hasNote(prep) {
				return r, desync(i, fmt.Sprintf("dispatcher returned before tx %d although no error is latched in the model", st.T))
			}
			if st.Op == "toprefuse" {
				if s.hasNote(prep) {
					return r, desync(i, fmt.Sprintf("tx %d was prepared although its GetHandler / Prepare has to fail", st.T))
				}
				return r, "err"
			}
			if st.Op == "topfail" {
				if s.hasNote(prep) {
					return r, desync(i, fmt.Sprintf("dispatcher went on with tx %d although the model has an error latched (tx %d failed)", st.T, st.Latch))
				}
				return r, "err"
			}
			if st.Op == "top" && st.Eblk {
				// the model says Ensure has to wait for a commit: let the dispatcher run into it, it must not return
				ek := fmt.Sprintf("ensure:%d", st.T)
				if s.waitArrived(ek, stepTimeout) {
					pre[ek] = true
					s.grant(ek)
					time.Sleep(parkCheck)
					if s.hasNote(fmt.Sprintf("prepared:%d", st.T)) {
						f.set(false, "", fmt.Sprintf("step %d: Ensure of tx %d returned although the model says it has to wait for a commit", i, st.T))
					}
				}
			}
		case "cancel":
			r.mu.Lock()
			c := r.cancel
			r.mu.Unlock()
			if c == nil || !c() {
				f.set(true, "parexec:cancel-refused", fmt.Sprintf("step %d: the canceler of a running transition returned false", i))
			}
			cancelled = true
			r.didCancel = true
		case "ensure":
			ek := fmt.Sprintf("ensure:%d", st.T)
			if !pre[ek] {
				if !s.waitArrived(ek, stepTimeout) {
					return r, desync(i, fmt.Sprintf("Prepare of tx %d did not reach Ensure", st.T))
				}
				s.grant(ek)
			}
			if _, ok := s.waitNote(fmt.Sprintf("prepared:%d", st.T), stepTimeout); !ok {
				return r, desync(i, fmt.Sprintf("Ensure of tx %d did not return although its dependencies are committed in the model", st.T))
			}
		case "spawn":
			// the dispatcher passes ec.Ready(), starts the goroutine and comes around to the next loop top
			if !s.waitArrived(fmt.Sprintf("has:%d", st.T+1), stepTimeout) {
				return r, desync(i, fmt.Sprintf("dispatcher did not start tx %d (no free slot?)", st.T))
			}
		case "begin":
			bk := fmt.Sprintf("begin:%d", st.T)
			if !s.waitArrived(bk, stepTimeout) {
				return r, desync(i, fmt.Sprintf("goroutine of tx %d did not start", st.T))
			}
			s.grant(bk)
			if _, ok := s.waitNote(fmt.Sprintf("exec:%d:%d", st.T, 0), stepTimeout); !ok {
				return r, desync(i, fmt.Sprintf("goroutine of tx %d did not reach Execute", st.T))
			}
		case "step":
			key := fmt.Sprintf("op:%d:%d:%d", st.T, att[st.T], st.I)
			if !pre[key] {
				if !s.waitArrived(key, stepTimeout) {
					return r, desync(i, fmt.Sprintf("tx %d did not reach operation %d", st.T, st.I))
				}
				s.grant(key)
			}
			val, ok := s.waitNote(fmt.Sprintf("opdone:%d:%d:%d", st.T, att[st.T], st.I), stepTimeout)
			if !ok {
				return r, desync(i, fmt.Sprintf("operation %d of tx %d did not complete although its dependency is committed in the model", st.I, st.T))
			}
			want := st.Val
			if seq := in.Steps[len(in.Steps)-1].Seq; seq != nil && st.T <= seq.First {
				want = seq.Reads[st.T-1][st.I-1] // the sequential reference does not depend on the schedule
			}
			if st.K == "r" && val != want {
				f.set(true, "parexec:read-not-sequential"+wrSuffix(in, st.T, st.A), fmt.Sprintf("step %d: tx %d operation %d read %s = %d, the specification (= sequential execution) says %d",
					i, st.T, st.I, st.A, val, want))
			}
		case "end":
			key := fmt.Sprintf("end:%d:%d", st.T, att[st.T])
			if !s.waitArrived(key, stepTimeout) {
				return r, desync(i, fmt.Sprintf("tx %d did not reach the end of Execute", st.T))
			}
			s.grant(key)
			if st.Out == "retry" {
				att[st.T]++
				if _, ok := s.waitNote(fmt.Sprintf("exec:%d:%d", st.T, att[st.T]), stepTimeout); !ok {
					return r, desync(i, fmt.Sprintf("tx %d was not executed again after a retryable failure", st.T))
				}
			} else if !s.waitArrived(fmt.Sprintf("commit:%d", st.T), stepTimeout) {
				return r, desync(i, fmt.Sprintf("tx %d did not reach Commit", st.T))
			}
		case "commit":
			delete(preCommit, st.T)
			s.grant(fmt.Sprintf("commit:%d", st.T))
			if _, ok := s.waitNote(fmt.Sprintf("committed:%d", st.T), stepTimeout); !ok {
				return r, desync(i, fmt.Sprintf("Commit of tx %d did not return", st.T))
			}
		case "exit":
			key := fmt.Sprintf("has:%d", in.K+1)
			if !s.waitArrived(key, stepTimeout) {
				return r, desync(i, "dispatcher did not reach the end of the list")
			}
			s.grant(key)
			if cancelled {
				return r, afterCancel(s)
			}
			if _, ok := s.waitNote("result", stepTimeout); !ok {
				f.set(false, "", fmt.Sprintf("step %d: the block never finished", i))
				return r, ""
			}
			if s.hasNote("result:ok") {
				return r, "ok"
			}
			return r, "err"
		}
		// goroutines the model says are parked in an operation (waiting for the commit of a dependency): let them
		// run ahead into the real code, they must not complete before the model allows it
		var watch []string
		for _, t := range st.Blk {
			if s.hasArrived(fmt.Sprintf("commit:%d", t)) {
				// finished, but Commit has to wait for the writer of a write-locked account it never touched: let it
				// run into the real Commit, which must not return before the model allows it
				k := fmt.Sprintf("commit:%d", t)
				if !pre[k] {
					pre[k] = true
					preCommit[t] = true
					s.grant(k)
				}
				watch = append(watch, fmt.Sprintf("committed:%d", t))
				continue
			}
			if !s.hasNote(fmt.Sprintf("exec:%d:%d", t, att[t])) {
				continue // not started yet (the start of a goroutine stays gated)
			}
			nx := nextOp(in.Steps[i+1:], t)
			if nx == 0 {
				continue
			}
			k := fmt.Sprintf("op:%d:%d:%d", t, att[t], nx)
			if !pre[k] {
				if !s.waitArrived(k, stepTimeout) {
					continue
				}
				pre[k] = true
				s.grant(k)
			}
			watch = append(watch, fmt.Sprintf("opdone:%d:%d:%d", t, att[t], nx))
		}
		// a Commit that was let run ahead returns as soon as the real dependency commits, possibly before the model's own
		// Commit step; what it unblocks may then legitimately happen early: nothing is asserted in that situation
		ranAhead := false
		for t := range preCommit {
			if s.hasNote(fmt.Sprintf("committed:%d", t)) {
				ranAhead = true
			}
		}
		if len(watch) > 0 && !ranAhead {
			time.Sleep(parkCheck)
			for t := range preCommit {
				if s.hasNote(fmt.Sprintf("committed:%d", t)) && !contains(st.Blk, t) {
					ranAhead = true
				}
			}
			for _, w := range watch {
				if ranAhead {
					continue // (also another run-ahead Commit may legitimately return now: a chain of hand-overs)
				}
				if s.hasNote(w) {
					f.set(false, "", fmt.Sprintf("step %d: %s happened although the model says the operation has to wait for a commit", i, w))
				}
			}
		}
	}
	return r, desync(len(in.Steps), "behaviour ended before the block finished")
}

// wrSuffix marks a read that a world-read-lock transaction makes through the world lock (not through a write lock of its
// own): an input class of its own in violation keys. Every other violation in the same block keeps its plain key.
func wrSuffix(in input, t int, a string) string {
	ps := progsOf(in)
	if t >= 1 && t <= len(ps) && ps[t-1].World == "R" && ps[t-1].Lock[a] != "W" {
		return ":world-read-lock"
	}
	return ""
}

const cancelGrace = 60 * time.Millisecond

// afterCancel: a cancelled transition must not report anything; everything still parked is released first.
func afterCancel(s *sched) string {
	s.setFree()
	time.Sleep(cancelGrace)
	if s.hasNote("result:ok") {
		return "ok"
	}
	if s.hasNote("result:err") {
		return "err"
	}
	return "cancelled"
}

func initOf(in input) map[string]int {
	if n := len(in.Steps); n > 0 && in.Steps[n-1].Seq != nil {
		return in.Steps[n-1].Seq.Init
	}
	return nil
}

func contains(xs []int, x int) bool {
	for _, y := range xs {
		if y == x {
			return true
		}
	}
	return false
}

func nextOp(rest []step, t int) int {
	for _, s := range rest {
		if s.T == t && s.Op == "step" {
			return s.I
		}
		if s.T == t && s.Op == "end" {
			return 0
		}
	}
	return 0
}

// runFree executes the block without gates at the given level (1 = the sequential executor); with jitter
// every gate is followed by a seeded random delay so that the goroutines interleave differently each time.
func runFree(e *env, in input, level int, height int64, f *finding, jitter *rand.Rand) (*blockRun, string) {
	r := &blockRun{s: newSched(true), progs: progsOf(in), accounts: makeAccounts(in.Acc, in.Salt), init: initOf(in),
		pltFail: in.Plt != nil && *in.Plt, rerun: in.Rerun != nil && *in.Rerun, cancelAt: cancelPoint(in)}
	if jitter != nil {
		var jmu sync.Mutex
		r.s.delay = func(string) {
			jmu.Lock()
			d := time.Duration(jitter.Intn(150)) * time.Microsecond
			jmu.Unlock()
			time.Sleep(d)
		}
	}
	if err := e.start(r, level, height, in.Salt); err != nil {
		f.set(false, "", "cannot start the transition: "+err.Error())
		return r, ""
	}
	if r.cancelAt > 0 {
		// cancelled from inside the block (when transaction cancelAt starts): afterwards nothing may be reported
		if !r.s.wait(stepTimeout, func() bool {
			_, a := r.s.notes["cancel-accepted"]
			_, b := r.s.notes["cancel-refused"]
			_, c := r.s.notes["result"]
			return a || b || c
		}) {
			f.set(false, "", fmt.Sprintf("level %d: the block neither reached the cancel point nor finished", level))
			return r, ""
		}
		if r.s.hasNote("cancel-refused") {
			f.set(true, "parexec:cancel-refused", fmt.Sprintf("level %d: the canceler of a running transition returned false", level))
		}
		if r.s.hasNote("cancel-accepted") {
			r.didCancel = true
			return r, afterCancel(r.s)
		}
	}
	if _, ok := r.s.waitNote("result", stepTimeout); !ok {
		f.set(false, "", fmt.Sprintf("level %d: the block never finished", level))
		return r, ""
	}
	if r.s.hasNote("result:ok") {
		return r, "ok"
	}
	return r, "err"
}

// cancelPoint: the transaction at whose start the free-running executions cancel (0: the behaviour has no cancel step).
func cancelPoint(in input) int {
	for _, s := range in.Steps {
		if s.Op == "cancel" {
			if s.T < 1 {
				return 1
			}
			return s.T
		}
	}
	return 0
}

// traceOf turns the recorder's events into the per-thread form Trace_ParallelExec.tla reads.
func traceOf(r *blockRun, k int, res string) map[string]interface{} {
	// Goroutines outlive a failed block (the dispatcher returns at once). The `commit` event is recorded when Commit is
	// entered (see wvsWrap.Commit), so the trace may only be taken when every dispatched transaction has really committed:
	// all gates are open in this mode and every prepared transaction was started, so they all finish.
	prepared := map[int]bool{}
	r.mu.Lock()
	for _, e := range r.events {
		if e["op"] == "top" {
			prepared[e["t"].(int)] = true
		}
	}
	r.mu.Unlock()
	done := r.s.wait(5*time.Second, func() bool {
		for t := range prepared {
			if _, ok := r.s.notes[fmt.Sprintf("committed:%d", t)]; !ok {
				return false
			}
		}
		return true
	})
	r.mu.Lock()
	defer r.mu.Unlock()
	if !done {
		// (should not happen) keep only what is certain: a commit that has not returned is not part of the trace
		var kept []map[string]interface{}
		for _, e := range r.events {
			if e["op"] == "commit" {
				if !r.s.hasNote(fmt.Sprintf("committed:%d", e["t"].(int))) {
					continue
				}
			}
			kept = append(kept, e)
		}
		r.events = kept
	}
	ev := make([][]map[string]interface{}, k+1)
	for i := range ev {
		ev[i] = []map[string]interface{}{}
	}
	for _, e := range r.events {
		th := k
		if n, ok := e["th"].(int); ok {
			th = n - 1
		}
		c := map[string]interface{}{}
		for key, v := range e {
			if key != "th" {
				c[key] = v
			}
		}
		ev[th] = append(ev[th], c)
	}
	ev[k] = append(ev[k], map[string]interface{}{"op": "result", "out": res, "t": 0})
	init := map[string]int{}
	for a := range r.accounts {
		init[a] = r.init[a]
	}
	return map[string]interface{}{"progs": r.progs, "ev": ev, "init": init}
}

func runCase(e *env, in input, caseNo int, out *tlaio.Out, id string, detail interface{}) (finding, interface{}) {
	var f finding
	var trace interface{}
	seq := in.Steps[len(in.Steps)-1].Seq
	if seq == nil {
		f.set(false, "", "behaviour without sequential reference")
		return f, nil
	}
	ps := progsOf(in)
	failing, fails := anyFails(ps)
	want := "ok"
	if fails {
		want = "err"
	}
	if want != seq.Result {
		f.set(false, "", "driver and specification disagree about the failing transaction")
		return f, nil
	}
	// the concurrent executor additionally fails on a failing Prepare (the sequential executor never calls it)
	wantPar, failingPar := want, failing
	for i, p := range ps {
		if p.Fate == "noprep" && (failingPar == 0 || i+1 < failingPar) {
			wantPar, failingPar = "err", i+1
		}
	}
	if seq.PResult != "" && seq.PResult != wantPar {
		f.set(false, "", "driver and specification disagree about the outcome of the concurrent executor")
		return f, nil
	}
	h := int64(caseNo*8 + 1) // every run uses two heights: an optional set-up block and the block itself
	// (1) the sequential executor (ConcurrencyLevel 1)
	key := func(k string) string {
		if fails {
			return k
		}
		return "parexec:crash"
	}
	desc := "no transaction fails"
	if fails {
		desc = fmt.Sprintf("tx %d of %d has fate %q", failing, in.K, ps[failing-1].Fate)
	}
	out.Emit(tlaio.Record{Case: id, Status: "begin", Key: key("seqexec:failed-tx-skipped"), Detail: detail,
		What: "sequential executor (ConcurrencyLevel 1), " + desc})
	sr, sres := runFree(e, in, 1, h, &f, nil)
	if sres != "" {
		judge(e, "seqexec", 1, sr, sres, want, failing, seq, in, &f)
		for _, rd := range sr.reads {
			if rd.T <= seq.First && rd.Val != seq.Reads[rd.T-1][rd.I-1] {
				f.set(true, "seqexec:read-differs", fmt.Sprintf("sequential executor: tx %d operation %d read %s = %d, the specification says %d",
					rd.T, rd.I, rd.A, rd.Val, seq.Reads[rd.T-1][rd.I-1]))
			}
		}
	}
	var seqHash []byte
	if sres == "ok" {
		_, seqHash, _, _ = e.balances(sr)
	}
	// (2) the TLC-chosen schedule on the concurrent executor
	out.Emit(tlaio.Record{Case: id, Status: "begin", Key: key("parexec:fatal-error-not-latched"), Detail: detail,
		What: fmt.Sprintf("concurrent executor (ConcurrencyLevel %d), %s", in.Level, desc)})
	pr, pres := runScheduled(e, in, h+2, &f)
	if pres != "" {
		hash := judge(e, "parexec", in.Level, pr, pres, wantPar, failingPar, seq, in, &f)
		if pres == "ok" && sres == "ok" && string(hash) != string(seqHash) {
			f.set(true, "parexec:state-hash-differs", fmt.Sprintf("state hash after concurrent execution (level %d) differs from the sequential executor's", in.Level))
		}
	}
	pr.s.setFree() // goroutines that outlive a failed block must not stay parked at a gate
	// (3) a free-running execution with seeded random delays, recorded for Trace_ParallelExec
	fr, fres := runFree(e, in, in.Level, h+4, &f, rand.New(rand.NewSource(in.Salt+int64(caseNo))))
	if fres != "" {
		hash := judge(e, "parexec", in.Level, fr, fres, wantPar, failingPar, seq, in, &f)
		if fres == "ok" && sres == "ok" && string(hash) != string(seqHash) {
			f.set(true, "parexec:state-hash-differs", fmt.Sprintf("state hash after free-running concurrent execution (level %d) differs from the sequential executor's", in.Level))
		}
		for _, rd := range fr.reads {
			if rd.T <= seq.First && rd.Val != seq.Reads[rd.T-1][rd.I-1] {
				f.set(true, "parexec:read-not-sequential"+wrSuffix(in, rd.T, rd.A), fmt.Sprintf("free-running concurrent execution (level %d): tx %d operation %d read %s = %d, sequential execution gives %d",
					in.Level, rd.T, rd.I, rd.A, rd.Val, seq.Reads[rd.T-1][rd.I-1]))
			}
		}
		if !fr.didCancel && cancelPoint(in) == 0 {
			trace = traceOf(fr, in.K, fres)
		}
	}
	return f, trace
}

// judge evaluates the verdict-bearing predicates on the outcome of one real execution.
func judge(e *env, who string, level int, r *blockRun, res, want string, failing int, seq *seqRef, in input, f *finding) []byte {
	if r.didCancel {
		// a cancelled transition reports nothing and has no result
		if res != "cancelled" {
			f.set(true, who+":result-after-cancel", fmt.Sprintf("%s (level %d): the canceler returned true while transactions were in flight, "+
				"afterwards the transition still reported %q", who, level, res))
		} else if r.tr.Result() != nil {
			f.set(true, who+":result-after-cancel", fmt.Sprintf("%s (level %d): a cancelled transition has a result", who, level))
		}
		return nil
	}
	if res == "cancelled" {
		f.set(false, "", fmt.Sprintf("%s (level %d): the transition reported nothing although it was not cancelled", who, level))
		return nil
	}
	if res != want {
		if res == "ok" {
			f.set(true, who+":fatal-error-not-latched", fmt.Sprintf("%s (level %d): tx %d of %d fails with a non-retryable / retry-exhausted error (fate %s) "+
				"but the block is reported as executed", who, level, failing, in.K, r.progs[failing-1].Fate))
		} else {
			f.set(true, who+":spurious-failure", fmt.Sprintf("%s (level %d): the block fails although no transaction fails", who, level))
		}
		return nil
	}
	if res != "ok" {
		return nil
	}
	bal, hash, n, err := e.balances(r)
	if err != nil {
		f.set(false, "", "cannot read the result: "+err.Error())
		return nil
	}
	if n != in.K {
		f.set(true, who+":receipt-missing", fmt.Sprintf("%s (level %d): %d receipts for %d transactions", who, level, n, in.K))
	}
	for a, v := range seq.Final {
		if bal[a] != v {
			f.set(true, who+":final-state-differs", fmt.Sprintf("%s (level %d): final value of %s is %d, sequential execution gives %d", who, level, a, bal[a], v))
		}
	}
	return hash
}

func sig(in input) string {
	var b strings.Builder
	fmt.Fprintf(&b, "L%d;", in.Level)
	for _, s := range in.Steps {
		fmt.Fprintf(&b, "%s%d.%d", s.Op[:2], s.T, s.I)
		if s.Op == "top" {
			fmt.Fprintf(&b, "%v%v%v%v%v%s", s.Prog.World, s.Prog.Ens, s.Prog.Twice, s.Prog.Lock, s.Prog.Ops, s.Prog.Fate)
		}
		b.WriteByte(';')
	}
	return b.String()
}

// ---------------------------------------------------------------- child: executes cases [from, ...)

func TestChild(t *testing.T) {
	from, err := strconv.Atoi(os.Getenv("VERIF_CHILD_FROM"))
	if err != nil || !tlaio.HaveInput() {
		t.Skip("child of TestReplay")
	}
	out := tlaio.OpenOut()
	rnd := tlaio.Rand()
	e := newEnv()
	err = tlaio.ReadInput(func(idx int, raw json.RawMessage) error {
		var in input
		if err := json.Unmarshal(raw, &in); err != nil {
			return err
		}
		// the concretization is drawn for every case so that it does not depend on where the child started
		salt, plt, rerun := rnd.Int63n(1<<40), rnd.Intn(2) == 0, rnd.Intn(2) == 0
		if in.Plt == nil {
			in.Salt, in.Plt, in.Rerun = salt, &plt, &rerun
		}
		if idx < from || !tlaio.Mine(idx) {
			return nil
		}
		id := fmt.Sprintf("b%d", idx)
		fmt.Printf("CASE %d\n", idx)
		detail := map[string]interface{}{"behaviour": in}
		f, trace := runCase(e, in, idx, out, id, detail)
		switch {
		case f.violation:
			out.Violation(id, f.key, f.what, detail)
		case f.what != "":
			out.Divergence(id, f.what, detail)
		default:
			out.Emit(tlaio.Record{Case: id, Status: "ok", Nontrivial: true, Sig: sig(in),
				Extra: map[string]interface{}{"trace": trace, "level": in.Level}})
		}
		fmt.Printf("DONE %d\n", idx)
		return nil
	})
	if err != nil {
		t.Fatal(err)
	}
	fmt.Printf("ALLDONE\n")
}

// ---------------------------------------------------------------- parent

func TestReplay(t *testing.T) {
	if !tlaio.HaveInput() {
		t.Skip("driven by tools/check.py")
	}
	out := tlaio.OpenOut() // appended to by the children as well; the parent writes between children only
	from := 0
	crashes := 0
	for {
		args := []string{"-test.run", "^TestChild$", "-test.count=1", "-test.timeout", "3000s"}
		if fl := flag.Lookup("test.coverprofile"); fl != nil && fl.Value.String() != "" {
			// coverage diagnostic: the children execute the code under test, each writes its own profile
			args = append(args, "-test.coverprofile", strings.TrimSuffix(fl.Value.String(), ".cover")+fmt.Sprintf(".child%d.cover", from))
		}
		cmd := exec.Command(os.Args[0], args...)
		cmd.Env = append(os.Environ(), fmt.Sprintf("VERIF_CHILD_FROM=%d", from))
		stdout, err := cmd.StdoutPipe()
		if err != nil {
			t.Fatal(err)
		}
		var errBuf strings.Builder
		cmd.Stderr = &errBuf
		if err := cmd.Start(); err != nil {
			t.Fatal(err)
		}
		last, lastDone, all := -1, -1, false
		var tail []string
		sc := bufio.NewScanner(stdout)
		sc.Buffer(make([]byte, 1<<20), 1<<20)
		for sc.Scan() {
			ln := sc.Text()
			switch {
			case strings.HasPrefix(ln, "CASE "):
				last, _ = strconv.Atoi(ln[5:])
			case strings.HasPrefix(ln, "DONE "):
				lastDone, _ = strconv.Atoi(ln[5:])
			case ln == "ALLDONE":
				all = true
			default:
				tail = append(tail, ln)
				if len(tail) > 30 {
					tail = tail[1:]
				}
			}
		}
		werr := cmd.Wait()
		if all && werr == nil {
			break
		}
		if last < 0 || last == lastDone {
			t.Fatalf("child died outside a case (from=%d, err=%v)\n%s\n%s", from, werr, strings.Join(tail, "\n"), errBuf.String())
		}
		// the child died while executing case `last`: a crash of the code under test
		crashes++
		msg := firstPanic(errBuf.String() + "\n" + strings.Join(tail, "\n"))
		id := fmt.Sprintf("b%d", last)
		key, where, detail := beginOf(id)
		stack := errBuf.String() + "\n" + strings.Join(tail, "\n")
		if strings.Contains(stack, "worldVirtualState).Reset") && strings.Contains(stack, "accountStateImpl).Reset") {
			// wvs.Reset on a retry: Reset(nil) of a write-locked account that does not exist in the base snapshot
			key = "parexec:crash:retry-reset-of-new-account"
			msg = "log.Panicf in accountStateImpl.Reset(nil) called from worldVirtualState.Reset while retrying a transaction"
		}
		out.Violation(id, key, "process crashed ("+where+"): "+msg, detail)
		from = last + 1
	}
	out.Close(map[string]int{"crashes": crashes})
}

// beginOf finds the BEGIN record the child wrote for a case (key of the input class, concretized input).
func beginOf(id string) (string, string, interface{}) {
	f, err := os.Open(os.Getenv("VERIF_OUT"))
	if err != nil {
		return "parexec:crash", "", nil
	}
	defer f.Close()
	key, where, detail := "parexec:crash", "", interface{}(nil)
	sc := bufio.NewScanner(f)
	sc.Buffer(make([]byte, 1<<24), 1<<24)
	for sc.Scan() {
		var r tlaio.Record
		if json.Unmarshal(sc.Bytes(), &r) == nil && r.Status == "begin" && r.Case == id {
			key, where, detail = r.Key, r.What, r.Detail
		}
	}
	return key, where, detail
}

func firstPanic(s string) string {
	for _, ln := range strings.Split(s, "\n") {
		if strings.HasPrefix(ln, "panic:") || strings.HasPrefix(ln, "fatal error:") {
			return ln
		}
	}
	return "process died"
}
