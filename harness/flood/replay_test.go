package flood

// Replays behaviours of spec/net/Flood.tla into the real PeerToPeer.onPacket + PacketPool (C33).
// A PeerToPeer with a pool of the spec's geometry and hand-made peers (hook VerifNewFlood) receives
// each packet of the behaviour through the peer named by the behaviour; every packet first goes
// through the real PacketWriter/PacketReader so that its hash is the one taken from the wire.
// The oracle is the TLA+ text: each step carries the predicted outcome (deliver / drop:<reason> /
// close:proto); the driver only maps abstract ids to bytes and counts callback invocations.

import (
	"bytes"
	"encoding/json"
	"fmt"
	"math/rand"
	"strings"
	"testing"

	"github.com/icon-project/goloop/network"

	"verifharness/tlaio"
)

type step struct {
	Op    string              `json:"op"`
	Role  map[string][]string `json:"role"`     // claimed roles
	Allow []string            `json:"allow"`    // the node's validator set
	Res2  map[string][]string `json:"resolved"` // resolved roles predicted by the spec
	Ctype map[string]string   `json:"ctype"`
	NB    int                 `json:"nb"`
	LB    int                 `json:"lb"`
	Via   string              `json:"via"`
	Src   string              `json:"src"`
	Dest  string              `json:"dest"`
	TTL   int                 `json:"ttl"`
	Body  int                 `json:"body"`
	Proto string              `json:"proto"`
	Res   string              `json:"res"`
}

type verdict struct {
	key, what string
	violation bool
}

const (
	protoOK  = 0x0500 // an application protocol the peers speak
	protoUnk = 0x0600 // one they do not
)

var ctypes = map[string][]byte{
	"none":     {network.VerifConnTypeNone},
	"parent":   {network.VerifConnTypeParent},
	"children": {network.VerifConnTypeChildren},
	"friend":   {network.VerifConnTypeFriend},
	"other":    {network.VerifConnTypeOther},
}

func runBehaviour(steps []step, rnd *rand.Rand) *verdict {
	if len(steps) == 0 || steps[0].Op != "cfg" {
		return &verdict{"flood:driver", "behaviour does not start with a configuration", false}
	}
	cfg := steps[0]
	ids := map[string][]byte{}
	for _, n := range []string{"self", "x", "p1", "p2", "p3"} {
		b := make([]byte, 20)
		rnd.Read(b)
		ids[n] = b
	}
	f := network.VerifNewFlood(ids["self"], uint8(cfg.NB), uint16(cfg.LB), protoOK)
	var allowed [][]byte
	for _, n := range cfg.Allow {
		allowed = append(allowed, ids[n])
	}
	f.SetAllowedRoots(allowed...)
	roleCode := func(l []string) (role byte) {
		for _, r := range l {
			if r == "seed" {
				role |= network.VerifRoleSeed
			} else if r == "root" {
				role |= network.VerifRoleRoot
			}
		}
		return
	}
	peers := map[string]int{}
	for _, n := range []string{"p1", "p2", "p3"} {
		ct := ctypes[cfg.Ctype[n]]
		// the peer claims cfg.Role[n]; the node resolves the claim against its validator set (real resolveRole)
		i, resolved := f.AddPeerClaiming(ids[n], roleCode(cfg.Role[n]), ct[rnd.Intn(len(ct))], protoOK)
		peers[n] = i
		if resolved != roleCode(cfg.Res2[n]) {
			return &verdict{"flood:resolve-role", fmt.Sprintf("peer %s claims %v, validator set %v: resolved role %d, spec says %v", n, cfg.Role[n], cfg.Allow, resolved, cfg.Res2[n]), false}
		}
	}
	salt := byte(rnd.Intn(256))
	ttl1 := byte(1 + rnd.Intn(255)) // the concrete non-zero ttl of this run
	for i, s := range steps[1:] {
		var dest byte
		switch s.Dest {
		case "any":
			dest = network.VerifDestAny
		case "root":
			dest = network.VerifDestRoot
		case "seed":
			dest = network.VerifDestSeed
		case "peer":
			dest = network.VerifDestPeer
		}
		var ttl byte
		if s.TTL != 0 {
			ttl = ttl1
		}
		proto := uint16(protoOK)
		if s.Proto != "ok" {
			proto = protoUnk
		}
		payload := bytes.Repeat([]byte{byte(s.Body), salt}, 1+s.Body*3)
		// sender side: build and serialize; receiver side: parse (hash comes from the footer)
		var wire bytes.Buffer
		spkt := network.VerifNewPacket(network.VerifPacket{Protocol: proto, SubProtocol: 0x0100, Src: ids[s.Src], Dest: dest, TTL: ttl, Payload: payload})
		if err := network.NewPacketWriter(&wire).WritePacket(spkt); err != nil {
			return &verdict{"flood:driver", "WritePacket: " + err.Error(), false}
		}
		pkt, err := network.NewPacketReader(&wire).ReadPacket()
		if err != nil {
			return &verdict{"flood:driver", "ReadPacket: " + err.Error(), false}
		}
		before := f.DeliveredCount()
		f.OnPacket(peers[s.Via], pkt)
		n := f.DeliveredCount() - before
		closed := f.PeerClosed(peers[s.Via])
		desc := fmt.Sprintf("step %d: packet{src=%s dest=%s ttl=%d body=%d proto=%s} via %s (claims %v, validator set %v, resolved %v, conn %s)", i, s.Src, s.Dest, ttl, s.Body, s.Proto, s.Via, cfg.Role[s.Via], cfg.Allow, cfg.Res2[s.Via], cfg.Ctype[s.Via])
		if n > 1 {
			return &verdict{"flood:delivered-twice", desc + fmt.Sprintf(": callback invoked %d times for one packet", n), true}
		}
		switch {
		case s.Res == "deliver":
			if n != 1 {
				return &verdict{"flood:not-delivered", desc + ": spec says deliver, callback not invoked", false}
			}
			d := f.Delivered[len(f.Delivered)-1]
			if d.Peer != peers[s.Via] || !bytes.Equal(d.Packet.Src, ids[s.Src]) || !bytes.Equal(d.Packet.Payload, payload) || d.Packet.Dest != dest || d.Packet.TTL != ttl {
				return &verdict{"flood:delivered-other", desc + ": callback received a different packet/peer", true}
			}
		default:
			if n != 0 {
				// the real node handed over a packet the spec refuses: the reason names the violated clause
				return &verdict{"flood:delivered:" + strings.TrimPrefix(strings.TrimPrefix(s.Res, "drop:"), "close:"), desc + ": spec says " + s.Res + ", but the callback was invoked", true}
			}
		}
		if (s.Res == "close:proto") != closed {
			return &verdict{"flood:peer-close", desc + fmt.Sprintf(": peer closed=%v, spec says %s", closed, s.Res), false}
		}
	}
	return nil
}

func TestReplay(t *testing.T) {
	if !tlaio.HaveInput() {
		t.Skip("driven by tools/check.py")
	}
	out := tlaio.OpenOut()
	rnd := tlaio.Rand()
	err := tlaio.ReadInput(func(idx int, raw json.RawMessage) error {
		var steps []step
		sub := rnd.Int63()
		if err := json.Unmarshal(raw, &steps); err != nil {
			var rp struct {
				Behaviour []step `json:"behaviour"`
				Sub       int64  `json:"sub"`
			}
			if err2 := json.Unmarshal(raw, &rp); err2 != nil || rp.Behaviour == nil {
				return err
			}
			steps, sub = rp.Behaviour, rp.Sub
		}
		if !tlaio.Mine(idx) {
			return nil
		}
		sig, nontrivial := "", false
		for _, s := range steps {
			if s.Op == "cfg" {
				sig += fmt.Sprintf("%v%v%v%d%d|", s.Role, s.Allow, s.Ctype, s.NB, s.LB)
				continue
			}
			sig += fmt.Sprintf("%s<%s,%s,%d,%d,%s;", s.Via, s.Src, s.Dest, s.TTL, s.Body, s.Proto[:1])
			if s.Res == "deliver" || s.Res == "drop:duplicate" {
				nontrivial = true
			}
		}
		id := fmt.Sprintf("b%d", idx)
		v := runBehaviour(steps, rand.New(rand.NewSource(sub)))
		detail := map[string]interface{}{"behaviour": steps, "sub": sub}
		if v == nil {
			out.OK(id, nontrivial, sig)
		} else if v.violation {
			out.Violation(id, v.key, v.what, detail)
		} else {
			out.Divergence(id, v.key+": "+v.what, detail)
		}
		return nil
	})
	if err != nil {
		t.Fatal(err)
	}
	out.Close(nil)
}
