package blockbinding

// Replays the cases of spec/chain/BlockBinding.tla into the real block decoder (C08).  The oracle is
// the TLA+ text: a case names the shape of the attacked block X and of the donor block Y, where each
// part of the stream comes from (X, Y, empty) or how the byte stream is damaged, and the predicted
// verdict.  The driver takes real finalized blocks of two real chains (test nodes with a BTP network),
// recombines their real encodings at the V2HeaderFormat/V2BodyFormat level or damages the bytes, and
// feeds the stream to BlockManager.NewBlockDataFromReader and BlockDataFactory.NewBlockDataFromReader
// (block/handlerv2.go).  Independently of the prediction, whatever the decoder accepts is checked
// against the literal statement of C08: the decoded parts hash to what the stream's header commits to,
// and a node's own encoding round-trips with the same id and bytes.

import (
	"bytes"
	"encoding/json"
	"fmt"
	"hash/fnv"
	"io"
	"math/rand"
	"os"
	"runtime/debug"
	"sort"
	"strings"
	"testing"
	"time"

	"github.com/icon-project/goloop/block"
	"github.com/icon-project/goloop/chain/base"
	"github.com/icon-project/goloop/common"
	"github.com/icon-project/goloop/common/codec"
	"github.com/icon-project/goloop/common/crypto"
	"github.com/icon-project/goloop/consensus"
	"github.com/icon-project/goloop/module"
	"github.com/icon-project/goloop/service"
	"github.com/icon-project/goloop/service/platform/basic"
	"github.com/icon-project/goloop/test"

	"verifharness/chainimport"
	"verifharness/tlaio"
)

type shape struct {
	Ntx   string `json:"ntx"`
	Votes string `json:"votes"`
	Btp   string `json:"btp"`
}

func (s shape) key() string { return s.Ntx + s.Votes + s.Btp }

type damage struct {
	Class string `json:"class"`
	K     int    `json:"k"`
}

type step struct {
	Op   string            `json:"op"`
	X    shape             `json:"x"`
	Y    shape             `json:"y"`
	Src  map[string]string `json:"src"`
	Dmg  damage            `json:"dmg"`
	Res  string            `json:"res"`
	Bad  []string          `json:"bad"`
	Rd   string            `json:"rd"`
	Hres string            `json:"hres"`
}

// streamReader hides Seek and Peek: the bytes arrive as from a connection
type streamReader struct{ r io.Reader }

func (s streamReader) Read(p []byte) (int, error) { return s.r.Read(p) }

const dsa = "ecdsa/secp256k1"

type chain struct {
	c      *chainimport.Chain
	blocks map[string]module.Block // by shape
	fmts   map[string]*chainimport.Formats
}

// buildChain grows a real chain with one block of every shape: block 1 with a transaction (opens a
// BTP network), an empty block, a block with a BTP message transaction, a block with a transaction and
// the digest of the previous message, a block with a digest only.
func buildChain(rnd *rand.Rand) (*chain, error) {
	c, err := chainimport.NewChain(chainimport.NewWallets(1))
	if err != nil {
		return nil, err
	}
	n := c.Node
	ch := &chain{c: c, blocks: map[string]module.Block{}, fmts: map[string]*chainimport.Formats{}}
	msg := func() string {
		b := make([]byte, 8+rnd.Intn(24))
		rnd.Read(b)
		return fmt.Sprintf("0x%x", b)
	}
	record := func() error {
		blk := n.LastBlock
		bd, err := blk.BTPDigest()
		if err != nil {
			return err
		}
		s := shape{"e", "v", "e"}
		if hasTx(blk) {
			s.Ntx = "c"
		}
		if blk.Height() == 1 {
			s.Votes = "e"
		}
		if len(bd.Bytes()) > 0 {
			s.Btp = "d"
		}
		hf, bf, err := block.FormatFromBlock(blk)
		if err != nil {
			return err
		}
		ch.blocks[s.key()] = blk
		ch.fmts[s.key()] = &chainimport.Formats{HF: *hf, BF: *bf}
		return nil
	}
	n.ProposeFinalizeBlockWithTX(consensus.NewEmptyCommitVoteList(),
		test.NewTx().Call("setRevision", map[string]string{"code": fmt.Sprintf("0x%x", basic.MaxRevision)}).
			CallFrom(n.CommonAddress(), "setBTPPublicKey", map[string]string{
				"name": dsa, "pubKey": fmt.Sprintf("0x%x", n.Chain.WalletFor(dsa).PublicKey())}).
			Call("openBTPNetwork", map[string]string{"networkTypeName": "eth", "name": "eth-test",
				"owner": n.CommonAddress().String()}).String())
	if err := record(); err != nil { // c e e
		return nil, err
	}
	n.ProposeFinalizeBlock(n.NewVoteListForLastBlock())
	if err := record(); err != nil { // e v e (or with the digest of the network opening)
		return nil, err
	}
	send := func() string {
		return n.NewTx().CallFrom(n.CommonAddress(), "sendBTPMessage", map[string]string{"networkId": "0x1", "message": msg()}).String()
	}
	n.ProposeFinalizeBlock(n.NewVoteListForLastBlock())
	if err := record(); err != nil {
		return nil, err
	}
	n.ProposeFinalizeBlockWithTX(n.NewVoteListForLastBlock(), send()) // c v e
	if err := record(); err != nil {
		return nil, err
	}
	n.ProposeFinalizeBlockWithTX(n.NewVoteListForLastBlock(), send()) // c v d
	if err := record(); err != nil {
		return nil, err
	}
	n.ProposeFinalizeBlock(n.NewVoteListForLastBlock()) // e v d
	if err := record(); err != nil {
		return nil, err
	}
	n.ProposeFinalizeBlock(n.NewVoteListForLastBlock()) // e v e
	if err := record(); err != nil {
		return nil, err
	}
	if len(c.T.Errs) > 0 {
		return nil, fmt.Errorf("chain setup: %v", c.T.Errs)
	}
	for _, k := range []string{"cee", "eve", "cve", "evd", "cvd"} {
		if ch.blocks[k] == nil {
			have := []string{}
			for x := range ch.blocks {
				have = append(have, x)
			}
			return nil, fmt.Errorf("chain setup produced no block of shape %s (have %v)", k, have)
		}
	}
	return ch, nil
}

func hasTx(blk module.Block) bool {
	it := blk.NormalTransactions().Iterator()
	return it.Has()
}

// hung is reported by call when the decoder does not return: the goroutine keeps running (and may keep allocating),
// so the driver stops after recording the case.
const hung = "HUNG"

func call(f func() (module.BlockData, error)) (bd module.BlockData, err error, panicked string) {
	type res struct {
		bd  module.BlockData
		err error
		p   string
	}
	ch := make(chan res, 1)
	go func() {
		var r res
		defer func() {
			if x := recover(); x != nil {
				r.p = fmt.Sprintf("%v\n%s", x, debug.Stack())
			}
			ch <- r
		}()
		r.bd, r.err = f()
	}()
	select {
	case r := <-ch:
		return r.bd, r.err, r.p
	case <-time.After(3 * time.Second):
		return nil, nil, hung
	}
}

// fieldEnds returns the offsets (relative to the start of the list encoding) at which the top-level items of
// an RLP list end, preceded by the end of the list prefix.
func fieldEnds(enc []byte, fields [][]byte) ([]int, int, error) {
	total := 0
	for _, f := range fields {
		total += len(f)
	}
	prefix := len(enc) - total
	if prefix < 1 || prefix > 9 {
		return nil, 0, fmt.Errorf("unexpected list prefix length %d", prefix)
	}
	ends := []int{}
	off := prefix
	for _, f := range fields {
		if !bytes.Equal(enc[off:off+len(f)], f) {
			return nil, 0, fmt.Errorf("field encoding mismatch at %d", off)
		}
		off += len(f)
		ends = append(ends, off)
	}
	return ends, prefix, nil
}

func enc(v interface{}) []byte { return codec.BC.MustMarshalToBytes(v) }

func headerFields(h *block.V2HeaderFormat) [][]byte {
	fs := [][]byte{enc(h.Version), enc(h.Height), enc(h.Timestamp), enc(h.Proposer), enc(h.PrevID), enc(h.VotesHash),
		enc(h.NextValidatorsHash), enc(h.PatchTransactionsHash), enc(h.NormalTransactionsHash), enc(h.LogsBloom), enc(h.Result)}
	if h.NSFilter != nil {
		fs = append(fs, enc(h.NSFilter))
	}
	return fs
}

func bodyFields(b *block.V2BodyFormat) [][]byte {
	fs := [][]byte{enc(b.PatchTransactions), enc(b.NormalTransactions), enc(b.Votes)}
	if b.BTPDigest != nil {
		fs = append(fs, enc(b.BTPDigest))
	}
	return fs
}

// inflate adds one to the payload length declared by the RLP list prefix at the start of enc.
func inflate(e []byte) []byte {
	out := append([]byte(nil), e...)
	if out[0] >= 0xc0 && out[0] < 0xf7 {
		out[0]++
		return out
	}
	n := int(out[0] - 0xf7)
	for i := n; i >= 1; i-- {
		out[i]++
		if out[i] != 0 {
			break
		}
	}
	return out
}

func flipTag(b byte) byte {
	switch {
	case b >= 0xc0:
		return b - 0x40
	case b >= 0x80:
		return b + 0x40
	default:
		return 0xc0 | (b & 0x3f)
	}
}

func sigOf(s step) string {
	return fmt.Sprintf("%s|%s|%s|p%s n%s v%s b%s f%s|%s%d", s.Rd, s.X.key(), s.Y.key(), s.Src["ptx"], s.Src["ntx"], s.Src["votes"],
		s.Src["btp"], s.Src["nsf"], s.Dmg.Class, s.Dmg.K)
}

func firstLine(s string) string {
	if i := strings.IndexByte(s, '\n'); i >= 0 {
		return s[:i]
	}
	return s
}

func TestReplay(t *testing.T) {
	if !tlaio.HaveInput() {
		t.Skip("driven by tools/check.py")
	}
	os.Setenv("TMPDIR", tlaio.ScratchDir())
	out := tlaio.OpenOut()
	rnd := tlaio.Rand()
	A, err := buildChain(rnd)
	if err != nil {
		t.Fatal(err)
	}
	defer A.c.Close()
	B, err := buildChain(rnd)
	if err != nil {
		t.Fatal(err)
	}
	defer B.c.Close()
	hdl := block.NewBlockV2Handler(A.c.Node.Chain)
	bdf, err := block.NewBlockDataFactory(A.c.Node.Chain, []base.BlockHandler{hdl})
	if err != nil {
		t.Fatal(err)
	}
	perKey := map[string]int{}
	violation := func(id, key, what string, det interface{}) {
		perKey[key]++
		if perKey[key] <= 8 {
			out.Violation(id, key, what, det)
		}
	}
	err = tlaio.ReadInput(func(idx int, raw json.RawMessage) error {
		if !tlaio.Mine(idx) {
			return nil
		}
		var steps []step
		if err := json.Unmarshal(raw, &steps); err != nil {
			return err
		}
		s := steps[0]
		id := fmt.Sprintf("c%d", idx)
		h := fnv.New64a()
		h.Write([]byte(sigOf(s)))
		crnd := rand.New(rand.NewSource(tlaio.Seed() ^ int64(h.Sum64()>>1)))
		X, Y := A.fmts[s.X.key()], B.fmts[s.Y.key()]
		xblk := A.blocks[s.X.key()]
		if X == nil || Y == nil {
			return fmt.Errorf("case %d: no real block of shape %s / %s", idx, s.X.key(), s.Y.key())
		}
		if X.HF.NSFilter != nil && Y.HF.NSFilter != nil && !bytes.Equal(X.HF.NSFilter, Y.HF.NSFilter) {
			return fmt.Errorf("case %d: the filters of two non-empty digests differ (model assumes one BTP network)", idx)
		}
		f := X.Clone()
		nonCanon := ""
		for p, src := range s.Src {
			if src == "X" {
				continue
			}
			garbage := func() []byte {
				g := make([]byte, 3+crnd.Intn(60))
				crnd.Read(g)
				g[0] = 0xf9 // an RLP list header that promises more than there is
				return g
			}
			if src == "N" {
				// X's own vote list, written non-canonically, under a header that commits to exactly those bytes
				nb, how, err := nonCanonicalVotes(crnd, X.BF.Votes)
				if err != nil {
					return fmt.Errorf("case %d: %v", idx, err)
				}
				if cvs := consensus.NewCommitVoteSetFromBytes(nb); cvs == nil || bytes.Equal(nb, X.BF.Votes) {
					return fmt.Errorf("case %d: the %s form of the vote list is not a second encoding of a vote list", idx, how)
				}
				f.BF.Votes = nb
				f.HF.VotesHash = crypto.SHA3Sum256(nb)
				nonCanon = how
				continue
			}
			if src == "G" {
				switch p {
				case "ptx":
					f.BF.PatchTransactions = [][]byte{garbage()}
				case "ntx":
					f.BF.NormalTransactions = append(append([][]byte{}, f.BF.NormalTransactions...), garbage())
				case "votes":
					f.BF.Votes = garbage()
				case "btp":
					// not a digest: random bytes, or a real digest cut short / with a list length that does not fit
					real := X.BF.BTPDigest
					if len(real) == 0 {
						real = Y.BF.BTPDigest
					}
					switch v := crnd.Intn(3); {
					case v == 0 || len(real) < 4:
						f.BF.BTPDigest = garbage()
					case v == 1:
						f.BF.BTPDigest = append([]byte{}, real[:len(real)/2+crnd.Intn(len(real)/2)]...)
					default:
						g := append([]byte{}, real...)
						g[1]--
						f.BF.BTPDigest = g
					}
				}
				continue
			}
			switch p {
			case "ptx":
				f.BF.PatchTransactions = [][]byte{}
				if src == "Y" {
					f.BF.PatchTransactions = append([][]byte{}, Y.BF.NormalTransactions...)
				}
			case "ntx":
				f.BF.NormalTransactions = [][]byte{}
				if src == "Y" {
					f.BF.NormalTransactions = append([][]byte{}, Y.BF.NormalTransactions...)
				}
			case "votes":
				f.BF.Votes = consensus.NewEmptyCommitVoteList().Bytes()
				if src == "Y" {
					f.BF.Votes = Y.BF.Votes
				}
			case "btp":
				f.BF.BTPDigest = nil
				if src == "Y" {
					f.BF.BTPDigest = Y.BF.BTPDigest
				}
			case "nsf":
				f.HF.NSFilter = nil
				if src == "Y" {
					f.HF.NSFilter = Y.HF.NSFilter
				}
			default:
				return fmt.Errorf("unknown part %q", p)
			}
		}
		hEnc, bEnc := enc(&f.HF), enc(&f.BF)
		stream := append(append([]byte{}, hEnc...), bEnc...)
		if s.Dmg.Class != "none" {
			hEnds, _, err := fieldEnds(hEnc, headerFields(&f.HF))
			if err != nil {
				return fmt.Errorf("case %d header: %v", idx, err)
			}
			bEnds, _, err := fieldEnds(bEnc, bodyFields(&f.BF))
			if err != nil {
				return fmt.Errorf("case %d body: %v", idx, err)
			}
			// ends[i] = end of top-level field i (1-based) in the stream; starts[i] = its first byte
			ends := []int{0}
			starts := []int{0}
			last := hEnds[0] - len(headerFields(&f.HF)[0])
			for _, e := range hEnds {
				starts = append(starts, last)
				ends = append(ends, e)
				last = e
			}
			last = len(hEnc) + bEnds[0] - len(bodyFields(&f.BF)[0])
			for _, e := range bEnds {
				starts = append(starts, last)
				ends = append(ends, len(hEnc)+e)
				last = len(hEnc) + e
			}
			nf := len(ends) - 1
			fi := func(k int) int { // abstract field index -> real field index (1..nf)
				if k > nf {
					return nf
				}
				if k < 1 {
					return 1
				}
				return k
			}
			if strings.HasPrefix(s.Dmg.Class, "hdr:") {
				hs, err := mutateHeader(crnd, &f.HF, hEnc, s.Dmg.Class)
				if err != nil {
					return fmt.Errorf("case %d: %v", idx, err)
				}
				stream = append(hs, bEnc...)
			}
			switch s.Dmg.Class {
			case "cut":
				if s.Dmg.K < 16 {
					k := s.Dmg.K
					if k >= nf {
						k = nf - 1
					}
					stream = stream[:ends[k]]
				}
			case "cutmid":
				i := fi(s.Dmg.K)
				stream = stream[:(starts[i]+ends[i])/2]
			case "inflate":
				if s.Dmg.K == 1 {
					stream = append(inflate(hEnc), bEnc...)
				} else {
					stream = append(append([]byte{}, hEnc...), inflate(bEnc)...)
				}
			case "fliptag":
				i := fi(s.Dmg.K)
				stream[starts[i]] = flipTag(stream[starts[i]])
			case "tail":
				tail := make([]byte, 1+crnd.Intn(40))
				crnd.Read(tail)
				stream = append(stream, tail...)
			default:
				if !strings.HasPrefix(s.Dmg.Class, "hdr:") {
					return fmt.Errorf("unknown damage class %q", s.Dmg.Class)
				}
			}
		}
		out.Begin(id, "decode:crash:"+s.Dmg.Class)
		if strings.HasPrefix(s.Dmg.Class, "hdr:") {
			// the header alone, as the node reads it back from its database (blockV2Handler.NewBlockFromHeaderReader)
			var herr error
			_, _, panicked := call(func() (module.BlockData, error) {
				_, herr = hdl.NewBlockFromHeaderReader(bytes.NewReader(stream[:len(stream)-len(bEnc)]))
				return nil, herr
			})
			hid := id + "/HeaderReader"
			hdet := map[string]interface{}{"behaviour": steps, "via": "NewBlockFromHeaderReader", "spec": s.Hres, "real": fmt.Sprint(herr)}
			switch {
			case panicked != "":
				hdet["panic"] = panicked
				violation(hid, "decode:panic:"+s.Dmg.Class, fmt.Sprintf("NewBlockFromHeaderReader panics on %s: %s", sigOf(s), firstLine(panicked)), hdet)
			case herr == nil && s.Hres == "reject":
				violation(hid, "decode:accepted:"+s.Dmg.Class, fmt.Sprintf("NewBlockFromHeaderReader accepts a header the spec rejects: %s", sigOf(s)), hdet)
			case herr != nil && s.Hres == "ok":
				out.Divergence(hid, fmt.Sprintf("NewBlockFromHeaderReader rejects a header the spec accepts: %s: %v", sigOf(s), herr), hdet)
			default:
				out.OK(hid, true, "HeaderReader:"+sigOf(s))
			}
		}
		for _, via := range []string{"BlockManager", "BlockDataFactory"} {
			bd, derr, panicked := call(func() (module.BlockData, error) {
				var rd io.Reader = bytes.NewReader(stream)
				if s.Rd == "stream" {
					rd = streamReader{bytes.NewReader(stream)}
				}
				if via == "BlockManager" {
					return A.c.Node.BM.NewBlockDataFromReader(rd)
				}
				return bdf.NewBlockDataFromReader(rd)
			})
			det := map[string]interface{}{"behaviour": steps, "via": via, "stream": fmt.Sprintf("%x", stream), "spec": s.Res, "noncanonical": nonCanon,
				"real": fmt.Sprint(derr), "x_height": xblk.Height()}
			cid := id + "/" + via
			if panicked == hung {
				out.Violation(cid, "decode:hang:"+mutated(s), fmt.Sprintf("%s.NewBlockDataFromReader does not return within 3 s on %s "+
					"(the decoder keeps running; the driver stops here)", via, sigOf(s)), det)
				out.Close(map[string]interface{}{"stopped_after_hang": cid})
				os.Exit(0)
			}
			if panicked != "" {
				det["panic"] = panicked
				violation(cid, "decode:panic:"+s.Dmg.Class, fmt.Sprintf("%s.NewBlockDataFromReader panics on %s: %s", via, sigOf(s), firstLine(panicked)), det)
				continue
			}
			if derr == nil && s.Res != "reject" {
				// where the spec accepts or only predicts "no crash": the literal statement of C08 on the real objects,
				// the decoded parts hash to what the stream's header commits to
				if why := unbound(bd, stream); why != "" {
					violation(cid, "decode:unbound:"+why, fmt.Sprintf("%s accepts %s but the decoded %s does not match the header", via, sigOf(s), why), det)
					continue
				}
			}
			switch {
			case derr == nil && s.Res == "reject":
				det["unbound"] = unbound(bd, stream)
				if s.Dmg.Class == "none" {
					det["header_roundtrip"] = headerRoundTrip(bd, hEnc)
				}
				violation(cid, "decode:accepted:"+mutated(s), fmt.Sprintf("%s.NewBlockDataFromReader accepts a stream the spec rejects: %s", via, sigOf(s)), det)
			case derr != nil && s.Res == "ok":
				out.Divergence(cid, fmt.Sprintf("%s.NewBlockDataFromReader rejects a stream the spec accepts: %s: %v", via, sigOf(s), derr), det)
			default:
				if derr == nil && s.Res == "ok" && s.Dmg.Class == "none" {
					// round trip: same id, same bytes
					var again bytes.Buffer
					if err := bd.Marshal(&again); err != nil || !bytes.Equal(bd.ID(), xblk.ID()) || !bytes.Equal(again.Bytes(), append(enc(&X.HF), enc(&X.BF)...)) {
						violation(cid, "decode:roundtrip", fmt.Sprintf("%s: decoded block differs from the encoded one (%s): id %x vs %x, marshal err %v",
							via, sigOf(s), bd.ID(), xblk.ID(), err), det)
						continue
					}
				}
				out.OK(cid, true, via+":"+sigOf(s))
			}
		}
		return nil
	})
	if err != nil {
		t.Fatal(err)
	}
	out.Close(map[string]interface{}{"violations_per_key": perKey})
}

// mutated labels a wrongly accepted stream by the parts that the spec says do not match the header
// (or by the damage class).
// rlpList wraps the concatenated item encodings in an RLP list prefix.
func rlpList(items [][]byte) []byte {
	var payload []byte
	for _, it := range items {
		payload = append(payload, it...)
	}
	n := len(payload)
	if n < 56 {
		return append([]byte{0xc0 + byte(n)}, payload...)
	}
	var lb []byte
	for x := n; x > 0; x >>= 8 {
		lb = append([]byte{byte(x)}, lb...)
	}
	return append(append([]byte{0xf7 + byte(len(lb))}, lb...), payload...)
}

// mutateHeader re-encodes the header with one field replaced by a malformed value of the given class; every other
// field keeps its real encoding, so all body hashes still match.
func mutateHeader(rnd *rand.Rand, h *block.V2HeaderFormat, hEnc []byte, class string) ([]byte, error) {
	fs := headerFields(h)
	if !bytes.Equal(rlpList(fs), hEnc) {
		return nil, fmt.Errorf("header re-assembly differs from the real encoding")
	}
	rb := func(n int) []byte {
		b := make([]byte, n)
		rnd.Read(b)
		if n > 0 && b[0] == 0 {
			b[0] = 1
		}
		return b
	}
	idx := map[string]int{"patchtxhash": 7, "normaltxhash": 8, "version": 0, "height": 1, "timestamp": 2, "proposer": 3, "previd": 4, "voteshash": 5,
		"nextvalidatorshash": 6, "logsbloom": 9, "result": 10, "nsfilter": 11}
	parts := strings.Split(class, ":")
	field, kind := parts[1], parts[2]
	i := idx[field]
	var v []byte
	switch field + ":" + kind {
	case "proposer:empty":
		v = enc([]byte{})
	case "proposer:nil":
		v = enc([]byte(nil))
	case "proposer:19":
		v = enc(rb(19))
	case "proposer:20":
		v = enc(rb(20))
	case "proposer:22":
		v = enc(append([]byte{0}, rb(21)...))
	case "proposer:type2":
		v = enc(append([]byte{2}, rb(20)...))
	case "proposer:type255":
		v = enc(append([]byte{0xff}, rb(20)...))
	case "version:other":
		v = enc([]int{0, 1, 3, 4, 77}[rnd.Intn(5)])
	case "version:long", "height:long", "timestamp:long":
		v = enc(rb([]int{9, 17, 33}[rnd.Intn(3)])) // an integer is a big-endian byte string: longer than 8 bytes
	case "nsfilter:odd":
		v = enc(rb([]int{1, 3, 33, 65}[rnd.Intn(4)]))
	default: // a hash of odd length
		v = enc(rb([]int{1, 31, 33}[rnd.Intn(3)]))
	}
	if i < len(fs) {
		fs[i] = v
	} else {
		fs = append(fs, v) // a filter where the block has none
	}
	return rlpList(fs), nil
}

// nonCanonicalVotes rewrites the encoding of a vote list without changing the list: a byte after the list, or the optional
// (empty) proof field written out.
func nonCanonicalVotes(rnd *rand.Rand, vb []byte) ([]byte, string, error) {
	type item struct {
		Timestamp int64
		Signature common.Signature
	}
	var three struct {
		Round int32
		BPSID *consensus.PartSetIDAndAppData
		Items []item
	}
	if rnd.Intn(2) == 0 {
		if _, err := codec.BC.UnmarshalFromBytes(vb, &three); err == nil {
			four := struct {
				Round  int32
				BPSID  *consensus.PartSetIDAndAppData
				Items  []item
				Proves [][]byte
			}{three.Round, three.BPSID, three.Items, [][]byte{}}
			nb, err := codec.BC.MarshalToBytes(&four)
			if err == nil && !bytes.Equal(nb, vb) {
				return nb, "explicit-empty-proofs", nil
			}
		}
	}
	return append(append([]byte{}, vb...), byte(rnd.Intn(256))), "trailing-byte", nil
}

// headerRoundTrip tells whether the decoded block has the id of, and re-encodes to, the header bytes it was decoded from.
func headerRoundTrip(bd module.BlockData, hdr []byte) string {
	var buf bytes.Buffer
	if err := bd.MarshalHeader(&buf); err != nil {
		return "marshal: " + err.Error()
	}
	if !bytes.Equal(buf.Bytes(), hdr) {
		return "re-encodes to another header"
	}
	if !bytes.Equal(bd.ID(), crypto.SHA3Sum256(hdr)) {
		return "id is not the hash of the header"
	}
	return ""
}

func mutated(s step) string {
	if s.Dmg.Class != "none" {
		return s.Dmg.Class
	}
	ps := append([]string{}, s.Bad...)
	sort.Strings(ps)
	return strings.Join(ps, "+")
}

// unbound names the first part of a decoded block that does not hash to the commitment in the header found
// at the start of the stream ("" if all parts are bound).
func unbound(bd module.BlockData, stream []byte) string {
	var hf block.V2HeaderFormat
	if _, err := codec.BC.UnmarshalFromBytes(stream, &hf); err != nil {
		return "header"
	}
	if !bytes.Equal(bd.PatchTransactions().Hash(), hf.PatchTransactionsHash) {
		return "patch-transactions"
	}
	if !bytes.Equal(bd.NormalTransactions().Hash(), hf.NormalTransactionsHash) {
		return "normal-transactions"
	}
	if !bytes.Equal(bd.Votes().Hash(), hf.VotesHash) {
		return "votes"
	}
	dg, err := bd.BTPDigest()
	if err != nil {
		return "btp-digest"
	}
	want, err := service.BTPDigestHashFromResult(hf.Result)
	if err != nil || !bytes.Equal(dg.Hash(), want) {
		return "btp-digest"
	}
	if !bytes.Equal(dg.NetworkSectionFilter().Bytes(), hf.NSFilter) {
		return "ns-filter"
	}
	return ""
}
