package chainimport

// Replays behaviours of spec/chain/BlockTree.tla into the real block manager (candidate tree,
// reference counting, finalization, readers, waiters).  The oracle is the TLA+ text: every step
// carries the predicted result and the predicted map of nodes with their reference counts.  The
// driver concretizes abstract blocks (paths below the starting block) with real Propose / Import of
// real blocks with real votes, keeps the real candidate handles, and reads the manager's map back
// through the read-only hook block.VerifTree.

import (
	"bytes"
	"encoding/json"
	"fmt"
	"os"
	"runtime/pprof"
	"sort"
	"strings"
	"testing"
	"time"

	"github.com/icon-project/goloop/block"
	"github.com/icon-project/goloop/consensus"
	"github.com/icon-project/goloop/module"

	"verifharness/tlaio"
)

type tstep struct {
	Op    string          `json:"op"`
	P     []int           `json:"p"`
	V     int             `json:"v"`
	H     int             `json:"h"`
	Nh    int             `json:"nh"`
	K     int             `json:"k"`
	N     []int           `json:"n"`
	Res   json.RawMessage `json:"res"`
	After struct {
		Fin     []int             `json:"fin"`
		Present [][]int           `json:"present"`
		Refs    []json.RawMessage `json:"refs"`
		Got     [][][]int         `json:"got"`
	} `json:"after"`
}

func pk(p []int) string { return fmt.Sprint(p) }

func (s *tstep) resString() string {
	var x string
	if json.Unmarshal(s.Res, &x) == nil {
		return x
	}
	return ""
}

func (s *tstep) resPath() ([]int, bool) {
	var x []int
	if json.Unmarshal(s.Res, &x) == nil {
		return x, true
	}
	return nil, false
}

type treeDriver struct {
	out     *tlaio.Out
	c       *Chain
	perKey  map[string]int
	dirty   bool
	abandon bool
}

func (d *treeDriver) violation(id, key, what string, det interface{}) {
	d.perKey[key]++
	if d.perKey[key] <= 8 {
		d.out.Violation(id, key, what, det)
	}
}

// lostCallback records a request that returned without error but whose callback did not arrive. It is not a
// statement of C07, so it is a divergence, kept visible with a goroutine dump; the node is replaced afterwards.
func (d *treeDriver) lostCallback(id string, step int, op string, p []int, det map[string]interface{}) error {
	var buf bytes.Buffer
	_ = pprof.Lookup("goroutine").WriteTo(&buf, 1)
	dump := buf.String()
	if len(dump) > 12000 {
		dump = dump[:12000]
	}
	det["goroutines"] = dump
	d.out.Divergence(id, fmt.Sprintf("step %d: %s on %v returned no error but its callback did not arrive within %v", step, op, p, callbackTimeout), det)
	d.abandon = true // the request may still complete: leave the handles alone and replace the node
	return nil
}

const callbackTimeout = 20 * time.Second

type pending struct {
	bc  module.BlockCandidate
	err error
}

// request issues Propose or Import and returns the canceler and the channel of the callback
func (d *treeDriver) propose(parent module.BlockData, vb []byte) (module.Canceler, chan pending, error) {
	ch := make(chan pending, 1)
	cn, err := d.c.Node.BM.Propose(parent.ID(), consensus.NewCommitVoteSetFromBytes(vb), func(bc module.BlockCandidate, err error) {
		ch <- pending{bc, err}
	})
	return cn, ch, err
}

func (d *treeDriver) importBytes(bs []byte) (module.Canceler, chan pending, error) {
	ch := make(chan pending, 1)
	cn, err := d.c.Node.BM.Import(bytes.NewReader(bs), 0, func(bc module.BlockCandidate, err error) {
		ch <- pending{bc, err}
	})
	return cn, ch, err
}

func wait(ch chan pending) (pending, bool) {
	select {
	case r := <-ch:
		return r, true
	case <-time.After(callbackTimeout):
		return pending{}, false
	}
}

func classify(err error) string {
	if err == nil {
		return "ok"
	}
	s := err.Error()
	switch {
	case strings.Contains(s, "NoParentBlock"), strings.Contains(s, "InvalidPreviousID"):
		return "noparent"
	case strings.Contains(s, "fail to get validators"):
		return "novoters"
	}
	return "other: " + s
}

func (d *treeDriver) run(idx int, steps []tstep) error {
	id := fmt.Sprintf("t%d", idx)
	// every behaviour starts from the finalized block alone; after a behaviour that ended in a mismatch the node is replaced
	if ns, fin, ok := block.VerifTree(d.c.Node.BM); !ok || len(ns) != 1 || !bytes.Equal(fin, d.c.Tip.ID()) || ns[0].NRef != 1 {
		if !d.dirty && !d.abandon {
			return fmt.Errorf("behaviour %d does not start from a clean tree although its predecessor conformed: %+v", idx, ns)
		}
		d.c.Close()
		nc, err := NewChain(NewWallets(len(d.c.Wallets)))
		if err != nil {
			return err
		}
		if err := advanceFromGenesis(nc, baseTs); err != nil {
			return err
		}
		d.c = nc
	}
	d.abandon = false
	d.out.Begin(id, "tree:crash") // a panic of the manager is attributed to this behaviour
	d.dirty = true                // cleared when the behaviour conforms to the end
	c := d.c
	bm := c.Node.BM
	root := c.Tip
	rootH := root.Height()
	nodes := map[string]module.BlockData{pk(nil): root, "[]": root}
	votes := map[string][]byte{}
	var template *Formats
	handles := map[int]module.BlockCandidate{}
	cancelers := map[int]module.Canceler{}
	var waits []<-chan module.Block
	gotWait := map[int]module.Block{}
	nh := 0
	det := func(i int, extra map[string]interface{}) map[string]interface{} {
		m := map[string]interface{}{"behaviour": steps, "step": i, "root_height": rootH}
		for k, v := range extra {
			m[k] = v
		}
		return m
	}
	defer func() {
		if d.abandon {
			return
		}
		for _, h := range handles {
			h.Dispose()
		}
	}()
	allVoters := make([]int, len(c.Wallets))
	for i := range allVoters {
		allVoters[i] = i
	}
	votesFor := func(parent module.BlockData, child []int, v int) ([]byte, error) {
		if vb, ok := votes[pk(child)]; ok {
			return vb, nil
		}
		tss := make([]int64, len(allVoters))
		for i := range tss {
			tss[i] = parent.Timestamp() + int64(v)
		}
		vb, err := c.VotesFor(parent, allVoters, tss)
		if err == nil {
			votes[pk(child)] = vb
		}
		return vb, err
	}
	for i, s := range steps {
		want := s.resString()
		switch s.Op {
		case "propose", "import", "importblock":
			parent := nodes[pk(s.P)]
			if parent == nil {
				return fmt.Errorf("behaviour %d step %d: parent %v was never created", idx, i, s.P)
			}
			child := append(append([]int{}, s.P...), s.V)
			vb, err := votesFor(parent, child, s.V)
			if err != nil {
				return err
			}
			var cn module.Canceler
			var ch chan pending
			var rerr error
			if s.Op == "propose" {
				cn, ch, rerr = d.propose(parent, vb)
			} else {
				// the encoded child: from a throw-away Propose when the parent can be extended, otherwise a patched template
				var f *Formats
				_, hch, herr := d.propose(parent, vb)
				if herr == nil {
					r, ok := wait(hch)
					if !ok {
						return d.lostCallback(id, i, "propose (to obtain the bytes for import)", s.P, det(i, nil))
					}
					if r.err == nil {
						if f, err = FormatsOf(r.bc); err != nil {
							return err
						}
						template = f.Clone()
						r.bc.Dispose()
					}
				}
				if f == nil {
					if template == nil {
						// any real block will do as raw material: a throw-away child of the last finalized block
						tvb, err := votesFor(c.Tip, []int{-1}, 1)
						if err != nil {
							return err
						}
						_, tch, terr := d.propose(c.Tip, tvb)
						if terr != nil {
							return fmt.Errorf("behaviour %d step %d: cannot make a template block: %v", idx, i, terr)
						}
						r, ok := wait(tch)
						if !ok {
							return d.lostCallback(id, i, "propose (template block)", nil, det(i, nil))
						}
						if r.err != nil {
							return fmt.Errorf("behaviour %d step %d: cannot make a template block: %v", idx, i, r.err)
						}
						if template, err = FormatsOf(r.bc); err != nil {
							return err
						}
						r.bc.Dispose()
					}
					f = template.Clone()
					f.HF.Height = parent.Height() + 1
					f.HF.PrevID = parent.ID()
					f.HF.Timestamp = parent.Timestamp() + int64(s.V)
					f.SetVotes(vb)
				}
				var enc bytes.Buffer
				enc.ReadFrom(f.Reader())
				if s.Op == "importblock" {
					// the decoded block, as consensus hands it over after assembling the block parts
					bd, derr := bm.NewBlockDataFromReader(bytes.NewReader(enc.Bytes()))
					if derr != nil {
						return fmt.Errorf("behaviour %d step %d: the child block does not decode: %v", idx, i, derr)
					}
					ich := make(chan pending, 1)
					cn, rerr = bm.ImportBlock(bd, 0, func(bc module.BlockCandidate, err error) { ich <- pending{bc, err} })
					ch = ich
				} else {
					cn, ch, rerr = d.importBytes(enc.Bytes())
				}
			}
			if want == "cancelled" {
				if rerr != nil {
					d.violation(id, "tree:extend:rejected", fmt.Sprintf("step %d: %s on %v fails: %v", i, s.Op, s.P, rerr), det(i, nil))
					return nil
				}
				if cn.Cancel() {
					select {
					case r := <-ch:
						if r.err == nil {
							d.violation(id, "tree:cancel:callback-after-cancel", fmt.Sprintf("step %d: Cancel returned true but the callback delivered a candidate", i), det(i, nil))
							return nil
						}
					case <-time.After(50 * time.Millisecond):
					}
				} else {
					// the request had already completed (this manager executes test blocks at once): hand the
					// candidate back, which restores the tree as if the request had never been made
					r, ok := wait(ch)
					if !ok {
						return d.lostCallback(id, i, s.Op, s.P, det(i, nil))
					}
					if r.bc != nil {
						r.bc.Dispose()
					}
				}
				break
			}
			got := classify(rerr)
			var bc module.BlockCandidate
			if rerr == nil {
				r, ok := wait(ch)
				if !ok {
					return d.lostCallback(id, i, s.Op, s.P, det(i, nil))
				}
				got = classify(r.err)
				bc = r.bc
			}
			if got != want {
				dd := det(i, map[string]interface{}{"spec": want, "real": got})
				switch {
				case got == "ok":
					bc.Dispose()
					d.violation(id, "tree:extend:accepted:"+want, fmt.Sprintf("step %d: %s on %v succeeds, the spec says %s", i, s.Op, s.P, want), dd)
				case want == "ok":
					d.violation(id, "tree:extend:rejected", fmt.Sprintf("step %d: %s on the usable block %v fails: %s", i, s.Op, s.P, got), dd)
				default:
					d.out.Divergence(id, fmt.Sprintf("step %d: %s on %v fails with %s, the spec says %s", i, s.Op, s.P, got, want), dd)
				}
				return nil
			}
			if got == "ok" {
				nh++
				if nh != s.H {
					return fmt.Errorf("behaviour %d step %d: handle numbering %d vs %d", idx, i, nh, s.H)
				}
				handles[nh] = bc
				cancelers[nh] = cn
				if old := nodes[pk(child)]; old != nil && !bytes.Equal(old.ID(), bc.ID()) {
					d.out.Divergence(id, fmt.Sprintf("step %d: the same (parent, votes) gave another block id", i), det(i, nil))
					return nil
				}
				nodes[pk(child)] = bc
			}
		case "raced":
			// a request on a candidate whose only holder gives the candidate back before the request has completed
			parent := nodes[pk(s.P)]
			child := append(append([]int{}, s.P...), s.V)
			vb, err := votesFor(parent, child, s.V)
			if err != nil {
				return err
			}
			d.out.Begin(id, "tree:crash:parent-disposed-while-request-executes")
			_, ch, rerr := d.propose(parent, vb)
			handles[s.H].Dispose()
			defer func(h int) { delete(handles, h) }(s.H)
			if rerr == nil {
				select {
				case r := <-ch:
					if r.err == nil && r.bc != nil {
						r.bc.Dispose() // the request won the race: giving the candidate back leads to the same tree
					}
				case <-time.After(3 * time.Second):
				}
			}
		case "cancel":
			cn := cancelers[s.H]
			if cn == nil {
				continue // a duplicated handle has no request
			}
			if cn.Cancel() {
				d.violation(id, "tree:cancel:late-true", fmt.Sprintf("step %d: Cancel of a completed request returns true", i), det(i, nil))
				return nil
			}
		case "finalize":
			err := bm.Finalize(handles[s.H])
			got := "ok"
			if err != nil {
				got = "invalid"
			}
			if got != want {
				key := "tree:finalize:rejected"
				if got == "ok" {
					key = "tree:finalize:accepted-invalid"
				}
				d.violation(id, key, fmt.Sprintf("step %d: Finalize(handle %d) is %s (%v), the spec says %s", i, s.H, got, err, want),
					det(i, map[string]interface{}{"spec": want, "real": got}))
				return nil
			}
			if got == "ok" {
				tip, err := bm.GetLastBlock()
				if err != nil {
					return err
				}
				c.Tip = tip
				c.Node.PrevBlock, c.Node.LastBlock = c.Node.LastBlock, tip
			}
		case "dispose":
			handles[s.H].Dispose()
			if want == "ok" {
				// the handle object stays in the table for a later DisposeAgain, but is not disposed at the end
				defer func(h int) { delete(handles, h) }(s.H)
			}
		case "dup":
			nh++
			if nh != s.Nh {
				return fmt.Errorf("behaviour %d step %d: handle numbering %d vs %d", idx, i, nh, s.Nh)
			}
			handles[nh] = handles[s.H].Dup()
		case "getlast":
			p, _ := s.resPath()
			blk, err := bm.GetLastBlock()
			if err != nil || !bytes.Equal(blk.ID(), nodes[pk(p)].ID()) {
				d.violation(id, "tree:read:getlast", fmt.Sprintf("step %d: GetLastBlock is not %v (%v)", i, p, err), det(i, nil))
				return nil
			}
		case "getbyheight":
			blk, err := bm.GetBlockByHeight(rootH + int64(s.K))
			if p, isPath := s.resPath(); isPath {
				if err != nil || !bytes.Equal(blk.ID(), nodes[pk(p)].ID()) {
					d.violation(id, "tree:read:getbyheight", fmt.Sprintf("step %d: GetBlockByHeight(+%d) is not the finalized block %v (%v)", i, s.K, p, err), det(i, nil))
					return nil
				}
			} else if err == nil {
				d.violation(id, "tree:read:getbyheight", fmt.Sprintf("step %d: GetBlockByHeight(+%d) returns a block above the last finalized one", i, s.K), det(i, nil))
				return nil
			}
		case "getblock":
			_, err := bm.GetBlock(nodes[pk(s.N)].ID())
			if (err == nil) != (want == "found") {
				d.violation(id, "tree:read:getblock", fmt.Sprintf("step %d: GetBlock(%v) err=%v, the spec says %s", i, s.N, err, want), det(i, nil))
				return nil
			}
		case "waitfor":
			ch, err := bm.WaitForBlock(rootH + int64(s.K))
			if err != nil {
				return err
			}
			waits = append(waits, ch)
		default:
			return fmt.Errorf("unknown op %q", s.Op)
		}
		// projection: the manager's map, its reference counts, the last finalized block, the waiters
		ns, fin, _ := block.VerifTree(bm)
		if !bytes.Equal(fin, nodes[pk(s.After.Fin)].ID()) {
			d.violation(id, "tree:finalized-mismatch", fmt.Sprintf("step %d (%s): the last finalized block is not %v", i, s.Op, s.After.Fin), det(i, nil))
			return nil
		}
		wantRefs := map[string]int{}
		for _, raw := range s.After.Refs {
			var pair []json.RawMessage
			var p []int
			var n int
			if json.Unmarshal(raw, &pair) != nil || len(pair) != 2 || json.Unmarshal(pair[0], &p) != nil || json.Unmarshal(pair[1], &n) != nil {
				return fmt.Errorf("bad refs entry %s", raw)
			}
			wantRefs[string(nodes[pk(p)].ID())] = n
		}
		var diffs []string
		seen := map[string]bool{}
		for _, n := range ns {
			seen[string(n.ID)] = true
			w, ok := wantRefs[string(n.ID)]
			if !ok {
				diffs = append(diffs, fmt.Sprintf("node %x (height +%d, nRef %d) is in the map, the spec says it is gone", n.ID[:4], n.Height-rootH, n.NRef))
			} else if w != n.NRef {
				diffs = append(diffs, fmt.Sprintf("node %x (height +%d) has nRef %d, the spec says %d", n.ID[:4], n.Height-rootH, n.NRef, w))
			}
		}
		for k := range wantRefs {
			if !seen[k] {
				diffs = append(diffs, fmt.Sprintf("node %x is missing from the map", []byte(k)[:4]))
			}
		}
		if len(diffs) > 0 {
			sort.Strings(diffs)
			d.violation(id, "tree:map-mismatch:"+s.Op, fmt.Sprintf("step %d (%s): %s", i, s.Op, strings.Join(diffs, "; ")),
				det(i, map[string]interface{}{"diffs": diffs}))
			return nil
		}
		for wi, ch := range waits {
			if gotWait[wi] == nil {
				select {
				case b := <-ch:
					gotWait[wi] = b
				default:
				}
			}
			var exp []int
			has := wi < len(s.After.Got) && len(s.After.Got[wi]) == 1
			if has {
				exp = s.After.Got[wi][0]
			}
			if has && gotWait[wi] == nil {
				// delivery happens in the finalizing call; allow the channel a moment
				select {
				case b := <-ch:
					gotWait[wi] = b
				case <-time.After(time.Second):
				}
			}
			if has != (gotWait[wi] != nil) || (has && !bytes.Equal(gotWait[wi].ID(), nodes[pk(exp)].ID())) {
				d.violation(id, "tree:wait", fmt.Sprintf("step %d (%s): waiter %d delivered=%v, the spec says delivered=%v %v", i, s.Op, wi,
					gotWait[wi] != nil, has, exp), det(i, nil))
				return nil
			}
		}
	}
	sig := ""
	for _, s := range steps {
		sig += fmt.Sprintf("%s%v%d.%d.%d;", s.Op[:3], s.P, s.V, s.H, s.K)
	}
	d.out.OK(id, true, sig)
	d.dirty = false
	return nil
}

func TestTree(t *testing.T) {
	if !tlaio.HaveInput() {
		t.Skip("driven by tools/check.py")
	}
	os.Setenv("TMPDIR", tlaio.ScratchDir())
	rnd := tlaio.Rand()
	c, err := NewChain(NewWallets([]int{1, 2, 4}[rnd.Intn(3)]))
	if err != nil {
		t.Fatal(err)
	}
	if err := advanceFromGenesis(c, baseTs); err != nil {
		t.Fatal(err)
	}
	d := &treeDriver{out: tlaio.OpenOut(), c: c, perKey: map[string]int{}}
	defer func() { d.c.Close() }()
	err = tlaio.ReadInput(func(idx int, raw json.RawMessage) error {
		if !tlaio.Mine(idx) {
			return nil
		}
		var steps []tstep
		if err := json.Unmarshal(raw, &steps); err != nil {
			return err
		}
		return d.run(idx, steps)
	})
	if err != nil {
		t.Fatal(err)
	}
	d.out.Close(map[string]interface{}{"violations_per_key": d.perKey, "validators": len(c.Wallets)})
}
