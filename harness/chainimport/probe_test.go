package chainimport

import (
	"fmt"
	"testing"
	"time"

	"github.com/icon-project/goloop/consensus"
	"github.com/icon-project/goloop/module"
)

func prop(c *Chain, parent module.BlockData, ts int64) (module.BlockCandidate, error) {
	var vs module.CommitVoteSet
	if parent.Height() == 0 {
		vs = consensus.NewEmptyCommitVoteList()
	} else {
		vb, err := c.VotesFor(parent, []int{0}, []int64{ts})
		if err != nil {
			return nil, err
		}
		vs = consensus.NewCommitVoteSetFromBytes(vb)
	}
	ch := make(chan struct {
		bc  module.BlockCandidate
		err error
	}, 1)
	_, err := c.Node.BM.Propose(parent.ID(), vs, func(bc module.BlockCandidate, err error) {
		ch <- struct {
			bc  module.BlockCandidate
			err error
		}{bc, err}
	})
	if err != nil {
		return nil, err
	}
	r := <-ch
	return r.bc, r.err
}

func TestProbe(t *testing.T) {
	c, err := NewChain(NewWallets(1))
	if err != nil {
		t.Fatal(err)
	}
	defer c.Close()
	g := c.Tip
	a, err := prop(c, g, 0)
	fmt.Println("A", err, a != nil)
	a2, err := prop(c, g, 0)
	fmt.Printf("A again same id=%v err=%v\n", a2 != nil && string(a2.ID()) == string(a.ID()), err)
	b, err := prop(c, a, 100)
	fmt.Println("B on A", err)
	b2, err := prop(c, a, 200)
	fmt.Println("B2 on A", err, b2 != nil && string(b2.ID()) != string(b.ID()))
	if b != nil {
		cc, err := prop(c, b, 300)
		fmt.Println("C on B", err, cc != nil)
	}
	_, err = c.Node.BM.GetBlock(a.ID())
	fmt.Println("GetBlock(candidate A):", err)
	_, err = c.Node.BM.GetBlockByHeight(1)
	fmt.Println("GetBlockByHeight(1) before finalize:", err)
	fmt.Println("Finalize(B) not child of fin:", c.Node.BM.Finalize(b))
	fmt.Println("Finalize(A):", c.Node.BM.Finalize(a))
	fmt.Println("Finalize(A) again:", c.Node.BM.Finalize(a))
	blk, err := c.Node.BM.GetBlock(a.ID())
	fmt.Println("GetBlock(A) after finalize:", err, blk != nil)
	fmt.Println("Finalize(B):", c.Node.BM.Finalize(b))
	fmt.Println("Finalize(B2) sibling after B finalized:", c.Node.BM.Finalize(b2))
	_, err = prop(c, b2, 400)
	fmt.Println("Propose on pruned B2:", err)
	_, err = prop(c, a, 500)
	fmt.Println("Propose on old finalized A:", err)
	// cancel race
	lb, _ := c.Node.BM.GetLastBlock()
	vb, _ := c.VotesFor(lb, []int{0}, []int64{lb.Timestamp() + 5})
	for i := 0; i < 5; i++ {
		called := make(chan error, 1)
		cn, err := c.Node.BM.Propose(lb.ID(), consensus.NewCommitVoteSetFromBytes(vb), func(bc module.BlockCandidate, err error) {
			called <- err
			if bc != nil {
				bc.Dispose()
			}
		})
		if err != nil {
			fmt.Println("propose err", err)
			continue
		}
		if i%2 == 1 {
			time.Sleep(20 * time.Millisecond)
		}
		r := cn.Cancel()
		select {
		case e := <-called:
			fmt.Println("cancel", r, "callback", e)
		case <-time.After(200 * time.Millisecond):
			fmt.Println("cancel", r, "no callback")
		}
	}
	fmt.Println("asserts:", c.T.Errs)
}
