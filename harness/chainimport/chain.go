// Package chainimport holds the helpers shared by the block-level replay drivers (C07 chainimport,
// C05 quorumcert import path, C08 blockbinding): a real goloop test node (real block manager, test
// service manager) over a genesis with chosen validators, candidate blocks obtained from the real
// Propose and re-encoded after mutation, and Import through the real BlockManager.
package chainimport

import (
	"bytes"
	"fmt"
	"io"
	"strings"
	"time"

	"github.com/icon-project/goloop/block"
	"github.com/icon-project/goloop/common/codec"
	"github.com/icon-project/goloop/common/crypto"
	"github.com/icon-project/goloop/common/log"
	"github.com/icon-project/goloop/common/wallet"
	"github.com/icon-project/goloop/consensus"
	"github.com/icon-project/goloop/module"
	"github.com/icon-project/goloop/test"
)

// LenientT satisfies test.T; the fixtures assert internally and a driver that expects rejections
// must not fail on them. Errors are kept for inspection.
type LenientT struct{ Errs []string }

func (l *LenientT) Errorf(format string, args ...interface{}) {
	l.Errs = append(l.Errs, fmt.Sprintf(format, args...))
}
func (l *LenientT) Logf(format string, args ...any) {}

// Chain is one real node whose genesis names the given validators.
type Chain struct {
	T       *LenientT
	Node    *test.Node
	Wallets []module.Wallet // validators, index 0..n-1
	Tip     module.Block    // last finalized block
	honest  map[string]*Formats
}

type Formats struct {
	HF block.V2HeaderFormat
	BF block.V2BodyFormat
}

func (f *Formats) Clone() *Formats {
	c := *f
	c.BF.PatchTransactions = append([][]byte(nil), f.BF.PatchTransactions...)
	c.BF.NormalTransactions = append([][]byte(nil), f.BF.NormalTransactions...)
	return &c
}

func (f *Formats) Reader() io.Reader { return block.NewBlockReaderFromFormat(&f.HF, &f.BF) }

func NewWallets(n int) []module.Wallet {
	ws := make([]module.Wallet, n)
	for i := range ws {
		ws[i] = wallet.New()
	}
	return ws
}

func NewChain(ws []module.Wallet) (*Chain, error) {
	var vs []string
	for _, w := range ws {
		vs = append(vs, fmt.Sprintf("%q", w.Address().String()))
	}
	gs := fmt.Sprintf(`{
		"accounts": [
			{"name": "treasury", "address": "hx1000000000000000000000000000000000000000", "balance": "0x0"},
			{"name": "god", "address": "hx0000000000000000000000000000000000000000", "balance": "0x0"}
		],
		"message": "", "nid": "0x1",
		"chain": {"validatorList": [ %s ]}
	}`, strings.Join(vs, ", "))
	t := &LenientT{}
	node := test.NewNode(t, test.UseGenesis(gs), test.UseWallet(ws[0]))
	if len(t.Errs) > 0 {
		return nil, fmt.Errorf("node setup: %v", t.Errs)
	}
	node.Chain.Logger().SetLevel(log.ErrorLevel) // the test node logs at trace level by default
	// packages that log through the global logger (db, service) would fill the stdout pipe of a replay process
	// whose output is read only when its turn comes; a blocked log write stalls the whole node
	log.GlobalLogger().SetLevel(log.ErrorLevel)
	log.GlobalLogger().SetOutput(io.Discard)
	node.Chain.Logger().SetOutput(io.Discard)
	c := &Chain{T: t, Node: node, Wallets: ws, honest: map[string]*Formats{}}
	tip, err := node.BM.GetLastBlock()
	if err != nil {
		return nil, err
	}
	c.Tip = tip
	return c, nil
}

func (c *Chain) Close() { c.Node.Close() }

func PartSetIDOf(blk module.BlockData) (*consensus.PartSetID, error) {
	var buf bytes.Buffer
	if err := blk.Marshal(&buf); err != nil {
		return nil, err
	}
	pb := consensus.NewPartSetBuffer(consensus.ConfigBlockPartSize)
	if _, err := pb.Write(buf.Bytes()); err != nil {
		return nil, err
	}
	return pb.PartSet().ID(), nil
}

// Precommit signs a precommit of validator w for blk in round 0 with timestamp ts.
func Precommit(w module.Wallet, blk module.BlockData, psid *consensus.PartSetID, round int32, ts int64) *consensus.VoteMessage {
	return consensus.NewVoteMessage(w, consensus.VoteTypePrecommit, blk.Height(), round, blk.ID(), psid, ts, nil, nil, 0)
}

// VotesFor returns the wire bytes of a commit vote list for the tip signed by the given validators
// (indices into Wallets) with the given timestamps, in the given order.
func (c *Chain) VotesFor(blk module.BlockData, voters []int, tss []int64) ([]byte, error) {
	if len(voters) == 0 {
		return consensus.NewEmptyCommitVoteList().Bytes(), nil
	}
	psid, err := PartSetIDOf(blk)
	if err != nil {
		return nil, err
	}
	msgs := make([]*consensus.VoteMessage, len(voters))
	for i, v := range voters {
		msgs[i] = Precommit(c.Wallets[v], blk, psid, 0, tss[i])
	}
	return consensus.NewCommitVoteList(nil, msgs...).Bytes(), nil
}

// HonestChild returns the header and body of the block the real Propose builds on the tip with a
// full certificate (cached per tip); callers clone and mutate it.
func (c *Chain) HonestChild() (*Formats, error) {
	key := string(c.Tip.ID())
	if f, ok := c.honest[key]; ok {
		return f.Clone(), nil
	}
	nv := len(c.Wallets)
	if c.Tip.Height() == 0 {
		nv = 0 // the genesis block has no voters
	}
	voters := make([]int, nv)
	tss := make([]int64, nv)
	for i := range voters {
		voters[i] = i
		tss[i] = c.Tip.Timestamp() + 1
	}
	vb, err := c.VotesFor(c.Tip, voters, tss)
	if err != nil {
		return nil, err
	}
	bc, err, cbErr := test.ProposeBlock(c.Node.BM, c.Tip.ID(), consensus.NewCommitVoteSetFromBytes(vb))
	if err != nil || cbErr != nil {
		return nil, fmt.Errorf("honest Propose on height %d failed: %v %v", c.Tip.Height(), err, cbErr)
	}
	defer bc.Dispose()
	f, err := FormatsOf(bc)
	if err != nil {
		return nil, err
	}
	c.honest[key] = f
	return f.Clone(), nil
}

// FormatsOf re-reads a block's own encoding into the header and body formats.
func FormatsOf(blk module.BlockData) (*Formats, error) {
	var hb, bb bytes.Buffer
	if err := blk.MarshalHeader(&hb); err != nil {
		return nil, err
	}
	if err := blk.MarshalBody(&bb); err != nil {
		return nil, err
	}
	f := &Formats{}
	if _, err := codec.BC.UnmarshalFromBytes(hb.Bytes(), &f.HF); err != nil {
		return nil, err
	}
	if _, err := codec.BC.UnmarshalFromBytes(bb.Bytes(), &f.BF); err != nil {
		return nil, err
	}
	return f, nil
}

// SetVotes replaces the vote list of a candidate consistently (body and header hash).
func (f *Formats) SetVotes(vb []byte) {
	f.BF.Votes = vb
	f.HF.VotesHash = crypto.SHA3Sum256(vb)
}

// Import feeds the encoded block to the real BlockManager.Import and waits for the verdict.
// A panic of the real code is returned as text.
func (c *Chain) Import(r io.Reader) (bc module.BlockCandidate, err error, panicked string) {
	type res struct {
		bc  module.BlockCandidate
		err error
	}
	ch := make(chan res, 1)
	func() {
		defer func() {
			if p := recover(); p != nil {
				panicked = fmt.Sprint(p)
			}
		}()
		_, err = c.Node.BM.Import(r, 0, func(bc module.BlockCandidate, err error) { ch <- res{bc, err} })
	}()
	if panicked != "" || err != nil {
		return nil, err, panicked
	}
	select {
	case x := <-ch:
		return x.bc, x.err, ""
	case <-time.After(30 * time.Second):
		return nil, fmt.Errorf("driver: import callback timed out"), ""
	}
}

// Finalize finalizes an accepted candidate and moves the tip.
func (c *Chain) Finalize(bc module.BlockCandidate) error {
	if err := c.Node.BM.Finalize(bc); err != nil {
		return err
	}
	tip, err := c.Node.BM.GetLastBlock()
	if err != nil {
		return err
	}
	c.Tip = tip
	c.Node.PrevBlock = c.Node.LastBlock
	c.Node.LastBlock = tip
	return nil
}
