package chainimport

// Replays behaviours of spec/chain/ChainImport.tla into a real block manager (C07).  The oracle is
// the TLA+ text: every Import step carries the abstract block (deviations relative to the tip, vote
// timestamps, block timestamp) and the predicted verdict; every Finalize step carries the predicted
// new tip.  This driver concretizes: the honest child comes from the real Propose, the commit vote
// list is signed by the validators' wallets with the scaled abstract timestamps (random voters, random
// item order), the header is mutated and re-encoded, and the bytes go to BlockManager.Import.

import (
	"bytes"
	"encoding/json"
	"fmt"
	"hash/fnv"
	"math/rand"
	"os"
	"testing"

	"github.com/icon-project/goloop/module"
	"github.com/icon-project/goloop/service/txresult"

	"verifharness/tlaio"
)

type atip struct {
	Height int `json:"height"`
	Ts     int `json:"ts"`
}

type ablock struct {
	Dh    int    `json:"dh"`
	Prev  string `json:"prev"`
	Ver   string `json:"ver"`
	Votes []int  `json:"votes"`
	Ts    int    `json:"ts"`
	St    string `json:"st"`
}

type step struct {
	Op  string `json:"op"`
	Tip atip   `json:"tip"`
	B   ablock `json:"b"`
	Res string `json:"res"`
	Of  int    `json:"of"`
}

type input struct {
	N     int    `json:"n"`
	Steps []step `json:"steps"`
}

const (
	scale  = int64(1)                     // one abstract time unit = 1 microsecond (the rounding of the even-count median must commute with scaling)
	baseTs = int64(1_700_000_000_000_000) // real time of abstract 0 on a fresh chain
)

type driver struct {
	out       *tlaio.Out
	growing   map[int]*Chain
	atGenesis map[int]*Chain
	perKey    map[string]int
	supp      int
}

func (d *driver) violation(id, key, what string, det interface{}) {
	d.perKey[key]++
	if d.perKey[key] > 8 {
		d.supp++
		return
	}
	d.out.Violation(id, key, what, det)
}

func sigOf(in *input) string {
	var b bytes.Buffer
	fmt.Fprintf(&b, "n%d:", in.N)
	for _, s := range in.Steps {
		if s.Op == "import" {
			fmt.Fprintf(&b, "i(h%d,t%d|%d,%s,%s,%s,%v,%d);", s.Tip.Height, s.Tip.Ts, s.B.Dh, s.B.Prev, s.B.Ver, s.B.St, s.B.Votes, s.B.Ts)
		} else {
			fmt.Fprintf(&b, "f%d;", s.Of)
		}
	}
	return b.String()
}

// advance puts an honest block on a chain that is still at genesis: the timestamp rule does not apply to
// height 1, so the block gets the base time.
func advanceFromGenesis(c *Chain, ts int64) error {
	f, err := c.HonestChild()
	if err != nil {
		return err
	}
	f.HF.Timestamp = ts
	bc, err, p := c.Import(f.Reader())
	if err != nil || p != "" {
		return fmt.Errorf("cannot build block 1: %v %s", err, p)
	}
	defer bc.Dispose()
	return c.Finalize(bc)
}

func (d *driver) run(idx int, in *input) error {
	id := fmt.Sprintf("b%d", idx)
	h := fnv.New64a()
	h.Write([]byte(sigOf(in)))
	rnd := rand.New(rand.NewSource(tlaio.Seed() ^ int64(h.Sum64()>>1)))
	var c *Chain
	var err error
	first := in.Steps[0]
	var t0 int64 // real time of abstract 0
	finalizes := false
	for _, s := range in.Steps {
		finalizes = finalizes || s.Op == "finalize"
	}
	if first.Tip.Height == 0 && !finalizes {
		// single imports on the genesis block leave the node at genesis: one node serves them all
		c = d.atGenesis[in.N]
		if c == nil {
			if c, err = NewChain(NewWallets(in.N)); err != nil {
				return err
			}
			d.atGenesis[in.N] = c
		}
		t0 = baseTs
	} else if first.Tip.Height == 0 {
		if c, err = NewChain(NewWallets(in.N)); err != nil {
			return err
		}
		defer c.Close()
		t0 = baseTs
	} else {
		c = d.growing[in.N]
		if c == nil {
			if c, err = NewChain(NewWallets(in.N)); err != nil {
				return err
			}
			d.growing[in.N] = c
			if err = advanceFromGenesis(c, baseTs); err != nil {
				return err
			}
		}
		t0 = c.Tip.Timestamp() - int64(first.Tip.Ts)*scale
	}
	T := func(a int) int64 { return t0 + int64(a)*scale }
	cands := map[int]module.BlockCandidate{}
	defer func() {
		for _, bc := range cands {
			bc.Dispose()
		}
	}()
	accepted := false
	for i, s := range in.Steps {
		switch s.Op {
		case "import":
			f, err := c.HonestChild()
			if err != nil {
				return err
			}
			// commit vote list for the tip: k random validators, random order, scaled timestamps
			k := len(s.B.Votes)
			voters := rnd.Perm(in.N)[:k]
			order := rnd.Perm(k)
			tss := make([]int64, k)
			for j := range tss {
				tss[j] = T(s.B.Votes[order[j]])
			}
			vb, err := c.VotesFor(c.Tip, voters, tss)
			if err != nil {
				return err
			}
			f.SetVotes(vb)
			f.HF.Timestamp = T(s.B.Ts)
			f.HF.Height += int64(s.B.Dh)
			switch s.B.Prev {
			case "stale":
				pb, err := c.Node.BM.GetBlockByHeight(c.Tip.Height() - 1)
				if err != nil {
					return err
				}
				f.HF.PrevID = pb.ID()
			case "unknown":
				f.HF.PrevID = make([]byte, 32)
				rnd.Read(f.HF.PrevID)
			}
			switch s.B.St { // what the header claims about the state after the parent
			case "result":
				f.HF.Result = append([]byte{}, f.HF.Result...)
				f.HF.Result[rnd.Intn(len(f.HF.Result))] ^= 0x40
			case "validators":
				f.HF.NextValidatorsHash = make([]byte, 32)
				rnd.Read(f.HF.NextValidatorsHash)
			case "bloom":
				// the header carries the bloom compressed: a bloom with the bits of one event log set
				lb := txresult.NewLogsBloom(nil)
				topic := make([]byte, 8+rnd.Intn(24))
				rnd.Read(topic)
				lb.AddLog(c.Wallets[0].Address(), [][]byte{topic})
				f.HF.LogsBloom = lb.CompressedBytes()
			}
			switch s.B.Ver {
			case "old":
				f.HF.Version = 1
			case "new":
				f.HF.Version = 3
			}
			var enc bytes.Buffer
			enc.ReadFrom(f.Reader())
			bc, ierr, panicked := c.Import(bytes.NewReader(enc.Bytes()))
			det := map[string]interface{}{"behaviour": in, "step": i, "spec": s.Res, "real": fmt.Sprint(ierr),
				"voters": voters, "vote_ts": tss, "block_ts": f.HF.Timestamp, "tip_ts": c.Tip.Timestamp(),
				"tip_height": c.Tip.Height(), "block": fmt.Sprintf("%x", enc.Bytes())}
			switch {
			case panicked != "":
				d.violation(id, "import:panic", fmt.Sprintf("step %d: Import panics: %s", i, panicked), det)
				return nil
			case ierr == nil && s.Res != "ok":
				bc.Dispose()
				d.violation(id, "import:accepted:"+s.Res, fmt.Sprintf("step %d: Import accepts a block the spec rejects (%s): "+
					"tip(height %d, ts %d) block %+v", i, s.Res, s.Tip.Height, s.Tip.Ts, s.B), det)
				return nil
			case ierr != nil && s.Res == "ok":
				d.out.Divergence(id, fmt.Sprintf("step %d: Import rejects a block the spec accepts: tip(height %d, ts %d) block %+v: %v",
					i, s.Tip.Height, s.Tip.Ts, s.B, ierr), det)
				return nil
			}
			if ierr == nil {
				accepted = true
				cands[i+1] = bc
				if bc.Height() != c.Tip.Height()+1 || !bytes.Equal(bc.PrevID(), c.Tip.ID()) || bc.Timestamp() != T(s.B.Ts) {
					d.out.Divergence(id, fmt.Sprintf("step %d: accepted candidate differs from the imported block", i), det)
					return nil
				}
			}
		case "finalize":
			bc := cands[s.Of]
			if bc == nil {
				return fmt.Errorf("case %d step %d: no accepted candidate of step %d", idx, i, s.Of)
			}
			hBefore := c.Tip.Height()
			if err := c.Finalize(bc); err != nil {
				d.out.Divergence(id, fmt.Sprintf("step %d: Finalize of an accepted candidate fails: %v", i, err), nil)
				return nil
			}
			// the other candidates die with the old tip
			for k, o := range cands {
				o.Dispose()
				delete(cands, k)
			}
			if c.Tip.Height() != hBefore+1 || c.Tip.Timestamp() != T(s.Tip.Ts) {
				d.out.Divergence(id, fmt.Sprintf("step %d: tip after Finalize is (height %d, ts %d), spec says height+1, ts %d",
					i, c.Tip.Height(), c.Tip.Timestamp(), T(s.Tip.Ts)), nil)
				return nil
			}
		default:
			return fmt.Errorf("unknown op %q", s.Op)
		}
	}
	if len(c.T.Errs) > 0 {
		return fmt.Errorf("fixture asserts: %v", c.T.Errs)
	}
	_ = accepted
	d.out.OK(id, true, sigOf(in))
	return nil
}

func TestReplay(t *testing.T) {
	if !tlaio.HaveInput() {
		t.Skip("driven by tools/check.py")
	}
	os.Setenv("TMPDIR", tlaio.ScratchDir())
	d := &driver{out: tlaio.OpenOut(), growing: map[int]*Chain{}, atGenesis: map[int]*Chain{}, perKey: map[string]int{}}
	err := tlaio.ReadInput(func(idx int, raw json.RawMessage) error {
		if !tlaio.Mine(idx) {
			return nil
		}
		var in input
		if err := json.Unmarshal(raw, &in); err != nil {
			return err
		}
		return d.run(idx, &in)
	})
	for _, c := range d.growing {
		c.Close()
	}
	for _, c := range d.atGenesis {
		c.Close()
	}
	if err != nil {
		t.Fatal(err)
	}
	d.out.Close(map[string]interface{}{"violations_per_key": d.perKey, "suppressed_violation_records": d.supp})
}
