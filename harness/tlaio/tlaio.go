// Package tlaio is the Go side of the protocol between tools/vlib.py and the replay drivers:
// behaviours (JSON produced by TLC) come in through the file named by VERIF_IN, one ndjson
// record per executed case goes out through VERIF_OUT.
package tlaio

import (
	"bufio"
	"encoding/json"
	"fmt"
	"math/rand"
	"os"
	"strconv"
	"strings"
	"sync"
)

// Record is one line of the result file (see vlib.Ctx.go_replay).
type Record struct {
	Case       interface{} `json:"case,omitempty"`
	Status     string      `json:"status,omitempty"` // begin | ok | violation | divergence | skip
	Key        string      `json:"key,omitempty"`    // stable identity of a violation (known-findings key)
	What       string      `json:"what,omitempty"`
	Detail     interface{} `json:"detail,omitempty"`
	Nontrivial bool        `json:"nontrivial"`
	Sig        string      `json:"sig,omitempty"`
	Summary    bool        `json:"summary,omitempty"`
	Cases      int         `json:"cases,omitempty"`
	Extra      interface{} `json:"extra,omitempty"`
}

type Out struct {
	mu sync.Mutex
	f  *os.File
	w  *bufio.Writer
	n  int
}

func OpenOut() *Out {
	p := os.Getenv("VERIF_OUT")
	if p == "" {
		p = os.DevNull
	}
	f, err := os.OpenFile(p, os.O_CREATE|os.O_WRONLY|os.O_APPEND, 0644)
	if err != nil {
		panic(err)
	}
	return &Out{f: f, w: bufio.NewWriter(f)}
}

func (o *Out) Emit(r Record) {
	o.mu.Lock()
	defer o.mu.Unlock()
	bs, err := json.Marshal(r)
	if err != nil {
		panic(err)
	}
	o.w.Write(bs)
	o.w.WriteByte('\n')
	o.w.Flush() // a crash of the code under test must not lose the BEGIN record
	if r.Status != "begin" && !r.Summary {
		o.n++
	}
}

func (o *Out) Begin(c interface{}, key string) {
	o.Emit(Record{Case: c, Status: "begin", Key: key})
}
func (o *Out) OK(c interface{}, nontrivial bool, sig string) {
	o.Emit(Record{Case: c, Status: "ok", Nontrivial: nontrivial, Sig: sig})
}
func (o *Out) Violation(c interface{}, key, what string, detail interface{}) {
	o.Emit(Record{Case: c, Status: "violation", Key: key, What: what, Detail: detail, Nontrivial: true})
}
func (o *Out) Divergence(c interface{}, what string, detail interface{}) {
	o.Emit(Record{Case: c, Status: "divergence", What: what, Detail: detail, Nontrivial: true})
}
func (o *Out) Skip(c interface{}, what string) {
	o.Emit(Record{Case: c, Status: "skip", What: what})
}
func (o *Out) Close(extra interface{}) {
	o.Emit(Record{Summary: true, Cases: o.n, Extra: extra})
	o.w.Flush()
	o.f.Close()
}

// Seed returns VERIF_SEED (default 1).
func Seed() int64 {
	s, err := strconv.ParseInt(os.Getenv("VERIF_SEED"), 10, 64)
	if err != nil {
		return 1
	}
	return s
}

func Rand() *rand.Rand { return rand.New(rand.NewSource(Seed())) }

func Tier() string {
	if t := os.Getenv("VERIF_TIER"); t != "" {
		return t
	}
	return "quick"
}

func Thorough() bool { return Tier() == "thorough" }

// Shard returns (index, count) from VERIF_SHARD="i/n".
func Shard() (int, int) {
	s := os.Getenv("VERIF_SHARD")
	var i, n int
	if _, err := fmt.Sscanf(s, "%d/%d", &i, &n); err != nil || n <= 0 {
		return 0, 1
	}
	return i, n
}

func Mine(idx int) bool {
	i, n := Shard()
	return idx%n == i
}

// ScratchDir is a per-shard directory removed by the python runner.
func ScratchDir() string {
	d := os.Getenv("VERIF_SCRATCH_DIR")
	if d == "" {
		d, _ = os.MkdirTemp("/var/tmp", "verifgo.")
	}
	os.MkdirAll(d, 0755)
	return d
}

// ReadInput decodes the file named by VERIF_IN: either one JSON document or ndjson lines.
func ReadInput(each func(idx int, raw json.RawMessage) error) error {
	p := os.Getenv("VERIF_IN")
	if p == "" {
		return fmt.Errorf("VERIF_IN not set")
	}
	f, err := os.Open(p)
	if err != nil {
		return err
	}
	defer f.Close()
	rd := bufio.NewReaderSize(f, 1<<20)
	idx := 0
	for {
		line, err := rd.ReadBytes('\n')
		s := strings.TrimSpace(string(line))
		if s != "" {
			if e := each(idx, json.RawMessage(s)); e != nil {
				return e
			}
			idx++
		}
		if err != nil {
			break
		}
	}
	return nil
}

// HaveInput reports whether VERIF_IN is set (drivers are skipped under plain `go test`).
func HaveInput() bool { return os.Getenv("VERIF_IN") != "" }
func HaveOut() bool   { return os.Getenv("VERIF_OUT") != "" }
