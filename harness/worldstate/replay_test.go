package worldstate

// Replays behaviours of spec/state/WorldState.tla into the real world state
// (service/state: NewWorldState, GetAccountState mutators, GetSnapshot, Reset, ClearCache,
// Flush, NewWorldState/NewWorldSnapshot from a flushed state hash) for C14.
//
// After every call the spec predicts what a reader sees of every account through the world
// state and through every snapshot slot (absent / balance / storage / contract flag / empty).
// The driver concretizes accounts, keys and values, executes the call and reads the real
// projection back with the public getters.  State hashes are compared real against real:
// equal predicted contents must have equal hashes, anywhere in the run and in a state built
// freshly in canonical order.

import (
	"bytes"
	"encoding/json"
	"fmt"
	"math/big"
	"os"
	"sort"
	"strings"
	"testing"

	"github.com/icon-project/goloop/common"
	"github.com/icon-project/goloop/common/crypto"
	"github.com/icon-project/goloop/common/db"
	"github.com/icon-project/goloop/module"
	"github.com/icon-project/goloop/service/state"

	"verifharness/tlaio"
)

type data struct {
	Absent bool           `json:"absent"`
	Bal    int            `json:"bal"`
	St     map[string]int `json:"st"`
	Ct     bool           `json:"ct"`
	Bl     bool           `json:"bl"`
	Nx     int            `json:"nx"`
	Cur    int            `json:"cur"`
	Dep    int            `json:"dep"` // -1 no deposit, n: one deposit with n units left
	Empty  bool           `json:"empty"`
}

type step struct {
	Op   string            `json:"op"`
	A    string            `json:"a"`
	K    string            `json:"k"`
	V    int               `json:"v"`
	S    int               `json:"s"`
	Res  int               `json:"res"`
	View map[string]data   `json:"view"`
	CIn  map[string]bool   `json:"cin"`
	Sn   []map[string]data `json:"sn"`
}

type world struct {
	salt string
}

func (w *world) acct(a string) []byte {
	id := make([]byte, 21)
	copy(id[1:], []byte("acct-"+w.salt+"-"+a))
	return id
}
func (w *world) owner() *common.Address { return common.MustNewAddressFromString("hx" + strings.Repeat("7", 40)) }
func (w *world) key(k string) []byte    { return []byte("key/" + w.salt + "/" + k) }
func (w *world) val(v int) []byte {
	if v == 0 {
		return nil
	}
	if v == 1 {
		return []byte{0x11, byte(len(w.salt))}
	}
	return bytes.Repeat([]byte{0xA0 + byte(v)}, 48)
}
// deposit context: term 0 (one deposit object), one step costs one unit
const depUnit = 1000

type feeCtx struct{}

func (feeCtx) StepPrice() *big.Int        { return big.NewInt(depUnit) }
func (feeCtx) BlockHeight() int64         { return 100 }
func (feeCtx) DepositTerm() int64         { return 0 }
func (feeCtx) DepositIssueRate() *big.Int { return big.NewInt(8) }
func (feeCtx) TransactionID() []byte      { return []byte("deposit-tx") }
func (feeCtx) FeeSharingEnabled() bool    { return true }
func (feeCtx) FeeLimit() *big.Int         { return big.NewInt(depUnit) }

func depositOf(as state.AccountData) (int, error) {
	info, err := as.GetDepositInfo(feeCtx{}, module.JSONVersion3)
	if err != nil {
		return -2, err
	}
	if info == nil {
		return -1, nil
	}
	s, _ := info["availableDeposit"].(string)
	v, ok := new(big.Int).SetString(strings.TrimPrefix(s, "0x"), 16)
	if !ok || new(big.Int).Mod(v, big.NewInt(depUnit)).Sign() != 0 {
		return -2, fmt.Errorf("availableDeposit %q", s)
	}
	return int(new(big.Int).Div(v, big.NewInt(depUnit)).Int64()), nil
}

func (w *world) code(c int) []byte   { return []byte(fmt.Sprintf("contract-code-%s-%d", w.salt, c)) }
func (w *world) txHash(c int) []byte { return []byte(fmt.Sprintf("deploy-tx-%d", c)) }
func (w *world) codeID(cs state.ContractSnapshot) int {
	if cs == nil {
		return 0
	}
	for c := 1; c <= 3; c++ {
		if bytes.Equal(cs.CodeHash(), crypto.SHA3Sum256(w.code(c))) {
			return c
		}
	}
	return -1
}
func (w *world) abs(bs []byte) int {
	for v := 0; v <= 3; v++ {
		if bytes.Equal(bs, w.val(v)) {
			return v
		}
	}
	return -1
}

type finding struct {
	violation bool
	key, what string
}

type runner struct {
	w      *world
	dbase  db.Database
	ws     state.WorldState
	snaps  []state.WorldSnapshot
	shash  [][]byte
	keys   []string
	accts  []string
	f      []finding
	hashes map[string][]byte // canonical contents -> state hash (shared over the run)
}

func (r *runner) viol(key, format string, a ...interface{}) {
	r.f = append(r.f, finding{true, key, fmt.Sprintf(format, a...)})
}

// project reads one account through an AccountSnapshot
func (r *runner) project(as state.AccountSnapshot) (data, error) {
	if as == nil {
		return data{Absent: true}, nil
	}
	d := data{St: map[string]int{}}
	b := as.GetBalance()
	if b == nil || !b.IsInt64() {
		return d, fmt.Errorf("balance %v", b)
	}
	d.Bal = int(b.Int64())
	for _, k := range r.keys {
		bs, err := as.GetValue(r.w.key(k))
		if err != nil {
			return d, err
		}
		a := r.w.abs(bs)
		if a < 0 {
			return d, fmt.Errorf("unknown stored value %x", bs)
		}
		d.St[k] = a
	}
	d.Ct = as.IsContract()
	d.Bl = as.IsBlocked()
	d.Nx = r.w.codeID(as.NextContract())
	d.Cur = r.w.codeID(as.Contract())
	d.Empty = as.IsEmpty()
	dep, err := depositOf(as)
	if err != nil {
		return d, err
	}
	d.Dep = dep
	return d, nil
}

func same(a, b data, viaSnapshot bool) bool {
	if viaSnapshot && (a.Absent || b.Absent) {
		return a.Absent == b.Absent
	}
	if a.Bal != b.Bal || a.Ct != b.Ct || a.Empty != b.Empty || a.Bl != b.Bl || a.Nx != b.Nx || a.Cur != b.Cur || a.Dep != b.Dep {
		return false
	}
	for k, v := range b.St {
		if a.St[k] != v {
			return false
		}
	}
	return true
}

// contents signature of a snapshot prediction: only what is stored
func sigOf(m map[string]data, accts []string) string {
	var sb strings.Builder
	for _, a := range accts {
		d := m[a]
		if d.Absent {
			continue
		}
		ks := make([]string, 0, len(d.St))
		for k := range d.St {
			ks = append(ks, k)
		}
		sort.Strings(ks)
		fmt.Fprintf(&sb, "%s:%d,%v,%v,%d,%d,%d", a, d.Bal, d.Ct, d.Bl, d.Nx, d.Cur, d.Dep)
		for _, k := range ks {
			fmt.Fprintf(&sb, ",%s=%d", k, d.St[k])
		}
		sb.WriteString(";")
	}
	return sb.String()
}

func (r *runner) apply(ws state.WorldState, a string, d data) {
	as := ws.GetAccountState(r.w.acct(a))
	as.SetBalance(big.NewInt(int64(d.Bal)))
	if d.Ct {
		as.InitContractAccount(r.w.owner())
	}
	if d.Bl {
		as.SetBlock(true)
	}
	if d.Cur != 0 {
		as.DeployContract(r.w.code(d.Cur), state.JavaEE, "application/java", nil, r.w.txHash(d.Cur))
		as.AcceptContract(r.w.txHash(d.Cur), []byte("audit"))
	}
	if d.Nx != 0 {
		as.DeployContract(r.w.code(d.Nx), state.JavaEE, "application/java", nil, r.w.txHash(d.Nx))
	}
	if d.Dep >= 0 { // a deposit with d.Dep units left (0: a deposit that was used up)
		n := d.Dep
		if n == 0 {
			n = 1
		}
		as.AddDeposit(feeCtx{}, big.NewInt(int64(n)*depUnit))
		if d.Dep == 0 {
			as.WithdrawDeposit(feeCtx{}, nil, big.NewInt(depUnit))
		}
	}
	ks := make([]string, 0)
	for k := range d.St {
		ks = append(ks, k)
	}
	sort.Strings(ks)
	for _, k := range ks {
		if d.St[k] != 0 {
			as.SetValue(r.w.key(k), r.w.val(d.St[k]))
		}
	}
}

// checkHash: the state hash depends on the logical contents only
func (r *runner) checkHash(at string, pred map[string]data, h []byte) {
	sg := r.w.salt + "|" + sigOf(pred, r.accts)
	want, ok := r.hashes[sg]
	if !ok {
		fresh := state.NewWorldState(db.NewMapDB(), nil, nil, nil, nil)
		for _, a := range r.accts {
			if !pred[a].Absent {
				r.apply(fresh, a, pred[a])
			}
		}
		want = fresh.GetSnapshot().StateHash()
		r.hashes[sg] = want
	}
	if !bytes.Equal(want, h) {
		r.viol("ws:hash:canonical", "%s: state hash %x for contents {%s}, but a state with the same contents built from scratch "+
			"(or seen earlier) has %x", at, h, sigOf(pred, r.accts), want)
	}
}

func (r *runner) checkSnapshot(at string, what string, sn state.WorldSnapshot, pred map[string]data, key string) {
	for _, a := range r.accts {
		got, err := r.project(sn.GetAccountSnapshot(r.w.acct(a)))
		if err != nil {
			r.viol(key+":error", "%s: %s account %s: %v", at, what, a, err)
			continue
		}
		if !same(got, pred[a], true) {
			r.viol(key, "%s: %s shows account %s as %+v, spec says %+v", at, what, a, got, pred[a])
		}
	}
}

func (r *runner) run(steps []step) int {
	r.dbase = db.NewMapDB()
	r.ws = state.NewWorldState(r.dbase, nil, nil, nil, nil)
	ns := len(steps[0].Sn)
	for _, st := range steps {
		if st.S > ns { // a behaviour may name a slot its first record does not list (every slot starts as the initial snapshot)
			ns = st.S
		}
	}
	r.snaps = make([]state.WorldSnapshot, ns)
	r.shash = make([][]byte, ns)
	for i := range r.snaps {
		r.snaps[i] = r.ws.GetSnapshot()
		r.shash[i] = r.snaps[i].StateHash()
	}
	for a := range steps[0].View {
		r.accts = append(r.accts, a)
	}
	sort.Strings(r.accts)
	for k := range steps[0].View[r.accts[0]].St {
		r.keys = append(r.keys, k)
	}
	sort.Strings(r.keys)
	for i := range steps {
		s := &steps[i]
		at := fmt.Sprintf("step %d (%s)", i+1, s.Op)
		switch s.Op {
		case "setbalance":
			r.ws.GetAccountState(r.w.acct(s.A)).SetBalance(big.NewInt(int64(s.V)))
		case "setvalue":
			old, err := r.ws.GetAccountState(r.w.acct(s.A)).SetValue(r.w.key(s.K), r.w.val(s.V))
			if err != nil || r.w.abs(old) != s.Res {
				r.viol("ws:setvalue:old", "%s: SetValue(%s,%s) returned old value %d (%v), spec says %d", at, s.A, s.K, r.w.abs(old), err, s.Res)
			}
		case "deletevalue":
			old, err := r.ws.GetAccountState(r.w.acct(s.A)).DeleteValue(r.w.key(s.K))
			if err != nil || r.w.abs(old) != s.Res {
				r.viol("ws:deletevalue:old", "%s: DeleteValue(%s,%s) returned old value %d (%v), spec says %d", at, s.A, s.K, r.w.abs(old), err, s.Res)
			}
		case "initcontract":
			ok := r.ws.GetAccountState(r.w.acct(s.A)).InitContractAccount(r.w.owner())
			if ok != (s.Res == 1) {
				r.viol("ws:initcontract:result", "%s: InitContractAccount(%s) returned %v, spec says %v", at, s.A, ok, s.Res == 1)
			}
		case "setblock":
			r.ws.GetAccountState(r.w.acct(s.A)).SetBlock(s.V == 1)
		case "deploy":
			old, err := r.ws.GetAccountState(r.w.acct(s.A)).DeployContract(r.w.code(s.V), state.JavaEE, "application/java", nil, r.w.txHash(s.V))
			want := []byte(nil)
			if s.Res != 0 {
				want = r.w.txHash(s.Res)
			}
			if err != nil || !bytes.Equal(old, want) {
				r.viol("ws:deploy:result", "%s: DeployContract(%s, code %d) returned %q (%v), spec says the deployment of code %d", at, s.A, s.V, old, err, s.Res)
			}
		case "accept":
			err := r.ws.GetAccountState(r.w.acct(s.A)).AcceptContract(r.w.txHash(s.V), []byte("audit"))
			if (err == nil) != (s.Res == 1) {
				r.viol("ws:accept:result", "%s: AcceptContract(%s) returned %v, spec says accepted=%v", at, s.A, err, s.Res == 1)
			}
		case "adddeposit":
			if err := r.ws.GetAccountState(r.w.acct(s.A)).AddDeposit(feeCtx{}, big.NewInt(depUnit)); err != nil {
				r.viol("ws:adddeposit:error", "%s: %v", at, err)
			}
		case "withdraw", "withdrawall":
			var amount *big.Int
			if s.Op == "withdraw" {
				amount = big.NewInt(depUnit)
			}
			_, _, err := r.ws.GetAccountState(r.w.acct(s.A)).WithdrawDeposit(feeCtx{}, nil, amount)
			if (err == nil) != (s.Res == 1) {
				r.viol("ws:withdraw:result", "%s: WithdrawDeposit(%s) returned %v, spec says success=%v", at, s.A, err, s.Res == 1)
			}
		case "paysteps":
			_, byDep, err := r.ws.GetAccountState(r.w.acct(s.A)).PaySteps(feeCtx{}, big.NewInt(1))
			got := 0
			if byDep != nil {
				got = int(byDep.Int64())
			}
			if err != nil || got != s.Res {
				r.viol("ws:paysteps:result", "%s: PaySteps(%s) paid %d steps from the deposit (%v), spec says %d", at, s.A, got, err, s.Res)
			}
		case "touch":
			r.ws.GetAccountState(r.w.acct(s.A))
		case "snapshot":
			r.snaps[s.S-1] = r.ws.GetSnapshot()
			r.shash[s.S-1] = r.snaps[s.S-1].StateHash()
		case "reset":
			if err := r.ws.Reset(r.snaps[s.S-1]); err != nil {
				r.viol("ws:reset:error", "%s: %v", at, err)
			}
		case "clearcache":
			r.ws.ClearCache()
		case "flush":
			if err := r.snaps[s.S-1].Flush(); err != nil {
				r.viol("ws:flush:error", "%s: %v", at, err)
			}
		case "reload":
			h := r.snaps[s.S-1].StateHash()
			r.ws = state.NewWorldState(r.dbase, h, nil, nil, nil)
			reloaded := state.NewWorldSnapshot(r.dbase, h, nil, nil, nil)
			r.checkSnapshot(at, "the snapshot reloaded from the database", reloaded, s.Sn[s.S-1], "ws:reload")
			if !bytes.Equal(reloaded.StateHash(), h) {
				r.viol("ws:reload:hash", "%s: reloaded snapshot has hash %x, expected %x", at, reloaded.StateHash(), h)
			}
		default:
			panic("unknown op " + s.Op)
		}
		// the world state shows what the spec says
		for _, a := range r.accts {
			got, err := r.project(r.ws.GetAccountSnapshot(r.w.acct(a)))
			if err != nil {
				r.viol("ws:view:error", "%s: account %s: %v", at, a, err)
				continue
			}
			if !same(got, s.View[a], false) {
				key := "ws:view"
				if s.Op == "reset" {
					key = "ws:reset:restores"
				}
				r.viol(key, "%s: world state shows account %s as %+v, spec says %+v", at, a, got, s.View[a])
			}
		}
		// ... and so does the mutable account object of every cached account (AccountState getters read the object's own
		// fields, not a snapshot): balance, storage, contract and blocked flag straight after every call, in particular
		// after Reset and before any new write
		for _, a := range r.accts {
			if !s.CIn[a] {
				continue
			}
			as := r.ws.GetAccountState(r.w.acct(a)) // cached: returns the existing object
			want := s.View[a]
			if b := as.GetBalance(); b == nil || !b.IsInt64() || int(b.Int64()) != want.Bal {
				r.viol("ws:state:balance", "%s: account object of %s has balance %v, spec says %d", at, a, b, want.Bal)
			}
			if as.IsContract() != want.Ct || as.IsBlocked() != want.Bl {
				r.viol("ws:state:flags", "%s: account object of %s: contract=%v blocked=%v, spec says %v/%v", at, a, as.IsContract(), as.IsBlocked(), want.Ct, want.Bl)
			}
			for _, k := range r.keys {
				bs, err := as.GetValue(r.w.key(k))
				if err != nil || r.w.abs(bs) != want.St[k] {
					key := "ws:state:value"
					if s.Op == "reset" {
						key = "ws:reset:state-value"
					}
					r.viol(key, "%s: account object of %s: GetValue(%s) = %d (%v), spec says %d", at, a, k, r.w.abs(bs), err, want.St[k])
				}
			}
			if as.IsEmpty() && !want.Empty {
				r.viol("ws:state:empty", "%s: account object of %s says IsEmpty although the account has contents %+v", at, a, want)
			}
		}
		// every snapshot still shows what it showed when it was taken; its hash is stable and canonical
		for j, sn := range r.snaps {
			r.checkSnapshot(at, fmt.Sprintf("snapshot %d", j+1), sn, s.Sn[j], "ws:snapshot:changed")
			h := sn.StateHash()
			if !bytes.Equal(h, r.shash[j]) {
				r.viol("ws:snapshot:hash-changed", "%s: state hash of snapshot %d changed from %x to %x", at, j+1, r.shash[j], h)
			}
			r.checkHash(fmt.Sprintf("%s snapshot %d", at, j+1), s.Sn[j], h)
		}
		if len(r.f) > 0 {
			return i
		}
	}
	return -1
}

func TestReplay(t *testing.T) {
	if !tlaio.HaveInput() {
		t.Skip("driven by tools/check.py")
	}
	out := tlaio.OpenOut()
	rnd := tlaio.Rand()
	hashes := map[string][]byte{}
	err := tlaio.ReadInput(func(idx int, raw json.RawMessage) error {
		if !tlaio.Mine(idx) {
			return nil
		}
		var steps []step
		if err := json.Unmarshal(raw, &steps); err != nil {
			return err
		}
		id := fmt.Sprintf("b%d", idx)
		r := &runner{w: &world{salt: fmt.Sprintf("%x", rnd.Intn(4))}, hashes: hashes}
		if fx := os.Getenv("VERIF_FIX_SALT"); fx != "" {
			r.w.salt = fx
		}
		out.Begin(id, "ws:crash")
		at := r.run(steps)
		var sb strings.Builder
		nontrivial := false
		for _, s := range steps {
			fmt.Fprintf(&sb, "%s.%s.%s.%d.%d;", s.Op[:3], s.A, s.K, s.V, s.S)
			if s.Op == "reset" || s.Op == "reload" || s.Op == "clearcache" {
				nontrivial = true
			}
		}
		if len(r.f) > 0 {
			detail := map[string]interface{}{"behaviour": json.RawMessage(raw), "salt": r.w.salt, "at_step": at + 1}
			seen := map[string]bool{}
			for _, x := range r.f {
				if !seen[x.key] {
					seen[x.key] = true
					out.Violation(id, x.key, x.what, detail)
				}
			}
		} else {
			out.OK(id, nontrivial, sb.String())
		}
		return nil
	})
	if err != nil {
		t.Fatal(err)
	}
	out.Close(map[string]int{"distinct_contents_hashed": len(hashes)})
}
