package txauth

// Replays the case table of spec/data/TxAuth.tla into the real code (C13): Transaction.Verify()
// of version-3 transactions and the crypto.Signature primitives.  The TLA+ text is the oracle:
// a case names the claimed sender's key, the form of the from field, the signed message, the
// treatment applied to the signature's wire form, and carries the predicted verdict.  This driver
// maps abstract keys to real secp256k1 key pairs, messages to real transaction ids, applies the
// byte-level treatment to the real 65-byte [R|S|V] signature and compares the real verdict.

import (
	"bytes"
	"encoding/base64"
	"encoding/json"
	"fmt"
	"math/big"
	"math/rand"
	"testing"

	"github.com/icon-project/goloop/common"
	"github.com/icon-project/goloop/common/crypto"
	"github.com/icon-project/goloop/common/wallet"
	"github.com/icon-project/goloop/module"
	"github.com/icon-project/goloop/service/transaction"

	"verifharness/tlaio"
)

type sig struct {
	K   string `json:"k"`
	M   string `json:"m"`
	V   string `json:"v"`
	R   string `json:"r"`
	S   string `json:"s"`
	Len int    `json:"len"`
}

type step struct {
	Kind     string          `json:"kind"`
	Dt       string          `json:"dt"`
	Op       string          `json:"op"`
	Claimed  string          `json:"claimed"`
	Ff       string          `json:"ff"`
	M        string          `json:"m"`
	Sig      sig             `json:"sig"`
	K        string          `json:"k"`
	Hlen     int             `json:"hlen"`
	Res      json.RawMessage `json:"res"`
	Definite bool            `json:"definite"`
	Twin     bool            `json:"twin"` // same transaction content (same id) as the previous step, other signature
}

type key struct {
	priv *crypto.PrivateKey
	pub  *crypto.PublicKey
	w    module.Wallet
}

// order of the secp256k1 group (for the malleable twin N - S)
var curveN, _ = new(big.Int).SetString("fffffffffffffffffffffffffffffffebaaedce6af48a03bbfd25e8cd0364141", 16)

type world struct {
	rnd  *rand.Rand
	keys map[string]*key
}

func (w *world) key(id string) *key {
	if k, ok := w.keys[id]; ok {
		return k
	}
	priv, pub := crypto.GenerateKeyPair()
	wl, err := wallet.NewFromPrivateKey(priv)
	if err != nil {
		panic(err)
	}
	k := &key{priv, pub, wl}
	w.keys[id] = k
	return k
}

// from field for the claimed sender
func (w *world) from(claimed, ff string) string {
	id := append([]byte{}, w.key(claimed).w.Address().ID()...)
	switch ff {
	case "addr":
	case "lastbyte":
		id[len(id)-1] ^= 1 << uint(w.rnd.Intn(8))
	case "firstbyte":
		id[0] ^= 1 << uint(w.rnd.Intn(8))
	case "contract":
		return common.NewContractAddress(id).String()
	default:
		panic("unknown from form " + ff)
	}
	return common.NewAccountAddress(id).String()
}

// txJSON renders a transfer transaction; variant selects the message ("this" / "other" differ in the nonce)
// dataOf returns the recipient, value and the minimal well-formed dataType/data fields that the type's own checks in
// Verify() demand (call: a method; deploy: content, no value; deposit, patch: data present)
func dataOf(dt string, salt int) (to, value, extra string) {
	to, value = fmt.Sprintf("cx%040x", 0xc0de+salt), fmt.Sprintf("0x%x", 1000+salt)
	switch dt {
	case "message":
		return fmt.Sprintf("hx%040x", 0xbeef+salt), value, `,"dataType":"message","data":"0x48656c6c6f"`
	case "call":
		return to, value, `,"dataType":"call","data":{"method":"transfer","params":{"_to":"hx0000000000000000000000000000000000000001","_value":"0x1"}}`
	case "deploy":
		return "cx0000000000000000000000000000000000000000", "0x0", `,"dataType":"deploy","data":{"contentType":"application/zip","content":"0x504b0304","params":{"name":"x"}}`
	case "deposit_add":
		return to, value, `,"dataType":"deposit","data":{"action":"add"}`
	case "deposit_withdraw":
		return to, "0x0", `,"dataType":"deposit","data":{"action":"withdraw","id":"0x6b8b2a31f8f8e0c1d3f5a7b9c1d3e5f7a9b1c3d5e7f9a1b3c5d7e9f1a3b5c7d9"}`
	case "patch":
		return "cx0000000000000000000000000000000000000000", "0x0", `,"dataType":"patch","data":{"type":"skip_txs","data":"AQID"}`
	// payloads that the type's own checks reject
	case "call_nodata":
		return to, value, `,"dataType":"call"`
	case "call_nomethod":
		return to, value, `,"dataType":"call","data":{"params":{"_value":"0x1"}}`
	case "deploy_nodata":
		return "cx0000000000000000000000000000000000000000", "0x0", `,"dataType":"deploy"`
	case "deploy_value":
		return "cx0000000000000000000000000000000000000000", "0x1", `,"dataType":"deploy","data":{"contentType":"application/zip","content":"0x504b0304"}`
	case "patch_nodata":
		return "cx0000000000000000000000000000000000000000", "0x0", `,"dataType":"patch"`
	case "patch_badtype":
		return "cx0000000000000000000000000000000000000000", "0x0", `,"dataType":"patch","data":{"type":"unknown_patch","data":"AQID"}`
	case "deposit_nodata":
		return to, value, `,"dataType":"deposit"`
	case "neg_value":
		return fmt.Sprintf("hx%040x", 0xbeef+salt), "-0x1", ""
	case "neg_step":
		return fmt.Sprintf("hx%040x", 0xbeef+salt), value, "NEGSTEP"
	}
	return fmt.Sprintf("hx%040x", 0xbeef+salt), value, ""
}

func txJSON(kind, dt, from, msg string, salt int, sigB64 *string, id []byte) []byte {
	nonce := 1
	if msg != "this" {
		nonce = 2
	}
	if kind == "v2" { // version 2: no version field, fixed fee, tx_hash = id
		s := fmt.Sprintf(`{"from":"%s","to":"hx%040x","value":"0x%x","fee":"0x2386f26fc10000","timestamp":"%d","nonce":"0x%x"`,
			from, 0xbeef+salt, 1000+salt, 1516942975500598+salt, nonce)
		if id != nil {
			s += fmt.Sprintf(`,"tx_hash":"%x"`, id)
		}
		if sigB64 != nil {
			s += fmt.Sprintf(`,"signature":"%s"`, *sigB64)
		}
		return []byte(s + "}")
	}
	to, value, extra := dataOf(dt, salt)
	step := "0x186a0"
	if extra == "NEGSTEP" {
		step, extra = "-0x186a0", ""
	}
	s := fmt.Sprintf(`{"version":"0x3","from":"%s","to":"%s","value":"%s","stepLimit":"`+step+`","timestamp":"0x%x","nid":"0x1","nonce":"0x%x"%s`,
		from, to, value, 1600000000000000+salt, nonce, extra)
	if sigB64 != nil {
		s += fmt.Sprintf(`,"signature":"%s"`, *sigB64)
	}
	return []byte(s + "}")
}

// idOf returns the real id of the transaction the real parser sees
func idOf(js []byte) ([]byte, error) {
	tx, err := transaction.NewTransactionFromJSON(js)
	if err != nil {
		return nil, err
	}
	return tx.ID(), nil
}

// wire applies the treatment to a genuine [R|S|V] signature
func (w *world) wire(rsv []byte, s sig) []byte {
	b := append([]byte{}, rsv...)
	switch s.R {
	case "flip":
		b[w.rnd.Intn(32)] ^= 1 << uint(w.rnd.Intn(8))
	}
	switch s.S {
	case "flip":
		b[32+w.rnd.Intn(32)] ^= 1 << uint(w.rnd.Intn(8))
	case "neg":
		n := new(big.Int).Sub(curveN, new(big.Int).SetBytes(b[32:64]))
		n.FillBytes(b[32:64])
	}
	switch s.V {
	case "flip":
		b[64] ^= 1
	case "hi":
		b[64] += 2
	case "comp":
		b[64] += 4
	case "bad":
		b[64] = byte(8 + w.rnd.Intn(240))
	}
	switch s.Len {
	case 65:
	case 64:
		b = b[:64]
	case 63:
		b = b[:63]
	case 66:
		b = append(b, byte(w.rnd.Intn(256)))
	case 0:
		b = []byte{}
	default:
		panic("unknown length")
	}
	return b
}

func hashOfLen(id []byte, n int) []byte {
	switch {
	case n <= len(id):
		return id[:n]
	default:
		return append(append([]byte{}, id...), make([]byte, n-len(id))...)
	}
}

type fail struct {
	key, what string
	div       bool
}

func (w *world) run(s step, salt int) *fail {
	var want string
	var wantBool bool
	if err := json.Unmarshal(s.Res, &want); err != nil {
		if err := json.Unmarshal(s.Res, &wantBool); err != nil {
			return &fail{"txauth:driver", "bad res " + string(s.Res), true}
		}
	}
	signer := w.key(s.Sig.K)
	switch s.Op {
	case "submit":
		from := w.from(s.Claimed, s.Ff)
		// the id of THIS transaction and the message the signer actually signed (the id of the same transaction
		// with the other nonce when sig.m differs from m)
		thisID, err := idOf(txJSON(s.Kind, s.Dt, from, s.M, salt, nil, nil))
		if err != nil {
			return &fail{"txauth:driver", "cannot parse the unsigned transaction: " + err.Error(), true}
		}
		signedID, err := idOf(txJSON(s.Kind, s.Dt, from, s.Sig.M, salt, nil, nil))
		if err != nil {
			return &fail{"txauth:driver", err.Error(), true}
		}
		if (s.Sig.M == s.M) != bytes.Equal(thisID, signedID) {
			return &fail{"txauth:driver", "message concretization is not injective", true}
		}
		rsv, err := signer.w.Sign(signedID)
		if err != nil {
			return &fail{"txauth:driver", "cannot sign: " + err.Error(), true}
		}
		b64 := base64.StdEncoding.EncodeToString(w.wire(rsv, s.Sig))
		js := txJSON(s.Kind, s.Dt, from, s.M, salt, &b64, thisID)
		got := "accept"
		tx, err := transaction.NewTransactionFromJSON(js)
		if err != nil {
			got = "reject-parse"
		} else {
			if w.rnd.Intn(2) == 0 { // also through the stored form
				if tx2, err := transaction.NewTransaction(tx.Bytes()); err == nil {
					tx = tx2
				}
			}
			if !bytes.Equal(tx.ID(), thisID) {
				return &fail{"txauth:id", fmt.Sprintf("the signature changes the id: %x vs %x", tx.ID(), thisID), false}
			}
			if err := tx.Verify(); err != nil {
				got = "reject"
			}
		}
		if got == want {
			return nil
		}
		descr := fmt.Sprintf(s.Kind+" transaction, data type "+s.Dt+": claimed sender %s (from form %s), signature by %s over the id of %q (tx is %q), V %s, R %s, S %s, %d bytes",
			s.Claimed, s.Ff, s.Sig.K, s.Sig.M, s.M, s.Sig.V, s.Sig.R, s.Sig.S, s.Sig.Len)
		if got == "accept" {
			if s.Twin {
				return &fail{"txauth:accepted:afterverify:" + s.Dt, "after a transaction with the same id was verified in this process, Verify() ACCEPTS a copy it must reject: " + descr + "\n" + string(js), false}
			}
			return &fail{"txauth:accepted:" + s.Dt + ":" + classOf(s), "Verify() ACCEPTS a transaction it must reject: " + descr + "\n" + string(js), false}
		}
		if want == "accept" && s.Definite {
			return &fail{"txauth:rejected:genuine", "Verify() rejects (" + got + ") a transaction signed by its sender over its id: " + descr, false}
		}
		// reject vs reject-parse, or the malleable twin rejected: stricter than the model, not a violation
		return &fail{"txauth:stricter", "real verdict " + got + ", spec says " + want + ": " + descr, true}
	case "recover", "verify":
		base := crypto.SHA3Sum256([]byte(fmt.Sprintf("message-%s-%d", s.Sig.M, salt)))
		cur := crypto.SHA3Sum256([]byte(fmt.Sprintf("message-%s-%d", s.M, salt)))
		sg0, err := crypto.NewSignature(base, signer.priv)
		if err != nil {
			return &fail{"txauth:sign", "NewSignature fails: " + err.Error(), false}
		}
		rsv, err := sg0.SerializeRSV()
		if err != nil {
			return &fail{"txauth:sign", "SerializeRSV fails: " + err.Error(), false}
		}
		sg, err := crypto.ParseSignature(w.wire(rsv, s.Sig))
		if err != nil {
			return &fail{"txauth:parse", "ParseSignature rejects a 64/65 byte signature: " + err.Error(), false}
		}
		h := hashOfLen(cur, s.Hlen)
		if s.Op == "recover" {
			pk, err := sg.RecoverPublicKey(h)
			got := "stranger-or-error"
			if err == nil {
				for id, k := range w.keys {
					if k.pub.Equal(pk) {
						got = id
					}
				}
			}
			if want == "error" {
				if err == nil {
					return &fail{"txauth:recover:noerror", fmt.Sprintf("RecoverPublicKey succeeds where the spec says error (sig %+v, hash length %d)", s.Sig, s.Hlen), got == "stranger-or-error"}
				}
				return nil
			}
			if got == want {
				return nil
			}
			if got != "stranger-or-error" {
				return &fail{"txauth:recover:wrongkey", fmt.Sprintf("RecoverPublicKey yields key %s, spec says %s (sig %+v over %q, recovering for %q, hash length %d)", got, want, s.Sig, s.Sig.M, s.M, s.Hlen), false}
			}
			return &fail{"txauth:recover:lost", fmt.Sprintf("RecoverPublicKey does not yield the signer %s (err=%v, sig %+v)", want, err, s.Sig), !s.Definite}
		}
		got := sg.Verify(h, w.key(s.K).pub)
		if got == wantBool {
			return nil
		}
		if got {
			return &fail{"txauth:verify:accepts", fmt.Sprintf("Signature.Verify accepts: sig %+v checked for key %s over %q, hash length %d", s.Sig, s.K, s.M, s.Hlen), false}
		}
		return &fail{"txauth:verify:rejects", fmt.Sprintf("Signature.Verify rejects a genuine signature: sig %+v key %s", s.Sig, s.K), !s.Definite}
	case "roundtrip":
		h := crypto.SHA3Sum256([]byte(fmt.Sprintf("message-%s-%d", s.M, salt)))
		sg0, err := crypto.NewSignature(h, signer.priv)
		if err != nil {
			return &fail{"txauth:sign", "NewSignature fails: " + err.Error(), false}
		}
		var sg *crypto.Signature
		switch s.K {
		case "rsv":
			b, e := sg0.SerializeRSV()
			if e != nil {
				return &fail{"txauth:roundtrip", e.Error(), false}
			}
			sg, err = crypto.ParseSignature(b)
		case "vrs":
			b, e := sg0.SerializeVRS()
			if e != nil {
				return &fail{"txauth:roundtrip", e.Error(), false}
			}
			sg, err = crypto.ParseSignatureVRS(b)
		case "rs":
			b, e := sg0.SerializeRS()
			if e != nil {
				return &fail{"txauth:roundtrip", e.Error(), false}
			}
			sg, err = crypto.ParseSignature(b)
		}
		if err != nil {
			return &fail{"txauth:roundtrip", "parse after serialize fails: " + err.Error(), false}
		}
		if !sg.Verify(h, signer.pub) {
			return &fail{"txauth:roundtrip", "signature does not verify after the " + s.K + " round trip", false}
		}
		pk, err := sg.RecoverPublicKey(h)
		if want == "error" {
			if err == nil {
				return &fail{"txauth:roundtrip", "a signature without V recovers a key", false}
			}
			return nil
		}
		if err != nil || !pk.Equal(signer.pub) {
			return &fail{"txauth:roundtrip", fmt.Sprintf("recovery after the %s round trip does not yield the signer (err=%v)", s.K, err), false}
		}
		return nil
	}
	return &fail{"txauth:driver", "unknown op " + s.Op, true}
}

func classOf(s step) string {
	switch {
	case s.Sig.K != s.Claimed:
		return "otherkey"
	case s.Sig.M != s.M:
		return "otherid"
	case s.Ff != "addr":
		return "from-" + s.Ff
	default:
		return "malformed"
	}
}

func TestReplay(t *testing.T) {
	if !tlaio.HaveInput() {
		t.Skip("driven by tools/check.py")
	}
	out := tlaio.OpenOut()
	rnd := tlaio.Rand()
	w := &world{rnd: rnd, keys: map[string]*key{}}
	w.key("k1")
	w.key("k2")
	err := tlaio.ReadInput(func(idx int, raw json.RawMessage) error {
		var steps []step
		if err := json.Unmarshal(raw, &steps); err != nil {
			return err
		}
		id := fmt.Sprintf("a%d", idx)
		if !tlaio.Mine(idx) {
			return nil
		}
		if idx%64 == 0 { // fresh key pairs now and then
			w.keys = map[string]*key{}
			w.key("k1")
			w.key("k2")
		}
		var f *fail
		lastSalt := 0
		sigs := ""
		for _, s := range steps {
			sigs += fmt.Sprintf("%s:%s:%s:%s:%s:%s:%+v:%s:%d;", s.Kind, s.Dt, s.Op, s.Claimed, s.Ff, s.M, s.Sig, s.K, s.Hlen)
			func() {
				defer func() {
					if r := recover(); r != nil {
						f = &fail{"txauth:panic", fmt.Sprintf("the code under test panicked: %v (case %+v)", r, s), false}
					}
				}()
				salt := rnd.Intn(1 << 20)
				if s.Twin {
					salt = lastSalt
				}
				lastSalt = salt
				f = w.run(s, salt)
			}()
			if f != nil {
				break
			}
		}
		switch {
		case f == nil:
			out.OK(id, true, sigs)
		case f.div:
			out.Divergence(id, f.what, map[string]interface{}{"key": f.key})
		default:
			out.Violation(id, f.key, f.what, map[string]interface{}{"behaviour": steps})
		}
		return nil
	})
	if err != nil {
		t.Fatal(err)
	}
	out.Close(nil)
}
