package layerdb

// Replays behaviours of spec/state/LayerDB.tla into the real db.NewLayerDB (C19).
// The oracle is the TLA+ text: every step carries the spec's predicted result and the
// predicted projection (layer view and base store); this driver only concretizes abstract
// buckets/keys/values and reads the real projection back through the public API.

import (
	"bytes"
	"encoding/json"
	"fmt"
	"testing"

	"github.com/icon-project/goloop/common/db"

	"verifharness/tlaio"
)

type step struct {
	Op   string                    `json:"op"`
	B    string                    `json:"b"`
	K    string                    `json:"k"`
	V    int                       `json:"v"`
	Res  string                    `json:"res"`
	View map[string]map[string]int `json:"view"`
	Bs   map[string]map[string]int `json:"bs"`
}

var bucketIDs = map[string]db.BucketID{"b1": db.BytesByHash, "b2": db.TransactionLocatorByHash}

func conc(v int, salt byte) []byte {
	if v == 0 {
		return nil
	}
	// value 1: a short value, value 2: a longer one, value 3: the EMPTY value (stored, Has is true);
	// salt makes values of one run distinct from another's
	if v == 3 {
		return []byte{}
	}
	if v == 1 {
		return []byte{0x01, salt}
	}
	return bytes.Repeat([]byte{0xA0 + byte(v), salt}, 40)
}

func keyOf(k string, salt byte) []byte { return []byte("key-" + k + string([]byte{salt})) }

func abstractOf(bs []byte, has bool, salt byte) (int, error) {
	if !has {
		if bs != nil {
			return -1, fmt.Errorf("Has=false but Get returned %x", bs)
		}
		return 0, nil
	}
	if len(bs) == 0 {
		return 3, nil
	}
	for v := 1; v <= 2; v++ {
		if bytes.Equal(bs, conc(v, salt)) {
			return v, nil
		}
	}
	return -1, fmt.Errorf("unknown value %x", bs)
}

func project(d db.Database, salt byte) (map[string]map[string]int, error) {
	res := map[string]map[string]int{}
	for bn, bid := range bucketIDs {
		bk, err := d.GetBucket(bid)
		if err != nil {
			return nil, err
		}
		res[bn] = map[string]int{}
		for _, k := range []string{"x", "y"} {
			v, err := bk.Get(keyOf(k, salt))
			if err != nil {
				return nil, err
			}
			has, err := bk.Has(keyOf(k, salt))
			if err != nil {
				return nil, err
			}
			a, err := abstractOf(v, has, salt)
			if err != nil {
				return nil, fmt.Errorf("%s/%s: %v", bn, k, err)
			}
			res[bn][k] = a
		}
	}
	return res, nil
}

func eq(a, b map[string]map[string]int) bool {
	for bn, m := range a {
		for k, v := range m {
			if b[bn][k] != v {
				return false
			}
		}
	}
	return true
}

func runBehaviour(steps []step, salt byte, bucketsEarly bool) (int, string, string) {
	base := db.NewMapDB()
	ldb := db.NewLayerDB(base)
	var early map[string]db.Bucket
	if bucketsEarly { // bucket handles obtained before any flush keep working afterwards
		early = map[string]db.Bucket{}
		for bn, bid := range bucketIDs {
			bk, _ := ldb.GetBucket(bid)
			early[bn] = bk
		}
	}
	bucket := func(d db.Database, bn string) db.Bucket {
		if early != nil && d == db.Database(ldb) {
			return early[bn]
		}
		bk, err := d.GetBucket(bucketIDs[bn])
		if err != nil {
			panic(err)
		}
		return bk
	}
	for i, s := range steps {
		res := "ok"
		switch s.Op {
		case "set":
			// the layer stores the value it was given AT THE CALL: the caller's buffer is reused (overwritten) right after
			// the call, as callers that encode into a scratch buffer do; what is read back later must be unaffected
			var vbuf []byte
			if v := conc(s.V, salt); v != nil {
				vbuf = make([]byte, len(v))
				copy(vbuf, v)
			}
			err := bucket(ldb, s.B).Set(keyOf(s.K, salt), vbuf)
			for i := range vbuf {
				vbuf[i] ^= 0xa5
			}
			if err != nil {
				res = "error"
			}
		case "delete":
			if err := bucket(ldb, s.B).Delete(keyOf(s.K, salt)); err != nil {
				res = "error"
			}
		case "get":
			bk := bucket(ldb, s.B)
			v, err := bk.Get(keyOf(s.K, salt))
			has, err2 := bk.Has(keyOf(s.K, salt))
			if err != nil || err2 != nil {
				res = "error"
			} else if a, e := abstractOf(v, has, salt); e != nil || a != s.V {
				return i, "read", fmt.Sprintf("step %d get %s/%s returned %d (%v), spec says %d", i, s.B, s.K, a, e, s.V)
			}
		case "baseset":
			if err := bucket(base, s.B).Set(keyOf(s.K, salt), conc(s.V, salt)); err != nil {
				res = "error"
			}
		case "commit":
			if err := ldb.Flush(true); err != nil {
				res = "error"
			}
		case "discard":
			if err := ldb.Flush(false); err != nil {
				res = "error"
			}
		}
		if res != s.Res {
			return i, "result", fmt.Sprintf("step %d %s returned %s, spec says %s", i, s.Op, res, s.Res)
		}
		view, err := project(ldb, salt)
		if err != nil {
			return i, "view", fmt.Sprintf("step %d: %v", i, err)
		}
		if !eq(s.View, view) {
			return i, "view", fmt.Sprintf("step %d after %s: layer view %v, spec says %v", i, s.Op, view, s.View)
		}
		bs, err := project(base, salt)
		if err != nil {
			return i, "base", fmt.Sprintf("step %d: %v", i, err)
		}
		if !eq(s.Bs, bs) {
			return i, "base", fmt.Sprintf("step %d after %s: base store %v, spec says %v", i, s.Op, bs, s.Bs)
		}
	}
	return -1, "", ""
}

func TestReplay(t *testing.T) {
	if !tlaio.HaveInput() {
		t.Skip("driven by tools/check.py")
	}
	out := tlaio.OpenOut()
	rnd := tlaio.Rand()
	err := tlaio.ReadInput(func(idx int, raw json.RawMessage) error {
		var steps []step
		if err := json.Unmarshal(raw, &steps); err != nil {
			return err
		}
		salt := byte(rnd.Intn(256))
		early := rnd.Intn(2) == 0
		ops := ""
		nontrivial := false
		for _, s := range steps {
			ops += s.Op[:1]
			if s.Op == "commit" || s.Op == "discard" {
				nontrivial = true
			}
		}
		id := fmt.Sprintf("b%d", idx)
		out.Begin(id, "layerdb:crash")
		at, kind, what := runBehaviour(steps, salt, early)
		if at >= 0 {
			out.Violation(id, "layerdb:"+kind+":"+steps[at].Op, what, map[string]interface{}{"behaviour": steps, "salt": salt, "early": early})
		} else {
			out.OK(id, nontrivial, string(raw[:0])+sig(steps))
		}
		return nil
	})
	if err != nil {
		t.Fatal(err)
	}
	out.Close(nil)
}

func sig(steps []step) string {
	var b bytes.Buffer
	for _, s := range steps {
		fmt.Fprintf(&b, "%s%s%s%d;", s.Op[:2], s.B, s.K, s.V)
	}
	return b.String()
}
