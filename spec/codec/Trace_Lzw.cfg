SPECIFICATION TSpec
CONSTANTS
  Alphabet = {}
  MaxLen = 0
  CloseLens = {}
