SPECIFICATION Spec
CONSTANTS
  Alphabet <- Bytes
  MaxLen = 600
  CloseLens <- LastOnly
INVARIANT Emit
