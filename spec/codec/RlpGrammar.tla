---------------------------- MODULE RlpGrammar ----------------------------
(* Items, byte-stream elements and the header grammar of goloop's RLP format (common/codec/rlp.go), shared by
   Rlp.tla (streaming API) and RlpTyped.tla (reflective encoder of typed values).
     bytes  [k |-> "b", n |-> length, c |-> class]   class matters for n = 1 only: "lo" (< 0x80) / "hi"
     nil    [k |-> "nil"]                             encoded F8 00, distinct from the empty string 80
     list   [k |-> "l", items |-> <<...>>]
   d describes the payload where it is not arbitrary (digit classes of an integer), <<>> otherwise.
   Stream elements: [t |-> "h", v |-> byte value] a header byte, [t |-> "p", v |-> n, c |-> class] n payload bytes. *)
EXTENDS Integers, Sequences, FiniteSets, TLC

BytesItemD(n, c, d) == [k |-> "b", n |-> n, c |-> c, items |-> <<>>, d |-> d]
BytesItem(n, c) == BytesItemD(n, c, <<>>)
NilItem == [k |-> "nil", n |-> 0, c |-> "x", items |-> <<>>, d |-> <<>>]
ListItem(its) == [k |-> "l", n |-> 0, c |-> "x", items |-> its, d |-> <<>>]
H(v) == [t |-> "h", v |-> v, c |-> "x"]
P(n, c) == [t |-> "p", v |-> n, c |-> c]
Classes(n) == IF n = 1 THEN {"lo", "hi"} ELSE {"x"}

----------------------------------------------------------------------------
(* header grammar *)
RECURSIVE BE(_)
BE(n) == IF n < 256 THEN <<n>> ELSE BE(n \div 256) \o <<n % 256>>      \* minimal big-endian bytes, n > 0
Hs(bs) == [i \in 1..Len(bs) |-> H(bs[i])]
ElemSize(e) == IF e.t = "h" THEN 1 ELSE e.v
RECURSIVE Size(_)
Size(s) == IF s = <<>> THEN 0 ELSE ElemSize(s[1]) + Size(Tail(s))
StrHeader(n) == IF n <= 55 THEN <<H(128 + n)>> ELSE <<H(183 + Len(BE(n)))>> \o Hs(BE(n))
ListHeader(s) == IF s <= 55 THEN <<H(192 + s)>> ELSE <<H(247 + Len(BE(s)))>> \o Hs(BE(s))
RECURSIVE Enc(_), EncSeq(_)
Enc(it) ==
  CASE it.k = "nil" -> <<H(248), H(0)>>
    [] it.k = "b" -> IF it.n = 1 /\ it.c = "lo" THEN <<P(1, "lo")>>
                     ELSE StrHeader(it.n) \o (IF it.n = 0 THEN <<>> ELSE <<P(it.n, it.c)>>)
    [] it.k = "l" -> LET body == EncSeq(it.items) IN ListHeader(Size(body)) \o body
EncSeq(its) == IF its = <<>> THEN <<>> ELSE Enc(its[1]) \o EncSeq(Tail(its))

(* reference decoder of well-framed streams: parses the element stream back into items *)
\* value of the k header bytes at s[i..i+k-1]
RECURSIVE BEVal(_, _, _)
BEVal(s, i, k) == IF k = 0 THEN 0 ELSE BEVal(s, i, k - 1) * 256 + s[i + k - 1].v
\* the first j elements of s whose sizes add up to exactly n (0 if no such prefix)
RECURSIVE Take(_, _, _)
Take(s, j, n) == IF n = 0 THEN j ELSE IF j >= Len(s) \/ n < 0 THEN -1 ELSE Take(s, j + 1, n - ElemSize(s[j + 1]))
Bad == [ok |-> FALSE, items |-> <<>>]
RECURSIVE Parse(_)
\* Parse(s) = [ok, items]
Parse(s) ==
  IF s = <<>> THEN [ok |-> TRUE, items |-> <<>>]
  ELSE LET e == s[1] IN
    IF e.t = "p" THEN
       (IF e.v = 1 /\ e.c = "lo"
        THEN LET r == Parse(Tail(s)) IN [ok |-> r.ok, items |-> <<BytesItem(1, "lo")>> \o r.items]
        ELSE Bad)
    ELSE LET tag == e.v
             long == (tag > 183 /\ tag < 192) \/ tag > 247
             k == IF tag > 247 THEN tag - 247 ELSE IF long THEN tag - 183 ELSE 0
             sz == IF long THEN (IF Len(s) >= 1 + k /\ k <= 3 THEN BEVal(s, 2, k) ELSE -1)  \* sizes >= 2^24: beyond any input here
                   ELSE IF tag < 192 THEN tag - 128 ELSE tag - 192
             j == IF sz < 0 THEN -1 ELSE Take(SubSeq(s, 2 + k, Len(s)), 0, sz)
         IN IF tag < 128 \/ j < 0 THEN Bad
            ELSE LET body == SubSeq(s, 2 + k, 1 + k + j)
                     rest == Parse(SubSeq(s, 2 + k + j, Len(s)))
                     item == IF tag = 248 /\ sz = 0 THEN [ok |-> TRUE, it |-> NilItem]
                             ELSE IF tag < 192 THEN
                                (IF sz = 0 THEN [ok |-> TRUE, it |-> BytesItem(0, "x")]
                                 ELSE IF j = 1 /\ body[1].t = "p" THEN [ok |-> TRUE, it |-> BytesItem(sz, body[1].c)]
                                 ELSE [ok |-> FALSE, it |-> NilItem])
                             ELSE LET r == Parse(body) IN [ok |-> r.ok, it |-> ListItem(r.items)]
                 IN [ok |-> item.ok /\ rest.ok, items |-> <<item.it>> \o rest.items]
=============================================================================
