---- MODULE MC_RlpMsg ----
EXTENDS RlpMsg
====
