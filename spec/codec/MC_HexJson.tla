---- MODULE MC_HexJson ----
EXTENDS HexJson
ViewNoHist == <<mode, str, IF hist = <<>> THEN <<>> ELSE <<hist[1].op, hist[1]>>>>
AllLens == 0..100
SmallByteLens == 0..(HL + 1)
====
