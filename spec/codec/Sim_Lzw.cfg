SPECIFICATION Spec
CONSTANTS
  Alphabet <- Bytes
  MaxLen = 600
  CloseLens <- LastOnly
INVARIANTS TypeOK Lossless NoLeadingClear SizeOK
