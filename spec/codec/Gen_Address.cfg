SPECIFICATION Spec
CONSTANTS
  L = 20
  MaxStr = 44
  MaxBytes = 43
  FreeLen = 3
  Dev = 1
  CallLens <- GenCallLens
  CallBLens <- GenCallBLens
  ByteSet <- GenByteSet
INVARIANT Emit
