SPECIFICATION Spec
CONSTANTS
  L = 1
  MaxStr = 4
  MaxBytes = 3
  FreeLen = 4
  Dev = 4
  CallLens <- AllLens
  CallBLens <- AllLens
  ByteSet <- QuickBytes
VIEW ViewNoHist
INVARIANTS TypeOK StrictIsCanonical PrintParses RoundTrips BytesDecision EqualIsBytes Constructed
