SPECIFICATION Spec
CONSTANTS
  W = 2
  MaxLen = 7
  N = 5
  Cap = 10
  Free = 7
VIEW ViewNoHist
INVARIANTS TypeOK CanonSound DecSound DecComplete EncSound EncTotal RoundTrip
