SPECIFICATION Spec
CONSTANTS
  HL = 32
  MaxStr = 68
  FreeLen = 3
  Dev = 1
  CallLens <- GenCallLens
  ByteLens <- GenByteLens
INVARIANT Emit
