---------------------------- MODULE IntEnc ----------------------------
(* Integer <-> byte-string encodings of goloop (common/intconv/bytes.go, used by the RLP
   codec, HexInt and the state containers): minimal big-endian two's complement for signed and
   big integers, two's complement of a non-negative number for uint64 (Uint64ToBytes), plain
   unsigned for sizes (SizeToBytes).

   The module is parameterised by the digit width W: a "byte" is a digit 0..2^W-1.  The real code is
   the W = 8 instance.  Everything the decoders and encoders decide depends only on
     - the length of the string,
     - whether the leading digit is 0 (class "z"), all-ones (class "f"), and
     - the top bit of the first two digits (classes "z","p" = clear, "n","f" = set),
   so the transducer is defined over digit CLASSES (operators Canon, DecAccept, DecNum, EncEnabled,
   EncOut use nothing but 0, B-1 and Hi) and TLC checks it, for small W where integers fit into
   TLC's 32 bits, against the arithmetic meaning of the strings (Val, UVal, ranges, the reference
   encoder EncS): every string of up to MaxLen digits, every decoder, every encoder.

   One action per public call:
     Push        the caller assembles the input bytes
     Dec(k)      BigIntSetBytes / SafeBytesToInt64 / SafeBytesToUint64 / SafeBytesToSize64 / SafeBytesToSize
     Enc(k)      BigIntToBytes / Int64ToBytes / Uint64ToBytes / SizeToBytes applied to the decoded number
   An abstract number is identified with its canonical two's complement string (num).  hist carries
   for the Go driver the digit classes of the input, the predicted verdict, sign and the predicted
   output as "pre zero bytes followed by the input without its first drop bytes", and for every
   encoder output which decoders must read the same number back. *)
EXTENDS Integers, Sequences, FiniteSets, TLC
CONSTANTS W,        \* bits per digit
          MaxLen,   \* longest input explored
          N,        \* digits of the machine integer (8 bytes for int64/uint64)
          Free,     \* generator shaping: the first Free digits are arbitrary, later ones repeat the
                    \* previous digit or follow a fixed filler cycle (Free = MaxLen: all strings)
          Cap       \* beyond Cap digits only strings "Free digits + one repeated digit" are extended (by
                    \* the same digit) and only the big-integer decoder is called (Cap = MaxLen: no effect)

B == 2 ^ W
Half == B \div 2
Top == B - 1
Digits == 0 .. Top
Hi(d) == d >= Half                               \* sign bit of a digit
Cls(d) == IF d = 0 THEN "z" ELSE IF d = Top THEN "f" ELSE IF Hi(d) THEN "n" ELSE "p"
DecKinds == <<"big", "int", "uint", "size64", "size">>
EncKinds == <<"big", "int", "uint", "size">>
Rng(s) == {s[i] : i \in DOMAIN s}

VARIABLES buf,      \* digit string: input under construction, later the last encoder output
          src,      \* the input as given to the decoder
          num,      \* decoded number = canonical two's complement string
          phase,    \* "build" | "num" | "rej" | "out"
          dk,       \* decoder used
          ek,       \* last encoder used
          done,     \* encoders already applied to num
          hist
vars == <<buf, src, num, phase, dk, ek, done, hist>>

----------------------------------------------------------------------------
(* Class-level transducer (the oracle for the Go driver) *)
Redundant(s) == Len(s) > 1 /\ ((s[1] = 0 /\ ~Hi(s[2])) \/ (s[1] = Top /\ Hi(s[2])))
RECURSIVE Canon(_)
Canon(s) == IF s = <<>> THEN <<0>> ELSE IF Redundant(s) THEN Canon(Tail(s)) ELSE s
IsCanon(s) == s # <<>> /\ ~Redundant(s)
Neg(s) == s # <<>> /\ Hi(s[1])
IsZero(s) == s = <<0>>
\* minimal form of the input for decoder k (what the matching encoder would have produced)
IsCanonFor(k, s) == IF k \in {"size64", "size"} THEN Len(s) = 1 \/ (Len(s) > 1 /\ s[1] # 0) ELSE IsCanon(s)

DecAccept(k, s) ==
  CASE k = "big"    -> TRUE
    [] k = "int"    -> Len(s) <= N
    [] k = "uint"   -> \/ s = <<>>
                       \/ s[1] = 0 /\ Len(s) - 1 <= N         \* one leading zero byte is skipped
                       \/ s[1] # 0 /\ ~Hi(s[1]) /\ Len(s) <= N  \* a set sign bit is a negative number
    [] k = "size64" -> Len(s) <= N
    [] k = "size"   -> Len(s) <= N /\ ~(Len(s) = N /\ Hi(s[1]))  \* must not exceed MaxInt
DecNum(k, s) == IF k \in {"size64", "size"} THEN Canon(<<0>> \o s) ELSE Canon(s)

FitsS(n) == Len(n) <= N
FitsU(n) == ~Neg(n) /\ (Len(n) <= N \/ (Len(n) = N + 1 /\ n[1] = 0))
EncEnabled(k, n) ==
  CASE k = "big"  -> TRUE
    [] k = "int"  -> FitsS(n)
    [] k = "uint" -> FitsU(n)
    [] k = "size" -> FitsU(n)
EncOut(k, n) == IF k = "size" /\ Len(n) > 1 /\ n[1] = 0 THEN Tail(n) ELSE n

\* a string t that is a suffix of (0 \o s) described relative to s
Pre(s, t) == IF Len(t) > Len(s) THEN 1 ELSE 0
Drop(s, t) == IF Len(t) > Len(s) THEN 0 ELSE Len(s) - Len(t)
Rebuild(s, pre, drop) == (IF pre = 1 THEN <<0>> ELSE <<>>) \o SubSeq(s, drop + 1, Len(s))

\* what each decoder makes of an encoder output o of number n: same number / other number / rejected
Back(o, n) == [i \in 1..Len(DecKinds) |->
                 LET k == DecKinds[i] IN
                 IF ~DecAccept(k, o) THEN "rej" ELSE IF DecNum(k, o) = n THEN "same" ELSE "diff"]
\* the decoders that belong to an encoder (must return the number itself)
Own(k) == CASE k = "big" -> {"big"} [] k = "int" -> {"int", "big"} [] k = "uint" -> {"uint", "big"}
            [] k = "size" -> {"size64"}

----------------------------------------------------------------------------
Init == /\ buf = <<>> /\ src = <<>> /\ num = <<>> /\ phase = "build" /\ dk = "" /\ ek = ""
        /\ done = {} /\ hist = <<>>

Fill(i) == <<1 % B, Top, 0, Half>>[(i % 4) + 1]
Push(d) ==
  /\ phase = "build" /\ Len(buf) < MaxLen
  /\ IF Len(buf) < Free THEN TRUE
     ELSE IF Len(buf) < Cap THEN d \in {buf[Len(buf)], Fill(Len(buf))}
     ELSE d = buf[Len(buf)] /\ \A i \in (Free + 1)..Len(buf) : buf[i] = d
  /\ buf' = Append(buf, d)
  /\ UNCHANGED <<src, num, phase, dk, ek, done, hist>>

Dec(k) ==
  /\ phase = "build" /\ (IF Len(buf) <= Cap THEN TRUE ELSE k = "big")
  /\ src' = buf /\ dk' = k /\ ek' = "" /\ done' = {} /\ buf' = buf
  /\ LET ok == DecAccept(k, buf)
         n == IF ok THEN DecNum(k, buf) ELSE <<>>
     IN /\ phase' = IF ok THEN "num" ELSE "rej"
        /\ num' = n
        /\ hist' = <<[op |-> "dec", kind |-> k, in |-> [i \in 1..Len(buf) |-> Cls(buf[i])],
                      ok |-> ok, neg |-> ok /\ Neg(n), zero |-> ok /\ IsZero(n),
                      pre |-> IF ok THEN Pre(buf, n) ELSE 0, drop |-> IF ok THEN Drop(buf, n) ELSE 0,
                      canon |-> IsCanonFor(k, buf)]>>

Idx(k) == CHOOSE i \in 1..Len(EncKinds) : EncKinds[i] = k
Enc(k) ==
  /\ phase \in {"num", "out"} /\ k \notin done /\ EncEnabled(k, num)
  /\ \A j \in Rng(EncKinds) : Idx(j) < Idx(k) => (j \in done \/ ~EncEnabled(j, num))   \* fixed order
  /\ LET o == EncOut(k, num) IN
     /\ buf' = o /\ phase' = "out" /\ ek' = k /\ done' = done \cup {k}
     /\ hist' = Append(hist, [op |-> "enc", kind |-> k, pre |-> Pre(src, o), drop |-> Drop(src, o),
                              back |-> Back(o, num)])
  /\ UNCHANGED <<src, num, dk>>

Next == \/ \E d \in Digits : Push(d)
        \/ \E k \in Rng(DecKinds) : Dec(k)
        \/ \E k \in Rng(EncKinds) : Enc(k)
Spec == Init /\ [][Next]_vars

Complete == \/ phase = "rej"
            \/ phase \in {"num", "out"} /\ \A k \in Rng(EncKinds) : k \in done \/ ~EncEnabled(k, num)

----------------------------------------------------------------------------
(* Arithmetic meaning (only evaluated in the exhaustive configurations, small W) *)
Pow(b, n) == b ^ n
RECURSIVE UValN(_, _)
UValN(s, n) == IF n = 0 THEN 0 ELSE UValN(s, n - 1) * B + s[n]
UVal(s) == UValN(s, Len(s))                                   \* unsigned big-endian value
Val(s) == IF Neg(s) THEN UVal(s) - Pow(B, Len(s)) ELSE UVal(s)  \* two's complement value
InS(v, n) == -(Pow(B, n) \div 2) <= v /\ v < Pow(B, n) \div 2
InU(v, n) == 0 <= v /\ v < Pow(B, n)
RECURSIVE MinS(_, _), MinU(_, _)
MinS(v, n) == IF InS(v, n) THEN n ELSE MinS(v, n + 1)
MinU(v, n) == IF InU(v, n) THEN n ELSE MinU(v, n + 1)
MinLenS(v) == MinS(v, 1)            \* least number of digits holding v in two's complement
MinLenU(v) == MinU(v, 1)            \* least number of digits holding v >= 0 unsigned
\* reference encoders by arithmetic
EncS(v) == LET n == MinLenS(v) IN [i \in 1..n |-> ((v % Pow(B, n)) \div Pow(B, n - i)) % B]
EncU(v) == LET n == MinLenU(v) IN [i \in 1..n |-> (v \div Pow(B, n - i)) % B]

RefVal(k, s) == IF k \in {"size64", "size"} THEN UVal(s) ELSE Val(s)

\* every string: canonicalisation preserves the value, is minimal, and is what the reference encoder emits
CanonSound == phase = "build" =>
  /\ Val(Canon(buf)) = Val(buf)
  /\ Len(Canon(buf)) = MinLenS(Val(buf))
  /\ EncS(Val(buf)) = Canon(buf)
  /\ IsCanon(Canon(buf))
  /\ buf # <<>> => (IsCanonFor("size", buf) <=> buf = EncU(UVal(buf)))
\* decoders: an accepted input yields the reference value, and it is in the range of the type
DecSound == phase = "num" =>
  /\ IsCanon(num) /\ Val(num) = RefVal(dk, src)
  /\ dk = "int" => InS(Val(num), N)
  /\ dk = "uint" => InU(Val(num), N)
  /\ dk = "size64" => InU(Val(num), N)
  /\ dk = "size" => InU(Val(num), N) /\ InS(Val(num), N)
  /\ num = Rebuild(src, hist[1].pre, hist[1].drop)
\* decoders reject only what is not the minimal encoding of a number of the type
DecComplete == phase = "rej" =>
  CASE dk = "int"    -> ~(IsCanon(src) /\ InS(Val(src), N))
    [] dk = "uint"   -> ~(IsCanon(src) /\ InU(Val(src), N))
    [] dk = "size64" -> ~(IsCanonFor(dk, src) /\ InU(UVal(src), N))
    [] dk = "size"   -> ~(IsCanonFor(dk, src) /\ InU(UVal(src), N) /\ InS(UVal(src), N))
    [] OTHER         -> FALSE
\* encoders: enabled exactly for the numbers of the type; output is the minimal encoding of the number
EncSound == phase = "out" =>
  /\ ek = "int" => InS(Val(num), N)
  /\ ek \in {"uint", "size"} => InU(Val(num), N)
  /\ ek = "size" => buf = EncU(Val(num))
  /\ ek # "size" => buf = EncS(Val(num))
  /\ buf = Rebuild(src, hist[Len(hist)].pre, hist[Len(hist)].drop)
EncTotal == phase \in {"num", "out"} =>
  /\ EncEnabled("int", num) <=> InS(Val(num), N)
  /\ EncEnabled("uint", num) <=> InU(Val(num), N)
\* decoding an encoder's output with its own decoders gives the number back
RoundTrip == phase = "out" =>
  \A k \in Own(ek) : DecAccept(k, buf) /\ DecNum(k, buf) = num
TypeOK == /\ phase \in {"build", "num", "rej", "out"}
          /\ Len(buf) <= MaxLen + 1
          /\ done \subseteq Rng(EncKinds)
=============================================================================
