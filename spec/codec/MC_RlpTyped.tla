---- MODULE MC_RlpTyped ----
EXTENDS RlpTyped
====
