---- MODULE MC_Address ----
EXTENDS Address
ViewNoHist == <<fam, pc, str, byt, addr, held>>
AllLens == 0..100
QuickBytes == {B0, B1, <<"z", "d">>, <<"d", "a">>, <<"c", "z">>, <<"a", "c">>}
====
