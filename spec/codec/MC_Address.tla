---- MODULE MC_Address ----
EXTENDS Address
ViewNoHist == <<fam, pc, str, byt, addr>>
AllLens == 0..100
====
