SPECIFICATION MSpec
CONSTANTS
  Level = 1
  Family = "msg"
INVARIANT MEmit
