---- MODULE MC_IntEnc ----
EXTENDS IntEnc
\* exhaustive checker view: the history is a function of the other variables
ViewNoHist == <<buf, src, num, phase, dk, ek, done>>
====
