SPECIFICATION Spec
CONSTANTS
  HL = 1
  MaxStr = 5
  FreeLen = 5
  Dev = 5
  CallLens <- AllLens
  ByteLens <- SmallByteLens
INVARIANT Consistent
