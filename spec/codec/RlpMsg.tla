---------------------------- MODULE RlpMsg ----------------------------
(* Custom codec hooks on top of the typed model (RlpTyped) and the grammar (RlpGrammar):

   (M) consensus messages (consensus/message.go, votelist.go) - types with RLPEncodeSelf / RLPDecodeSelf or
       plain reflection, all emitting ONE LIST of their fields:
         proposal   [Signature, Height, Round, BlockPartSetID, POLRound, NID]        NID omitted when 0
         vote       [Signature, Height, Round, Type, BlockID, BlockPartSetIDAndNTSVoteCount, Timestamp,
                     [[NetworkTypeID, NetworkTypeSectionHash, NTSDProofPart] ...]]   last list omitted when empty
         blockpart  [Height, Index, BlockPart, Nonce]
         votelist   [[Prototypes, VoteItems]]   (VoteListMessage{*VoteList}, reflection over embedded structs)
       A message is described by a struct type of the typed model (the mirror) and `opt`: whether the last field
       is left out when it is empty; MsgItem / MsgBack give the item tree and the message the decoder returns.
   (T) codec.TypedObj / TypedDict (common/codec/typed.go, typeddict.go; EncodeAny / DecodeAny):
         nil [0, nil]   dict [1, [k1, v1, k2, v2 ...]] (keys ascending)   list [2, [...]]
         bytes [3, b]   string [4, s]   bool [5, 00|01]
   Actions: PickMsg(name), MarshalMsg(val);  MarshalAny(obj). *)
EXTENDS RlpTyped
CONSTANTS Family    \* "msg" | "any" | "both"

----------------------------------------------------------------------------
(* M: message schemas as struct types of the typed model *)
S(fs) == Ty("struct", fs)
PSID == Ty("ptr", <<S(<<Scalar("u16"), Scalar("bytes")>>)>>)
PSIDA == Ty("ptr", <<S(<<Scalar("u64"), Scalar("bytes")>>)>>)
NTS3 == S(<<Scalar("i64"), Scalar("bytes"), Scalar("bytes")>>)
NTS2 == S(<<Scalar("i64"), Scalar("bytes")>>)
VoteBaseT == S(<<Scalar("i64"), Scalar("i32"), Scalar("u8"), Scalar("bytes"), PSIDA, Ty("slice", <<NTS2>>)>>)
VoteItemT == S(<<Scalar("i16"), Scalar("i64"), Scalar("bytes"), Ty("slice", <<Scalar("bytes")>>)>>)
VoteListT == S(<<Ty("slice", <<VoteBaseT>>), Ty("slice", <<VoteItemT>>)>>)
MsgNames == {"proposal", "vote", "blockpart", "votelist"}
MsgType(name) ==
  CASE name = "proposal" -> S(<<Scalar("bytes"), Scalar("i64"), Scalar("i32"), PSID, Scalar("i32"), Scalar("u32")>>)
    [] name = "vote" -> S(<<Scalar("bytes"), Scalar("i64"), Scalar("i32"), Scalar("u8"), Scalar("bytes"), PSIDA,
                            Scalar("i64"), Ty("slice", <<NTS3>>)>>)
    [] name = "blockpart" -> S(<<Scalar("i64"), Scalar("u16"), Scalar("bytes"), Scalar("i32")>>)
    [] name = "votelist" -> S(<<Ty("ptr", <<VoteListT>>)>>)
MsgOpt(name) == name \in {"proposal", "vote"}

\* field value universes (small: boundaries of each field)
Hash32 == BlobV(32, "x")
SigVals == {BlobV(0, "x"), BlobV(65, "x")}                      \* no signature / a 65-byte signature
HVals == {IntV(<<"p">>), IntV(<<"p", "f", "f">>)}
RVals == {IntV(<<"z">>), IntV(<<"p">>)}
PSIDVals == {NilV, PtrV(StructV(<<IntV(<<"p">>), Hash32>>)), PtrV(StructV(<<IntV(<<"z", "n">>), NilV>>))}
POLVals == {IntV(<<"f">>), IntV(<<"z">>)}
NIDVals == {IntV(<<"z">>), IntV(<<"p">>), IntV(<<"z", "n", "p">>)}
VTVals == {IntV(<<"z">>), IntV(<<"one">>)}
BIDVals == {NilV, Hash32}
PSIDAVals == {NilV, PtrV(StructV(<<IntV(<<"p">>), Hash32>>)), PtrV(StructV(<<IntV(<<"p", "z", "p">>), Hash32>>))}
TSVals == {IntV(<<"z">>), IntV(<<"p", "f", "f", "f", "f", "f", "f">>)}
N3a == StructV(<<IntV(<<"p">>), Hash32, BlobV(2, "x")>>)
N3b == StructV(<<IntV(<<"z", "n">>), Hash32, BlobV(0, "x")>>)
NTSVals == {NilV, ListV(<<>>), ListV(<<N3a>>), ListV(<<N3a, N3b>>)}
N2a == StructV(<<IntV(<<"p">>), Hash32>>)
VB1 == StructV(<<IntV(<<"p">>), IntV(<<"z">>), IntV(<<"one">>), Hash32, PtrV(StructV(<<IntV(<<"p">>), Hash32>>)), NilV>>)
VB2 == StructV(<<IntV(<<"p", "f">>), IntV(<<"p">>), IntV(<<"z">>), NilV, NilV, ListV(<<N2a>>)>>)
VI1 == StructV(<<IntV(<<"z">>), IntV(<<"p", "f", "f", "f", "f", "f", "f">>), BlobV(65, "x"), NilV>>)
VI2 == StructV(<<IntV(<<"p">>), IntV(<<"z">>), BlobV(65, "x"), ListV(<<BlobV(2, "x"), BlobV(0, "x")>>)>>)
VLVals == {NilV} \cup {PtrV(StructV(<<p, i>>)) :
              p \in {NilV, ListV(<<>>), ListV(<<VB1>>), ListV(<<VB1, VB2>>)},
              i \in {NilV, ListV(<<VI1>>), ListV(<<VI1, VI2>>)}}
Fields(name) ==
  CASE name = "proposal" -> <<SigVals, HVals, RVals, PSIDVals, POLVals, NIDVals>>
    [] name = "vote" -> <<SigVals, HVals, RVals, VTVals, BIDVals, PSIDAVals, TSVals, NTSVals>>
    [] name = "blockpart" -> <<HVals, {IntV(<<"z">>), IntV(<<"z", "n">>)}, {NilV, BlobV(56, "x"), BlobV(256, "x")},
                               {IntV(<<"z">>), IntV(<<"n">>)}>>
    [] name = "votelist" -> <<VLVals>>
RECURSIVE Prod(_)
Prod(sets) == IF sets = <<>> THEN {<<>>}
              ELSE {<<x>> \o rest : x \in sets[1], rest \in Prod(Tail(sets))}
MsgVals(name) == {StructV(f) : f \in Prod(Fields(name))}

\* the last field is left out when it is empty (zero NID / no NTS votes)
Empty(v) == v.v = "nil" \/ (v.v = "int" /\ v.d = <<"z">>) \/ (v.v = "list" /\ v.items = <<>>)
MsgItem(name, val) ==
  LET full == ItemOf(MsgType(name), val)
      n == Len(full.items)
  IN IF MsgOpt(name) /\ Empty(val.items[n]) THEN ListItem(SubSeq(full.items, 1, n - 1)) ELSE full
\* the decoded message: a left-out NID is 0, left-out NTS votes are nil
MsgBack(name, val) ==
  LET b == Back(MsgType(name), val)
      n == Len(val.items)
  IN IF MsgOpt(name) /\ Empty(val.items[n]) /\ val.items[n].v = "list"
     THEN [b EXCEPT !.items[n] = NilV] ELSE b

----------------------------------------------------------------------------
(* T: TypedObj *)
TO(k, n, c, items, keys) == [k |-> k, n |-> n, c |-> c, items |-> items, keys |-> keys,
                           ord |-> Sorted("mapS", keys, 1..Len(keys))]   \* ord: dictionary entries in the order written
TNil == TO("tnil", 0, "x", <<>>, <<>>)
TBytes(n, c) == TO("tbytes", n, c, <<>>, <<>>)
TBytesNil == TO("tbytesnil", 0, "x", <<>>, <<>>)
TStr(n, c) == TO("tstr", n, c, <<>>, <<>>)
TBool(b) == TO("tbool", b, "x", <<>>, <<>>)
TList(xs) == TO("tlist", 0, "x", xs, <<>>)
TDict(ks, xs) == TO("tdict", 0, "x", xs, ks)
Tag(k) == CASE k = "tnil" -> "z" [] k = "tdict" -> "one" [] k = "tlist" -> "b2" [] k \in {"tbytes", "tbytesnil"} -> "b3"
            [] k = "tstr" -> "b4" [] k = "tbool" -> "b5"
TagItem(k) == BytesItemD(1, "lo", <<Tag(k)>>)
Leaves == {TNil, TBytes(0, "x"), TBytes(1, "lo"), TBytes(56, "x"), TBytesNil, TStr(0, "x"), TStr(1, "hi"), TStr(2, "x"),
           TBool(0), TBool(1)}
FewLeaves == {TNil, TBytes(1, "lo"), TStr(2, "x"), TBool(1)}
DictKeys == ({<<>>} \cup {<<k>> : k \in {"k0", "ka", "kab", "kb"}} \cup {<<k1, k2>> : k1, k2 \in {"k0", "ka", "kab", "kb"}})
            \ {<<k, k>> : k \in {"k0", "ka", "kab", "kb"}}
Level1Any == Leaves \cup {TList(<<>>)} \cup {TList(<<x>>) : x \in Leaves} \cup {TList(<<x, y>>) : x, y \in FewLeaves}
             \cup UNION {{TDict(ks, xs) : xs \in [1..Len(ks) -> FewLeaves]} : ks \in DictKeys}
Mid == {TList(<<TBool(1)>>), TList(<<>>), TDict(<<"kb", "ka">>, <<TStr(2, "x"), TNil>>), TDict(<<>>, <<>>)}
AnyVals == Level1Any \cup {TList(<<x, y>>) : x \in Mid, y \in FewLeaves \cup Mid}
           \cup {TDict(<<"kab", "k0">>, <<x, y>>) : x \in Mid, y \in FewLeaves}
RECURSIVE AnyItem(_)
AnyItem(o) ==
  ListItem(<<TagItem(o.k),
    CASE o.k = "tnil" -> NilItem
      [] o.k = "tbytesnil" -> NilItem
      [] o.k \in {"tbytes", "tstr"} -> BytesItem(o.n, o.c)
      [] o.k = "tbool" -> BytesItemD(1, "lo", <<IF o.n = 1 THEN "one" ELSE "z">>)
      [] o.k = "tlist" -> ListItem([i \in 1..Len(o.items) |-> AnyItem(o.items[i])])
      [] o.k = "tdict" -> LET ord == o.ord IN
           ListItem([j \in 1..(2 * Len(ord)) |->
                       IF j % 2 = 1 THEN KeyItem("mapS", o.keys[ord[(j + 1) \div 2]])
                       ELSE AnyItem(o.items[ord[j \div 2]])])>>)
\* DecodeAny(UnmarshalAny(..)) returns the same object (dict entries have no order: listed ascending)
RECURSIVE AnyBack(_)
AnyBack(o) ==
  CASE o.k = "tlist" -> TList([i \in 1..Len(o.items) |-> AnyBack(o.items[i])])
    [] o.k = "tdict" -> LET ord == o.ord IN
         TDict([j \in 1..Len(ord) |-> o.keys[ord[j]]], [j \in 1..Len(ord) |-> AnyBack(o.items[ord[j]])])
    [] OTHER -> o

----------------------------------------------------------------------------
VARIABLES mname, mdone, mhist
mvars == <<mname, mdone, mhist>>
MInit == Init /\ mname = "" /\ mdone = FALSE /\ mhist = <<>>
PickMsg(name) == Family \in {"msg", "both"} /\ mname = "" /\ mname' = name /\ UNCHANGED <<mdone, mhist, vars>>
MarshalMsg(val) ==
  /\ ~mdone /\ mdone' = TRUE /\ UNCHANGED <<mname, vars>>
  /\ mhist' = <<[op |-> "msg", name |-> mname, type |-> MsgType(mname), val |-> val, back |-> MsgBack(mname, val),
                 omitted |-> MsgOpt(mname) /\ Empty(val.items[Len(val.items)]),
                 stream |-> Enc(MsgItem(mname, val))]>>
MarshalAny(o) ==
  /\ Family \in {"any", "both"} /\ mname = "" /\ ~mdone /\ mdone' = TRUE /\ UNCHANGED <<mname, vars>>
  /\ mhist' = <<[op |-> "any", obj |-> o, back |-> AnyBack(o), stream |-> Enc(AnyItem(o))]>>
MNext == \/ \E name \in MsgNames : PickMsg(name)
         \/ mname # "" /\ ~mdone /\ \E val \in MsgVals(mname) : MarshalMsg(val)
         \/ Family \in {"any", "both"} /\ mname = "" /\ ~mdone /\ \E o \in AnyVals : MarshalAny(o)
MSpec == MInit /\ [][MNext]_<<mvars, vars>>
MComplete == mdone

----------------------------------------------------------------------------
(* Properties *)
\* the stream of every message / object obeys the grammar: it parses back to the item tree
MsgGrammar == (mdone /\ mhist[1].op = "msg") =>
  LET it == MsgItem(mname, mhist[1].val) IN Parse(Enc(it)) = [ok |-> TRUE, items |-> <<StripAll(it)>>]
AnyGrammar == (mdone /\ mhist[1].op = "any") =>
  LET it == AnyItem(mhist[1].obj) IN Parse(Enc(it)) = [ok |-> TRUE, items |-> <<StripAll(it)>>]
\* messages that the decoder tells apart have different encodings (in particular NID 0 vs NID > 0, no NTS vs NTS)
MsgInjective == (mdone /\ mhist[1].op = "msg" /\ mname # "votelist") =>
  \A v2 \in MsgVals(mname) :
     MsgItem(mname, v2) = MsgItem(mname, mhist[1].val) => MsgBack(mname, v2) = mhist[1].back
AnyInjective == (mdone /\ mhist[1].op = "any") =>
  \A o2 \in Level1Any : AnyItem(o2) = AnyItem(mhist[1].obj) => AnyBack(o2) = mhist[1].back
\* the optional last field: left out exactly when empty, and then the list is one item shorter
OptionalField == (mdone /\ mhist[1].op = "msg") =>
  Len(MsgItem(mname, mhist[1].val).items) = Len(mhist[1].val.items) - (IF mhist[1].omitted THEN 1 ELSE 0)
=============================================================================
