---- MODULE MC_HexText ----
EXTENDS HexText
ViewNoHist == <<mode, txt, neg, digs>>
====
