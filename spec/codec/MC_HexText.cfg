SPECIFICATION Spec
CONSTANTS
  HW = 2
  MaxText = 4
  MaxDigits = 5
  Widths = {2, 4}
  Free = 5
VIEW ViewNoHist
INVARIANTS TypeOK FitsSound FmtParses TIntCanon ParseSane
