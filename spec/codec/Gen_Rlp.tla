---- MODULE Gen_Rlp ----
EXTENDS Rlp, Json
Emit == Complete => PrintT(<<"B", ToJson(hist)>>)
====
