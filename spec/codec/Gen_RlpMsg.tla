---- MODULE Gen_RlpMsg ----
EXTENDS RlpMsg, Json
MEmit == MComplete => PrintT(<<"B", ToJson(mhist)>>)
====
