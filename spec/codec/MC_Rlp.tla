---- MODULE MC_Rlp ----
EXTENDS Rlp
ViewNoHist == <<phase, stk, tree, out, cur, devs, sdig, IF hist = <<>> THEN "" ELSE hist[Len(hist)].op>>
====
