---- MODULE Trace_Lzw ----
(* Validates recorded (input, output) pairs of the real common.Compress against the reference encoder of
   Lzw.tla: the batch trace.ndjson has one {"input": [...], "output": [...]} line per case.  The encoder is
   stepped over the input with the pure step functions of Lzw (FeedFn, CloseFn); the bytes each call emits
   are compared with the recorded output on the fly.  A mismatch sets `bad`, prints <<"BAD", case, offset, what>> and
   ends the run (no invariant violation: TLC needs minutes to print an error trace of thousands of states). *)
EXTENDS Lzw, Json
Trace == ndJsonDeserialize("trace.ndjson")
VARIABLES tr,     \* current case
          pos,    \* next input byte
          opos,   \* recorded output bytes matched so far
          bad,    \* <<>> or <<case, output offset, what>>
          fin
tvars == <<vars, tr, pos, opos, bad, fin>>
In == Trace[tr].input
Out == Trace[tr].output

Matches(bs) == /\ opos + Len(bs) <= Len(Out)
               /\ \A i \in 1..Len(bs) : Out[opos + i] = bs[i]
TInit == Init /\ tr = 1 /\ pos = 1 /\ opos = 0 /\ bad = <<>> /\ fin = (Len(Trace) = 0)
TFeed == /\ ~fin /\ bad = <<>> /\ pos <= Len(In)
         /\ LET r == FeedFn(Cur, In[pos]) IN
            /\ Apply(r.st)
            /\ IF Matches(r.bytes) THEN opos' = opos + Len(r.bytes) /\ bad' = bad
               ELSE /\ opos' = opos /\ bad' = <<tr, opos, "output differs from the reference encoder">>
                    /\ PrintT(<<"BAD", tr, opos, "output differs from the reference encoder">>)
         /\ pos' = pos + 1
         /\ UNCHANGED <<inp, out, closed, tr, fin>>
TClose == /\ ~fin /\ bad = <<>> /\ pos = Len(In) + 1
          /\ LET bs == IF Len(In) = 0 THEN <<>> ELSE CloseFn(Cur) IN
             IF Matches(bs) /\ opos + Len(bs) = Len(Out)
             THEN /\ bad' = bad /\ PrintT(<<"T", tr>>)
                  /\ IF tr < Len(Trace) THEN tr' = tr + 1 /\ fin' = fin ELSE tr' = tr /\ fin' = TRUE
             ELSE /\ bad' = <<tr, opos, "final bytes differ from the reference encoder">> /\ tr' = tr /\ fin' = fin
                  /\ PrintT(<<"BAD", tr, opos, "final bytes differ from the reference encoder">>)
          /\ pos' = 1 /\ opos' = 0
          /\ code' = -1 /\ dict' = <<>> /\ hi' = 257 /\ width' = 9 /\ overflow' = 512 /\ acc' = 0 /\ nbits' = 0
          /\ UNCHANGED <<inp, out, closed>>
TNext == TFeed \/ TClose
TSpec == TInit /\ [][TNext]_tvars
NoMismatch == bad = <<>>
====
