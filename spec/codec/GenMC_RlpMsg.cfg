SPECIFICATION MSpec
CONSTANTS
  Level = 1
  Family = "both"
INVARIANTS MsgGrammar AnyGrammar OptionalField MEmit
