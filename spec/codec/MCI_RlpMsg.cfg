SPECIFICATION MSpec
CONSTANTS
  Level = 1
  Family = "msg"
INVARIANTS MsgGrammar AnyGrammar OptionalField MsgInjective AnyInjective
