SPECIFICATION Spec
CONSTANTS
  HW = 2
  MaxText = 4
  MaxDigits = 17
  Widths = {4, 8, 16}
  Free = 2
INVARIANT Emit
