---------------------------- MODULE HexText ----------------------------
(* Text form of numbers in goloop (common/intconv/string.go, common/hexint.go, the "t_int" rule of
   server/jsonrpc/validator.go):
     FormatBigInt / FormatInt / FormatUint   number -> canonical text  -?0x<hex digits, no leading zero>
     ParseBigInt                             text -> big number (Go base-0 syntax with goloop's prefix rules)
     ParseInt / ParseUint (HexInt16..64)     text -> fixed-width number, out-of-range rejected

   Two families of behaviours:
   (T) text first: the caller types an arbitrary string over character classes (Type), then ParseBigInt
       is called (Parse).  The decision procedure below is a transcription of ParseBigInt together with
       the scanner of math/big (nat.scan, base 0: prefixes 0x 0b 0o 0, '_' separators); it predicts
       accept/reject, the sign, the base and WHICH characters are the digits.
   (N) number first: a number is built as sign + hex digits (Sign, Digit), then presented in one of the
       integer types (Present): the spec predicts whether it fits the type (from the digit count and the
       class of the leading digit only), and the canonical text; the text must parse back to the number.
   Digit width HW is a parameter (real code: 4 bits per hex digit); TLC checks the class-level
   decisions against integer arithmetic for small HW. *)
EXTENDS Integers, Sequences, FiniteSets, TLC
CONSTANTS HW,        \* bits per digit of the number family
          MaxText,   \* longest typed string
          MaxDigits, \* most digits of a number
          Widths,    \* digit counts of the fixed-width types (real: 4, 8, 16 hex digits)
          Free       \* generator shaping for the number family (Free >= MaxDigits: all digit strings)

\* character classes of the text family
\*   "0" | "1" | "7" = 2..7 | "9" = 8,9 | "a" = a c d e f | "b" | "A" = A C D E F | "B"
\*   "x" "X" "o" "O" "_" "-" "+" | "g" = any other letter
Chars == {"0", "1", "7", "9", "a", "b", "A", "B", "x", "X", "o", "O", "_", "-", "+", "g"}
DecDigit == {"0", "1", "7", "9"}
DigitVal(c) == CASE c = "0" -> 0 [] c = "1" -> 1 [] c = "7" -> 7 [] c = "9" -> 9
                 [] c \in {"a", "b", "A", "B"} -> 11 [] c \in {"g", "x", "X", "o", "O"} -> 16
                 [] OTHER -> 99
\* DigitVal is only compared with a base: 7 stands for 2..7 (valid from base 8), 9 for 8..9 (from 10),
\* 11 for the hex letters (from 16), 16 for other letters (never valid up to base 16)
ValidDigit(c, base) == c \in {"0", "1"} \/ (c # "_" /\ c # "-" /\ c # "+" /\ DigitVal(c) < base)

B == 2 ^ HW
HalfD == B \div 2
NDigits == 0 .. (B - 1)
NCls(d) == IF d = 0 THEN "0" ELSE IF d < HalfD THEN "lo" ELSE IF d = HalfD THEN "half" ELSE
           IF d = B - 1 THEN "top" ELSE "hi"
Kinds == {<<"big", 0>>} \cup {<<"i", w>> : w \in Widths} \cup {<<"u", w>> : w \in Widths}

VARIABLES mode,   \* "idle" | "text" | "number" | "done"
          txt,    \* typed characters (classes)
          neg,    \* number family: sign
          digs,   \* number family: hex digits, most significant first, no leading zero
          hist
vars == <<mode, txt, neg, digs, hist>>

----------------------------------------------------------------------------
(* ParseBigInt over character classes *)
StripMinus(t) == IF t # <<>> /\ t[1] = "-" THEN Tail(t) ELSE t
\* regexp `_([0-9]+)` -> "$1": an underscore directly followed by a decimal digit disappears
RemoveUs(t) == SelectSeq([i \in 1..Len(t) |-> IF t[i] = "_" /\ i < Len(t) /\ t[i + 1] \in DecDigit
                                               THEN "" ELSE t[i]], LAMBDA c : c # "")
\* positions of t kept by RemoveUs (to report digit positions in terms of the original string)
KeptPos(t) == SelectSeq([i \in 1..Len(t) |-> i],
                        LAMBDA i : ~(t[i] = "_" /\ i < Len(t) /\ t[i + 1] \in DecDigit))
Reject == [ok |-> FALSE, neg |-> FALSE, base |-> 0, digs |-> <<>>]

\* digits t[i..] of a number in `base`; sepOK: '_' allowed (base-0 mode);
\* prev: "dig" a digit or a base prefix precedes, "sep" a separator precedes, "none" nothing yet
RECURSIVE ScanDigits(_, _, _, _, _, _)
ScanDigits(t, i, base, sepOK, prev, acc) ==
  IF i > Len(t) THEN [ok |-> prev # "sep", digs |-> acc]
  ELSE IF t[i] = "_" THEN
         (IF sepOK /\ prev = "dig" THEN ScanDigits(t, i + 1, base, sepOK, "sep", acc)
          ELSE [ok |-> FALSE, digs |-> acc])
  ELSE IF ValidDigit(t[i], base) THEN ScanDigits(t, i + 1, base, sepOK, "dig", Append(acc, i))
  ELSE [ok |-> FALSE, digs |-> acc]

\* big.Int.SetString(s, 0): optional sign, prefix selects the base, '_' may separate digits
Scan0(t) ==
  LET sgn == t # <<>> /\ t[1] \in {"-", "+"}
      ng == t # <<>> /\ t[1] = "-"
      p == IF sgn THEN 2 ELSE 1                         \* first character of the magnitude
      n == Len(t) - p + 1                               \* characters of the magnitude
  IN IF n <= 0 THEN Reject
     ELSE IF t[p] = "0" /\ n = 1 THEN [ok |-> TRUE, neg |-> ng, base |-> 10, digs |-> <<p>>]
     ELSE IF t[p] = "0" THEN
       LET c == t[p + 1]
           base == IF c \in {"b", "B"} THEN 2 ELSE IF c \in {"o", "O"} THEN 8
                   ELSE IF c \in {"x", "X"} THEN 16 ELSE 8
           from == IF c \in {"b", "B", "o", "O", "x", "X"} THEN p + 2 ELSE p + 1
           r == ScanDigits(t, from, base, TRUE, "dig", <<>>)
       IN IF r.ok /\ r.digs # <<>>
          THEN [ok |-> TRUE, neg |-> ng, base |-> base, digs |-> r.digs]
          ELSE Reject
     ELSE LET r == ScanDigits(t, p, 10, TRUE, "none", <<>>)
          IN IF r.ok /\ r.digs # <<>>
             THEN [ok |-> TRUE, neg |-> ng, base |-> 10, digs |-> r.digs] ELSE Reject
\* big.Int.SetString(s, 10): optional sign, decimal digits only
Scan10(t, pos) ==
  LET sgn == t # <<>> /\ t[1] \in {"-", "+"}
      ng == t # <<>> /\ t[1] = "-"
      p == IF sgn THEN 2 ELSE 1
      r == ScanDigits(t, p, 10, FALSE, "none", <<>>)
  IN IF r.ok /\ r.digs # <<>>
     THEN [ok |-> TRUE, neg |-> ng, base |-> 10, digs |-> [i \in 1..Len(r.digs) |-> pos[r.digs[i]]]]
     ELSE Reject
ParseBig(t) ==
  LET s2 == StripMinus(t) IN
  IF Len(s2) > 1 /\ s2[1] = "0" THEN
     (IF s2[2] \in {"o", "O", "X", "b", "B"} THEN Reject
      ELSE IF s2[2] = "x" THEN Scan0(t)
      ELSE Scan10(RemoveUs(t), KeptPos(t)))
  ELSE Scan0(t)

\* jsonrpc validator rule t_int: ^0x(0|[1-9a-f][0-9a-f]*)$
LowerHex == {"0", "1", "7", "9", "a", "b"}
TInt(t) == /\ Len(t) >= 3 /\ t[1] = "0" /\ t[2] = "x"
           /\ \/ Len(t) = 3 /\ t[3] = "0"
              \/ t[3] \in LowerHex \ {"0"} /\ \A i \in 4..Len(t) : t[i] \in LowerHex

\* the text FormatBigInt would produce: optional minus, 0x, lower-case digits without leading zero
CanonText(t) == TInt(StripMinus(t)) /\ ~(t[1] = "-" /\ Len(t) = 4 /\ t[4] = "0")

----------------------------------------------------------------------------
(* number family: class-level decisions *)
AllZero(s) == \A i \in DOMAIN s : s[i] = 0
\* does sign+digits fit kind k ?  (two's complement width w digits / unsigned w digits)
Fits(k, ng, ds) ==
  IF k[1] = "big" THEN TRUE
  ELSE LET w == k[2] IN
       IF k[1] = "u" THEN ~ng /\ Len(ds) <= w
       ELSE \/ Len(ds) < w
            \/ Len(ds) = w /\ ds[1] < HalfD
            \/ Len(ds) = w /\ ng /\ ds[1] = HalfD /\ AllZero(Tail(ds))
\* canonical text of the number: sign, "0x", digits (a zero number is the single digit 0)
Tok(d) == CASE NCls(d) = "0" -> "0" [] NCls(d) = "lo" -> "1" [] NCls(d) = "half" -> "9" [] OTHER -> "a"
FmtText(ng, ds) == (IF ng THEN <<"-">> ELSE <<>>) \o <<"0", "x">> \o
                   (IF ds = <<>> THEN <<"0">> ELSE [i \in 1..Len(ds) |-> Tok(ds[i])])

----------------------------------------------------------------------------
Init == mode = "idle" /\ txt = <<>> /\ neg = FALSE /\ digs = <<>> /\ hist = <<>>

Type(c) == /\ mode \in {"idle", "text"} /\ Len(txt) < MaxText
           /\ mode' = "text" /\ txt' = Append(txt, c)
           /\ UNCHANGED <<neg, digs, hist>>
Parse == /\ mode \in {"idle", "text"}
         /\ mode' = "done"
         \* raw: the same characters as a bare JSON value (HexInt.UnmarshalJSON falls back to SetString(s, 0),
         \* without the prefix rules of ParseBigInt)
         /\ hist' = <<[op |-> "parse", text |-> txt, tint |-> TInt(txt), canon |-> CanonText(txt),
                       raw |-> Scan0(txt)] @@ ParseBig(txt)>>
         /\ UNCHANGED <<txt, neg, digs>>

\* shaping: Free arbitrary leading digits, then a run of one repeated digit, then at most one other digit
Tailed(ds) == Len(ds) > Free + 1 /\ ds[Len(ds)] # ds[Len(ds) - 1]
Digit(d) == /\ mode \in {"idle", "number"} /\ Len(digs) < MaxDigits
            /\ digs = <<>> => d # 0
            /\ ~Tailed(digs)
            /\ mode' = "number" /\ digs' = Append(digs, d)
            /\ UNCHANGED <<txt, neg, hist>>
Sign == /\ mode = "number" /\ ~neg /\ hist = <<>>
        /\ neg' = TRUE
        /\ UNCHANGED <<mode, txt, digs, hist>>
\* present the number in type k: String()/Format, and the text read back by the type's parser
Present(k) ==
  /\ mode \in {"idle", "number"}
  /\ mode' = "done"
  /\ txt' = FmtText(neg, digs)
  /\ hist' = <<[op |-> "present", kind |-> k[1], width |-> k[2],
                neg |-> neg, digs |-> [i \in 1..Len(digs) |-> NCls(digs[i])],
                fits |-> Fits(k, neg, digs),
                pfx |-> IF neg THEN "-0x" ELSE "0x", zero |-> digs = <<>>,
                tint |-> ~neg]>>
  /\ UNCHANGED <<neg, digs>>

Next == \/ \E c \in Chars : Type(c)
        \/ Parse
        \/ \E d \in NDigits : Digit(d)
        \/ Sign
        \/ \E k \in Kinds : Present(k)
Spec == Init /\ [][Next]_vars
Complete == mode = "done"

----------------------------------------------------------------------------
(* Theorems checked by TLC *)
RECURSIVE UValN(_, _)
UValN(s, n) == IF n = 0 THEN 0 ELSE UValN(s, n - 1) * B + s[n]
NumVal(ng, ds) == IF ng THEN -UValN(ds, Len(ds)) ELSE UValN(ds, Len(ds))
InKind(k, v) == IF k[1] = "big" THEN TRUE
                ELSE IF k[1] = "u" THEN 0 <= v /\ v < B ^ k[2]
                ELSE -((B ^ k[2]) \div 2) <= v /\ v < (B ^ k[2]) \div 2
\* the class-level range decision is the arithmetic one
FitsSound == mode \in {"idle", "number"} => \A k \in Kinds : Fits(k, neg, digs) <=> InKind(k, NumVal(neg, digs))
\* the canonical text of every number parses back to exactly its sign and digits (base 16), and the
\* validator rule t_int accepts it iff the number is not negative
FmtParses == mode \in {"idle", "number"} =>
  LET t == FmtText(neg, digs)
      r == ParseBig(t)
      off == IF neg THEN 3 ELSE 2
  IN /\ r.ok /\ r.base = 16 /\ r.neg = neg
     /\ IF digs = <<>> THEN r.digs = <<off + 1>>
        ELSE r.digs = [i \in 1..Len(digs) |-> off + i]
     /\ TInt(t) <=> ~neg
\* t_int accepts only canonical texts: accepted by ParseBigInt as a non-negative base-16 number whose
\* digits are all characters after the prefix, without a leading zero
TIntCanon == mode \in {"idle", "text"} =>
  (TInt(txt) => LET r == ParseBig(txt) IN
                /\ r.ok /\ ~r.neg /\ r.base = 16
                /\ r.digs = [i \in 1..(Len(txt) - 2) |-> i + 2]
                /\ (txt[3] = "0" => Len(txt) = 3))
\* an accepted text has at least one digit, only digits valid in its base, and a sign only at the front
ParseSane == mode \in {"idle", "text"} =>
  LET r == ParseBig(txt) IN
  r.ok => /\ r.digs # <<>>
          /\ \A i \in DOMAIN r.digs : ValidDigit(txt[r.digs[i]], r.base)
          /\ \A i \in 2..Len(txt) : txt[i] \notin {"-", "+"}
          /\ r.neg => txt[1] = "-"
TypeOK == mode \in {"idle", "text", "number", "done"} /\ Len(txt) <= MaxText + MaxDigits + 3
=============================================================================
