SPECIFICATION Spec
CONSTANTS
  Alphabet = {0, 1, 255}
  MaxLen = 7
  CloseLens <- AllLens
INVARIANT Emit
