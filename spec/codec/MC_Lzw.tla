---- MODULE MC_Lzw ----
EXTENDS Lzw
AllLens == 0..MaxLen
Bytes == 0..255
LastOnly == {MaxLen}
====
