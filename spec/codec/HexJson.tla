---------------------------- MODULE HexJson ----------------------------
(* JSON text forms of byte strings and flags (common/hexbytes.go, hexhash.go, hexbool.go, server/jsonrpc/type.go)
   and the JSON-RPC validator rules that guard them (server/jsonrpc/validator.go: t_hash, t_rhash, t_bool, t_int).
   HL = bytes of a hash (real code 32).  Characters are classes:
     "z" = 0, "1" = 1, "d" = 2..9, "b" = b, "a" = a c d e f   lower-case hex digits
     "A" = A..F, "x", "g" = other lower-case letters, "G" = other upper-case letters (X ...), "_" = anything else
   Two families, one decision-table row per call:
   (T) Type* then Judge: the same text given to HexBytes / RawHexBytes / HexHash / HexBool UnmarshalJSON,
       jsonrpc.HexBytes.Bytes, jsonrpc.HexInt.BigInt and to the validator rules
   (B) a byte string (length, all-zero?, nil) marshalled as HexBytes / RawHexBytes / HexHash and read back *)
EXTENDS Integers, Sequences, FiniteSets, TLC
CONSTANTS HL, MaxStr, FreeLen, Dev, CallLens, ByteLens

Chars == {"z", "1", "d", "b", "a", "A", "x", "g", "G", "_"}
LowerHex == {"z", "1", "d", "b", "a"}
Hex == LowerHex \cup {"A"}
AllIn(t, from, S) == \A i \in from..Len(t) : t[i] \in S

VARIABLES mode, str, hist
vars == <<mode, str, hist>>

Pfx(t) == Len(t) >= 2 /\ t[1] = "z" /\ t[2] = "x"
Skip(t) == IF Pfx(t) THEN 2 ELSE 0
\* HexBytes: optional 0x, then an even number of hex digits of any case
HexBytesOK(t) == AllIn(t, Skip(t) + 1, Hex) /\ (Len(t) - Skip(t)) % 2 = 0
\* RawHexBytes: no prefix
RawHexOK(t) == AllIn(t, 1, Hex) /\ Len(t) % 2 = 0
\* HexHash: optional 0x, exactly 2*HL hex digits; the all-zero hash is the nil hash
HexHashOK(t) == AllIn(t, Skip(t) + 1, Hex) /\ Len(t) - Skip(t) = 2 * HL
ZeroBody(t) == AllIn(t, Skip(t) + 1, {"z"})
HexBoolOK(t) == Len(t) = 3 /\ Pfx(t) /\ t[3] \in {"z", "1"}
THash(t) == Len(t) = 2 * HL + 2 /\ Pfx(t) /\ AllIn(t, 3, LowerHex)
TRHash(t) == Len(t) = 2 * HL + 2 /\ t[1] \in {"z", "b"} /\ t[2] = "x" /\ AllIn(t, 3, LowerHex)
TInt(t) == Len(t) >= 3 /\ Pfx(t) /\ ((Len(t) = 3 /\ t[3] = "z") \/ (t[3] \in LowerHex \ {"z"} /\ AllIn(t, 4, LowerHex)))
\* canonical HexBytes text: what MarshalJSON writes
CanonBytes(t) == Pfx(t) /\ AllIn(t, 3, LowerHex) /\ Len(t) % 2 = 0

Row(t) == [op |-> "text", text |-> t, skip |-> Skip(t),
           hexbytes |-> HexBytesOK(t), rawhex |-> RawHexOK(t), hexhash |-> HexHashOK(t),
           zero |-> HexHashOK(t) /\ ZeroBody(t), hexbool |-> HexBoolOK(t), boolval |-> HexBoolOK(t) /\ t[3] = "1",
           thash |-> THash(t), trhash |-> TRHash(t), tbool |-> HexBoolOK(t), tint |-> TInt(t), canon |-> CanonBytes(t)]

Init == mode = "idle" /\ str = <<>> /\ hist = <<>>
FillC(i) == IF i = 1 THEN "z" ELSE IF i = 2 THEN "x" ELSE <<"z", "1", "d", "b", "a">>[(i % 5) + 1]
Devs(t) == Cardinality({i \in 1..Len(t) : t[i] # FillC(i)})
Type(c) == /\ mode \in {"idle", "text"} /\ Len(str) < MaxStr
           /\ IF Len(str) < FreeLen THEN TRUE ELSE Devs(Append(str, c)) <= Dev
           /\ mode' = "text" /\ str' = Append(str, c) /\ UNCHANGED hist
Judge == /\ mode \in {"idle", "text"} /\ Len(str) \in CallLens
         /\ mode' = "done" /\ hist' = <<Row(str)>> /\ UNCHANGED str
\* a byte string of n bytes (zero: all bytes 00; nil: the nil slice) written as JSON by the three types
MarshalB(n, zero, nil) ==
  /\ mode = "idle" /\ (nil => (n = 0 /\ zero)) /\ (n = 0 => zero)
  /\ mode' = "done" /\ UNCHANGED str
  /\ hist' = <<[op |-> "bytes", n |-> n, zero |-> zero, nil |-> nil,
                \* HexBytes / RawHexBytes: null for nil, else (0x) + 2n lower-case digits, read back as the same bytes
                \* HexHash: nil and the zero hash are both written as 0x00..00 (HL bytes) and read back as nil
                hashtext |-> IF nil \/ (zero /\ n = HL) THEN "zero" ELSE "hex",
                hashback |-> IF nil \/ (zero /\ n = HL) THEN "nil" ELSE IF n = HL THEN "same" ELSE "reject"]>>
\* the JSON value null: the byte types read nil, the flag and the number types reject it
JudgeNull == /\ mode = "idle" /\ mode' = "done" /\ UNCHANGED str
             /\ hist' = <<[op |-> "null", hexbytes |-> TRUE, rawhex |-> TRUE, hexhash |-> TRUE, hexbool |-> FALSE,
                            hexint |-> FALSE]>>
Next == \/ \E c \in Chars : Type(c)
        \/ Judge
        \/ JudgeNull
        \/ \E n \in ByteLens, zero \in BOOLEAN, nil \in BOOLEAN : MarshalB(n, zero, nil)
Spec == Init /\ [][Next]_vars
Complete == mode = "done"

(* Properties *)
\* the validator rules accept only canonical texts that the parsers read, and every canonical hash text
Consistent == mode \in {"idle", "text"} =>
  /\ THash(str) => (HexBytesOK(str) /\ HexHashOK(str) /\ CanonBytes(str) /\ TRHash(str) /\ ~RawHexOK(str))
  /\ TRHash(str) /\ str[1] = "z" => THash(str)
  /\ (CanonBytes(str) /\ Len(str) = 2 * HL + 2) <=> THash(str)
  /\ CanonBytes(str) => HexBytesOK(str)
  /\ HexHashOK(str) => HexBytesOK(str)
  /\ RawHexOK(str) /\ HexBytesOK(str) => ~Pfx(str)
  /\ TInt(str) => (Pfx(str) /\ Len(str) >= 3)
  /\ HexBoolOK(str) => TInt(str)
=============================================================================
