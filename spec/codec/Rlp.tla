---------------------------- MODULE Rlp ----------------------------
(* goloop's RLP codec at the level of its streaming API (common/codec/rlp.go rlpWriter / rlpReader behind
   codec.Encoder / codec.Decoder, common/codec/codec.go).

   A value is a tree of items:
     bytes  [k |-> "b", n |-> length, c |-> class]   class matters for n = 1 only: "lo" (< 0x80) / "hi"
     nil    [k |-> "nil", n |-> 0, c |-> "x"]         encoded F8 00, distinct from the empty string 80
     list   [k |-> "l", items |-> <<...>>]

   The byte stream is a sequence of elements  [t |-> "h", v |-> byte value]   one header byte
                                               [t |-> "p", v |-> n, c |-> class] a run of n payload bytes
   Header grammar (Enc): single byte < 0x80 is its own encoding; strings up to 55 bytes 0x80+n; longer ones
   0xB7+k followed by the k-byte big-endian length; lists 0xC0+s / 0xF7+k likewise over the payload size.

   One action per public call:
     encoder  EncBytes, EncNil, EncList (EncodeList), EncEnd (leave the sub-encoder), Finish (Close)
     decoder  DecBytes (DecodeBytes), DecList (DecodeList), DecSkip (Skip(1)), DecPop (continue with the parent)
     attacker Corrupt: truncation of the stream / a size field inflated beyond its container
     scalar   Scalar: a byte string of digit classes decoded into a fixed-width integer type
   hist carries the calls with the results the spec predicts and, at Finish / Corrupt, the predicted stream. *)
EXTENDS RlpGrammar
CONSTANTS Lens,       \* lengths of byte strings
          MaxDepth,   \* nesting of lists
          MaxItems,   \* items per list (and at top level)
          MaxNodes,   \* items in the whole value
          MaxDev,     \* decoder: calls other than "read the next item as what it is"
          ScalarLen   \* scalar family: longest byte string

----------------------------------------------------------------------------
VARIABLES phase,   \* "enc" | "dec" | "bad" | "scalar" | "done"
          stk,     \* encoder: item sequences of the open lists, innermost last
          tree,    \* the encoded top-level items
          out,     \* the byte stream
          cur,     \* decoder: stack of frames [items, pos]
          devs,    \* decoder deviations used
          sdig,    \* scalar family: the digit classes typed so far
          hist
vars == <<phase, stk, tree, out, cur, devs, sdig, hist>>

RECURSIVE Nodes(_), NodesSeq(_)
Nodes(it) == 1 + NodesSeq(it.items)
NodesSeq(its) == IF its = <<>> THEN 0 ELSE Nodes(its[1]) + NodesSeq(Tail(its))
RECURSIVE StkNodes(_)
StkNodes(st) == IF st = <<>> THEN 0 ELSE NodesSeq(st[1]) + 1 + StkNodes(Tail(st))
Top == stk[Len(stk)]
CanAdd == phase = "enc" /\ Len(Top) < MaxItems /\ StkNodes(stk) - 1 < MaxNodes
Put(it) == stk' = [stk EXCEPT ![Len(stk)] = Append(@, it)]
Log(r) == hist' = Append(hist, r)
Call(op, n, c, res) == [op |-> op, n |-> n, c |-> c, res |-> res]
\* decoder calls also say which item they are at: the path of 1-based indices from the top level
DCall(op, n, c, res, at) == [op |-> op, n |-> n, c |-> c, res |-> res, at |-> at]

Init == /\ phase = "enc" /\ stk = <<<<>>>> /\ tree = <<>> /\ out = <<>> /\ cur = <<>> /\ devs = 0
        /\ sdig = <<>> /\ hist = <<>>

EncBytes(n, c) == /\ CanAdd /\ Put(BytesItem(n, c)) /\ Log(Call("bytes", n, c, "ok"))
                  /\ UNCHANGED <<phase, tree, out, cur, devs, sdig>>
\* an object with MarshalRLP hands its own encoding to the writer (WriteRaw); the item is what that encoding holds
RawItems == {BytesItem(1, "lo"), NilItem, ListItem(<<>>), ListItem(<<BytesItem(1, "lo"), NilItem>>)}
            \cup {BytesItem(n, "x") : n \in (Lens \cap {0, 56})}
EncRaw(it) == /\ CanAdd /\ StkNodes(stk) - 1 + Nodes(it) <= MaxNodes
              /\ Put(it)
              /\ Log([op |-> "raw", n |-> 0, c |-> "x", res |-> "ok", item |-> it, stream |-> Enc(it)])
              /\ UNCHANGED <<phase, tree, out, cur, devs, sdig>>
EncNil == /\ CanAdd /\ Put(NilItem) /\ Log(Call("nil", 0, "x", "ok"))
          /\ UNCHANGED <<phase, tree, out, cur, devs, sdig>>
EncList == /\ CanAdd /\ Len(stk) <= MaxDepth
           /\ stk' = Append(stk, <<>>) /\ Log(Call("list", 0, "x", "ok"))
           /\ UNCHANGED <<phase, tree, out, cur, devs, sdig>>
EncEnd == /\ phase = "enc" /\ Len(stk) > 1
          /\ stk' = [SubSeq(stk, 1, Len(stk) - 1) EXCEPT ![Len(stk) - 1] = Append(@, ListItem(Top))]
          /\ Log(Call("end", 0, "x", "ok"))
          /\ UNCHANGED <<phase, tree, out, cur, devs, sdig>>
\* Close: the stream is complete; hist records the predicted bytes
Finish == /\ phase = "enc" /\ Len(stk) = 1 /\ Top # <<>>
          /\ tree' = Top /\ out' = EncSeq(Top)
          /\ phase' = "dec" /\ cur' = <<[items |-> Top, pos |-> 1]>>
          /\ hist' = Append(hist, [op |-> "finish", n |-> Size(EncSeq(Top)), c |-> "x", res |-> "ok",
                                   stream |-> EncSeq(Top)])
          /\ UNCHANGED <<stk, devs, sdig>>

Frame == cur[Len(cur)]
AtEnd == Frame.pos > Len(Frame.items)
NextItem == Frame.items[Frame.pos]
Advance == cur' = [cur EXCEPT ![Len(cur)].pos = @ + 1]
Path == [f \in 1..Len(cur) |-> IF f < Len(cur) THEN cur[f].pos - 1 ELSE cur[f].pos]
\* DecodeBytes: a string item is returned, nil is reported as nil, a list is a format error (the decoder is
\* unusable afterwards), the end of the enclosing list is io.EOF
DecBytes ==
  /\ phase = "dec"
  /\ IF AtEnd THEN /\ Len(cur) = 1        \* (inside a list the caller uses DecPop after eof)
                   /\ Log(DCall("dbytes", 0, "x", "eof", Path)) /\ UNCHANGED <<cur, devs>>
                   /\ phase' = "done"
     ELSE IF NextItem.k = "l" THEN /\ devs < MaxDev /\ devs' = devs + 1 /\ phase' = "done"
                                   /\ Log(DCall("dbytes", 0, "x", "invalid", Path)) /\ UNCHANGED cur
     ELSE /\ Log(DCall("dbytes", NextItem.n, NextItem.c, IF NextItem.k = "nil" THEN "nil" ELSE "ok", Path))
          /\ Advance /\ UNCHANGED <<devs, phase>>
  /\ UNCHANGED <<stk, tree, out, sdig>>
DecList ==
  /\ phase = "dec" /\ ~AtEnd
  /\ IF NextItem.k = "l" THEN /\ cur' = Append([cur EXCEPT ![Len(cur)].pos = @ + 1],
                                               [items |-> NextItem.items, pos |-> 1])
                              /\ Log(DCall("dlist", Len(NextItem.items), "x", "ok", Path)) /\ UNCHANGED <<devs, phase>>
     ELSE IF NextItem.k = "nil" THEN /\ devs < MaxDev /\ devs' = devs + 1 /\ Advance /\ UNCHANGED phase
                                     /\ Log(DCall("dlist", 0, "x", "nil", Path))
     ELSE /\ devs < MaxDev /\ devs' = devs + 1 /\ phase' = "done" /\ UNCHANGED cur
          /\ Log(DCall("dlist", 0, "x", "invalid", Path))
  /\ UNCHANGED <<stk, tree, out, sdig>>
\* an object with UnmarshalRLP receives the raw encoding of the next item, whatever it is (ReadRaw)
DecRaw ==
  /\ phase = "dec" /\ ~AtEnd /\ devs < MaxDev
  /\ devs' = devs + 1 /\ Advance
  /\ Log(DCall("draw", 0, "x", "ok", Path) @@ [stream |-> Enc(NextItem)])
  /\ UNCHANGED <<phase, stk, tree, out, sdig>>
DecSkip ==
  /\ phase = "dec" /\ ~AtEnd /\ devs < MaxDev
  /\ devs' = devs + 1 /\ Advance /\ Log(DCall("dskip", 0, "x", "ok", Path))
  /\ UNCHANGED <<phase, stk, tree, out, sdig>>
\* the caller goes on with the enclosing decoder; unread items of the list are discarded.
\* full = all items were read (then the sub-decoder reports eof first)
DecPop ==
  /\ phase = "dec" /\ Len(cur) > 1
  /\ AtEnd \/ devs < MaxDev
  /\ devs' = IF AtEnd THEN devs ELSE devs + 1
  /\ cur' = SubSeq(cur, 1, Len(cur) - 1)
  /\ Log(DCall("dpop", 0, "x", IF AtEnd THEN "eof" ELSE "early", Path))
  /\ UNCHANGED <<phase, stk, tree, out, sdig>>

(* malformed input: derived from the well-formed stream of a single top-level value *)
\* cut the stream after `keep` bytes (1 <= keep < total)
RECURSIVE Cut(_, _)
Cut(s, keep) == IF keep <= 0 \/ s = <<>> THEN <<>>
                ELSE IF ElemSize(s[1]) <= keep THEN <<s[1]>> \o Cut(Tail(s), keep - ElemSize(s[1]))
                ELSE <<P(keep, s[1].c)>>
\* positions (element indices) of the headers of string/list items with an explicit size, with the size they
\* claim and the bytes that follow the item inside its container
RECURSIVE Sized(_, _, _)
\* walk the stream of a sequence of items starting at element index i; room = bytes of the container after
\* these items' start.  Returns a set of [at, kind, size, hlen, after].
ItemLen(it) == Size(Enc(it))
Sized(its, i, room) ==
  IF its = <<>> THEN {}
  ELSE LET it == its[1]
           whole == ItemLen(it)
           enc == Enc(it)
           hlen == IF it.k = "l" THEN Len(ListHeader(Size(EncSeq(it.items))))
                   ELSE IF it.k = "b" /\ ~(it.n = 1 /\ it.c = "lo") THEN Len(StrHeader(it.n)) ELSE 0
           here == IF it.k = "l" \/ (it.k = "b" /\ hlen > 0)
                   THEN {[at |-> i, kind |-> it.k, size |-> whole - hlen, hlen |-> hlen, after |-> room - whole]}
                   ELSE {}
           inner == IF it.k = "l" THEN Sized(it.items, i + hlen, whole - hlen) ELSE {}
       IN here \cup inner \cup Sized(Tail(its), i + Len(enc), room - whole)
\* replace the header at element index `at` (hlen elements) by the header for a bigger size
Reheader(s, z, newsize) ==
  SubSeq(s, 1, z.at - 1)
    \o (IF z.kind = "l" THEN ListHeader(newsize) ELSE StrHeader(newsize))
    \o SubSeq(s, z.at + z.hlen, Len(s))

\* Skip(1) over the first item looks at its header only: it succeeds iff the header is complete and the input
\* holds the bytes the header announces (what is inside a list is not examined)
TopSkipOK(s) ==
  IF s = <<>> THEN FALSE
  ELSE IF s[1].t = "p" THEN TRUE
  ELSE LET tag == s[1].v
           long == (tag > 183 /\ tag < 192) \/ tag > 247
           k == IF tag > 247 THEN tag - 247 ELSE IF long THEN tag - 183 ELSE 0
       IN IF tag < 128 THEN TRUE
          ELSE IF Len(s) < 1 + k \/ k > 3 \/ (\E i \in 2..(1 + k) : s[i].t # "h") THEN FALSE
          ELSE LET sz == IF long THEN BEVal(s, 2, k) ELSE IF tag < 192 THEN tag - 128 ELSE tag - 192
               IN Size(SubSeq(s, 2 + k, Len(s))) >= sz
CLog(n, c, st) == Log([op |-> "corrupt", n |-> n, c |-> c, res |-> "reject", stream |-> st,
                       skip |-> IF TopSkipOK(st) THEN "ok" ELSE "reject"])
Corrupt ==
  /\ phase = "dec" /\ hist[Len(hist)].op = "finish" /\ Len(tree) = 1
  /\ \/ \E keep \in ({1, 2, Size(out) - 1, Size(out) \div 2} \cup {Size(SubSeq(out, 1, j)) : j \in 1..Len(out)})
                        \cap (1..(Size(out) - 1)) :
          /\ out' = Cut(out, keep)
          /\ CLog(keep, "truncate", Cut(out, keep))
     \/ \E z \in Sized(tree, 1, Size(out)) : \E extra \in {1, Size(out)} :
          LET ns == z.size + z.after + extra IN
          /\ out' = Reheader(out, z, ns)
          /\ CLog(ns, "inflate", Reheader(out, z, ns))
     \/ \E z \in Sized(tree, 1, Size(out)) :
          \* an 8-byte size field holding MaxInt64, or a value above it (first byte FF)
          \E top \in {127, 255} :
          LET hs == <<H(IF z.kind = "l" THEN 255 ELSE 191), H(top)>> \o [i \in 1..7 |-> H(255)]
              st == SubSeq(out, 1, z.at - 1) \o hs \o SubSeq(out, z.at + z.hlen, Len(out))
          IN /\ out' = st
             /\ CLog(top, "huge", st)
  /\ phase' = "bad"
  /\ UNCHANGED <<stk, tree, cur, devs, sdig>>

(* scalar family: a byte string over digit classes z = 00, p = 01..7f, n = 80..fe, f = ff decoded into a
   fixed-width integer (readIntValue / readUintValue): accepted iff the number fits the type *)
Hi(d) == d \in {"n", "f"}
Redundant(s) == Len(s) > 1 /\ ((s[1] = "z" /\ ~Hi(s[2])) \/ (s[1] = "f" /\ Hi(s[2])))
RECURSIVE Canon(_)
Canon(s) == IF s = <<>> THEN <<"z">> ELSE IF Redundant(s) THEN Canon(Tail(s)) ELSE s
IntOK(s, w) == Len(s) <= 8 /\ Len(Canon(s)) <= w
UintOK(s, w) == /\ s = <<>> \/ (s[1] = "z" /\ Len(s) <= 9) \/ (s[1] \in {"p", "o"} /\ Len(s) <= 8)
                /\ LET cn == Canon(s) IN Len(cn) <= w \/ (Len(cn) = w + 1 /\ cn[1] = "z")
\* "o" is the byte 01 (a "p" byte that matters for bool); width 0 = the platform types int / uint (8 bytes)
BoolOK(s) == UintOK(s, 8) /\ Canon(s) \in {<<"z">>, <<"o">>}
W8(w) == IF w = 0 THEN 8 ELSE w
Targets == {<<"bool", 1>>, <<"int", 0>>, <<"uint", 0>>, <<"int", 1>>, <<"int", 2>>, <<"int", 4>>, <<"int", 8>>,
            <<"uint", 1>>, <<"uint", 2>>, <<"uint", 4>>, <<"uint", 8>>}
\* the caller assembles the byte string (shaping: two free leading digits, a third that repeats or differs,
\* then repetitions)
SPush(d) ==
  /\ phase \in {"enc", "scalar"} /\ hist = <<>> /\ stk = <<<<>>>> /\ Len(sdig) < ScalarLen
  /\ IF Len(sdig) < 2 THEN TRUE
     ELSE IF Len(sdig) = 2 THEN d \in {sdig[2], <<"p", "f", "z", "n">>[(Len(sdig) % 4) + 1]}
     ELSE d = sdig[Len(sdig)]
  /\ sdig' = Append(sdig, d) /\ phase' = "scalar"
  /\ UNCHANGED <<stk, tree, out, cur, devs, hist>>
Scalar(tg) ==
  /\ phase \in {"enc", "scalar"} /\ hist = <<>> /\ stk = <<<<>>>>
  /\ phase' = "done"
  /\ Log([op |-> "scalar", n |-> tg[2], c |-> tg[1], digits |-> sdig, canon |-> sdig # <<>> /\ ~Redundant(sdig),
          res |-> IF (CASE tg[1] = "int" -> IntOK(sdig, W8(tg[2])) [] tg[1] = "uint" -> UintOK(sdig, W8(tg[2]))
                           [] OTHER -> BoolOK(sdig)) THEN "ok" ELSE "reject"])
  /\ UNCHANGED <<stk, tree, out, cur, devs, sdig>>

Next == \/ \E n \in Lens : \E c \in Classes(n) : EncBytes(n, c)
        \/ EncNil
        \/ \E it \in RawItems : EncRaw(it)
        \/ DecRaw
        \/ EncList
        \/ EncEnd
        \/ Finish
        \/ DecBytes
        \/ DecList
        \/ DecSkip
        \/ DecPop
        \/ Corrupt
        \/ \E d \in {"z", "o", "p", "n", "f"} : SPush(d)
        \/ \E tg \in Targets : Scalar(tg)
Spec == Init /\ [][Next]_vars

Complete == phase \in {"done", "bad"}

----------------------------------------------------------------------------
(* Properties (C23) *)
TypeOK == /\ phase \in {"enc", "dec", "bad", "scalar", "done"}
          /\ Len(stk) >= 1 /\ Len(stk) <= MaxDepth + 1
\* decoding the encoding gives the value back, nil and empty strings distinct; the stream has the length the
\* headers announce
RoundTrip == phase = "dec" => Parse(out) = [ok |-> TRUE, items |-> tree]
\* nil, the empty string and the empty list have three different encodings
Distinct3 == /\ Enc(NilItem) # Enc(BytesItem(0, "x"))
             /\ Enc(NilItem) # Enc(ListItem(<<>>))
             /\ Enc(BytesItem(0, "x")) # Enc(ListItem(<<>>))
ASSUME Distinct3
\* a corrupted stream is not the encoding of any value: the reference decoder rejects it as well
CorruptRejected == phase = "bad" => ~Parse(out).ok
=============================================================================
