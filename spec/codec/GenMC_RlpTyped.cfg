SPECIFICATION Spec
CONSTANTS
  Level = 1
INVARIANTS TypedRoundTrip MapsSorted Emit
