---- MODULE Gen_HexText ----
EXTENDS HexText, Json
Emit == Complete => PrintT(<<"B", ToJson(hist)>>)
====
