---- MODULE Gen_IntEnc ----
EXTENDS IntEnc, Json
\* one behaviour = input assembled, one decoder call, then every applicable encoder on the decoded number
Emit == Complete => PrintT(<<"B", ToJson(hist)>>)
====
