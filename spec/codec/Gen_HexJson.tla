---- MODULE Gen_HexJson ----
EXTENDS HexJson, Json
GenCallLens == {0, 1, 2, 3, 4, 5, 2 * HL, 2 * HL + 1, 2 * HL + 2, 2 * HL + 3, 2 * HL + 4}
GenByteLens == {0, 1, 2, HL - 1, HL, HL + 1}
Emit == Complete => PrintT(<<"B", ToJson(hist)>>)
====
