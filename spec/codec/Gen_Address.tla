---- MODULE Gen_Address ----
EXTENDS Address, Json
GenByteSet == {B0, B1, <<"z", "d">>, <<"d", "a">>, <<"c", "z">>}
GenCallLens == {0, 1, 2, 3, 4, 2 * L, 2 * L + 1, 2 * L + 2, 2 * L + 3, 2 * L + 4}
GenCallBLens == {0, 1, L - 1, L, L + 1, L + 2, 2 * L + 2}
Emit == Complete => PrintT(<<"B", ToJson(hist)>>)
====
