---- MODULE Gen_Lzw ----
EXTENDS Lzw, Json
AllLens == 0..MaxLen
Bytes == 0..255
LastOnly == {MaxLen}
\* one behaviour = one input fed byte by byte and closed; the state itself carries the prediction
Emit == closed => PrintT(<<"B", ToJson([input |-> inp, output |-> out])>>)
====
