SPECIFICATION Spec
CONSTANTS
  Lens = {0, 1, 55, 56}
  MaxDepth = 2
  MaxItems = 2
  MaxNodes = 3
  MaxDev = 1
  ScalarLen = 10
INVARIANTS TypeOK RoundTrip CorruptRejected Emit
