---------------------------- MODULE RlpTyped ----------------------------
(* The reflective encoder / decoder of goloop's codec (common/codec/codec.go: encodeValue / decodeValue)
   over typed Go values: which item tree a value of a given type is written as, and which value comes back.

   Types      [t |-> kind, e |-> <<element types>>]
     scalars  "i8" "i16" "i32" "i64" "u8" "u16" "u32" "u64" "bool" "str" "bytes" ([]byte) "big" (*big.Int)
     "ptr" <<T>>, "slice" <<T>>, "struct" <<T1..Tn>>, "mapS"/"mapI"/"mapU" <<T>> (string / int64 / uint64 keys)
   Values     [v |-> kind, d, n, c, items, keys]
     "int"    d = canonical two's complement digit classes (z = 00, p = 01..7f, n = 80..fe, f = ff)
     "bool"   n = 0 / 1
     "blob"   string or byte string of n bytes (c: class of a single byte)
     "nil"    nil pointer / slice / map / []byte / *big.Int
     "ptr"    items = <<pointee>>;  "list" / "struct" items;  "map" keys (names, see Keys*), items and ord
   Mapping (ItemOf): integers as minimal byte strings, bool as 00/01, strings and []byte as byte strings,
   nil as the nil item, pointers as their pointee, slices and structs as lists, maps as lists of key, value
   in ascending key order.  Back(type, value) is the value the decoder returns: everything as written, except
   for pointers whose pointee is written as nil (see Back).

   Actions: PickType(ty), then Marshal(ty, val) = MarshalToBytes followed by UnmarshalFromBytes into a
   fresh value of the type. *)
EXTENDS RlpGrammar
CONSTANTS Level     \* 1: scalars, pointers, slices, maps and structs of scalars;  2: one more level of nesting

Ty(t, e) == [t |-> t, e |-> e]
V(v, d, n, c, items, keys, ord) == [v |-> v, d |-> d, n |-> n, c |-> c, items |-> items, keys |-> keys, ord |-> ord]
NilV == V("nil", <<>>, 0, "x", <<>>, <<>>, <<>>)
IntV(d) == V("int", d, 0, "x", <<>>, <<>>, <<>>)
BoolV(b) == V("bool", <<>>, b, "x", <<>>, <<>>, <<>>)
BlobV(n, c) == V("blob", <<>>, n, c, <<>>, <<>>, <<>>)
PtrV(x) == V("ptr", <<>>, 0, "x", <<x>>, <<>>, <<>>)
ListV(xs) == V("list", <<>>, 0, "x", xs, <<>>, <<>>)
StructV(xs) == V("struct", <<>>, 0, "x", xs, <<>>, <<>>)
\* ord: the entry positions in the order the encoder writes them
MapV(ks, xs, ord) == V("map", <<>>, 0, "x", xs, ks, ord)

----------------------------------------------------------------------------
(* value universes *)
\* canonical integers that fit w bytes signed: a representative of every length 1..w and sign pattern
RECURSIVE Rep(_, _)
Rep(x, n) == IF n = 0 THEN <<>> ELSE <<x>> \o Rep(x, n - 1)
SignedVals(w) ==
  {<<"z">>, <<"p">>, <<"n">>, <<"f">>} \cup
  (IF w >= 2 THEN {<<"z", "n">>, <<"f", "p">>, <<"p">> \o Rep("f", w - 1), <<"n">> \o Rep("z", w - 1)} ELSE {})
\* non-negative integers below 2^(8w) in two's complement: a leading zero byte when the top bit is set
UnsignedVals(w) ==
  {<<"z">>, <<"p">>, <<"z", "n">>, <<"z", "f">>} \cup
  (IF w >= 2 THEN {<<"p">> \o Rep("f", w - 1), <<"z", "n">> \o Rep("z", w - 1), <<"z", "f">> \o Rep("f", w - 1)} ELSE {})
BlobVals == {BlobV(0, "x"), BlobV(1, "lo"), BlobV(1, "hi"), BlobV(2, "x"), BlobV(55, "x"), BlobV(56, "x")}
Width(t) == CASE t \in {"i8", "u8"} -> 1 [] t \in {"i16", "u16"} -> 2 [] t \in {"i32", "u32"} -> 4 [] OTHER -> 8
ScalarTypes == {"i8", "i16", "i32", "i64", "u8", "u16", "u32", "u64", "bool", "str", "bytes", "big"}
ScalarVals(t) ==
  CASE t \in {"i8", "i16", "i32", "i64"} -> {IntV(d) : d \in SignedVals(Width(t))}
    [] t \in {"u8", "u16", "u32", "u64"} -> {IntV(d) : d \in UnsignedVals(Width(t))}
    [] t = "bool" -> {BoolV(0), BoolV(1)}
    [] t = "str" -> BlobVals
    [] t = "bytes" -> BlobVals \cup {NilV}
    [] t = "big" -> {NilV} \cup {IntV(d) : d \in SignedVals(8) \cup {<<"p">> \o Rep("f", 9), <<"n">> \o Rep("z", 9)}}

\* map keys by name, listed in ascending order of the concrete keys (strings: "", "a", "ab", "b";
\* integers by value, which the digit classes determine)
KeysS == <<"k0", "ka", "kab", "kb">>
KeyItemS(k) == CASE k = "k0" -> BytesItemD(0, "x", <<k>>) [] k = "kab" -> BytesItemD(2, "x", <<k>>)
                 [] OTHER -> BytesItemD(1, "lo", <<k>>)
KeysI == <<<<"n", "z">>, <<"f">>, <<"z">>, <<"p">>, <<"z", "n">>, <<"p", "p">>>>   \* < -256, -1, 0, 1..127, 128..254, >= 257
KeysU == <<<<"z">>, <<"p">>, <<"z", "n">>, <<"p", "p">>>>
Cls1(d) == IF Len(d) = 1 THEN (IF d[1] \in {"z", "p", "one"} THEN "lo" ELSE "hi") ELSE "x"   \* "one" = the byte 01
IntItem(d) == BytesItemD(Len(d), Cls1(d), d)
KeySeq(t) == CASE t = "mapS" -> KeysS [] t = "mapI" -> KeysI [] OTHER -> KeysU
KeyItem(t, k) == IF t = "mapS" THEN KeyItemS(k) ELSE IntItem(k)
KeyPos(t, k) == CHOOSE i \in 1..Len(KeySeq(t)) : KeySeq(t)[i] = k
\* key sequences of 0..2 distinct keys in any (insertion) order
KeyLists(t) == LET ks == {KeySeq(t)[i] : i \in 1..Len(KeySeq(t))} IN
               ({<<>>} \cup {<<k>> : k \in ks} \cup {<<k1, k2>> : k1, k2 \in ks}) \ {<<k, k>> : k \in ks}

\* a few values of the element types used inside composites (keeps the enumeration small)
ElemTypes == {"i64", "u8", "str", "bytes", "big", "bool"}
ElemVals(t) ==
  CASE t = "i64" -> {IntV(<<"z">>), IntV(<<"n">>), IntV(<<"p">> \o Rep("f", 7))}
    [] t = "u8" -> {IntV(<<"p">>), IntV(<<"z", "f">>)}
    [] t = "str" -> {BlobV(0, "x"), BlobV(1, "hi"), BlobV(56, "x")}
    [] t = "bytes" -> {NilV, BlobV(0, "x"), BlobV(1, "lo")}
    [] t = "big" -> {NilV, IntV(<<"z">>), IntV(<<"z", "n">>)}
    [] t = "bool" -> {BoolV(1)}

\* entries of a map in ascending key order: positions of val.keys sorted by KeyPos
RECURSIVE Sorted(_, _, _)
Sorted(t, ks, todo) ==
  IF todo = {} THEN <<>>
  ELSE LET i == CHOOSE i \in todo : \A j \in todo : KeyPos(t, ks[i]) <= KeyPos(t, ks[j])
       IN <<i>> \o Sorted(t, ks, todo \ {i})
ArrLen(t) == CASE t = "arrb1" -> 1 [] t = "arrb2" -> 2 [] OTHER -> 32
RECURSIVE Vals(_, _)
\* values of type ty; wide = the full scalar universe (top level) or the reduced one (inside composites)
Vals(ty, wide) ==
  CASE ty.t \in {"arrb1", "arrb2", "arrb32"} ->
         (IF ty.t = "arrb1" THEN {BlobV(1, "lo"), BlobV(1, "hi")} ELSE {BlobV(ArrLen(ty.t), "x")})
    [] ty.t = "arr2" -> {ListV(<<x, y>>) : x, y \in Vals(ty.e[1], FALSE)}
    [] ty.t \in ScalarTypes -> IF wide THEN ScalarVals(ty.t) ELSE ElemVals(ty.t)
    [] ty.t = "ptr" -> {NilV} \cup {PtrV(x) : x \in Vals(ty.e[1], FALSE)}
    [] ty.t = "slice" -> {NilV, ListV(<<>>)} \cup {ListV(<<x>>) : x \in Vals(ty.e[1], FALSE)}
                          \cup {ListV(<<x, y>>) : x, y \in Vals(ty.e[1], FALSE)}
    [] ty.t = "struct" -> IF Len(ty.e) = 1 THEN {StructV(<<x>>) : x \in Vals(ty.e[1], FALSE)}
                          ELSE {StructV(<<x, y>>) : x \in Vals(ty.e[1], FALSE), y \in Vals(ty.e[2], FALSE)}
    [] ty.t \in {"mapS", "mapI", "mapU"} ->
         {NilV} \cup UNION {{MapV(ks, xs, Sorted(ty.t, ks, 1..Len(ks))) : xs \in [1..Len(ks) -> Vals(ty.e[1], FALSE)]}
                             : ks \in KeyLists(ty.t)}

Scalar(t) == Ty(t, <<>>)
Level1 == {Scalar(t) : t \in ScalarTypes}
          \cup {Ty("ptr", <<Scalar(t)>>) : t \in ElemTypes}
          \cup {Ty("slice", <<Scalar(t)>>) : t \in ElemTypes \ {"bool", "u8"}}     \* ([]uint8 is "bytes")
          \cup {Ty("struct", <<Scalar(a), Scalar(b)>>) : a, b \in ElemTypes \ {"bool"}}
          \cup {Ty(m, <<Scalar(t)>>) : m \in {"mapS", "mapI", "mapU"}, t \in {"i64", "bytes", "str"}}
\* Go arrays: [N]byte is written as a byte string ("arrb1", "arrb2", "arrb32"), [2]T as a list ("arr2")
ArrTypes == {Scalar("arrb1"), Scalar("arrb2"), Scalar("arrb32"), Ty("arr2", <<Scalar("i64")>>), Ty("arr2", <<Scalar("bytes")>>)}
Inner == {Ty("ptr", <<Scalar("bytes")>>), Ty("ptr", <<Scalar("i64")>>), Ty("slice", <<Scalar("i64")>>),
          Ty("slice", <<Scalar("bytes")>>), Ty("struct", <<Scalar("str"), Scalar("big")>>),
          Ty("struct", <<Scalar("i64")>>), Ty("mapS", <<Scalar("bytes")>>)}
InnerSmall == {Ty("ptr", <<Scalar("bytes")>>), Ty("struct", <<Scalar("i64")>>)}
Level2 == {Ty("ptr", <<x>>) : x \in Inner}
          \cup {Ty("slice", <<x>>) : x \in Inner \ {Ty("mapS", <<Scalar("bytes")>>)}}
          \cup {Ty("struct", <<x, Scalar("u8")>>) : x \in Inner} \cup {Ty("struct", <<Scalar("bytes"), x>>) : x \in Inner}
          \cup {Ty("mapS", <<x>>) : x \in InnerSmall} \cup {Ty("mapI", <<x>>) : x \in InnerSmall}
Types == IF Level >= 2 THEN Level1 \cup Level2 \cup ArrTypes ELSE Level1 \cup ArrTypes

----------------------------------------------------------------------------
(* the mapping *)
RECURSIVE ItemOf(_, _)
ItemOf(ty, val) ==
  CASE val.v = "nil" -> NilItem
    [] val.v = "int" -> IntItem(val.d)
    [] val.v = "bool" -> BytesItemD(1, "lo", <<IF val.n = 1 THEN "one" ELSE "z">>)
    [] val.v = "blob" -> BytesItem(val.n, val.c)
    [] val.v = "ptr" -> ItemOf(ty.e[1], val.items[1])
    [] val.v = "list" -> ListItem([i \in 1..Len(val.items) |-> ItemOf(ty.e[1], val.items[i])])
    [] val.v = "struct" -> ListItem([i \in 1..Len(val.items) |-> ItemOf(ty.e[i], val.items[i])])
    [] val.v = "map" ->
         LET ord == val.ord IN
         ListItem([j \in 1..(2 * Len(ord)) |->
                     IF j % 2 = 1 THEN KeyItem(ty.t, val.keys[ord[(j + 1) \div 2]])
                     ELSE ItemOf(ty.e[1], val.items[ord[j \div 2]])])
\* what the decoder returns.  The format has one nil: a nil item read into a pointer gives a nil pointer,
\* unless the pointee type itself can be nil ([]byte, slices, maps, pointers, *big.Int) - then the decoder
\* returns a pointer to a nil pointee (decodeValue swallows ErrNilValue for these kinds)
Nullable(ty) == ty.t \in {"bytes", "slice", "mapS", "mapI", "mapU", "ptr", "big"}
\* the value a nil item gives when decoded into a nullable type
RECURSIVE DecNil(_)
DecNil(ty) == IF ty.t = "ptr" /\ Nullable(ty.e[1]) THEN PtrV(DecNil(ty.e[1])) ELSE NilV
RECURSIVE Back(_, _)
Back(ty, val) ==
  CASE val.v = "nil" -> DecNil(ty)
    [] val.v = "ptr" -> IF ItemOf(ty.e[1], val.items[1]) # NilItem THEN PtrV(Back(ty.e[1], val.items[1]))
                        ELSE DecNil(ty)
    [] val.v = "list" -> ListV([i \in 1..Len(val.items) |-> Back(ty.e[1], val.items[i])])
    [] val.v = "struct" -> StructV([i \in 1..Len(val.items) |-> Back(ty.e[i], val.items[i])])
    [] val.v = "map" -> \* a map has no insertion order: entries listed in key order
         MapV([j \in 1..Len(val.ord) |-> val.keys[val.ord[j]]],
              [j \in 1..Len(val.ord) |-> Back(ty.e[1], val.items[val.ord[j]])], [j \in 1..Len(val.ord) |-> j])
    [] OTHER -> val

----------------------------------------------------------------------------
(* decoding into a type other than the one written (old / new versions of a struct, arrays of another length,
   lists that are not maps): cases [name, st, sv (what is written), tt (what is read into), res, back] *)
ZeroOf(ty) == CASE ty.t \in {"i8", "i16", "i32", "i64", "u8", "u16", "u32", "u64"} -> IntV(<<"z">>)
                [] ty.t = "bool" -> BoolV(0) [] ty.t = "str" -> BlobV(0, "x") [] OTHER -> NilV
\* "cut": the first `take` bytes of an n-byte string followed by `pad` zero bytes
CutV(n, c, take, pad) == V("cut", <<>>, n, c, <<>>, <<>>, <<take, pad>>)
X1 == IntV(<<"p">> \o Rep("f", 7))
S1 == BlobV(2, "x")
St(fs) == Ty("struct", fs)
CrossCases ==
  { [name |-> "struct-fewer-items", st |-> St(<<Scalar("i64")>>), sv |-> StructV(<<X1>>),
     tt |-> St(<<Scalar("i64"), t2>>), res |-> "ok", back |-> StructV(<<X1, ZeroOf(t2)>>)]
      : t2 \in {Scalar("i64"), Scalar("str"), Scalar("bytes"), Scalar("big"), Ty("ptr", <<Scalar("i64")>>), Scalar("bool")} }
  \cup
  { [name |-> "struct-empty-list", st |-> Ty("slice", <<Scalar("i64")>>), sv |-> ListV(<<>>),
     tt |-> St(<<Scalar("u8"), Scalar("str")>>), res |-> "ok", back |-> StructV(<<IntV(<<"z">>), BlobV(0, "x")>>)],
    [name |-> "struct-more-items", st |-> St(<<Scalar("i64"), Scalar("str")>>), sv |-> StructV(<<X1, S1>>),
     tt |-> St(<<Scalar("i64")>>), res |-> "ok", back |-> StructV(<<X1>>)],
    [name |-> "struct-nil", st |-> Ty("ptr", <<Scalar("i64")>>), sv |-> NilV,
     tt |-> St(<<Scalar("i64")>>), res |-> "reject", back |-> NilV],
    [name |-> "struct-from-string", st |-> Scalar("str"), sv |-> S1,
     tt |-> St(<<Scalar("i64")>>), res |-> "reject", back |-> NilV],
    [name |-> "array-short-input", st |-> Scalar("bytes"), sv |-> BlobV(1, "hi"),
     tt |-> Scalar("arrb2"), res |-> "ok", back |-> CutV(1, "hi", 1, 1)],
    [name |-> "array-long-input", st |-> Scalar("bytes"), sv |-> BlobV(55, "x"),
     tt |-> Scalar("arrb32"), res |-> "ok", back |-> CutV(55, "x", 32, 0)],
    [name |-> "array-nil-input", st |-> Scalar("bytes"), sv |-> NilV,
     tt |-> Scalar("arrb2"), res |-> "reject", back |-> NilV],
    [name |-> "array-fewer-items", st |-> Ty("slice", <<Scalar("i64")>>), sv |-> ListV(<<X1>>),
     tt |-> Ty("arr2", <<Scalar("i64")>>), res |-> "ok", back |-> ListV(<<X1, IntV(<<"z">>)>>)],
    [name |-> "array-more-items", st |-> Ty("slice", <<Scalar("i64")>>), sv |-> ListV(<<X1, IntV(<<"n">>), X1>>),
     tt |-> Ty("arr2", <<Scalar("i64")>>), res |-> "ok", back |-> ListV(<<X1, IntV(<<"n">>)>>)],
    [name |-> "array-nil-items", st |-> Ty("slice", <<Scalar("bytes")>>), sv |-> ListV(<<NilV, NilV>>),
     tt |-> Ty("arr2", <<Scalar("i64")>>), res |-> "ok", back |-> ListV(<<IntV(<<"z">>), IntV(<<"z">>)>>)],
    [name |-> "map-odd-items", st |-> Ty("slice", <<Scalar("str")>>), sv |-> ListV(<<S1>>),
     tt |-> Ty("mapS", <<Scalar("str")>>), res |-> "reject", back |-> NilV],
    [name |-> "map-nil-key", st |-> Ty("slice", <<Scalar("bytes")>>), sv |-> ListV(<<NilV, S1>>),
     tt |-> Ty("mapS", <<Scalar("str")>>), res |-> "reject", back |-> NilV],
    [name |-> "map-nil-value", st |-> Ty("slice", <<Scalar("bytes")>>), sv |-> ListV(<<BlobV(0, "x"), NilV>>),
     tt |-> Ty("mapS", <<Scalar("bytes")>>), res |-> "ok", back |-> MapV(<<"k0">>, <<NilV>>, <<1>>)],
    [name |-> "map-from-string", st |-> Scalar("str"), sv |-> S1,
     tt |-> Ty("mapS", <<Scalar("str")>>), res |-> "reject", back |-> NilV],
    [name |-> "int-from-list", st |-> Ty("slice", <<Scalar("i64")>>), sv |-> ListV(<<X1>>),
     tt |-> Scalar("i64"), res |-> "reject", back |-> NilV],
    [name |-> "slice-from-string", st |-> Scalar("str"), sv |-> S1,
     tt |-> Ty("slice", <<Scalar("i64")>>), res |-> "reject", back |-> NilV] }

VARIABLES typ, done, hist
vars == <<typ, done, hist>>
NoType == Ty("", <<>>)
Init == typ = NoType /\ done = FALSE /\ hist = <<>>
\* the caller fixes the Go type, then marshals a value of it
PickType(ty) == typ = NoType /\ typ' = ty /\ UNCHANGED <<done, hist>>
Marshal(ty, val) ==
  /\ ~done /\ done' = TRUE /\ typ = ty /\ UNCHANGED typ
  /\ hist' = <<[op |-> "typed", type |-> ty, val |-> val, back |-> Back(ty, val),
                stream |-> Enc(ItemOf(ty, val))]>>
\* Marshal a value of type st, Unmarshal the bytes into a fresh value of type tt
Cross(c) ==
  /\ ~done /\ typ = NoType /\ done' = TRUE /\ UNCHANGED typ
  /\ hist' = <<[op |-> "cross", name |-> c.name, type |-> c.st, val |-> c.sv, target |-> c.tt, res |-> c.res,
                back |-> c.back, stream |-> Enc(ItemOf(c.st, c.sv))]>>
Next == \/ \E ty \in Types : PickType(ty)
        \/ \E c \in CrossCases : Cross(c)
        \/ typ # NoType /\ ~done /\ \E val \in Vals(typ, TRUE) : Marshal(typ, val)
Spec == Init /\ [][Next]_vars
Complete == done

----------------------------------------------------------------------------
(* Properties *)
Strip(it) == [it EXCEPT !.d = <<>>]
RECURSIVE StripAll(_)
StripAll(it) == [k |-> it.k, n |-> it.n, c |-> it.c, d |-> <<>>,
                 items |-> [i \in 1..Len(it.items) |-> StripAll(it.items[i])]]
\* the bytes of every typed value decode (reference decoder of the grammar) to its item tree
TypedRoundTrip == done =>
  LET it == ItemOf(hist[1].type, hist[1].val) IN Parse(Enc(it)) = [ok |-> TRUE, items |-> <<StripAll(it)>>]
\* two values of a type are written as the same item tree only if the decoder returns the same value for both:
\* nil / empty string / empty list / empty map / zero stay distinct wherever the type can hold both
Injective == (done /\ Level = 1 /\ hist[1].op = "typed") =>
  \A v2 \in Vals(hist[1].type, TRUE) :
     ItemOf(hist[1].type, v2) = ItemOf(hist[1].type, hist[1].val) => Back(hist[1].type, v2) = hist[1].back
\* map entries are written in ascending key order whatever the insertion order
MapsSorted == (done /\ hist[1].op = "typed" /\ hist[1].val.v = "map") =>
  LET o == hist[1].val.ord IN \A i \in 1..(Len(o) - 1) :
      KeyPos(hist[1].type.t, hist[1].val.keys[o[i]]) < KeyPos(hist[1].type.t, hist[1].val.keys[o[i + 1]])
=============================================================================
