---------------------------- MODULE Address ----------------------------
(* Account / contract addresses (common/address.go) and the address rules of the JSON-RPC validator
   (server/jsonrpc/validator.go).  An address is a type (account "hx" / contract "cx") and an id of L
   bytes (real code: L = 20), written here as 2L lower-case hex digit classes.

   Two families of behaviours, one action per public call, calls in the order of a fixed pipeline:
   (S) Type* then  SetStringStrict, SetString (lenient), validator rules t_addr_eoa / t_addr_score / t_addr,
       and when the strict parser accepted:  String(), Bytes(), SetBytes(Bytes())
   (B) PushByte* then  SetBytes, String(), SetStringStrict(String()), Bytes()
   (CA/CC) PushByte* then NewAccountAddress / NewContractAddress of these id bytes (short ids are left-padded
       with zeros, long ones cut), IsContract, String, SetStringStrict, Bytes, SetBytes, Equal against the same /
       other type / other id / nil address, and the codec (RLP) form
   (N) the nil address: Equal(nil, nil) and its codec form (the nil item, not 21 zero bytes)
   Object reuse: every setter / decoder (SetStringStrict, SetString, UnmarshalJSON, SetBytes, RLPDecodeSelf,
   SetTypeAndID, Set) is applied to an Address object that is fresh, or already holds an account, or a contract
   address (held).  The result never depends on that history: it is the result for a fresh object, and a rejected
   input leaves the object as it was.
   Characters are classes:
     "c" "h" "x"   the letters of the prefixes (c is also a hex digit)
     "z" = 0, "1" = 1, "d" = 2..9, "a" = a b d e f           lower-case hex digits
     "C" = C, "A" = A B D E F                                upper-case hex digits
     "g" = other lower-case letters, "G" = other upper-case letters (incl. H X), "_" = anything else (ASCII)
   A byte is a pair of lower-case hex digit classes (<<"z","z">> = 00, <<"z","1">> = 01). *)
EXTENDS RlpGrammar
CONSTANTS L,          \* id length in bytes
          MaxStr,     \* longest typed string
          MaxBytes,   \* longest byte string
          FreeLen,    \* generator shaping: every string up to FreeLen characters, longer ones have
          Dev,        \*   at most Dev characters that differ from the canonical pattern
          CallLens,   \* string lengths at which the calls are made (generator; all lengths when exhaustive)
          CallBLens,  \* byte-string lengths at which the calls are made
          ByteSet     \* byte classes used for the first byte (later bytes follow the pattern when shaped)

Chars == {"c", "h", "x", "z", "1", "d", "a", "C", "A", "g", "G", "_"}
LowerHex == {"z", "1", "d", "a", "c"}
UpperHex == {"A", "C"}
Hex == LowerHex \cup UpperHex
AllBytes == LowerHex \X LowerHex
B0 == <<"z", "z">>
B1 == <<"z", "1">>
None == [set |-> FALSE, contract |-> FALSE, id |-> <<>>]

VARIABLES fam,    \* "" | "S" | "B" | "CA" | "CC" | "N"
          pc,     \* 0 while the input is assembled, then the index of the next call of the pipeline
          str,    \* text (character classes)
          byt,    \* byte string (pairs of hex digit classes)
          addr,   \* the Address object: [set, contract, id]
          held,   \* what the object that the setters / decoders are applied to held before: "fresh" | "acct" | "ctr"
          hist
vars == <<fam, pc, str, byt, addr, held, hist>>

PipeS == <<"strict", "lenient", "veoa", "vscore", "vaddr", "print", "bytes", "frombytes">>
PipeB == <<"frombytes", "print", "strict", "bytes">>
PipeC == <<"new", "iscontract", "copy", "print", "strict", "bytes", "frombytes", "eq_same", "eq_type", "eq_id", "eq_nil", "codec">>
PipeN == <<"eq_nilnil", "copy", "codec">>
Pipe == CASE fam = "B" -> PipeB [] fam \in {"CA", "CC"} -> PipeC [] fam = "N" -> PipeN [] OTHER -> PipeS
ByteFams == {"B", "CA", "CC"}
At(call) == pc >= 1 /\ pc <= Len(Pipe) /\ Pipe[pc] = call
\* calls on the Address object need one
NeedsAddr(call) == \/ (fam # "N" /\ call = "copy")
                   \/ call \in {"print", "bytes", "iscontract", "eq_same", "eq_type", "eq_id", "eq_nil"}
                   \/ (fam \in {"S", "CA", "CC"} /\ call = "frombytes") \/ (fam \in ByteFams /\ call = "strict")
                   \/ (fam \in {"CA", "CC"} /\ call = "codec")

----------------------------------------------------------------------------
(* decisions *)
Body(t) == SubSeq(t, 3, Len(t))
StrictOK(t) == /\ Len(t) = 2 * L + 2
               /\ t[1] \in {"c", "h"} /\ t[2] = "x"
               /\ \A i \in 3..Len(t) : t[i] \in LowerHex
StrictAddr(t) == [set |-> TRUE, contract |-> t[1] = "c", id |-> Body(t)]

Fold(c) == IF c = "C" THEN "c" ELSE IF c = "A" THEN "a" ELSE c
Zeros(n) == [i \in 1..n |-> "z"]
\* SetString: optional prefix cx / hx / 0x, any-case hex digits, odd length padded, short ids left-padded with
\* zero bytes, long ids cut after L bytes
Lenient(t) ==
  LET pfx == Len(t) >= 2 /\ t[1] \in {"c", "h", "z"} /\ t[2] = "x"
      skip == IF pfx THEN 2 ELSE 0
      body == SubSeq(t, skip + 1, Len(t))
      odd == Len(body) % 2
      pad == IF Len(body) + odd < 2 * L THEN 2 * L - Len(body) ELSE odd
      all == Zeros(pad) \o [i \in 1..Len(body) |-> Fold(body[i])]
  IN IF \A i \in 1..Len(body) : body[i] \in Hex
     THEN [ok |-> TRUE, contract |-> pfx /\ t[1] = "c", skip |-> skip, pad |-> pad, id |-> SubSeq(all, 1, 2 * L)]
     ELSE [ok |-> FALSE, contract |-> FALSE, skip |-> 0, pad |-> 0, id |-> <<>>]

\* validator rules: ^hx[0-9a-f]{2L}$   ^cx[0-9a-f]{2L}$   either
VRule(rule, t) == /\ Len(t) = 2 * L + 2 /\ t[2] = "x"
                  /\ \A i \in 3..Len(t) : t[i] \in LowerHex
                  /\ CASE rule = "veoa" -> t[1] = "h" [] rule = "vscore" -> t[1] = "c"
                       [] OTHER -> t[1] \in {"c", "h"}

RECURSIVE Flatten(_)
Flatten(bs) == IF bs = <<>> THEN <<>> ELSE <<bs[1][1], bs[1][2]>> \o Flatten(Tail(bs))
Pairs(id) == [i \in 1..(Len(id) \div 2) |-> <<id[2 * i - 1], id[2 * i]>>]
FromBytes(bs) ==
  IF Len(bs) = L + 1 /\ bs[1] \in {B0, B1}
    THEN [ok |-> TRUE, contract |-> bs[1] = B1, off |-> 1, id |-> Flatten(Tail(bs))]
  ELSE IF Len(bs) = L THEN [ok |-> TRUE, contract |-> FALSE, off |-> 0, id |-> Flatten(bs)]
  ELSE [ok |-> FALSE, contract |-> FALSE, off |-> 0, id |-> <<>>]
ToBytes(a) == <<IF a.contract THEN B1 ELSE B0>> \o Pairs(a.id)
Show(a) == <<IF a.contract THEN "c" ELSE "h", "x">> \o a.id
\* NewAccountAddress / NewContractAddress (SetTypeAndID): short ids are left-padded with zero bytes, long ids cut
FromID(ic, bs) == LET n == Len(bs) IN
  [set |-> TRUE, contract |-> ic,
   id |-> IF n < L THEN Zeros(2 * (L - n)) \o Flatten(bs) ELSE Flatten(SubSeq(bs, 1, L))]
\* Equal: same type and id; nil equals only nil
EqualModel(a, b) == a.set = b.set /\ (a.set => (a.contract = b.contract /\ a.id = b.id))
Other(a, v) == CASE v = "eq_same" -> a
                 [] v = "eq_type" -> [a EXCEPT !.contract = ~@]
                 [] v = "eq_id" -> [a EXCEPT !.id[2 * L] = IF @ = "z" THEN "1" ELSE "z"]
                 [] OTHER -> None

----------------------------------------------------------------------------
Init == fam = "" /\ pc = 0 /\ str = <<>> /\ byt = <<>> /\ addr = None /\ held = "fresh" /\ hist = <<>>

\* canonical pattern of a text / byte string (generator shaping)
HexCyc(i) == <<"z", "1", "d", "a", "c">>[(i % 5) + 1]
FillC(i) == IF i = 2 THEN "x" ELSE HexCyc(i)
Devs(t) == Cardinality({i \in 1..Len(t) : IF i = 1 THEN t[i] \notin {"c", "h"} ELSE t[i] # FillC(i)})
FillB(i) == <<HexCyc(2 * i + 1), HexCyc(2 * i + 2)>>

Type(c) == /\ fam \in {"", "S"} /\ pc = 0 /\ Len(str) < MaxStr
           /\ IF Len(str) < FreeLen THEN TRUE ELSE Devs(Append(str, c)) <= Dev
           /\ fam' = "S" /\ str' = Append(str, c)
           /\ UNCHANGED <<pc, byt, addr, held, hist>>
PushByte(b) == /\ fam \in {"", "B"} /\ pc = 0 /\ Len(byt) < MaxBytes
               /\ IF byt = <<>> \/ Dev >= MaxBytes THEN TRUE ELSE b = FillB(Len(byt))
               /\ fam' = "B" /\ byt' = Append(byt, b)
               /\ UNCHANGED <<pc, str, addr, held, hist>>
\* the caller starts calling
\* histories explored: byte forms and constructors with all three, texts with a contract address (and a fresh
\* object for texts of the canonical length)
Helds(f) == IF f = "S" THEN (IF Len(str) = 2 * L + 2 THEN {"fresh", "ctr"} ELSE {"ctr"})
            ELSE IF f = "N" THEN {"fresh"} ELSE {"fresh", "acct", "ctr"}
Start(f, h) ==
  /\ pc = 0 /\ h \in Helds(f) /\ held' = h
  /\ IF f \in ByteFams THEN fam \in {"", "B"} /\ Len(byt) \in CallBLens /\ (f = "B" \/ Len(byt) <= L + 2)
     ELSE IF f = "N" THEN fam = ""
     ELSE fam \in {"", "S"} /\ Len(str) \in CallLens
  /\ pc' = 1 /\ fam' = f
  /\ UNCHANGED <<str, byt, addr, hist>>

Log(r) == hist' = Append(hist, r @@ [held |-> held]) /\ UNCHANGED held
Adv == pc' = pc + 1

Strict ==
  /\ At("strict") /\ (NeedsAddr("strict") => addr.set)
  /\ LET ok == StrictOK(str) IN
     /\ addr' = IF ok THEN StrictAddr(str) ELSE IF fam = "S" THEN None ELSE addr
     /\ Log([op |-> "strict", text |-> str, ok |-> ok, contract |-> ok /\ str[1] = "c"])
  /\ Adv /\ UNCHANGED <<fam, str, byt>>
LenientCall ==
  /\ At("lenient")
  /\ LET r == Lenient(str) IN
     Log([op |-> "lenient", ok |-> r.ok, contract |-> r.contract, skip |-> r.skip, pad |-> r.pad,
          same |-> addr.set /\ r.ok /\ r.contract = addr.contract /\ r.id = addr.id])
  /\ Adv /\ UNCHANGED <<fam, str, byt, addr>>
Validate(rule) ==
  /\ At(rule)
  /\ Log([op |-> "validate", rule |-> rule, ok |-> VRule(rule, str)])
  /\ Adv /\ UNCHANGED <<fam, str, byt, addr>>
PrintCall ==
  /\ At("print") /\ addr.set
  /\ str' = Show(addr)
  /\ Log([op |-> "print", pfx |-> IF addr.contract THEN "cx" ELSE "hx", same |-> fam = "S" /\ Show(addr) = str])
  /\ Adv /\ UNCHANGED <<fam, byt, addr>>
BytesCall ==
  /\ At("bytes") /\ addr.set
  /\ byt' = ToBytes(addr)
  /\ Log([op |-> "bytes", type |-> IF addr.contract THEN 1 ELSE 0, len |-> L + 1,
          same |-> fam = "B" /\ ToBytes(addr) = byt])
  /\ Adv /\ UNCHANGED <<fam, str, addr>>
FromBytesCall ==
  /\ At("frombytes") /\ (NeedsAddr("frombytes") => addr.set)
  /\ LET r == FromBytes(byt) IN
     /\ addr' = IF r.ok THEN [set |-> TRUE, contract |-> r.contract, id |-> r.id] ELSE addr
     /\ Log([op |-> "frombytes", bytes |-> byt, ok |-> r.ok, contract |-> r.contract, off |-> r.off,
             same |-> addr.set /\ r.ok /\ r.contract = addr.contract /\ r.id = addr.id])
  /\ Adv /\ UNCHANGED <<fam, str, byt>>

NewCall ==
  /\ At("new")
  /\ LET a == FromID(fam = "CC", byt) IN
     /\ addr' = a
     /\ Log([op |-> "new", bytes |-> byt, contract |-> fam = "CC",
             pad |-> IF Len(byt) < L THEN L - Len(byt) ELSE 0, take |-> IF Len(byt) < L THEN Len(byt) ELSE L])
  /\ Adv /\ UNCHANGED <<fam, str, byt>>
IsContractCall ==
  /\ At("iscontract") /\ addr.set
  /\ Log([op |-> "iscontract", contract |-> addr.contract])
  /\ Adv /\ UNCHANGED <<fam, str, byt, addr>>
\* Set / AddressToPtr / ToAddress / NewAddressFromString(String()): every way of copying or converting an address
\* (also from another implementation of module.Address) gives an equal address; nil stays nil
CopyCall ==
  /\ At("copy") /\ (NeedsAddr("copy") => addr.set)
  /\ Log([op |-> "copy", nil |-> ~addr.set, contract |-> addr.contract, same |-> TRUE])
  /\ Adv /\ UNCHANGED <<fam, str, byt, addr>>
EqualCall(v) ==
  /\ At(v) /\ (v # "eq_nilnil" => addr.set)
  /\ Log([op |-> "equal", with |-> v, ok |-> EqualModel(addr, Other(addr, v))])
  /\ Adv /\ UNCHANGED <<fam, str, byt, addr>>
\* codec.Marshal of the *Address: a byte string of L+1 bytes, or the nil item for a nil address
CodecCall ==
  /\ At("codec") /\ (NeedsAddr("codec") => addr.set)
  /\ Log([op |-> "codec", nil |-> ~addr.set,
          stream |-> Enc(IF addr.set THEN BytesItem(L + 1, "x") ELSE NilItem)])
  /\ Adv /\ UNCHANGED <<fam, str, byt, addr>>

Next == \/ \E c \in Chars : Type(c)
        \/ \E b \in ByteSet \cup {FillB(Len(byt))} : PushByte(b)
        \/ \E f \in {"S", "B", "CA", "CC", "N"}, h \in {"fresh", "acct", "ctr"} : Start(f, h)
        \/ Strict
        \/ LenientCall
        \/ \E rule \in {"veoa", "vscore", "vaddr"} : Validate(rule)
        \/ PrintCall
        \/ BytesCall
        \/ FromBytesCall
        \/ NewCall
        \/ IsContractCall
        \/ CopyCall
        \/ \E v \in {"eq_same", "eq_type", "eq_id", "eq_nil", "eq_nilnil"} : EqualCall(v)
        \/ CodecCall
Spec == Init /\ [][Next]_vars
\* the pipeline is finished (or the next call needs an address that was not accepted)
Complete == pc >= 1 /\ (pc > Len(Pipe) \/ (NeedsAddr(Pipe[pc]) /\ ~addr.set))

----------------------------------------------------------------------------
(* Properties (C36) *)
Last == hist[Len(hist)]
Done(call) == pc >= 2 /\ Pipe[pc - 1] = call
TypeOK == /\ fam \in {"", "S", "B", "CA", "CC", "N"} /\ pc \in 0..(Len(Pipe) + 1)
          /\ addr.set => Len(addr.id) = 2 * L /\ \A i \in 1..(2 * L) : addr.id[i] \in LowerHex
\* the strict parser and the validator rule t_addr accept exactly the same strings, and exactly the printed
\* form of some address: printing the parsed address gives the string back
StrictIsCanonical == (fam = "S" /\ pc = 0) =>
  /\ StrictOK(str) <=> VRule("vaddr", str)
  /\ VRule("vaddr", str) <=> (VRule("veoa", str) \/ VRule("vscore", str))
  /\ ~(VRule("veoa", str) /\ VRule("vscore", str))
  /\ StrictOK(str) => Show(StrictAddr(str)) = str
  /\ StrictOK(str) => LET r == Lenient(str) IN r.ok /\ r.contract = (str[1] = "c") /\ r.id = Body(str) /\ r.pad = 0
\* every address prints as a string the strict parser maps back to the same address
PrintParses == addr.set =>
  /\ StrictOK(Show(addr)) /\ StrictAddr(Show(addr)) = addr
  /\ LET r == FromBytes(ToBytes(addr)) IN r.ok /\ r.contract = addr.contract /\ r.id = addr.id
  /\ Len(ToBytes(addr)) = L + 1
\* after the calls: the printed text of an address parsed strictly is the text, byte forms round-trip
RoundTrips ==
  /\ (Done("print") /\ fam = "S") => Last.same
  /\ (Done("frombytes") /\ fam = "S") => Last.same
  /\ (Done("bytes") /\ fam = "B" /\ Len(hist[1].bytes) = L + 1) => Last.same
  /\ (Done("strict") /\ fam \in ByteFams) => Last.ok
  /\ (Done("frombytes") /\ fam \in {"CA", "CC"}) => Last.same
  /\ (Done("lenient") /\ addr.set) => Last.same
\* byte form: accepted iff L bytes, or L+1 bytes starting with the type byte 0 or 1
\* Equal agrees with the byte form: two addresses are equal iff their L+1 byte forms are equal; a nil address
\* equals only nil; its codec form (nil item) differs from the form of every address, in particular of the zero one
EqualIsBytes == addr.set =>
  /\ \A v \in {"eq_same", "eq_type", "eq_id"} :
        EqualModel(addr, Other(addr, v)) <=> (ToBytes(addr) = ToBytes(Other(addr, v)))
  /\ ~EqualModel(addr, None) /\ EqualModel(None, None)
  /\ Enc(BytesItem(L + 1, "x")) # Enc(NilItem)
\* constructors: the id always has L bytes, the type is the one asked for, and L-byte ids are taken as they are
Constructed == (Done("new")) =>
  /\ addr.set /\ Len(addr.id) = 2 * L /\ addr.contract = (fam = "CC")
  /\ Len(byt) = L => addr.id = Flatten(byt)
BytesDecision == (fam = "B" /\ pc = 0) =>
  (FromBytes(byt).ok <=> (Len(byt) = L \/ (Len(byt) = L + 1 /\ byt[1] \in {B0, B1})))
=============================================================================
