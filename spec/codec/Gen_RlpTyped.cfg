SPECIFICATION Spec
CONSTANTS
  Level = 1
INVARIANT Emit
