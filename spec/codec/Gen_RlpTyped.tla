---- MODULE Gen_RlpTyped ----
EXTENDS RlpTyped, Json
Emit == Complete => PrintT(<<"B", ToJson(hist)>>)
====
