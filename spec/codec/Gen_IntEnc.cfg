SPECIFICATION Spec
CONSTANTS
  W = 2
  MaxLen = 10
  N = 8
  Cap = 10
  Free = 2
INVARIANT Emit
