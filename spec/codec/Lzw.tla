---------------------------- MODULE Lzw ----------------------------
(* Header compression of goloop (common/compress.go on top of common/lzw: the legacy Go compress/lzw
   writer, MSB-first bit packing, literal width 8, NO leading clear code; existing block hashes depend on
   exactly these bytes).

   Reference encoder as a state machine, one action per call of the writer:
     Feed(x)   Write of one more input byte x
     Close     Close: pending code, EOF code, final partial byte
   Encoder state: code (pending prefix code, -1 = none), dict (key = code*256+byte -> code), hi (last
   assigned code), width (current code width in bits), overflow (code at which the width grows),
   acc/nbits (bit accumulator).  When hi reaches 4095 a clear code is sent and the table is reset.
   A reference decoder (Decode) is the specification of losslessness: decoding the emitted bytes gives the
   input back (checked by TLC on every closed state of the bounded model). *)
EXTENDS Integers, Sequences, FiniteSets, TLC
CONSTANTS Alphabet,   \* input bytes the generator may feed
          MaxLen,     \* longest input of the generator
          CloseLens   \* input lengths at which the generator closes (all lengths when exhaustive)

ClearCode == 256
EofCode == 257
MaxCode == 4095
Pow2(n) == 2 ^ n

VARIABLES inp,        \* input consumed so far
          code, dict, hi, width, overflow, acc, nbits,
          out,        \* bytes emitted so far
          closed
enc == <<code, dict, hi, width, overflow, acc, nbits>>
vars == <<inp, code, dict, hi, width, overflow, acc, nbits, out, closed>>

----------------------------------------------------------------------------
(* pure step functions over an encoder state record *)
St0 == [code |-> -1, dict |-> <<>>, hi |-> 257, width |-> 9, overflow |-> 512, acc |-> 0, nbits |-> 0]
Cur == [code |-> code, dict |-> dict, hi |-> hi, width |-> width, overflow |-> overflow, acc |-> acc, nbits |-> nbits]

\* move whole bytes out of the accumulator
RECURSIVE Flush(_, _, _)
Flush(a, nb, bs) == IF nb < 8 THEN [acc |-> a, nbits |-> nb, bytes |-> bs]
                    ELSE Flush(a % Pow2(nb - 8), nb - 8, Append(bs, a \div Pow2(nb - 8)))
\* append code c of w bits (most significant bit first)
EmitCode(a, nb, c, w, bs) == Flush(a * Pow2(w) + c, nb + w, bs)

\* after a code was sent: the next code is implied; widen at overflow; at MaxCode send a clear code and reset
IncHi(s, e) ==
  LET nhi == s.hi + 1
      w2 == IF nhi = s.overflow THEN s.width + 1 ELSE s.width
      ov2 == IF nhi = s.overflow THEN s.overflow * 2 ELSE s.overflow
  IN IF nhi = MaxCode
     THEN LET e2 == EmitCode(e.acc, e.nbits, ClearCode, w2, e.bytes)
          IN [reset |-> TRUE, hi |-> 257, width |-> 9, overflow |-> 512, acc |-> e2.acc, nbits |-> e2.nbits, bytes |-> e2.bytes]
     ELSE [reset |-> FALSE, hi |-> nhi, width |-> w2, overflow |-> ov2, acc |-> e.acc, nbits |-> e.nbits, bytes |-> e.bytes]

\* Write of one byte: result = new encoder state + the bytes emitted by this call
FeedFn(s, x) ==
  IF s.code = -1 THEN [st |-> [s EXCEPT !.code = x], bytes |-> <<>>]
  ELSE LET key == s.code * 256 + x IN
    IF key \in DOMAIN s.dict THEN [st |-> [s EXCEPT !.code = s.dict[key]], bytes |-> <<>>]
    ELSE LET e == EmitCode(s.acc, s.nbits, s.code, s.width, <<>>)
             h == IncHi(s, e)
         IN [st |-> [code |-> x,
                     dict |-> IF h.reset THEN <<>> ELSE (key :> h.hi) @@ s.dict,
                     hi |-> h.hi, width |-> h.width, overflow |-> h.overflow, acc |-> h.acc, nbits |-> h.nbits],
             bytes |-> h.bytes]
\* Close: pending code (and the bookkeeping of a sent code), EOF, final partial byte left-aligned
CloseFn(s) ==
  LET e0 == [acc |-> s.acc, nbits |-> s.nbits, bytes |-> <<>>]
      h == IF s.code = -1
           THEN [width |-> s.width, acc |-> s.acc, nbits |-> s.nbits, bytes |-> <<>>]
           ELSE IncHi(s, EmitCode(s.acc, s.nbits, s.code, s.width, <<>>))
      e2 == EmitCode(h.acc, h.nbits, EofCode, h.width, h.bytes)
  IN IF e2.nbits = 0 THEN e2.bytes ELSE Append(e2.bytes, e2.acc * Pow2(8 - e2.nbits))

----------------------------------------------------------------------------
Init == /\ inp = <<>> /\ code = -1 /\ dict = <<>> /\ hi = 257 /\ width = 9 /\ overflow = 512
        /\ acc = 0 /\ nbits = 0 /\ out = <<>> /\ closed = FALSE

Apply(s) == /\ code' = s.code /\ dict' = s.dict /\ hi' = s.hi /\ width' = s.width /\ overflow' = s.overflow
            /\ acc' = s.acc /\ nbits' = s.nbits
Feed(x) == /\ ~closed /\ Len(inp) < MaxLen
           /\ LET r == FeedFn(Cur, x) IN Apply(r.st) /\ out' = out \o r.bytes
           /\ inp' = Append(inp, x) /\ UNCHANGED closed
\* common.Compress of an empty input is empty (no writer is created)
Close == /\ ~closed /\ Len(inp) \in CloseLens
         /\ out' = IF inp = <<>> THEN <<>> ELSE out \o CloseFn(Cur)
         /\ closed' = TRUE
         /\ UNCHANGED <<inp, code, dict, hi, width, overflow, acc, nbits>>
Next == \/ \E x \in Alphabet : Feed(x)
        \/ Close
Spec == Init /\ [][Next]_vars

----------------------------------------------------------------------------
(* reference decoder: code stream -> bytes (the definition of what the compressed form means) *)
\* bit i (1-based, MSB first) of the byte string
Bit(bs, i) == (bs[((i - 1) \div 8) + 1] \div Pow2(7 - ((i - 1) % 8))) % 2
RECURSIVE Bits(_, _, _)
Bits(bs, i, w) == IF w = 0 THEN 0 ELSE Bits(bs, i, w - 1) * 2 + Bit(bs, i + w - 1)
\* expansion of a code with the decoder's table tab (code -> <<prefix code, last byte>>)
RECURSIVE Expand(_, _)
Expand(tab, c) == IF c < 256 THEN <<c>> ELSE Expand(tab, tab[c][1]) \o <<tab[c][2]>>
\* decode from bit position i: tab, dhi (last assigned code), w (width), last (previous code or -1), res
RECURSIVE Dec(_, _, _, _, _, _, _)
Dec(bs, i, tab, dhi, w, last, res) ==
  IF i + w - 1 > 8 * Len(bs) THEN [ok |-> FALSE, data |-> res]       \* ran out of bits before EOF
  ELSE LET c == Bits(bs, i, w) IN
    IF c = EofCode THEN [ok |-> TRUE, data |-> res]
    ELSE IF c = ClearCode THEN Dec(bs, i + w, <<>>, 257, 9, -1, res)
    ELSE IF c > dhi + 1 \/ (c = dhi + 1 /\ last = -1) THEN [ok |-> FALSE, data |-> res]
    ELSE LET known == c <= dhi \/ c < 256
             prev == IF last = -1 THEN <<>> ELSE Expand(tab, last)
             str == IF known THEN Expand(tab, c) ELSE prev \o <<prev[1]>>      \* the KwKwK case
             \* the decoder learns (last, first byte of str) as the next code, one step behind the encoder
             nhi == IF last = -1 THEN dhi ELSE dhi + 1
             tab2 == IF last = -1 THEN tab ELSE (nhi :> <<last, str[1]>>) @@ tab
             \* width grows when the NEXT code to be assigned reaches the limit (encoder is one ahead)
             w2 == IF nhi + 1 = Pow2(w) /\ w < 12 THEN w + 1 ELSE w
         IN Dec(bs, i + w, tab2, nhi, w2, c, res \o str)
Decode(bs) == IF bs = <<>> THEN [ok |-> TRUE, data |-> <<>>] ELSE Dec(bs, 1, <<>>, 257, 9, -1, <<>>)

----------------------------------------------------------------------------
(* Properties (C25) *)
TypeOK == /\ hi >= 257 /\ hi < MaxCode /\ hi < overflow /\ overflow = Pow2(width) /\ width \in 9..12
          /\ nbits \in 0..7 /\ acc < Pow2(nbits)
          /\ \A i \in DOMAIN out : out[i] \in 0..255
          /\ Cardinality(DOMAIN dict) = hi - 257
\* decompressing the compressed form yields the original bytes
Lossless == closed => Decode(out) = [ok |-> TRUE, data |-> inp]
\* the stream starts with a literal code, not with a clear code (legacy format), and ends with EOF
NoLeadingClear == (closed /\ inp # <<>>) => Bits(out, 1, 9) = inp[1]
\* an empty input has an empty compressed form; any other has at least the first code and EOF
SizeOK == closed => (inp = <<>> <=> out = <<>>) /\ (inp # <<>> => 8 * Len(out) >= 18)
=============================================================================
