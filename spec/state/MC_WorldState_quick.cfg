SPECIFICATION Spec
CONSTANTS
  Accts = {"a", "b"}
  Keys = {"k1"}
  MaxBal = 1
  Vals = {1}
  MaxSnaps = 1
  MaxOps = 6
  CodeIds = {1}
  Blocks = TRUE
  MaxDep = 2
  Ops = {"setbalance", "setvalue", "deletevalue", "initcontract", "touch", "setblock", "deploy", "accept", "snapshot", "reset", "clearcache", "flush", "reload", "adddeposit", "withdraw", "withdrawall", "paysteps"}
  SnapSlots = {1}
  HistOn = FALSE
INVARIANTS ReadsLogical SnapshotsCanonical FlushCanonical
PROPERTIES SnapshotImmutable ResetRestores
