---- MODULE MC_WorldState ----
EXTENDS WorldState
ViewNoHist == <<trie, cache, logical, snaps, nops>>
====
