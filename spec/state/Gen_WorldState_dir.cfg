SPECIFICATION Spec
CONSTANTS
  Accts = {"a"}
  Keys = {"k1"}
  MaxBal = 1
  Vals = {1}
  MaxSnaps = 1
  MaxOps = 4
  Depth = 4
  CodeIds = {}
  Blocks = FALSE
  MaxDep = 0
  Ops = {"setbalance", "setvalue", "deletevalue", "initcontract", "touch", "setblock", "deploy", "accept", "snapshot", "reset", "clearcache", "flush", "reload", "adddeposit", "withdraw", "withdrawall", "paysteps"}
  SnapSlots = {1}
  HistOn = TRUE
INVARIANT Emit
