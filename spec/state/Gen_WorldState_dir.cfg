SPECIFICATION Spec
CONSTANTS
  Accts = {"a"}
  Keys = {"k1"}
  MaxBal = 1
  Vals = {1}
  MaxSnaps = 1
  MaxOps = 4
  Depth = 4
  CodeIds = {}
  Blocks = FALSE
  HistOn = TRUE
INVARIANT Emit
