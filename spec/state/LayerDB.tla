---------------------------- MODULE LayerDB ----------------------------
(* Layered database (common/db/layer_db.go).  A layer sits on a base store.  Writes and
   deletes go to an overlay (an ordered list with one entry per (bucket,key), moved to the
   back on every update; a delete is a tombstone entry).  Flush(TRUE) replays the list into
   the base store and switches the layer to pass-through mode; Flush(FALSE) discards the
   overlay.  One action per public call (each is one critical section under the bucket / db
   mutex).  The base store may also be written directly (other users of the same store). *)
EXTENDS Integers, Sequences, FiniteSets, TLC
CONSTANTS Buckets, Keys, Vals, MaxOps
None == 0                     \* absent value (Vals are positive integers; the driver maps one of them to the
                              \* empty byte string, which is a stored value: Has is true, Get returns "")
VARIABLES base,               \* [Buckets -> [Keys -> Vals \cup {None}]]
          ovl,                \* overlay list: Seq([b, k, v])  v = None is a tombstone
          passthru,           \* TRUE after a committing flush
          hist                \* history of calls with predicted results (generator only)
vars == <<base, ovl, passthru, hist>>

Idx(b, k) == {i \in 1..Len(ovl) : ovl[i].b = b /\ ovl[i].k = k}
InOvl(b, k) == Idx(b, k) # {}
OvlVal(b, k) == ovl[CHOOSE i \in Idx(b, k) : TRUE].v
\* what a reader of the layer sees
View(b, k) == IF ~passthru /\ InOvl(b, k) THEN OvlVal(b, k) ELSE base[b][k]
ViewAll == [b \in Buckets |-> [k \in Keys |-> View(b, k)]]

Without(b, k) == SelectSeq(ovl, LAMBDA e : ~(e.b = b /\ e.k = k))
Put(b, k, v) == Append(Without(b, k), [b |-> b, k |-> k, v |-> v])   \* MoveToBack + update, or PushBack

RECURSIVE Apply(_, _)
Apply(bs, l) == IF l = <<>> THEN bs
                ELSE Apply([bs EXCEPT ![Head(l).b][Head(l).k] = Head(l).v], Tail(l))

Rec(op, b, k, v, res) == [op |-> op, b |-> b, k |-> k, v |-> v, res |-> res]
Log(r) == hist' = Append(hist, r @@ [view |-> ViewAll', bs |-> base'])   \* predicted projection after the call

Init == /\ base = [b \in Buckets |-> [k \in Keys |-> None]]
        /\ ovl = <<>> /\ passthru = FALSE /\ hist = <<>>

Set(b, k, v) ==
  /\ IF passthru THEN base' = [base EXCEPT ![b][k] = v] /\ UNCHANGED ovl
     ELSE ovl' = Put(b, k, v) /\ UNCHANGED base
  /\ UNCHANGED passthru
  /\ Log(Rec("set", b, k, v, "ok"))
Delete(b, k) ==
  /\ IF passthru THEN base' = [base EXCEPT ![b][k] = None] /\ UNCHANGED ovl
     ELSE ovl' = Put(b, k, None) /\ UNCHANGED base
  /\ UNCHANGED passthru
  /\ Log(Rec("delete", b, k, None, "ok"))
Get(b, k) ==
  /\ UNCHANGED <<base, ovl, passthru>>
  /\ Log(Rec("get", b, k, View(b, k), "ok"))
\* someone else writes the underlying store directly
BaseSet(b, k, v) ==
  /\ base' = [base EXCEPT ![b][k] = v]
  /\ UNCHANGED <<ovl, passthru>>
  /\ Log(Rec("baseset", b, k, v, "ok"))
Commit ==
  /\ IF passthru THEN UNCHANGED <<base, ovl, passthru>>
     ELSE base' = Apply(base, ovl) /\ ovl' = <<>> /\ passthru' = TRUE
  /\ Log(Rec("commit", "", "", None, "ok"))
Discard ==
  /\ IF passthru THEN UNCHANGED <<base, ovl, passthru>> /\ Log(Rec("discard", "", "", None, "error"))
     ELSE ovl' = <<>> /\ UNCHANGED <<base, passthru>> /\ Log(Rec("discard", "", "", None, "ok"))

Can == Len(hist) < MaxOps
Next == \/ \E b \in Buckets, k \in Keys, v \in Vals : Can /\ Set(b, k, v)
        \/ \E b \in Buckets, k \in Keys, v \in Vals : Can /\ BaseSet(b, k, v)
        \/ \E b \in Buckets, k \in Keys : Can /\ Delete(b, k)
        \/ \E b \in Buckets, k \in Keys : Can /\ Get(b, k)
        \/ Can /\ Commit
        \/ Can /\ Discard
Spec == Init /\ [][Next]_vars

----------------------------------------------------------------------------
(* Properties (C19) *)
TypeOK == /\ \A i, j \in 1..Len(ovl) : (ovl[i].b = ovl[j].b /\ ovl[i].k = ovl[j].k) => i = j
          /\ passthru => ovl = <<>>
\* reads reflect the layer's own writes and deletes over the base
Last == hist'[Len(hist')]
Stepped == hist' # hist
ReadYourWrites ==
  [][Stepped => /\ Last.op = "set" => ViewAll'[Last.b][Last.k] = Last.v
                /\ Last.op = "delete" => ViewAll'[Last.b][Last.k] = None
                /\ Last.op = "get" => Last.v = View(Last.b, Last.k)]_vars
\* committing makes the base equal to the view, and the view does not change
CommitAtomic ==
  [][(Stepped /\ Last.op = "commit") => (base' = ViewAll /\ ViewAll' = ViewAll)]_vars
\* discarding leaves the base untouched and the view falls back to the base
DiscardNoEffect ==
  [][(Stepped /\ Last.op = "discard") =>
        (base' = base /\ (Last.res = "ok" => ViewAll' = base))]_vars
\* layer operations never touch the base before a commit
Isolation ==
  [][(Stepped /\ ~passthru /\ Last.op \in {"set", "delete", "get"}) => base' = base]_vars
=============================================================================
