SPECIFICATION Spec
CONSTANTS
  Accts = {"a"}
  Keys = {"k1"}
  MaxBal = 1
  Vals = {1}
  MaxSnaps = 2
  MaxOps = 6
  Depth = 6
  CodeIds = {}
  Blocks = FALSE
  MaxDep = 0
  Ops = {"setbalance", "snapshot", "reset"}
  SnapSlots = {2}
  HistOn = TRUE
INVARIANT Emit
