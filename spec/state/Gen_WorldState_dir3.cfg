SPECIFICATION Spec
CONSTANTS
  Accts = {"a"}
  Keys = {"k1"}
  MaxBal = 1
  Vals = {1}
  MaxSnaps = 1
  MaxOps = 5
  Depth = 5
  CodeIds = {}
  Blocks = FALSE
  MaxDep = 2
  Ops = {"initcontract", "adddeposit", "withdraw", "paysteps", "snapshot", "reset"}
  SnapSlots = {1}
  HistOn = TRUE
INVARIANT Emit
