SPECIFICATION Spec
CONSTANTS
  Buckets = {"b1", "b2"}
  Keys = {"x", "y"}
  Vals = {1, 2, 3}
  MaxOps = 7
VIEW ViewNoHist
INVARIANT TypeOK
PROPERTIES ReadYourWrites CommitAtomic DiscardNoEffect Isolation
