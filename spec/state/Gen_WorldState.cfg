SPECIFICATION Spec
CONSTANTS
  Accts = {"a", "b", "c"}
  Keys = {"k1", "k2"}
  MaxBal = 2
  Vals = {1, 2}
  MaxSnaps = 2
  MaxOps = 30
  Depth = 30
  CodeIds = {1, 2}
  Blocks = TRUE
  Ops = {"setbalance", "setvalue", "deletevalue", "initcontract", "touch", "setblock", "deploy", "accept", "snapshot", "reset", "clearcache", "flush", "reload"}
  SnapSlots = {1, 2}
  HistOn = TRUE
INVARIANT Emit
