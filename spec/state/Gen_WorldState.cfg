SPECIFICATION Spec
CONSTANTS
  Accts = {"a", "b", "c"}
  Keys = {"k1", "k2"}
  MaxBal = 2
  Vals = {1, 2}
  MaxSnaps = 2
  MaxOps = 30
  Depth = 30
  CodeIds = {1, 2}
  Blocks = TRUE
  MaxDep = 2
  Ops = {"setbalance", "setvalue", "deletevalue", "initcontract", "touch", "setblock", "deploy", "accept", "snapshot", "reset", "clearcache", "flush", "reload", "adddeposit", "withdraw", "withdrawall", "paysteps"}
  SnapSlots = {1, 2}
  HistOn = TRUE
INVARIANT Emit
