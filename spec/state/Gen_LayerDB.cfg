SPECIFICATION Spec
CONSTANTS
  Buckets = {"b1", "b2"}
  Keys = {"x", "y"}
  Vals = {1, 2, 3}
  MaxOps = 4
  Depth = 4
INVARIANT Emit
