---------------------------- MODULE WorldState ----------------------------
(* World state of service/state/worldstate.go with its account cache (C14).

   A world state object holds the account trie (`trie`: the committed accounts), a cache of
   mutable account objects (mutableAccounts) and for every cached account the snapshot
   object that was last loaded from / written to the trie (lastAccounts).  Mutators work on the
   cached account; GetSnapshot and ClearCache first write the cache back
   (flushAccountCacheInLock): an account whose snapshot object is still the one recorded in
   lastAccounts is skipped, a never-stored empty account is skipped, an empty account that was
   stored is deleted from the trie, anything else is stored.  Reset(snapshot) replaces the trie
   and re-synchronises every cached account with it.

   Next to this transcription the module keeps `logical`, the plain contents the user has
   written (updated by the mutators, replaced by Reset), as the independent reference. *)
EXTENDS Integers, Sequences, FiniteSets, TLC
CONSTANTS Accts, Keys, MaxBal, Vals, MaxSnaps, MaxOps, HistOn,
          CodeIds,   \* contract codes that can be deployed (empty set: no contract life cycle)
          Blocks,    \* BOOLEAN: SetBlock is part of the alphabet
          MaxDep,    \* deposits: an account has no deposit (-1) or one fee-sharing deposit with 0..MaxDep units left (MaxDep = 0: no deposit calls)
          Ops,       \* the calls that are part of the alphabet (directed generators use a sub-alphabet)
          SnapSlots  \* slots GetSnapshot may write (the others keep the snapshot of the initial, empty state)
VARIABLES trie,      \* [Accts -> Data \cup {Absent}]   accounts stored in the account trie
          cache,     \* [Accts -> [in, d, sync, last]]  mutableAccounts / lastAccounts
          logical,   \* [Accts -> Data]                 what the user wrote
          snaps,     \* slots [trie, logical, fl]
          nops, hist
vars == <<trie, cache, logical, snaps, nops, hist>>

NoVal == 0
Absent == [absent |-> TRUE]
\* bal balance, st storage, ct contract account, bl blocked flag (account state bits), nx code id of the pending
\* next contract, cur code id of the accepted current contract (0 = none)
EmptyD == [bal |-> 0, st |-> [k \in Keys |-> NoVal], ct |-> FALSE, bl |-> FALSE, nx |-> 0, cur |-> 0, dep |-> -1]
\* accountData.IsEmpty: balance 0, no storage, not a contract, no state bits
IsEmpty(d) == d.bal = 0 /\ (\A k \in Keys : d.st[k] = NoVal) /\ ~d.ct /\ ~d.bl
NotCached == [in |-> FALSE, d |-> EmptyD, sync |-> FALSE, last |-> FALSE]

\* what a reader of the world state sees for account a (GetAccountSnapshot)
View(a) == IF cache[a].in THEN cache[a].d ELSE IF trie[a] = Absent THEN EmptyD ELSE trie[a]
ViewAll == [a \in Accts |-> View(a)]
\* what a reader of a snapshot sees
SnapView(t) == [a \in Accts |-> IF t[a] = Absent THEN EmptyD ELSE t[a]]
\* the canonical trie of some contents: empty accounts are not stored
CanonTrie(l) == [a \in Accts |-> IF IsEmpty(l[a]) THEN Absent ELSE l[a]]

\* GetAccountState(a): load into the cache
Loaded(c, a) == IF c[a].in THEN c
                ELSE [c EXCEPT ![a] = IF trie[a] = Absent THEN [in |-> TRUE, d |-> EmptyD, sync |-> FALSE, last |-> FALSE]
                                      ELSE [in |-> TRUE, d |-> trie[a], sync |-> TRUE, last |-> TRUE]]
\* a mutator changed the account (markDirty) or not
Mutate(a, d2, dirty) ==
  LET c == Loaded(cache, a) IN
  /\ cache' = [c EXCEPT ![a].d = d2, ![a].sync = IF dirty THEN FALSE ELSE @]
  /\ logical' = [logical EXCEPT ![a] = d2]
  /\ UNCHANGED <<trie, snaps>>

\* flushAccountCacheInLock: result [trie, cache]
FlushOne(t, c, a) ==
  IF ~c[a].in THEN [t |-> t, c |-> c]
  ELSE IF c[a].last /\ c[a].sync THEN [t |-> t, c |-> c]
  ELSE IF ~c[a].last /\ IsEmpty(c[a].d) THEN [t |-> t, c |-> c]
  ELSE [t |-> [t EXCEPT ![a] = IF IsEmpty(c[a].d) THEN Absent ELSE c[a].d],
        c |-> [c EXCEPT ![a].last = TRUE, ![a].sync = TRUE]]
RECURSIVE FlushSet(_, _, _)
FlushSet(t, c, S) == IF S = {} THEN [t |-> t, c |-> c]
                     ELSE LET a == CHOOSE x \in S : TRUE  r == FlushOne(t, c, a) IN FlushSet(r.t, r.c, S \ {a})
FlushCache == FlushSet(trie, cache, Accts)

-----------------------------------------------------------------------------
DataJ(d) == [bal |-> d.bal, st |-> d.st, ct |-> d.ct, bl |-> d.bl, nx |-> d.nx, cur |-> d.cur, dep |-> d.dep, empty |-> IsEmpty(d)]
TrieJ(t) == [a \in Accts |-> IF t[a] = Absent THEN [absent |-> TRUE] ELSE DataJ(t[a]) @@ [absent |-> FALSE]]
Log(r) == /\ nops' = IF MaxOps = 0 THEN 0 ELSE nops + 1
          /\ hist' = IF HistOn
                     THEN Append(hist, r @@ [view |-> [a \in Accts |-> DataJ(ViewAll'[a])],
                                            \* accounts that have a mutable account object (read through it as well)
                                            cin |-> [a \in Accts |-> cache'[a].in],
                                            sn |-> [i \in 1..MaxSnaps |-> TrieJ(snaps'[i].trie)]])
                     ELSE hist
Rec(op, a, k, v, s, res) == [op |-> op, a |-> a, k |-> k, v |-> v, s |-> s, res |-> res]

Init == /\ trie = [a \in Accts |-> Absent] /\ cache = [a \in Accts |-> NotCached]
        /\ logical = [a \in Accts |-> EmptyD]
        /\ snaps = [i \in 1..MaxSnaps |-> [trie |-> [a \in Accts |-> Absent], logical |-> [a \in Accts |-> EmptyD], fl |-> FALSE]]
        /\ nops = 0 /\ hist = <<>>

SetBalance(a, b) == /\ Mutate(a, [View(a) EXCEPT !.bal = b], View(a).bal # b)
                    /\ Log(Rec("setbalance", a, "", b, 0, 0))
SetValue(a, k, v) == /\ Mutate(a, [View(a) EXCEPT !.st[k] = v], TRUE)             \* always marks dirty
                     /\ Log(Rec("setvalue", a, k, v, 0, View(a).st[k]))           \* returns the old value
DeleteValue(a, k) == /\ Mutate(a, [View(a) EXCEPT !.st[k] = NoVal], View(a).st[k] # NoVal)
                     /\ Log(Rec("deletevalue", a, k, NoVal, 0, View(a).st[k]))
InitContract(a) == /\ Mutate(a, [View(a) EXCEPT !.ct = TRUE], ~View(a).ct)
                   /\ Log(Rec("initcontract", a, "", 0, 0, IF View(a).ct THEN 0 ELSE 1))
\* SetBlock(b): any account; a blocked externally owned account is not empty any more
SetBlock(a, b) == /\ Blocks
                  /\ Mutate(a, [View(a) EXCEPT !.bl = b], View(a).bl # b)
                  /\ Log(Rec("setblock", a, "", IF b THEN 1 ELSE 0, 0, 0))
\* DeployContract(code c): only on contract accounts (otherwise nothing happens); replaces a pending next contract
Deploy(a, c) == /\ IF View(a).ct THEN Mutate(a, [View(a) EXCEPT !.nx = c], TRUE)
                   ELSE Mutate(a, View(a), FALSE)
                /\ Log(Rec("deploy", a, "", c, 0, IF View(a).ct THEN View(a).nx ELSE 0))   \* returns the replaced deployment
\* AcceptContract: the pending next contract becomes the current one
Accept(a) == /\ IF View(a).ct /\ View(a).nx # 0 THEN Mutate(a, [View(a) EXCEPT !.cur = View(a).nx, !.nx = 0], TRUE)
                ELSE Mutate(a, View(a), FALSE)
             /\ Log(Rec("accept", a, "", View(a).nx, 0, IF View(a).ct /\ View(a).nx # 0 THEN 1 ELSE 0))
\* Deposits of a contract account (depositlist.go, term 0 = one deposit object that is updated IN PLACE by the calls below;
\* a snapshot must own a copy).  dep = -1: no deposit; n >= 0: one deposit with n units left (0 units is still a deposit).
\* Only contract accounts get deposits (as the deposit handler guarantees): they are never empty.
AddDeposit(a) == /\ View(a).ct /\ View(a).dep < MaxDep
                 /\ Mutate(a, [View(a) EXCEPT !.dep = IF @ = -1 THEN 1 ELSE @ + 1], TRUE)
                 /\ Log(Rec("adddeposit", a, "", 1, 0, 1))
\* WithdrawDeposit of one unit: fails without a deposit or with 0 units left; withdrawing the last unit leaves an empty deposit
Withdraw(a) == LET ok == View(a).dep >= 1 IN
               /\ Mutate(a, IF ok THEN [View(a) EXCEPT !.dep = @ - 1] ELSE View(a), ok)
               /\ Log(Rec("withdraw", a, "", 1, 0, IF ok THEN 1 ELSE 0))
\* WithdrawDeposit of everything (nil amount): removes the deposit
WithdrawAll(a) == LET ok == View(a).dep >= 0 IN
                  /\ Mutate(a, IF ok THEN [View(a) EXCEPT !.dep = -1] ELSE View(a), ok)
                  /\ Log(Rec("withdrawall", a, "", View(a).dep, 0, IF ok THEN 1 ELSE 0))
\* PaySteps with fee sharing: one step at a price of one unit is taken from the deposit (if there is a deposit the account is
\* marked dirty even when nothing is left to pay with)
PaySteps(a) == LET has == View(a).dep >= 0 IN
               /\ Mutate(a, IF View(a).dep >= 1 THEN [View(a) EXCEPT !.dep = @ - 1] ELSE View(a), has)
               /\ Log(Rec("paysteps", a, "", 1, 0, IF View(a).dep >= 1 THEN 1 ELSE 0))       \* steps paid by the deposit
\* GetAccountState without a change: only loads the account into the cache
Touch(a) == /\ cache' = Loaded(cache, a) /\ UNCHANGED <<trie, logical, snaps>>
            /\ Log(Rec("touch", a, "", 0, 0, 0))
GetSnapshot(s) == LET r == FlushCache IN
                  /\ trie' = r.t /\ cache' = r.c
                  /\ snaps' = [snaps EXCEPT ![s] = [trie |-> r.t, logical |-> logical, fl |-> FALSE]]
                  /\ UNCHANGED logical
                  /\ Log(Rec("snapshot", "", "", 0, s, 0))
Reset(s) == LET t == snaps[s].trie IN
            /\ trie' = t
            /\ cache' = [a \in Accts |->
                           IF ~cache[a].in THEN cache[a]
                           ELSE IF t[a] = Absent THEN [in |-> TRUE, d |-> EmptyD, sync |-> FALSE, last |-> FALSE]
                           ELSE [in |-> TRUE, d |-> t[a], sync |-> TRUE, last |-> TRUE]]
            /\ logical' = snaps[s].logical
            /\ UNCHANGED snaps
            /\ Log(Rec("reset", "", "", 0, s, 0))
ClearCache == LET r == FlushCache IN
              /\ trie' = r.t /\ cache' = [a \in Accts |-> NotCached]
              /\ UNCHANGED <<logical, snaps>>
              /\ Log(Rec("clearcache", "", "", 0, 0, 0))
Flush(s) == /\ snaps' = [snaps EXCEPT ![s].fl = TRUE] /\ UNCHANGED <<trie, cache, logical>>
            /\ Log(Rec("flush", "", "", 0, s, 0))
\* a new world state object (and a new world snapshot, observed) from the state hash of a flushed snapshot
Reload(s) == /\ snaps[s].fl
             /\ trie' = snaps[s].trie /\ cache' = [a \in Accts |-> NotCached] /\ logical' = snaps[s].logical
             /\ UNCHANGED snaps
             /\ Log(Rec("reload", "", "", 0, s, 0))

Can == MaxOps = 0 \/ nops < MaxOps
Next == \/ \E a \in Accts, b \in 0..MaxBal : Can /\ "setbalance" \in Ops /\ SetBalance(a, b)
        \/ \E a \in Accts, k \in Keys, v \in Vals : Can /\ "setvalue" \in Ops /\ SetValue(a, k, v)
        \/ \E a \in Accts, k \in Keys : Can /\ "deletevalue" \in Ops /\ DeleteValue(a, k)
        \/ \E a \in Accts : Can /\ "initcontract" \in Ops /\ InitContract(a)
        \/ \E a \in Accts : Can /\ "touch" \in Ops /\ Touch(a)
        \/ \E a \in Accts, b \in BOOLEAN : Can /\ "setblock" \in Ops /\ SetBlock(a, b)
        \/ \E a \in Accts, c \in CodeIds : Can /\ "deploy" \in Ops /\ Deploy(a, c)
        \/ \E a \in Accts : Can /\ "accept" \in Ops /\ CodeIds # {} /\ Accept(a)
        \/ \E a \in Accts : Can /\ "adddeposit" \in Ops /\ MaxDep > 0 /\ AddDeposit(a)
        \/ \E a \in Accts : Can /\ "withdraw" \in Ops /\ MaxDep > 0 /\ Withdraw(a)
        \/ \E a \in Accts : Can /\ "withdrawall" \in Ops /\ MaxDep > 0 /\ WithdrawAll(a)
        \/ \E a \in Accts : Can /\ "paysteps" \in Ops /\ MaxDep > 0 /\ PaySteps(a)
        \/ \E s \in SnapSlots \cap 1..MaxSnaps : Can /\ "snapshot" \in Ops /\ GetSnapshot(s)
        \/ \E s \in 1..MaxSnaps : Can /\ "reset" \in Ops /\ Reset(s)
        \/ Can /\ "clearcache" \in Ops /\ ClearCache
        \/ \E s \in 1..MaxSnaps : Can /\ "flush" \in Ops /\ Flush(s)
        \/ \E s \in 1..MaxSnaps : Can /\ "reload" \in Ops /\ Reload(s)
Spec == Init /\ [][Next]_vars

-----------------------------------------------------------------------------
(* C14 *)
\* readers of the world state see exactly what was written
ReadsLogical == ViewAll = logical
\* a snapshot holds the canonical trie of the contents at the time it was taken: its hash depends on the
\* logical contents only, and empty accounts are absent (indistinguishable from never-touched ones)
SnapshotsCanonical == \A s \in 1..MaxSnaps : snaps[s].trie = CanonTrie(snaps[s].logical)
\* whatever is committed in the trie is what a flush of the cache would leave canonical
FlushCanonical == FlushCache.t = CanonTrie(logical)
\* a snapshot never changes except by being retaken
SnapshotImmutable == [][\A s \in 1..MaxSnaps :
                          snaps'[s].trie # snaps[s].trie => (snaps'[s].logical = logical /\ snaps'[s].trie = trie')]_vars
\* resetting restores exactly the snapshot's observable contents
ResetRestores == [][\A s \in 1..MaxSnaps :
                      (logical' = snaps[s].logical /\ trie' = snaps[s].trie /\ UNCHANGED snaps)
                         => ViewAll' = SnapView(snaps[s].trie)]_vars
=============================================================================
