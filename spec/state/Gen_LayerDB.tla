---- MODULE Gen_LayerDB ----
EXTENDS LayerDB, Json
CONSTANT Depth
\* every step of a behaviour carries the predicted projected state
Emit == (Len(hist) = Depth) => PrintT(<<"B", ToJson(hist)>>)
====
