---- MODULE Gen_WorldState ----
EXTENDS WorldState, Json
CONSTANT Depth
Emit == (Len(hist) = Depth) => PrintT(<<"B", ToJson(hist)>>)
====
