---- MODULE MC_LayerDB ----
EXTENDS LayerDB
\* exhaustive checker view: the history does not influence behaviour
ViewNoHist == <<base, ovl, passthru, Len(hist)>>
====
