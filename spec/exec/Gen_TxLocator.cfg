SPECIFICATION Spec
CONSTANTS
  Ids = {"a", "b"}
  MaxTs = 6
  Ths = {1, 2, 3}
  MaxNodes = 4
  MaxList = 2
  Impl = "required"
  Group = "normal"
  ForceOn = FALSE
  RestartOn = FALSE
  MaxOps = 4
  Depth = 4
  Pattern <- PatNone
INVARIANT Emit
