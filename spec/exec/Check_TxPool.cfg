SPECIFICATION CSpec
CONSTANTS
  Accounts = {"a", "b", "c"}
  Values = {0}
  Limits = {0}
  Sizes = {1}
  MaxTs = 6
  Th = 3
  Price = 1
  MinStep = 1
  InitBal = 5
  Rich = {"a", "b", "c"}
  PoorBal = 0
  MaxN = 1
  MaxPool = 1
  MaxOps = 0
