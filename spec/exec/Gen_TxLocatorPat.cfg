SPECIFICATION Spec
CONSTANTS
  Ids = {"a", "b"}
  MaxTs = 4
  Ths = {1, 4}
  MaxNodes = 6
  MaxList = 1
  Impl = "required"
  Group = "normal"
  ForceOn = FALSE
  RestartOn = TRUE
  MaxOps = 8
  Depth = 8
  Pattern <- PatRestart1
INVARIANT EmitPattern
CONSTRAINT RestartScenario
