SPECIFICATION Spec
CONSTANTS
  Accounts = {"a", "b"}
  Values = {0, 2}
  Limits = {0, 1}
  Sizes = {1}
  MaxTs = 3
  Th = 1
  Price = 1
  MinStep = 1
  InitBal = 2
  Rich = {"a", "b"}
  PoorBal = 0
  MaxN = 3
  MaxPool = 3
  MaxOps = 0
VIEW ViewNoHist
INVARIANTS TypeOK NothingToPropose
PROPERTIES CandidateValid DropsJustified DropOldExact FitsByteLimit
