---- MODULE Gen_ParallelExec ----
EXTENDS ParallelExec, Json
\* a behaviour is complete when the dispatcher has returned; every step carries the predicted values
Emit == (result # "run" /\ hist[Len(hist)].op \in {"exit", "topfail", "toprefuse"}) => PrintT(<<"B", ToJson(hist)>>)
\* Random walks: TLC's simulator first picks one of the actions it has split Next into (it splits existential
\* quantifiers over constant sets, so choosing a program would be |Progs| actions and the dispatcher would always
\* run ahead of the goroutines); here the program choice is one action.
GenNext == \/ TopFail
           \/ \E p \in {q \in Progs : disp >= 0} : Top(p)
           \/ \E p \in {q \in Progs : disp >= 0} : TopRefuse(p)
           \/ Ensure
           \/ Spawn
           \/ \E t \in Tx : Begin(t)
           \/ \E t \in Tx : Step(t)
           \/ \E t \in Tx : EndExec(t)
           \/ \E t \in Tx : Commit(t)
           \/ Exit
           \/ Cancel
GenSpec == Init /\ [][GenNext]_vars
\* state constraint of the "hand-over" generator: tx 1 writes account x, tx 2 declares a write lock on x but never touches
\* it (its Commit has to wait for tx 1 before x is handed on), tx 3 reads x
HandOverShape ==
  /\ (disp >= 1 => (prog[1].world = "N" /\ prog[1].lock["x"] = "W" /\ prog[1].ops = << <<"w", "x">> >>))
  /\ (disp >= 2 => (prog[2].world = "N" /\ prog[2].lock["x"] = "W" /\ prog[2].ops = <<>>))
  /\ (disp >= 3 => (prog[3].world = "N" /\ prog[3].lock["x"] # "N" /\ prog[3].ops = << <<"r", "x">> >>))
\* state constraint of the "retry after a committed world-lock transaction" generator: tx 1 holds the world write lock and is
\* committed before tx 2 is dispatched (so the future of tx 2 has a base snapshot); tx 2 write-locks x, reads and then writes it, and
\* its first attempt fails retryably: worldVirtualState.Reset has to restore x from the base snapshot (existing or not yet existing account)
RetryShape ==
  /\ (disp >= 1 => prog[1].world = "W")
  /\ (disp >= 2 => (ph[1] = "committed" /\ prog[2].world = "N" /\ prog[2].fate = "retry1" /\ prog[2].lock["x"] = "W"
                     /\ prog[2].ops = << <<"r", "x">>, <<"w", "x">> >>))
====
