---- MODULE Check_TxPool ----
(* Verdict of C37 evaluated by the specification on what the REAL TransactionPool.Candidate returned:
   cands.ndjson holds one record per real Candidate call {id, bt, sel (the selected transactions in order),
   comm (the transactions committed before)}; for each of them TLC prints why the list is not a valid block on
   the parent state ("ok" if it is): window, committed / repeated id, step limit, and the cumulative balance
   (WhyInvalid of TxPool.tla, the same operator CandidateValid is stated with). *)
EXTENDS TxPool, Json
Recs == ndJsonDeserialize("cands.ndjson")
Judge(r) == [id |-> r.id, why |-> WhyInvalid(r.sel, r.bt, {r.comm[i] : i \in 1..Len(r.comm)})]
CInit == /\ Init
         /\ \A i \in 1..Len(Recs) : PrintT(<<"R", ToJson(Judge(Recs[i]))>>)
CSpec == CInit /\ [][UNCHANGED vars]_vars
====
