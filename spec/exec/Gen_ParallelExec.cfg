SPECIFICATION GenSpec
CONSTANTS
  K = 3
  Acc = {"x", "y"}
  Level = 2
  Impl = "required"
  MaxLen = 2
  Fates = {"ok", "fatal", "retry1", "retryx"}
  MaxFail = 1
  WorldTx = TRUE
  RetryCount = 2
  MaxOps = 60
INVARIANT Emit
