---- MODULE Trace_ParallelExec ----
(* Validation of recorded free-running executions of the real concurrent executor against
   ParallelExec.  trace.ndjson holds one JSON object per executed block:
     {"progs": [descriptor per transaction], "ev": [events of transaction 1, ..., events of transaction K,
                                                     events of the dispatcher]}
   Only the order of the events of one thread is known (each goroutine logs its own events); TLC searches for
   an interleaving of the threads in which every event is an enabled step of the specification with exactly
   the recorded values (value read, outcome of an attempt, outcome of the block).  Starting a goroutine is not
   recorded (silent Spawn).  The runs are chained; reaching the end of the last one makes NotAccepted false,
   which is how acceptance is reported. *)
EXTENDS ParallelExec, Json
VARIABLES run, pos
tvars == <<vars, run, pos>>
Tr == ndJsonDeserialize("trace.ndjson")
Threads == 1..(K + 1)

Consumed == \A th \in Threads : pos[th] = Len(Tr[run].ev[th])
TInit == Init /\ init = Tr[1].init /\ run = 1 /\ pos = [th \in Threads |-> 0]

Match(e) ==
  CASE e.op = "top"    -> Top(Tr[run].progs[e.t])
    [] e.op = "ensure" -> Ensure
    [] e.op = "begin"  -> Begin(e.t)
    [] e.op = "step"   -> Step(e.t) /\ hist'[1].i = e.i /\ hist'[1].val = e.val /\ hist'[1].k = e.k /\ hist'[1].a = e.a
    [] e.op = "end"    -> EndExec(e.t) /\ hist'[1].out = e.out
    [] e.op = "commit" -> Commit(e.t)
    [] e.op = "result" -> (TopFail \/ Exit \/ (disp < K /\ TopRefuse(Tr[run].progs[disp + 1]))) /\ result' = e.out
    [] OTHER -> FALSE

Consume ==
  \E th \in Threads :
    /\ pos[th] < Len(Tr[run].ev[th])
    /\ Match(Tr[run].ev[th][pos[th] + 1])
    /\ pos' = [pos EXCEPT ![th] = @ + 1] /\ run' = run
Silent == Spawn /\ UNCHANGED <<run, pos>>
NextRun ==
  /\ Consumed /\ run < Len(Tr)
  /\ run' = run + 1 /\ pos' = [th \in Threads |-> 0]
  /\ prog' = [t \in Tx |-> NoProg] /\ init' = Tr[run + 1].init /\ real' = Tr[run + 1].init /\ disp' = 0 /\ dpc' = "top"
  /\ las' = [t \in Tx |-> [a \in Acc |-> NoLas]]
  /\ wlock' = [t \in Tx |-> "N"] /\ wsnap' = [t \in Tx |-> [a \in Acc |-> 0]]
  /\ wbase' = [t \in Tx |-> [a \in Acc |-> -1]]
  /\ sysdep' = [t \in Tx |-> 0] /\ ph' = [t \in Tx |-> "none"] /\ pc' = [t \in Tx |-> 0]
  /\ att' = [t \in Tx |-> 0] /\ saved' = [t \in Tx |-> [a \in Acc |-> 0]]
  /\ lastAL' = [a \in Acc |-> 0] /\ lastWL' = 0 /\ roCache' = [a \in Acc |-> -1]
  /\ latch' = 0 /\ rcpt' = [t \in Tx |-> FALSE] /\ result' = "run" /\ cancelled' = FALSE /\ hist' = <<>>
TNext == Consume \/ Silent \/ NextRun
TSpec == TInit /\ [][TNext]_tvars

Accepted == run = Len(Tr) /\ Consumed
NotAccepted == ~Accepted
====
