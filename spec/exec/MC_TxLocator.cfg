SPECIFICATION Spec
CONSTANTS
  Ids = {a, b}
  MaxTs = 4
  Ths = {1, 2}
  MaxNodes = 4
  MaxList = 2
  Impl = "required"
  Group = "normal"
  ForceOn = FALSE
  RestartOn = FALSE
  MaxOps = 0
VIEW ViewNoHist
SYMMETRY Sym
INVARIANTS TypeOK NoDupOnChain AcceptedInWindow HasIsExact DecisionExact
PROPERTIES AcceptIff
