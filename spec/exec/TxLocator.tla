---------------------------- MODULE TxLocator ----------------------------
(* Replay protection (C11): common/txlocator/manager.go + service/txidmanager.go +
   the window check of service/tschecker.go.

   Unfinalized blocks are "trackers" (txIDLogger / tracker) forming a tree; every tracker has a
   block timestamp, a threshold and, after Add, the ids of its transactions.  Finalizing a block
   commits the tracker chain into the manager: the ids go to the locator map at once, the DB
   write is done by one asynchronous flush worker (FIFO), which afterwards appends the list to the
   window cache and evicts older lists that are out of every future window (maxTSInDB remembers
   the largest upper bound of an evicted list so that newer transactions need no DB lookup).

   One action per critical section: Block = validation of a new block (tracker.New + tracker.Add
   back to back, as transition.ensureRecordTXIDsInLock does under the transition mutex, followed
   by timestampRange.CheckTx for every transaction; a rejected block leaves no tracker behind),
   Commit (tracker.Commit of a chain), FlushDone (the flush worker finishing the pending list),
   Has (tracker.Has / manager.Has).  A restart of the manager is not modelled.

   Impl = "required": the optimisations are written the way the window (bt-th, bt+th] requires.
   Impl = "code":     the comparisons as written in manager.go (tracker.Has: ts >= bt+th returns
                      false without asking the ancestors; hasLocatorInCache: maxTSInDB <= ts).
   Conformance replays always use "required"; "code" exists to let TLC derive the defect. *)
EXTENDS Integers, Sequences, FiniteSets, TLC
CONSTANTS Ids,        \* transaction ids (strings)
          MaxTs,      \* timestamps 1..MaxTs (block timestamps strictly increase along a chain)
          Ths,        \* thresholds a block may have (may differ per block)
          MaxNodes,   \* trackers ever created, including the root tracker
          MaxList,    \* transactions per block
          Impl,       \* "required" | "code"
          Group,      \* "normal": the flush is asynchronous; "patch": commitTracker flushes synchronously
          ForceOn,    \* BOOLEAN: blocks that were validated before are added with force = true (no look-up)
          RestartOn,  \* BOOLEAN: the node may restart (new manager over the same DB, new root tracker)
          MaxOps      \* 0: no history (exhaustive checker); n > 0: record history, stop after n calls

VARIABLES tsOf,       \* Ids -> timestamp (the id is a hash over the timestamp)
          par,        \* logical parent of tracker n (0 for the root)          -- ground truth
          ptr,        \* tracker.parent pointer of the code (0 = nil: ask the manager)
          nts, nth,   \* block timestamp / threshold of tracker n
          ntx,        \* Seq(Ids): list recorded by Add
          st,         \* "added" | "committed"
          locs,       \* manager.locators (set of ids)
          cacheQ,     \* manager.cache[group] list of committed+flushed trackers, in order
          maxTs,      \* manager.cache[group].maxTSInDB
          dbase,      \* ids in the DB bucket
          pending,    \* tracker whose flush job is fetched but not finished (0 = worker idle)
          lastc,      \* last committed tracker (0 = none)
          base,       \* root tracker of the running manager (changes at a restart)
          hist
vars == <<tsOf, par, ptr, nts, nth, ntx, st, locs, cacheQ, maxTs, dbase, pending, lastc, base, hist>>

N == Len(par)
Nodes == 1..N
Range(s) == {s[i] : i \in 1..Len(s)}
Lists == UNION {[1..k -> Ids] : k \in 0..MaxList}
InWindow(ts, bt, th) == ts > bt - th /\ ts <= bt + th
Max(a, b) == IF a > b THEN a ELSE b

\* ---------------------------------------------------------------- ground truth
RECURSIVE Anc(_)
Anc(n) == IF n = 0 THEN {} ELSE {n} \cup Anc(par[n])       \* n and its logical ancestors
Live(n) == (lastc = 0 \/ lastc \in Anc(n)) /\ base \in Anc(n)  \* not on an abandoned fork, created after the last restart
\* block timestamp below which a child of n cannot be (a root tracker has timestamp 0: the last finalized block counts)
RECURSIVE ChainTs(_)
ChainTs(n) == IF n = 0 THEN 0 ELSE IF nts[n] = 0 THEN ChainTs(par[n]) ELSE nts[n]
Holds(j, id) == st[j] \in {"added", "committed"} /\ id \in Range(ntx[j])
OnChain(id, n) == \E j \in Anc(n) : Holds(j, id)            \* id is in block n or an ancestor
Finalized(id) == \E j \in Nodes : st[j] = "committed" /\ id \in Range(ntx[j])

\* ---------------------------------------------------------------- transcription of the code
Exceeded(n, ts) == IF Impl = "code" THEN ts >= nts[n] + nth[n] ELSE ts > nts[n] + nth[n]
MgrHas(id) ==                                               \* manager.Has
  IF id \in locs THEN TRUE
  ELSE IF maxTs # 0 /\ (IF Impl = "code" THEN maxTs <= tsOf[id] ELSE maxTs < tsOf[id]) THEN FALSE
  ELSE id \in dbase
RECURSIVE THas(_, _)
THas(n, id) ==                                              \* tracker.Has (n = 0: the manager)
  IF n = 0 THEN MgrHas(id)
  ELSE IF Exceeded(n, tsOf[id]) THEN (IF Impl = "code" THEN FALSE ELSE THas(ptr[n], id))
  ELSE IF st[n] # "committed" /\ id \in Range(ntx[n]) THEN TRUE     \* locators map (nil once committed)
  ELSE THas(ptr[n], id)

\* tracker.Add(list, force=false): index of the first rejected element, 0 if all are accepted
DupAt(pp, l) ==          \* pp: the parent pointer of the new tracker
  LET bad == {i \in 1..Len(l) : (\E j \in 1..(i-1) : l[j] = l[i]) \/ THas(pp, l[i])}
  IN IF bad = {} THEN 0 ELSE CHOOSE i \in bad : \A j \in bad : i <= j
AllInWindow(ts, th, l) == \A i \in 1..Len(l) : InWindow(tsOf[l[i]], ts, th)

\* why a duplicate should have been rejected (names the input class in violation keys)
RECURSIVE PtrChain(_)
PtrChain(n) == IF n = 0 THEN <<>> ELSE <<n>> \o PtrChain(ptr[n])
\* class of a look-up of id along the pointer chain ch that has to answer "present"
HitClass(ch, id) ==
  LET ts == tsOf[id]
      hp == {k \in 1..Len(ch) : st[ch[k]] # "committed" /\ id \in Range(ntx[ch[k]])}
      upto == IF hp = {} THEN Len(ch) ELSE CHOOSE k \in hp : \A k2 \in hp : k <= k2
      path == {ch[k] : k \in 1..upto}
  IN IF \E j \in path : ts = nts[j] + nth[j] THEN "ts-eq-upper-bound"      \* (the boundary class takes precedence: a
     ELSE IF \E j \in path : ts > nts[j] + nth[j] THEN "ancestor-skipped"   \*  look-up may both skip trackers and hit a boundary)
     ELSE IF hp = {} /\ id \notin locs /\ maxTs # 0 /\ maxTs = ts THEN "ts-eq-upper-bound"
     ELSE IF hp = {} THEN "finalized" ELSE "unfinalized-ancestor"
DupClass(pp, l, i) ==
  IF \E j \in 1..(i-1) : l[j] = l[i] THEN "same-block" ELSE HitClass(PtrChain(pp), l[i])

\* ---------------------------------------------------------------- manager state as a record
Mgr == [locs |-> locs, cacheQ |-> cacheQ, maxTs |-> maxTs, dbase |-> dbase, pending |-> pending]
\* flush worker finishing list k = m.pending: flushList, then addListAndClearOld
FlushM(m) ==
  LET k == m.pending
      listMin == nts[k] - nth[k]
      q == m.cacheQ
      keepFrom == IF \E i \in 1..Len(q) : nts[q[i]] + nth[q[i]] > listMin
                  THEN CHOOSE i \in 1..Len(q) : /\ nts[q[i]] + nth[q[i]] > listMin
                                                 /\ \A j \in 1..(i-1) : nts[q[j]] + nth[q[j]] <= listMin
                  ELSE Len(q) + 1
      old == {q[i] : i \in 1..(keepFrom - 1)}
      bump == {nts[j] + nth[j] : j \in {o \in old : nts[o] # 0}}
      nm == IF bump = {} THEN m.maxTs
            ELSE Max(m.maxTs, CHOOSE x \in bump : \A y \in bump : y <= x)
  IN [locs |-> m.locs \ UNION {Range(ntx[o]) : o \in old},
      cacheQ |-> Append(SubSeq(q, keepFrom, Len(q)), k),
      maxTs |-> nm,
      dbase |-> m.dbase \cup Range(ntx[k]),
      pending |-> 0]
\* manager.commitTracker(j): waits until the worker has fetched j's job, i.e. every earlier job
\* is completely flushed; an empty list has nothing to write, its flush finishes at once.
CommitOne(m, j) ==
  LET m1 == IF m.pending # 0 THEN FlushM(m) ELSE m
      m2 == [m1 EXCEPT !.locs = @ \cup Range(ntx[j]), !.pending = j]
  IN IF ntx[j] = <<>> \/ Group = "patch" THEN FlushM(m2) ELSE m2
RECURSIVE CommitSeq(_, _)
CommitSeq(m, s) == IF s = <<>> THEN m ELSE CommitSeq(CommitOne(m, Head(s)), Tail(s))
\* trackers that tracker.Commit() of k commits, oldest first (follows the code's parent pointers)
RECURSIVE Uncommitted(_)
Uncommitted(k) == IF k = 0 THEN <<>>
                  ELSE Uncommitted(ptr[k]) \o (IF st[k] = "committed" THEN <<>> ELSE <<k>>)

\* ---------------------------------------------------------------- history
Proj == [locs |-> locs', cacheQ |-> cacheQ', maxTs |-> maxTs', dbase |-> dbase', pending |-> pending']
Can == MaxOps = 0 \/ Len(hist) < MaxOps
\* MaxOps = 0 (exhaustive checker): only the last call is kept (for the action properties)
Log(r) == hist' = IF MaxOps = 0 THEN <<r>> ELSE Append(hist, r @@ [m |-> Proj, tsOf |-> tsOf, rootTh |-> nth[1], group |-> Group])

Init == /\ tsOf \in [Ids -> 1..MaxTs]
        \* the root tracker of txIDManager.NewLogger(group, 0, 0): timestamp 0, current threshold
        /\ \E th \in Ths : nth = <<th>>
        /\ par = <<0>> /\ ptr = <<0>> /\ nts = <<0>> /\ ntx = << <<>> >> /\ st = <<"added">>
        /\ locs = {} /\ cacheQ = <<>> /\ maxTs = 0 /\ dbase = {} /\ pending = 0 /\ lastc = 0 /\ base = 1
        /\ hist = <<>>

\* validation of a block with timestamp ts, threshold th and transaction list l on top of block p:
\* tracker.New(height, ts, th) on p, tracker.Add(l, false), then the window check of every transaction
PtrFor(p) == IF st[p] = "committed" /\ ptr[p] = 0 THEN 0 ELSE p
Fresh(p, l) == /\ \A i \in 1..Len(l) : ~OnChain(l[i], p)
               /\ \A i, j \in 1..Len(l) : i # j => l[i] # l[j]
Block(p, ts, th, l, force) ==
  /\ Can /\ p \in Nodes /\ ts > ChainTs(p) /\ Live(p)
  \* force = true is used for blocks that passed validation before (own proposals, blocks re-executed at start-up)
  /\ force => (ForceOn /\ Fresh(p, l) /\ AllInWindow(ts, th, l))
  \* the exhaustive checker takes accepted blocks only and judges rejections by DecisionExact
  /\ MaxOps = 0 => (N < MaxNodes /\ AllInWindow(ts, th, l) /\ (force \/ DupAt(PtrFor(p), l) = 0))
  /\ UNCHANGED <<tsOf, locs, cacheQ, maxTs, dbase, pending, lastc, base>>
  /\ LET pp == PtrFor(p)
         d == IF force THEN 0 ELSE DupAt(pp, l)
         win == AllInWindow(ts, th, l)
         ok == d = 0 /\ win /\ N < MaxNodes
         r == [op |-> "block", n |-> IF ok THEN N + 1 ELSE 0, p |-> p, ts |-> ts, th |-> th, l |-> l,
               id |-> "", force |-> force, res |-> IF d # 0 THEN "dup" ELSE IF ~win THEN "window" ELSE "ok",
               cls |-> IF d # 0 /\ MaxOps # 0 THEN DupClass(pp, l, d) ELSE "", win |-> win]
     IN /\ (d = 0 /\ win) => N < MaxNodes          \* bound: accepted blocks only while there is room
        /\ IF ok THEN /\ par' = Append(par, p) /\ ptr' = Append(ptr, pp)
                      /\ nts' = Append(nts, ts) /\ nth' = Append(nth, th)
                      /\ ntx' = Append(ntx, l) /\ st' = Append(st, "added")
                 ELSE UNCHANGED <<par, ptr, nts, nth, ntx, st>>
        /\ Log(r)

\* finalization of block k: tracker.Commit()
Commit(k) ==
  /\ Can /\ k \in Nodes /\ st[k] = "added" /\ Live(k)
  /\ LET chain == Uncommitted(k)
         cs == Range(chain)
         m == CommitSeq(Mgr, chain)
     IN /\ st' = [j \in Nodes |-> IF j \in cs THEN "committed" ELSE st[j]]
        /\ ptr' = [j \in Nodes |-> IF j \in cs THEN 0 ELSE ptr[j]]
        /\ locs' = m.locs /\ cacheQ' = m.cacheQ /\ maxTs' = m.maxTs /\ dbase' = m.dbase
        /\ pending' = m.pending
  /\ lastc' = k
  /\ UNCHANGED <<tsOf, par, nts, nth, ntx, base>>
  /\ Log([op |-> "commit", n |-> k, p |-> par[k], ts |-> nts[k], th |-> nth[k], l |-> <<>>, id |-> "", force |-> FALSE,
          res |-> "ok", cls |-> "", win |-> TRUE])

\* the flush worker finishes the DB write of the pending list
FlushDone ==
  /\ Can /\ pending # 0
  /\ LET m == FlushM(Mgr)
     IN /\ locs' = m.locs /\ cacheQ' = m.cacheQ /\ maxTs' = m.maxTs /\ dbase' = m.dbase
        /\ pending' = m.pending
  /\ UNCHANGED <<tsOf, par, ptr, nts, nth, ntx, st, lastc, base>>
  /\ Log([op |-> "flush", n |-> pending, p |-> 0, ts |-> 0, th |-> 0, l |-> <<>>, id |-> "", force |-> FALSE,
          res |-> "ok", cls |-> "", win |-> TRUE])

\* tracker.Has(id, ts) on tracker n, manager.Has for n = 0 (only recorded: no state change)
Has(n, id) ==
  /\ MaxOps # 0 /\ Can        \* (the exhaustive checker evaluates HasIsExact in every state instead)
  /\ n \in Nodes \cup {0} /\ (n # 0 => Live(n))
  /\ UNCHANGED <<tsOf, par, ptr, nts, nth, ntx, st, locs, cacheQ, maxTs, dbase, pending, lastc, base>>
  /\ Log([op |-> "has", n |-> n, p |-> 0, ts |-> 0, th |-> 0, l |-> <<>>, id |-> id, force |-> FALSE,
          res |-> IF THas(n, id) THEN "true" ELSE "false",
          cls |-> IF THas(n, id) THEN HitClass(PtrChain(n), id) ELSE "", win |-> TRUE])

\* the node restarts: Term() waits for the flush worker, unfinalized blocks are gone; a new manager is created over the
\* same DB (empty locator map and cache, maxTSInDB unknown) and a new root tracker with the current threshold
Restart(th) ==
  /\ Can /\ RestartOn /\ N < MaxNodes
  /\ LET m == IF pending # 0 THEN FlushM(Mgr) ELSE Mgr IN
     /\ dbase' = m.dbase /\ locs' = {} /\ cacheQ' = <<>> /\ maxTs' = 0 /\ pending' = 0
  /\ par' = Append(par, lastc) /\ ptr' = Append(ptr, 0) /\ nts' = Append(nts, 0) /\ nth' = Append(nth, th)
  /\ ntx' = Append(ntx, <<>>) /\ st' = Append(st, "added") /\ base' = N + 1
  /\ UNCHANGED <<tsOf, lastc>>
  /\ Log([op |-> "restart", n |-> N + 1, p |-> lastc, ts |-> 0, th |-> th, l |-> <<>>, id |-> "", force |-> FALSE,
          res |-> "ok", cls |-> "", win |-> TRUE])

Next == \/ \E p \in 1..MaxNodes, ts \in 1..MaxTs, th \in Ths, l \in Lists, f \in BOOLEAN : Block(p, ts, th, l, f)
        \/ \E th \in Ths : Restart(th)
        \/ \E k \in 1..MaxNodes : Commit(k)
        \/ FlushDone
        \/ \E n \in 0..MaxNodes, id \in Ids : Has(n, id)
Spec == Init /\ [][Next]_vars

----------------------------------------------------------------------------
(* Properties (C11) *)
Usable(n) == n \in Nodes /\ Live(n)
\* along every chain of accepted blocks no id occurs twice
NoDupOnChain ==
  \A n \in Nodes : Usable(n) =>
    /\ \A i, j \in Anc(n) : i # j => Range(ntx[i]) \cap Range(ntx[j]) = {}
    /\ \A i, j \in 1..Len(ntx[n]) : i # j => ntx[n][i] # ntx[n][j]
\* accepted transactions are inside (bt - th, bt + th]
AcceptedInWindow ==
  \A n \in Nodes : nts[n] # 0 =>
    \A i \in 1..Len(ntx[n]) : InWindow(tsOf[ntx[n][i]], nts[n], nth[n])
\* the look-ups answer exactly "is the id on the chain ending in this block / finalized"
HasIsExact ==
  /\ \A n \in Nodes, id \in Ids : Usable(n) => (THas(n, id) = OnChain(id, n))
  /\ \A id \in Ids : MgrHas(id) = Finalized(id)
\* the duplicate test of tracker.Add rejects a list exactly if it repeats an id of the chain or of itself
DecisionExact ==
  \A p \in Nodes, l \in Lists : Live(p) =>
    ((DupAt(PtrFor(p), l) = 0) <=> /\ \A i \in 1..Len(l) : ~OnChain(l[i], p)
                                   /\ \A i, j \in 1..Len(l) : i # j => l[i] # l[j])
\* everything finalized is findable: in the locator map or (once flushed) in the DB
TypeOK ==
  /\ pending # 0 => st[pending] = "committed"
  /\ \A j \in Range(cacheQ) : (st[j] = "committed" \/ j = base) /\ Range(ntx[j]) \subseteq dbase
  /\ \A id \in Ids : Finalized(id) => (id \in locs \/ id \in dbase)
  /\ dbase \subseteq {id \in Ids : Finalized(id)}
\* an accepted block is exactly a block without duplicate and inside the window (action property)
Last == hist'[Len(hist')]
AcceptIff ==
  [][(hist' # hist /\ Last.op = "block") =>
       LET l == Last.l
           fresh == \A i \in 1..Len(l) : ~OnChain(l[i], Last.p)
           distinct == \A i, j \in 1..Len(l) : i # j => l[i] # l[j]
       IN (Last.res = "ok") <=> (fresh /\ distinct /\ AllInWindow(Last.ts, Last.th, l))]_vars
=============================================================================
