SPECIFICATION Spec
CONSTANTS
  Ids = {"a"}
  MaxTs = 4
  Ths = {1, 2}
  MaxNodes = 4
  MaxList = 1
  Impl = "required"
  Group = "normal"
  ForceOn = FALSE
  RestartOn = FALSE
  MaxOps = 3
  Depth = 3
  Pattern <- PatNone
INVARIANT EmitRej
CONSTRAINT RejPrefix
