---- MODULE MC_ParallelExec ----
EXTENDS ParallelExec
\* exhaustive checker view: the history does not influence behaviour
ViewNoHist == <<prog, real, disp, dpc, las, wlock, wsnap, wbase, sysdep, ph, pc, att, saved, lastAL, lastWL, roCache,
                latch, rcpt, result, cancelled, init>>
====
