---- MODULE MC_TxPool ----
EXTENDS TxPool
ViewNoHist == <<pool, made, known, committed>>
====
