---------------------------- MODULE ParallelExec ----------------------------
(* Concurrent execution of the transactions of one block (C09, C10):
   service/transition_pe.go (executeTxsConcurrent, executionContext) on top of
   service/state/worldvirtualstate.go (lock-request futures) and worldContext.GetFuture.

   Transactions 1..K in block order.  Each declares locks (per account none/read/write, the world write
   lock, or the world read lock plus write locks), may call Ensure() in Prepare (as CallHandler does) and runs
   a program of reads and writes; its fate says how the execution ends
   (ok, non-retryable failure, retryable failure once, retryable failure until the retries are
   exhausted).  One action per critical section of the real code:

     Top      dispatcher loop top for the next transaction: error-latch check (executionContext.Error),
              then Prepare -> GetFuture -> applyLockRequests (futures: `depend` = last locker)
     Ensure   WorldVirtualState.Ensure() called by Prepare in the dispatcher: resolves every locked account now
              (waits for the commit of every dependency before the transaction is even started)
     Spawn    dispatcher passes executionContext.Ready (a free slot out of Level) and starts the goroutine
     Begin    goroutine start: GetSnapshot + UpdateSystemInfo (reads the system account under the implicit
              read lock added by worldContext.GetFuture: waits for the last world locker; a world-lock
              transaction realizes its base: waits for all predecessors)
     Step     one program operation: getAccountStateInLock (waitCommit of the dependency) + read / write
     EndExec  Execute (+ OnTransactionEnd) returns: success, retry (wvs.Reset, next attempt) or failure
              (executionContext.Report)
     Commit   wvs.Commit (may wait for dependencies of write-locked accounts never touched), Done
     Exit     dispatcher after the loop: Realize of the last future (waits for every commit), return
     Cancel   the owner of the transition calls the canceler while transactions are in flight (transition.cancelExecution):
              the dispatcher stops at its next loop top (ErrTransitionInterrupted); whatever the executor returns
              afterwards is not reported (reportExecution ignores a cancelled transition)

   Impl = "required": Report latches the first error, the dispatcher returns the latched error after
                      the final Realize.
   Impl = "code":     Report as written in transition_pe.go (latches only if an error is already set) and
                      no check after the final Realize.
   ImplWR = "required": a world-read-lock transaction is registered as world locker, later transactions wait for it.
   ImplWR = "code":     as written in applyLockRequests: only a world WRITE lock registers a locker; the reader
                        takes its base from real.GetSnapshot() when its predecessors have committed, which contains
                        whatever later transactions wrote in the meantime.
   Conformance replays always use "required". *)
EXTENDS Integers, Sequences, FiniteSets, TLC
CONSTANTS K,          \* transactions per block
          Acc,        \* account names (strings)
          Level,      \* concurrency level (number of slots)
          Impl,       \* "required" | "code"
          MaxLen,     \* operations per program
          Fates,      \* subset of {"ok", "fatal", "retry1", "retryx"}
          MaxFail,    \* at most that many transactions with a fate other than "ok"
          WorldTx,    \* subset of {"R", "W"}: kinds of world-lock transactions allowed
          EnsureTx,   \* BOOLEAN: transactions that call Ensure() in Prepare allowed
          ImplWR,     \* "required" | "code" (world read lock, see above)
          CancelOn,   \* BOOLEAN: the transition may be cancelled
          InitVals,   \* values an account may have before the block: 0 = the account does not exist yet, 9 = it exists
          RetryCount, \* service.RetryCount (2)
          MaxOps      \* 0: exhaustive checker (history keeps the last call only), n > 0: generator

Tx == 1..K
VARIABLES prog,       \* descriptor per dispatched transaction (chosen when it is dispatched)
          real,       \* the one mutable world: Acc -> value (0 = initial, t = written by transaction t)
          disp,       \* transactions prepared so far (GetFuture done for 1..disp, in block order)
          dpc,        \* dispatcher: "top" | "ensure" (inside Ensure of `disp`) | "ready" (prepared `disp`, waiting for a slot)
          las,        \* las[t][a] = [lock, dep, kind ("none","real","ro"), val]   lockedAccountState
          wlock,      \* world lock per transaction: "N", "R", "W", "U"
          wsnap,      \* committed world snapshot of a world-write-lock transaction
          wbase,      \* base snapshot of a world-read-lock transaction (taken when it begins)
          sysdep,     \* dependency of the implicit system-account read lock (last world locker or 0)
          ph,         \* "none" | "prepared" | "spawned" | "exec" | "done" | "committed"
          pc,         \* index of the next operation
          att,        \* attempt number (0 = first)
          saved,      \* values to restore on retry: saved[t][a]
          lastAL,     \* lastAccountLocker: Acc -> tx or 0
          lastWL,     \* lastWorldLocker: tx or 0
          roCache,    \* roAccounts: Acc -> value or -1
          latch,      \* executionContext.lastError (0 = nil, t = error of transaction t)
          rcpt,       \* receipt slot filled
          result,     \* "run" | "ok" | "err" | "cancelled" (nothing is reported)
          cancelled,  \* the canceler has been called
          init,       \* Acc -> value before the block
          hist
vars == <<prog, real, disp, dpc, las, wlock, wsnap, wbase, sysdep, ph, pc, att, saved, lastAL, lastWL, roCache,
          latch, rcpt, result, cancelled, init, hist>>

Ops == {"r", "w"} \X Acc
OpSeqs == UNION {[1..n -> Ops] : n \in 0..MaxLen}
Locks == [Acc -> {"N", "R", "W"}]
NoLocks == [a \in Acc |-> "N"]
\* a program only touches what it declared: reads need a read or write lock, writes a write lock
ValidProg(p) ==
  /\ p.world = "W" => (p.lock = NoLocks /\ ~p.twice)       \* (Ensure under the world write lock resolves nothing: patchHandler)
  /\ p.twice => \E a \in Acc : p.lock[a] = "W"              \* twice: every write lock is requested as read lock first, then as
                                                              \* write lock (CallHandler names From and To, which may be equal):
                                                              \* applyLockRequests keeps the stronger one
  \* under the world read lock account read locks are subsumed; writes still need a write lock
  /\ p.world = "R" => (~p.ens /\ \A a \in Acc : p.lock[a] # "R") /\
                       \A i \in 1..Len(p.ops) : p.ops[i][1] = "w" => p.lock[p.ops[i][2]] = "W"
  /\ p.world = "N" => \A i \in 1..Len(p.ops) :
        LET o == p.ops[i] IN IF o[1] = "w" THEN p.lock[o[2]] = "W" ELSE p.lock[o[2]] # "N"
Progs == {p \in [world : {"N"} \cup WorldTx, ens : IF EnsureTx THEN BOOLEAN ELSE {FALSE},
                 twice : IF EnsureTx THEN BOOLEAN ELSE {FALSE}, lock : Locks, ops : OpSeqs,
                 fate : Fates] : ValidProg(p)}

NoLas == [lock |-> "N", dep |-> 0, kind |-> "none", val |-> 0]
NoProg == [world |-> "N", ens |-> FALSE, twice |-> FALSE, lock |-> NoLocks, ops |-> <<>>, fate |-> "ok"]
Running == {t \in Tx : ph[t] \in {"spawned", "exec", "done"}}
Failures == Cardinality({t \in 1..disp : prog[t].fate # "ok"})

\* ---------------------------------------------------------------- sequential reference
WritesBefore(t, a, upto) == \E j \in 1..upto : prog[t].ops[j] = <<"w", a>>
RECURSIVE SeqVal(_, _, _)
\* value of account a just before operation i+1 of transaction t when the block is executed one by one
SeqVal(t, i, a) ==
  IF t = 0 THEN init[a]
  ELSE IF WritesBefore(t, a, i) THEN t
  ELSE SeqVal(t - 1, IF t - 1 = 0 THEN 0 ELSE Len(prog[t-1].ops), a)
\* fates: "nohandler" GetHandler fails (both executors), "noprep" Prepare fails (only the concurrent executor calls it),
\* "retryh" the first attempt fails retryably and GetHandler fails when the transaction is to be executed again
Fails(t) == prog[t].fate \in {"fatal", "retryx", "nohandler", "retryh"}       \* fails the block when executed one by one
ParFails(t) == Fails(t) \/ prog[t].fate = "noprep"                            \* fails the block in the concurrent executor
\* first transaction at which sequential execution fails the block (K+1: none)
FirstFail == IF \E t \in 1..disp : Fails(t) THEN CHOOSE t \in 1..disp : Fails(t) /\ \A u \in 1..(t-1) : ~Fails(u)
             ELSE K + 1

\* what the block does when executed one by one (carried by the last record of a generated behaviour)
SeqRef == [reads |-> [t \in Tx |-> [i \in 1..Len(prog[t].ops) |->
                        IF prog[t].ops[i][1] = "r" THEN SeqVal(t, i - 1, prog[t].ops[i][2]) ELSE t]],
           final |-> [a \in Acc |-> SeqVal(K, Len(prog[K].ops), a)],
           result |-> IF FirstFail <= K THEN "err" ELSE "ok",
           presult |-> IF \E t \in Tx : ParFails(t) THEN "err" ELSE "ok",
           first |-> FirstFail,
           init |-> init]

\* ---------------------------------------------------------------- guards (where the real code waits)
BeginGuard(t) == IF wlock[t] \in {"W", "R"} THEN \A u \in 1..(t-1) : ph[u] = "committed"
                 ELSE IF sysdep[t] = 0 THEN TRUE ELSE ph[sysdep[t]] = "committed"
StepGuard(t) == LET a == prog[t].ops[pc[t]][2]  l == las[t][a] IN
                IF wlock[t] = "W" \/ l.lock = "N" \/ l.dep = 0 THEN TRUE ELSE ph[l.dep] = "committed"
EnsureGuard == \A a \in Acc : IF las[disp][a].lock # "N" /\ las[disp][a].dep # 0 THEN ph[las[disp][a].dep] = "committed" ELSE TRUE
CommitGuard(t) == \A a \in Acc : IF las[t][a].lock = "W" /\ las[t][a].dep # 0 THEN ph[las[t][a].dep] = "committed" ELSE TRUE
SlotFree == Cardinality(Running) < Level
\* goroutines / the dispatcher parked inside the real code after this step (the replay driver lets them run
\* ahead and checks that they do not complete before the model allows it)
Blocked == {t \in Tx : \/ ph[t] = "spawned" /\ ~BeginGuard(t)
                       \/ ph[t] = "exec" /\ pc[t] <= Len(prog[t].ops) /\ ~StepGuard(t)
                       \/ ph[t] = "done" /\ ~CommitGuard(t)}
DispBlocked == dpc = "ready" /\ ~SlotFree
EnsureBlocked == dpc = "ensure" /\ ~EnsureGuard

\* ---------------------------------------------------------------- history
\* (once the dispatcher has returned the outcome of the block is decided: nothing else is recorded)
Can == result = "run" /\ (MaxOps = 0 \/ Len(hist) < MaxOps)
Final(r) == IF MaxOps = 0 THEN r ELSE r @@ [seq |-> SeqRef']
Rec(op, t) == [op |-> op, t |-> t, i |-> 0, k |-> "", a |-> "", val |-> 0, out |-> "", prog |-> NoProg]
Log(r) == hist' = IF MaxOps = 0 THEN <<r>>
                  ELSE Append(hist, r @@ [blk |-> Blocked', dblk |-> DispBlocked', eblk |-> EnsureBlocked', real |-> real', latch |-> latch'])

Init == /\ prog = [t \in Tx |-> NoProg] /\ init \in [Acc -> InitVals] /\ real = init /\ disp = 0 /\ dpc = "top"
        /\ las = [t \in Tx |-> [a \in Acc |-> NoLas]]
        /\ wlock = [t \in Tx |-> "N"] /\ wsnap = [t \in Tx |-> [a \in Acc |-> 0]]
        /\ wbase = [t \in Tx |-> [a \in Acc |-> -1]]
        /\ sysdep = [t \in Tx |-> 0] /\ ph = [t \in Tx |-> "none"] /\ pc = [t \in Tx |-> 0]
        /\ att = [t \in Tx |-> 0] /\ saved = [t \in Tx |-> [a \in Acc |-> 0]]
        /\ lastAL = [a \in Acc |-> 0] /\ lastWL = 0 /\ roCache = [a \in Acc |-> -1]
        /\ latch = 0 /\ rcpt = [t \in Tx |-> FALSE] /\ result = "run" /\ cancelled = FALSE /\ hist = <<>>

\* ---- dispatcher, loop top for transaction disp+1: latch check, Prepare -> GetFuture -> applyLockRequests
TopFail ==
  /\ Can /\ result = "run" /\ dpc = "top" /\ disp < K /\ (latch # 0 \/ cancelled)
  /\ result' = IF cancelled THEN "cancelled" ELSE "err"
  /\ UNCHANGED <<prog, real, disp, dpc, las, wlock, wsnap, wbase, sysdep, ph, pc, att, saved, lastAL, lastWL, roCache,
                 latch, rcpt, cancelled, init>>
  /\ Log(Final(Rec("topfail", disp + 1)))
Top(p) ==
  /\ Can /\ result = "run" /\ dpc = "top" /\ disp < K /\ latch = 0 /\ ~cancelled
  /\ p \in Progs /\ (p.fate # "ok" => Failures < MaxFail) /\ p.fate \notin {"nohandler", "noprep"}
  /\ LET t == disp + 1 IN
     /\ disp' = t /\ dpc' = (IF p.ens THEN "ensure" ELSE "ready")
     /\ prog' = [prog EXCEPT ![t] = p] /\ ph' = [ph EXCEPT ![t] = "prepared"]
     \* a world reader whose parent future is already committed (a committed world writer) takes that snapshot as base
     \* (as does the first transaction: NewWorldVirtualState takes the snapshot of the world at once)
     /\ wbase' = IF p.world # "R" THEN wbase
                 ELSE IF t = 1 THEN [wbase EXCEPT ![t] = real]
                 ELSE IF wlock[t-1] = "U" THEN [wbase EXCEPT ![t] = wsnap[t-1]] ELSE wbase
     /\ IF p.world = "W"
          THEN /\ wlock' = [wlock EXCEPT ![t] = "W"]
               /\ lastAL' = [a \in Acc |-> 0] /\ lastWL' = t
               /\ UNCHANGED <<las, roCache, sysdep, saved>>
          ELSE /\ wlock' = [wlock EXCEPT ![t] = p.world]
               /\ lastWL' = IF p.world = "R" /\ ImplWR = "required" THEN t ELSE lastWL
               /\ sysdep' = [sysdep EXCEPT ![t] = IF p.world = "R" THEN 0 ELSE lastWL]
               /\ las' = [las EXCEPT ![t] = [a \in Acc |->
                     IF p.lock[a] = "N" THEN NoLas
                     ELSE LET d == IF lastAL[a] # 0 THEN lastAL[a] ELSE lastWL IN
                          IF d # 0 THEN [lock |-> p.lock[a], dep |-> d, kind |-> "none", val |-> 0]
                          ELSE IF p.lock[a] = "W" THEN [lock |-> "W", dep |-> 0, kind |-> "real", val |-> 0]
                          ELSE [lock |-> "R", dep |-> 0, kind |-> "ro",
                                val |-> IF roCache[a] # -1 THEN roCache[a] ELSE real[a]]]]
               /\ roCache' = [a \in Acc |-> IF p.lock[a] = "R" /\ lastAL[a] = 0 /\ lastWL = 0 /\ roCache[a] = -1
                                             THEN real[a] ELSE roCache[a]]
               /\ lastAL' = [a \in Acc |-> IF p.lock[a] = "W" THEN t
                                             ELSE IF p.world = "R" /\ ImplWR = "required" THEN 0 ELSE lastAL[a]]
               /\ saved' = [saved EXCEPT ![t] = real]
     /\ UNCHANGED <<real, wsnap, pc, att, latch, rcpt, result, cancelled, init>>
     /\ Log([Rec("top", t) EXCEPT !.prog = p])
\* value of account a as seen through committed transaction d (d.GetAccountROState)
ViewOf(d, a) == IF wlock[d] = "U" THEN wsnap[d][a]
                ELSE IF wlock[d] = "R" /\ las[d][a].lock = "N" THEN wbase[d][a]
                ELSE las[d][a].val

\* ---- dispatcher, loop top: GetHandler or Prepare of the next transaction returns an error: the dispatcher returns it at once
\*      (transactions in flight go on; nothing of this transaction was registered)
TopRefuse(p) ==
  /\ Can /\ result = "run" /\ dpc = "top" /\ disp < K /\ latch = 0 /\ ~cancelled
  /\ p \in Progs /\ p.fate \in {"nohandler", "noprep"} /\ Failures < MaxFail
  /\ prog' = [prog EXCEPT ![disp + 1] = p] /\ disp' = disp + 1 /\ result' = "err"
  /\ UNCHANGED <<real, dpc, las, wlock, wsnap, wbase, sysdep, ph, pc, att, saved, lastAL, lastWL, roCache, latch, rcpt, cancelled, init>>
  /\ Log(Final([Rec("toprefuse", disp + 1) EXCEPT !.prog = p]))

\* ---- Prepare calls Ensure(): every locked account is resolved now, in the dispatcher
Ensure ==
  /\ Can /\ result = "run" /\ dpc = "ensure" /\ EnsureGuard
  /\ LET t == disp IN
     /\ las' = [las EXCEPT ![t] = [a \in Acc |->
           LET l == las[t][a] IN
           IF l.lock = "N" \/ l.dep = 0 THEN l
           ELSE IF l.lock = "W" THEN [l EXCEPT !.dep = 0, !.kind = "real"]
           ELSE [l EXCEPT !.dep = 0, !.kind = "ro", !.val = ViewOf(l.dep, a)]]]
     /\ saved' = [saved EXCEPT ![t] = [a \in Acc |->
           IF las[t][a].lock = "W" /\ las[t][a].dep # 0 THEN real[a] ELSE saved[t][a]]]
  /\ dpc' = "ready"
  /\ UNCHANGED <<prog, real, disp, wlock, wsnap, wbase, sysdep, ph, pc, att, lastAL, lastWL, roCache, latch, rcpt, result, cancelled, init>>
  /\ Log(Rec("ensure", disp))
\* ---- dispatcher passes ec.Ready() and starts the goroutine of transaction disp
Spawn ==
  /\ Can /\ result = "run" /\ dpc = "ready" /\ SlotFree
  /\ dpc' = "top" /\ ph' = [ph EXCEPT ![disp] = "spawned"]
  /\ UNCHANGED <<prog, real, disp, las, wlock, wsnap, wbase, sysdep, pc, att, saved, lastAL, lastWL, roCache, latch, rcpt, result, cancelled, init>>
  /\ Log(Rec("spawn", disp))


\* ---- goroutine start: GetSnapshot, SetTransactionInfo, UpdateSystemInfo
Begin(t) ==
  /\ Can /\ t \in Tx /\ ph[t] = "spawned" /\ BeginGuard(t)
  /\ ph' = [ph EXCEPT ![t] = "exec"] /\ pc' = [pc EXCEPT ![t] = 1]
  /\ saved' = IF wlock[t] = "W" THEN [saved EXCEPT ![t] = real] ELSE saved
  \* realizeBaseInLock of a world reader: base = parent.committed = real.GetSnapshot() now (unless it had a base already)
  /\ wbase' = IF wlock[t] = "R" /\ \E a \in Acc : wbase[t][a] = -1 THEN [wbase EXCEPT ![t] = real] ELSE wbase
  /\ UNCHANGED <<prog, real, disp, dpc, las, wlock, wsnap, sysdep, att, lastAL, lastWL, roCache, latch, rcpt, result, cancelled, init>>
  /\ Log(Rec("begin", t))

\* ---- one program operation of transaction t (getAccountStateInLock + read / write)
Step(t) ==
  /\ Can /\ t \in Tx /\ ph[t] = "exec" /\ pc[t] <= Len(prog[t].ops) /\ StepGuard(t)
  /\ LET o == prog[t].ops[pc[t]]  a == o[2]  l == las[t][a]
         nl == IF wlock[t] = "W" \/ l.lock = "N" \/ l.dep = 0 THEN l
               ELSE IF l.lock = "W" THEN [l EXCEPT !.dep = 0, !.kind = "real"]
               ELSE [l EXCEPT !.dep = 0, !.kind = "ro", !.val = ViewOf(l.dep, a)]
         seen == IF wlock[t] = "R" /\ l.lock = "N" THEN wbase[t][a]        \* world read lock: the base snapshot
                 ELSE IF wlock[t] = "W" \/ nl.kind = "real" THEN real[a] ELSE nl.val
     IN /\ las' = IF wlock[t] = "W" \/ l.lock = "N" THEN las ELSE [las EXCEPT ![t][a] = nl]
        \* a write lock whose dependency is resolved now: remember the value to restore on retry
        /\ saved' = IF wlock[t] # "W" /\ l.dep # 0 /\ l.lock = "W" THEN [saved EXCEPT ![t][a] = real[a]] ELSE saved
        /\ real' = IF o[1] = "w" THEN [real EXCEPT ![a] = t] ELSE real
        /\ pc' = [pc EXCEPT ![t] = @ + 1]
        /\ UNCHANGED <<prog, disp, dpc, wlock, wsnap, wbase, sysdep, ph, att, lastAL, lastWL, roCache, latch, rcpt, result, cancelled, init>>
        /\ Log([Rec("step", t) EXCEPT !.i = pc[t], !.k = o[1], !.a = a, !.val = IF o[1] = "r" THEN seen ELSE t])

\* ---- Execute (+ OnTransactionEnd) returns
Outcome(t) == LET f == prog[t].fate IN
  IF f = "ok" \/ (f = "retry1" /\ att[t] >= 1) THEN "ok"
  ELSE IF f = "fatal" THEN "fatal"
  ELSE IF f = "retryh" THEN "retryh"
  ELSE IF att[t] >= RetryCount THEN "exhausted" ELSE "retry"
EndExec(t) ==
  /\ Can /\ t \in Tx /\ ph[t] = "exec" /\ pc[t] = Len(prog[t].ops) + 1
  /\ LET out == Outcome(t) IN
     /\ CASE out = "ok" -> /\ rcpt' = [rcpt EXCEPT ![t] = TRUE] /\ ph' = [ph EXCEPT ![t] = "done"]
                           /\ UNCHANGED <<real, att, pc, latch>>
          [] out = "retry" -> \* wvs.Reset(snapshot taken at goroutine start), GetHandler, next attempt
                           /\ real' = [a \in Acc |->
                                 IF wlock[t] = "W" \/ (las[t][a].lock = "W" /\ las[t][a].kind = "real")
                                 THEN saved[t][a] ELSE real[a]]
                           /\ att' = [att EXCEPT ![t] = @ + 1] /\ pc' = [pc EXCEPT ![t] = 1]
                           /\ UNCHANGED <<rcpt, ph, latch>>
          [] out = "retryh" -> \* wvs.Reset, then GetHandler fails: executionContext.Report
                           /\ real' = [a \in Acc |->
                                 IF wlock[t] = "W" \/ (las[t][a].lock = "W" /\ las[t][a].kind = "real")
                                 THEN saved[t][a] ELSE real[a]]
                           /\ latch' = IF (IF Impl = "code" THEN latch # 0 ELSE latch = 0) THEN t ELSE latch
                           /\ ph' = [ph EXCEPT ![t] = "done"]
                           /\ UNCHANGED <<att, pc, rcpt>>
          [] OTHER -> \* executionContext.Report
                           /\ latch' = IF (IF Impl = "code" THEN latch # 0 ELSE latch = 0) THEN t ELSE latch
                           /\ ph' = [ph EXCEPT ![t] = "done"]
                           /\ UNCHANGED <<real, att, pc, rcpt>>
     /\ UNCHANGED <<prog, disp, dpc, las, wlock, wsnap, wbase, sysdep, saved, lastAL, lastWL, roCache, result, cancelled, init>>
     /\ Log([Rec("end", t) EXCEPT !.out = out, !.i = att[t]])

\* ---- wvs.Commit, ec.Done
Commit(t) ==
  /\ Can /\ t \in Tx /\ ph[t] = "done" /\ CommitGuard(t)
  /\ las' = [las EXCEPT ![t] = [a \in Acc |->
        IF las[t][a].lock # "W" THEN las[t][a]
        ELSE IF las[t][a].dep # 0 THEN [lock |-> "U", dep |-> 0, kind |-> "ro", val |-> ViewOf(las[t][a].dep, a)]
        ELSE [lock |-> "U", dep |-> 0, kind |-> "ro", val |-> real[a]]]]
  /\ IF wlock[t] = "W" THEN /\ wlock' = [wlock EXCEPT ![t] = "U"] /\ wsnap' = [wsnap EXCEPT ![t] = real]
     ELSE UNCHANGED <<wlock, wsnap>>
  /\ ph' = [ph EXCEPT ![t] = "committed"]
  /\ UNCHANGED <<prog, real, disp, dpc, wbase, sysdep, pc, att, saved, lastAL, lastWL, roCache, latch, rcpt, result, cancelled, init>>
  /\ Log(Rec("commit", t))

\* ---- dispatcher after the loop: Realize(last) waits for every commit, then return
Exit ==
  /\ Can /\ result = "run" /\ dpc = "top" /\ disp = K /\ \A t \in Tx : ph[t] = "committed"
  /\ result' = IF cancelled THEN "cancelled"
               ELSE IF Impl = "code" THEN "ok" ELSE (IF latch # 0 THEN "err" ELSE "ok")
  /\ UNCHANGED <<prog, real, disp, dpc, las, wlock, wsnap, wbase, sysdep, ph, pc, att, saved, lastAL, lastWL, roCache, latch, rcpt, cancelled, init>>
  /\ Log(Final([Rec("exit", 0) EXCEPT !.out = result']))

\* ---- the canceler is called
Cancel ==
  /\ Can /\ CancelOn /\ result = "run" /\ ~cancelled
  /\ cancelled' = TRUE
  /\ UNCHANGED <<prog, real, disp, dpc, las, wlock, wsnap, wbase, sysdep, ph, pc, att, saved, lastAL, lastWL, roCache,
                 latch, rcpt, result, init>>
  /\ Log(Rec("cancel", disp))

Next == \/ TopFail
        \/ \E p \in Progs : Top(p)
        \/ \E p \in Progs : TopRefuse(p)
        \/ Ensure
        \/ Spawn
        \/ \E t \in Tx : Begin(t)
        \/ \E t \in Tx : Step(t)
        \/ \E t \in Tx : EndExec(t)
        \/ \E t \in Tx : Commit(t)
        \/ Exit
        \/ Cancel
Spec == Init /\ [][Next]_vars
FairSpec == Spec /\ WF_vars(Next)

----------------------------------------------------------------------------
(* Properties *)
Last == hist'[Len(hist')]
Stepped == hist' # hist
\* C09: every value read is the value of the sequential execution (as long as sequential execution gets there)
ReadsAreSequential ==
  [][(Stepped /\ Last.op = "step" /\ Last.k = "r" /\ Last.t <= FirstFail) =>
        Last.val = SeqVal(Last.t, Last.i - 1, Last.a)]_vars
\* C09: a block reported as executed leaves the sequential final state
FinalEqualsSequential ==
  (result = "ok" /\ FirstFail = K + 1) => \A a \in Acc : real[a] = SeqVal(K, Len(prog[K].ops), a)
\* C10: a block reported as executed has a receipt for every transaction, and no transaction failed
NoSilentDrop == (result = "ok") => \A t \in Tx : rcpt[t] /\ ~ParFails(t)
\* C10: and the other way round: a block without failing transaction is not reported as failed
NoSpuriousFailure == (result = "err") => \E t \in 1..disp : ParFails(t)
\* C10: a cancelled transition never reports a (partial) success
NoResultAfterCancel == cancelled => result \in {"run", "cancelled", "err"}
\* the waits never deadlock: every execution ends
Termination == <>(result # "run")
TypeOK == /\ Cardinality(Running) <= Level
          /\ \A t \in Tx : ph[t] = "committed" => \A a \in Acc : las[t][a].lock # "W"
=============================================================================
