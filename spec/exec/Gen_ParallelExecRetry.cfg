SPECIFICATION GenSpec
CONSTANTS
  K = 3
  Acc = {"x", "y"}
  Level = 2
  Impl = "required"
  MaxLen = 2
  Fates = {"ok", "fatal", "retry1", "retryx"}
  MaxFail = 1
  WorldTx = {"W"}
  EnsureTx = FALSE
  ImplWR = "required"
  CancelOn = FALSE
  InitVals = {0}
  RetryCount = 2
  MaxOps = 60
INVARIANT Emit
CONSTRAINT RetryShape
